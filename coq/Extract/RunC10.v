(* C10 case runner (see harness/src/c10.rs for the case kinds).  Proof-half kinds are computed from Model/Totality.v,
   Model/Alloc.v and the models they import; the exploration kinds (x-...) have the constant line `total`: their models are
   total by construction and the check is the harness's panic / allocation predicate. *)
From Coq Require Import List Arith NArith ZArith Bool.
From Coq.Strings Require Import Byte.
From EV Require Import Base.Bytes Base.Codec Gen.Tables Model.Script Model.Taproot Model.Bech32 Model.Tx Model.Block Model.Alloc Model.Totality
  Extract.RunUtil Extract.RunAddr.
From EV Require Extract.RunC16.
Import ListNotations.
Open Scope N_scope.

Definition L (x : blit) : bytes := x.
Definition decs (s : bytes) : option (list N) := all_some (map N_of_dec (split_on x2c s [])).
Definition show_decs (sep : bytes) (l : list N) : bytes := match l with [] => L "-" | _ => join sep (map dec_of_N l) end.
Definition parse_bool (s : bytes) : option bool := if bytes_eqb s (L "1") then Some true else if bytes_eqb s (L "0") then Some false else None.
Definition parse_prof (s : bytes) : option profile := if bytes_eqb s (L "dbg") then Some Debug else if bytes_eqb s (L "rel") then Some Release else None.
Definition natlen {A} (l : list A) : bytes := dec_of_N (N.of_nat (length l)).
Definition show_out {A} (show : A -> bytes) (o : Totality.outcome A) : bytes :=
  match o with Totality.Val a => show a | Totality.Fail e => L "err " ++ e | Totality.Panic _ => L "panic" end.

(* ---------------------------------------------------------------- dec: consensus decoders + the allocation bound *)
Definition run_dec (ty : bytes) (z : list N) (valid : list bytes) (input : bytes) : bytes :=
  match z with
  | [maxvec; sz_in; sz_out; sz_v; sz_tx] =>
      let pt_ok := fun b => existsb (bytes_eqb b) valid in
      let n := lenN input in
      let res {A} (c : acodec A) (K k : N) : bytes :=
        (match deserialize (ac c) input with Some _ => L "ok" | None => L "err" end) ++ L " b=" ++ dec_of_N (K + k * n) in
      if bytes_eqb ty (L "tx") then res (a_tx pt_ok maxvec sz_in sz_out sz_v) (2 * maxvec) (k_tx sz_in sz_out sz_v)
      else if bytes_eqb ty (L "txin") then res (a_txin_nowit pt_ok maxvec) maxvec 1
      else if bytes_eqb ty (L "txout") then res (a_txout_nowit pt_ok maxvec) maxvec 1
      else if bytes_eqb ty (L "header") then res (a_header maxvec sz_v) (2 * maxvec) (k_stack sz_v)
      else if bytes_eqb ty (L "params") then res (a_params maxvec sz_v) (2 * maxvec) (k_stack sz_v)
      else if bytes_eqb ty (L "block") then res (a_block pt_ok maxvec sz_in sz_out sz_v sz_tx) (3 * maxvec) (k_block sz_in sz_out sz_v sz_tx)
      else if bytes_eqb ty (L "value") then res (a_leaf (c_value pt_ok)) 0 0
      else if bytes_eqb ty (L "asset") then res (a_leaf (c_asset pt_ok)) 0 0
      else if bytes_eqb ty (L "nonce") then res (a_leaf (c_nonce pt_ok)) 0 0
      else err "type"
  | _ => err "sizes" end.

Definition consumed (input rest : bytes) : bytes := dec_of_N (N.of_nat (length input - length rest)).
Definition run_low (kind : bytes) (maxvec sz : N) (input : bytes) : bytes :=
  if bytes_eqb kind (L "varint") then
    match vi_dec input with Some (n, r) => L "ok " ++ dec_of_N n ++ sp ++ consumed input r | None => L "err" end
  else if bytes_eqb kind (L "vecu8") then
    let c := a_varbytes maxvec in
    match dec (ac c) input with
    | Some (v, r) => L "ok n=" ++ natlen v ++ L " c=" ++ consumed input r ++ L " rsv=" ++ dec_of_N (rsv c input)
    | None => L "err rsv=" ++ dec_of_N (rsv c input) end
  else if bytes_eqb kind (L "vecvec") then
    let c := a_vecvec sz maxvec in
    match dec (ac c) input with
    | Some (v, r) => L "ok n=" ++ natlen v ++ L " c=" ++ consumed input r ++ L " rsv=" ++ dec_of_N (rsv c input)
    | None => L "err rsv=" ++ dec_of_N (rsv c input) end
  else if bytes_eqb kind (L "key") then
    match key_dec maxvec input with
    | (Totality.Val (t, key, r), k) => L "ok t=" ++ dec_of_N t ++ L " n=" ++ natlen key ++ L " c=" ++ consumed input r ++ L " rsv=" ++ dec_of_N k
    | (Totality.Fail _, k) => L "err rsv=" ++ dec_of_N k
    | (Totality.Panic _, _) => L "panic" end
  else err "kind".

(* ---------------------------------------------------------------- hrp *)
Definition show_h {A} (show : A -> bytes) (r : hres A) : bytes :=
  match r with HOk a => L "ok " ++ show a | HErr e => L "err " ++ b32err_name e | HPanic _ => L "panic" end.
Definition b01 (b : bool) : bytes := if b then L "1" else L "0".
Definition run_hrp (s : bytes) : bytes :=
  let u := show_h (fun '(h, d) => lower h ++ L " b32=" ++ b01 (match validate_checksum_p blech32 h d with HOk _ => true | _ => false end)
                                          ++ L " b32m=" ++ b01 (match validate_checksum_p blech32m h d with HOk _ => true | _ => false end)) (unchecked_new_p s) in
  let chk c := show_h (fun '(h, d) => lower h ++ sp ++ show_hex (data_bytes d)) (checked_new_p c s) in
  let seg r := show_h (fun '(h, ver, d) => lower h ++ sp ++ dec_of_N ver ++ sp ++ show_hex (data_bytes d)) r in
  L "u=[" ++ u ++ L "] c=[" ++ chk blech32 ++ L "] cm=[" ++ chk blech32m ++ L "] new=[" ++ seg (segwit_new_p s) ++ L "] nb=[" ++ seg (segwit_new_bech32_p s) ++ L "]".

(* ---------------------------------------------------------------- taproot / schnorr slices *)
Definition run_cb (kv : bool) (sl : bytes) : bytes :=
  show_out (fun c => L "ok ver=" ++ dec_of_N (b2n (cb_ver c)) ++ L " n=" ++ natlen (cb_branch c) ++ L " size=" ++ dec_of_N (cb_size c)
                     ++ L " rt=" ++ b01 (bytes_eqb (cb_serialize c) sl)) (cb_from_slice_p (fun _ => kv) sl).
Definition run_branch (sl : bytes) : bytes := show_out (fun b => L "ok n=" ++ natlen b) (branch_from_slice_p sl).
Definition run_ssig (sv : bool) (sl : bytes) : bytes :=
  let p := b01 (match schnorr_pset (fun _ => sv) sl with Totality.Val _ => true | _ => false end) in
  match schnorr_from_slice (fun _ => sv) sl with
  | Totality.Val (sig, ty) => L "ok ty=" ++ dec_of_N ty ++ L " rt=" ++ b01 (bytes_eqb (sig ++ (if ty =? 0 then [] else [n2b ty])) sl) ++ L " pset=" ++ p
  | Totality.Fail e => L "err " ++ e ++ L " pset=" ++ p
  | Totality.Panic _ => L "panic" end.

(* ---------------------------------------------------------------- builder *)
Definition berr_name (e : berr) : bytes :=
  match e with InvalidMerkleTreeDepth d => L "depth:" ++ dec_of_N d | NodeNotInDfsOrder => L "dfs" | OverCompleteTree => L "overcomplete"
             | IncompleteTree => L "incomplete" | EmptyTree => L "empty" end.
Definition parse_bitem (k : N) (s : bytes) : option Taproot.item :=
  match s with
  | c :: r => if byte_eqb c "h" then option_map (fun d => IHidden d (repeat (n2b k) 32)) (N_of_dec r)
              else option_map (fun d => ILeaf d [x51; n2b (k mod 256); n2b (k / 256)] (n2b TAPROOT_LEAF_TAPSCRIPT)) (N_of_dec s)
  | [] => None end.
Fixpoint parse_bitems (k : N) (l : list bytes) : option (list Taproot.item) :=
  match l with [] => Some [] | s :: r => match parse_bitem k s, parse_bitems (k + 1) r with Some a, Some t => Some (a :: t) | _, _ => None end end.
Fixpoint run_items (k : N) (items : list Taproot.item) (b : br) : br + (berr * N) :=
  match items with
  | [] => inl b
  | it :: r => match Taproot.insert triv (item_node triv it) (item_depth it) b with
               | Taproot.Ok b' => run_items (k + 1) r b' | Taproot.Err e => inr (e, k) end end.
Definition show_final (b : br) (with_tt with_root : bool) : bytes :=
  let flags := L " complete=" ++ b01 (is_complete b) ++ (if with_tt then L " taptree=" ++ b01 (is_complete b) else []) in
  match finalize_p b with
  | Taproot.Val i => L "ok" ++ flags ++ (if with_root then L " root=" ++ b01 (match si_root i with Some _ => true | None => false end) else [])
  | Taproot.Fail e => L "err " ++ berr_name e ++ flags
  | Taproot.Panic _ => L "panic" end.
Definition run_builder (s : bytes) : bytes :=
  match (if bytes_eqb s (L "-") then Some [] else parse_bitems 0 (split_on x2c s [])) with
  | None => err "depths"
  | Some items => match run_items 0 items [] with
                  | inr (e, k) => L "err " ++ berr_name e ++ L " at=" ++ dec_of_N k
                  | inl b => show_final b true true end end.
Definition run_sbuilder (s : bytes) : bytes :=
  let pat := if bytes_eqb s (L "-") then [] else split_on x2c s [] in
  let node := new_leaf triv [x51] (n2b TAPROOT_LEAF_TAPSCRIPT) in
  let branch := map (fun p => if bytes_eqb p (L "n") then None else Some node) pat in
  show_final (rev' branch) false false.

(* ---------------------------------------------------------------- xpub, blindsel, locktime *)
Definition parse_path (s : bytes) : option (list N) := if bytes_eqb s (L "-") then Some [] else all_some (map N_of_dec (split_on "/" s [])).
Definition run_xpub (f2 p2 f1 p1 : bytes) : bytes :=
  match bytes_of_hex f2, parse_path p2, bytes_of_hex f1, parse_path p1 with
  | Some f2, Some d2, Some f1, Some d1 =>
      show_out (fun r => match r with XKeep => L "ok " ++ hex_of_bytes f2 ++ sp ++ show_decs (L "/") d2
                                    | XReplace => L "ok " ++ hex_of_bytes f1 ++ sp ++ show_decs (L "/") d1 end) (merge_xpub f2 d2 f1 d1)
  | _, _, _, _ => err "fields" end.
Definition bout_of (c : byte) : bout :=
  if byte_eqb c "f" then {| bo_fee := true; bo_marked := false; bo_addr := false |}
  else if byte_eqb c "m" then {| bo_fee := false; bo_marked := true; bo_addr := true |}
  else if byte_eqb c "x" then {| bo_fee := false; bo_marked := true; bo_addr := false |}
  else {| bo_fee := false; bo_marked := false; bo_addr := false |}.
Definition run_blindsel (s : bytes) : bytes :=
  let outs := if bytes_eqb s (L "-") then [] else map bout_of s in
  show_out (fun l => L "ok n=" ++ natlen l ++ L " blinded=" ++ show_decs (L ",") (map N.of_nat l)) (blind_select outs).
Definition parse_lt (s : bytes) : option (option N * option N) :=
  match s with
  | c :: r =>
      if byte_eqb c "n" then (match r with [] => Some (None, None) | _ => None end)
      else if byte_eqb c "t" then option_map (fun n => (Some n, None)) (N_of_dec r)
      else if byte_eqb c "h" then option_map (fun n => (None, Some n)) (N_of_dec r)
      else if byte_eqb c "b" then match split_on "." r [] with [a; b] => match N_of_dec a, N_of_dec b with Some t, Some h => Some (Some t, Some h) | _, _ => None end | _ => None end
      else None
  | [] => None end.
Definition run_locktime (fb items : bytes) : bytes :=
  match (if bytes_eqb fb (L "-") then Some None else option_map Some (N_of_dec fb)),
        (if bytes_eqb items (L "-") then Some [] else all_some (map parse_lt (split_on x2c items []))) with
  | Some fallback, Some inputs => show_out (fun n => L "ok " ++ dec_of_N n) (locktime_p fallback inputs)
  | _, _ => err "fields" end.

(* ---------------------------------------------------------------- pegin, pegout, minimum_value *)
Definition parse_peglist (s : bytes) : option (list bytes) :=
  if bytes_eqb s (L "-") then Some [] else all_some (map (fun x => if bytes_eqb x (L ".") then Some [] else bytes_of_hex x) (split_on x2c s [])).
Definition run_pegin (s : bytes) : bytes :=
  match parse_peglist s with
  | None => err "hex"
  | Some w => show_out (fun p => L "ok value=" ++ dec_of_N (pg_value p) ++ L " asset=" ++ hex_of_bytes (pg_asset p) ++ L " genesis=" ++ hex_of_bytes (pg_genesis p)
                                 ++ L " claim=" ++ natlen (pg_claim p) ++ L " tx=" ++ natlen (pg_tx p) ++ L " proof=" ++ natlen (pg_proof p)) (from_pegin_witness w) end.
Definition run_pegout (vk : bytes) (s : bytes) : bytes :=
  let value := if bytes_eqb vk (L "e") then Some 77 else None in
  match is_null_data s, pegout_data value s with
  | Totality.Val nd, Totality.Val (Some p) =>
      L "some nd=" ++ b01 nd ++ L " value=" ++ dec_of_N (po_value p) ++ L " genesis=" ++ hex_of_bytes (po_genesis p) ++ L " spk=" ++ show_hex (po_spk p)
      ++ L " extra=" ++ (match po_extra p with [] => L "-" | l => join (L ",") (map show_hex l) end)
  | Totality.Val nd, Totality.Val None => L "none nd=" ++ b01 nd
  | _, _ => L "panic" end.
Definition run_minval (vk opret proof : bytes) : bytes :=
  match hexarg proof with
  | None => err "hex"
  | Some pb =>
      if negb (Script.is_empty pb) && negb (rangeproof_ok pb) then L "badproof" else
      let v := if bytes_eqb vk (L "e") then VKExplicit 12345 else if bytes_eqb vk (L "n") then VKNull else VKConf in
      show_out (fun n => L "ok " ++ dec_of_N n) (minimum_value_p v (bytes_eqb opret (L "1")) (if Script.is_empty pb then None else Some pb)) end.

(* ---------------------------------------------------------------- PSET value decoders *)
Definition run_psetval (ty : bytes) (kv : bool) (maxvec : N) (bs : bytes) : bytes :=
  if bytes_eqb ty (L "scriptver") then show_out (fun '(s, v) => L "ok " ++ show_hex s ++ sp ++ dec_of_N (b2n v)) (scriptver_p bs)
  else if bytes_eqb ty (L "xonlyleaf") then show_out (fun '(k, h) => L "ok " ++ hex_of_bytes k ++ sp ++ hex_of_bytes h) (xonlyleaf_p (fun _ => kv) bs)
  else if bytes_eqb ty (L "keysource") then show_out (fun '(f, p) => L "ok " ++ hex_of_bytes f ++ sp ++ show_decs (L "/") p) (keysource_p bs)
  else if bytes_eqb ty (L "leafks") then show_out (fun '(l, (f, p)) => L "ok " ++ natlen l ++ sp ++ hex_of_bytes f ++ sp ++ natlen p) (leafks_p maxvec bs)
  else if bytes_eqb ty (L "taptree") then show_out (fun b => L "ok " ++ dec_of_N (taptree_ser_len b)) (taptree_p triv triv maxvec bs)
  else err "type".
Definition strip_err (s : bytes) : bytes := if bytes_eqb (firstn 4 s) (L "err ") then L "err" else s.

(* ---------------------------------------------------------------- tapidx, fees, commit, ruint *)
Definition run_tapidx (nin nout idx_ pv ty : bytes) : bytes :=
  match N_of_dec nin, N_of_dec nout, N_of_dec idx_, N_of_dec ty, split_on ":" pv [] with
  | Some a, Some b, Some i, Some t, [k; v] =>
      match N_of_dec v with
      | Some v' =>
          let p := if bytes_eqb k (L "one") then POne (N.to_nat v') else PAll (N.to_nat v') in
          match sighash_from_u8 t with
          | None => L "badtype"
          | Some _ => show_out (fun _ => L "ok") (tap_index (N.to_nat a) (N.to_nat b) (N.to_nat i) p t) end
      | None => err "prevouts" end
  | _, _, _, _, _ => err "fields" end.
Fixpoint insert_sorted (x : N) (l : list N) : list N :=
  match l with [] => [x] | y :: r => if x <? y then x :: l else if x =? y then l else y :: insert_sorted x r end.
Definition parse_fee (s : bytes) : option (N * N) :=
  match split_on ":" s [] with [a; v] => match N_of_dec a, N_of_dec v with Some a', Some v' => Some (a', v') | _, _ => None end | _ => None end.
Definition run_fees (p : profile) (s : bytes) : bytes :=
  match (if bytes_eqb s (L "-") then Some [] else all_some (map parse_fee (split_on x2c s []))) with
  | None => err "items"
  | Some outs =>
      let assets := fold_right insert_sorted [] (map fst outs) in
      match all_some (map (fun a => match fee_in outs a with Totality.Val v => Some (dec_of_N a ++ L ":" ++ dec_of_N v) | _ => None end) assets) with
      | None => L "panic"
      | Some l => let t := match l with [] => L "-" | _ => join (L ",") l end in L "ok in=" ++ t ++ L " all=" ++ t end end.
Definition run_commit (len : N) (valid : bool) (buf : bytes) : bytes :=
  match from_commitment_p (fun _ => valid) (firstn (N.to_nat len) buf) with
  | Totality.Val b => if b then L "ok" else L "err"
  | Totality.Fail _ => L "err"
  | Totality.Panic _ => L "panic" end.
Definition run_ruint (p : profile) (size : N) (data : bytes) : bytes := show_out (fun n => L "ok " ++ dec_of_N n) (read_uint_p p data (N.to_nat size)).

(* ---------------------------------------------------------------- ctor: the small fallible integer constructors *)
Definition show_opt (o : option N) : bytes := match o with Some v => L "ok " ++ dec_of_N v | None => L "none" end.
Definition show_res_n (o : Totality.outcome N) : bytes := match o with Totality.Val v => L "ok " ++ dec_of_N v | Totality.Fail _ => L "err" | Totality.Panic _ => L "panic" end.
Definition run_ctor (f : bytes) (n : N) : bytes :=
  if bytes_eqb f (L "seqfloor") then show_res_n (seq_from_seconds_floor n)
  else if bytes_eqb f (L "seqceil") then show_res_n (seq_from_seconds_ceil n)
  else if bytes_eqb f (L "seqheight") then L "ok " ++ dec_of_N (seq_from_height n)
  else if bytes_eqb f (L "seq512") then L "ok " ++ dec_of_N (seq_from_512 n)
  else if bytes_eqb f (L "ltconsensus") then L "ok " ++ (if is_block_height n then L "b" else L "s") ++ dec_of_N n
  else if bytes_eqb f (L "ltheight") || bytes_eqb f (L "height") then show_res_n (lt_from_height n)
  else if bytes_eqb f (L "lttime") || bytes_eqb f (L "time") then show_res_n (lt_from_time n)
  else if bytes_eqb f (L "ecdsastd") then show_res_n (ecdsa_from_standard n)
  else if bytes_eqb f (L "psbtecdsa") then show_opt (match ecdsa_from_standard n with Totality.Val v => Some v | _ => None end)
  else if bytes_eqb f (L "schnorr") then show_opt (sighash_from_u8 n)
  else if bytes_eqb f (L "psbtschnorr") then show_opt (psbt_schnorr_hash_ty n)
  else if bytes_eqb f (L "leafver") then (match leafver_from_u8 n with Taproot.Ok v => L "ok " ++ dec_of_N (b2n v) | Taproot.Err _ => L "err" end)
  else if bytes_eqb f (L "ordinary") then show_opt (ordinary_try_from_all n)
  else err "ctor".

Definition starts_with (p s : bytes) : bool := bytes_eqb (firstn (length p) s) p.

Definition run (args : list bytes) : bytes :=
  match args with
  | k :: rest =>
      if starts_with (L "x-") k then L "total"
      else match rest with
      | [a] =>
          if bytes_eqb k (L "script") then RunC16.run [L "script"; a]
          else if bytes_eqb k (L "rint") then RunC16.run [L "rint"; a]
          else if bytes_eqb k (L "addr") then match hexarg a with Some s => show_four s | None => err "hex" end
          else if bytes_eqb k (L "hrp") then match hexarg a with Some s => run_hrp s | None => err "hex" end
          else if bytes_eqb k (L "branch") then match hexarg a with Some s => run_branch s | None => err "hex" end
          else if bytes_eqb k (L "builder") then run_builder a
          else if bytes_eqb k (L "sbuilder") then run_sbuilder a
          else if bytes_eqb k (L "blindsel") then run_blindsel a
          else if bytes_eqb k (L "pegin") then run_pegin a
          else err "kind"
      | [a; b] =>
          if bytes_eqb k (L "cb") then match parse_bool a, hexarg b with Some kv, Some s => run_cb kv s | _, _ => err "fields" end
          else if bytes_eqb k (L "ssig") then match parse_bool a, hexarg b with Some kv, Some s => run_ssig kv s | _, _ => err "fields" end
          else if bytes_eqb k (L "locktime") then run_locktime a b
          else if bytes_eqb k (L "pegout") then match hexarg b with Some s => run_pegout a s | None => err "hex" end
          else if bytes_eqb k (L "fees") then match parse_prof a with Some p => run_fees p b | None => err "profile" end
          else if bytes_eqb k (L "varint") || bytes_eqb k (L "vecu8") || bytes_eqb k (L "vecvec") || bytes_eqb k (L "key") then
            match decs a, hexarg b with Some [maxvec; sz], Some s => run_low k maxvec sz s | _, _ => err "fields" end
          else err "kind"
      | [a; b; c] =>
          if bytes_eqb k (L "minval") then run_minval a b c
          else if bytes_eqb k (L "psetval") then
            match decs b, hexarg c with Some [kv; maxvec], Some s => strip_err (run_psetval a (negb (kv =? 0)) maxvec s) | _, _ => err "fields" end
          else if bytes_eqb k (L "ctor") then match parse_prof a, N_of_dec c with Some _, Some n => run_ctor b n | _, _ => err "fields" end
          else if bytes_eqb k (L "ruint") then match parse_prof a, N_of_dec b, hexarg c with Some p, Some n, Some s => run_ruint p n s | _, _, _ => err "fields" end
          else err "kind"
      | [a; b; c; d] =>
          if bytes_eqb k (L "dec") then match decs b, hexlist c, hexarg d with Some z, Some v, Some s => run_dec a z v s | _, _, _ => err "fields" end
          else if bytes_eqb k (L "xpub") then run_xpub a b c d
          else if bytes_eqb k (L "commit") then match N_of_dec b, parse_bool c, hexarg d with Some n, Some v, Some s => run_commit n v s | _, _, _ => err "fields" end
          else err "kind"
      | [a; b; c; d; e] => if bytes_eqb k (L "tapidx") then run_tapidx a b c d e else err "kind"
      | _ => err "args" end
  | [] => err "args" end.
