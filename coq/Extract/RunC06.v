From Coq Require Import List NArith Bool.
From Coq.Strings Require Import Byte.
From EV Require Import Base.Bytes Model.Bech32 Model.Base58 Model.Address Extract.RunUtil Extract.RunAddr.
Import ListNotations.
Open Scope N_scope.

(* "pkh" | "sh" | "wp<ver>" *)
Definition payload_of (kind : bytes) (data : bytes) : option payload :=
  if bytes_eqb kind "pkh"%lb then Some (PubkeyHash data)
  else if bytes_eqb kind "sh"%lb then Some (ScriptHash data)
  else match kind with
       | x77 :: x70 :: v => match N_of_dec v with Some n => Some (WitnessProgram n data) | None => None end
       | _ => None end.

Definition disp_of (r : ares address) : bytes := match r with AOk a => show_addr_string a | AErr _ => "-"%lb end.

Definition run (args : list bytes) : bytes :=
  match args with
  (* C06 a <net> <kind> <payload hex> <blinder hex|->  : Display, then every parser on the text and on its upper-case form *)
  | [k; net; kind; pl; bl] =>
      if bytes_eqb k "a"%lb then
        match params_of_name net, hexarg pl, hexarg bl with
        | Some p, Some data, Some blinder =>
            match payload_of kind data with
            | Some pay =>
                let a := mkAddr p pay (match blinder with [] => None | _ => Some blinder end) in
                let s := show_addr_string a in
                s ++ sp ++ show_four s ++ " up=["%lb ++ show_res (parse_str (upper s)) ++ "]"%lb
            | None => err "kind" end
        | _, _, _ => err "args" end
      else err "args"
  (* C06 s <string> : every parser, and the re-display of what FromStr returned *)
  | [k; s] =>
      if bytes_eqb k "s"%lb then show_four s ++ " disp="%lb ++ disp_of (parse_str s) else err "args"
  | _ => err "args" end.
