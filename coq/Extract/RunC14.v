From Coq Require Import List NArith Bool.
From Coq.Strings Require Import Byte.
From EV Require Import Base.Bytes Base.Sha256 Gen.Tables Model.PsetMap Model.PsetTx Model.PsetMerge Extract.RunUtil Extract.RunPset.
Import ListNotations.

Definition run_merge : pset -> pset -> outcome pset := merge bytes_eqb run_uid.
Definition show_res (o : outcome pset) : bytes := show_outcome show_pset o.

(* every permutation and every grouping of a family (at most 4 members in the cases) *)
Fixpoint insert_all {A} (x : A) (l : list A) : list (list A) :=
  match l with [] => [[x]] | y :: r => (x :: l) :: map (cons y) (insert_all x r) end.
Fixpoint perms {A} (l : list A) : list (list A) := match l with [] => [[]] | x :: r => flat_map (insert_all x) (perms r) end.
Fixpoint shapes (fuel : nat) (l : list pset) : list mtree :=
  match fuel with O => [] | S f =>
    match l with
    | [] => []
    | [x] => [MLeaf x]
    | _ => flat_map (fun k => flat_map (fun a => map (fun b => MNode a b) (shapes f (skipn k l))) (shapes f (firstn k l))) (seq 1 (length l - 1))
    end end.
Definition left_fold (l : list pset) : option mtree :=
  match l with [] => None | x :: r => Some (fold_left (fun t p => MNode t (MLeaf p)) r (MLeaf x)) end.
Definition run_tree (t : mtree) : outcome pset := eval_tree bytes_eqb run_uid t.

Definition xpub_class (r : xres) : bytes := match r with XKeep => "keep"%lb | XTake => "take"%lb | XConflict => "conflict"%lb | XPanic => "panic"%lb end.

(* cases:  merge <A> <B>   |   fam <P1> .. <Pk>   |   xpub <xpub> <self key source> <other key source> *)
Definition run (args : list bytes) : bytes :=
  match args with
  | k :: rest =>
      if bytes_eqb k "merge"%lb then
        match rest with
        | [a; b] => match parse_pset a, parse_pset b with Some a, Some b => show_res (run_merge a b) | _, _ => err "parse" end
        | _ => err "args" end
      else if bytes_eqb k "fam"%lb then
        match all_some (map parse_pset rest) with
        | Some ps =>
            match left_fold ps with
            | Some t =>
                let first := show_res (run_tree t) in
                let all := flat_map (fun p => map (fun t => show_res (run_tree t)) (shapes (S (length p)) p)) (perms ps) in
                first ++ " alleq="%lb ++ show_bool (forallb (bytes_eqb first) all)
            | None => err "empty" end
        | None => err "parse" end
      else if bytes_eqb k "xpub"%lb then
        match rest with
        | [_; s; o] => match hexarg s, hexarg o with
                       | Some s, Some o => xpub_class (reconcile o s)
                       | _, _ => err "hex" end
        | _ => err "args" end
      else err "kind"
  | [] => err "args" end.
