(* Shared by RunC17 / RunC06: the address model instantiated with the executable SHA-256 and secp256k1 key test, and the
   canonical text form of parse results (the Rust harness prints the same text from the real crate's values). *)
From Coq Require Import List NArith Bool.
From Coq.Strings Require Import Byte.
From EV Require Import Base.Bytes Base.Sha256 Base.SecpField Model.Bech32 Model.Base58 Model.Address Extract.RunUtil.
Import ListNotations.
Open Scope N_scope.

Definition parse_with (s : bytes) (p : params) : ares address := parse_with_params sha256d pubkey33_valid s p.
Definition parse_str (s : bytes) : ares address := from_str sha256d pubkey33_valid s.
Definition show_addr_string (a : address) : bytes := display sha256d a.

Definition b32err_name (e : b32err) : bytes :=
  match e with
  | EInvalidChar => "invalidchar"%lb | EMixedCase => "mixedcase"%lb | EMissingSep => "missingsep"%lb
  | EHrpEmpty => "hrpempty"%lb | EHrpTooLong => "hrptoolong"%lb | EHrpNonAscii => "hrpnonascii"%lb
  | EHrpInvalidByte => "hrpinvalidbyte"%lb | EHrpMixedCase => "hrpmixedcase"%lb
  | ENoData => "nodata"%lb | ETooLong => "toolong"%lb | EWitVer => "witver"%lb
  | ECkCodeLength => "codelength"%lb | ECkLength => "cklength"%lb | ECkResidue => "residue"%lb
  | EPadTooMuch => "padtoomuch"%lb | EPadNonZero => "padnonzero"%lb
  | EWlShort => "wlshort"%lb | EWlLong => "wllong"%lb | EWlV0 => "wlv0"%lb end.
Definition b58err_name (e : b58err) : bytes :=
  match e with B58InvalidChar => "invalidchar"%lb | B58TooShort => "tooshort"%lb | B58Checksum => "checksum"%lb end.
Definition aerr_name (e : aerr) : bytes :=
  match e with
  | ABase58 e => "base58:"%lb ++ b58err_name e
  | ABech32 e => "bech32:"%lb ++ b32err_name e
  | ABlech32 e => "blech32:"%lb ++ b32err_name e
  | AInvalidAddress => "invalidaddress"%lb | AInvalidSegwitV0Encoding => "invalidsegwitv0encoding"%lb
  | AInvalidBlindingPubKey => "invalidblindingpubkey"%lb | AInvalidLength => "invalidlength"%lb
  | AInvalidAddressVersion => "invalidaddressversion"%lb
  | AInvalidWitnessProgramLength => "invalidwitnessprogramlength"%lb end.

(* "ok <bech hrp of the network> <pkh|sh|wp<ver>> <payload hex> <blinder hex>" *)
Definition show_addr (a : address) : bytes :=
  let pl := match a_payload a with
            | PubkeyHash h => "pkh "%lb ++ show_hex h
            | ScriptHash h => "sh "%lb ++ show_hex h
            | WitnessProgram v prog => "wp"%lb ++ dec_of_N v ++ sp ++ show_hex prog end in
  "ok "%lb ++ p_bech (a_params a) ++ sp ++ pl ++ sp ++ match a_blinder a with Some b => show_hex b | None => "-"%lb end.
Definition show_res (r : ares address) : bytes :=
  match r with AOk a => show_addr a | AErr e => "err "%lb ++ aerr_name e end.
Definition is_ok (r : ares address) : bool := match r with AOk _ => true | AErr _ => false end.

(* the four observation points: FromStr and parse_with_params under each built-in network *)
Definition four (s : bytes) : list (ares address) := parse_str s :: map (parse_with s) builtin.
Definition show_four (s : bytes) : bytes :=
  match four s with
  | [a; b; c; d] => "fs=["%lb ++ show_res a ++ "] liq=["%lb ++ show_res b ++ "] ele=["%lb ++ show_res c ++ "] tliq=["%lb ++ show_res d ++ "]"%lb
  | _ => err "four" end.

Definition params_of_name (n : bytes) : option params :=
  if bytes_eqb n "liq"%lb then Some LIQUID else if bytes_eqb n "ele"%lb then Some ELEMENTS
  else if bytes_eqb n "tliq"%lb then Some LIQUID_TESTNET else None.
