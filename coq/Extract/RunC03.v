(* C03 case runner.
   case:   "C03 <caps> <valid points> <tx hex> <spent: txout hex list> <genesis hex> <queries>"   (syntax of RunC13.v, no W)
   Every query is answered on a FRESH cache.
   result: ';'-separated   <digest>,<pre-image>,<spec>   with <digest>/<pre-image> = ok:<hex> | err:<class> | panic  (implementation model)
           and <spec> = s= (the specification defines this query and gives the same message and digest)
                      | s! (the specification gives something else)      | s- (the specification defines no message here)
                      | s? (Prevouts::One not for the signed input / without ANYONECANPAY: nothing to compare) *)
From Coq Require Import List NArith Bool.
From Coq.Strings Require Import Byte.
From EV Require Import Base.Bytes Base.Codec Base.Sha256 Gen.Tables Model.Tx Model.SighashImpl Model.SighashCache Model.SighashSpec Model.SighashQuery
  Extract.RunUtil Extract.RunC01 Extract.RunC13.
Import ListNotations.
Open Scope N_scope.

Definition sres_is (r : sres bytes) (b : bytes) : bool := match r with SOk x => bytes_eqb x b | _ => false end.
Definition answer (pt_ok : bytes -> bool) (maxvec : N) (t : tx) (spent : list txout) (o : op) : bytes :=
  let d := impl_digest pt_ok maxvec sha256 htapsighash t o in
  let m := impl_msg pt_ok maxvec sha256 t o in
  let marker :=
    if negb (comparable o) then L "s?" else
    match spec_digest pt_ok sha256 htapsighash true t spent o with
    | None => L "s-"
    | Some sd =>
        let msg_ok := match spec_msg pt_ok sha256 true t spent o with Some sm => sres_is m sm | None => true end in
        if sres_is d sd && msg_ok then L "s=" else L "s!" end in
  show_sres d ++ L "," ++ show_sres m ++ L "," ++ marker.

(* an optional 7th word "expect=<digests>" (pinned vectors; checked on the implementation side) is ignored here *)
Definition run (args : list bytes) : bytes :=
  match (match args with [a; b; c; d; e; f; _] => [a; b; c; d; e; f] | _ => args end) with
  | [caps; pts; txh; sp; gen; qs] =>
      match caps5 caps, hexlist pts, hexarg txh, hexarg gen with
      | Some (maxvec, ci, co, cv, ct), Some valid, Some txb, Some genesis =>
          let pt_ok := mem_bytes valid in
          match deserialize (c_tx pt_ok maxvec ci co cv) txb with
          | None => err "tx"
          | Some t =>
              match (if bytes_eqb sp (L "-") then Some [] else all_some (map (parse_txout pt_ok maxvec) (split_on x2c sp []))) with
              | None => err "spent"
              | Some spent =>
                  match all_some (map (parse_op pt_ok maxvec cv spent genesis) (split_on x3b qs [])) with
                  | None => err "ops"
                  | Some os => join (L ";") (map (answer pt_ok maxvec t spent) os)
                  end end end
      | _, _, _, _ => err "parse" end
  | _ => err "args" end.
