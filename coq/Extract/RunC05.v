(* C05 case runner.
   "C05 tamper <fields of a C04 blind case> tamper=<T>"  — the model blinds as in C04, applies the tamper to its (opened,
        ideal) transaction and spent outputs, and verifies:   result "app=<0|1> chg=<0|1> base=<verdict> tampered=<verdict>"
   "C05 explicit in=.. out=.. spentlen=<n>"               — no blinding; verify the transaction as given against the first
        n spent outputs (n may differ from the number of inputs; a missing one is replaced by nothing, an extra one is a copy
        of the first):                                      result "<verdict>"
   T = oval:j:<V> | oasset:j:<A> | swapval:j:k | swapasset:j:k | rmrp:j | swaprp:j:k | corrp:j | rmsp:j | swapsp:j:k | corsp:j
     | script:j:<hex> | iss:i:<a|k>:<dec> | sval:i:<V> | sasset:i:<A>
   V = E<dec> | C<dec>.<vbf hex>.<asset hex>.<abf hex>      (the commitment dec·(H_asset + abf·G) + vbf·G)
   A = E<asset hex> | C<asset hex>.<abf hex> *)
From Coq Require Import List NArith ZArith Bool.
From Coq.Strings Require Import Byte.
From EV Require Import Base.Bytes Base.Zn Base.FreeMod Model.Script Model.Ideal Model.Verify Model.Blind Model.Tamper Model.ExactProofs
  Extract.RunUtil Extract.RunC04.
Import ListNotations.
Open Scope Z_scope.

Definition dots (s : bytes) : list bytes := split_on x2e s [].
Definition nat_dec (s : bytes) : option nat := match N_of_dec s with Some n => Some (N.to_nat n) | None => None end.
Definition parse_V (s : bytes) : option cvalue :=
  match s with
  | x45 :: r => match zdec r with Some v => Some (VExp v) | None => None end
  | x43 :: r => match dots r with
                | [v; vbf; a; abf] => match zdec v, zhex vbf, nhex a, zhex abf with
                                      | Some v, Some vbf, Some a, Some abf => Some (VConf (commit v (asset_gen a abf) vbf))
                                      | _, _, _, _ => None end
                | _ => None end
  | _ => None end.
Definition parse_A (s : bytes) : option casset :=
  match s with
  | x45 :: r => match nhex r with Some a => Some (AExp a) | None => None end
  | x43 :: r => match dots r with
                | [a; abf] => match nhex a, zhex abf with Some a, Some abf => Some (AConf (asset_gen a abf)) | _, _ => None end
                | _ => None end
  | _ => None end.
Definition parse_tamper (s : bytes) : option tamper :=
  match colons s with
  | k :: j :: rest =>
      match nat_dec j with
      | None => None
      | Some j =>
          let two (f : nat -> nat -> tamper) := match rest with [k2] => match nat_dec k2 with Some k2 => Some (f j k2) | None => None end | _ => None end in
          let one (t : tamper) := match rest with [] => Some t | _ => None end in
          if bytes_eqb k "oval"%lb then match rest with [v] => option_map (TOutValue j) (parse_V v) | _ => None end
          else if bytes_eqb k "oasset"%lb then match rest with [a] => option_map (TOutAsset j) (parse_A a) | _ => None end
          else if bytes_eqb k "swapval"%lb then two TSwapValue
          else if bytes_eqb k "swapasset"%lb then two TSwapAsset
          else if bytes_eqb k "rmrp"%lb then one (TRemoveRp j)
          else if bytes_eqb k "swaprp"%lb then two TSwapRp
          else if bytes_eqb k "corrp"%lb then one (TCorruptRp j)
          else if bytes_eqb k "rmsp"%lb then one (TRemoveSp j)
          else if bytes_eqb k "swapsp"%lb then two TSwapSp
          else if bytes_eqb k "corsp"%lb then one (TCorruptSp j)
          else if bytes_eqb k "script"%lb then match rest with [h] => option_map (TScript j) (hexarg h) | _ => None end
          else if bytes_eqb k "iss"%lb then
            match rest with
            | [w; v] => match zdec v with
                        | Some v => Some (TIssuance j (if bytes_eqb w "a"%lb then IssAmount else IssKeys) (VExp v))
                        | None => None end
            | _ => None end
          else if bytes_eqb k "sval"%lb then match rest with [v] => option_map (TSpentValue j) (parse_V v) | _ => None end
          else if bytes_eqb k "sasset"%lb then match rest with [a] => option_map (TSpentAsset j) (parse_A a) | _ => None end
          else None
      end
  | _ => None end.

Definition run_tamper (c : c04case) (t : tamper) : bytes :=
  match blind i_pubk i_ecdh (cs_prof c) (cs_rnd c) (cs_secrets c) (cs_tx c) with
  | OVal (t', _) =>
      let x := (t', cs_spent c) in
      let '(t2, spent2) := apply t x in
      "app="%lb ++ show_bool (applicable t x) ++ " chg="%lb ++ show_bool (changes t x)
      ++ " base="%lb ++ show_verdict (verify_tx_amt_proofs t' (cs_spent c))
      ++ " tampered="%lb ++ show_verdict (verify_tx_amt_proofs t2 spent2)
  | OFail e => "err "%lb ++ show_blind_err e
  | OPanic _ => "panic"%lb
  end.

Fixpoint resize {A} (l : list A) (n : nat) (d : option A) : list A :=
  match n with
  | O => []
  | S n' => match l with x :: r => x :: resize r n' d | [] => match d with Some x => x :: resize [] n' d | None => [] end end
  end.
Definition run_explicit (args : list bytes) : bytes :=
  match field "in"%lb args, field "out"%lb args, field "spentlen"%lb args with
  | Some ins, Some outs, Some sl =>
      match all_some (map parse_in (semis ins)), all_some (map parse_out (semis outs)), nat_dec sl with
      | Some ins, Some outs, Some sl =>
          let spent := map (fun e => fst (fst e)) ins in
          show_verdict (verify_tx_amt_proofs (mkTx (map snd ins) (map fst outs)) (resize spent sl (hd_error spent)))
      | _, _, _ => err "parse" end
  | _, _, _ => err "fields" end.

(* "C05 opened in=.. bout=<B;B;..> tamper=<T> [vec=..]"  — a transaction that was NOT blinded by the model (a real-network
   vector): the case gives an opened form — for the repository's vectors a FABRICATED one, the true openings being unknown:
   any assignment of assets, amounts and blinding factors that balances gives the same ideal verdicts —
   B = <asset hex32>:<amount dec>:<abf hex32>:<vbf hex32>:<script hex|->:<c|e|v|a>
       c = confidential asset and value, e = explicit, v = EXPLICIT asset + CONFIDENTIAL value (commitment on the unblinded generator,
       range proof, no surjection proof), a = CONFIDENTIAL asset + EXPLICIT amount (surjection proof, no range proof).
   Without `vec=` the transaction was built by the harness from exactly this opened form with the real library (mixed outputs). *)
Definition parse_bout (s : bytes) : option (secrets * bytes * bytes) :=
  match colons s with
  | [a; v; abf; vbf; sc; k] =>
      match nhex a, zdec v, zhex abf, zhex vbf, hexarg sc with
      | Some a, Some v, Some abf, Some vbf, Some sc => Some (mkSec a abf v vbf, sc, k)
      | _, _, _, _, _ => None end
  | _ => None end.
Definition build_bout (ss : list secrets) (e : secrets * bytes * bytes) : option txout :=
  let '(s, sc, k) := e in
  if bytes_eqb k "c"%lb then
    match with_txout_secrets i_pubk i_ecdh sc 1 1 s (map sinput_of_secrets ss) with OVal o => Some o | _ => None end
  else if bytes_eqb k "v"%lb then
    (* Value::new_confidential(value, Generator::new_unblinded(tag), vbf) + RangeProof::new(.., that generator) *)
    let gen := gH (s_asset s) in
    let c := commit (s_value s) gen (s_vbf s) in
    match rp_new c (s_value s) (s_vbf s) (s_asset s, 0) sc 1 gen with
    | Some rp => Some (mkOut (AExp (s_asset s)) (VConf c) NNull sc (Some rp) None)
    | None => None end
  else if bytes_eqb k "a"%lb then
    (* Asset::blind(abf, spent secrets) ; the amount stays explicit *)
    match asset_blind (AExp (s_asset s)) (s_abf s) (map sinput_of_secrets ss) with
    | OVal (a', sp) => Some (mkOut a' (VExp (s_value s)) NNull sc None (Some sp))
    | _ => None end
  else Some (mkOut (AExp (s_asset s)) (VExp (s_value s)) NNull sc None None).
Definition run_opened (args : list bytes) : bytes :=
  match field "in"%lb args, field "bout"%lb args, field "tamper"%lb args with
  | Some ins, Some outs, Some ts =>
      match all_some (map parse_in (semis ins)), all_some (map parse_bout (semis outs)), parse_tamper ts with
      | Some ins, Some outs, Some t =>
          match all_some (map (build_bout (all_secrets ins)) outs) with
          | Some touts =>
              let T := mkTx (map snd ins) touts in
              let spent := map (fun e => fst (fst e)) ins in
              let x := (T, spent) in
              let '(t2, spent2) := apply t x in
              "app="%lb ++ show_bool (applicable t x) ++ " chg="%lb ++ show_bool (changes t x)
              ++ " base="%lb ++ show_verdict (verify_tx_amt_proofs T spent)
              ++ " tampered="%lb ++ show_verdict (verify_tx_amt_proofs t2 spent2)
          | None => err "build" end
      | _, _, _ => err "parse" end
  | _, _, _ => err "fields" end.

(* "C05 exact k=v asset=<hex32> abf=<hex32> value=<dec> vbf=<hex32> mk=<e|w.<min dec>.<bits dec>> claim=<dec> vgen=<asset hex>.<abf hex> vcom=<dec>.<vbf hex>"
        gen = H_asset + abf G, c = value gen + vbf G.  mk=e: blind_value_proof(value, c, gen, vbf); mk=w.m.b: RangeProof::new(min_value = m, c, value,
        vbf, no message, no additional commitment, exp = 0, min_bits = b, gen).  Then (1) RangeProof::verify against its own statement and
        (2) blind_value_proof_verify(claim, vgen, vcom) with vcom = dec gen + vbf' G:   result "made=1 range=<start>..<end> ok=<0|1>" | "made=0"
   "C05 exact k=a asset=<hex32> abf=<hex32> claim=<asset hex> vgen=<asset hex>.<abf hex>"
        blind_asset_proof(asset, abf), then blind_asset_proof_verify(claim, vgen):          result "made=1 ok=<0|1>" | "made=0" *)
Definition parse_gen (s : bytes) : option gel :=
  match dots s with [a; abf] => match nhex a, zhex abf with Some a, Some abf => Some (asset_gen a abf) | _, _ => None end | _ => None end.
Definition run_exact (args : list bytes) : bytes :=
  match field "k"%lb args, field "asset"%lb args, field "abf"%lb args, field "claim"%lb args, field "vgen"%lb args with
  | Some k, Some a, Some abf, Some claim, Some vgen =>
      match nhex a, zhex abf, parse_gen vgen with
      | Some a, Some abf, Some vgen =>
          if bytes_eqb k "a"%lb then
            match nhex claim, bap_new a abf with
            | Some claim, Some sp => "made=1 ok="%lb ++ show_bool (bap_verify sp claim vgen)
            | Some _, None => "made=0"%lb
            | None, _ => err "claim" end
          else
            match field "value"%lb args, field "vbf"%lb args, field "mk"%lb args, field "vcom"%lb args with
            | Some v, Some vbf, Some mk, Some vcom =>
                match zdec v, zhex vbf, N_of_dec claim, dots vcom, dots mk with
                | Some v, Some vbf, Some claim, [cv; cvbf], mk0 :: mkr =>
                    match zdec cv, zhex cvbf with
                    | Some cv, Some cvbf =>
                        let gen := asset_gen a abf in
                        let c := commit v gen vbf in
                        let made := if bytes_eqb mk0 "e"%lb then bvp_new v c gen vbf
                                    else match mkr with
                                         | [m; b] => match zdec m, zdec b with
                                                     | Some m, Some b => rr_new m c v vbf (0%N, 0) [] 0 0 b gen
                                                     | _, _ => None end
                                         | _ => None end in
                        match made with
                        | Some rr =>
                            "made=1 range="%lb ++ match rr_verify rr c [] gen with
                                                  | Some (lo, hi) => dec_of_N lo ++ ".."%lb ++ dec_of_N hi
                                                  | None => "-"%lb end
                            ++ " ok="%lb ++ show_bool (bvp_verify rr claim vgen (commit cv gen cvbf))
                        | None => "made=0"%lb end
                    | _, _ => err "vcom" end
                | _, _, _, _, _ => err "parse" end
            | _, _, _, _ => err "fields" end
      | _, _, _ => err "parse" end
  | _, _, _, _, _ => err "fields" end.

Definition run (args : list bytes) : bytes :=
  match args with
  | kind :: rest =>
      if bytes_eqb kind "tamper"%lb then
        match parse_case rest, field "tamper"%lb rest with
        | Some c, Some ts => match parse_tamper ts with Some t => run_tamper c t | None => err "tamper" end
        | _, _ => err "parse" end
      else if bytes_eqb kind "explicit"%lb then run_explicit rest
      else if bytes_eqb kind "opened"%lb then run_opened rest
      else if bytes_eqb kind "exact"%lb then run_exact rest
      else err "kind"
  | _ => err "args" end.
