(* case: "C12 <tx|block|blockrep> <caps> <valid points> <hex | header hex,count,tx hex>"  ->  "ok size weight vsize dweight dvsize" | "ok size weight" | "err" *)
From Coq Require Import List NArith.
From Coq.Strings Require Import Byte.
From EV Require Import Base.Bytes Base.Codec Model.Tx Model.Block Model.Sizes Extract.RunUtil Extract.RunC01.
Import ListNotations.
Open Scope N_scope.

Definition run (args : list bytes) : bytes :=
  match args with
  | [ty; caps; pts; hx] =>
      match caps5 caps, hexlist pts, hexarg hx with
      | Some (maxvec, ci, co, cv, ct), Some valid, Some input =>
          let pt_ok := mem_bytes valid in
          if bytes_eqb ty "tx"%lb then
            match deserialize (c_tx pt_ok maxvec ci co cv) input with
            | Some t => "ok "%lb ++ join sp (map dec_of_N [tx_size t; tx_weight t; tx_vsize t; discount_weight t; discount_vsize t])
            | None => "err"%lb end
          else if bytes_eqb ty "block"%lb then
            match deserialize (c_block pt_ok maxvec ci co cv ct) input with
            | Some b => "ok "%lb ++ join sp (map dec_of_N [block_size maxvec cv b; block_weight maxvec cv b])
            | None => "err"%lb end
          else err "type"
      | Some (maxvec, ci, co, cv, ct), Some valid, None =>
          (* "blockrep": <header hex>,<count>,<tx hex> — a block built IN MEMORY from `count` copies of one transaction (transaction counts beyond
             what the decoder's allocation cap admits, e.g. exactly 0xFFFF, are reachable only this way) *)
          let pt_ok := mem_bytes valid in
          if bytes_eqb ty "blockrep"%lb then
            match split_on x2c hx [] with
            | [hh; cnt; th] =>
                match hexarg hh, N_of_dec cnt, hexarg th with
                | Some hb, Some n, Some tb =>
                    match deserialize (c_header maxvec cv) hb, deserialize (c_tx pt_ok maxvec ci co cv) tb with
                    | Some h, Some t =>
                        let b := {| b_header := h; b_txs := repeat t (N.to_nat n) |} in
                        "ok "%lb ++ join sp (map dec_of_N [block_size maxvec cv b; block_weight maxvec cv b])
                    | _, _ => "err"%lb end
                | _, _, _ => err "parse" end
            | _ => err "parse" end
          else err "parse"
      | _, _, _ => err "parse" end
  | _ => err "args" end.
