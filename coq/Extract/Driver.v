(* Case dispatcher: one text line in, one text line out. All parsing is Gallina so that the same function is
   evaluated by the extracted OCaml driver and, for the audit subset, by vm_compute inside Coq. *)
From Coq Require Import List NArith.
From Coq.Strings Require Import Byte.
From EV Require Import Base.Bytes Base.Sha256 Model.FastMerkle.
Import ListNotations.
Open Scope N_scope.

Definition err (s : blit) : bytes := "modelerr "%lb ++ s.
Definition zero32 : bytes := repeat x00 32.
Definition fmr256 (ls : list bytes) : bytes := fmr_ctr zero32 cmp256 ls.
Definition fmr256_spec (ls : list bytes) : bytes := fmr_spec zero32 cmp256 ls.

Fixpoint all_some {A} (l : list (option A)) : option (list A) :=
  match l with [] => Some [] | Some x :: r => match all_some r with Some t => Some (x :: t) | None => None end | None :: _ => None end.
(* comma separated hex items; "-" is the empty list *)
Definition hexlist (s : bytes) : option (list bytes) :=
  if bytes_eqb s "-"%lb then Some [] else all_some (map bytes_of_hex (split_on x2c s [])).

Definition run_C18 (args : list bytes) : bytes :=
  match args with
  | [ls] => match hexlist ls with
            | Some leaves => hex_of_bytes (fmr256 leaves)
            | None => err "hex" end
  | _ => err "args" end.

Definition run_line (line : bytes) : bytes :=
  match words line with
  | k :: args =>
      if bytes_eqb k "C18"%lb then run_C18 args
      else if bytes_eqb k "sha256"%lb then match args with [h] => match bytes_of_hex h with Some b => hex_of_bytes (sha256 b) | None => err "hex" end | _ => err "args" end
      else err "kind"
  | [] => err "empty" end.
