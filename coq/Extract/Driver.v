(* Case dispatcher: one text line in, one text line out. All parsing is Gallina so that the same function is
   evaluated by the extracted OCaml driver and, for the audit subset, by vm_compute inside Coq.
   One `RunCxx.run` per property; the first word of the line selects it. *)
From Coq Require Import List NArith.
From Coq.Strings Require Import Byte.
From EV Require Import Base.Bytes Base.Sha256 Extract.RunUtil.
From EV Require Extract.RunC18.
From EV Require Extract.RunC14.
From EV Require Extract.RunC08.
Import ListNotations.

Definition run_line (line : bytes) : bytes :=
  match words line with
  | k :: args =>
      if bytes_eqb k "C18"%lb then RunC18.run args
      else if bytes_eqb k "C14"%lb then RunC14.run args
      else if bytes_eqb k "C08"%lb then RunC08.run args
      else if bytes_eqb k "sha256"%lb then match args with [h] => match hexarg h with Some b => hex_of_bytes (sha256 b) | None => err "hex" end | _ => err "args" end
      else err "kind"
  | [] => err "empty" end.
