From Coq Require Import List NArith Bool.
From Coq.Strings Require Import Byte.
From EV Require Import Base.Bytes Model.Bech32 Model.Base58 Model.Address Extract.RunUtil Extract.RunAddr.
Import ListNotations.
Open Scope N_scope.

(* replace the character at index i (no change when i is out of range) *)
Fixpoint set_nth (i : nat) (c : byte) (s : bytes) : bytes :=
  match s, i with [], _ => [] | _ :: r, O => c :: r | x :: r, S k => x :: set_nth k c r end.
(* edits: "pos:char,pos:char" *)
Definition parse_edit (e : bytes) : option (nat * byte) :=
  match split_on x3a e [] with
  | [p; [c]] => match N_of_dec p with Some n => Some (N.to_nat n, c) | None => None end
  | _ => None end.
Definition apply_edits (s : bytes) (es : list (nat * byte)) : bytes := fold_left (fun acc e => set_nth (fst e) (snd e) acc) es s.

(* all bech32 characters other than the one present *)
Definition others (c : byte) : bytes := filter (fun x => negb (byte_eqb x c)) charset.
Definition batch (s : bytes) (i j : nat) : list bytes :=
  let ci := nth i s x00 in let cj := nth j s x00 in
  if Nat.eqb i j then map (fun a => set_nth i a s) (others ci)
  else flat_map (fun a => map (fun b => set_nth j b (set_nth i a s)) (others cj)) (others ci).
Definition is_cksum (r : ares address) : bool :=
  match r with AErr (ABech32 ECkResidue) | AErr (ABlech32 ECkResidue) => true | _ => false end.
Fixpoint count {A} (p : A -> bool) (l : list A) (acc : N) : N := match l with [] => acc | x :: r => count p r (if p x then acc + 1 else acc) end.

Definition table_line : bytes :=
  let all := map (fun n => n2b (N.of_nat n)) (seq 0 256) in
  hex_of_bytes (map (fun c => match from_char c with Some v => n2b v | None => xff end) all) ++ sp ++ map to_char (map N.of_nat (seq 0 32)).

(* ---- human-readable part: complete enumerations (kinds `c` and `r`) ---- *)
(* all case patterns of the HRP; the k-th pattern has character i in upper case iff bit i of k is set *)
Fixpoint patterns (h : bytes) : list bytes :=
  match h with [] => [[]] | c :: r => flat_map (fun t => [to_lower c :: t; to_upper c :: t]) (patterns r) end.
Definition res_name (r : ares address) : bytes := match r with AOk _ => "ok"%lb | AErr e => aerr_name e end.
Definition accepted (s : bytes) : bool := existsb is_ok (four s).
Fixpoint number_from {A} (k : N) (l : list A) : list (N * A) := match l with [] => [] | x :: r => (k, x) :: number_from (k + 1) r end.
Definition case_line (s : bytes) : bytes :=
  match rsplit x31 s with
  | None => err "nosep"
  | Some (h, d) =>
      if Nat.ltb 8 (length h) then err "hrplen" else
      let vars := flat_map (fun kp => [(dec_of_N (fst kp) ++ "l"%lb, snd kp ++ [x31] ++ lower d); (dec_of_N (fst kp) ++ "u"%lb, snd kp ++ [x31] ++ upper d)])
                           (number_from 0 (patterns h)) in
      let oks := filter (fun v => accepted (snd v)) vars in
      "orig=["%lb ++ show_res (parse_str s) ++ "] n="%lb ++ dec_of_N (N.of_nat (length vars)) ++ " acc="%lb ++ dec_of_N (N.of_nat (length oks))
        ++ " ok="%lb ++ join ","%lb (map fst oks) ++ " fs="%lb ++ join ";"%lb (map (fun v => res_name (parse_str (snd v))) vars) end.

(* the characters tried in the HRP: letters of both cases, digits (the separator among them) and punctuation *)
Definition hrp_alphabet : bytes := "abcdefghijklmnopqrstuvwxyz0123456789ABCDEFGHIJKLMNOPQRSTUVWXYZ-_.!"%lb.
Definition others_hrp (c : byte) : bytes := filter (fun x => negb (byte_eqb x c)) hrp_alphabet.
Definition batch_hrp (s : bytes) (i j : nat) : list bytes :=
  let ci := nth i s x00 in let cj := nth j s x00 in
  if Nat.eqb i j then map (fun a => set_nth i a s) (others_hrp ci)
  else flat_map (fun a => map (fun b => set_nth j b (set_nth i a s)) (others_hrp cj)) (others_hrp ci).
Definition is_mixed (r : ares address) : bool :=
  match r with AErr (ABech32 EMixedCase) | AErr (ABlech32 EMixedCase) | AErr (ABech32 EHrpMixedCase) | AErr (ABlech32 EHrpMixedCase) => true | _ => false end.
(* rolling hash of the FromStr results of all strings, in order: (h * 131 + byte) mod 2^32 over each result text followed by a newline *)
Definition hash_step (h : N) (b : byte) : N := (h * 131 + b2n b) mod 4294967296.
Definition hash_res (h : N) (r : ares address) : N := fold_left hash_step (show_res r ++ [x0a]) h.
Fixpoint first_some {A} (p : A -> bool) (l : list A) : option A := match l with [] => None | x :: r => if p x then Some x else first_some p r end.

Definition run (args : list bytes) : bytes :=
  match args with
  | [k] => if bytes_eqb k "t"%lb then table_line else err "args"
  | [k; s] => if bytes_eqb k "s"%lb then show_four s else if bytes_eqb k "c"%lb then case_line s else err "args"
  | [k; s; es] =>
      if bytes_eqb k "m"%lb then
        match all_some (map parse_edit (split_on x2c es [])) with
        | Some edits => "orig=["%lb ++ show_res (parse_str s) ++ "] "%lb ++ show_four (apply_edits s edits)
        | None => err "edits" end
      else err "args"
  | [k; s; a; b] =>
      if bytes_eqb k "x"%lb then
        match N_of_dec a, N_of_dec b with
        | Some i, Some j =>
            let ms := batch s (N.to_nat i) (N.to_nat j) in
            let rs := map four ms in
            let acc := count (fun r4 => existsb is_ok r4) rs 0 in
            let ck := count (fun r4 => match r4 with r :: _ => is_cksum r | [] => false end) rs 0 in
            "orig=["%lb ++ show_res (parse_str s) ++ "] n="%lb ++ dec_of_N (N.of_nat (length ms)) ++ " acc="%lb ++ dec_of_N acc
              ++ " cksum="%lb ++ dec_of_N ck
        | _, _ => err "pos" end
      else if bytes_eqb k "r"%lb then
        match N_of_dec a, N_of_dec b with
        | Some i, Some j =>
            if Nat.leb (length s) (N.to_nat i) || Nat.leb (length s) (N.to_nat j) then err "pos" else
            let ms := batch_hrp s (N.to_nat i) (N.to_nat j) in
            let fs := map parse_str ms in
            let acc := count accepted ms 0 in
            "orig=["%lb ++ show_res (parse_str s) ++ "] n="%lb ++ dec_of_N (N.of_nat (length ms)) ++ " acc="%lb ++ dec_of_N acc
              ++ " mix="%lb ++ dec_of_N (count is_mixed fs 0) ++ " h="%lb ++ dec_of_N (fold_left hash_res fs 0)
              ++ " first="%lb ++ match first_some accepted ms with Some m => m | None => "-"%lb end
        | _, _ => err "pos" end
      else err "args"
  | _ => err "args" end.
