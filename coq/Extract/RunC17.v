From Coq Require Import List NArith Bool.
From Coq.Strings Require Import Byte.
From EV Require Import Base.Bytes Model.Bech32 Model.Base58 Model.Address Extract.RunUtil Extract.RunAddr.
Import ListNotations.
Open Scope N_scope.

(* replace the character at index i (no change when i is out of range) *)
Fixpoint set_nth (i : nat) (c : byte) (s : bytes) : bytes :=
  match s, i with [], _ => [] | _ :: r, O => c :: r | x :: r, S k => x :: set_nth k c r end.
(* edits: "pos:char,pos:char" *)
Definition parse_edit (e : bytes) : option (nat * byte) :=
  match split_on x3a e [] with
  | [p; [c]] => match N_of_dec p with Some n => Some (N.to_nat n, c) | None => None end
  | _ => None end.
Definition apply_edits (s : bytes) (es : list (nat * byte)) : bytes := fold_left (fun acc e => set_nth (fst e) (snd e) acc) es s.

(* all bech32 characters other than the one present *)
Definition others (c : byte) : bytes := filter (fun x => negb (byte_eqb x c)) charset.
Definition batch (s : bytes) (i j : nat) : list bytes :=
  let ci := nth i s x00 in let cj := nth j s x00 in
  if Nat.eqb i j then map (fun a => set_nth i a s) (others ci)
  else flat_map (fun a => map (fun b => set_nth j b (set_nth i a s)) (others cj)) (others ci).
Definition is_cksum (r : ares address) : bool :=
  match r with AErr (ABech32 ECkResidue) | AErr (ABlech32 ECkResidue) => true | _ => false end.
Fixpoint count {A} (p : A -> bool) (l : list A) (acc : N) : N := match l with [] => acc | x :: r => count p r (if p x then acc + 1 else acc) end.

Definition table_line : bytes :=
  let all := map (fun n => n2b (N.of_nat n)) (seq 0 256) in
  hex_of_bytes (map (fun c => match from_char c with Some v => n2b v | None => xff end) all) ++ sp ++ map to_char (map N.of_nat (seq 0 32)).

Definition run (args : list bytes) : bytes :=
  match args with
  | [k] => if bytes_eqb k "t"%lb then table_line else err "args"
  | [k; s] => if bytes_eqb k "s"%lb then show_four s else err "args"
  | [k; s; es] =>
      if bytes_eqb k "m"%lb then
        match all_some (map parse_edit (split_on x2c es [])) with
        | Some edits => "orig=["%lb ++ show_res (parse_str s) ++ "] "%lb ++ show_four (apply_edits s edits)
        | None => err "edits" end
      else err "args"
  | [k; s; a; b] =>
      if bytes_eqb k "x"%lb then
        match N_of_dec a, N_of_dec b with
        | Some i, Some j =>
            let ms := batch s (N.to_nat i) (N.to_nat j) in
            let rs := map four ms in
            let acc := count (fun r4 => existsb is_ok r4) rs 0 in
            let ck := count (fun r4 => match r4 with r :: _ => is_cksum r | [] => false end) rs 0 in
            "orig=["%lb ++ show_res (parse_str s) ++ "] n="%lb ++ dec_of_N (N.of_nat (length ms)) ++ " acc="%lb ++ dec_of_N acc
              ++ " cksum="%lb ++ dec_of_N ck
        | _, _ => err "pos" end
      else err "args"
  | _ => err "args" end.
