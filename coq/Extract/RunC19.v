(* case: "C19 <caps> <hex params current> <hex params proposed>"
   -> "ok <root cur> <root prop> <root of into_compact cur | -> <FullParams::calculate_root cur | -> <header dynafed root>" *)
From Coq Require Import List NArith.
From Coq.Strings Require Import Byte.
From EV Require Import Base.Bytes Base.Sha256 Base.Codec Model.Tx Model.Block Model.Ids Extract.RunUtil Extract.RunC01.
Import ListNotations.
Open Scope N_scope.

Definition run (args : list bytes) : bytes :=
  match args with
  | [caps; hc; hp] =>
      match caps5 caps, hexarg hc, hexarg hp with
      | Some (maxvec, ci, co, cv, ct), Some bc, Some bp =>
          match deserialize (c_params maxvec cv) bc, deserialize (c_params maxvec cv) bp with
          | Some c, Some p =>
              let root := params_calculate_root sha256d cmp256 maxvec cv in
              "ok "%lb ++ hex_of_bytes (root c) ++ sp ++ hex_of_bytes (root p) ++ sp
              ++ (match params_into_compact sha256d cmp256 maxvec cv c with Some k => hex_of_bytes (root k) | None => "-"%lb end) ++ sp
              ++ (match c with PFull f => hex_of_bytes (full_calculate_root sha256d cmp256 maxvec cv f) | _ => "-"%lb end) ++ sp
              ++ hex_of_bytes (cmp256 (root c) (root p))
          | _, _ => "err"%lb end
      | _, _, _ => err "parse" end
  | _ => err "args" end.
