(* case: "C02 tx <caps> <pts> <hex>" -> "ok <txid> <wtxid>" ; "C02 header <caps> <pts> <hex>" -> "ok <block hash> <hash of clear_witness>" *)
From Coq Require Import List NArith.
From Coq.Strings Require Import Byte.
From EV Require Import Base.Bytes Base.Sha256 Base.Codec Model.Tx Model.Block Model.Ids Extract.RunUtil Extract.RunC01.
Import ListNotations.
Open Scope N_scope.

Definition run (args : list bytes) : bytes :=
  match args with
  | [ty; caps; pts; hx] =>
      match caps5 caps, hexlist pts, hexarg hx with
      | Some (maxvec, ci, co, cv, ct), Some valid, Some input =>
          let pt_ok := mem_bytes valid in
          if bytes_eqb ty "tx"%lb then
            match deserialize (c_tx pt_ok maxvec ci co cv) input with
            | Some t => "ok "%lb ++ hex_of_bytes (txid sha256d pt_ok maxvec ci co t) ++ sp ++ hex_of_bytes (wtxid sha256d pt_ok maxvec ci co cv t)
            | None => "err"%lb end
          else if bytes_eqb ty "header"%lb then
            match deserialize (c_header maxvec cv) input with
            | Some h => "ok "%lb ++ hex_of_bytes (block_hash sha256d maxvec cv h) ++ sp ++ hex_of_bytes (block_hash sha256d maxvec cv (clear_witness h))
            | None => "err"%lb end
          else err "type"
      | _, _, _ => err "parse" end
  | _ => err "args" end.
