(* The predicates the encoders branch on, as TRANSLATED from the Rust source on every run (Gen/SrcPreds.v, translator/rust2coq.py),
   are the hand-written model definitions of Model/Tx.v and Model/Sizes.v.  When a source function changes its meaning the
   corresponding lemma here stops compiling, which breaks the proof channel of C01 / C02 / C12. *)
From Coq Require Import List NArith Bool Lia.
From Coq.Strings Require Import Byte.
From EV Require Import Base.Bytes Base.Codec Model.Tx Model.Sizes Gen.SrcPreds.
Import ListNotations.
Open Scope N_scope.

Lemma src_value_is_null v : src_Value_is_null v = value_is_null v.                Proof. reflexivity. Qed.
Lemma src_value_is_conf v : src_Value_is_confidential v = value_is_conf v.        Proof. reflexivity. Qed.
Lemma src_nonce_is_conf v : src_Nonce_is_confidential v = nonce_is_conf v.        Proof. reflexivity. Qed.
Lemma src_value_len v : src_Value_encoded_length v = value_len v.                 Proof. reflexivity. Qed.
Lemma src_asset_len v : src_Asset_encoded_length v = asset_len v.                 Proof. destruct v; reflexivity. Qed.
Lemma src_nonce_len v : src_Nonce_encoded_length v = nonce_len v.                 Proof. destruct v; reflexivity. Qed.
(* the three-way classification is exhaustive and exclusive for each confidential type (C01's prefix dispatch relies on it) *)
Lemma src_value_kinds v : [src_Value_is_null v; src_Value_is_explicit v; src_Value_is_confidential v]
  = match v with VNull => [true; false; false] | VExplicit _ => [false; true; false] | VConf _ => [false; false; true] end.
Proof. destruct v; reflexivity. Qed.
Lemma src_asset_kinds v : [src_Asset_is_null v; src_Asset_is_explicit v; src_Asset_is_confidential v]
  = match v with ANull => [true; false; false] | AExplicit _ => [false; true; false] | AConf _ => [false; false; true] end.
Proof. destruct v; reflexivity. Qed.
Lemma src_nonce_kinds v : [src_Nonce_is_null v; src_Nonce_is_explicit v; src_Nonce_is_confidential v]
  = match v with NNull => [true; false; false] | NExplicit _ => [false; true; false] | NConf _ => [false; false; true] end.
Proof. destruct v; reflexivity. Qed.
Lemma src_issuance_is_null i : src_AssetIssuance_is_null i = issuance_is_null i.  Proof. reflexivity. Qed.
Lemma src_has_issuance i : src_TxIn_has_issuance i = has_issuance i.              Proof. reflexivity. Qed.
Lemma src_inwit_is_empty w : src_TxInWitness_is_empty w = inwit_is_empty w.
Proof. destruct w as [a k s p]. unfold src_TxInWitness_is_empty, inwit_is_empty. cbn [w_amount_rp w_keys_rp w_script w_pegin].
  destruct a, k, s, p; reflexivity. Qed.
Lemma src_outwit_is_empty w : src_TxOutWitness_is_empty w = outwit_is_empty w.
Proof. destruct w as [s r]. unfold src_TxOutWitness_is_empty, outwit_is_empty. cbn [w_surj w_range]. destruct s, r; reflexivity. Qed.
Lemma src_rangeproof_len w : src_TxOutWitness_rangeproof_len w = optlen (w_range w).           Proof. reflexivity. Qed.
Lemma src_surjectionproof_len w : src_TxOutWitness_surjectionproof_len w = optlen (w_surj w).  Proof. reflexivity. Qed.
Lemma existsb_ext' {A} (f g : A -> bool) l : (forall x, f x = g x) -> existsb f l = existsb g l.
Proof. intros E. induction l as [|x l IH]; cbn [existsb]; [reflexivity|]. now rewrite E, IH. Qed.
Lemma src_has_witness t : src_Transaction_has_witness t = has_witness t.
Proof. unfold src_Transaction_has_witness, has_witness. f_equal; apply existsb_ext'; intros x; [now rewrite src_inwit_is_empty|now rewrite src_outwit_is_empty]. Qed.
(* the crate's own VarInt::size (src/encode.rs; used by Block::size / Block::weight) is the compact-size length of Base/Codec.v, for every u64 and beyond *)
Lemma src_varint_size n : src_VarInt_size n = vi_size n.
Proof. unfold src_VarInt_size, vi_size.
  destruct (N.ltb_spec n 0xFD), (N.ltb_spec n 0x10000), (N.ltb_spec n 0x100000000);
    repeat match goal with |- context [N.leb ?a ?b] => destruct (N.leb_spec a b) end; cbn [andb]; try reflexivity; lia. Qed.

(* ---- the generated no-panic conditions of these functions are all true (none of them indexes or subtracts) *)
Lemma src_preds_safe : forall (v : cvalue) (a : casset) (n : cnonce) (i : issuance) (iw : inwit) (ow : outwit) (ti : txin) (t : tx) (k : N),
  src_Value_is_null_safe v = true /\ src_Value_is_explicit_safe v = true /\ src_Value_is_confidential_safe v = true /\ src_Value_encoded_length_safe v = true
  /\ src_Asset_is_null_safe a = true /\ src_Asset_is_explicit_safe a = true /\ src_Asset_is_confidential_safe a = true /\ src_Asset_encoded_length_safe a = true
  /\ src_Nonce_is_null_safe n = true /\ src_Nonce_is_explicit_safe n = true /\ src_Nonce_is_confidential_safe n = true /\ src_Nonce_encoded_length_safe n = true
  /\ src_AssetIssuance_is_null_safe i = true /\ src_TxInWitness_is_empty_safe iw = true /\ src_TxOutWitness_is_empty_safe ow = true
  /\ src_TxOutWitness_rangeproof_len_safe ow = true /\ src_TxOutWitness_surjectionproof_len_safe ow = true /\ src_TxIn_has_issuance_safe ti = true
  /\ src_Transaction_has_witness_safe t = true /\ src_VarInt_size_safe k = true.
Proof.
  assert (FT : forall A (f : A -> bool) l, (forall x, f x = true) -> forallb f l = true) by (intros A f l H; apply forallb_forall; intros x _; apply H).
  intros. repeat split; try reflexivity;
    try (unfold src_TxIn_has_issuance_safe, src_AssetIssuance_is_null_safe; match goal with |- context [if ?c then _ else _] => destruct c end; reflexivity).
  unfold src_Transaction_has_witness_safe. rewrite !FT by reflexivity. destruct (existsb _ _); reflexivity.
Qed.
