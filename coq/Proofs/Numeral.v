(* Positional numerals (C06): `digits b (value b ds) = ds` for canonical digit lists, `value b (digits b v) = v`, conversion between two
   bases with the leading-zero rule, the first digit of a number from bounds, and — on top of that — both directions of the base58
   codec of Model/Base58.v: b58_decode (b58_encode bs) = bs for every byte string and b58_encode (b58_decode s) = s for every accepted
   text. *)
From Coq Require Import List NArith ZArith Bool Lia ZifyN ZifyBool ZifyNat.
From Coq.Strings Require Import Byte.
From EV Require Import Base.Bytes Model.Bech32 Model.Base58.
Ltac Zify.zify_post_hook ::= Z.div_mod_to_equations.
Import ListNotations.
Open Scope N_scope.
Set Default Timeout 30.

Lemma Some_inj {A} (x y : A) : Some x = Some y -> x = y.
Proof. intros E. injection E as E. exact E. Qed.

(* ---------------------------------------------------------------- one base *)
Section Num.
Variable b : N.
Hypothesis b_ge2 : 2 <= b.

Definition dig (ds : list N) : Prop := Forall (fun d => d < b) ds.
Definition head_nz (ds : list N) : Prop := match ds with [] => True | d :: _ => d <> 0 end.
Definition canon (ds : list N) : Prop := dig ds /\ head_nz ds.

Lemma value_app l1 : forall l2 acc, value b (l1 ++ l2) acc = value b l2 (value b l1 acc).
Proof. induction l1 as [|d r IH]; intros l2 acc; cbn [app value]; [reflexivity|apply IH]. Qed.
Lemma value_snoc l d acc : value b (l ++ [d]) acc = value b l acc * b + d.
Proof. rewrite value_app. reflexivity. Qed.
Lemma value_acc ds : forall acc, value b ds acc = acc * b ^ N.of_nat (length ds) + value b ds 0.
Proof. induction ds as [|d r IH]; intros acc; cbn [value length].
  - change (N.of_nat 0) with 0. rewrite N.pow_0_r. lia.
  - rewrite IH, (IH (0 * b + d)), Nnat.Nat2N.inj_succ, N.pow_succ_r'. set (P := b ^ N.of_nat (length r)). lia. Qed.
Lemma value_cons d r : value b (d :: r) 0 = d * b ^ N.of_nat (length r) + value b r 0.
Proof. cbn [value]. rewrite value_acc. set (P := b ^ N.of_nat (length r)). lia. Qed.
Lemma pow_pos k : 0 < b ^ k.
Proof. apply N.neq_0_lt_0, N.pow_nonzero. lia. Qed.
Lemma value_lt ds : dig ds -> value b ds 0 < b ^ N.of_nat (length ds).
Proof. induction ds as [|d r IH]; intros D.
  - cbn. lia.
  - inversion D as [|? ? Hd Hr]; subst. specialize (IH Hr). rewrite value_cons. cbn [length]. rewrite Nnat.Nat2N.inj_succ, N.pow_succ_r'.
    set (P := b ^ N.of_nat (length r)) in *. assert (X : (d + 1) * P <= b * P) by (apply N.mul_le_mono_r; lia). lia. Qed.
Lemma value_zeros z ds : value b (repeat 0 z ++ ds) 0 = value b ds 0.
Proof. induction z as [|z IH]; [reflexivity|]. cbn [repeat app value]. exact IH. Qed.

Lemma canon_app_l l1 l2 : canon (l1 ++ l2) -> canon l1.
Proof. intros [D Hn]. split; [apply Forall_app in D; tauto|]. destruct l1; [exact I|exact Hn]. Qed.
Lemma canon_value_pos ds : canon ds -> ds <> [] -> 0 < value b ds 0.
Proof. intros [D Hn] NE. destruct ds as [|d r]; [contradiction|]. cbn in Hn. rewrite value_cons. pose proof (pow_pos (N.of_nat (length r))).
  assert (1 * b ^ N.of_nat (length r) <= d * b ^ N.of_nat (length r)) by (apply N.mul_le_mono_r; lia). lia. Qed.

Lemma divmod_snoc v d : d < b -> (v * b + d) / b = v /\ (v * b + d) mod b = d.
Proof. intros Hd. assert (NZ : b <> 0) by lia. pose proof (N.div_mod (v * b + d) b NZ) as E. pose proof (N.mod_lt (v * b + d) b NZ) as L.
  apply (N.div_mod_unique b); [assumption|assumption|]. rewrite <- E. lia. Qed.

(* digits of the value of a canonical digit list *)
Lemma digits_aux_value ds : canon ds -> forall fuel acc, value b ds 0 < 2 ^ N.of_nat fuel -> digits_aux b fuel (value b ds 0) acc = ds ++ acc.
Proof. induction ds as [|d ds' IH] using rev_ind; intros C fuel acc L.
  - cbn [value]. destruct fuel; reflexivity.
  - rewrite value_snoc in *. pose proof (canon_app_l _ _ C) as C'. set (v := value b ds' 0) in *.
    assert (Hd : d < b). { destruct C as [D _]. apply Forall_app in D as [_ D]. now inversion D. }
    assert (NZ : v * b + d <> 0).
    { destruct ds' as [|x xs]; [destruct C as [_ X]; cbn in X; subst v; cbn; lia|].
      assert (0 < v) by (apply canon_value_pos; [exact C'|discriminate]). nia. }
    destruct fuel as [|f]; [cbn in L; lia|]. cbn [digits_aux]. destruct (N.eqb_spec (v * b + d) 0) as [Z|_]; [contradiction|].
    destruct (divmod_snoc v d Hd) as [-> ->]. rewrite <- app_assoc. cbn [app]. apply IH; [exact C'|].
    rewrite Nnat.Nat2N.inj_succ, N.pow_succ_r' in L. assert (v * 2 <= v * b) by (apply N.mul_le_mono_l; exact b_ge2). lia. Qed.
Theorem digits_value ds : canon ds -> digits b (value b ds 0) = ds.
Proof. intros C. unfold digits. rewrite (digits_aux_value ds C), app_nil_r; [reflexivity|]. rewrite Nnat.N2Nat.id. apply N.size_gt. Qed.

(* value of the digits of a number; the digits are canonical *)
Lemma digits_aux_spec fuel : forall v acc, v < 2 ^ N.of_nat fuel -> exists ds, digits_aux b fuel v acc = ds ++ acc /\ canon ds /\ value b ds 0 = v.
Proof. induction fuel as [|f IH]; intros v acc L.
  - exists []. cbn in L. repeat split; [constructor|cbn; lia].
  - cbn [digits_aux]. destruct (N.eqb_spec v 0) as [->|NZ]; [exists []; repeat split; constructor|].
    assert (B0 : b <> 0) by lia.
    assert (L' : v / b < 2 ^ N.of_nat f).
    { apply N.div_lt_upper_bound; [exact B0|]. rewrite Nnat.Nat2N.inj_succ, N.pow_succ_r' in L.
      assert (2 * 2 ^ N.of_nat f <= b * 2 ^ N.of_nat f) by (apply N.mul_le_mono_r; exact b_ge2). lia. }
    destruct (IH (v / b) (v mod b :: acc) L') as (ds' & E & [D Hn] & V). exists (ds' ++ [v mod b]). split; [|split; [split|]].
    + rewrite E, <- app_assoc. reflexivity.
    + apply Forall_app. split; [exact D|]. constructor; [apply N.mod_lt; exact B0|constructor].
    + destruct ds' as [|x xs]; [|exact Hn]. cbn in V. cbn [app head_nz]. pose proof (N.div_mod v b B0). rewrite <- V in *. lia.
    + rewrite value_snoc, V. pose proof (N.div_mod v b B0). lia. Qed.
Lemma digits_spec v : canon (digits b v) /\ value b (digits b v) 0 = v.
Proof. unfold digits. destruct (digits_aux_spec (N.to_nat (N.size v)) v []) as (ds & E & C & V).
  - rewrite Nnat.N2Nat.id. apply N.size_gt.
  - rewrite E, app_nil_r. now split. Qed.

(* the first digit and the number of digits from bounds on the value *)
Lemma canon_head_bounds ds m0 lo hi : canon ds -> lo <= value b ds 0 <= hi -> b ^ m0 <= lo -> hi < b ^ (m0 + 1) ->
  exists d r, ds = d :: r /\ N.of_nat (length r) = m0 /\ lo / b ^ m0 <= d <= hi / b ^ m0.
Proof. intros C [L1 L2] B1 B2. pose proof (pow_pos m0) as P0.
  destruct ds as [|d r]; [cbn in L1; lia|]. exists d, r. split; [reflexivity|].
  destruct C as [D Hn]. cbn in Hn. inversion D as [|? ? Hd Hr]; subst. pose proof (value_lt r Hr) as Vr. rewrite value_cons in *.
  set (m := N.of_nat (length r)) in *. set (vr := value b r 0) in *. pose proof (pow_pos m) as Pm.
  assert (LB : b ^ m <= d * b ^ m + vr) by (assert (1 * b ^ m <= d * b ^ m) by (apply N.mul_le_mono_r; lia); lia).
  assert (UB : d * b ^ m + vr < b ^ (m + 1)).
  { rewrite N.add_1_r, N.pow_succ_r'. assert ((d + 1) * b ^ m <= b * b ^ m) by (apply N.mul_le_mono_r; lia). lia. }
  assert (M : m = m0).
  { assert (A1 : m < m0 + 1) by (apply (N.pow_lt_mono_r_iff b); lia). assert (A2 : m0 < m + 1) by (apply (N.pow_lt_mono_r_iff b); lia). lia. }
  split; [exact M|]. rewrite <- M.
  assert (Ed : (d * b ^ m + vr) / b ^ m = d) by (symmetry; apply (N.div_unique _ _ d vr); [exact Vr|lia]).
  split; rewrite <- Ed; apply N.div_le_mono; lia. Qed.
(* equally long digit lists with equal values are equal *)
Lemma value_inj l1 : forall l2, length l1 = length l2 -> dig l1 -> dig l2 -> value b l1 0 = value b l2 0 -> l1 = l2.
Proof. induction l1 as [|x r IH]; intros [|y r'] L D1 D2 E; try discriminate L; [reflexivity|].
  cbn [length] in L. apply Nat.succ_inj in L. inversion D1 as [|? ? Hx Hr]; subst. inversion D2 as [|? ? Hy Hr']; subst.
  rewrite !value_cons, <- L in E. pose proof (value_lt r Hr) as V1. pose proof (value_lt r' Hr') as V2. rewrite <- L in V2.
  set (P := b ^ N.of_nat (length r)) in *.
  destruct (N.div_mod_unique P x y (value b r 0) (value b r' 0) V1 V2) as [-> E']; [lia|]. f_equal. now apply IH. Qed.
End Num.

(* ---------------------------------------------------------------- leading zeros and conversion between two bases *)
Fixpoint strip0 (ds : list N) : list N := match ds with d :: r => if 0 =? d then strip0 r else ds | [] => [] end.
Lemma strip0_split ds : ds = repeat 0 (count_leading (N.eqb 0) ds) ++ strip0 ds.
Proof. induction ds as [|d r IH]; [reflexivity|]. cbn [count_leading strip0]. destruct (N.eqb_spec 0 d) as [<-|NE]; [|reflexivity].
  cbn [repeat app]. f_equal. exact IH. Qed.
Lemma strip0_head ds : head_nz (strip0 ds).
Proof. induction ds as [|d r IH]; [exact I|]. cbn [strip0]. destruct (N.eqb_spec 0 d) as [<-|NE]; [exact IH|]. cbn. lia. Qed.
Lemma strip0_dig b ds : dig b ds -> dig b (strip0 ds).
Proof. induction ds as [|d r IH]; intros D; [constructor|]. cbn [strip0]. destruct (0 =? d); [|exact D]. apply IH. now inversion D. Qed.
Lemma count_leading_zeros z ds : head_nz ds -> count_leading (N.eqb 0) (repeat 0 z ++ ds) = z.
Proof. intros Hn. induction z as [|z IH]; cbn [repeat app count_leading].
  - destruct ds as [|d r]; [reflexivity|]. cbn [count_leading]. cbn in Hn. destruct (N.eqb_spec 0 d); [congruence|reflexivity].
  - now rewrite IH. Qed.

(* value in base b1, minimal digits in base b2, as many leading zero digits as the input has *)
Definition conv (b1 b2 : N) (ds : list N) : list N := repeat 0 (count_leading (N.eqb 0) ds) ++ digits b2 (value b1 ds 0).

Lemma conv_dig b1 b2 ds : 2 <= b2 -> dig b2 (conv b1 b2 ds).
Proof. intros B2. unfold conv. apply Forall_app. split.
  - apply Forall_forall. intros x Ix. apply repeat_spec in Ix. subst. lia.
  - exact (proj1 (proj1 (digits_spec b2 B2 _))). Qed.
Theorem conv_roundtrip b1 b2 ds : 2 <= b1 -> 2 <= b2 -> dig b1 ds -> conv b2 b1 (conv b1 b2 ds) = ds.
Proof. intros B1 B2 D. unfold conv at 2. set (z := count_leading (N.eqb 0) ds). set (V := value b1 ds 0).
  destruct (digits_spec b2 B2 V) as ([D2 H2] & V2). unfold conv. rewrite (count_leading_zeros z _ H2), value_zeros, V2.
  unfold V. rewrite (strip0_split ds) at 1. fold z. rewrite value_zeros.
  rewrite (digits_value b1 B1); [symmetry; apply strip0_split|]. split; [now apply strip0_dig|apply strip0_head]. Qed.

(* ---------------------------------------------------------------- generic list helpers *)
Lemma all_some_map_inv {A B} (f : A -> option B) l : forall ds, all_some (map f l) = Some ds -> Forall2 (fun x d => f x = Some d) l ds.
Proof. induction l as [|x r IH]; intros ds E; cbn [map all_some] in E.
  - apply Some_inj in E. subst. constructor.
  - destruct (f x) as [d|] eqn:F; [|discriminate]. destruct (all_some (map f r)) as [t|] eqn:T; [|discriminate]. apply Some_inj in E. subst.
    constructor; [exact F|now apply IH]. Qed.
Lemma all_some_map_intro {A B} (f : A -> option B) (g : B -> A) ds : Forall (fun d => f (g d) = Some d) ds -> all_some (map f (map g ds)) = Some ds.
Proof. induction ds as [|d r IH]; intros F; [reflexivity|]. inversion F as [|? ? Fd Fr]; subst. cbn [map all_some]. now rewrite Fd, (IH Fr). Qed.
Lemma count_leading_map {A B} (p : B -> bool) (q : A -> bool) (f : A -> B) l : (forall x, In x l -> p (f x) = q x) ->
  count_leading p (map f l) = count_leading q l.
Proof. induction l as [|x r IH]; intros E; [reflexivity|]. cbn [map count_leading]. rewrite (E x) by now left.
  destruct (q x); [|reflexivity]. f_equal. apply IH. intros y Iy. apply E. now right. Qed.
Lemma map_repeat {A B} (f : A -> B) x n : map f (repeat x n) = repeat (f x) n.
Proof. induction n as [|n IH]; [reflexivity|]. cbn [repeat map]. now rewrite IH. Qed.

(* ---------------------------------------------------------------- the base58 character table *)
Lemma lt58_cases (P : N -> Prop) : (forall k, In k (map N.of_nat (seq 0 58)) -> P k) -> forall v, v < 58 -> P v.
Proof. intros A v L. apply A. apply in_map_iff. exists (N.to_nat v). split; [apply Nnat.N2Nat.id|apply in_seq; lia]. Qed.
Lemma b58_char_digit d : d < 58 -> b58_digit (b58_char d) = Some d.
Proof. revert d. apply lt58_cases. intros k Ik. cbn in Ik. repeat (destruct Ik as [<-|Ik]; [reflexivity|]). contradiction. Qed.
Lemma b58_digit_char c d : b58_digit c = Some d -> d < 58 /\ b58_char d = c /\ byte_eqb x31 c = (0 =? d).
Proof. destruct c; intros E; vm_compute in E; try discriminate E; apply Some_inj in E; subst d; repeat split. Qed.
Lemma byte_zero_test c : byte_eqb x00 c = (0 =? b2n c).
Proof. destruct c; reflexivity. Qed.

Lemma b58_encode_conv data : b58_encode data = map b58_char (conv 256 58 (map b2n data)).
Proof. unfold b58_encode, conv. rewrite map_app, map_repeat. f_equal. f_equal.
  symmetry. apply count_leading_map. intros x _. symmetry. apply byte_zero_test. Qed.
Lemma b58_decode_conv s ds : all_some (map b58_digit s) = Some ds -> b58_decode s = Ok58 (map n2b (conv 58 256 ds)) /\ dig 58 ds /\ s = map b58_char ds.
Proof. intros E. unfold b58_decode. rewrite E. apply all_some_map_inv in E.
  assert (CL : count_leading (byte_eqb x31) s = count_leading (N.eqb 0) ds).
  { induction E as [|c d s' ds' F _ IH]; [reflexivity|]. cbn [count_leading]. destruct (b58_digit_char _ _ F) as (_ & _ & ->).
    destruct (0 =? d); [now rewrite IH|reflexivity]. }
  split; [|split].
  - unfold conv. rewrite map_app, map_repeat, CL. reflexivity.
  - clear CL. induction E as [|c d s' ds' F _ IH]; [constructor|]. constructor; [exact (proj1 (b58_digit_char _ _ F))|exact IH].
  - clear CL. induction E as [|c d s' ds' F _ IH]; [reflexivity|]. cbn [map]. rewrite <- IH. f_equal. symmetry. exact (proj1 (proj2 (b58_digit_char _ _ F))). Qed.

Lemma map_b2n_n2b ds : dig 256 ds -> map b2n (map n2b ds) = ds.
Proof. induction ds as [|d r IH]; intros D; [reflexivity|]. inversion D as [|? ? Hd Hr]; subst. cbn [map]. rewrite (IH Hr). f_equal. now apply b2n_n2b_small. Qed.
Lemma map_n2b_b2n bs : map n2b (map b2n bs) = bs.
Proof. induction bs as [|x r IH]; [reflexivity|]. cbn [map]. now rewrite IH, n2b_b2n. Qed.
Lemma dig256_bytes bs : dig 256 (map b2n bs).
Proof. apply Forall_forall. intros d Id. apply in_map_iff in Id as (x & <- & _). apply b2n_lt. Qed.

(* the numeral lemma of C06, both directions *)
Theorem b58_decode_encode bs : b58_decode (b58_encode bs) = Ok58 bs.
Proof. rewrite b58_encode_conv. set (E := conv 256 58 (map b2n bs)).
  assert (DE : dig 58 E) by (apply conv_dig; lia).
  assert (AS : all_some (map b58_digit (map b58_char E)) = Some E).
  { apply all_some_map_intro. apply Forall_forall. intros d Id. apply b58_char_digit. exact (proj1 (Forall_forall _ _) DE d Id). }
  destruct (b58_decode_conv _ _ AS) as (-> & _ & _). unfold E. rewrite conv_roundtrip; [|lia|lia|apply dig256_bytes]. now rewrite map_n2b_b2n. Qed.
Theorem b58_encode_decode s bs : b58_decode s = Ok58 bs -> b58_encode bs = s.
Proof. intros E. destruct (all_some (map b58_digit s)) as [ds|] eqn:AS.
  - destruct (b58_decode_conv _ _ AS) as (E' & D & ->). rewrite E' in E. injection E as <-.
    rewrite b58_encode_conv, map_b2n_n2b by (apply conv_dig; lia). rewrite conv_roundtrip; [reflexivity|lia|lia|exact D].
  - unfold b58_decode in E. rewrite AS in E. discriminate E. Qed.
