(* The hand-written size arithmetic of Transaction/Block equals the length of the consensus encoding. *)
From Coq Require Import List NArith ZArith Lia Bool ZifyN ZifyBool ZifyNat.
From Coq.Strings Require Import Byte.
From EV Require Import Base.Bytes Base.Codec Model.Tx Model.Block Model.Sizes Proofs.Flags Proofs.Tx Proofs.Block.
Import ListNotations.
Ltac Zify.zify_post_hook ::= Z.div_mod_to_equations.
Open Scope N_scope.
Set Default Timeout 30.

Lemma nsum_map_add {A} (f g : A -> N) l : nsum (map (fun x => f x + g x) l) = nsum (map f l) + nsum (map g l).
Proof. induction l as [|x l IH]; cbn [map nsum fold_right]; [reflexivity|]. unfold nsum in *. rewrite IH. lia. Qed.
Lemma nsum_map_mul {A} k (f : A -> N) l : nsum (map (fun x => k * f x) l) = k * nsum (map f l).
Proof. induction l as [|x l IH]; cbn [map nsum fold_right]; [lia|]. unfold nsum in *. rewrite IH. lia. Qed.
Lemma nsum_map_zero {A} (l : list A) : nsum (map (fun _ => 0) l) = 0.
Proof. induction l as [|x l IH]; cbn [map nsum fold_right]; [reflexivity|]. unfold nsum in *. rewrite IH. reflexivity. Qed.
Lemma nsum_map_ext {A} (f g : A -> N) l : (forall x, In x l -> f x = g x) -> nsum (map f l) = nsum (map g l).
Proof. induction l as [|x l IH]; intros H; cbn [map nsum fold_right]; [reflexivity|]. unfold nsum in *. rewrite IH, (H x) by (intros; try apply H; cbn; auto). reflexivity. Qed.
Lemma nsum_map_if {A} (b : bool) (f : A -> N) l : nsum (map (fun x => if b then f x else 0) l) = if b then nsum (map f l) else 0.
Proof. destruct b; [reflexivity|apply nsum_map_zero]. Qed.
Lemma vn_len_map {A B} (c : codec B) (f : A -> B) l : vn_len c (map f l) = nsum (map (fun x => elen c (f x)) l).
Proof. induction l as [|x l IH]; cbn [map vn_len nsum fold_right]; [reflexivity|]. unfold vn_len, nsum in *. now rewrite IH. Qed.
Lemma forallb_In {A} (p : A -> bool) l : forallb p l = true -> forall x, In x l -> p x = true.
Proof. intros H x Hx. rewrite forallb_forall in H. now apply H. Qed.

Section SIZES.
Variable pt_ok : bytes -> bool.
Variables maxvec cap_txin cap_txout cap_vecu8 cap_tx : N.
Notation TXIN := (c_txin_nowit pt_ok maxvec).
Notation TXOUT := (c_txout_nowit pt_ok maxvec).
Notation TX := (c_tx pt_ok maxvec cap_txin cap_txout cap_vecu8).

(* the issuance bit written into the outpoint index is the `has_issuance` of a canonical input *)
Lemma wire_flags_ok i : txin_wfB i = true -> wire_has_issuance (wire_vout i) = has_issuance i.
Proof. destruct i as [[t v] pg s q iss w]. unfold txin_wfB, wire_vout. cbn [in_prev o_vout in_pegin in_iss in_wit].
  set (hi := has_issuance _). intros Wb. apply andb_true_iff in Wb as [Wb _]. apply andb_true_iff in Wb as [Wv _].
  unfold wire_has_issuance. fold ALL1.
  apply orb_true_iff in Wv as [Wv|Wv].
  - apply andb_true_iff in Wv as [Wlt Wnt]. apply N.ltb_lt in Wlt. fold B30 in Wlt.
    assert (Hn : ~ (v = MASK /\ pg = true /\ hi = true)). { intros (E1 & E2 & E3). subst v pg. rewrite E3 in Wnt. cbn in Wnt. discriminate. }
    destruct (join_read v pg hi Wlt Hn) as (Hne & _ & H31 & _). unfold join, B30, B31 in *. fold bit30 Tx.bit31 in *.
    destruct (N.eqb_spec (N.lor (N.lor v (if pg then bit30 else 0)) (if hi then Tx.bit31 else 0)) u32max) as [E|_]; [contradiction|]. exact H31.
  - apply andb_true_iff in Wv as [Wv Wni]. apply andb_true_iff in Wv as [Wv Wnp]. apply N.eqb_eq in Wv. subst v.
    destruct pg; [discriminate|]. destruct hi; [discriminate|]. rewrite !N.lor_0_r. reflexivity. Qed.

Lemma fixed32_len b : wf (c_fixed 32) b = true -> N.of_nat (length b) = 32.
Proof. cbn [c_fixed wf]. intros H. apply Nat.eqb_eq in H. now rewrite H. Qed.

Lemma elen_txin j : wf TXIN j = true -> elen TXIN j = input_base j.
Proof. intros W. cbn [c_txin_nowit c_conv wf elen] in *. apply andb_true_iff in W as [Wb Ww].
  unfold wire_of_txin in *. cbn [c_txin_wire c_dep wf elen fst snd] in *. apply andb_true_iff in Ww as [Wh Wi].
  rewrite (wire_flags_ok j Wb) in *. unfold input_base.
  cbn [c_txin_head c_pair wf elen] in *. apply andb_true_iff in Wh as [W1 W2]. apply andb_true_iff in W1 as [Wt _].
  apply fixed32_len in Wt. cbn [c_hash32 c_fixed elen c_u32 c_le c_script c_varbytes]. rewrite Wt. unfold blen.
  destruct (has_issuance j).
  - cbn [c_issuance c_conv wf elen c_pair c_tweak c_guard c_hash32 c_fixed c_value] in *. apply andb_true_iff in Wi as [_ Wi].
    apply andb_true_iff in Wi as [Wn Wi]. apply andb_true_iff in Wi as [We _]. apply andb_true_iff in Wn as [Wn _].
    apply fixed32_len in Wn. apply fixed32_len in We. rewrite Wn, We. lia.
  - cbn [c_conv elen c_unit]. lia. Qed.
Lemma elen_txout o : elen TXOUT o = output_base o.
Proof. cbn [c_txout_nowit c_conv elen c_pair c_asset c_value c_nonce c_script c_varbytes]. unfold output_base, blen. lia. Qed.
Lemma elen_optproof ok o : elen (c_optproof maxvec ok) o = vi_size (optlen o) + optlen o.
Proof. cbn [c_optproof c_conv elen c_varbytes]. destruct o; reflexivity. Qed.
Lemma elen_stack s : elen (c_stack maxvec cap_vecu8) s = stack_size s.
Proof. cbn [c_stack c_vec elen]. unfold stack_size. f_equal. induction s as [|w s IH]; [reflexivity|].
  cbn [vn_len fold_right map nsum]. unfold vn_len, nsum in IH. rewrite IH. reflexivity. Qed.
Lemma elen_inwit i : elen (c_inwit maxvec cap_vecu8) (in_wit i) = input_wit i.
Proof. cbn [c_inwit c_conv elen c_pair]. unfold c_rangeproof. rewrite !elen_optproof, !elen_stack. unfold input_wit. lia. Qed.
Lemma elen_outwit o : elen (c_outwit maxvec) (out_wit o) = output_wit o.
Proof. cbn [c_outwit c_conv elen c_pair]. unfold c_rangeproof, c_surjproof. rewrite !elen_optproof. unfold output_wit. lia. Qed.
Lemma input_base_strip i : input_base (strip_in i) = input_base i. Proof. reflexivity. Qed.
Lemma output_base_strip o : output_base (strip_out o) = output_base o. Proof. reflexivity. Qed.

(* the length reported for a transaction, as a closed formula *)
Definition tx_formula (t : tx) : N :=
  9 + vi_size (N.of_nat (length (tx_in t))) + vi_size (N.of_nat (length (tx_out t)))
  + nsum (map input_base (tx_in t)) + nsum (map output_base (tx_out t))
  + (if has_witness t then nsum (map input_wit (tx_in t)) + nsum (map output_wit (tx_out t)) else 0).
Lemma scaled_formula k t : scaled_size k t =
  k * (9 + vi_size (N.of_nat (length (tx_in t))) + vi_size (N.of_nat (length (tx_out t))) + nsum (map input_base (tx_in t)) + nsum (map output_base (tx_out t)))
  + (if has_witness t then nsum (map input_wit (tx_in t)) + nsum (map output_wit (tx_out t)) else 0).
Proof. unfold scaled_size. rewrite !nsum_map_add, !nsum_map_mul, !nsum_map_if. destruct (has_witness t); lia. Qed.
Lemma wf_tx_parts t : wf TX t = true ->
  forallb (wf TXIN) (map strip_in (tx_in t)) = true /\ forallb (wf TXOUT) (map strip_out (tx_out t)) = true.
Proof. intros W. cbn [c_tx c_conv wf] in W. apply andb_true_iff in W as [_ W]. unfold wire_of_tx in W.
  cbn [c_tx_wire c_dep wf fst] in W. apply andb_true_iff in W as [Wh _].
  cbn [c_tx_head c_pair wf] in Wh. apply andb_true_iff in Wh as [_ Wh]. apply andb_true_iff in Wh as [_ Wh]. apply andb_true_iff in Wh as [Wi Wh]. apply andb_true_iff in Wh as [Wo _].
  cbn [c_vec wf] in Wi, Wo. apply andb_true_iff in Wi as [_ Wi]. apply andb_true_iff in Wo as [_ Wo]. split; assumption. Qed.
Lemma elen_tx t : wf TX t = true -> elen TX t = tx_formula t.
Proof. intros W. destruct (wf_tx_parts t W) as [Wi Wo]. cbn [c_tx c_conv elen]. unfold wire_of_tx.
  cbn [c_tx_wire c_dep elen fst snd]. unfold c_tx_wits, head_flag, head_ins, head_outs. cbn [fst snd].
  cbn [c_tx_head c_pair elen c_u32 c_le c_u8 c_vec]. rewrite !map_length, !vn_len_map.
  rewrite (nsum_map_ext (fun x => elen TXIN (strip_in x)) input_base).
  2:{ intros x Hx. rewrite elen_txin; [apply input_base_strip|]. apply (forallb_In _ _ Wi). now apply in_map. }
  rewrite (nsum_map_ext (fun x => elen TXOUT (strip_out x)) output_base) by (intros; rewrite elen_txout; apply output_base_strip).
  unfold tx_formula. destruct (has_witness t).
  - cbn [N.eqb Pos.eqb]. cbn [c_pair c_vecn elen]. rewrite !vn_len_map.
    rewrite (nsum_map_ext (fun x => elen (c_inwit maxvec cap_vecu8) (in_wit x)) input_wit) by (intros; apply elen_inwit).
    rewrite (nsum_map_ext (fun x => elen (c_outwit maxvec) (out_wit x)) output_wit) by (intros; apply elen_outwit). lia.
  - cbn [N.eqb]. cbn [c_conv elen c_unit]. lia. Qed.

Theorem size_is_length t : wf TX t = true -> tx_size t = N.of_nat (length (enc TX t)).
Proof. intros W. rewrite <- (l_len (c_tx_lawful pt_ok maxvec cap_txin cap_txout cap_vecu8) t W), (elen_tx t W).
  unfold tx_size. rewrite scaled_formula. unfold tx_formula. lia. Qed.
(* ---------- weight ---------- *)
Lemma strip_in_idem i : strip_in (strip_in i) = strip_in i. Proof. reflexivity. Qed.
Lemma strip_out_idem o : strip_out (strip_out o) = strip_out o. Proof. reflexivity. Qed.
Lemma has_witness_strip t : has_witness (strip_tx t) = false.
Proof. unfold has_witness, strip_tx. cbn [tx_in tx_out]. rewrite !existsb_map. cbn [strip_in strip_out in_wit out_wit].
  assert (E1 : forall l : list txin, existsb (fun _ => negb (inwit_is_empty empty_inwit)) l = false) by (induction l; cbn; auto).
  assert (E2 : forall l : list txout, existsb (fun _ => negb (outwit_is_empty empty_outwit)) l = false) by (induction l; cbn; auto).
  now rewrite E1, E2. Qed.
Lemma weight_split t : tx_weight t = 3 * tx_size (strip_tx t) + tx_size t.
Proof. unfold tx_weight, tx_size. rewrite !scaled_formula, has_witness_strip. unfold strip_tx. cbn [tx_in tx_out]. rewrite !map_length, !map_map.
  replace (map (fun x => input_base (strip_in x)) (tx_in t)) with (map input_base (tx_in t)) by (apply map_ext; reflexivity).
  replace (map (fun x => output_base (strip_out x)) (tx_out t)) with (map output_base (tx_out t)) by (apply map_ext; reflexivity). lia. Qed.
Lemma wf_strip t : wf TX t = true -> wf TX (strip_tx t) = true.
Proof. intros W. destruct (wf_tx_parts t W) as [Wi Wo]. cbn [c_tx c_conv wf] in *. apply andb_true_iff in W as [_ W]. cbn [andb].
  unfold wire_of_tx in *. rewrite has_witness_strip. cbn [c_tx_wire c_dep wf fst snd] in *. apply andb_true_iff in W as [Wh _].
  unfold strip_tx. cbn [tx_in tx_out tx_version tx_lock]. rewrite !map_map.
  rewrite (map_ext (fun x => strip_in (strip_in x)) strip_in) by reflexivity. rewrite (map_ext (fun x => strip_out (strip_out x)) strip_out) by reflexivity.
  cbn [c_tx_head c_pair wf] in *. apply andb_true_iff in Wh as [Wv Wh]. apply andb_true_iff in Wh as [_ Wh]. apply andb_true_iff in Wh as [Win Wh]. apply andb_true_iff in Wh as [Wout Wl].
  rewrite Wv, Win, Wout, Wl. cbn [c_u8 wf N.ltb N.compare andb]. unfold c_tx_wits, head_flag. cbn [fst snd N.eqb]. reflexivity. Qed.
Theorem weight_is_lengths t : wf TX t = true ->
  tx_weight t = 3 * N.of_nat (length (enc TX (strip_tx t))) + N.of_nat (length (enc TX t)).
Proof. intros W. rewrite weight_split, (size_is_length t W), (size_is_length (strip_tx t) (wf_strip t W)). reflexivity. Qed.

(* ---------- discount weight ---------- *)
Lemma fold_sub (d : txout -> N) (step : N -> txout -> N) :
  (forall w o, d o <= w -> step w o = w - d o) ->
  forall l w0, nsum (map d l) <= w0 -> fold_left step l w0 = w0 - nsum (map d l).
Proof. intros Hs. induction l as [|o l IH]; intros w0 H; cbn [fold_left map nsum fold_right] in *; [lia|].
  unfold nsum in *. rewrite Hs by lia. rewrite IH by lia. lia. Qed.
Lemma output_wit_empty o : outwit_is_empty (out_wit o) = true -> output_wit o = 2.
Proof. intros H. apply outwit_empty_eq in H. unfold output_wit. rewrite H. reflexivity. Qed.
Lemma value_len_conf v : value_is_conf v = true -> value_len v = 33. Proof. destruct v; try discriminate; reflexivity. Qed.
Lemma nonce_len_conf v : nonce_is_conf v = true -> nonce_len v = 33. Proof. destruct v; try discriminate; reflexivity. Qed.
Lemma discount_bounded t : nsum (map output_discount (tx_out t)) <= tx_weight t.
Proof. unfold tx_weight. rewrite scaled_formula.
  assert (H : nsum (map output_discount (tx_out t)) <= 4 * nsum (map output_base (tx_out t)) + (if has_witness t then nsum (map output_wit (tx_out t)) else 0)).
  { destruct (has_witness t) eqn:HW.
    - induction (tx_out t) as [|o l IH]; cbn [map nsum fold_right]; [lia|]. unfold nsum in *.
      assert (output_discount o <= 4 * output_base o + output_wit o).
      { unfold output_discount, output_base. destruct (value_is_conf (out_value o)) eqn:V; destruct (nonce_is_conf (out_nonce o)) eqn:Nn;
          rewrite ?(value_len_conf _ V), ?(nonce_len_conf _ Nn); lia. }
      lia.
    - rewrite has_witness_alt in HW. apply negb_false_iff in HW. apply andb_true_iff in HW as [_ HW]. rewrite forallb_map in HW.
      induction (tx_out t) as [|o l IH]; cbn [map nsum fold_right]; [lia|]. cbn [forallb] in HW. apply andb_true_iff in HW as [H1 H2]. unfold nsum in *.
      assert (output_discount o <= 4 * output_base o).
      { unfold output_discount, output_base. rewrite (output_wit_empty o H1). destruct (value_is_conf (out_value o)) eqn:V; destruct (nonce_is_conf (out_nonce o)) eqn:Nn;
          rewrite ?(value_len_conf _ V), ?(nonce_len_conf _ Nn); lia. }
      specialize (IH H2). lia. }
  destruct (has_witness t); lia. Qed.
Theorem discount_is_weight_minus t :
  discount_weight t = tx_weight t - nsum (map output_discount (tx_out t)) /\ nsum (map output_discount (tx_out t)) <= tx_weight t.
Proof. split; [|apply discount_bounded]. unfold discount_weight. apply fold_sub; [|apply discount_bounded].
  intros w o H. unfold output_discount in *. lia. Qed.

(* ---------- blocks ---------- *)
Notation BLOCK := (c_block pt_ok maxvec cap_txin cap_txout cap_vecu8 cap_tx).
Theorem block_size_is_length b : wf BLOCK b = true -> block_size maxvec cap_vecu8 b = N.of_nat (length (enc BLOCK b)).
Proof. intros W. cbn [c_block c_conv wf enc] in *. apply andb_true_iff in W as [_ W]. cbn [c_pair wf enc] in *. apply andb_true_iff in W as [Wh Wt].
  cbn [c_vec wf enc] in *. apply andb_true_iff in Wt as [Wn Wt]. apply andb_true_iff in Wn as [_ Wn].
  rewrite !app_length, !Nnat.Nat2N.inj_add. unfold block_size, blen.
  pose proof (l_len c_varint_lawful (N.of_nat (length (b_txs b))) Wn) as Lv. cbn [c_varint elen enc] in Lv. rewrite <- Lv.
  rewrite <- (vn_len_ok TX (c_tx_lawful pt_ok maxvec cap_txin cap_txout cap_vecu8) (b_txs b) Wt).
  assert (E : nsum (map tx_size (b_txs b)) = vn_len TX (b_txs b)).
  { clear Lv Wn Wh. induction (b_txs b) as [|t l IH]; [reflexivity|]. cbn [forallb] in Wt. apply andb_true_iff in Wt as [W1 W2].
    cbn [map nsum fold_right vn_len]. unfold nsum, vn_len in *. rewrite IH by assumption. rewrite (elen_tx t W1). unfold tx_size. rewrite scaled_formula. unfold tx_formula. lia. }
  rewrite E. lia. Qed.
End SIZES.
