(* Lemmas about the ideal objects of Model/Ideal.v: completeness and binding of ideal range / surjection proofs,
   rewind, coefficient calculus of generators and commitments. *)
From Coq Require Import List NArith ZArith Bool Lia Setoid Morphisms.
From Coq.Strings Require Import Byte.
From EV Require Import Base.Bytes Base.Zn Base.FreeMod Model.Ideal.
Import ListNotations.
Open Scope Z_scope.

Definition sgen (s : secrets) : gel := asset_gen (s_asset s) (s_abf s).
Definition scommit (s : secrets) : gel := commit (s_value s) (sgen s) (s_vbf s).
Definition svb (s : secrets) : Z := vb (s_value s, s_abf s, s_vbf s).

Global Instance commit_geq : Proper (eq ==> geq ==> eq ==> geq) commit.
Proof. intros v v' -> g g' E b b' ->. unfold commit. now rewrite E. Qed.

Lemma coeff_scommit_G s : coeff (scommit s) kG = svb s.
Proof.
  unfold scommit, sgen, svb, vb. rewrite coeff_commit, coeff_asset_gen_G, N.eqb_refl. zn_ring.
Qed.
Lemma coeff_scommit_H s b :
  coeff (scommit s) (kH b) = if N.eqb b (s_asset s) then (s_value s) mod qn else 0.
Proof.
  unfold scommit, sgen. rewrite coeff_commit, coeff_asset_gen_H, kH_not_G.
  destruct (N.eqb b (s_asset s)); unfold zadd, zmul.
  - rewrite Z.mul_1_r, Z.add_0_r. apply zn_idem.
  - rewrite Z.mul_0_r. reflexivity.
Qed.
Lemma commit_nonzero v a abf vbf : 0 < v < qn -> ~ geq (commit v (asset_gen a abf) vbf) gzero.
Proof.
  intros V E. specialize (E (kH a)). rewrite coeff_commit, coeff_asset_gen_H, kH_not_G, N.eqb_refl, coeff_zero in E.
  unfold zadd, zmul in E. rewrite Z.mul_1_r, Z.add_0_r, zn_idem, Z.mod_small in E by lia. lia.
Qed.
Lemma commit_H_nonzero v a vbf : 0 < v < qn -> ~ geq (commit v (gH a) vbf) gzero.
Proof.
  intros V E. specialize (E (kH a)). rewrite coeff_commit, coeff_H, kH_not_G, N.eqb_refl, coeff_zero in E.
  unfold zadd, zmul in E. rewrite Z.mul_1_r, Z.add_0_r, zn_idem, Z.mod_small in E by lia. lia.
Qed.
Lemma asset_gen_0 a : geq (asset_gen a 0) (gH a).
Proof.
  intro k. unfold asset_gen. rewrite coeff_add, coeff_scale, coeff_G. unfold zadd, zmul.
  rewrite Z.mul_0_l, Zmod_0_l, Z.add_0_r. apply coeff_mod.
Qed.
(* same asset, other blinding factor: the generators differ by a multiple of G *)
Lemma asset_gen_shift a abf bf : geq (asset_gen a abf) (gadd (asset_gen a bf) (gscale (zsub abf bf) gG)).
Proof.
  intro k. unfold asset_gen. rewrite !coeff_add, !coeff_scale, coeff_G, coeff_H.
  destruct (N.eqb k (kH a)), (N.eqb k kG); zn_ring.
Qed.

(* ---- ideal range proofs *)
(* the regenerated constant TxOut::RANGEPROOF_MIN_VALUE; if it changes in the source this lemma, and with it C04, stops checking *)
Lemma rp_min_value : RANGEPROOF_MIN_VALUE = 1. Proof. reflexivity. Qed.
Lemma rp_new_verify c v vbf msg spk key gen rp :
  rp_new c v vbf msg spk key gen = Some rp -> geq c (commit v gen vbf) -> rp_verify rp c spk gen = true.
Proof.
  unfold rp_new. destruct ((RANGEPROOF_MIN_VALUE <=? v) && (v <=? I64_MAX)) eqn:R; [|discriminate].
  intros [= <-] E. apply andb_true_iff in R as [R1 R2]. apply Z.leb_le in R1, R2. rewrite rp_min_value in R1. unfold I64_MAX in *.
  unfold rp_verify. cbn [rp_intact rp_commit rp_script rp_gen rp_value rp_vbf].
  rewrite !geqb_refl, bytes_eqb_refl. cbn [andb].
  apply andb_true_iff. split; [apply andb_true_iff; split|].
  - now apply geqb_spec.
  - apply Z.leb_le. lia.
  - apply Z.ltb_lt. lia.
Qed.
(* the guard of Value::blind_with_shared_secret (since 17278a0) passes exactly for values the range proof can cover from below *)
Lemma min_guard v : 1 <= v -> (v <? RANGEPROOF_MIN_VALUE) = false.
Proof. intro H. apply Z.ltb_ge. rewrite rp_min_value. exact H. Qed.
Lemma rp_new_some c v vbf msg spk key gen :
  1 <= v <= I64_MAX -> rp_new c v vbf msg spk key gen = Some (mkRP c spk gen v vbf msg key true).
Proof.
  intros V. unfold rp_new. rewrite rp_min_value. destruct (1 <=? v) eqn:A, (v <=? I64_MAX) eqn:B; try reflexivity;
    try apply Z.leb_gt in A; try apply Z.leb_gt in B; lia.
Qed.
Lemma rp_rewind_new c v vbf msg spk key gen rp :
  rp_new c v vbf msg spk key gen = Some rp -> geq c (commit v gen vbf) ->
  rp_rewind rp c key spk gen = Some (v, vbf, msg).
Proof.
  intros N E. unfold rp_rewind. rewrite (rp_new_verify _ _ _ _ _ _ _ _ N E).
  unfold rp_new in N. destruct (_ && _); [|discriminate]. injection N as <-. cbn. now rewrite Z.eqb_refl.
Qed.
(* soundness and binding, by construction *)
Lemma rp_verify_sound rp c spk gen : rp_verify rp c spk gen = true ->
  geq c (commit (rp_value rp) gen (rp_vbf rp)) /\ 0 <= rp_value rp < 2 ^ 64 /\ spk = rp_script rp /\ rp_intact rp = true
  /\ geq c (rp_commit rp) /\ geq gen (rp_gen rp).
Proof.
  unfold rp_verify. rewrite !andb_true_iff. intros [[[[[[I C] S] G] O] L] U].
  apply geqb_spec in C, G, O. apply Z.leb_le in L. apply Z.ltb_lt in U.
  destruct (bytes_eqb_spec spk (rp_script rp)) as [->|]; [|discriminate].
  repeat split; try assumption; try lia. rewrite C, O. now rewrite <- G.
Qed.

(* ---- ideal surjection proofs *)
Lemma sp_verify_new tag abf d sp domain :
  sp_new tag abf d = Some sp -> Forall2 geq domain (map (fun e => fst (fst e)) d) ->
  (forall i bf, find_tag tag d 0 = Some (i, bf) -> exists g, nth_error d i = Some (g, Some tag, bf) /\ geq g (asset_gen tag bf)) ->
  sp_verify sp (asset_gen tag abf) domain = true.
Proof.
  unfold sp_new. destruct (find_tag tag d 0) as [[i bf]|] eqn:F; [|discriminate]. intros [= <-] D W.
  destruct (W i bf eq_refl) as (g & NE & G).
  unfold sp_verify. cbn [sp_intact sp_gen sp_domain sp_idx sp_diff]. rewrite geqb_refl. cbn [andb].
  apply andb_true_iff. split. - now apply geqb_list_spec.
  - rewrite nth_error_map. unfold sdom in *. rewrite NE. cbn [option_map fst]. apply geqb_spec. rewrite G. apply asset_gen_shift.
Qed.
Lemma find_tag_spec tag d : forall k i bf, find_tag tag d k = Some (i, bf) ->
  exists g, nth_error d (i - k) = Some (g, Some tag, bf) /\ (k <= i)%nat.
Proof.
  induction d as [|[[g ot] b] r IH]; intros k i bf F; cbn [find_tag] in F. - discriminate.
  - destruct ot as [t'|].
    + destruct (N.eqb_spec tag t') as [<-|NE].
      * injection F as <- <-. exists g. rewrite Nat.sub_diag. split; [reflexivity|lia].
      * destruct (IH _ _ _ F) as (g' & NE' & L). exists g'. split; [|lia].
        replace (i - k)%nat with (S (i - S k)) by lia. exact NE'.
    + destruct (IH _ _ _ F) as (g' & NE' & L). exists g'. split; [|lia].
      replace (i - k)%nat with (S (i - S k)) by lia. exact NE'.
Qed.
Lemma find_tag_some tag d : (exists g bf, In (g, Some tag, bf) d) -> forall k, exists i bf, find_tag tag d k = Some (i, bf).
Proof.
  intros (g & bf & I). induction d as [|[[g' ot] b] r IH]; intro k; [destruct I|].
  cbn [find_tag]. destruct ot as [t'|].
  - destruct (N.eqb_spec tag t') as [<-|NE]. + now exists k, b.
    + destruct I as [E|I]; [congruence|]. apply IH, I.
  - destruct I as [E|I]; [congruence|]. apply IH, I.
Qed.
Lemma sp_verify_sound sp gen domain : sp_verify sp gen domain = true ->
  exists d, nth_error domain (sp_idx sp) = Some d /\ geq gen (gadd d (gscale (sp_diff sp) gG)) /\ sp_intact sp = true
            /\ geq gen (sp_gen sp) /\ Forall2 geq domain (sp_domain sp).
Proof.
  unfold sp_verify. rewrite !andb_true_iff. intros [[[I G] D] W].
  apply geqb_spec in G. apply geqb_list_spec in D.
  destruct (nth_error (sp_domain sp) (sp_idx sp)) as [d'|] eqn:NE; [|discriminate]. apply geqb_spec in W.
  assert (X : exists d, nth_error domain (sp_idx sp) = Some d /\ geq d d').
  { clear -D NE. revert NE. generalize (sp_idx sp). induction D as [|x y l l' E D IH]; intros [|n] NE; cbn in *; try discriminate.
    - injection NE as <-. now exists x. - now apply IH. }
  destruct X as (d & ND & E). exists d. repeat split; try assumption. now rewrite G, W, E.
Qed.
