(* C06, base58check forms: base58check create/verify, the first character of a displayed base58check address (so that the parser never
   takes the segwit branch for it), the round trip parse (display a) = a for p2pkh / p2sh addresses, blinded or not, and the resulting
   full-strength "one network" theorem. *)
From Coq Require Import List NArith ZArith Bool Lia ZifyN ZifyBool ZifyNat.
From Coq.Strings Require Import Byte.
From EV Require Import Base.Bytes Gen.Tables Model.Bech32 Model.Base58 Model.Address Proofs.Bech32 Proofs.Bech32Codes Proofs.Bech32Enc Proofs.Address
  Proofs.AddressRT Proofs.Numeral.
Ltac Zify.zify_post_hook ::= Z.div_mod_to_equations.
Import ListNotations.
Open Scope N_scope.
Set Default Timeout 30.

(* ---------------------------------------------------------------- base58check: create then verify, verify then re-create *)
Section Check58.
Variable H : bytes -> bytes.

Lemma b58_check_inv s data : b58_decode_check H s = Ok58 data -> exists ck, length ck = 4%nat /\ ck = firstn 4 (H data) /\ b58_decode s = Ok58 (data ++ ck).
Proof. unfold b58_decode_check. destruct (b58_decode s) as [ret|] eqn:D; [|discriminate].
  destruct (Nat.ltb_spec (length ret) 4) as [|L]; [discriminate|]. set (k := (length ret - 4)%nat).
  destruct (bytes_eqb_spec (firstn 4 (H (firstn k ret))) (skipn k ret)) as [E|]; [|discriminate]. intros X. injection X as <-.
  exists (skipn k ret). split; [rewrite skipn_length; unfold k; lia|]. split; [now symmetry|]. now rewrite firstn_skipn. Qed.
(* canonical direction: an accepted text is the encoding of what it decodes to *)
Lemma b58_check_canonical s data : b58_decode_check H s = Ok58 data -> b58_encode_check H data = s.
Proof. intros E. destruct (b58_check_inv _ _ E) as (ck & _ & -> & D). unfold b58_encode_check. now apply b58_encode_decode. Qed.
(* round trip: needs a hash of at least four bytes (SHA-256d: 32) *)
Lemma b58_check_roundtrip data : (4 <= length (H data))%nat -> b58_decode_check H (b58_encode_check H data) = Ok58 data.
Proof. intros L4. unfold b58_encode_check, b58_decode_check. rewrite b58_decode_encode.
  assert (LC : length (firstn 4 (H data)) = 4%nat) by (rewrite firstn_length; lia).
  rewrite app_length, LC. destruct (Nat.ltb_spec (length data + 4) 4) as [|_]; [lia|].
  replace (length data + 4 - 4)%nat with (length data) by lia.
  rewrite firstn_app, Nat.sub_diag, firstn_all, firstn_O, app_nil_r, skipn_app, Nat.sub_diag, skipn_all. cbn [skipn app].
  now rewrite bytes_eqb_refl. Qed.
End Check58.

(* ---------------------------------------------------------------- the first character *)
(* could `c` be the first character of a text whose prefix (everything before the last '1') matches the HRP `h`? *)
Definition starts_like (c : byte) (h : bytes) : bool := match h with [] => true | h0 :: _ => byte_eqb (to_lower h0) (to_lower c) end.
(* ... of one of the six built-in HRPs (recomputed from Gen/Tables.v) *)
Definition hrp_first (c : byte) : bool := existsb (fun p => starts_like c (p_bech p) || starts_like c (p_blech p)) builtin.

Lemma match_prefix_first c rest h : match_prefix (find_prefix (c :: rest)) h = true -> starts_like c h = true.
Proof. destruct h as [|h0 hr]; [reflexivity|]. unfold match_prefix, find_prefix. destruct (rsplit x31 (c :: rest)) as [[p q]|] eqn:R.
  - apply rsplit_spec in R as [E _]. destruct p as [|c' p']; cbn [eq_lower]; [discriminate|]. cbn [app] in E. injection E as <- _.
    intros X. apply andb_true_iff in X as [X _]. exact X.
  - cbn [eq_lower]. intros X. apply andb_true_iff in X as [X _]. exact X. Qed.
Lemma hrp_first_false c rest p : hrp_first c = false -> In p builtin ->
  match_prefix (find_prefix (c :: rest)) (p_bech p) = false /\ match_prefix (find_prefix (c :: rest)) (p_blech p) = false.
Proof. intros F Ip.
  assert (X : forall h, (h = p_bech p \/ h = p_blech p) -> match_prefix (find_prefix (c :: rest)) h = false).
  { intros h Eh. destruct (match_prefix (find_prefix (c :: rest)) h) eqn:M; [|reflexivity]. apply match_prefix_first in M.
    assert (T : hrp_first c = true); [|congruence]. apply existsb_exists. exists p. split; [exact Ip|].
    destruct Eh as [<-|<-]; rewrite M; [reflexivity|apply orb_true_r]. }
  split; apply X; tauto. Qed.

Definition nrange (a b : N) : list N := map (fun i => a + N.of_nat i) (seq 0 (N.to_nat (b + 1 - a))).
Lemma nrange_in a b x : a <= x <= b -> In x (nrange a b).
Proof. intros L. unfold nrange. apply in_map_iff. exists (N.to_nat (x - a)). split; [lia|apply in_seq; lia]. Qed.

(* The sweep: every byte string of n + 1 bytes whose first byte is p (1..255) has a base58 text of exactly m0 + 1 characters, m0 + 1 <= 150,
   whose first character is one of the digits lo/58^m0 .. hi/58^m0, none of which can start a built-in HRP. *)
Definition first_char_ok (p : N) (n : nat) : bool :=
  let lo := p * 256 ^ N.of_nat n in let hi := lo + (256 ^ N.of_nat n - 1) in
  let m0 := N.of_nat (length (digits 58 lo)) - 1 in
  (0 <? p) && (p <? 256) && (58 ^ m0 <=? lo) && (hi <? 58 ^ (m0 + 1)) && (m0 + 1 <=? BASE58_MAX_LEN) &&
  forallb (fun d => negb (hrp_first (b58_char d))) (nrange (lo / 58 ^ m0) (hi / 58 ^ m0)).

Lemma first_char_sound p n : first_char_ok p n = true -> forall bs, length bs = n ->
  exists c rest, b58_encode (n2b p :: bs) = c :: rest /\ hrp_first c = false /\ too_long_for_base58 (c :: rest) = false.
Proof. unfold first_char_ok. set (lo := p * 256 ^ N.of_nat n). set (hi := lo + (256 ^ N.of_nat n - 1)). set (m0 := N.of_nat (length (digits 58 lo)) - 1).
  cbv zeta. intros OK bs Lb. assert (G256 : 2 <= 256) by lia. assert (G58 : 2 <= 58) by lia. repeat (apply andb_true_iff in OK as [OK ?]).
  assert (P0 : 0 < p) by (apply N.ltb_lt; assumption). assert (P256 : p < 256) by (apply N.ltb_lt; assumption).
  assert (B1 : 58 ^ m0 <= lo) by (apply N.leb_le; assumption). assert (B2 : hi < 58 ^ (m0 + 1)) by (apply N.ltb_lt; assumption).
  assert (ML : m0 + 1 <= BASE58_MAX_LEN) by (apply N.leb_le; assumption).
  assert (FA : forall d, lo / 58 ^ m0 <= d <= hi / 58 ^ m0 -> hrp_first (b58_char d) = false).
  { intros d Hd. apply negb_true_iff. match goal with X : forallb _ _ = true |- _ => exact (proj1 (forallb_forall _ _) X d (nrange_in _ _ _ Hd)) end. }
  rewrite b58_encode_conv. cbn [map]. rewrite (b2n_n2b_small p P256). unfold conv. cbn [count_leading].
  destruct (N.eqb_spec 0 p) as [Z|_]; [lia|]. cbn [repeat app].
  set (V := value 256 (p :: map b2n bs) 0). destruct (digits_spec 58 G58 V) as (C & EV).
  assert (LV : lo <= V <= hi).
  { unfold V. rewrite (value_cons 256 G256), map_length, Lb. pose proof (value_lt 256 G256 _ (dig256_bytes bs)) as X. rewrite map_length, Lb in X.
    unfold hi, lo. lia. }
  assert (LV' : lo <= value 58 (digits 58 V) 0 <= hi) by (rewrite EV; exact LV).
  destruct (canon_head_bounds 58 G58 (digits 58 V) m0 lo hi C LV' B1 B2) as (d & r & -> & Lr & Bd).
  exists (b58_char d), (map b58_char r). split; [reflexivity|]. split; [apply FA; exact Bd|].
  unfold too_long_for_base58. apply N.ltb_ge. cbn [length]. rewrite map_length. lia. Qed.

(* the nine version bytes of the built-in networks, with either payload length (hash / blinding key + hash; + prefix bytes + checksum) *)
Lemma builtin_first_chars : forallb (fun p => forallb (fun x => first_char_ok x 24 && first_char_ok x 58) [p_p2pkh p; p_p2sh p; p_blinded p]) builtin = true.
Proof. vm_compute. reflexivity. Qed.
Lemma builtin_first_char p x n : In p builtin -> x = p_p2pkh p \/ x = p_p2sh p \/ x = p_blinded p -> n = 24%nat \/ n = 58%nat -> first_char_ok x n = true.
Proof. intros Ip Ex En. pose proof (proj1 (forallb_forall _ _) builtin_first_chars p Ip) as X. cbv beta in X.
  assert (Ix : In x [p_p2pkh p; p_p2sh p; p_blinded p]) by (destruct Ex as [-> | [-> | ->]]; cbn [In]; tauto).
  pose proof (proj1 (forallb_forall _ _) X x Ix) as Y. cbv beta in Y. apply andb_true_iff in Y as [Y1 Y2]. destruct En as [->| ->]; assumption. Qed.

(* a base58check text of one of the nine version bytes is never read as a segwit string by any built-in network *)
Lemma b58_text_dispatch p x n bs : In p builtin -> x = p_p2pkh p \/ x = p_p2sh p \/ x = p_blinded p -> n = 24%nat \/ n = 58%nat -> length bs = n ->
  too_long_for_base58 (b58_encode (n2b x :: bs)) = false /\
  forall p', In p' builtin -> match_prefix (find_prefix (b58_encode (n2b x :: bs))) (p_bech p') = false /\
                              match_prefix (find_prefix (b58_encode (n2b x :: bs))) (p_blech p') = false.
Proof. intros Ip Ex En Lb. destruct (first_char_sound x n (builtin_first_char p x n Ip Ex En) bs Lb) as (c & rest & -> & F & TL).
  split; [exact TL|]. intros p' Ip'. now apply hrp_first_false. Qed.

(* ---------------------------------------------------------------- version bytes *)
Lemma builtin_prefix_facts p : In p builtin ->
  p_p2pkh p < 256 /\ p_p2sh p < 256 /\ p_blinded p < 256 /\ p_p2pkh p <> p_blinded p /\ p_p2sh p <> p_blinded p /\ p_p2sh p <> p_p2pkh p.
Proof. intros I. cbn in I. destruct I as [<-|[<-|[<-|[]]]]; vm_compute; repeat split; discriminate. Qed.
Definition has_prefix (p : params) (x : N) : Prop := x = p_p2pkh p \/ x = p_p2sh p \/ x = p_blinded p.
(* the nine version bytes are pairwise different across networks *)
Lemma builtin_prefixes_distinct9 p p' x : In p builtin -> In p' builtin -> has_prefix p x -> has_prefix p' x -> p = p'.
Proof. intros I I' X X'. cbn in I, I'. unfold has_prefix in *.
  destruct I as [<-|[<-|[<-|[]]]], I' as [<-|[<-|[<-|[]]]]; try reflexivity; exfalso;
    destruct X as [-> | [-> | ->]], X' as [X'|[X'|X']]; vm_compute in X'; discriminate X'. Qed.

Section B58Addr.
Variable H : bytes -> bytes. Variable pkv : bytes -> bool.

Lemma from_str_bech_none_intro s prefix nets :
  (forall p, In p nets -> match_prefix prefix (p_bech p) = false /\ match_prefix prefix (p_blech p) = false) -> from_str_bech pkv s prefix nets = None.
Proof. induction nets as [|net r IH]; intros A; [reflexivity|]. cbn [from_str_bech]. destruct (A net (or_introl eq_refl)) as [-> ->].
  apply IH. intros p Ip. apply A. now right. Qed.
Lemma from_str_b58_first data x p nets : In p nets -> has_prefix p x -> (forall p', In p' nets -> has_prefix p' x -> p' = p) ->
  from_str_b58 pkv data x nets = from_base58 pkv data p.
Proof. induction nets as [|net r IH]; intros Ip Hp U; [contradiction|]. cbn [from_str_b58].
  destruct ((x =? p_p2pkh net) || (x =? p_p2sh net) || (x =? p_blinded net)) eqn:M.
  - rewrite (U net (or_introl eq_refl)); [reflexivity|]. unfold has_prefix. apply orb_true_iff in M as [M|M]; [apply orb_true_iff in M as [M|M]|];
      apply N.eqb_eq in M; tauto.
  - destruct Ip as [->|Ip].
    + exfalso. unfold has_prefix in Hp. apply orb_false_iff in M as [M M3]. apply orb_false_iff in M as [M1 M2].
      apply N.eqb_neq in M1, M2, M3. tauto.
    + apply IH; [exact Ip|exact Hp|]. intros p' Ip'. apply U. now right. Qed.

(* the bytes Display feeds to base58check for a p2pkh / p2sh address, and what from_base58 makes of them *)
Definition b58_payload (a : address) : option bytes :=
  let p := a_params a in
  match a_payload a, a_blinder a with
  | PubkeyHash h, Some bl => Some (n2b (p_blinded p) :: n2b (p_p2pkh p) :: bl ++ h)
  | PubkeyHash h, None => Some (n2b (p_p2pkh p) :: h)
  | ScriptHash h, Some bl => Some (n2b (p_blinded p) :: n2b (p_p2sh p) :: bl ++ h)
  | ScriptHash h, None => Some (n2b (p_p2sh p) :: h)
  | WitnessProgram _ _, _ => None end.
Lemma display_b58 a d : b58_payload a = Some d -> display H a = b58_encode_check H d.
Proof. unfold b58_payload, display. destruct (a_payload a), (a_blinder a); intros E; try discriminate E; injection E as <-; reflexivity. Qed.

Lemma from_base58_payload a d : wf_addr pkv a -> b58_payload a = Some d ->
  from_base58 pkv d (a_params a) = AOk a /\
  exists x bs, d = n2b x :: bs /\ b2n (n2b x) = x /\ has_prefix (a_params a) x /\ (length bs + 4 = 24 \/ length bs + 4 = 58)%nat.
Proof. destruct a as [p pay blinder]. intros (Ip & WB & WP) E. cbn [a_params a_payload a_blinder] in *.
  destruct (builtin_prefix_facts p Ip) as (F1 & F2 & F3 & F4 & F5 & F6).
  unfold b58_payload in E. cbn [a_params a_payload a_blinder] in E.
  destruct pay as [h|h|v prog]; [| |destruct blinder; discriminate E]; destruct blinder as [bl|]; injection E as <-; unfold from_base58; cbv zeta.
  - destruct WB as [Lb Pb]. rewrite !b2n_n2b_small by assumption. rewrite N.eqb_refl.
    assert (L53 : length (bl ++ h) = 53%nat) by (rewrite app_length; lia). rewrite L53. cbn [Nat.eqb negb].
    assert (F33 : firstn 33 (bl ++ h) = bl) by (rewrite <- Lb, firstn_app, Nat.sub_diag, firstn_all, firstn_O; apply app_nil_r).
    assert (S33 : skipn 33 (bl ++ h) = h) by (rewrite <- Lb, skipn_app, Nat.sub_diag, skipn_all; reflexivity).
    rewrite F33, S33, Pb.
    rewrite N.eqb_refl. split; [reflexivity|]. eexists _, _. split; [reflexivity|]. split; [now apply b2n_n2b_small|]. split; [unfold has_prefix; tauto|].
    cbn [length]. rewrite L53. lia.
  - rewrite !b2n_n2b_small by assumption. destruct (N.eqb_spec (p_p2pkh p) (p_blinded p)) as [|_]; [contradiction|]. rewrite WP. cbn [Nat.eqb negb].
    rewrite N.eqb_refl. split; [reflexivity|]. eexists _, _. split; [reflexivity|]. split; [now apply b2n_n2b_small|]. split; [unfold has_prefix; tauto|]. lia.
  - destruct WB as [Lb Pb]. rewrite !b2n_n2b_small by assumption. rewrite N.eqb_refl.
    assert (L53 : length (bl ++ h) = 53%nat) by (rewrite app_length; lia). rewrite L53. cbn [Nat.eqb negb].
    assert (F33 : firstn 33 (bl ++ h) = bl) by (rewrite <- Lb, firstn_app, Nat.sub_diag, firstn_all, firstn_O; apply app_nil_r).
    assert (S33 : skipn 33 (bl ++ h) = h) by (rewrite <- Lb, skipn_app, Nat.sub_diag, skipn_all; reflexivity).
    rewrite F33, S33, Pb.
    destruct (N.eqb_spec (p_p2sh p) (p_p2pkh p)) as [|_]; [contradiction|]. rewrite N.eqb_refl.
    split; [reflexivity|]. eexists _, _. split; [reflexivity|]. split; [now apply b2n_n2b_small|]. split; [unfold has_prefix; tauto|].
    cbn [length]. rewrite L53. lia.
  - rewrite !b2n_n2b_small by assumption. destruct (N.eqb_spec (p_p2sh p) (p_blinded p)) as [|_]; [contradiction|]. rewrite WP. cbn [Nat.eqb negb].
    destruct (N.eqb_spec (p_p2sh p) (p_p2pkh p)) as [|_]; [contradiction|]. rewrite N.eqb_refl.
    split; [reflexivity|]. eexists _, _. split; [reflexivity|]. split; [now apply b2n_n2b_small|]. split; [unfold has_prefix; tauto|]. lia. Qed.

(* C06 round trip, base58check forms.  The hash must return at least the four checksum bytes (SHA-256d returns 32). *)
Theorem roundtrip_base58 a : (forall x, 4 <= length (H x))%nat -> wf_addr pkv a -> ~ is_segwit a ->
  parse_with_params H pkv (display H a) (a_params a) = AOk a /\ from_str H pkv (display H a) = AOk a.
Proof. intros H4 WF NS.
  assert (PD : exists d, b58_payload a = Some d).
  { unfold b58_payload. destruct (a_payload a) as [h|h|v prog] eqn:EP; [destruct (a_blinder a); eauto|destruct (a_blinder a); eauto|].
    exfalso. apply NS. now exists v, prog. }
  destruct PD as [d PD]. rewrite (display_b58 a d PD). destruct (from_base58_payload a d WF PD) as (FB & x & bs & -> & Bx & HP & Lbs).
  pose proof WF as (Ip & _ & _).
  set (ck := firstn 4 (H (n2b x :: bs))). assert (Lck : length ck = 4%nat) by (unfold ck; rewrite firstn_length; specialize (H4 (n2b x :: bs)); lia).
  assert (ET : b58_encode_check H (n2b x :: bs) = b58_encode (n2b x :: (bs ++ ck))) by reflexivity.
  assert (Ln : (length (bs ++ ck) = 24 \/ length (bs ++ ck) = 58)%nat) by (rewrite app_length, Lck; exact Lbs).
  destruct (b58_text_dispatch (a_params a) x (length (bs ++ ck)) (bs ++ ck) Ip HP Ln eq_refl) as [TL NM]. rewrite <- ET in TL, NM.
  pose proof (b58_check_roundtrip H (n2b x :: bs) (H4 _)) as DC.
  split.
  - unfold parse_with_params. destruct (NM _ Ip) as [-> ->]. cbn [orb]. rewrite TL, DC. exact FB.
  - unfold from_str. rewrite (from_str_bech_none_intro _ _ builtin NM), TL, DC, Bx.
    rewrite (from_str_b58_first (n2b x :: bs) x (a_params a) builtin Ip HP); [exact FB|].
    intros p' Ip' HP'. exact (builtin_prefixes_distinct9 p' (a_params a) x Ip' Ip HP' HP). Qed.

(* C06 one network, full strength: the residual case of Proofs/Address.v: one_network (one network reads the text as segwit, the other as
   base58check) is impossible — a text that base58check-decodes to one of a built-in network's version bytes with the length
   from_base58 demands starts with a character that no built-in HRP starts with. *)
Lemma b58_accept_not_segwit s data p a p' : In p builtin -> In p' builtin -> b58_decode_check H s = Ok58 data -> from_base58 pkv data p = AOk a ->
  match_prefix (find_prefix s) (p_bech p') = false /\ match_prefix (find_prefix s) (p_blech p') = false.
Proof. intros Ip Ip' DC FB. destruct (b58_check_inv H _ _ DC) as (ck & Lck & _ & D). apply b58_encode_decode in D.
  destruct (from_base58_prefix H pkv _ _ _ FB) as (bp & bd & -> & C). cbn [app] in D. rewrite <- (n2b_b2n bp) in D. rewrite <- D.
  assert (X : has_prefix p (b2n bp) /\ (length (bd ++ ck) = 24 \/ length (bd ++ ck) = 58)%nat).
  { rewrite app_length, Lck. unfold has_prefix. destruct C as [[B L]|(N & L & [P|P])]; (split; [tauto|lia]). }
  destruct X as [HP Ln]. exact (proj2 (b58_text_dispatch p (b2n bp) _ (bd ++ ck) Ip HP Ln eq_refl) p' Ip'). Qed.

Theorem one_network_full s p1 p2 a1 a2 : In p1 builtin -> In p2 builtin ->
  parse_with_params H pkv s p1 = AOk a1 -> parse_with_params H pkv s p2 = AOk a2 -> p1 = p2.
Proof. intros I1 I2 E1 E2. destruct (one_network H pkv s p1 p2 a1 a2 I1 I2 E1 E2) as [E|[NE _]]; [exact E|]. exfalso. apply NE. clear NE.
  unfold segwit_path. unfold parse_with_params in E1, E2.
  destruct (match_prefix (find_prefix s) (p_bech p1) || match_prefix (find_prefix s) (p_blech p1)) eqn:S1;
  destruct (match_prefix (find_prefix s) (p_bech p2) || match_prefix (find_prefix s) (p_blech p2)) eqn:S2; try reflexivity; exfalso.
  - destruct (too_long_for_base58 s); [discriminate|]. destruct (b58_decode_check H s) as [data|] eqn:DC; [|discriminate].
    destruct (b58_accept_not_segwit s data p2 a2 p1 I2 I1 DC E2) as [A B]. rewrite A, B in S1. discriminate.
  - destruct (too_long_for_base58 s); [discriminate|]. destruct (b58_decode_check H s) as [data|] eqn:DC; [|discriminate].
    destruct (b58_accept_not_segwit s data p1 a1 p2 I1 I2 DC E1) as [A B]. rewrite A, B in S2. discriminate. Qed.

(* Corollary for C17 (closes the residual disjunct of C17_address_other_network_partial): a 1-2 symbol corruption of the data part of a
   segwit address is rejected under EVERY built-in network, for every hash — the corrupted text keeps its HRP, so no other network can
   read it as base58check either. *)
Theorem address_corrupt_every_network p s a s' : In p builtin -> parse_with_params H pkv s p = AOk a -> is_segwit a -> data_edit s s' ->
  forall p', In p' builtin -> exists e, parse_with_params H pkv s' p' = AErr e.
Proof. intros Ip E SW ED p' Ip'. destruct (address_corrupt H pkv p s a s' Ip E SW ED) as (_ & [e Ee] & _).
  destruct ED as (hrp & d0 & d' & w0 & w' & R0 & Es' & S0 & S' & LEN & HD). destruct (syms_of_spec _ _ S') as (_ & _ & NI').
  assert (FP : find_prefix s = hrp) by (unfold find_prefix; now rewrite R0).
  assert (FP' : find_prefix s' = hrp) by (unfold find_prefix; rewrite Es', (rsplit_app _ _ _ NI'); reflexivity).
  assert (SP : match_prefix hrp (p_bech p) || match_prefix hrp (p_blech p) = true).
  { unfold parse_with_params in E. rewrite FP in E. destruct (match_prefix hrp (p_bech p) || match_prefix hrp (p_blech p)); [reflexivity|exfalso].
    destruct (too_long_for_base58 s); [discriminate|]. destruct (b58_decode_check H s) as [data|]; [|discriminate].
    exact (from_base58_not_segwit _ _ _ _ E SW). }
  destruct (parse_with_params H pkv s' p') as [a'|e'] eqn:E'; [exfalso|eauto].
  pose proof E' as E2. unfold parse_with_params in E2. rewrite FP' in E2.
  destruct (match_prefix hrp (p_bech p') || match_prefix hrp (p_blech p')) eqn:SP'.
  - assert (p' = p); [|subst p'; congruence]. unfold match_prefix in *. apply orb_true_iff in SP, SP'.
    assert (X1 : exists b1, eq_lower (hrp_of p' b1) hrp = true) by (destruct SP'; [exists false|exists true]; assumption).
    assert (X2 : exists b2, eq_lower (hrp_of p b2) hrp = true) by (destruct SP; [exists false|exists true]; assumption).
    destruct X1 as [b1 X1], X2 as [b2 X2]. exact (proj1 (builtin_hrps_distinct p' p b1 b2 Ip' Ip (eq_lower_trans_r _ _ _ X1 X2))).
  - destruct (too_long_for_base58 s'); [discriminate|]. destruct (b58_decode_check H s') as [data|] eqn:DC; [|discriminate].
    destruct (b58_accept_not_segwit s' data p' a' p Ip' Ip DC E2) as [A B]. rewrite FP' in A, B. rewrite A, B in SP. discriminate. Qed.
End B58Addr.
