(* Proofs for C04: Transaction::blind in the ideal-commitment world produces a transaction that verifies and unblinds. *)
From Coq Require Import List NArith ZArith Bool Lia Setoid Morphisms.
From Coq.Strings Require Import Byte.
From EV Require Import Base.Bytes Base.Zn Base.FreeMod Gen.Tables Model.Script Model.Ideal Model.Verify Model.Blind
  Proofs.ScriptTemplates Proofs.Ideal Proofs.Verify.
Import ListNotations.
Open Scope Z_scope.

Inductive Forall3 {A B C} (R : A -> B -> C -> Prop) : list A -> list B -> list C -> Prop :=
  | Forall3_nil : Forall3 R [] [] []
  | Forall3_cons a b c la lb lc : R a b c -> Forall3 R la lb lc -> Forall3 R (a :: la) (b :: lb) (c :: lc).
Lemma Forall3_app {A B C} (R : A -> B -> C -> Prop) la lb lc la' lb' lc' :
  Forall3 R la lb lc -> Forall3 R la' lb' lc' -> Forall3 R (la ++ la') (lb ++ lb') (lc ++ lc').
Proof. induction 1; cbn; [auto|]. intro. constructor; auto. Qed.
Lemma Forall3_length {A B C} (R : A -> B -> C -> Prop) la lb lc :
  Forall3 R la lb lc -> length lb = length la /\ length lc = length la.
Proof. induction 1; cbn; [auto|]. destruct IHForall3. split; congruence. Qed.

(* the guard of Asset::blind on the size of the surjection domain (SURJECTIONPROOF_MAX_N_INPUTS, Gen/Tables.v); nothing below
   depends on the value of the constant. `within_limit` only keeps the bound out of the sight of `lia` where it is a section
   hypothesis (so that exactly the lemmas that use it get it as a premise); the theorems state the inequality itself. *)
Definition within_limit (n : nat) : Prop := (N.of_nat n <= CT_SURJECTIONPROOF_MAX_N_INPUTS)%N.
Lemma dom_guard_ok n : within_limit n -> (CT_SURJECTIONPROOF_MAX_N_INPUTS <? N.of_nat n)%N = false.
Proof. intro H. apply N.ltb_ge. exact H. Qed.
Lemma dom_guard_over n : (CT_SURJECTIONPROOF_MAX_N_INPUTS < N.of_nat n)%N -> (CT_SURJECTIONPROOF_MAX_N_INPUTS <? N.of_nat n)%N = true.
Proof. intro H. apply N.ltb_lt. exact H. Qed.

Definition nmarked (outs : list txout) : nat := length (filter marked outs).
Lemma nmarked_cons o outs : nmarked (o :: outs) = ((if marked o then 1 else 0) + nmarked outs)%nat.
Proof. unfold nmarked. cbn [filter]. destruct (marked o); reflexivity. Qed.
Lemma nmarked_app a b : nmarked (a ++ b) = (nmarked a + nmarked b)%nat.
Proof. unfold nmarked. now rewrite filter_app, app_length. Qed.

(* per-output report: the secrets assigned to the output and, for a blinded output, the ephemeral key *)
Definition osec := (secrets * option Z)%type.
Fixpoint blinds_of (i : nat) (l : list osec) : list (nat * (Z * Z * Z)) :=
  match l with
  | [] => []
  | (s, Some e) :: r => (i, (s_abf s, s_vbf s, e)) :: blinds_of (S i) r
  | (_, None) :: r => blinds_of (S i) r
  end.
Lemma blinds_of_app l1 l2 i : blinds_of i (l1 ++ l2) = blinds_of i l1 ++ blinds_of (i + length l1) l2.
Proof.
  revert i. induction l1 as [|[s [e|]] r IH]; intro i; cbn [app blinds_of length].
  - now rewrite Nat.add_0_r.
  - rewrite IH. cbn [app]. do 3 f_equal. lia.
  - rewrite IH. do 2 f_equal. lia.
Qed.
Lemma blinds_of_none l i : Forall (fun s => snd s = None) l -> blinds_of i l = [].
Proof. intro F. revert i. induction F as [|[s o] l E F IH]; intro i; cbn in *; [reflexivity|]. subst o. apply IH. Qed.

Lemma set_nth_app {A} (l1 : list A) x y l2 : set_nth (l1 ++ x :: l2) (length l1) y = l1 ++ y :: l2.
Proof. induction l1; cbn; [reflexivity|]. now rewrite IHl1. Qed.
Lemma nth_error_mid {A} (l1 : list A) x l2 : nth_error (l1 ++ x :: l2) (length l1) = Some x.
Proof. induction l1; cbn; auto. Qed.

Section Keys.
  Variable pubk : Z -> Z.
  Variable ecdh : Z -> Z -> Z.
  Variable p : profile.
  Variable ss : list secrets.            (* spent_utxo_secrets *)
  Let dom := map sinput_of_secrets ss.
  (* the surjection domain (spent outputs and issuance pseudo-inputs) is within the limit of Asset::blind; a premise of exactly
     the lemmas below that need a surjection proof to be made *)
  Hypothesis ss_small : within_limit (length ss).

  (* an explicit output as C04 requires it: positive amount; a marked one within the rangeproof limit, on an address
     script, and of an asset some input carries *)
  Definition out_good (o : txout) : Prop :=
    exists a v, o_asset o = AExp a /\ o_value o = VExp v /\ 0 < v < qn
      /\ (marked o = true -> v <= I64_MAX /\ (exists ad, from_script (o_script o) = Script.Val (Some ad))
                             /\ In a (map s_asset ss)).
  Definition out_rel (o o' : txout) (s : osec) : Prop :=
    exists a v, o_asset o = AExp a /\ o_value o = VExp v /\ s_asset (fst s) = a /\ s_value (fst s) = v /\
    match snd s with
    | None => marked o = false /\ o' = o /\ fst s = mkSec a 0 v 0 /\ 0 < v < qn
    | Some esk => marked o = true /\ in_zn (s_abf (fst s)) /\
                  exists rk, o_nonce o = NConf rk /\ with_txout_secrets pubk ecdh (o_script o) rk esk (fst s) dom = OVal o'
    end.

  Lemma address_spk_ok s ad : from_script s = Script.Val (Some ad) -> address_spk p s = OVal (Some s).
  Proof. intro F. unfold address_spk. rewrite F, (from_script_spk p s ad F). reflexivity. Qed.

  Lemma surjection_targets_secrets : forall l i,
    surjection_targets (map sinput_of_secrets l) i = OVal (map (fun s => (sgen s, Some (s_asset s), s_abf s)) l).
  Proof.
    induction l as [|s l IH]; intro i; cbn [map surjection_targets]. - reflexivity.
    - unfold sinput_of_secrets at 1. cbn [surjection_target map_err obind]. rewrite IH. reflexivity.
  Qed.

  Lemma pedersen_new_ok {E} v a abf vbf : 0 < v < qn ->
    @pedersen_new E v vbf (asset_gen a abf) = OVal (commit v (asset_gen a abf) vbf).
  Proof.
    intro V. unfold pedersen_new. destruct (geqb _ gzero) eqn:Z; [|reflexivity].
    exfalso. apply geqb_spec in Z. revert Z. now apply commit_nonzero.
  Qed.

  (* TxOut::with_txout_secrets succeeds, and what it builds *)
  Definition wts_out spk rk esk (s : secrets) (i : nat) (bf : Z) : txout :=
    mkOut (AConf (sgen s)) (VConf (scommit s)) (NConf (pubk esk)) spk
      (Some (mkRP (scommit s) spk (sgen s) (s_value s) (s_vbf s) (s_asset s, s_abf s) (ecdh rk esk) true))
      (Some (mkSP (sgen s) (map sgen ss) i (zsub (s_abf s) bf) true)).
  Lemma wts_ok spk rk esk s : In (s_asset s) (map s_asset ss) -> 1 <= s_value s <= I64_MAX ->
    exists i bf, find_tag (s_asset s) (map (fun s => (sgen s, Some (s_asset s), s_abf s)) ss) 0 = Some (i, bf)
      /\ with_txout_secrets pubk ecdh spk rk esk s dom = OVal (wts_out spk rk esk s i bf).
  Proof.
    intros I V. unfold I64_MAX in V.
    destruct (find_tag_some (s_asset s) (map (fun s => (sgen s, Some (s_asset s), s_abf s)) ss)) with (k := 0%nat) as (i & bf & F).
    { apply in_map_iff in I as (s' & E & I). exists (sgen s'), (s_abf s'). apply in_map_iff. exists s'. split; [now rewrite E|exact I]. }
    exists i, bf. split; [exact F|].
    unfold with_txout_secrets, asset_blind, dom. rewrite surjection_targets_secrets. cbn [obind].
    rewrite map_length, (dom_guard_ok _ ss_small).
    unfold sp_new. rewrite F. cbn [obind]. unfold value_blind, value_blind_with_shared_secret. cbn [fst snd].
    rewrite min_guard by lia. rewrite pedersen_new_ok by (pose proof qn_big; lia). cbn [obind].
    rewrite rp_new_some by (unfold I64_MAX; lia). cbn [obind].
    unfold wts_out, scommit, sgen. rewrite map_map. reflexivity.
  Qed.
  Lemma wts_inv spk rk esk s o' : with_txout_secrets pubk ecdh spk rk esk s dom = OVal o' ->
    exists i bf, find_tag (s_asset s) (map (fun s => (sgen s, Some (s_asset s), s_abf s)) ss) 0 = Some (i, bf)
      /\ o' = wts_out spk rk esk s i bf /\ 1 <= s_value s <= I64_MAX.
  Proof.
    unfold with_txout_secrets, asset_blind, dom. rewrite surjection_targets_secrets. cbn [obind].
    destruct (N.ltb CT_SURJECTIONPROOF_MAX_N_INPUTS _); [cbn [obind]; discriminate|].
    unfold sp_new. destruct (find_tag _ _ 0) as [[i bf]|] eqn:F; [|discriminate]. cbn [obind].
    unfold value_blind, value_blind_with_shared_secret, pedersen_new. cbn [fst snd].
    destruct (s_value s <? RANGEPROOF_MIN_VALUE); [discriminate|].
    destruct (geqb _ gzero); [discriminate|]. cbn [obind]. unfold rp_new.
    destruct ((RANGEPROOF_MIN_VALUE <=? s_value s) && (s_value s <=? I64_MAX)) eqn:R; [|discriminate]. cbn [obind].
    intros [= <-]. exists i, bf. split; [reflexivity|]. split.
    - unfold wts_out, scommit, sgen. rewrite map_map. reflexivity.
    - apply andb_true_iff in R as [R1 R2]. apply Z.leb_le in R1, R2. rewrite rp_min_value in R1. lia.
  Qed.

  (* ---- one iteration *)
  Lemma marked_cond o : is_fee o || negb (nonce_is_conf (o_nonce o)) = negb (marked o).
  Proof. unfold marked. destruct (is_fee o), (nonce_is_conf (o_nonce o)); reflexivity. Qed.
  Lemma marked_nonce o : marked o = true -> exists rk, o_nonce o = NConf rk.
  Proof. unfold marked. rewrite andb_true_iff. intros [_ N]. destruct (o_nonce o); try discriminate. now eexists. Qed.

  Lemma step_unmarked ntb st i o : marked o = false -> out_good o ->
    exists a v, o_asset o = AExp a /\ o_value o = VExp v /\ 0 < v < qn /\
    blind_step pubk ecdh p ntb ss st i o =
      OVal (mkBS (bs_outs st ++ [o]) (bs_secrets st ++ [mkSec a 0 v 0]) (bs_last st) (bs_blinds st) (bs_num_blinded st) (bs_rnd st)).
  Proof.
    intros M (a & v & A & V & R & _). exists a, v. repeat split; try assumption; try lia.
    unfold blind_step. rewrite marked_cond, M. cbn [negb]. unfold explicit_asset, explicit_value. rewrite A, V. reflexivity.
  Qed.
  Lemma step_nonlast ntb st i o abf vbf esk rnd' : marked o = true -> out_good o ->
    (bs_num_blinded st + 1 < ntb)%nat -> bs_rnd st = abf :: vbf :: esk :: rnd' ->
    exists a v rk o', o_asset o = AExp a /\ o_value o = VExp v /\ o_nonce o = NConf rk /\
      with_txout_secrets pubk ecdh (o_script o) rk esk (mkSec a abf v vbf) dom = OVal o' /\
      blind_step pubk ecdh p ntb ss st i o =
        OVal (mkBS (bs_outs st ++ [o']) (bs_secrets st ++ [mkSec a abf v vbf]) (bs_last st)
                   (bs_blinds st ++ [(i, (abf, vbf, esk))]) (S (bs_num_blinded st)) rnd').
  Proof.
    intros M (a & v & A & V & R & G) L RN. destruct (G M) as (VM & (ad & AD) & IN).
    destruct (marked_nonce o M) as (rk & NK).
    destruct (wts_ok (o_script o) rk esk (mkSec a abf v vbf)) as (j & bf & F & W); cbn [s_asset s_value]; [exact IN|lia|].
    exists a, v, rk, (wts_out (o_script o) rk esk (mkSec a abf v vbf) j bf). repeat split; try assumption.
    unfold blind_step. rewrite marked_cond, M. cbn [negb]. unfold nonce_commitment. rewrite NK. cbn [obind].
    rewrite (address_spk_ok _ ad AD). cbn [obind]. apply Nat.ltb_lt in L. rewrite L.
    unfold explicit_value, explicit_asset. rewrite A, V. cbn [obind].
    unfold new_not_last_confidential. rewrite RN. cbn [draw obind]. fold dom. rewrite W. reflexivity.
  Qed.
  Lemma step_last ntb st i o : marked o = true -> out_good o -> ~ (bs_num_blinded st + 1 < ntb)%nat ->
    blind_step pubk ecdh p ntb ss st i o =
      OVal (mkBS (bs_outs st ++ [o]) (bs_secrets st) (Some i) (bs_blinds st) (S (bs_num_blinded st)) (bs_rnd st)).
  Proof.
    intros M (a & v & A & V & R & G) L. destruct (G M) as (VM & (ad & AD) & IN).
    destruct (marked_nonce o M) as (rk & NK).
    unfold blind_step. rewrite marked_cond, M. cbn [negb]. unfold nonce_commitment. rewrite NK. cbn [obind].
    rewrite (address_spk_ok _ ad AD). cbn [obind]. apply Nat.ltb_nlt in L. rewrite L. reflexivity.
  Qed.

  Lemma blind_loop_app ntb l1 : forall l2 st i,
    blind_loop pubk ecdh p ntb ss st i (l1 ++ l2) =
    let* st' := blind_loop pubk ecdh p ntb ss st i l1 in blind_loop pubk ecdh p ntb ss st' (i + length l1) l2.
  Proof.
    induction l1 as [|o l1 IH]; intros l2 st i; cbn [app blind_loop length obind].
    - now rewrite Nat.add_0_r.
    - destruct (blind_step pubk ecdh p ntb ss st i o) as [st'| |]; cbn [obind]; try reflexivity.
      rewrite IH. replace (S i + length l1)%nat with (i + S (length l1))%nat by lia. reflexivity.
  Qed.

  (* ---- a run of the loop over outputs none of which is the last marked one *)
  Lemma loop_phase ntb : forall outs st i,
    Forall out_good outs ->
    (nmarked outs = 0 \/ bs_num_blinded st + nmarked outs < ntb)%nat ->
    (3 * nmarked outs <= length (bs_rnd st))%nat -> Forall in_zn (bs_rnd st) ->
    exists news osecs rnd',
      blind_loop pubk ecdh p ntb ss st i outs =
        OVal (mkBS (bs_outs st ++ news) (bs_secrets st ++ map fst osecs) (bs_last st) (bs_blinds st ++ blinds_of i osecs)
                   (bs_num_blinded st + nmarked outs) rnd')
      /\ Forall3 out_rel outs news osecs
      /\ (length rnd' + 3 * nmarked outs = length (bs_rnd st))%nat /\ Forall in_zn rnd'.
  Proof.
    induction outs as [|o outs IH]; intros st i G C RL RZ.
    - exists [], [], (bs_rnd st). cbn [blind_loop map blinds_of nmarked filter length]. rewrite !app_nil_r, Nat.add_0_r.
      destruct st; cbn. repeat split; try constructor; try assumption. lia.
    - inversion G as [|? ? Go Gr]; subst. rewrite nmarked_cons in *. cbn [blind_loop].
      destruct (marked o) eqn:M.
      + (* a marked, non-last output *)
        assert (L : (bs_num_blinded st + 1 < ntb)%nat) by lia.
        destruct (bs_rnd st) as [|abf [|vbf [|esk rnd']]] eqn:RN; cbn [length] in RL; try lia.
        destruct (step_nonlast ntb st i o abf vbf esk rnd' M Go L RN) as (a & v & rk & o' & A & V & NK & W & ->). cbn [obind].
        inversion RZ as [|? ? Z1 RZ1]; subst. inversion RZ1 as [|? ? Z2 RZ2]; subst. inversion RZ2 as [|? ? Z3 RZ3]; subst.
        edestruct (IH (mkBS (bs_outs st ++ [o']) (bs_secrets st ++ [mkSec a abf v vbf]) (bs_last st)
                       (bs_blinds st ++ [(i, (abf, vbf, esk))]) (S (bs_num_blinded st)) rnd') (S i) Gr)
          as (news & osecs & rnd'' & -> & F3 & LR & RZ'); cbn [bs_num_blinded bs_rnd]; try assumption; try lia.
        exists (o' :: news), ((mkSec a abf v vbf, Some esk) :: osecs), rnd''.
        cbn [bs_outs bs_secrets bs_last bs_blinds bs_num_blinded map fst blinds_of s_abf s_vbf]. rewrite <- !app_assoc. cbn [app].
        split; [do 2 f_equal; lia|]. split; [|split; [cbn [length bs_rnd] in *; lia|assumption]].
        constructor; [|assumption]. exists a, v. cbn [fst snd s_asset s_value s_abf].
        do 4 (split; [first [assumption|reflexivity]|]). split; [assumption|]. split; [assumption|]. exists rk. split; assumption.
      + destruct (step_unmarked ntb st i o M Go) as (a & v & A & V & R & ->). cbn [obind].
        edestruct (IH (mkBS (bs_outs st ++ [o]) (bs_secrets st ++ [mkSec a 0 v 0]) (bs_last st) (bs_blinds st)
                       (bs_num_blinded st) (bs_rnd st)) (S i) Gr)
          as (news & osecs & rnd'' & -> & F3 & LR & RZ'); cbn [bs_num_blinded bs_rnd]; try assumption; try lia.
        exists (o :: news), ((mkSec a 0 v 0, None) :: osecs), rnd''.
        cbn [bs_outs bs_secrets bs_last bs_blinds bs_num_blinded bs_rnd map fst blinds_of] in *. rewrite <- !app_assoc. cbn [app].
        split; [reflexivity|]. split; [|split; [lia|assumption]].
        constructor; [|assumption]. exists a, v. cbn [fst snd s_asset s_value]. repeat split; try assumption; try reflexivity; lia.
  Qed.

  Lemma out_rel_unmarked o o' s : out_rel o o' s -> marked o = false -> snd s = None.
  Proof. intros (a & v & _ & _ & _ & _ & R) M. destruct (snd s); [|reflexivity]. destruct R as [M' _]. congruence. Qed.

  Lemma split_last_marked outs : existsb marked outs = true ->
    exists A L B, outs = A ++ L :: B /\ marked L = true /\ nmarked B = 0%nat.
  Proof.
    induction outs as [|o outs IH]; cbn [existsb]; [discriminate|].
    destruct (existsb marked outs) eqn:E.
    - intros _. destruct (IH eq_refl) as (A & L & B & -> & M & Z). exists (o :: A), L, B. auto.
    - rewrite orb_false_r. intro M. exists [], o, outs. repeat split; [assumption|].
      unfold nmarked. clear -E. induction outs as [|x r IH]; [reflexivity|]. cbn [existsb filter] in *.
      apply orb_false_iff in E as [-> E]. now apply IH.
  Qed.

  Lemma map_vbi l : map vb (map value_blind_inputs l) = map svb l.
  Proof. rewrite map_map. reflexivity. Qed.

  (* ---- the characterisation of a successful blind *)
  Theorem blind_char (t : tx) (rnd : list Z) :
    Forall out_good (t_out t) -> existsb marked (t_out t) = true ->
    (3 * nmarked (t_out t) <= length rnd + 1)%nat -> Forall in_zn rnd ->
    exists news osecs,
      blind pubk ecdh p rnd ss t = OVal (mkTx (t_in t) news, blinds_of 0 osecs)
      /\ Forall3 out_rel (t_out t) news osecs
      /\ zsum (map svb ss) = zsum (map svb (map fst osecs)).
  Proof.
    intros G EX RL RZ. unfold blind.
    assert (AE : forallb (fun o => asset_is_explicit (o_asset o) && value_is_explicit (o_value o)) (t_out t) = true).
    { apply forallb_forall. intros o I. rewrite Forall_forall in G. destruct (G o I) as (a & v & -> & -> & _). reflexivity. }
    rewrite AE. cbn [negb]. fold (nmarked (t_out t)).
    destruct (split_last_marked _ EX) as (A & L & B & E & ML & ZB). rewrite E in *.
    apply Forall_app in G as [GA GLB]. inversion GLB as [|? ? GL GB]; subst.
    rewrite nmarked_app, nmarked_cons, ML, ZB in *. rewrite Nat.add_0_r in *.
    rewrite blind_loop_app.
    destruct (loop_phase (nmarked A + 1) A (mkBS [] [] None [] 0 rnd) 0%nat GA) as (newsA & osA & rndA & -> & FA & LA & ZA);
      cbn [bs_num_blinded bs_rnd]; try assumption; try lia.
    cbn [obind bs_outs bs_secrets bs_last bs_blinds bs_num_blinded app blind_loop].
    rewrite step_last; cbn [bs_num_blinded]; try assumption; try lia. cbn [obind bs_outs bs_secrets bs_last bs_blinds bs_rnd bs_num_blinded].
    cbn [Nat.add].
    edestruct (loop_phase (nmarked A + 1) B (mkBS (newsA ++ [L]) (map fst osA) (Some (length A)) (blinds_of 0 osA)
                 (S (nmarked A)) rndA) (S (length A)) GB) as (newsB & osB & rndB & -> & FB & LB & ZBr);
      cbn [bs_num_blinded bs_rnd]; try assumption; try lia.
    cbn [obind bs_outs bs_secrets bs_last bs_blinds bs_rnd bs_num_blinded]. rewrite ZB in LB.
    destruct (Forall3_length _ _ _ _ FA) as [LnA LoA]. rewrite <- app_assoc. cbn [app Nat.add].
    rewrite <- LnA, nth_error_mid.
    destruct GL as (a & v & AL & VL & RV & GM). destruct (GM ML) as (VM & (ad & AD) & IN).
    destruct (marked_nonce L ML) as (rk & NK).
    unfold nonce_commitment, explicit_value, explicit_asset. rewrite NK, VL, AL. cbn [obind].
    unfold new_last_confidential.
    cbn [bs_rnd] in LA, LB.
    destruct rndB as [|abf [|esk rndC]]; cbn [length] in *; try lia. cbn [draw obind].
    assert (Zabf : in_zn abf) by (inversion ZBr; assumption).
    unfold with_secrets_last.
    set (lv := last_vbf v abf (map value_blind_inputs ss) (map value_blind_inputs (map fst osA ++ map fst osB))).
    destruct (wts_ok (o_script L) rk esk (mkSec a abf v lv)) as (j & bf & F & W); cbn [s_asset s_value]; [exact IN|lia|].
    fold dom. rewrite W. cbn [obind]. rewrite set_nth_app.
    exists (newsA ++ wts_out (o_script L) rk esk (mkSec a abf v lv) j bf :: newsB), (osA ++ (mkSec a abf v lv, Some esk) :: osB).
    split; [|split].
    - do 2 f_equal. rewrite blinds_of_app. cbn [blinds_of s_abf s_vbf Nat.add].
      assert (NB : Forall (fun s : osec => snd s = None) osB).
      { clear -FB ZB. induction FB as [|o o' s lo lo' ls R FB IH]; constructor.
        - rewrite nmarked_cons in ZB. apply (out_rel_unmarked o o' s R). destruct (marked o); [discriminate|reflexivity].
        - apply IH. rewrite nmarked_cons in ZB. lia. }
      rewrite !(blinds_of_none osB) by exact NB. rewrite app_nil_r. rewrite LoA, LnA. reflexivity.
    - apply Forall3_app; [exact FA|]. constructor; [|exact FB].
      exists a, v. cbn [fst snd s_asset s_value s_abf].
      do 4 (split; [first [assumption|reflexivity]|]). split; [assumption|]. split; [assumption|]. exists rk. split; assumption.
    - rewrite !map_app. cbn [map fst]. rewrite !zsum_app, zsum_cons. unfold svb at 3. cbn [s_value s_abf s_vbf vb].
      subst lv. rewrite last_vbf_formula, !map_vbi, map_app, zsum_app.
      pose proof (zsum_mod (map svb ss)) as HX. revert HX.
      generalize (zsum (map svb ss)) (zsum (map svb (map fst osA))) (zsum (map svb (map fst osB))). clear.
      intros X Y W3 HX. rewrite <- HX at 1. zn_ring.
  Qed.

  (* ---- every output of the blinded transaction passes the per-output checks of verify_tx_amt_proofs *)
  Let sdoms := map (fun s => (sgen s, Some (s_asset s), s_abf s)) ss.
  Lemma sdoms_nth i g tag bf : nth_error sdoms i = Some (g, Some tag, bf) -> geq g (asset_gen tag bf).
  Proof.
    unfold sdoms. rewrite nth_error_map. destruct (nth_error ss i) as [s'|]; [|discriminate].
    cbn [option_map]. intros [= <- <- <-]. reflexivity.
  Qed.
  Lemma verify_output_wts domain k spk rk esk s i bf :
    Forall2 geq domain (map sgen ss) -> find_tag (s_asset s) sdoms 0 = Some (i, bf) -> 1 <= s_value s <= I64_MAX ->
    verify_output domain k (wts_out spk rk esk s i bf) = OVal (scommit s).
  Proof.
    intros D F V. unfold verify_output, wts_out, get_value_commit, get_asset_gen.
    cbn [o_value o_asset o_rp o_sp o_script map_err obind].
    rewrite (rp_new_verify (scommit s) (s_value s) (s_vbf s) (s_asset s, s_abf s) spk (ecdh rk esk) (sgen s));
      [|apply rp_new_some; exact V|reflexivity]. cbn [obind].
    assert (SV : sp_verify (mkSP (sgen s) (map sgen ss) i (zsub (s_abf s) bf) true) (sgen s) domain = true);
      [|rewrite SV; reflexivity].
    apply (sp_verify_new (s_asset s) (s_abf s) sdoms).
    - unfold sp_new. rewrite F. unfold sdoms. rewrite map_map. reflexivity.
    - unfold sdoms. rewrite map_map. exact D.
    - intros i' bf' F'. destruct (find_tag_spec _ _ _ _ _ F') as (g & NE & _). rewrite Nat.sub_0_r in NE.
      exists g. split; [exact NE|]. eapply sdoms_nth, NE.
  Qed.
  Lemma verify_output_rel domain k o o' s : Forall2 geq domain (map sgen ss) -> out_rel o o' s ->
    exists c, verify_output_step domain k o' = OVal (Some c) /\ geq c (scommit (fst s)).
  Proof.
    intros D (a & v & A & V & SA & SV & R). destruct (snd s) as [esk|].
    - destruct R as (M & Zabf & rk & NK & W). destruct (wts_inv _ _ _ _ _ W) as (i & bf & F & -> & RV).
      exists (scommit (fst s)). split; [|reflexivity]. apply step_live; [eapply skipped_conf; reflexivity|]. now apply verify_output_wts.
    - destruct R as (M & -> & -> & RV). exists (commit v (gH a) 0). split; [|apply scommit_iss].
      apply step_live; [apply (skipped_nonzero o v V); lia|].
      unfold verify_output, get_value_commit, get_asset_gen. rewrite V, A.
      destruct (Z.eqb_spec v 0) as [Z0|_]; [lia|]. cbn [obind map_err]. rewrite pedersen_unblinded_H by exact RV. reflexivity.
  Qed.
  Lemma verify_outputs_ok domain outs news osecs : Forall2 geq domain (map sgen ss) -> Forall3 out_rel outs news osecs ->
    forall k, exists coms, verify_outputs domain news k = OVal (map Some coms) /\ Forall2 geq coms (map scommit (map fst osecs)).
  Proof.
    intros D F. induction F as [|o o' s lo lo' ls R F IH]; intro k; cbn [verify_outputs map].
    - exists []. split; constructor.
    - destruct (verify_output_rel domain k o o' s D R) as (c & -> & C). destruct (IH (S k)) as (cs & -> & CS).
      cbn [obind]. exists (c :: cs). split; [reflexivity|]. now constructor.
  Qed.

  (* per-asset totals *)
  Definition out_total (b : N) (outs : list txout) : Z :=
    isum (map (fun o => match o_asset o, o_value o with AExp a, VExp v => if N.eqb b a then v else 0 | _, _ => 0 end) outs).
  Lemma out_total_rel b outs news osecs : Forall3 out_rel outs news osecs -> asset_total b (map fst osecs) = out_total b outs.
  Proof.
    unfold asset_total, out_total. induction 1 as [|o o' s lo lo' ls (a & v & A & V & SA & SV & _) F IH]; cbn [map isum fold_right].
    - reflexivity.
    - fold isum in *. unfold isum in IH. rewrite IH, A, V, SA, SV. reflexivity.
  Qed.
  Lemma zsum_G_total l : zsum (map (fun s => coeff (scommit s) kG) l) = zsum (map svb l).
  Proof. f_equal. apply map_ext. intro s. apply coeff_scommit_G. Qed.
  Lemma asset_total_pos b l : asset_total b l <> 0 -> In b (map s_asset l).
  Proof.
    unfold asset_total. induction l as [|s l IH]; cbn [map isum fold_right In]. - congruence.
    - fold isum in *. destruct (N.eqb_spec b (s_asset s)) as [->|NE]; [now left|]. intro H. right. apply IH. unfold isum. lia.
  Qed.
End Keys.

(* ================================================================== the C04 theorems *)
Section C04.
  Variable pubk : Z -> Z.
  Variable ecdh : Z -> Z -> Z.
  Variable p : profile.

  (* every output explicit with a positive u64 amount; marked ones within the rangeproof limit (<= i64::MAX) *)
  Definition explicit_positive (t : tx) : Prop :=
    Forall (fun o => exists a v, o_asset o = AExp a /\ o_value o = VExp v /\ 0 < v < 2 ^ 64 /\ (marked o = true -> v <= I64_MAX)) (t_out t).
  (* Address::from_script recognises the script of every marked output *)
  Definition scripts_addressable (t : tx) : Prop :=
    Forall (fun o => marked o = true -> exists ad, from_script (o_script o) = Script.Val (Some ad)) (t_out t).
  (* per asset: inputs + explicit issuances = outputs + fee, as integers *)
  Definition balanced_per_asset (ss : list secrets) (t : tx) : Prop := forall b, asset_total b ss = out_total b (t_out t).
  Definition rnd_ok (t : tx) (rnd : list Z) : Prop := (3 * nmarked (t_out t) <= length rnd + 1)%nat /\ Forall in_zn rnd.

  Lemma out_total_ge b outs : Forall (fun o => exists a v, o_asset o = AExp a /\ o_value o = VExp v /\ 0 < v) outs ->
    0 <= out_total b outs /\ forall o v, In o outs -> o_asset o = AExp b -> o_value o = VExp v -> v <= out_total b outs.
  Proof.
    unfold out_total. induction 1 as [|o outs (a & v & A & V & P) F [IH0 IH]]; cbn [map isum fold_right In].
    - split; [lia|]. intros ? ? [].
    - fold isum in *. unfold isum in *. rewrite A, V. split.
      + destruct (N.eqb b a); lia.
      + intros o1 v1 [<-|I] A1 V1.
        * rewrite A in A1. injection A1 as <-. rewrite V in V1. injection V1 as <-. rewrite N.eqb_refl. lia.
        * specialize (IH o1 v1 I A1 V1). destruct (N.eqb b a); lia.
  Qed.

  Lemma hyps_out_good ss t : explicit_positive t -> scripts_addressable t -> balanced_per_asset ss t ->
    Forall (out_good ss) (t_out t).
  Proof.
    intros EP SA BA. unfold explicit_positive, scripts_addressable in *. rewrite Forall_forall in *.
    intros o I. destruct (EP o I) as (a & v & A & V & R & M). exists a, v. pose proof qn_big.
    split; [exact A|]. split; [exact V|]. split; [lia|]. intro MK.
    split; [now apply M|]. split; [now apply SA|].
    apply asset_total_pos. rewrite BA.
      assert (F : Forall (fun o => exists a v, o_asset o = AExp a /\ o_value o = VExp v /\ 0 < v) (t_out t)).
      { apply Forall_forall. intros o1 I1. destruct (EP o1 I1) as (a1 & v1 & ? & ? & ? & _). exists a1, v1. repeat split; try assumption; lia. }
      destruct (out_total_ge a _ F) as [_ G]. specialize (G o v I A V). lia.
  Qed.

  Theorem blind_verifies (t : tx) (spent : list txout) (ss : list secrets) (rnd : list Z) :
    explicit_positive t -> scripts_addressable t -> opens (t_in t) spent ss -> balanced_per_asset ss t ->
    existsb marked (t_out t) = true -> rnd_ok t rnd ->
    (N.of_nat (length ss) <= CT_SURJECTIONPROOF_MAX_N_INPUTS)%N ->
    exists t' bl, blind pubk ecdh p rnd ss t = OVal (t', bl) /\ verify_tx_amt_proofs t' spent = OVal tt.
  Proof.
    intros EP SA OP BA EX [RL RZ] SM.
    destruct (blind_char pubk ecdh p ss SM t rnd (hyps_out_good ss t EP SA BA) EX RL RZ) as (news & osecs & B & F3 & GB).
    exists (mkTx (t_in t) news), (blinds_of 0 osecs). split; [exact B|].
    unfold verify_tx_amt_proofs. cbn [t_in t_out]. rewrite (opens_length _ _ _ OP), Nat.eqb_refl. cbn [negb].
    destruct (verify_inputs_ok _ _ _ OP 0%nat) as (dom & com & -> & D & C). cbn [obind].
    destruct (verify_outputs_ok pubk ecdh ss dom _ _ _ D F3 0%nat) as (coms & -> & CS). cbn [obind].
    rewrite out_commits_somes. replace (verify_commitments_sum_to_equal com coms) with true; [reflexivity|]. symmetry.
    apply geqb_spec. intro k. rewrite (coeff_gsum_geq com ss k C), (coeff_gsum_geq coms (map fst osecs) k CS).
    destruct (bkey_cases k) as [->|(b & ->)].
    - rewrite !zsum_G_total. exact GB.
    - rewrite !zsum_H_total. f_equal. rewrite (out_total_rel pubk ecdh ss b _ _ _ F3). apply BA.
  Qed.

  (* ---- unblinding *)
  Hypothesis ecdh_sym : forall a b, ecdh (pubk a) b = ecdh (pubk b) a.

  Lemma secrets_eta s : mkSec (s_asset s) (s_abf s) (s_value s) (s_vbf s) = s. Proof. now destruct s. Qed.
  Lemma unblind_wts ss spk rsk esk s i bf : in_zn (s_abf s) -> 1 <= s_value s <= I64_MAX ->
    unblind ecdh (wts_out pubk ecdh ss spk (pubk rsk) esk s i bf) rsk = OVal s.
  Proof.
    intros Zabf V. unfold unblind, wts_out. cbn [o_value o_asset o_nonce o_rp o_script].
    rewrite (rp_rewind_new (scommit s) (s_value s) (s_vbf s) (s_asset s, s_abf s) spk (ecdh (pubk esk) rsk) (sgen s)
               (mkRP (scommit s) spk (sgen s) (s_value s) (s_vbf s) (s_asset s, s_abf s) (ecdh (pubk rsk) esk) true)).
    - apply in_znb_spec in Zabf. rewrite Zabf. cbn [negb]. fold (sgen s). rewrite geqb_refl. cbn [negb]. now rewrite secrets_eta.
    - rewrite ecdh_sym. now apply rp_new_some.
    - reflexivity.
  Qed.

  Lemma Forall3_nth {A B C} (R : A -> B -> C -> Prop) la lb lc : Forall3 R la lb lc -> forall i a, nth_error la i = Some a ->
    exists b c, nth_error lb i = Some b /\ nth_error lc i = Some c /\ R a b c.
  Proof.
    induction 1 as [|a b c la lb lc r F IH]; intros [|i] x NE; cbn in *; try discriminate.
    - injection NE as <-. now exists b, c. - now apply IH.
  Qed.
  Lemma blinds_of_in l : forall k i s e, nth_error l i = Some (s, Some e) -> In ((k + i)%nat, (s_abf s, s_vbf s, e)) (blinds_of k l).
  Proof.
    induction l as [|[s' [e'|]] r IH]; intros k [|i] s e NE; cbn [nth_error blinds_of] in *; try discriminate.
    - injection NE as <- <-. rewrite Nat.add_0_r. now left.
    - right. replace (k + S i)%nat with (S k + i)%nat by lia. now apply IH.
    - replace (k + S i)%nat with (S k + i)%nat by lia. now apply IH.
  Qed.
  Lemma blinds_of_inv l : forall k j x, In (j, x) (blinds_of k l) ->
    exists i s e, j = (k + i)%nat /\ nth_error l i = Some (s, Some e) /\ x = (s_abf s, s_vbf s, e).
  Proof.
    induction l as [|[s' [e'|]] r IH]; intros k j x I; cbn [blinds_of] in I; [destruct I| |].
    - destruct I as [[= <- <-]|I].
      + exists 0%nat, s', e'. rewrite Nat.add_0_r. auto.
      + destruct (IH _ _ _ I) as (i & s & e & -> & NE & ->). exists (S i), s, e. repeat split; [lia|exact NE].
    - destruct (IH _ _ _ I) as (i & s & e & -> & NE & ->). exists (S i), s, e. repeat split; [lia|exact NE].
  Qed.

  Theorem blind_unblinds (t : tx) (spent : list txout) (ss : list secrets) (rnd : list Z) :
    explicit_positive t -> scripts_addressable t -> balanced_per_asset ss t ->
    existsb marked (t_out t) = true -> rnd_ok t rnd ->
    (N.of_nat (length ss) <= CT_SURJECTIONPROOF_MAX_N_INPUTS)%N ->
    exists t' bl, blind pubk ecdh p rnd ss t = OVal (t', bl) /\ length (t_out t') = length (t_out t) /\
      (* every marked output is reported, blinded with the reported factors, and unblinds to the original asset and value *)
      (forall i o, nth_error (t_out t) i = Some o -> marked o = true ->
         exists a v abf vbf esk o', o_asset o = AExp a /\ o_value o = VExp v /\
           In (i, (abf, vbf, esk)) bl /\ nth_error (t_out t') i = Some o' /\
           o_asset o' = AConf (asset_gen a abf) /\ o_value o' = VConf (commit v (asset_gen a abf) vbf) /\
           o_script o' = o_script o /\ o_nonce o' = NConf (pubk esk) /\
           forall rsk, o_nonce o = NConf (pubk rsk) -> unblind ecdh o' rsk = OVal (mkSec a abf v vbf)) /\
      (* nothing else is reported or changed *)
      (forall i x, In (i, x) bl -> exists o, nth_error (t_out t) i = Some o /\ marked o = true) /\
      (forall i o, nth_error (t_out t) i = Some o -> marked o = false -> nth_error (t_out t') i = Some o).
  Proof.
    intros EP SA BA EX [RL RZ] SM.
    destruct (blind_char pubk ecdh p ss SM t rnd (hyps_out_good ss t EP SA BA) EX RL RZ) as (news & osecs & B & F3 & GB).
    exists (mkTx (t_in t) news), (blinds_of 0 osecs). split; [exact B|]. cbn [t_out].
    destruct (Forall3_length _ _ _ _ F3) as [LN LO]. split; [exact LN|]. split; [|split].
    - intros i o NE M. destruct (Forall3_nth _ _ _ _ F3 i o NE) as (o' & [s oe] & NE' & NS & (a & v & A & V & SA' & SV & R)).
      cbn [fst snd] in *. destruct oe as [esk|]; [|destruct R as [M' _]; congruence].
      destruct R as (_ & Zabf & rk & NK & W). destruct (wts_inv _ _ _ _ _ _ _ _ W) as (j & bf & F & -> & RV).
      exists a, v, (s_abf s), (s_vbf s), esk. eexists. split; [exact A|]. split; [exact V|].
      split; [exact (blinds_of_in osecs 0 i s esk NS)|]. split; [exact NE'|].
      unfold wts_out at 1 2 3 4. cbn [o_asset o_value o_script o_nonce]. unfold scommit, sgen. rewrite SA', SV.
      repeat split. intros rsk NK'. rewrite NK in NK'. injection NK' as ->.
      rewrite unblind_wts by assumption. now rewrite <- SA', <- SV, secrets_eta.
    - intros i x I. destruct (blinds_of_inv _ _ _ _ I) as (j & s & e & -> & NS & _). cbn [Nat.add].
      assert (L : (j < length (t_out t))%nat). { rewrite <- LO. apply nth_error_Some. congruence. }
      destruct (nth_error (t_out t) j) as [o|] eqn:NE; [|apply nth_error_None in NE; lia].
      exists o. split; [reflexivity|]. destruct (Forall3_nth _ _ _ _ F3 j o NE) as (o' & s' & _ & NS' & (a & v & _ & _ & _ & _ & R)).
      rewrite NS in NS'. injection NS' as <-. cbn [snd] in R. tauto.
    - intros i o NE M. destruct (Forall3_nth _ _ _ _ F3 i o NE) as (o' & [s oe] & NE' & NS & (a & v & A & V & SA' & SV & R)).
      cbn [snd] in R. destruct oe; [destruct R as [M' _]; congruence|]. destruct R as (_ & -> & _). exact NE'.
  Qed.
End C04.

(* ================================================================== the last-output identity; no marked output = the documented error *)
Lemma last_balances_scalar ins outs v abf :
  zsum (map vb ins) = zsum (map vb (outs ++ [(v, abf, last_vbf v abf ins outs)])).
Proof.
  rewrite map_app, zsum_app. cbn [map zsum fold_right vb]. rewrite last_vbf_formula.
  pose proof (zsum_mod (map vb ins)) as HX. revert HX. generalize (zsum (map vb ins)) (zsum (map vb outs)).
  intros X Y HX. rewrite <- HX at 1. zn_ring.
Qed.
Lemma last_balances_group (ins outs : list secrets) a v abf :
  let last := mkSec a abf v (last_vbf v abf (map value_blind_inputs ins) (map value_blind_inputs outs)) in
  coeff (gsum (map scommit ins)) kG = coeff (gsum (map scommit (outs ++ [last]))) kG.
Proof.
  intro last. rewrite !coeff_gsum, !map_map.
  rewrite (map_ext (fun x => coeff (scommit x) kG) svb) by (intro; apply coeff_scommit_G).
  rewrite (map_ext (fun x => coeff (scommit x) kG) svb) by (intro; apply coeff_scommit_G).
  pose proof (last_balances_scalar (map value_blind_inputs ins) (map value_blind_inputs outs) v abf) as H.
  rewrite map_app, !map_map in H. cbn [map] in H. rewrite map_app. exact H.
Qed.

Section NoMarked.
  Variable pubk : Z -> Z.
  Variable ecdh : Z -> Z -> Z.
  (* the loop over outputs none of which is marked: every one is kept and its explicit secrets recorded; nothing is drawn,
     nothing is blinded (so neither amounts, randomness nor the size of the surjection domain matter) *)
  Lemma loop_unmarked_state p ntb ss : forall outs st i,
    forallb (fun o => asset_is_explicit (o_asset o) && value_is_explicit (o_value o)) outs = true -> existsb marked outs = false ->
    exists secs, blind_loop pubk ecdh p ntb ss st i outs =
      OVal (mkBS (bs_outs st ++ outs) (bs_secrets st ++ secs) (bs_last st) (bs_blinds st) (bs_num_blinded st) (bs_rnd st)).
  Proof.
    induction outs as [|o outs IH]; intros st i AE NM; cbn [blind_loop].
    - exists []. rewrite !app_nil_r. now destruct st.
    - cbn [forallb existsb] in AE, NM. apply andb_true_iff in AE as [AO AE]. apply orb_false_iff in NM as [MO NM].
      unfold blind_step. rewrite marked_cond, MO. cbn [negb]. apply andb_true_iff in AO as [A V]. unfold explicit_asset, explicit_value.
      destruct (o_asset o) as [|a|]; try discriminate. destruct (o_value o) as [|v|]; try discriminate. cbn [obind].
      destruct (IH (mkBS (bs_outs st ++ [o]) (bs_secrets st ++ [mkSec a 0 v 0]) (bs_last st) (bs_blinds st) (bs_num_blinded st) (bs_rnd st)) (S i) AE NM) as (secs & ->).
      exists (mkSec a 0 v 0 :: secs). cbn [bs_outs bs_secrets bs_last bs_blinds bs_num_blinded bs_rnd]. rewrite <- !app_assoc. reflexivity.
  Qed.
  (* without any hypothesis on amounts or randomness: no marked output never panics — the outcome is one of the two errors *)
  Lemma loop_unmarked p ntb ss : forall outs st i,
    forallb (fun o => asset_is_explicit (o_asset o) && value_is_explicit (o_value o)) outs = true -> existsb marked outs = false ->
    exists st', blind_loop pubk ecdh p ntb ss st i outs = OVal st' /\ bs_last st' = bs_last st.
  Proof.
    intros outs st i AE NM. destruct (loop_unmarked_state p ntb ss outs st i AE NM) as (secs & ->). eexists. split; reflexivity.
  Qed.
  Lemma explicit_positive_explicit t : explicit_positive t ->
    forallb (fun o => asset_is_explicit (o_asset o) && value_is_explicit (o_value o)) (t_out t) = true.
  Proof.
    intro EP. apply forallb_forall. intros o I. unfold explicit_positive in EP. rewrite Forall_forall in EP.
    destruct (EP o I) as (a & v & -> & -> & _). reflexivity.
  Qed.
  Theorem blind_none_marked_error p rnd ss t :
    explicit_positive t -> existsb marked (t_out t) = false -> Forall in_zn rnd ->
    blind pubk ecdh p rnd ss t = OFail BTooFewBlindingOutputs.
  Proof.
    intros EP NM _. unfold blind. pose proof (explicit_positive_explicit t EP) as AE. rewrite AE. cbn [negb].
    destruct (loop_unmarked p (length (filter marked (t_out t))) ss (t_out t) (mkBS [] [] None [] 0 rnd) 0%nat AE NM) as (st' & -> & L).
    cbn [obind]. rewrite L. reflexivity.
  Qed.
  Theorem blind_none_marked_never_panics p rnd ss t : existsb marked (t_out t) = false ->
    blind pubk ecdh p rnd ss t = OFail BTooFewBlindingOutputs \/ blind pubk ecdh p rnd ss t = OFail BMustHaveAllExplicitTxOuts.
  Proof.
    intro NM. unfold blind.
    destruct (forallb (fun o => asset_is_explicit (o_asset o) && value_is_explicit (o_value o)) (t_out t)) eqn:AE; cbn [negb]; [left|now right].
    destruct (loop_unmarked p (length (filter marked (t_out t))) ss (t_out t) (mkBS [] [] None [] 0 rnd) 0%nat AE NM) as (st' & -> & L).
    cbn [obind]. rewrite L. reflexivity.
  Qed.
End NoMarked.

(* ================================================================== the surjection domain is larger than Asset::blind accepts *)
Section DomainLimit.
  Variable pubk : Z -> Z.
  Variable ecdh : Z -> Z -> Z.

  Lemma surjection_targets_total : forall l i, Forall (fun s => exists t, surjection_target s = OVal t) l ->
    exists tg, surjection_targets l i = OVal tg /\ length tg = length l.
  Proof.
    induction l as [|s l IH]; intros i F; cbn [surjection_targets]. - now exists [].
    - inversion F as [|? ? [t T] Fr]; subst. rewrite T. cbn [map_err obind].
      destruct (IH (S i) Fr) as (tg & -> & L). cbn [obind]. exists (t :: tg). split; [reflexivity|]. cbn [length]. now rewrite L.
  Qed.
  (* Asset::blind refuses: every target is computed (no TxOutError), then the size check fails *)
  Theorem asset_blind_over_limit a abf spent : Forall (fun s => exists t, surjection_target s = OVal t) spent ->
    (CT_SURJECTIONPROOF_MAX_N_INPUTS < N.of_nat (length spent))%N ->
    asset_blind (AExp a) abf spent = OFail BCannotProveSurjection.
  Proof.
    intros F L. destruct (surjection_targets_total spent 0%nat F) as (tg & ST & LT). unfold asset_blind. rewrite ST. cbn [obind].
    rewrite LT, (dom_guard_over _ L). reflexivity.
  Qed.
  (* the surjection target of known secrets always exists *)
  Lemma secrets_targets_total ss : Forall (fun s => exists t, surjection_target s = OVal t) (map sinput_of_secrets ss).
  Proof. apply Forall_forall. intros s I. apply in_map_iff in I as (x & <- & _). eexists. reflexivity. Qed.
  Lemma wts_over_limit spk rk esk s ss : (CT_SURJECTIONPROOF_MAX_N_INPUTS < N.of_nat (length ss))%N ->
    with_txout_secrets pubk ecdh spk rk esk s (map sinput_of_secrets ss) = OFail BCannotProveSurjection.
  Proof.
    intro L. unfold with_txout_secrets. rewrite asset_blind_over_limit; [reflexivity|apply secrets_targets_total|now rewrite map_length].
  Qed.

  Lemma nmarked_zero outs : existsb marked outs = false <-> nmarked outs = 0%nat.
  Proof.
    unfold nmarked. induction outs as [|o r IH]; cbn [existsb filter]; [tauto|].
    destruct (marked o); cbn [orb length]; [split; [discriminate|lia]|exact IH].
  Qed.
  Lemma split_first_marked outs : existsb marked outs = true ->
    exists A M B, outs = A ++ M :: B /\ marked M = true /\ existsb marked A = false.
  Proof.
    induction outs as [|o outs IH]; cbn [existsb]; [discriminate|].
    destruct (marked o) eqn:MO.
    - intros _. exists [], o, outs. auto.
    - cbn [orb]. intro E. destruct (IH E) as (A & M & B & -> & MM & NA). exists (o :: A), M, B. cbn [existsb app]. rewrite MO. auto.
  Qed.

  (* Transaction::blind with at least one marked output: the first marked output is reached (the outputs before it are only
     recorded), and blinding it — as a non-last output inside the loop, or as the last one after the loop — asks Asset::blind
     for a surjection proof over all of `ss`, which is refused. The whole call returns that error. *)
  Theorem blind_over_limit p rnd ss t :
    explicit_positive t -> scripts_addressable t -> existsb marked (t_out t) = true -> rnd_ok t rnd ->
    (CT_SURJECTIONPROOF_MAX_N_INPUTS < N.of_nat (length ss))%N ->
    blind pubk ecdh p rnd ss t = OFail BCannotProveSurjection.
  Proof.
    intros EP SA EX [RL _] OV. unfold blind. pose proof (explicit_positive_explicit t EP) as AE. rewrite AE. cbn [negb].
    fold (nmarked (t_out t)). unfold scripts_addressable in SA.
    destruct (split_first_marked _ EX) as (A & M & B & E & MM & NA). rewrite E in *.
    rewrite forallb_app in AE. apply andb_true_iff in AE as [AEA AEMB]. cbn [forallb] in AEMB. apply andb_true_iff in AEMB as [AEM AEB].
    apply Forall_app in SA as [_ SA]. inversion SA as [|? ? SAM _]; subst. destruct (SAM MM) as (ad & AD).
    destruct (marked_nonce M MM) as (rk & NK).
    apply andb_true_iff in AEM as [AM VM].
    destruct (o_asset M) as [|a|] eqn:EA; try discriminate AM. destruct (o_value M) as [|v|] eqn:EV; try discriminate VM.
    pose proof (proj1 (nmarked_zero A) NA) as ZA. rewrite nmarked_app, nmarked_cons, MM, ZA in *. cbn [Nat.add] in *.
    rewrite blind_loop_app.
    destruct (loop_unmarked_state pubk ecdh p (S (nmarked B)) ss A (mkBS [] [] None [] 0 rnd) 0%nat AEA NA) as (secsA & ->).
    cbn [obind bs_outs bs_secrets bs_last bs_blinds bs_num_blinded bs_rnd app Nat.add blind_loop].
    unfold blind_step at 1. rewrite marked_cond, MM. cbn [negb]. unfold nonce_commitment. rewrite NK. cbn [obind].
    rewrite (address_spk_ok p _ ad AD). cbn [obind bs_num_blinded Nat.add].
    destruct (1 <? S (nmarked B))%nat eqn:LT.
    - (* another marked output follows: this one is blinded inside the loop *)
      apply Nat.ltb_lt in LT. unfold explicit_value, explicit_asset. rewrite EA, EV. cbn [obind bs_rnd].
      unfold new_not_last_confidential.
      destruct rnd as [|x1 [|x2 [|x3 rnd']]]; cbn [length] in RL; try lia. cbn [draw obind].
      rewrite (wts_over_limit _ _ _ _ ss OV). reflexivity.
    - (* it is the only marked output: it is blinded after the loop, as the last one *)
      apply Nat.ltb_ge in LT. assert (ZB : nmarked B = 0%nat) by lia. pose proof (proj2 (nmarked_zero B) ZB) as NB.
      cbn [obind bs_outs bs_secrets bs_last bs_blinds bs_num_blinded bs_rnd].
      destruct (loop_unmarked_state pubk ecdh p (S (nmarked B)) ss B (mkBS (A ++ [M]) secsA (Some (length A)) [] 1 rnd) (S (length A)) AEB NB) as (secsB & ->).
      cbn [obind bs_outs bs_secrets bs_last bs_blinds bs_num_blinded bs_rnd]. rewrite <- app_assoc. cbn [app].
      rewrite nth_error_mid. unfold nonce_commitment, explicit_value, explicit_asset. rewrite NK, EA, EV. cbn [obind].
      unfold new_last_confidential. rewrite ZB in RL.
      destruct rnd as [|x1 [|x2 rnd']]; cbn [length] in RL; try lia. cbn [draw obind].
      unfold with_secrets_last. rewrite (wts_over_limit _ _ _ _ ss OV). reflexivity.
  Qed.
End DomainLimit.
