(* fmr_impl (array + u32 counter + fuelled loops, as coded) refines fmr_ctr, for every list of at most 2^31 leaves. *)
From Coq Require Import List Arith NArith ZArith Lia Bool ZifyN ZifyNat ZifyBool.
From EV Require Import Model.FastMerkle.
Import ListNotations.
Ltac Zify.zify_post_hook ::= Z.div_mod_to_equations.
Set Default Timeout 60.
Open Scope N_scope.

(* ---------- bits of count + 2^l ---------- *)
Lemma pow2_N l : N.shiftl 1 (N.of_nat l) = 2 ^ N.of_nat l. Proof. now rewrite N.shiftl_1_l. Qed.
Lemma bit_add_pow2_clear count l : bit count l = false ->
  bit (count + 2 ^ N.of_nat l) l = true /\ forall k, k <> l -> bit (count + 2 ^ N.of_nat l) k = bit count k.
Proof. unfold bit. intros Hb.
  assert (E : count + 2 ^ N.of_nat l = N.lor count (2 ^ N.of_nat l)).
  { rewrite <- N.lxor_lor, <- N.add_nocarry_lxor; try reflexivity.
    all: apply N.bits_inj; intros n; rewrite N.land_spec, N.bits_0, N.pow2_bits_eqb; destruct (N.eqb_spec (N.of_nat l) n) as [<-|]; [now rewrite Hb|now rewrite andb_false_r]. }
  rewrite E. split.
  - rewrite N.lor_spec, N.pow2_bits_true. apply orb_true_r.
  - intros k Hk. rewrite N.lor_spec, N.pow2_bits_false by lia. apply orb_false_r. Qed.
Lemma bit_sub_pow2_set count l : bit count l = true ->
  2 ^ N.of_nat l <= count /\ bit (count - 2 ^ N.of_nat l) l = false /\ forall k, k <> l -> bit (count - 2 ^ N.of_nat l) k = bit count k.
Proof. unfold bit. intros Hb.
  assert (E : count = N.lor (N.clearbit count (N.of_nat l)) (2 ^ N.of_nat l)).
  { apply N.bits_inj; intros n. rewrite N.lor_spec, N.pow2_bits_eqb. destruct (N.eqb_spec (N.of_nat l) n) as [<-|NE].
    - now rewrite Hb, orb_true_r.
    - rewrite N.clearbit_neq by exact NE. now rewrite orb_false_r. }
  assert (D : N.land (N.clearbit count (N.of_nat l)) (2 ^ N.of_nat l) = 0).
  { apply N.bits_inj; intros n. rewrite N.land_spec, N.bits_0, N.pow2_bits_eqb. destruct (N.eqb_spec (N.of_nat l) n) as [<-|NE]; [now rewrite N.clearbit_eq|now rewrite andb_false_r]. }
  assert (S : count = N.clearbit count (N.of_nat l) + 2 ^ N.of_nat l).
  { rewrite E at 1. rewrite <- N.lxor_lor by exact D. now rewrite N.add_nocarry_lxor. }
  assert (C : count - 2 ^ N.of_nat l = N.clearbit count (N.of_nat l)) by lia.
  split; [lia|]. rewrite C. split; [apply N.clearbit_eq|]. intros k Hk. apply N.clearbit_neq. lia. Qed.
Lemma shiftr_zero_bits count l : N.shiftr count (N.of_nat l) = 0 <-> forall k, (l <= k)%nat -> bit count k = false.
Proof. unfold bit. split.
  - intros E k Hk. replace (N.of_nat k) with (N.of_nat (k - l) + N.of_nat l) by lia. rewrite <- N.shiftr_spec', E. apply N.bits_0.
  - intros Hb. apply N.bits_inj; intros n. rewrite N.bits_0, N.shiftr_spec'. replace (n + N.of_nat l) with (N.of_nat (N.to_nat n + l)) by lia. apply Hb. lia. Qed.
Lemma shiftr_zero_lt count l : N.shiftr count (N.of_nat l) = 0 <-> count < 2 ^ N.of_nat l.
Proof. rewrite N.shiftr_div_pow2. split; intros E.
  - apply N.div_small_iff in E; [exact E|apply N.pow_nonzero; lia].
  - apply N.div_small. exact E. Qed.

Lemma bit_lt_false n k : n < 2 ^ N.of_nat k -> bit n k = false.
Proof. intros Hn. apply (proj1 (shiftr_zero_bits n k)); [now apply shiftr_zero_lt|lia]. Qed.
Lemma bit_true_lt n k m : bit n k = true -> n < 2 ^ N.of_nat m -> (k < m)%nat.
Proof. intros Hb Hn. destruct (Nat.lt_ge_cases k m) as [L|G]; [exact L|].
  assert (n < 2 ^ N.of_nat k) by (eapply N.lt_le_trans; [exact Hn|apply N.pow_le_mono_r; lia]). rewrite (bit_lt_false n k) in Hb by assumption. discriminate. Qed.

Section IMPL.
Variable H : Type. Variable zero : H. Variable cmp : H -> H -> H.
Notation ctr := (list (option H)).
Notation incr := (incr cmp). Notation fin := (fin cmp).
Notation carry := (carry H zero cmp). Notation sweep := (sweep H zero cmp).

(* the counter list c describes levels lvl, lvl+1, ... of (inner, count): slot k is Some inner[k] iff bit k of count is set *)
Fixpoint Rel (c : ctr) (inner : list H) (count : N) (lvl : nat) : Prop :=
  match c with
  | [] => N.shiftr count (N.of_nat lvl) = 0
  | o :: c' => o = (if bit count lvl then Some (nth lvl inner zero) else None) /\ Rel c' inner count (S lvl)
  end.
Lemma Rel_ext c : forall inner inner2 count count2 lvl,
  (forall k, (lvl <= k)%nat -> bit count k = bit count2 k) -> (forall k, (lvl <= k)%nat -> nth k inner zero = nth k inner2 zero) ->
  Rel c inner count lvl -> Rel c inner2 count2 lvl.
Proof. induction c as [|o c IH]; intros inner inner2 count count2 lvl Hb Hn R; cbn [Rel] in *.
  - apply shiftr_zero_bits. intros k Hk. rewrite <- Hb by exact Hk. revert k Hk. now apply shiftr_zero_bits.
  - destruct R as [-> R]. split; [now rewrite Hb, Hn by lia|]. eapply IH; [| |exact R]; intros; [apply Hb|apply Hn]; lia. Qed.
Lemma nth_set_nth_eq k x (l : list H) : (k < length l)%nat -> nth k (set_nth H k x l) zero = x.
Proof. revert k. induction l as [|y l IH]; intros [|k] Hk; cbn in *; try lia; [reflexivity|apply IH; lia]. Qed.
Lemma nth_set_nth_neq k j x (l : list H) : k <> j -> nth j (set_nth H k x l) zero = nth j l zero.
Proof. revert k j. induction l as [|y l IH]; intros [|k] [|j] Hk; cbn; try reflexivity; try lia. apply IH. lia. Qed.
Lemma set_nth_length k x (l : list H) : length (set_nth H k x l) = length l.
Proof. revert k. induction l as [|y l IH]; intros [|k]; cbn; auto. Qed.

(* Lemma A: adding 2^lvl to count and running the carry loop from level lvl with carried value h performs `incr h c`;
   it stops at a level k within c (or just past it), and what `fin` would accumulate over the consumed prefix is the value it carries *)
Lemma carry_incr c : forall inner count lvl h fuel,
  Rel c inner count lvl -> (length c < fuel)%nat -> count + 2 ^ N.of_nat lvl < 2 ^ N.of_nat (length inner) ->
  exists k temp, carry fuel inner (count + 2 ^ N.of_nat lvl) lvl h = Some (k, temp) /\ (lvl <= k <= lvl + length c)%nat /\
    Rel (incr h c) (set_nth H k temp inner) (count + 2 ^ N.of_nat lvl) lvl /\
    bit (count + 2 ^ N.of_nat lvl) k = true /\ (forall j, (lvl <= j < k)%nat -> bit (count + 2 ^ N.of_nat lvl) j = false) /\
    (forall j, (j < lvl)%nat -> bit (count + 2 ^ N.of_nat lvl) j = bit count j) /\
    fin c (Some h) = fin (skipn (S (k - lvl)) c) (Some temp) /\
    Rel (skipn (S (k - lvl)) c) inner (count + 2 ^ N.of_nat lvl) (S k) /\
    (length (incr h c) <= Nat.max (length c) (S (k - lvl)))%nat.
Proof. induction c as [|o c IH]; intros inner count lvl h fuel R Hf Hl; cbn [Rel length] in *.
  - (* nothing at or above lvl: the carry lands at lvl *)
    destruct fuel as [|f]; [lia|]. pose proof (proj1 (shiftr_zero_bits count lvl) R) as Z.
    destruct (bit_add_pow2_clear count lvl (Z lvl (le_n _))) as [B1 B2].
    exists lvl, h. cbn [FastMerkle.carry]. rewrite B1.
    split; [|split; [|split; [|split; [|split; [|split; [|split; [|split]]]]]]].
    + reflexivity.
    + lia.
    + pose proof (bit_true_lt _ _ _ B1 Hl). cbn [FastMerkle.incr Rel]. rewrite B1, nth_set_nth_eq by lia. split; [reflexivity|]. apply shiftr_zero_bits. intros k Hk. rewrite B2 by lia. apply Z. lia.
    + reflexivity.
    + intros j Hj. lia.
    + intros j Hj. apply B2. lia.
    + rewrite Nat.sub_diag. reflexivity.
    + rewrite Nat.sub_diag. cbn [skipn Rel]. apply shiftr_zero_bits. intros k Hk. rewrite B2 by lia. apply Z. lia.
    + cbn [FastMerkle.incr length]. lia.
  - destruct R as [Ho R]. destruct fuel as [|f]; [lia|]. destruct (bit count lvl) eqn:Bl.
    + (* a one at lvl: it is cleared, the slot is consumed, the carry moves on *)
      subst o. destruct (bit_sub_pow2_set count lvl Bl) as (Hle & C1 & C2).
      set (count0 := count - 2 ^ N.of_nat lvl) in *.
      assert (E : count + 2 ^ N.of_nat lvl = count0 + 2 ^ N.of_nat (S lvl)).
      { unfold count0. rewrite Nat2N.inj_succ, N.pow_succ_r'. lia. }
      assert (R0 : Rel c inner count0 (S lvl)) by (eapply Rel_ext; [| |exact R]; intros; [symmetry; apply C2; lia|reflexivity]).
      destruct (IH inner count0 (S lvl) (cmp (nth lvl inner zero) h) f R0 ltac:(lia) ltac:(rewrite <- E; exact Hl)) as (k & temp & Hc & Hk & HR & Bk & Bz & Blow & Hfin & Htail & Hlen).
      rewrite <- E in *. exists k, temp.
      assert (Bl' : bit (count + 2 ^ N.of_nat lvl) lvl = false) by (rewrite Blow by lia; exact C1).
      cbn [FastMerkle.carry]. rewrite Bl'.
      split; [|split; [|split; [|split; [|split; [|split; [|split; [|split]]]]]]].
      * exact Hc.
      * lia.
      * cbn [FastMerkle.incr Rel]. rewrite Bl'. split; [reflexivity|exact HR].
      * exact Bk.
      * intros j Hj. destruct (Nat.eq_dec j lvl) as [->|]; [exact Bl'|apply Bz; lia].
      * intros j Hj. rewrite Blow by lia. apply C2. lia.
      * cbn [FastMerkle.fin]. rewrite Hfin. replace (k - lvl)%nat with (S (k - S lvl)) by lia. reflexivity.
      * replace (k - lvl)%nat with (S (k - S lvl)) by lia. exact Htail.
      * cbn [FastMerkle.incr length]. lia.
    + (* a zero at lvl: the carry lands here *)
      subst o. destruct (bit_add_pow2_clear count lvl Bl) as [B1 B2].
      exists lvl, h. cbn [FastMerkle.carry]. rewrite B1.
      split; [|split; [|split; [|split; [|split; [|split; [|split; [|split]]]]]]].
      * reflexivity.
      * lia.
      * pose proof (bit_true_lt _ _ _ B1 Hl). cbn [FastMerkle.incr Rel]. rewrite B1, nth_set_nth_eq by lia. split; [reflexivity|].
        eapply Rel_ext; [| |exact R]; intros; [symmetry; apply B2; lia|symmetry; apply nth_set_nth_neq; lia].
      * reflexivity.
      * intros j Hj. lia.
      * intros j Hj. apply B2. lia.
      * rewrite Nat.sub_diag. reflexivity.
      * rewrite Nat.sub_diag. cbn [skipn]. eapply Rel_ext; [| |exact R]; intros; [symmetry; apply B2; lia|reflexivity].
      * cbn [FastMerkle.incr length]. lia. Qed.

(* ---------- processing the leaves ---------- *)
Notation push_leaf := (push_leaf H zero cmp). Notation push_all := (push_all H zero cmp).
Lemma pow32 : 2 ^ N.of_nat 32 = 4294967296. Proof. reflexivity. Qed.
Lemma push_leaf_rel c inner count h : Rel c inner count 0 -> length inner = 32%nat -> (length c <= 32)%nat -> count + 1 < 4294967296 ->
  exists inner', push_leaf (inner, count) h = Some (inner', count + 1) /\ Rel (incr h c) inner' (count + 1) 0 /\ length inner' = 32%nat /\ (length (incr h c) <= 32)%nat.
Proof. intros R Li Lc Hc. unfold FastMerkle.push_leaf. destruct (N.leb_spec 4294967296 (count + 1)); [lia|].
  assert (Hb : count + 2 ^ N.of_nat 0 < 2 ^ N.of_nat (length inner)) by (rewrite Li, pow32; cbn; lia).
  destruct (carry_incr c inner count 0 h 33 R ltac:(lia) Hb) as (k & temp & Hca & Hk & HR & Bk & _ & _ & _ & _ & Hlen).
  change (2 ^ N.of_nat 0) with 1 in *. rewrite Hca.
  assert (K : (k < 32)%nat). { eapply bit_true_lt; [exact Bk|]. rewrite <- pow32 in Hc. cbn in Hc |- *. exact Hc. }
  destruct (Nat.ltb_spec k 32); [|lia]. eexists. split; [reflexivity|]. split; [exact HR|]. split; [now rewrite set_nth_length|lia]. Qed.
Lemma push_all_rel ls : forall c inner count, Rel c inner count 0 -> length inner = 32%nat -> (length c <= 32)%nat -> count + N.of_nat (length ls) < 4294967296 ->
  exists inner', push_all (inner, count) ls = Some (inner', count + N.of_nat (length ls)) /\
    Rel (fold_left (fun c h => incr h c) ls c) inner' (count + N.of_nat (length ls)) 0 /\ length inner' = 32%nat /\
    (length (fold_left (fun c h => incr h c) ls c) <= 32)%nat.
Proof. induction ls as [|h ls IH]; intros c inner count R Li Lc Hc; cbn [FastMerkle.push_all fold_left length] in *.
  - exists inner. rewrite N.add_0_r. auto.
  - destruct (push_leaf_rel c inner count h R Li Lc ltac:(lia)) as (inner1 & E & R1 & L1 & Lc1). rewrite E.
    destruct (IH (incr h c) inner1 (count + 1) R1 L1 Lc1 ltac:(lia)) as (inner2 & E2 & R2 & L2 & Lc2).
    exists inner2. replace (count + N.of_nat (S (length ls))) with (count + 1 + N.of_nat (length ls)) by lia. auto. Qed.

(* ---------- the final sweep ---------- *)
Lemma fin_some c : forall a, exists r, fin c (Some a) = Some r.
Proof. induction c as [|[x|] c IH]; intros a; cbn [FastMerkle.fin]; eauto. Qed.
Lemma Rel_all_zero c : forall inner count lvl acc, (forall k, (lvl <= k)%nat -> bit count k = false) -> Rel c inner count lvl -> fin c acc = acc.
Proof. induction c as [|o c IH]; intros inner count lvl acc Z R; cbn [Rel FastMerkle.fin] in *; [reflexivity|].
  destruct R as [-> R]. rewrite Z by lia. eapply IH; [|exact R]. intros; apply Z; lia. Qed.
Lemma pow2_bits_char count level : bit count level = true -> (forall j, (j < level)%nat -> bit count j = false) ->
  (count = 2 ^ N.of_nat level <-> forall k, (S level <= k)%nat -> bit count k = false).
Proof. unfold bit. intros Bl Lo. split.
  - intros -> k Hk. rewrite N.pow2_bits_false by lia. reflexivity.
  - intros Hi. apply N.bits_inj; intros n. rewrite N.pow2_bits_eqb. destruct (N.eqb_spec (N.of_nat level) n) as [<-|NE]; [exact Bl|].
    replace n with (N.of_nat (N.to_nat n)) by lia. destruct (Nat.lt_ge_cases (N.to_nat n) level); [apply Lo; assumption|apply Hi; lia]. Qed.
Lemma low_zero_mod count level : (forall j, (j < level)%nat -> bit count j = false) -> count mod 2 ^ N.of_nat level = 0.
Proof. intros Lo. rewrite <- N.land_ones. apply N.bits_inj; intros n. rewrite N.land_spec, N.bits_0.
  destruct (N.ltb_spec n (N.of_nat level)).
  - replace n with (N.of_nat (N.to_nat n)) by lia. unfold bit in Lo. rewrite Lo by lia. reflexivity.
  - rewrite N.ones_spec_high by lia. apply andb_false_r. Qed.
Lemma next_count_bound count level : count <= 2147483648 -> bit count level = true -> (forall j, (j < level)%nat -> bit count j = false) ->
  count <> 2 ^ N.of_nat level -> count + 2 ^ N.of_nat level <= 2147483648.
Proof. intros Hc Bl Lo NE. pose proof (low_zero_mod count level Lo) as M.
  assert (Ll : (level < 32)%nat) by (eapply bit_true_lt; [exact Bl|rewrite pow32; lia]).
  destruct (Nat.eq_dec level 31) as [->|N31].
  - (* bit 31 set and count <= 2^31: count = 2^31 *) exfalso. apply NE.
    assert (2 ^ N.of_nat 31 <= count). { destruct (N.le_gt_cases (2 ^ N.of_nat 31) count); [assumption|]. rewrite (bit_lt_false count 31) in Bl by assumption. discriminate. }
    change (2 ^ N.of_nat 31) with 2147483648 in *. lia.
  - set (P := 2 ^ N.of_nat level) in *. set (Q := 2 ^ N.of_nat (31 - level)).
    assert (PQ : P * Q = 2147483648). { unfold P, Q. rewrite <- N.pow_add_r. replace (N.of_nat level + N.of_nat (31 - level)) with 31 by lia. reflexivity. }
    assert (Pp : 0 < P) by (unfold P; apply N.neq_0_lt_0, N.pow_nonzero; lia).
    assert (Eq : count = P * (count / P)) by (rewrite (N.div_mod count P) at 1 by lia; rewrite M; lia).
    set (q := count / P) in *. assert (q <= Q) by nia.
    destruct (N.eq_dec q Q) as [EQ|NQ].
    + exfalso. assert (Ec : count = 2147483648) by nia.
      assert (Bf : bit count level = false). { rewrite Ec. unfold bit. change 2147483648 with (2 ^ 31). rewrite N.pow2_bits_false by lia. reflexivity. }
      congruence.
    + assert (q + 1 <= Q) by lia. nia. Qed.

Lemma sweep_fin n : forall c, length c = n -> forall inner count level result fuel,
  bit count level = true -> (forall j, (j < level)%nat -> bit count j = false) -> Rel c inner count (S level) ->
  count <= 2147483648 -> length inner = 32%nat -> (length c < fuel)%nat -> (length c <= 32)%nat ->
  sweep fuel inner count level result = fin c (Some result).
Proof. induction n as [n IH] using lt_wf_ind. intros c Ln inner count level result fuel Bl Lo R Hc Li Hf Lc.
  destruct fuel as [|f]; [lia|]. cbn [FastMerkle.sweep]. rewrite pow2_N.
  destruct (N.eqb_spec count (2 ^ N.of_nat level)) as [E|NE].
  - symmetry. eapply Rel_all_zero; [|exact R]. apply (proj1 (pow2_bits_char count level Bl Lo)). exact E.
  - pose proof (next_count_bound count level Hc Bl Lo NE) as Hn.
    assert (Cne : (0 < length c)%nat).
    { destruct c; [|cbn; lia]. exfalso. apply NE. apply (proj2 (pow2_bits_char count level Bl Lo)). cbn [Rel] in R.
      intros k Hk. apply (proj1 (shiftr_zero_bits count (S level)) R). exact Hk. }
    destruct (N.leb_spec 4294967296 (count + 2 ^ N.of_nat level)); [lia|].
    destruct (bit_sub_pow2_set count level Bl) as (Hle & C1 & C2).
    set (count0 := count - 2 ^ N.of_nat level) in *.
    assert (E : count + 2 ^ N.of_nat level = count0 + 2 ^ N.of_nat (S level)).
    { unfold count0. rewrite Nat2N.inj_succ, N.pow_succ_r'. lia. }
    assert (R0 : Rel c inner count0 (S level)) by (eapply Rel_ext; [| |exact R]; intros; [symmetry; apply C2; lia|reflexivity]).
    assert (Hb : count0 + 2 ^ N.of_nat (S level) < 2 ^ N.of_nat (length inner)) by (rewrite <- E, Li, pow32; lia).
    destruct (carry_incr c inner count0 (S level) result 33 R0 ltac:(lia) Hb) as (k & temp & Hca & Hk & _ & Bk & Bz & Blow & Hfin & Htail & _).
    rewrite <- E in *. rewrite Hca, Hfin.
    apply (IH (length (skipn (S (k - S level)) c))); try reflexivity.
    + rewrite skipn_length. lia.
    + exact Bk.
    + intros j Hj. destruct (Nat.lt_ge_cases j (S level)) as [L|G]; [|apply Bz; lia].
      rewrite Blow by lia. destruct (Nat.eq_dec j level) as [->|]; [exact C1|rewrite C2 by lia; apply Lo; lia].
    + exact Htail.
    + lia.
    + exact Li.
    + rewrite skipn_length. lia.
    + rewrite skipn_length. lia. Qed.

(* ---------- locating the lowest level and putting it together ---------- *)
Notation lowest := (lowest).
Lemma lowest_fin c : forall inner count lvl fuel, Rel c inner count lvl -> N.shiftr count (N.of_nat lvl) <> 0 -> (length c < fuel)%nat ->
  exists level, lowest fuel count lvl = Some level /\ (lvl <= level)%nat /\ bit count level = true /\
    (forall j, (lvl <= j < level)%nat -> bit count j = false) /\
    fin c None = fin (skipn (S (level - lvl)) c) (Some (nth level inner zero)) /\ Rel (skipn (S (level - lvl)) c) inner count (S level).
Proof. induction c as [|o c IH]; intros inner count lvl fuel R NZ Hf; cbn [Rel length] in *; [contradiction|].
  destruct R as [-> R]. destruct fuel as [|f]; [lia|]. cbn [FastMerkle.lowest]. destruct (bit count lvl) eqn:Bl.
  - exists lvl. rewrite Nat.sub_diag. cbn [skipn FastMerkle.fin]. repeat split; try lia; try assumption.
  - assert (NZ' : N.shiftr count (N.of_nat (S lvl)) <> 0).
    { intros Z. apply NZ. apply shiftr_zero_bits. intros k Hk. destruct (Nat.eq_dec k lvl) as [->|]; [exact Bl|]. apply (proj1 (shiftr_zero_bits count (S lvl)) Z). lia. }
    destruct (IH inner count (S lvl) f R NZ' ltac:(lia)) as (level & E & Hl & Bv & Bz & Hfin & Htail).
    exists level. rewrite E. replace (level - lvl)%nat with (S (level - S lvl)) by lia. cbn [skipn FastMerkle.fin].
    repeat split; try lia; try assumption. intros j Hj. destruct (Nat.eq_dec j lvl) as [->|]; [exact Bl|apply Bz; lia]. Qed.

Theorem impl_is_ctr (ls : list H) : N.of_nat (length ls) <= 2147483648 -> fmr_impl zero cmp ls = Some (fmr_ctr zero cmp ls).
Proof. intros Hn. destruct ls as [|l0 ls0]; [reflexivity|]. set (ls := l0 :: ls0) in *.
  assert (R0 : Rel [] (repeat zero 32) 0 0) by reflexivity.
  destruct (push_all_rel ls [] (repeat zero 32) 0 R0 (repeat_length _ _) ltac:(cbn; lia) ltac:(lia)) as (inner & E & R & Li & Lc).
  rewrite N.add_0_l in *. unfold fmr_impl, fmr_ctr. fold ls. change (match ls with [] => Some zero | _ :: _ => ?x end) with x.
  set (c := fold_left (fun c h => incr h c) ls []) in *.
  unfold FastMerkle.push_all in E. fold (FastMerkle.push_all H zero cmp) in E.
  assert (NZ : N.shiftr (N.of_nat (length ls)) (N.of_nat 0) <> 0) by (cbn [N.of_nat]; rewrite N.shiftr_0_r; unfold ls; cbn [length]; lia).
  destruct (lowest_fin c inner (N.of_nat (length ls)) 0 33 R NZ ltac:(lia)) as (level & El & _ & Bl & Bz & Hfin & Htail).
  replace (match ls with [] => Some zero | _ :: _ => _ end) with
    (match push_all (repeat zero 32, 0) ls with Some (inner, count) => match lowest 33 count 0 with Some level => sweep 33 inner count level (nth level inner zero) | None => None end | None => None end) by reflexivity.
  rewrite E, El. rewrite Nat.sub_0_r in *.
  rewrite (sweep_fin _ (skipn (S level) c) eq_refl inner (N.of_nat (length ls)) level (nth level inner zero) 33 Bl) ; try assumption.
  - rewrite Hfin. destruct (fin_some (skipn (S level) c) (nth level inner zero)) as [r Er]. rewrite Er. reflexivity.
  - intros j Hj. apply Bz. lia.
  - rewrite skipn_length. lia.
  - rewrite skipn_length. lia. Qed.
End IMPL.
