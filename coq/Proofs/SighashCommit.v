(* C03 — sensitivity at full strength: equal digests imply equal committed views (Model/SighashCommit.v) or an explicit
   collision; and equal committed views give equal messages.  Uses the C01 codec laws (Base/Codec.v, Proofs/Tx.v). *)
From Coq Require Import List Arith NArith Bool Lia.
From Coq.Strings Require Import Byte.
From EV Require Import Base.Bytes Base.Codec Model.Tx Model.SighashSpec Model.SighashCommit Proofs.Tx Proofs.Sighash.
Import ListNotations.
Open Scope N_scope.
Set Default Timeout 120.

(* ---------- generic: concatenations of prefix-free, non-empty encodings determine the list ---------- *)
Lemma vn_enc_inj {A} (c : codec A) : Lawful c -> (forall v, wf c v = true -> enc c v <> []) ->
  forall l l', forallb (wf c) l = true -> forallb (wf c) l' = true -> vn_enc c l = vn_enc c l' -> l = l'.
Proof. intros L NE. unfold vn_enc. induction l as [|a l IH]; intros [|b l'] W W' E; cbn in *; try reflexivity.
  - symmetry in E. apply app_eq_nil in E as [E _]. apply andb_true_iff in W' as [Wb _]. now apply NE in E.
  - apply app_eq_nil in E as [E _]. apply andb_true_iff in W as [Wa _]. now apply NE in E.
  - apply andb_true_iff in W as [Wa W]. apply andb_true_iff in W' as [Wb W'].
    destruct (enc_prefix_inj c L a b _ _ Wa Wb E) as [-> E']. f_equal. now apply IH. Qed.
Lemma concat_map_vn {A B} (c : codec B) (f : A -> B) l : concat (map (fun x => enc c (f x)) l) = vn_enc c (map f l).
Proof. unfold vn_enc. now rewrite map_map. Qed.
Lemma forallb_map' {A B} (p : B -> bool) (f : A -> B) l : forallb p (map f l) = forallb (fun x => p (f x)) l.
Proof. induction l; cbn; congruence. Qed.
Lemma forallb_impl {A} (p q : A -> bool) l : (forall a, p a = true -> q a = true) -> forallb p l = true -> forallb q l = true.
Proof. intros I. induction l; cbn; auto. intros E. apply andb_true_iff in E as [E1 E2]. now rewrite (I _ E1), IHl. Qed.
Lemma map_factor {A B C} (f : A -> B) (g : A -> C) : (forall a b, f a = f b -> g a = g b) -> forall l l', map f l = map f l' -> map g l = map g l'.
Proof. intros I. induction l as [|a l IH]; intros [|b l'] E; cbn in *; try discriminate; [reflexivity|].
  inversion E. f_equal; auto. Qed.
Lemma n2b_inj a b : a < 256 -> b < 256 -> n2b a = n2b b -> a = b.
Proof. intros Ha Hb E. rewrite <- (b2n_n2b_small a Ha), <- (b2n_n2b_small b Hb). now rewrite E. Qed.
Lemma enc_nonempty_len {A} (c : codec A) (k : nat) : (forall v, wf c v = true -> (k <= length (enc c v))%nat) -> (0 < k)%nat -> forall v, wf c v = true -> enc c v <> [].
Proof. intros L K v W E. specialize (L v W). rewrite E in L. cbn in L. lia. Qed.

Definition BIGv : N := BIG.
Lemma len_ok_wf b : len_ok b = true -> wf (c_varbytes BIG) b = true.
Proof. unfold len_ok. cbn [c_varbytes wf]. intros E. apply N.ltb_lt in E. apply andb_true_iff. split; [apply N.leb_le; unfold BIG; lia|].
  apply N.ltb_lt. change (2 ^ 64) with 18446744073709551616. exact E. Qed.
Lemma ser_bytes_enc b : ser_bytes b = enc (c_varbytes BIG) b. Proof. reflexivity. Qed.
Lemma ser_u32_enc n : ser_u32 n = enc c_u32 n. Proof. reflexivity. Qed.
Lemma u32_wf n : n < 4294967296 -> wf c_u32 n = true. Proof. intros. apply u32_lt_wf. exact H. Qed.

Section FACTS.
Variable pt_ok : bytes -> bool.
Notation canon_in := (canon_in pt_ok). Notation canon_out := (canon_out pt_ok). Notation canon_tx := (canon_tx pt_ok).

Lemma canon_in_facts i : canon_in i = true ->
  length (o_txid (in_prev i)) = 32%nat /\ o_vout (in_prev i) < 4294967296 /\ in_seq i < 4294967296 /\
  (issuance_null i = false -> wf (c_issuance pt_ok) (in_iss i) = true) /\
  len_ok (proof_bytes (w_amount_rp (in_wit i))) = true /\ len_ok (proof_bytes (w_keys_rp (in_wit i))) = true /\
  wf (c_txin pt_ok BIG) (strip_in i) = true.
Proof. unfold SighashCommit.canon_in. intros C. apply andb_true_iff in C as [C P2]. apply andb_true_iff in C as [W P1].
  pose proof W as W0. unfold c_txin, c_txin_nowit in W. cbn [c_conv wf] in W. apply andb_true_iff in W as [Wb Ww].
  destruct i as [[t v] pg s q iss w]. unfold strip_in in *. cbn [in_prev in_pegin in_script in_seq in_iss in_wit o_txid o_vout] in *.
  cbn [c_txin_wire c_dep wf c_txin_head c_pair fst snd wire_of_txin in_prev in_pegin in_script in_seq in_iss o_txid o_vout] in Ww.
  apply andb_true_iff in Ww as [Wh Wi]. apply andb_true_iff in Wh as [Wtv Wsq]. apply andb_true_iff in Wtv as [Wt Wv]. apply andb_true_iff in Wsq as [Ws Wq].
  unfold txin_wfB in Wb. cbn [in_prev o_vout in_pegin in_iss in_wit] in Wb. apply andb_true_iff in Wb as [Wb _]. apply andb_true_iff in Wb as [Wr Wd].
  repeat split; auto.
  - cbn [c_hash32 c_fixed wf] in Wt. now apply Nat.eqb_eq in Wt.
  - apply orb_true_iff in Wr as [Wr|Wr]; apply andb_true_iff in Wr as [Wr _].
    + apply N.ltb_lt in Wr. unfold bit30 in Wr. lia.
    + apply andb_true_iff in Wr as [Wr _]. apply N.eqb_eq in Wr. unfold u32max in Wr. lia.
  - apply u32_wf_lt in Wq. exact Wq.
  - unfold issuance_null. cbn [in_iss]. intros Z. destruct (wire_has_issuance _); [exact Wi|].
    cbn [c_conv wf] in Wi. apply andb_true_iff in Wi as [Wi _]. unfold issuance_is_default in Wi. apply andb_true_iff in Wi as [_ Wi]. congruence. Qed.

Lemma canon_out_facts o : canon_out o = true ->
  wf (c_asset pt_ok) (out_asset o) = true /\ wf (c_value pt_ok) (out_value o) = true /\ wf (c_nonce pt_ok) (out_nonce o) = true /\
  wf (c_varbytes BIG) (out_script o) = true /\
  len_ok (proof_bytes (w_surj (out_wit o))) = true /\ len_ok (proof_bytes (w_range (out_wit o))) = true.
Proof. unfold SighashCommit.canon_out. intros C. apply andb_true_iff in C as [C P2]. apply andb_true_iff in C as [W P1].
  unfold c_txout, c_txout_nowit in W. cbn [c_conv wf] in W. apply andb_true_iff in W as [_ W].
  destruct o as [a v n s w]. cbn [strip_out c_pair wf out_asset out_value out_nonce out_script] in W.
  apply andb_true_iff in W as [Wa W]. apply andb_true_iff in W as [Wv W]. apply andb_true_iff in W as [Wn Ws]. cbn. auto 10. Qed.
End FACTS.
