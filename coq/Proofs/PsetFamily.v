(* C14, order and grouping independence for families: every binary merge tree over every permutation of a family of compatible
   descendants succeeds and yields the same PSET.
   Method: a merge result is characterised as a JOIN of the leaves below it (`joins`): first-wins / max fields hold the value that some
   leaf holds (all leaves that hold one agree), OR-ed flags hold the OR over the leaves, key-value fields hold exactly the pairs of the
   leaves, unmerged fields hold what every leaf holds.  Merging a join of L1 into a join of L2 gives a join of L1 ++ L2 (`joins_merge`),
   a leaf is a join of itself, and two joins of permuted leaf lists are equal (`joins_unique`). *)
From Coq Require Import List NArith Bool Lia Arith Permutation.
From Coq.Strings Require Import Byte.
From EV Require Import Base.Bytes Gen.Tables Model.PsetMap Model.PsetMerge Model.PsetTx Proofs.PsetMap Proofs.PsetMerge Proofs.PsetTx.
Import ListNotations.

Inductive ukind := UFirst | UOr | UKeep.
Definition ukind_of (p : merge_policy) : ukind :=
  match p with MP_FirstWins | MP_FirstWinsClearing _ | MP_Max => UFirst | MP_OrFlags => UOr | _ => UKeep end.
Definition lorfold (f : field) (L : list pmap) : N := fold_right (fun m acc => N.lor (flag_of (unk m f)) acc) 0%N L.

Record joins (tbl : list (field * merge_policy)) (L : list pmap) (c : pmap) : Prop := {
  j_wf : wf_map c;
  j_unk : forall f, match ukind_of (policy_of tbl f) with
                    | UFirst => forall v, unk c f = Some v <-> exists m, In m L /\ unk m f = Some v
                    | UOr => (forall m, L = [m] -> unk c f = unk m f) /\ ((2 <= length L)%nat -> unk c f = Some [n2b (lorfold f L)])
                    | UKeep => forall m, In m L -> unk c f = unk m f
                    end;
  j_kyd : forall f, if keeps_kyd (policy_of tbl f)
                    then forall k v, al_find k (kyd c f) = Some v <-> exists m, In m L /\ al_find k (kyd m f) = Some v
                    else forall m, In m L -> kyd c f = kyd m f }.

(* the family: every two members (also a member and itself) satisfy the hypotheses of C14_commutes *)
Definition fam_ok (tbl : list (field * merge_policy)) (F : list pmap) : Prop := forall m m', In m F -> In m' F -> pair_ok tbl m m'.

Lemma keeps_unk_ukind p : keeps_unk p = false <-> ukind_of p = UKeep.
Proof. destruct p; cbn; split; congruence. Qed.

(* ---- flags *)
Lemma flag_of_lt v : (flag_of v < 256)%N.
Proof. unfold flag_of. destruct v as [[|x r]|]; try lia. apply b2n_lt. Qed.
Lemma lor_lt256 a b : (a < 256 -> b < 256 -> N.lor a b < 256)%N.
Proof.
  intros A B. destruct (N.eq_dec (N.lor a b) 0) as [->|NZ]; [lia|].
  change 256%N with (2 ^ 8)%N. apply N.log2_lt_pow2; [lia|]. rewrite N.log2_lor.
  assert (forall z, (z < 256 -> N.log2 z < 8)%N) as K.
  { intros z Z. destruct (N.eq_dec z 0) as [->|NZ']; [cbn; lia|]. apply N.log2_lt_pow2; [lia|exact Z]. }
  apply N.max_lub_lt; auto.
Qed.
Lemma lorfold_lt f L : (lorfold f L < 256)%N.
Proof. induction L as [|m L IH]; cbn [lorfold fold_right]; [lia|]. apply lor_lt256; [apply flag_of_lt|exact IH]. Qed.
Lemma lorfold_app f L1 L2 : lorfold f (L1 ++ L2) = N.lor (lorfold f L1) (lorfold f L2).
Proof. induction L1 as [|m L IH]; cbn [lorfold fold_right app]; [reflexivity|]. fold (lorfold f (L ++ L2)) (lorfold f L). now rewrite IH, N.lor_assoc. Qed.
Lemma lorfold_perm f L L' : Permutation L L' -> lorfold f L = lorfold f L'.
Proof.
  induction 1 as [|m L L' P IH|m m' L|L L' L'' P1 IH1 P2 IH2]; cbn [lorfold fold_right]; try congruence.
  - fold (lorfold f L) (lorfold f L'). now rewrite IH.
  - rewrite !N.lor_assoc. f_equal. apply N.lor_comm.
Qed.
Lemma flag_of_some X : (X < 256)%N -> flag_of (Some [n2b X]) = X.
Proof. intros H. cbn [flag_of]. now apply b2n_n2b_small. Qed.

Lemma joins_flag tbl L c f : L <> [] -> joins tbl L c -> ukind_of (policy_of tbl f) = UOr -> flag_of (unk c f) = lorfold f L.
Proof.
  intros NE J U. pose proof (j_unk _ _ _ J f) as H. rewrite U in H. destruct H as [H1 H2].
  destruct L as [|m [|m' r]]; [contradiction| |].
  - rewrite (H1 m eq_refl). cbn. now rewrite N.lor_0_r.
  - rewrite H2 by (cbn; lia). apply flag_of_some, lorfold_lt.
Qed.

(* ---- a leaf is the join of itself *)
Lemma joins_leaf tbl m : wf_map m -> joins tbl [m] m.
Proof.
  intros W. constructor; [exact W| |].
  - intros f. destruct (ukind_of (policy_of tbl f)).
    + intros v. split; [intros H; exists m; split; [now left|exact H]|intros [m' [[<-|[]] H]]; exact H].
    + split; [intros m' [= <-]; reflexivity|cbn; lia].
    + intros m' [<-|[]]. reflexivity.
  - intros f. destruct (keeps_kyd (policy_of tbl f)).
    + intros k v. split; [intros H; exists m; split; [now left|exact H]|intros [m' [[<-|[]] H]]; exact H].
    + intros m' [<-|[]]. reflexivity.
Qed.

(* ---- first-wins and max coincide when the operands cannot disagree *)
Lemma apply_unk_first p a b : ukind_of p = UFirst -> (forall x y, a = Some x -> b = Some y -> x = y) -> apply_unk p a b = first_wins a b.
Proof.
  intros U C. destruct p; cbn [ukind_of] in U; try discriminate; cbn [apply_unk]; try reflexivity.
  destruct a as [x|], b as [y|]; cbn [max_opt first_wins]; try reflexivity. rewrite (C x y eq_refl eq_refl). now rewrite N.ltb_irrefl.
Qed.

Section Step.
  Variables (guarded : bool) (tbl : list (field * merge_policy)) (F : list pmap).
  Hypothesis ND : nodup_fields tbl = true.
  Hypothesis VC : vecops_canonical tbl = true.
  Hypothesis FAM : fam_ok tbl F.

  Lemma uniq_unk m m' f x y : In m F -> In m' F -> unk m f = Some x -> unk m' f = Some y -> x = y.
  Proof. intros I I'. destruct (po_compat _ _ _ (FAM m m' I I')) as [C _]. apply C. Qed.
  Lemma uniq_kyd m m' f k x y : In m F -> In m' F -> al_find k (kyd m f) = Some x -> al_find k (kyd m' f) = Some y -> x = y.
  Proof. intros I I'. destruct (po_compat _ _ _ (FAM m m' I I')) as [_ C]. apply C. Qed.

  Lemma joins_merge L1 L2 c d : incl L1 F -> incl L2 F -> L1 <> [] -> L2 <> [] -> joins tbl L1 c -> joins tbl L2 d ->
    exists e, run_steps guarded tbl c d = Val e /\ joins tbl (L1 ++ L2) e.
  Proof.
    intros I1 I2 N1 N2 JC JD.
    (* lookups of key-value fields of c and d cannot disagree *)
    assert (forall f k x y, keeps_kyd (policy_of tbl f) = true -> al_find k (kyd c f) = Some x -> al_find k (kyd d f) = Some y -> x = y) as CK.
    { intros f k x y K A B. pose proof (j_kyd _ _ _ JC f) as HC. pose proof (j_kyd _ _ _ JD f) as HD. rewrite K in HC, HD.
      apply HC in A as [m [Im A]]. apply HD in B as [m' [Im' B]]. exact (uniq_kyd m m' f k x y (I1 _ Im) (I2 _ Im') A B). }
    assert (forall f x y, ukind_of (policy_of tbl f) = UFirst -> unk c f = Some x -> unk d f = Some y -> x = y) as CU.
    { intros f x y K A B. pose proof (j_unk _ _ _ JC f) as HC. pose proof (j_unk _ _ _ JD f) as HD. rewrite K in HC, HD.
      apply HC in A as [m [Im A]]. apply HD in B as [m' [Im' B]]. exact (uniq_unk m m' f x y (I1 _ Im) (I2 _ Im') A B). }
    (* no clearing statement fires *)
    assert (quiet tbl c d) as Q.
    { intros f cl I A. pose proof (In_policy_of _ _ _ ND I) as P.
      pose proof (j_unk _ _ _ JC f) as HC. pose proof (j_unk _ _ _ JD f) as HD. rewrite P in HC, HD. cbn [ukind_of] in HC, HD.
      destruct (unk d f) as [v|] eqn:D; [|reflexivity]. exfalso.
      destruct (proj1 (HD v) eq_refl) as [m2 [I2' D2]].
      destruct L1 as [|m1 r1]; [contradiction|].
      assert (unk m1 f = None) as M1.
      { destruct (unk m1 f) as [w|] eqn:W; [|reflexivity]. assert (unk c f = Some w) as X by (apply HC; exists m1; split; [now left|exact W]). congruence. }
      pose proof (po_quiet_ab _ _ _ (FAM m1 m2 (I1 _ (or_introl eq_refl)) (I2 _ I2')) f cl I M1) as Z. congruence. }
    (* the table run succeeds *)
    destruct (run_steps_total guarded tbl c d ND) as [e HE].
    { intros f I. pose proof (In_policy_of _ _ _ ND I) as P.
      destruct (xpub_merge_compat guarded (kyd d f) (kyd c f) (j_wf _ _ _ JD f)) as [l [X _]]; [|eauto].
      intros k x y. apply CK. now rewrite P. }
    exists e. split; [exact HE|].
    pose proof (run_steps_unk_quiet _ _ _ _ _ ND Q HE) as UE.
    constructor.
    - (* key-sorted *)
      intros f. pose proof (run_steps_kyd _ _ _ _ _ f ND HE) as R.
      destruct (policy_of tbl f) eqn:P; cbn [kyd_rel] in R; try (rewrite R; apply (j_wf _ _ _ JC)).
      + rewrite R. apply al_sorted_extend, (j_wf _ _ _ JC).
      + assert (ops = canonical_vec_ops) as ->.
        { apply policy_of_In in P; [|discriminate]. unfold vecops_canonical in VC. rewrite forallb_forall in VC. specialize (VC _ P). now apply vec_ops_eqb_eq. }
        rewrite R. apply vec_merge_sorted.
      + eapply xpub_merge_sorted; [apply (j_wf _ _ _ JC)|exact R].
    - (* optional / mandatory fields *)
      intros f. rewrite UE. pose proof (j_unk _ _ _ JC f) as HC. pose proof (j_unk _ _ _ JD f) as HD.
      destruct (ukind_of (policy_of tbl f)) eqn:U.
      + rewrite (apply_unk_first _ _ _ U (fun x y => CU f x y U)). intros v. split.
        * destruct (unk c f) as [x|] eqn:C; cbn [first_wins].
          -- intros [= <-]. destruct (proj1 (HC x) eq_refl) as [m [Im A]]. exists m. split; [apply in_or_app; now left|exact A].
          -- intros D. destruct (proj1 (HD v) D) as [m [Im A]]. exists m. split; [apply in_or_app; now right|exact A].
        * intros [m [Im A]]. apply in_app_or in Im as [Im|Im].
          -- assert (unk c f = Some v) as C by (apply HC; eauto). now rewrite C.
          -- assert (unk d f = Some v) as D by (apply HD; eauto).
             destruct (unk c f) as [x|] eqn:C; cbn [first_wins]; [|exact D]. f_equal. exact (CU f x v U C D).
      + split.
        * intros m E. destruct L1 as [|? [|? ?]], L2 as [|? ?]; try contradiction; discriminate E.
        * intros _. assert (policy_of tbl f = MP_OrFlags) as P by (destruct (policy_of tbl f); cbn in U; congruence).
          rewrite P. cbn [apply_unk]. unfold or_flags.
          rewrite (joins_flag _ _ _ f N1 JC U), (joins_flag _ _ _ f N2 JD U), lorfold_app. reflexivity.
      + assert (apply_unk (policy_of tbl f) (unk c f) (unk d f) = unk c f) as -> by (destruct (policy_of tbl f); cbn in U; try discriminate; reflexivity).
        intros m Im. apply in_app_or in Im as [Im|Im]; [now apply HC|].
        destruct L1 as [|m1 r1]; [contradiction|]. rewrite (HC m1 (or_introl eq_refl)).
        apply (po_agree _ _ _ (FAM m1 m (I1 _ (or_introl eq_refl)) (I2 _ Im)) f). now apply keeps_unk_ukind.
    - (* key-value fields *)
      intros f. pose proof (run_steps_kyd _ _ _ _ _ f ND HE) as R.
      pose proof (j_kyd _ _ _ JC f) as HC. pose proof (j_kyd _ _ _ JD f) as HD.
      destruct (keeps_kyd (policy_of tbl f)) eqn:K.
      + (* in all three keeping cases the lookups of e are those of d, then those of c *)
        assert (forall q, al_find q (kyd e f) = match al_find q (kyd d f) with Some v => Some v | None => al_find q (kyd c f) end
                       \/ al_find q (kyd e f) = match al_find q (kyd c f) with Some v => Some v | None => al_find q (kyd d f) end) as FE.
        { intros q. destruct (policy_of tbl f) eqn:P; cbn [keeps_kyd] in K; try discriminate; cbn [kyd_rel] in R.
          - left. rewrite R. apply al_find_extend_sorted, (j_wf _ _ _ JD).
          - right. assert (ops = canonical_vec_ops) as ->.
            { apply policy_of_In in P; [|discriminate]. unfold vecops_canonical in VC. rewrite forallb_forall in VC. specialize (VC _ P). now apply vec_ops_eqb_eq. }
            rewrite R. apply vec_merge_find.
          - left. destruct (xpub_merge_compat guarded (kyd d f) (kyd c f) (j_wf _ _ _ JD f)) as [l [X Y]].
            { intros k x y. apply CK. now rewrite P. }
            rewrite R in X. injection X as <-. apply Y. }
        intros k v. split.
        * intros H. assert (al_find k (kyd c f) = Some v \/ al_find k (kyd d f) = Some v) as [A|A].
          { destruct (FE k) as [E|E]; rewrite E in H; destruct (al_find k (kyd c f)), (al_find k (kyd d f)); auto; discriminate. }
          -- apply HC in A as [m [Im A]]. exists m. split; [apply in_or_app; now left|exact A].
          -- apply HD in A as [m [Im A]]. exists m. split; [apply in_or_app; now right|exact A].
        * intros [m [Im A]]. apply in_app_or in Im as [Im|Im].
          -- assert (al_find k (kyd c f) = Some v) as C by (apply HC; eauto).
             destruct (FE k) as [E|E]; rewrite E, C; [|reflexivity].
             destruct (al_find k (kyd d f)) as [y|] eqn:D; [|reflexivity]. f_equal. symmetry. eapply (CK f k v y K); eauto.
          -- assert (al_find k (kyd d f) = Some v) as D by (apply HD; eauto).
             destruct (FE k) as [E|E]; rewrite E, D; [reflexivity|].
             destruct (al_find k (kyd c f)) as [x|] eqn:C; [|reflexivity]. f_equal. eapply (CK f k x v K); eauto.
      + assert (kyd e f = kyd c f) as ->.
        { destruct (policy_of tbl f) eqn:P; cbn [keeps_kyd] in K; try discriminate; cbn [kyd_rel] in R; try exact R.
          exfalso. apply policy_of_In in P; [|discriminate]. unfold vecops_canonical in VC. rewrite forallb_forall in VC. specialize (VC _ P).
          cbn [snd] in VC. apply vec_ops_eqb_eq in VC. subst ops. discriminate K. }
        intros m Im. apply in_app_or in Im as [Im|Im]; [now apply HC|].
        destruct L1 as [|m1 r1]; [contradiction|]. rewrite (HC m1 (or_introl eq_refl)).
        apply (po_agree _ _ _ (FAM m1 m (I1 _ (or_introl eq_refl)) (I2 _ Im)) f). exact K.
  Qed.

  (* two joins of permuted leaf lists are the same map *)
  Lemma joins_unique L L' c c' : incl L F -> L <> [] -> Permutation L L' -> joins tbl L c -> joins tbl L' c' -> map_equiv c c'.
  Proof.
    intros I NE P JC JD f. split.
    - pose proof (j_unk _ _ _ JC f) as HC. pose proof (j_unk _ _ _ JD f) as HD.
      destruct (ukind_of (policy_of tbl f)) eqn:U.
      + destruct (unk c f) as [v|].
        * destruct (proj1 (HC v) eq_refl) as [m [Im A]]. symmetry. apply HD. exists m. split; [eapply Permutation_in; eauto|exact A].
        * destruct (unk c' f) as [v|]; [|reflexivity]. destruct (proj1 (HD v) eq_refl) as [m [Im A]].
          apply (HC v). exists m. split; [eapply Permutation_in; [apply Permutation_sym; exact P|exact Im]|exact A].
      + destruct HC as [C1 C2], HD as [D1 D2]. pose proof (Permutation_length P) as LEN.
        destruct L as [|m [|m2 r]]; [contradiction| |].
        * apply Permutation_length_1_inv in P. subst L'. now rewrite (C1 m eq_refl), (D1 m eq_refl).
        * rewrite C2 by (cbn; lia). rewrite D2 by (rewrite <- LEN; cbn; lia). now rewrite (lorfold_perm f _ _ P).
      + destruct L as [|m r]; [contradiction|]. rewrite (HC m (or_introl eq_refl)). symmetry. apply HD. eapply Permutation_in; [exact P|now left].
    - pose proof (j_kyd _ _ _ JC f) as HC. pose proof (j_kyd _ _ _ JD f) as HD.
      destruct (keeps_kyd (policy_of tbl f)).
      + apply al_sorted_ext; [apply (j_wf _ _ _ JC)|apply (j_wf _ _ _ JD)|]. intros k.
        specialize (HC k). specialize (HD k). destruct (al_find k (kyd c f)) as [v|].
        * destruct (proj1 (HC v) eq_refl) as [m [Im A]]. symmetry. apply HD. exists m. split; [eapply Permutation_in; eauto|exact A].
        * destruct (al_find k (kyd c' f)) as [v|]; [|reflexivity]. destruct (proj1 (HD v) eq_refl) as [m [Im A]].
          apply (HC v). exists m. split; [eapply Permutation_in; [apply Permutation_sym; exact P|exact Im]|exact A].
      + destruct L as [|m r]; [contradiction|]. rewrite (HC m (or_introl eq_refl)). symmetry. apply HD. eapply Permutation_in; [exact P|now left].
  Qed.
End Step.

(* ================================================================ whole PSETs *)
Local Open Scope nat_scope.
Lemma Forall2_nth {A} (R : A -> A -> Prop) d : forall l l' i, Forall2 R l l' -> i < length l -> R (nth i l d) (nth i l' d).
Proof. intros l l' i H. revert i. induction H as [|x y l l' Rxy H IH]; intros [|i] Hi; cbn in *; try lia; auto. apply IH. lia. Qed.
Lemma Forall2_of_nth {A} (R : A -> A -> Prop) d : forall l l', length l = length l' -> (forall i, i < length l -> R (nth i l d) (nth i l' d)) -> Forall2 R l l'.
Proof.
  induction l as [|x l IH]; intros [|y l'] E H; cbn in E; try discriminate; constructor.
  - apply (H 0). cbn. lia.
  - apply IH; [lia|]. intros i Hi. apply (H (S i)). cbn. lia.
Qed.

Lemma zip_merge_pointwise (mm : pmap -> pmap -> outcome pmap) : forall xs ys n (P : nat -> pmap -> Prop),
  length xs = n -> length ys = n ->
  (forall i, i < n -> exists e, mm (nth i xs empty_map) (nth i ys empty_map) = Val e /\ P i e) ->
  exists cs, zip_merge mm xs ys = Val cs /\ length cs = n /\ forall i, i < n -> P i (nth i cs empty_map).
Proof.
  induction xs as [|x xs IH]; intros [|y ys] n P LX LY H; cbn in LX, LY; subst n; try discriminate.
  - exists []. repeat split. intros i Hi. cbn in Hi. lia.
  - destruct (H 0) as [e [E PE]]; [cbn; lia|]. cbn [nth] in E.
    destruct (IH ys (length xs) (fun i => P (S i)) eq_refl) as [cs [Z [LC PC]]]; [cbn in LY; lia| |].
    { intros i Hi. apply (H (S i)). cbn. lia. }
    exists (e :: cs). cbn [zip_merge]. rewrite E, Z. cbn [obind]. split; [reflexivity|]. split; [cbn; now rewrite LC|].
    intros [|i] Hi; cbn [nth]; [exact PE|]. apply PC. cbn in Hi. lia.
Qed.

(* agreement of a join with the leaves on fields on which the leaves agree *)
Definition no_or (tbl : list (field * merge_policy)) (fs : list field) : bool :=
  forallb (fun f => match ukind_of (policy_of tbl f) with UOr => false | _ => true end) fs.
Lemma joins_agree tbl fs L c m : no_or tbl fs = true -> joins tbl L c -> In m L -> (forall m', In m' L -> agree_on fs m m') -> agree_on fs m c.
Proof.
  intros NO J Im AG f If. unfold no_or in NO. rewrite forallb_forall in NO. specialize (NO f If).
  pose proof (j_unk _ _ _ J f) as H. destruct (ukind_of (policy_of tbl f)); try discriminate.
  - destruct (unk c f) as [v|].
    + destruct (proj1 (H v) eq_refl) as [m' [Im' A]]. now rewrite (AG m' Im' f If).
    + destruct (unk m f) as [v|] eqn:M; [|reflexivity]. symmetry. apply (H v). eauto.
  - symmetry. now apply H.
Qed.

Definition gcol (L : list pset) : list pmap := map pglobal L.
Definition icol (i : nat) (L : list pset) : list pmap := map (fun p => nth i (pinputs p) empty_map) L.
Definition ocol (i : nat) (L : list pset) : list pmap := map (fun p => nth i (poutputs p) empty_map) L.

(* the family: same shape, pairwise the hypotheses of C14_commutes, pairwise agreement on the transaction-identifying fields
   (the latter excludes the lock-time-max finding: no member changes a required lock time) *)
Record pfam (T : tables) (cl : list field) (F : list pset) (ni no : nat) : Prop := {
  pf_shape : forall p, In p F -> length (pinputs p) = ni /\ length (poutputs p) = no;
  pf_pair : forall p q, In p F -> In q F -> pset_pair_ok T p q;
  pf_agree : forall p q, In p F -> In q F -> pset_agree cl p q }.

Record pset_joins (T : tables) (ni no : nat) (L : list pset) (c : pset) : Prop := {
  pj_global : joins (t_global T) (gcol L) (pglobal c);
  pj_ni : length (pinputs c) = ni;
  pj_no : length (poutputs c) = no;
  pj_inputs : forall i, i < ni -> joins (t_input T) (icol i L) (nth i (pinputs c) empty_map);
  pj_outputs : forall i, i < no -> joins (t_output T) (ocol i L) (nth i (poutputs c) empty_map) }.

Definition tables_no_or (T : tables) (cl : list field) : bool :=
  no_or (t_global T) uid_global_fields && no_or (t_input T) (uid_input_fields cl) && no_or (t_output T) uid_output_fields.

Section Family.
  Context {id : Type} (id_eqb : id -> id -> bool) (uid : pset -> outcome id).
  Variables (T : tables) (cl : list field) (F : list pset) (ni no : nat) (x : id).
  Hypothesis TOK : tables_ok T = true.
  Hypothesis TCAN : tables_canonical T = true.
  Hypothesis TNO : tables_no_or T cl = true.
  Hypothesis HU : forall p q, pset_agree cl p q -> uid p = uid q.      (* the id is a function of the transaction-identifying fields (C08_uid_depends) *)
  Hypothesis PF : pfam T cl F ni no.
  Hypothesis UX : forall p, In p F -> uid p = Val x.
  Hypothesis XX : id_eqb x x = true.

  Lemma fam_global : fam_ok (t_global T) (gcol F).
  Proof. intros m m' I I'. apply in_map_iff in I as [p [<- Ip]]. apply in_map_iff in I' as [q [<- Iq]]. apply (ppo_global _ _ _ (pf_pair _ _ _ _ _ PF p q Ip Iq)). Qed.
  Lemma fam_input i : i < ni -> fam_ok (t_input T) (icol i F).
  Proof.
    intros Hi m m' I I'. apply in_map_iff in I as [p [<- Ip]]. apply in_map_iff in I' as [q [<- Iq]].
    apply Forall2_nth; [apply (ppo_inputs _ _ _ (pf_pair _ _ _ _ _ PF p q Ip Iq))|]. now rewrite (proj1 (pf_shape _ _ _ _ _ PF p Ip)).
  Qed.
  Lemma fam_output i : i < no -> fam_ok (t_output T) (ocol i F).
  Proof.
    intros Hi m m' I I'. apply in_map_iff in I as [p [<- Ip]]. apply in_map_iff in I' as [q [<- Iq]].
    apply Forall2_nth; [apply (ppo_outputs _ _ _ (pf_pair _ _ _ _ _ PF p q Ip Iq))|]. now rewrite (proj2 (pf_shape _ _ _ _ _ PF p Ip)).
  Qed.

  Lemma tables_parts : (nodup_fields (t_global T) = true /\ nodup_fields (t_input T) = true /\ nodup_fields (t_output T) = true) /\
                       (vecops_canonical (t_global T) = true /\ vecops_canonical (t_input T) = true /\ vecops_canonical (t_output T) = true) /\
                       (no_or (t_global T) uid_global_fields = true /\ no_or (t_input T) (uid_input_fields cl) = true /\ no_or (t_output T) uid_output_fields = true).
  Proof.
    unfold tables_ok in TOK. unfold tables_canonical in TCAN. unfold tables_no_or in TNO.
    repeat (match goal with H : _ && _ = true |- _ => apply andb_true_iff in H as [? ?] end). auto 10.
  Qed.

  (* a join has the family's unique id *)
  Lemma joins_uid L c : incl L F -> L <> [] -> pset_joins T ni no L c -> uid c = Val x.
  Proof.
    intros I NE J. destruct L as [|p r]; [contradiction|]. assert (In p F) as Ip by (apply I; now left).
    rewrite <- (UX p Ip). symmetry. apply HU.
    destruct tables_parts as [_ [_ [NG [NI NO]]]]. destruct (pf_shape _ _ _ _ _ PF p Ip) as [SI SO].
    split; [|split].
    - apply (joins_agree (t_global T) _ (gcol (p :: r)) _ (pglobal p) NG (pj_global _ _ _ _ _ J)); [now left|].
      intros m' Im'. apply in_map_iff in Im' as [q [<- Iq]]. apply (pf_agree _ _ _ _ _ PF p q Ip (I _ Iq)).
    - apply (Forall2_of_nth _ empty_map); [now rewrite SI, (pj_ni _ _ _ _ _ J)|]. intros i Hi. rewrite SI in Hi.
      apply (joins_agree (t_input T) _ (icol i (p :: r)) _ _ NI (pj_inputs _ _ _ _ _ J i Hi)); [now left|].
      intros m' Im'. apply in_map_iff in Im' as [q [<- Iq]].
      apply Forall2_nth; [apply (pf_agree _ _ _ _ _ PF p q Ip (I _ Iq))|now rewrite SI].
    - apply (Forall2_of_nth _ empty_map); [now rewrite SO, (pj_no _ _ _ _ _ J)|]. intros i Hi. rewrite SO in Hi.
      apply (joins_agree (t_output T) _ (ocol i (p :: r)) _ _ NO (pj_outputs _ _ _ _ _ J i Hi)); [now left|].
      intros m' Im'. apply in_map_iff in Im' as [q [<- Iq]].
      apply Forall2_nth; [apply (pf_agree _ _ _ _ _ PF p q Ip (I _ Iq))|now rewrite SO].
  Qed.

  Lemma leaves_nonempty (t : mtree) : leaves t <> [].
  Proof. induction t as [p|l IHl r IHr]; cbn; [discriminate|]. destruct (leaves l); [contradiction|discriminate]. Qed.

  (* every merge tree over members of the family succeeds, and its result is the join of its leaves *)
  Lemma eval_tree_joins : forall t, incl (leaves t) F -> exists c, eval_tree_with id_eqb uid T t = Val c /\ pset_joins T ni no (leaves t) c.
  Proof.
    destruct tables_parts as [[NDG [NDI NDO]] [[VG [VI VO]] _]].
    induction t as [p|l IHl r IHr]; intros I; cbn [leaves eval_tree_with] in *.
    - assert (In p F) as Ip by (apply I; now left). exists p. split; [reflexivity|].
      destruct (pf_shape _ _ _ _ _ PF p Ip) as [SI SO]. pose proof (pf_pair _ _ _ _ _ PF p p Ip Ip) as PP.
      constructor; auto.
      + apply joins_leaf, (po_wf_a _ _ _ (ppo_global _ _ _ PP)).
      + intros i Hi. apply joins_leaf. apply (po_wf_a (t_input T) (nth i (pinputs p) empty_map) (nth i (pinputs p) empty_map)).
        apply Forall2_nth; [apply (ppo_inputs _ _ _ PP)|now rewrite SI].
      + intros i Hi. apply joins_leaf. apply (po_wf_a (t_output T) (nth i (poutputs p) empty_map) (nth i (poutputs p) empty_map)).
        apply Forall2_nth; [apply (ppo_outputs _ _ _ PP)|now rewrite SO].
    - assert (incl (leaves l) F /\ incl (leaves r) F) as [Il Ir] by (split; intros q Hq; apply I, in_or_app; auto).
      destruct (IHl Il) as [c [EC JC]]. destruct (IHr Ir) as [d [ED JD]]. rewrite EC, ED. cbn [obind].
      pose proof (leaves_nonempty l) as NL. pose proof (leaves_nonempty r) as NR.
      unfold merge_with. rewrite (joins_uid _ _ Il NL JC), (joins_uid _ _ Ir NR JD). cbn [uid_res_eqb]. rewrite XX.
      unfold merge_maps_with, merge_map_with.
      assert (forall (g : pset -> pmap) (L : list pset), map g L <> [] <-> L <> []) as MN by (intros g [|? ?]; cbn; split; congruence).
      destruct (joins_merge (t_guarded T) (t_global T) (gcol F) NDG VG fam_global (gcol (leaves l)) (gcol (leaves r)) (pglobal c) (pglobal d))
        as [g [EG JG]]; try (apply incl_map; assumption); try (apply MN; assumption); try apply (pj_global _ _ _ _ _ JC); try apply (pj_global _ _ _ _ _ JD).
      rewrite EG. cbn [obind].
      destruct (zip_merge_pointwise (run_steps (t_guarded T) (t_input T)) (pinputs c) (pinputs d) ni
                  (fun i e => joins (t_input T) (icol i (leaves l ++ leaves r)) e) (pj_ni _ _ _ _ _ JC) (pj_ni _ _ _ _ _ JD)) as [ci [ZI [LI PI]]].
      { intros i Hi. unfold icol. rewrite map_app.
        apply (joins_merge (t_guarded T) (t_input T) (icol i F) NDI VI (fam_input i Hi)); try (apply incl_map; assumption); try (apply MN; assumption);
          [apply (pj_inputs _ _ _ _ _ JC i Hi)|apply (pj_inputs _ _ _ _ _ JD i Hi)]. }
      rewrite ZI. cbn [obind].
      destruct (zip_merge_pointwise (run_steps (t_guarded T) (t_output T)) (poutputs c) (poutputs d) no
                  (fun i e => joins (t_output T) (ocol i (leaves l ++ leaves r)) e) (pj_no _ _ _ _ _ JC) (pj_no _ _ _ _ _ JD)) as [co [ZO [LO PO]]].
      { intros i Hi. unfold ocol. rewrite map_app.
        apply (joins_merge (t_guarded T) (t_output T) (ocol i F) NDO VO (fam_output i Hi)); try (apply incl_map; assumption); try (apply MN; assumption);
          [apply (pj_outputs _ _ _ _ _ JC i Hi)|apply (pj_outputs _ _ _ _ _ JD i Hi)]. }
      rewrite ZO. cbn [obind]. eexists. split; [reflexivity|].
      constructor; cbn [pglobal pinputs poutputs]; auto. unfold gcol in *. now rewrite map_app.
  Qed.

  (* any two merge trees over permutations of the same members give the same PSET *)
  Theorem family_merge (t t' : mtree) : incl (leaves t) F -> Permutation (leaves t) (leaves t') ->
    exists c c', eval_tree_with id_eqb uid T t = Val c /\ eval_tree_with id_eqb uid T t' = Val c' /\ pset_equiv c c'.
  Proof.
    intros I P. assert (incl (leaves t') F) as I' by (intros q Hq; apply I; eapply Permutation_in; [apply Permutation_sym; exact P|exact Hq]).
    destruct (eval_tree_joins t I) as [c [EC JC]]. destruct (eval_tree_joins t' I') as [c' [EC' JC']].
    exists c, c'. split; [exact EC|]. split; [exact EC'|].
    destruct tables_parts as [[NDG [NDI NDO]] [[VG [VI VO]] _]]. pose proof (leaves_nonempty t) as NE.
    assert (forall (g : pset -> pmap) (L : list pset), L <> [] -> map g L <> []) as MN by (intros g [|? ?]; cbn; congruence).
    split; [|split].
    - apply (joins_unique (t_global T) (gcol F) (gcol (leaves t)) (gcol (leaves t'))); try apply (pj_global _ _ _ _ _ JC); try apply (pj_global _ _ _ _ _ JC');
        [apply incl_map; assumption|apply MN; assumption|apply Permutation_map; assumption].
    - apply (Forall2_of_nth _ empty_map); [now rewrite (pj_ni _ _ _ _ _ JC), (pj_ni _ _ _ _ _ JC')|]. intros i Hi. rewrite (pj_ni _ _ _ _ _ JC) in Hi.
      apply (joins_unique (t_input T) (icol i F) (icol i (leaves t)) (icol i (leaves t')));
        [apply incl_map; assumption|apply MN; assumption|apply Permutation_map; assumption|apply (pj_inputs _ _ _ _ _ JC i Hi)|apply (pj_inputs _ _ _ _ _ JC' i Hi)].
    - apply (Forall2_of_nth _ empty_map); [now rewrite (pj_no _ _ _ _ _ JC), (pj_no _ _ _ _ _ JC')|]. intros i Hi. rewrite (pj_no _ _ _ _ _ JC) in Hi.
      apply (joins_unique (t_output T) (ocol i F) (ocol i (leaves t)) (ocol i (leaves t')));
        [apply incl_map; assumption|apply MN; assumption|apply Permutation_map; assumption|apply (pj_outputs _ _ _ _ _ JC i Hi)|apply (pj_outputs _ _ _ _ _ JC' i Hi)].
  Qed.
End Family.

(* ---- ready-made instances of pair_ok (used for the non-vacuity example) *)
Lemma pair_ok_refl tbl m : wf_map m -> pair_ok tbl m m.
Proof.
  intros W. constructor; auto.
  - split; intros; congruence.
  - intros f. split; reflexivity.
  - intros f cl _ H. exact H.
  - intros f cl _ H. exact H.
Qed.
(* two descendants that each added one key-value field to a base without key-value content *)
Lemma pair_ok_kyd tbl base f1 l1 f2 l2 : (forall f, kyd base f = []) ->
  keeps_kyd (policy_of tbl f1) = true -> keeps_kyd (policy_of tbl f2) = true -> al_sorted l1 = true -> al_sorted l2 = true ->
  (f1 = f2 -> forall k x y, al_find k l1 = Some x -> al_find k l2 = Some y -> x = y) ->
  pair_ok tbl (set_kyd base f1 l1) (set_kyd base f2 l2).
Proof.
  intros B K1 K2 S1 S2 C. constructor.
  - intros f. cbn. destruct (bytes_eqb f f1); [exact S1|now rewrite B].
  - intros f. cbn. destruct (bytes_eqb f f2); [exact S2|now rewrite B].
  - split.
    + intros f x y A A'. cbn in A, A'. congruence.
    + intros f k x y. cbn. destruct (bytes_eqb_spec f f1) as [E1|N1], (bytes_eqb_spec f f2) as [E2|N2]; rewrite ?B; cbn; try discriminate.
      apply C. congruence.
  - intros f. split; [reflexivity|]. intros K. cbn.
    destruct (bytes_eqb_spec f f1) as [->|N1]; [congruence|]. destruct (bytes_eqb_spec f f2) as [->|N2]; [congruence|reflexivity].
  - intros f cl _ H. exact H.
  - intros f cl _ H. exact H.
Qed.

(* ---- the example family used by Props/C14.v *)
(* three descendants of one ancestor: a added a partial signature, b another one, c a key derivation *)
Definition ex_global : pmap := of_entries [(fld "version", Some (u32_enc 2)); (F_tx_version, Some (u32_enc 2)); (F_input_count, Some [x01]); (F_output_count, Some [x01])].
Definition ex_input : pmap := of_entries [(F_prev_txid, Some (repeat x07 32)); (F_prev_index, Some (u32_enc 1))].
Definition ex_output : pmap := of_entries [(F_amount, Some (repeat x00 7 ++ [x05])); (F_asset, Some (repeat x03 32)); (F_script_pubkey, Some [x51])].
Definition ex_member (f : field) (l : alist) : pset := mkpset ex_global [set_kyd ex_input f l] [ex_output].
Definition ex_a := ex_member (fld "partial_sigs") [([x02; x0a], [x30; x01])].
Definition ex_b := ex_member (fld "partial_sigs") [([x02; x0b], [x30; x02])].
Definition ex_c := ex_member (fld "bip32_derivation") [([x02; x0a], [x00; x00; x00; x00])].

Lemma ex_wf (l : list (field * option bytes)) : wf_map (of_entries l). Proof. intros f. reflexivity. Qed.
Lemma ex_pfam : pfam cur_tables uid_cleared_txin_fields [ex_a; ex_b; ex_c] 1 1.
Proof.
  assert (forall f1 l1 f2 l2, In (f1, l1) [(fld "partial_sigs", [([x02; x0a], [x30; x01])]); (fld "partial_sigs", [([x02; x0b], [x30; x02])]); (fld "bip32_derivation", [([x02; x0a], [x00; x00; x00; x00])])] ->
          In (f2, l2) [(fld "partial_sigs", [([x02; x0a], [x30; x01])]); (fld "partial_sigs", [([x02; x0b], [x30; x02])]); (fld "bip32_derivation", [([x02; x0a], [x00; x00; x00; x00])])] ->
          pset_pair_ok cur_tables (ex_member f1 l1) (ex_member f2 l2) /\ pset_agree uid_cleared_txin_fields (ex_member f1 l1) (ex_member f2 l2)) as K.
  { intros f1 l1 f2 l2 I1 I2. split.
    - constructor; cbn [ex_member pglobal pinputs poutputs cur_tables t_global t_input t_output].
      + apply pair_ok_refl, ex_wf.
      + constructor; [|constructor]. apply pair_ok_kyd; [reflexivity| | | | |];
          cbn in I1, I2; repeat (destruct I1 as [I1|I1]; [injection I1 as <- <-|]); try contradiction;
          repeat (destruct I2 as [I2|I2]; [injection I2 as <- <-|]); try contradiction; try (vm_compute; reflexivity);
          intros E k x y; try (vm_compute in E; discriminate E); cbn [al_find];
          repeat (match goal with |- context [bytes_eqb k ?l] => destruct (bytes_eqb_spec k l) end); intros; subst; try discriminate; congruence.
      + constructor; [|constructor]. apply pair_ok_refl, ex_wf.
    - split; [apply agree_refl|]. split; (constructor; [|constructor]); [intros g _; reflexivity|apply agree_refl]. }
  constructor.
  - intros p [<-|[<-|[<-|[]]]]; split; reflexivity.
  - intros p q Ip Iq. cbn in Ip, Iq.
    destruct Ip as [<-|[<-|[<-|[]]]], Iq as [<-|[<-|[<-|[]]]]; apply K; cbn; tauto.
  - intros p q Ip Iq. cbn in Ip, Iq.
    destruct Ip as [<-|[<-|[<-|[]]]], Iq as [<-|[<-|[<-|[]]]]; apply K; cbn; tauto.
Qed.
