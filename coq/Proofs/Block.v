From Coq Require Import List NArith ZArith Lia Bool ZifyN ZifyBool ZifyNat.
From Coq.Strings Require Import Byte.
From EV Require Import Base.Bytes Base.Codec Model.Tx Model.Block Proofs.Flags Proofs.Tx.
Import ListNotations.
Ltac Zify.zify_post_hook ::= Z.div_mod_to_equations.
Open Scope N_scope.
Set Default Timeout 30.

Lemma Some_inj {A} (x y : A) : Some x = Some y -> x = y. Proof. intros H; injection H; auto. Qed.
Lemma c_reject_lawful {A} : Lawful (@c_reject A).
Proof. split; red; cbn; intros; discriminate. Qed.

Section BLOCK.
Variable pt_ok : bytes -> bool.
Variable maxvec : N.
Variables cap_txin cap_txout cap_vecu8 cap_tx : N.

Lemma c_fullparams_lawful : Lawful (c_fullparams maxvec cap_vecu8).
Proof. apply c_conv_lawful.
  - repeat apply c_pair_lawful; try apply c_script_lawful; try apply c_le_lawful; apply c_stack_lawful.
  - intros [a [l [p [s e]]]] b _ T. inversion T; subst. split; reflexivity.
  - intros [a l p s e] _ _. reflexivity. Qed.
Lemma c_params_body_lawful tag : Lawful (c_params_body maxvec cap_vecu8 tag).
Proof. unfold c_params_body. destruct (tag =? 0); [|destruct (tag =? 1); [|destruct (tag =? 2); [|apply c_reject_lawful]]].
  - apply c_conv_lawful; [apply c_unit_lawful| |].
    + intros [] b _ T. inversion T; subst. split; reflexivity.
    + intros [| |] H _; try discriminate. reflexivity.
  - apply c_conv_lawful.
    + apply c_pair_lawful; [apply c_script_lawful|]. apply c_pair_lawful; [apply c_le_lawful|apply c_fixed_lawful].
    + intros [s [l e]] b _ T. inversion T; subst. split; reflexivity.
    + intros [| |] H _; try discriminate. reflexivity.
  - apply c_conv_lawful; [apply c_fullparams_lawful| |].
    + intros f b _ T. inversion T; subst. split; reflexivity.
    + intros [| |] H _; try discriminate. reflexivity. Qed.
Lemma c_params_lawful : Lawful (c_params maxvec cap_vecu8).
Proof. apply c_conv_lawful; [apply c_dep_lawful; [apply c_u8_lawful|apply c_params_body_lawful]| |].
  - intros [tag p] b W T. inversion T; subst b. split; [|reflexivity].
    cbn [c_dep wf] in W. apply andb_true_iff in W as [_ W]. unfold c_params_body in W.
    destruct (N.eqb_spec tag 0) as [->|]. { cbn [c_conv wf] in W. apply andb_true_iff in W as [W _]. destruct p; try discriminate. reflexivity. }
    destruct (N.eqb_spec tag 1) as [->|]. { cbn [c_conv wf] in W. apply andb_true_iff in W as [W _]. destruct p; try discriminate. reflexivity. }
    destruct (N.eqb_spec tag 2) as [->|]. { cbn [c_conv wf] in W. apply andb_true_iff in W as [W _]. destruct p; try discriminate. reflexivity. }
    discriminate.
  - intros p _ _. reflexivity. Qed.

Lemma c_ext_proof_lawful : Lawful (c_ext_proof maxvec).
Proof. apply c_conv_lawful; [apply c_pair_lawful; apply c_script_lawful| |].
  - intros [c s] b _ T. inversion T; subst. split; reflexivity.
  - intros [c s|c p w] H _; try discriminate. reflexivity. Qed.
Lemma c_ext_dynafed_lawful : Lawful (c_ext_dynafed maxvec cap_vecu8).
Proof. apply c_conv_lawful.
  - apply c_pair_lawful; [apply c_params_lawful|]. apply c_pair_lawful; [apply c_params_lawful|apply c_stack_lawful].
  - intros [c [p w]] b _ T. inversion T; subst. split; reflexivity.
  - intros [c s|c p w] H _; try discriminate. reflexivity. Qed.

Lemma shiftr31 w : w < 2 ^ 32 -> (N.shiftr w 31 =? 1) = (2147483648 <=? w).
Proof. intros H. rewrite N.shiftr_div_pow2. change (2 ^ 31) with 2147483648. change (2 ^ 32) with 4294967296 in H.
  apply eq_true_iff_eq. rewrite N.eqb_eq, N.leb_le. lia. Qed.
Lemma land31 w : N.land w 2147483647 = w mod 2147483648.
Proof. change 2147483647 with (N.ones 31). rewrite N.land_ones. reflexivity. Qed.
Lemma lor31 v : v < 2147483648 -> N.lor v 2147483648 = v + 2147483648.
Proof. intros H. apply lor_disjoint_add. change 2147483648 with (2 ^ 31). now apply land_pow2_small. Qed.

Lemma c_header_wire_lawful : Lawful (c_header_wire maxvec cap_vecu8).
Proof. apply c_dep_lawful.
  - unfold c_header_head. repeat apply c_pair_lawful; try apply c_le_lawful; apply c_fixed_lawful.
  - intros h. destruct (wire_is_dyna (fst h)); [apply c_ext_dynafed_lawful|apply c_ext_proof_lawful]. Qed.
Theorem c_header_lawful : Lawful (c_header maxvec cap_vecu8).
Proof. apply c_conv_lawful; [apply c_header_wire_lawful| |].
  - intros [[wv [p [m [t h]]]] e] b W T. cbv beta iota delta [header_of_wire] in T. apply Some_inj in T. subst b.
    cbn [c_header_wire c_dep wf fst] in W. apply andb_true_iff in W as [Wh We].
    cbn [c_header_head c_pair wf] in Wh. apply andb_true_iff in Wh as [Wv _]. apply u32_wf_lt in Wv.
    unfold wire_of_header, wire_version. cbn [h_version h_prev h_merkle h_time h_height h_ext].
    unfold wire_is_dyna in *. rewrite shiftr31 in * by assumption. unfold bit31. change (2 ^ 32) with 4294967296 in Wv.
    destruct (N.leb_spec 2147483648 wv) as [D|D].
    + cbn [c_ext_dynafed c_conv wf] in We. apply andb_true_iff in We as [We _]. destruct e as [c s|c pr w]; [discriminate|]. cbn [ext_is_dynafed].
      rewrite land31. assert (Hm : wv mod 2147483648 < 2147483648) by (apply N.mod_upper_bound; lia). rewrite lor31 by exact Hm.
      split; [|apply N.ltb_lt; exact Hm]. repeat f_equal. lia.
    + cbn [c_ext_proof c_conv wf] in We. apply andb_true_iff in We as [We _]. destruct e as [c s|c pr w]; [|discriminate]. cbn [ext_is_dynafed].
      split; [reflexivity|apply N.ltb_lt; exact D].
  - intros [v p m t h e] Wb _. cbn [h_version] in Wb. apply N.ltb_lt in Wb. unfold bit31 in Wb.
    unfold wire_of_header, header_of_wire, wire_version. cbn [h_version h_prev h_merkle h_time h_height h_ext].
    destruct e as [c s|c pr w]; cbn [ext_is_dynafed]; unfold wire_is_dyna, bit31.
    + rewrite shiftr31 by (change (2^32) with 4294967296; lia). destruct (N.leb_spec 2147483648 v); [lia|reflexivity].
    + rewrite lor31 by exact Wb. rewrite shiftr31 by (change (2^32) with 4294967296; lia).
      destruct (N.leb_spec 2147483648 (v + 2147483648)); [|lia]. rewrite land31. repeat f_equal. lia. Qed.

Theorem c_block_lawful : Lawful (c_block pt_ok maxvec cap_txin cap_txout cap_vecu8 cap_tx).
Proof. apply c_conv_lawful.
  - apply c_pair_lawful; [apply c_header_lawful|apply c_vec_lawful, c_tx_lawful].
  - intros [h t] b _ T. inversion T; subst. split; reflexivity.
  - intros [h t] _ _. reflexivity. Qed.
End BLOCK.
