(* C13 — proofs: the cache invariant, evaluation of queries under the invariant, coherence of operation sequences,
   Prevouts::One versus All. *)
From Coq Require Import List Arith NArith Bool Lia.
From Coq.Strings Require Import Byte.
From EV Require Import Base.Bytes Base.Codec Gen.Tables Model.Tx Model.SighashImpl Model.SighashCache.
Import ListNotations.
Open Scope N_scope.
Set Default Timeout 60.

(* ---------- the split tables, evaluated on the regenerated definitions ---------- *)
Lemma schnorr_split_eq t : schnorr_split t =
  match t with SDefault => (SDefault, false) | SAll => (SAll, false) | SNone => (SNone, false) | SSingle => (SSingle, false)
             | SAllAcp => (SAll, true) | SNoneAcp => (SNone, true) | SSingleAcp => (SSingle, true) | SReserved => (SReserved, false) end.
Proof. destruct t; vm_compute; reflexivity. Qed.
Lemma ecdsa_split_eq t : ecdsa_split t =
  match t with EAll => (EAll, false) | ENone => (ENone, false) | ESingle => (ESingle, false)
             | EAllAcp => (EAll, true) | ENoneAcp => (ENone, true) | ESingleAcp => (ESingle, true) end.
Proof. destruct t; vm_compute; reflexivity. Qed.
Lemma schnorr_eqb_spec a b : schnorr_eqb a b = true <-> a = b.
Proof. split; [|intros ->; apply N.eqb_refl]. destruct a, b; vm_compute; congruence. Qed.
Lemma ecdsa_eqb_spec a b : ecdsa_eqb a b = true <-> a = b.
Proof. split; [|intros ->; apply N.eqb_refl]. destruct a, b; vm_compute; congruence. Qed.

Section PROOFS.
Variable pt_ok : bytes -> bool.
Variable maxvec : N.
Variable H : bytes -> bytes.
Variable Htag : bytes -> bytes.

Notation compute_common := (compute_common pt_ok maxvec H).
Notation compute_segwit := (compute_segwit H).
Notation compute_taproot := (compute_taproot pt_ok maxvec H).
Notation common_cache_get := (common_cache_get pt_ok maxvec H).
Notation segwit_cache_get := (segwit_cache_get pt_ok maxvec H).
Notation taproot_cache_get := (taproot_cache_get pt_ok maxvec H).
Notation taproot_encode := (taproot_encode pt_ok maxvec H).
Notation segwit_encode := (segwit_encode pt_ok maxvec H).
Notation legacy_encode := (legacy_encode pt_ok maxvec).
Notation query := (query pt_ok maxvec H Htag).
Notation step := (step pt_ok maxvec H Htag).
Notation run := (run pt_ok maxvec H Htag).
Notation fresh_answers := (fresh_answers pt_ok maxvec H Htag).

(* ---------- invariant: every filled cache holds the value recomputed from the transaction and the spent outputs ---------- *)
Definition Good (t : tx) (spent : list txout) (s : state) : Prop :=
  st_tx s = t /\
  (st_common s = None \/ st_common s = Some (compute_common t)) /\
  (st_segwit s = None \/ st_segwit s = Some (compute_segwit (compute_common t))) /\
  (st_taproot s = None \/ st_taproot s = Some (compute_taproot t spent)).
Lemma Good_init t spent : Good t spent (init t).
Proof. unfold Good, init; cbn. auto. Qed.

(* m, started in any state satisfying the invariant, answers r and re-establishes the invariant *)
Definition Ev (t : tx) (spent : list txout) {A} (m : M A) (r : sres A) : Prop :=
  forall s, Good t spent s -> exists s', m s = (s', r) /\ Good t spent s'.
Definition Det (t : tx) (spent : list txout) {A} (m : M A) : Prop := exists r, Ev t spent m r.

Section EV.
Variable t : tx.
Variable spent : list txout.
Notation Ev := (Ev t spent). Notation Det := (Det t spent). Notation Good := (Good t spent).

Lemma Ev_ret {A} (a : A) : Ev (ret a) (SOk a).
Proof. intros s G. exists s. auto. Qed.
Lemma Ev_lift {A} (r : sres A) : Ev (lift r) r.
Proof. intros s G. exists s. auto. Qed.
Lemma Ev_get_tx : Ev get_tx (SOk t).
Proof. intros s G. exists s. split; [|exact G]. unfold get_tx. destruct G as [-> _]. reflexivity. Qed.
Lemma Ev_bind_ok {A B} (m : M A) (k : A -> M B) a r : Ev m (SOk a) -> Ev (k a) r -> Ev (bind m k) r.
Proof. intros Hm Hk s G. destruct (Hm s G) as (s1 & E1 & G1). destruct (Hk s1 G1) as (s2 & E2 & G2).
  exists s2. split; [|exact G2]. unfold bind. now rewrite E1. Qed.
Lemma Ev_bind_err {A B} (m : M A) (k : A -> M B) e : Ev m (SErr e) -> Ev (bind m k) (SErr e).
Proof. intros Hm s G. destruct (Hm s G) as (s1 & E1 & G1). exists s1. split; [|exact G1]. unfold bind. now rewrite E1. Qed.
Lemma Ev_bind_panic {A B} (m : M A) (k : A -> M B) : Ev m SPanic -> Ev (bind m k) SPanic.
Proof. intros Hm s G. destruct (Hm s G) as (s1 & E1 & G1). exists s1. split; [|exact G1]. unfold bind. now rewrite E1. Qed.
Lemma Ev_fun {A} (m : M A) r r' : Ev m r -> Ev m r' -> r = r'.
Proof. intros E1 E2. destruct (E1 (init t) (Good_init t spent)) as (s1 & X1 & _). destruct (E2 (init t) (Good_init t spent)) as (s2 & X2 & _). congruence. Qed.
Lemma Ev_snd {A} (m : M A) r s : Ev m r -> Good s -> snd (m s) = r /\ Good (fst (m s)).
Proof. intros E G. destruct (E s G) as (s1 & X & G1). rewrite X. auto. Qed.

Lemma Ev_common : Ev common_cache_get (SOk (compute_common t)).
Proof. intros s (Et & Hc & Hs & Ht). unfold SighashImpl.common_cache_get. destruct Hc as [Hc|Hc]; rewrite Hc.
  - eexists. split; [rewrite Et; reflexivity|]. unfold Good; cbn. auto.
  - exists s. split; [reflexivity|]. unfold Good. auto. Qed.
Lemma Ev_taproot : Ev (taproot_cache_get spent) (SOk (compute_taproot t spent)).
Proof. intros s (Et & Hc & Hs & Ht). unfold SighashImpl.taproot_cache_get. destruct Ht as [Ht|Ht]; rewrite Ht.
  - eexists. split; [rewrite Et; reflexivity|]. unfold Good; cbn. auto.
  - exists s. split; [reflexivity|]. unfold Good. auto. Qed.
Lemma Ev_segwit : Ev segwit_cache_get (SOk (compute_segwit (compute_common t))).
Proof. intros s G. pose proof G as (Et & Hc & Hs & Ht). unfold SighashImpl.segwit_cache_get. destruct Hs as [Hs|Hs]; rewrite Hs.
  - destruct (Ev_common s G) as (s1 & E1 & (Et1 & Hc1 & Hs1 & Ht1)). rewrite E1. eexists. split; [reflexivity|]. unfold Good; cbn. auto.
  - exists s. split; [reflexivity|exact G]. Qed.

Lemma Det_ret {A} (a : A) : Det (ret a). Proof. eexists. apply Ev_ret. Qed.
Lemma Det_lift {A} (r : sres A) : Det (lift r). Proof. eexists. apply Ev_lift. Qed.
Lemma Det_bind_ev {A B} (m : M A) (k : A -> M B) r : Ev m r -> (forall a, r = SOk a -> Det (k a)) -> Det (bind m k).
Proof. intros Hm Hk. destruct r as [a|e|].
  - destruct (Hk a eq_refl) as [r' Hr']. exists r'. eapply Ev_bind_ok; eauto.
  - exists (SErr e). now apply Ev_bind_err.
  - exists SPanic. now apply Ev_bind_panic. Qed.
Lemma Det_bind {A B} (m : M A) (k : A -> M B) : Det m -> (forall a, Det (k a)) -> Det (bind m k).
Proof. intros [r Hm] Hk. eapply Det_bind_ev; eauto. Qed.
Lemma Det_bind_tx {B} (k : tx -> M B) : Det (k t) -> Det (bind get_tx k).
Proof. intros Hk. eapply Det_bind_ev; [apply Ev_get_tx|]. intros a E. inversion E; subst. exact Hk. Qed.
Lemma Det_bind_lift {A B} (r : sres A) (k : A -> M B) : (forall a, r = SOk a -> Det (k a)) -> Det (bind (lift r) k).
Proof. intros Hk. eapply Det_bind_ev; [apply Ev_lift|exact Hk]. Qed.
Lemma Det_bind_common {B} (k : common_cache -> M B) : Det (k (compute_common t)) -> Det (bind common_cache_get k).
Proof. intros Hk. eapply Det_bind_ev; [apply Ev_common|]. intros a E. inversion E; subst. exact Hk. Qed.
Lemma Det_bind_segwit {B} (k : segwit_cache -> M B) : Det (k (compute_segwit (compute_common t))) -> Det (bind segwit_cache_get k).
Proof. intros Hk. eapply Det_bind_ev; [apply Ev_segwit|]. intros a E. inversion E; subst. exact Hk. Qed.
Lemma Det_bind_taproot {B} (k : taproot_cache -> M B) : Det (k (compute_taproot t spent)) -> Det (bind (taproot_cache_get spent) k).
Proof. intros Hk. eapply Det_bind_ev; [apply Ev_taproot|]. intros a E. inversion E; subst. exact Hk. Qed.
Lemma Det_mapM {A B} (f : A -> B) (m : M A) : Det m -> Det (mapM f m).
Proof. intros D. unfold mapM. apply Det_bind; [exact D|]. intros. apply Det_ret. Qed.

Definition pv_consistent (pv : prevouts) : Prop := match pv with PAll l => l = spent | POne _ _ => True end.
Lemma get_all_consistent pv ps : pv_consistent pv -> get_all pv = SOk ps -> ps = spent.
Proof. destruct pv; cbn; intros C E; inversion E; subst; auto. Qed.

Ltac det_step :=
  match goal with
  | |- Det (ret _) => apply Det_ret
  | |- Det (bind get_tx _) => apply Det_bind_tx
  | |- Det (bind (lift _) _) => apply Det_bind_lift; let a := fresh "a" in let E := fresh "E" in intros a E
  | |- Det (bind common_cache_get _) => apply Det_bind_common
  | |- Det (bind segwit_cache_get _) => apply Det_bind_segwit
  | |- Det (bind (taproot_cache_get spent) _) => apply Det_bind_taproot
  | |- Det (bind (if ?b then _ else _) _) => apply Det_bind; [destruct b|let w := fresh "w" in intros w]
  | |- Det (if ?b then _ else _) => destruct b
  | |- Det (let '(_, _) := ?x in _) => destruct x
  | |- Det (match ?x with Some _ => _ | None => _ end) => destruct x
  end.

Lemma taproot_encode_det idx pv annex leaf ty g : pv_consistent pv -> Det (taproot_encode idx pv annex leaf ty g).
Proof. intros C. unfold SighashImpl.taproot_encode.
  apply Det_bind_tx. apply Det_bind_lift; intros [] _. destruct (schnorr_split ty) as [sighash acp].
  apply Det_bind.
  { destruct (negb acp); [|apply Det_ret].
    apply Det_bind_lift; intros ps E. apply (get_all_consistent _ _ C) in E. subst ps.
    repeat first [ det_step | (apply (get_all_consistent _ _ C) in E; subst) ]. }
  intros w1. apply Det_bind.
  { match goal with |- Det (if ?b then _ else _) => destruct b end; [|apply Det_ret]. repeat det_step. }
  intros w2. apply Det_bind.
  { destruct acp; [|apply Det_ret]. repeat det_step. }
  intros w3. apply Det_bind.
  { match goal with |- Det (if ?b then _ else _) => destruct b end; [|apply Det_ret]. repeat det_step. }
  intros w4. apply Det_ret. Qed.

Lemma segwit_encode_det idx sc v ty : Det (segwit_encode idx sc v ty).
Proof. unfold SighashImpl.segwit_encode. apply Det_bind_tx. destruct (ecdsa_split ty) as [sighash acp].
  repeat det_step. Qed.
Lemma legacy_encode_det idx sc ty : Det (legacy_encode idx sc ty).
Proof. unfold SighashImpl.legacy_encode. apply Det_bind_tx. apply Det_lift. Qed.
Lemma legacy_sighash_det idx sc ty : Det (legacy_sighash pt_ok maxvec H idx sc ty).
Proof. unfold SighashImpl.legacy_sighash. apply Det_bind_tx. destruct (ecdsa_split ty) as [sighash acp].
  match goal with |- Det (if ?b then _ else _) => destruct b end; [apply Det_ret|apply Det_mapM, legacy_encode_det]. Qed.

Lemma query_det o : consistent_prevouts spent o -> Det (query o).
Proof. destruct o; unfold consistent_prevouts; cbn [op_prevouts SighashCache.query]; intros C.
  - apply legacy_sighash_det.
  - apply Det_mapM, segwit_encode_det.
  - apply Det_bind_lift; intros a' _. apply Det_mapM, taproot_encode_det. destruct pv; auto.
  - apply Det_mapM, taproot_encode_det. destruct pv; auto.
  - apply Det_mapM, taproot_encode_det. destruct pv; auto.
  - apply Det_ret. Qed.
End EV.

(* ---------- none of the cached hashes reads script_witness ---------- *)
Lemma flat_map_update_nth {A B} (g : A -> list B) (f : A -> A) : (forall a, g (f a) = g a) -> forall l n, flat_map g (update_nth n f l) = flat_map g l.
Proof. intros E. induction l as [|a l IH]; intros [|n]; cbn; try reflexivity; [now rewrite E|now rewrite IH]. Qed.
Lemma map_update_nth {A B} (g : A -> B) (f : A -> A) : (forall a, g (f a) = g a) -> forall l n, map g (update_nth n f l) = map g l.
Proof. intros E. induction l as [|a l IH]; intros [|n]; cbn; try reflexivity; [now rewrite E|now rewrite IH]. Qed.
Lemma update_nth_length {A} (f : A -> A) : forall l n, length (update_nth n f l) = length l.
Proof. induction l as [|a l IH]; intros [|n]; cbn; auto. Qed.
Lemma compute_common_witness t i w : compute_common (set_script_witness t i w) = compute_common t.
Proof. unfold SighashImpl.compute_common, set_script_witness; cbn [tx_in tx_out]. f_equal; f_equal; try reflexivity; apply flat_map_update_nth; reflexivity. Qed.
Lemma compute_taproot_witness t spent i w : compute_taproot (set_script_witness t i w) spent = compute_taproot t spent.
Proof. unfold SighashImpl.compute_taproot, set_script_witness; cbn [tx_in tx_out]. f_equal; f_equal;
  first [apply flat_map_update_nth | apply map_update_nth]; reflexivity. Qed.
Lemma Good_witness_mut t spent s i w : Good t spent s -> Good (set_script_witness t i w) spent (fst (witness_mut i w s)).
Proof. intros (Et & Hc & Hs & Ht). unfold Good, witness_mut; cbn. rewrite compute_common_witness, compute_taproot_witness, Et. auto. Qed.

(* ---------- coherence ---------- *)
Lemma step_good t spent s o : Good t spent s -> consistent_prevouts spent o ->
  snd (step s o) = snd (step (init t) o) /\ Good (apply_wit t o) spent (fst (step s o)).
Proof. intros G C. pose proof G as (Et & _).
  assert (Q : forall o', consistent_prevouts spent o' -> (let (s', r) := query o' s in (s', RHash r)) = (fst (query o' s), RHash (snd (query o' s))))
    by (intros; destruct (query o' s); reflexivity).
  assert (Q0 : forall o', (let (s', r) := query o' (init t) in (s', RHash r)) = (fst (query o' (init t)), RHash (snd (query o' (init t)))))
    by (intros; destruct (query o' (init t)); reflexivity).
  destruct o; unfold SighashCache.step;
    try (rewrite Q, Q0 by exact C; cbn [fst snd apply_wit];
         destruct (query_det t spent _ C) as [r E];
         destruct (Ev_snd t spent _ r s E G) as [-> G'];
         destruct (Ev_snd t spent _ r (init t) E (Good_init t spent)) as [-> _]; auto).
  cbn [apply_wit]. unfold witness_mut at 1 2; cbn [fst snd]. split.
  - unfold init; cbn. now rewrite Et.
  - apply (Good_witness_mut t spent s i w G). Qed.

Theorem run_coherent_from spent : forall ops t s, Good t spent s -> Forall (consistent_prevouts spent) ops -> run s ops = fresh_answers t ops.
Proof. induction ops as [|o ops IH]; intros t s G F; cbn [SighashCache.run SighashCache.fresh_answers]; [reflexivity|].
  inversion F as [|? ? C F']; subst. destruct (step_good t spent s o G C) as [E G'].
  destruct (step s o) as [s' x] eqn:S. cbn [fst snd] in *. rewrite E. f_equal. apply IH; assumption. Qed.
Theorem run_coherent spent t ops : Forall (consistent_prevouts spent) ops -> run (init t) ops = fresh_answers t ops.
Proof. apply run_coherent_from, Good_init. Qed.

(* the invariant along any operation sequence *)
Fixpoint final_state (s : state) (ops : list op) : state := match ops with [] => s | o :: r => final_state (fst (step s o)) r end.
Theorem invariant_preserved spent : forall ops t s, Good t spent s -> Forall (consistent_prevouts spent) ops ->
  Good (fold_left apply_wit ops t) spent (final_state s ops).
Proof. induction ops as [|o ops IH]; intros t s G F; cbn [final_state fold_left]; [exact G|].
  inversion F as [|? ? C F']; subst. apply IH; [|exact F']. apply (step_good t spent s o G C). Qed.

(* ---------- Prevouts::One versus Prevouts::All ---------- *)
Lemma bind_get_tx {B} (k : tx -> M B) s : bind get_tx k s = k (st_tx s) s.
Proof. reflexivity. Qed.
Lemma bind_lift {A B} (r : sres A) (k : A -> M B) s :
  bind (lift r) k s = match r with SOk a => k a s | SErr e => (s, SErr e) | SPanic => (s, SPanic) end.
Proof. reflexivity. Qed.

Theorem acp_one_eq_all s spent idx o annex leaf ty g :
  schnorr_acp ty = true ->
  length spent = length (tx_in (st_tx s)) -> nth_error spent idx = Some o ->
  taproot_encode idx (POne idx o) annex leaf ty g s = taproot_encode idx (PAll spent) annex leaf ty g s.
Proof. intros A L N.
  assert (P1 : pv_get (POne idx o) idx = SOk o) by (cbn; now rewrite Nat.eqb_refl).
  assert (P2 : pv_get (PAll spent) idx = SOk o) by (cbn; now rewrite N).
  unfold SighashImpl.taproot_encode. rewrite !bind_get_tx, !bind_lift. cbn [check_all]. rewrite L, Nat.eqb_refl.
  rewrite P1, P2. unfold schnorr_acp in A. rewrite schnorr_split_eq in A.
  destruct ty; cbn in A; try discriminate A; rewrite schnorr_split_eq; reflexivity. Qed.

Theorem need_all s idx j o annex leaf ty g : schnorr_acp ty = false ->
  snd (taproot_encode idx (POne j o) annex leaf ty g s) = SErr PrevoutKind.
Proof. intros A. unfold SighashImpl.taproot_encode. rewrite !bind_get_tx, !bind_lift. cbn [check_all].
  unfold schnorr_acp in A. rewrite schnorr_split_eq in *. destruct ty; cbn in A; try discriminate A; reflexivity. Qed.

End PROOFS.
