(* Proofs about the checksum engine of Model/Bech32.v: GF(2)-linearity of the step, the syndrome formula, and how a
   kernel-evaluated table sweep yields "no one- or two-symbol error maps a codeword to a codeword". *)
From Coq Require Import List NArith ZArith Bool Lia ZifyN ZifyBool ZifyNat Sorting.Mergesort Sorting.Sorted Sorting.Permutation Orders RelationClasses.
From Coq.Strings Require Import Byte.
From EV Require Import Base.Bytes Model.Bech32.
Ltac Zify.zify_post_hook ::= Z.div_mod_to_equations.
Import ListNotations.
Open Scope N_scope.

(* ---------------------------------------------------------------- bit-level linearity (promoted from recon/sketches/Lin.v) *)
Lemma sel_xorb a b g : sel (xorb a b) g = N.lxor (sel a g) (sel b g).
Proof. destruct a, b; cbn; now rewrite ?N.lxor_nilpotent, ?N.lxor_0_l, ?N.lxor_0_r. Qed.
Lemma lxor_swap4 a b c d : N.lxor (N.lxor a b) (N.lxor c d) = N.lxor (N.lxor a c) (N.lxor b d).
Proof. rewrite !N.lxor_assoc. f_equal. rewrite <- !N.lxor_assoc. f_equal. apply N.lxor_comm. Qed.
Lemma mix_lin gen : forall i t t', mix (N.lxor t t') i gen = N.lxor (mix t i gen) (mix t' i gen).
Proof. induction gen as [|g r IH]; intros i t t'; cbn [mix]. { now rewrite N.lxor_0_l. }
  rewrite N.lxor_spec, sel_xorb, IH. apply lxor_swap4. Qed.
Lemma mix_0 gen : forall i, mix 0 i gen = 0.
Proof. induction gen as [|g r IH]; intros i; cbn [mix]; [reflexivity|]. rewrite N.bits_0, IH. reflexivity. Qed.
Lemma land_lxor_l a b m : N.land (N.lxor a b) m = N.lxor (N.land a m) (N.land b m).
Proof. apply N.bits_inj; intros n. rewrite !N.land_spec, !N.lxor_spec, !N.land_spec.
  destruct (N.testbit a n), (N.testbit b n), (N.testbit m n); reflexivity. Qed.
Lemma lt_pow2_iff v k : v <> 0 -> (v < 2 ^ k <-> N.log2 v < k).
Proof. intros NZ. apply N.log2_lt_pow2. lia. Qed.
Lemma lt_pow2_bits v k : v < 2 ^ k -> forall n, k <= n -> N.testbit v n = false.
Proof. intros Hv n Hn. destruct (N.eq_dec v 0) as [->|NZ]; [apply N.bits_0|].
  apply N.bits_above_log2. apply lt_pow2_iff in Hv; [lia|assumption]. Qed.
Lemma bits_lt_pow2 v k : (forall n, k <= n -> N.testbit v n = false) -> v < 2 ^ k.
Proof. intros H. destruct (N.eq_dec v 0) as [->|NZ]. { apply N.neq_0_lt_0, N.pow_nonzero. lia. }
  apply lt_pow2_iff; [assumption|]. destruct (N.lt_ge_cases (N.log2 v) k) as [L|L]; [assumption|].
  specialize (H _ L). rewrite N.bit_log2 in H by assumption. discriminate. Qed.
Lemma lxor_lt_pow2 a b k : a < 2 ^ k -> b < 2 ^ k -> N.lxor a b < 2 ^ k.
Proof. intros Ha Hb. apply bits_lt_pow2. intros n Hn. now rewrite N.lxor_spec, (lt_pow2_bits a k), (lt_pow2_bits b k). Qed.
Lemma lor_lt_pow2 a b k : a < 2 ^ k -> b < 2 ^ k -> N.lor a b < 2 ^ k.
Proof. intros Ha Hb. apply bits_lt_pow2. intros n Hn. now rewrite N.lor_spec, (lt_pow2_bits a k), (lt_pow2_bits b k). Qed.
Lemma lxor_lt32 a b : a < 32 -> b < 32 -> N.lxor a b < 32.
Proof. change 32 with (2 ^ 5). apply lxor_lt_pow2. Qed.
Lemma lor_low_is_lxor x v : v < 32 -> N.lor (N.shiftl x 5) v = N.lxor (N.shiftl x 5) v.
Proof. intros Hv. symmetry. apply N.lxor_lor. apply N.bits_inj; intros n. rewrite N.land_spec, N.bits_0.
  destruct (N.lt_ge_cases n 5) as [H|H].
  - rewrite N.shiftl_spec_low by assumption. reflexivity.
  - change 32 with (2 ^ 5) in Hv. rewrite (lt_pow2_bits v 5 Hv n H). apply andb_false_r. Qed.

Theorem step_linear gen sh s s' v v' : v < 32 -> v' < 32 ->
  step gen sh (N.lxor s s') (N.lxor v v') = N.lxor (step gen sh s v) (step gen sh s' v').
Proof. intros Hv Hv'. unfold step. pose proof (lxor_lt32 _ _ Hv Hv') as Hvv.
  rewrite !lor_low_is_lxor by assumption.
  rewrite N.shiftr_lxor, !land_lxor_l, N.shiftl_lxor, mix_lin.
  set (A := N.shiftl (N.land s (N.ones sh)) 5). set (B := N.shiftl (N.land s' (N.ones sh)) 5).
  set (M := mix _ 0 gen). set (M' := mix _ 0 gen).
  rewrite (lxor_swap4 A B v v'). apply lxor_swap4. Qed.

Lemma step_0_v gen sh v : step gen sh 0 v = v.
Proof. unfold step. rewrite N.shiftr_0_l, N.land_0_l, mix_0, N.shiftl_0_l, N.lor_0_l, N.lxor_0_r. reflexivity. Qed.

Section Engine.
Variable gen : list N. Variable sh : N.
Notation step := (step gen sh).
Definition feedg (s : N) (w : list N) : N := fold_left step w s.
(* "feed a zero" *)
Definition Zs (s : N) : N := step s 0.
Fixpoint Zp (n : nat) (s : N) : N := match n with O => s | S k => Zp k (Zs s) end.

Lemma step_split s v : v < 32 -> step s v = N.lxor (Zs s) v.
Proof. intros Hv. unfold Zs. rewrite <- (N.lxor_0_r s) at 1. rewrite <- (N.lxor_0_l v) at 1.
  rewrite step_linear by lia. now rewrite step_0_v. Qed.
Lemma Zs_lin a b : Zs (N.lxor a b) = N.lxor (Zs a) (Zs b).
Proof. unfold Zs. rewrite <- (N.lxor_0_r 0) at 1. apply step_linear; lia. Qed.
Lemma Zs_0 : Zs 0 = 0. Proof. apply step_0_v. Qed.
Lemma Zp_lin n : forall a b, Zp n (N.lxor a b) = N.lxor (Zp n a) (Zp n b).
Proof. induction n as [|n IH]; intros a b; cbn [Zp]; [reflexivity|]. now rewrite Zs_lin, IH. Qed.
Lemma Zp_0 n : Zp n 0 = 0.
Proof. induction n as [|n IH]; cbn [Zp]; [reflexivity|]. now rewrite Zs_0. Qed.
Lemma Zp_succ_r n : forall s, Zp (S n) s = Zs (Zp n s).
Proof. induction n as [|n IH]; intros s; [reflexivity|]. cbn [Zp] in *. now rewrite IH. Qed.

Definition sym (v : N) : Prop := v < 32.
Definition syms (w : list N) : Prop := Forall sym w.

(* position-wise xor of two words *)
Fixpoint xorl (a b : list N) : list N :=
  match a, b with x :: a', y :: b' => N.lxor x y :: xorl a' b' | _, _ => [] end.
Lemma xorl_length a : forall b, length a = length b -> length (xorl a b) = length a.
Proof. induction a as [|x a IH]; intros [|y b] L; cbn in *; try lia. now rewrite IH by lia. Qed.
Lemma xorl_syms a : forall b, syms a -> syms b -> syms (xorl a b).
Proof. induction a as [|x a IH]; intros [|y b] Ha Hb; cbn [xorl]; try constructor.
  - inversion Ha; inversion Hb; subst. now apply lxor_lt32.
  - inversion Ha; inversion Hb; subst. now apply IH. Qed.
Lemma xorl_invol a : forall b, length a = length b -> xorl a (xorl a b) = b.
Proof. induction a as [|x a IH]; intros [|y b] L; cbn in *; try lia; [reflexivity|].
  rewrite IH by lia. f_equal. now rewrite <- N.lxor_assoc, N.lxor_nilpotent, N.lxor_0_l. Qed.

(* C17_linear, lifted to words *)
Lemma feed_linear w : forall w' s s', length w = length w' -> syms w -> syms w' ->
  feedg (N.lxor s s') (xorl w w') = N.lxor (feedg s w) (feedg s' w').
Proof. induction w as [|x w IH]; intros [|y w'] s s' L Hw Hw'; cbn in L; try lia; [reflexivity|].
  inversion Hw; inversion Hw'; subst. cbn [xorl feedg fold_left]. rewrite step_linear by assumption.
  apply IH; [lia|assumption|assumption]. Qed.

(* the syndrome of an error word: sum over positions of Z^(distance from the end) of the error value *)
Fixpoint syn (e : list N) : N := match e with [] => 0 | x :: r => N.lxor (Zp (length r) x) (syn r) end.
Lemma feed_split r : forall s, syms r -> feedg s r = N.lxor (Zp (length r) s) (feedg 0 r).
Proof. induction r as [|x r IH]; intros s Hr; cbn [feedg fold_left length Zp].
  - now rewrite N.lxor_0_r.
  - inversion Hr; subst. fold (feedg (step s x) r). fold (feedg (step 0 x) r).
    rewrite (IH (step s x)) by assumption. rewrite (IH (step 0 x)) by assumption.
    rewrite step_0_v, step_split by assumption. rewrite Zp_lin.
    rewrite !N.lxor_assoc. reflexivity. Qed.
Lemma feed0_syn e : syms e -> feedg 0 e = syn e.
Proof. induction e as [|x r IH]; intros He; [reflexivity|]. inversion He; subst.
  cbn [feedg fold_left syn]. fold (feedg (step 0 x) r). rewrite step_0_v, feed_split by assumption. now rewrite IH. Qed.

(* C17_syndrome *)
Theorem feed_syndrome s w e : length w = length e -> syms w -> syms e ->
  feedg s (xorl w e) = N.lxor (feedg s w) (syn e).
Proof. intros L Hw He. rewrite <- (N.lxor_0_r s) at 1. rewrite feed_linear by assumption. now rewrite feed0_syn. Qed.

(* number of non-zero entries; Hamming distance *)
Definition nz (x : N) : bool := negb (x =? 0).
Definition weight (e : list N) : nat := length (filter nz e).
Fixpoint hamming (a b : list N) : nat :=
  match a, b with x :: a', y :: b' => ((if N.eqb x y then 0 else 1) + hamming a' b')%nat | _, _ => 0%nat end.
Lemma weight_xorl a : forall b, weight (xorl a b) = hamming a b.
Proof. induction a as [|x a IH]; intros [|y b]; cbn [xorl hamming]; try reflexivity.
  unfold weight in *. cbn [filter]. unfold nz at 1. destruct (N.eqb_spec x y) as [->|NE].
  - rewrite N.lxor_nilpotent. cbn. apply IH.
  - destruct (N.eqb_spec (N.lxor x y) 0) as [E|_]; [apply N.lxor_eq in E; contradiction|]. cbn. now rewrite IH. Qed.

Lemma syn_weight0 e : weight e = 0%nat -> syn e = 0.
Proof. induction e as [|x r IH]; intros W; [reflexivity|]. unfold weight in *. cbn [filter syn] in *.
  unfold nz at 1 in W. destruct (N.eqb_spec x 0) as [->|NE]; cbn in W; [|discriminate].
  now rewrite Zp_0, IH. Qed.
Lemma syn_weight1 e : syms e -> weight e = 1%nat ->
  exists a u, (a < length e)%nat /\ 0 < u < 32 /\ syn e = Zp a u.
Proof. induction e as [|x r IH]; intros He W; [discriminate|]. inversion He as [|? ? Hx Hr]; subst.
  unfold weight in *. cbn [filter syn length] in *. unfold nz at 1 in W. destruct (N.eqb_spec x 0) as [->|NE]; cbn in W.
  - destruct (IH Hr W) as (a & u & La & Hu & E). exists a, u. repeat split; try lia. now rewrite Zp_0, N.lxor_0_l.
  - exists (length r), x. unfold sym in Hx. repeat split; try lia. rewrite (syn_weight0 r) by (unfold weight; lia). now rewrite N.lxor_0_r. Qed.
Lemma syn_weight2 e : syms e -> weight e = 2%nat ->
  exists a b u v, (a < b)%nat /\ (b < length e)%nat /\ 0 < u < 32 /\ 0 < v < 32 /\ syn e = N.lxor (Zp b v) (Zp a u).
Proof. induction e as [|x r IH]; intros He W; [discriminate|]. inversion He as [|? ? Hx Hr]; subst.
  unfold weight in *. cbn [filter syn length] in *. unfold nz at 1 in W. destruct (N.eqb_spec x 0) as [->|NE]; cbn in W.
  - destruct (IH Hr W) as (a & b & u & v & Lab & Lb & Hu & Hv & E). exists a, b, u, v. repeat split; try lia.
    now rewrite Zp_0, N.lxor_0_l.
  - destruct (syn_weight1 r Hr) as (a & u & La & Hu & E); [unfold weight; lia|].
    exists a, (length r), u, x. unfold sym in Hx. repeat split; try lia. now rewrite E. Qed.

(* ---------------------------------------------------------------- the kernel table *)
Fixpoint orbit (n : nat) (s : N) : list N := match n with O => [] | S k => s :: orbit k (Zs s) end.
Definition table (L : nat) : list N := flat_map (fun u => orbit L (N.of_nat u)) (seq 1 31).

Lemma orbit_map n : forall s, orbit n s = map (fun a => Zp a s) (seq 0 n).
Proof. induction n as [|n IH]; intros s; [reflexivity|]. cbn [orbit seq map Zp]. f_equal.
  rewrite IH, <- seq_shift, map_map. reflexivity. Qed.
Lemma in_table L a u : (a < L)%nat -> 0 < u < 32 -> In (Zp a u) (table L).
Proof. intros La Hu. unfold table. apply in_flat_map. exists (N.to_nat u). split.
  - apply in_seq. lia.
  - rewrite Nnat.N2Nat.id, orbit_map. apply in_map_iff. exists a. split; [reflexivity|]. apply in_seq. lia. Qed.
End Engine.

(* generic list facts *)
Lemma NoDup_app_disj {A} (l1 l2 : list A) x : NoDup (l1 ++ l2) -> In x l1 -> In x l2 -> False.
Proof. induction l1 as [|y l1 IH]; intros ND H1 H2; [contradiction|]. cbn in ND. inversion ND as [|? ? NI ND']; subst.
  destruct H1 as [->|H1]; [apply NI, in_or_app; now right|]. now apply IH. Qed.
Lemma NoDup_app_l {A} (l1 l2 : list A) : NoDup (l1 ++ l2) -> NoDup l1.
Proof. induction l1 as [|y l1 IH]; intros ND; [constructor|]. cbn in ND. inversion ND as [|? ? NI ND']; subst.
  constructor; [intro H; apply NI, in_or_app; now left|now apply IH]. Qed.
Lemma NoDup_app_r {A} (l1 l2 : list A) : NoDup (l1 ++ l2) -> NoDup l2.
Proof. induction l1 as [|y l1 IH]; intros ND; [assumption|]. cbn in ND. inversion ND; subst. now apply IH. Qed.
Lemma NoDup_map_inj {A B} (f : A -> B) l : NoDup (map f l) -> forall a b, In a l -> In b l -> f a = f b -> a = b.
Proof. induction l as [|x l IH]; intros ND a b Ha Hb E; [contradiction|]. cbn in ND. inversion ND as [|? ? NI ND']; subst.
  destruct Ha as [->|Ha], Hb as [->|Hb]; try reflexivity.
  - exfalso. apply NI. rewrite E. now apply in_map.
  - exfalso. apply NI. rewrite <- E. now apply in_map.
  - now apply IH. Qed.
Lemma NoDup_flat_map_inj {A B} (g : A -> list B) l : NoDup (flat_map g l) ->
  forall x y b, In x l -> In y l -> In b (g x) -> In b (g y) -> x = y.
Proof. induction l as [|z l IH]; intros ND x y b Hx Hy Bx By; [contradiction|]. cbn in ND.
  destruct Hx as [->|Hx], Hy as [->|Hy]; try reflexivity.
  - exfalso. apply (NoDup_app_disj _ _ b ND Bx). apply in_flat_map. now exists y.
  - exfalso. apply (NoDup_app_disj _ _ b ND By). apply in_flat_map. now exists x.
  - apply (IH (NoDup_app_r _ _ ND) x y b); assumption. Qed.
Lemma NoDup_flat_map_part {A B} (g : A -> list B) l x : NoDup (flat_map g l) -> In x l -> NoDup (g x).
Proof. induction l as [|z l IH]; intros ND Hx; [contradiction|]. cbn in ND. destruct Hx as [->|Hx].
  - now apply NoDup_app_l in ND. - apply IH; [now apply NoDup_app_r in ND|assumption]. Qed.

(* sorting-based duplicate test (merge sort from Coq.Sorting) *)
Module NOrder <: TotalLeBool.
  Definition t := N. Definition leb := N.leb.
  Theorem leb_total : forall a1 a2, leb a1 a2 = true \/ leb a2 a1 = true.
  Proof. intros a b. unfold leb. destruct (N.leb_spec a b); [now left|right]. apply N.leb_le. lia. Qed.
End NOrder.
Module NSort := Sort NOrder.
Fixpoint adj_distinct (l : list N) : bool :=
  match l with a :: ((b :: _) as r) => negb (a =? b) && adj_distinct r | _ => true end.
Definition nodupb (l : list N) : bool := adj_distinct (NSort.sort l).

Lemma adj_distinct_nodup l : StronglySorted (fun x y => is_true (N.leb x y)) l -> adj_distinct l = true -> NoDup l.
Proof. induction l as [|a l IH]; intros S D; [constructor|]. inversion S as [|? ? S' F]; subst. constructor.
  - destruct l as [|b r]; [intros []|]. cbn [adj_distinct] in D. apply andb_true_iff in D as [D _].
    intros [->|I]; [rewrite N.eqb_refl in D; discriminate|].
    inversion F as [|? ? Hab _]; subst. inversion S' as [|? ? _ F']; subst.
    rewrite Forall_forall in F'. specialize (F' _ I). unfold is_true in *. rewrite N.leb_le in *.
    assert (a = b) by lia. subst. rewrite N.eqb_refl in D. discriminate.
  - apply IH; [assumption|]. destruct l as [|b r]; [reflexivity|]. cbn [adj_distinct] in D. now apply andb_true_iff in D as [_ D]. Qed.
Lemma nodupb_sound l : nodupb l = true -> NoDup l.
Proof. intros H. unfold nodupb in H. apply (Permutation_NoDup (l := NSort.sort l)); [apply Permutation_sym, NSort.Permuted_sort|].
  apply adj_distinct_nodup; [|assumption]. apply NSort.StronglySorted_sort.
  intros x y z. unfold is_true, NOrder.leb. rewrite !N.leb_le. lia. Qed.

Lemma lxor_cancel a b c : N.lxor a b = N.lxor a c -> b = c.
Proof. intros H. rewrite <- (N.lxor_0_l b), <- (N.lxor_0_l c), <- (N.lxor_nilpotent a), !N.lxor_assoc, H. reflexivity. Qed.

Section Distance.
Variable gen : list N. Variable sh : N.
Notation feedg := (feedg gen sh). Notation Zp := (Zp gen sh). Notation table := (table gen sh). Notation syn := (syn gen sh).

(* C17_table's boolean: all Z^a(u), a < L, u = 1..31, pairwise distinct and non-zero *)
Definition table_ok (L : nat) : bool := let t := table L in nodupb t && negb (existsb (N.eqb 0) t).
(* C17_switch's boolean for a residue difference D: D is not a one-error syndrome, not a two-error syndrome (the tables
   T and D xor T are disjoint), and not zero *)
Definition switch_ok (L : nat) (D : N) : bool :=
  let t := table L in nodupb (t ++ map (N.lxor D) t) && negb (existsb (N.eqb D) t) && negb (D =? 0).

Lemma table_inj L : NoDup (table L) -> forall a b u v, (a < L)%nat -> (b < L)%nat -> 0 < u < 32 -> 0 < v < 32 ->
  Zp a u = Zp b v -> a = b /\ u = v.
Proof. intros ND a b u v La Lb Hu Hv E. unfold Bech32.table in ND.
  assert (Iu : In (N.to_nat u) (seq 1 31)) by (apply in_seq; lia).
  assert (Iv : In (N.to_nat v) (seq 1 31)) by (apply in_seq; lia).
  assert (Bu : In (Zp a u) (orbit gen sh L (N.of_nat (N.to_nat u)))).
  { rewrite Nnat.N2Nat.id, orbit_map. apply in_map_iff. exists a. split; [reflexivity|apply in_seq; lia]. }
  assert (Bv : In (Zp a u) (orbit gen sh L (N.of_nat (N.to_nat v)))).
  { rewrite E, Nnat.N2Nat.id, orbit_map. apply in_map_iff. exists b. split; [reflexivity|apply in_seq; lia]. }
  pose proof (NoDup_flat_map_inj _ _ ND _ _ _ Iu Iv Bu Bv) as EQ. assert (u = v) by lia. subst v. split; [|reflexivity].
  pose proof (NoDup_flat_map_part _ _ _ ND Iu) as NDo. cbv beta in NDo. rewrite Nnat.N2Nat.id, orbit_map in NDo.
  apply (NoDup_map_inj _ _ NDo); [apply in_seq; lia|apply in_seq; lia|assumption]. Qed.

Lemma existsb_eqb_false x l : existsb (N.eqb x) l = false -> ~ In x l.
Proof. intros H I. assert (existsb (N.eqb x) l = true); [|congruence]. apply existsb_exists. exists x. split; [assumption|apply N.eqb_refl]. Qed.

(* a word at Hamming distance 1 or 2 from w never has the residue of w *)
Theorem distance3 L : table_ok L = true -> forall s w w', length w = length w' -> (length w <= L)%nat ->
  syms w -> syms w' -> (1 <= hamming w w' <= 2)%nat -> feedg s w' <> feedg s w.
Proof. intros OK s w w' Len LL Hw Hw' Hd. unfold table_ok in OK. apply andb_true_iff in OK as [ND NZ].
  apply nodupb_sound in ND. apply negb_true_iff, existsb_eqb_false in NZ.
  set (e := xorl w w'). assert (He : syms e) by now apply xorl_syms.
  assert (Le : length e = length w) by now apply xorl_length.
  assert (W : weight e = hamming w w') by apply weight_xorl.
  assert (Ew : w' = xorl w e) by (symmetry; now apply xorl_invol).
  rewrite Ew, feed_syndrome by (try assumption; lia).
  intros E. assert (S0 : syn e = 0) by (apply (lxor_cancel (feedg s w)); now rewrite N.lxor_0_r).
  assert (C : weight e = 1%nat \/ weight e = 2%nat) by lia. destruct C as [C|C].
  - destruct (syn_weight1 gen sh e He C) as (a & u & La & Hu & Es). apply NZ. rewrite <- S0, Es. apply in_table; [lia|assumption].
  - destruct (syn_weight2 gen sh e He C) as (a & b & u & v & Lab & Lb & Hu & Hv & Es). rewrite Es in S0. apply N.lxor_eq in S0.
    apply (table_inj L ND) in S0; try lia; try assumption. Qed.

(* a word at Hamming distance <= 2 from w never has residue (residue w) xor D *)
Theorem distance3_switch L D : switch_ok L D = true -> forall s w w', length w = length w' -> (length w <= L)%nat ->
  syms w -> syms w' -> (hamming w w' <= 2)%nat -> feedg s w' <> N.lxor (feedg s w) D.
Proof. intros OK s w w' Len LL Hw Hw' Hd. unfold switch_ok in OK. apply andb_true_iff in OK as [OK DZ]. apply andb_true_iff in OK as [ND NI].
  apply nodupb_sound in ND. apply negb_true_iff, existsb_eqb_false in NI. apply negb_true_iff, N.eqb_neq in DZ.
  set (e := xorl w w'). assert (He : syms e) by now apply xorl_syms.
  assert (Le : length e = length w) by now apply xorl_length.
  assert (W : weight e = hamming w w') by apply weight_xorl.
  assert (Ew : w' = xorl w e) by (symmetry; now apply xorl_invol).
  rewrite Ew, feed_syndrome by (try assumption; lia).
  intros E. assert (S0 : syn e = D) by (apply (lxor_cancel (feedg s w)); exact E).
  assert (C : weight e = 0%nat \/ weight e = 1%nat \/ weight e = 2%nat) by lia. destruct C as [C|[C|C]].
  - rewrite (syn_weight0 gen sh e C) in S0. congruence.
  - destruct (syn_weight1 gen sh e He C) as (a & u & La & Hu & Es). apply NI. rewrite <- S0, Es. apply in_table; [lia|assumption].
  - destruct (syn_weight2 gen sh e He C) as (a & b & u & v & Lab & Lb & Hu & Hv & Es).
    apply (NoDup_app_disj _ _ (Zp b v) ND); [apply in_table; [lia|assumption]|].
    apply in_map_iff. exists (Zp a u). split; [|apply in_table; [lia|assumption]].
    rewrite <- S0, Es. now rewrite N.lxor_assoc, N.lxor_nilpotent, N.lxor_0_r. Qed.
End Distance.

(* ---------------------------------------------------------------- the statements in terms of `code` *)
Definition sym_word (w : list N) : Prop := Forall (fun v => v < 32) w.

Lemma two_errors (c : code) L : table_ok (c_gen c) (shift_of c) L = true ->
  forall w w', sym_word w -> sym_word w' -> length w = length w' -> (length w <= L)%nat -> (1 <= hamming w w' <= 2)%nat ->
  valid_codeword c w = true -> valid_codeword c w' = false.
Proof. intros OK w w' Hw Hw' Len LL Hd V. unfold valid_codeword, residue in *. apply N.eqb_eq in V. apply N.eqb_neq.
  rewrite <- V. exact (distance3 (c_gen c) (shift_of c) L OK 1 w w' Len LL Hw Hw' Hd). Qed.

Lemma switch_errors (c0 cm : code) L : c_gen c0 = c_gen cm -> c_len c0 = c_len cm ->
  switch_ok (c_gen c0) (shift_of c0) L (N.lxor (c_target c0) (c_target cm)) = true ->
  forall w w', sym_word w -> sym_word w' -> length w = length w' -> (length w <= L)%nat -> (hamming w w' <= 2)%nat ->
  (valid_codeword c0 w = true -> valid_codeword cm w' = false) /\ (valid_codeword cm w = true -> valid_codeword c0 w' = false).
Proof. intros EG EL OK w w' Hw Hw' Len LL Hd.
  assert (ES : shift_of c0 = shift_of cm) by (unfold shift_of; now rewrite EL).
  pose proof (distance3_switch (c_gen c0) (shift_of c0) L _ OK 1 w w' Len LL Hw Hw' Hd) as NE.
  unfold valid_codeword, residue, feed, cstep. rewrite <- EG, <- ES. fold (feedg (c_gen c0) (shift_of c0) 1 w). fold (feedg (c_gen c0) (shift_of c0) 1 w').
  split; intros V; apply N.eqb_eq in V; apply N.eqb_neq; intros E; apply NE; rewrite E, V.
  - now rewrite <- N.lxor_assoc, N.lxor_nilpotent, N.lxor_0_l.
  - now rewrite (N.lxor_comm (c_target c0)), <- N.lxor_assoc, N.lxor_nilpotent, N.lxor_0_l. Qed.

Lemma hamming_app p : forall w w', hamming (p ++ w) (p ++ w') = hamming w w'.
Proof. induction p as [|x p IH]; intros w w'; [reflexivity|]. cbn [app hamming]. now rewrite N.eqb_refl, IH. Qed.
Lemma hamming_refl w : hamming w w = 0%nat.
Proof. induction w as [|x w IH]; [reflexivity|]. cbn [hamming]. now rewrite N.eqb_refl, IH. Qed.
