(* C03 — the committed views are complete: equal views give equal messages (the converse of the sensitivity theorems). *)
From Coq Require Import List Arith NArith Bool Lia.
From Coq.Strings Require Import Byte.
From EV Require Import Base.Bytes Base.Codec Model.Tx Model.SighashSpec Model.SighashCommit Proofs.Sighash Proofs.SighashCommit.
Import ListNotations.
Open Scope N_scope.
Set Default Timeout 120.

Section CONV.
Variable pt_ok : bytes -> bool.
Variable H : bytes -> bytes.

Lemma P_outpoint a b : fv_outpoint a = fv_outpoint b -> a = b.
Proof. destruct a, b. unfold fv_outpoint. cbn. intros E. inversion E. reflexivity. Qed.
Lemma P_issuance a b : fv_issuance a = fv_issuance b -> a = b.
Proof. destruct a, b. unfold fv_issuance. cbn. intros E. inversion E. reflexivity. Qed.
Lemma P_iss a b : fv_iss_opt a = fv_iss_opt b -> issuance_null a = issuance_null b /\ (issuance_null a = false -> in_iss a = in_iss b).
Proof. unfold fv_iss_opt. destruct (issuance_null a) eqn:Za, (issuance_null b) eqn:Zb; intros E.
  - split; [reflexivity|discriminate].
  - discriminate E.
  - discriminate E.
  - split; [reflexivity|]. intros _. apply P_issuance. unfold fv_issuance in *. congruence. Qed.
Lemma P_iss_or_zero a b : fv_iss_opt a = fv_iss_opt b -> issuance_or_zero pt_ok a = issuance_or_zero pt_ok b.
Proof. intros E. destruct (P_iss a b E) as [N I]. unfold issuance_or_zero. rewrite <- N. destruct (issuance_null a); [reflexivity|]. now rewrite I. Qed.
Lemma P_iss_opt_ser a b : fv_iss_opt a = fv_iss_opt b ->
  (if issuance_null a then [] else ser_issuance pt_ok (in_iss a)) = (if issuance_null b then [] else ser_issuance pt_ok (in_iss b)).
Proof. intros E. destruct (P_iss a b E) as [N I]. rewrite <- N. destruct (issuance_null a); [reflexivity|]. now rewrite I. Qed.
Lemma P_flags a b : fv_flags a = fv_flags b -> in_pegin a = in_pegin b /\ issuance_null a = issuance_null b.
Proof. unfold fv_flags, fv_bool. destruct (in_pegin a), (in_pegin b), (issuance_null a), (issuance_null b); cbn; intros E; inversion E; auto. Qed.
Lemma P_flagbyte a b : fv_flags a = fv_flags b -> outpoint_flag_byte a = outpoint_flag_byte b.
Proof. intros E. destruct (P_flags a b E) as [P N]. unfold outpoint_flag_byte. now rewrite P, N. Qed.
Lemma P_txout a b : fv_txout a = fv_txout b -> ser_txout pt_ok a = ser_txout pt_ok b.
Proof. unfold fv_txout, ser_txout. intros E. inversion E as [[A V N S]]. now rewrite A, V, N, S. Qed.
Lemma P_issproofs a b : fv_issproofs a = fv_issproofs b -> issuance_proofs a = issuance_proofs b.
Proof. unfold fv_issproofs, issuance_proofs, ser_proof. intros E. inversion E as [[A B]]. fold (proof_bytes (w_amount_rp (in_wit a))) (proof_bytes (w_keys_rp (in_wit a)))
    (proof_bytes (w_amount_rp (in_wit b))) (proof_bytes (w_keys_rp (in_wit b))). now rewrite A, B. Qed.
Lemma P_outwit a b : fv_outwit a = fv_outwit b -> output_witness a = output_witness b.
Proof. unfold fv_outwit, output_witness, ser_proof. intros E. inversion E as [[A B]]. fold (proof_bytes (w_surj (out_wit a))) (proof_bytes (w_range (out_wit a)))
    (proof_bytes (w_surj (out_wit b))) (proof_bytes (w_range (out_wit b))). now rewrite A, B. Qed.
Lemma cons_inj {A} (a b : A) l l' : a :: l = b :: l' -> a = b /\ l = l'. Proof. intros E. now inversion E. Qed.
Lemma FSome_inj a b : FSome a = FSome b -> a = b. Proof. intros E. now inversion E. Qed.
Lemma FNum_inj a b : FNum a = FNum b -> a = b. Proof. intros E. now inversion E. Qed.
Lemma FBytes_inj a b : FBytes a = FBytes b -> a = b. Proof. intros E. now inversion E. Qed.
Lemma FVal_inj a b : FVal a = FVal b -> a = b. Proof. intros E. now inversion E. Qed.
Lemma FAst_inj a b : FAst a = FAst b -> a = b. Proof. intros E. now inversion E. Qed.
Lemma FList_inj l l' : FList l = FList l' -> l = l'. Proof. intros E. now inversion E. Qed.
Lemma map_len_eq {A B C} (f : A -> C) (g : B -> C) l l' : map f l = map g l' -> length l = length l'.
Proof. intros E. apply (f_equal (@length C)) in E. now rewrite !map_length in E. Qed.

(* ---------------- segwit v0 ---------------- *)
Theorem segwit_committed_complete t t' idx idx' sc sc' v v' ht ht' m m' :
  spec_segwit_msg pt_ok H t idx sc v ht = Some m -> spec_segwit_msg pt_ok H t' idx' sc' v' ht' = Some m' ->
  segwit_committed pt_ok t idx sc v ht = segwit_committed pt_ok t' idx' sc' v' ht' -> m = m'.
Proof. unfold spec_segwit_msg, segwit_committed. intros S S' E.
  destruct (nth_error (tx_in t) idx) as [me|]; [|discriminate]. destruct (nth_error (tx_in t') idx') as [me'|]; [|discriminate].
  apply Some_inj in S. apply Some_inj in S'. subst m m'.
  apply cons_inj in E as [Ev E]. apply cons_inj in E as [E1 E]. apply cons_inj in E as [E2 E]. apply cons_inj in E as [E3 E]. apply cons_inj in E as [Eo E].
  apply cons_inj in E as [Es E]. apply cons_inj in E as [Eval E]. apply cons_inj in E as [Eq E]. apply cons_inj in E as [Ei E]. apply cons_inj in E as [E4 E].
  apply cons_inj in E as [El E]. apply cons_inj in E as [Eh _].
  apply FNum_inj in Ev, Eq, El, Eh. apply FBytes_inj in Es. apply FVal_inj in Eval. subst ht'.
  apply P_outpoint in Eo. rewrite Ev, Eo, Es, Eval, Eq, El, (P_iss_opt_ser _ _ Ei). unfold issuance_null in *.
  assert (A1 : anyone_can_pay ht = false -> hash_prevouts H t = hash_prevouts H t').
  { intros A. rewrite A in E1. apply FSome_inj, FList_inj in E1. unfold hash_prevouts. apply f_equal, f_equal. revert E1. apply map_factor. intros a b X. now rewrite (P_outpoint _ _ X). }
  assert (A2 : anyone_can_pay ht = false -> hash_single ht = false -> hash_none ht = false -> hash_sequence H t = hash_sequence H t').
  { intros A B C. rewrite A, B, C in E2. cbn [negb andb] in E2. apply FSome_inj, FList_inj in E2. unfold hash_sequence. apply f_equal, f_equal.
    revert E2. apply map_factor. intros a b X. now apply FNum_inj in X as ->. }
  assert (A3 : anyone_can_pay ht = false -> hash_issuance pt_ok H t = hash_issuance pt_ok H t').
  { intros A. rewrite A in E3. apply FSome_inj, FBytes_inj in E3. unfold hash_issuance. now rewrite E3. }
  assert (A4 : hash_single ht = false -> hash_none ht = false -> hash_outputs pt_ok H t = hash_outputs pt_ok H t').
  { intros B C. rewrite B, C in E4. cbn [negb andb] in E4. apply FSome_inj, FList_inj in E4. unfold hash_outputs. apply f_equal, f_equal. revert E4. apply map_factor. apply P_txout. }
  destruct (nth_error (tx_out t) idx) as [o|], (nth_error (tx_out t') idx') as [o'|].
  - assert (A5 : hash_single ht = true -> sha256d H (ser_txout pt_ok o) = sha256d H (ser_txout pt_ok o')).
    { intros B. rewrite B in E4. cbn [negb andb] in E4. apply FSome_inj in E4. now rewrite (P_txout _ _ E4). }
    clear E1 E2 E3 E4. destruct (anyone_can_pay ht), (hash_single ht), (hash_none ht); cbn [negb andb]; rewrite ?A1, ?A2, ?A3, ?A4, ?A5 by reflexivity; reflexivity.
  - assert (A5 : hash_single ht = false) by (destruct (hash_single ht); [cbn [negb andb] in E4; discriminate E4|reflexivity]).
    clear E1 E2 E3 E4. rewrite A5 in *. destruct (anyone_can_pay ht), (hash_none ht); cbn [negb andb]; rewrite ?A1, ?A2, ?A3, ?A4 by reflexivity; reflexivity.
  - assert (A5 : hash_single ht = false) by (destruct (hash_single ht); [cbn [negb andb] in E4; discriminate E4|reflexivity]).
    clear E1 E2 E3 E4. rewrite A5 in *. destruct (anyone_can_pay ht), (hash_none ht); cbn [negb andb]; rewrite ?A1, ?A2, ?A3, ?A4 by reflexivity; reflexivity.
  - clear E1 E2 E3 E4. destruct (anyone_can_pay ht), (hash_single ht), (hash_none ht); cbn [negb andb]; rewrite ?A1, ?A2, ?A3, ?A4 by reflexivity; reflexivity.
Qed.

(* ---------------- legacy ---------------- *)
Lemma mapi_from_factor {A B C} (f f' : nat -> A -> B) (g g' : nat -> A -> C) : (forall n a b, f n a = f' n b -> g n a = g' n b) ->
  forall l l' n, mapi_from n f l = mapi_from n f' l' -> mapi_from n g l = mapi_from n g' l'.
Proof. intros I. induction l as [|a l IH]; intros [|b l'] n E; cbn in *; try discriminate; [reflexivity|].
  apply cons_inj in E as [E1 E2]. f_equal; eauto. Qed.
Lemma mapi_from_len {A B} (f f' : nat -> A -> B) l l' n : mapi_from n f l = mapi_from n f' l' -> length l = length l'.
Proof. intros E. apply (f_equal (@length B)) in E. now rewrite !mapi_from_length in E. Qed.
Lemma P_legacy_in ht idx sc n a ht' idx' sc' n' b : legacy_in_view ht idx sc n a = legacy_in_view ht' idx' sc' n' b ->
  legacy_input pt_ok true ht idx sc n a = legacy_input pt_ok true ht' idx' sc' n' b.
Proof. unfold legacy_in_view. intros E. apply FList_inj in E. apply cons_inj in E as [Eo E]. apply cons_inj in E as [Ef E]. apply cons_inj in E as [Ei E].
  apply cons_inj in E as [Es E]. apply cons_inj in E as [Eq _]. apply P_outpoint in Eo. destruct (P_flags _ _ Ef) as [Ep En]. apply FBytes_inj in Es. apply FNum_inj in Eq.
  destruct (P_iss _ _ Ei) as [_ Iss]. unfold legacy_input, legacy_prevout, index_with_flags, wire_vout, has_issuance. unfold issuance_null in *.
  rewrite Eo, Ep, Eq. destruct (issuance_is_null (in_iss a)) eqn:Za; rewrite <- En; [|rewrite (Iss eq_refl)]; (destruct (Nat.eqb n idx), (Nat.eqb n' idx'); rewrite ?Es; try reflexivity; rewrite <- ?Es; reflexivity). Qed.
Lemma P_legacy_out ht idx n a idx' b : legacy_out_view ht idx n a = legacy_out_view ht idx' n b -> legacy_output pt_ok ht idx n a = legacy_output pt_ok ht idx' n b.
Proof. unfold legacy_out_view, legacy_output. destruct (hash_single ht && negb (Nat.eqb n idx)), (hash_single ht && negb (Nat.eqb n idx')); apply P_txout. Qed.

Theorem legacy_committed_complete t t' idx idx' sc sc' ht ht' m m' :
  spec_legacy_msg pt_ok true t idx sc ht = Some m -> spec_legacy_msg pt_ok true t' idx' sc' ht' = Some m' ->
  legacy_committed t idx sc ht = legacy_committed t' idx' sc' ht' -> m = m'.
Proof. unfold spec_legacy_msg, legacy_committed. intros S S' E.
  destruct (nth_error (tx_in t) idx) as [me|]; [|discriminate]. destruct (nth_error (tx_in t') idx') as [me'|]; [|discriminate].
  destruct (legacy_single_bug t idx ht) eqn:B; [discriminate|]. destruct (legacy_single_bug t' idx' ht') eqn:B'; [discriminate|].
  apply Some_inj in S. apply Some_inj in S'. subst m m'.
  apply cons_inj in E as [Ev E]. apply cons_inj in E as [Ei E]. apply cons_inj in E as [Eo E]. apply cons_inj in E as [El E]. apply cons_inj in E as [Eh _].
  apply FNum_inj in Ev, El, Eh. subst ht'. apply FList_inj in Ei, Eo. rewrite Ev, El. f_equal. f_equal; [|f_equal].
  - destruct (anyone_can_pay ht).
    + apply cons_inj in Ei as [Ei _]. now rewrite (P_legacy_in _ _ _ _ _ _ _ _ _ _ Ei).
    + unfold mapi in *. rewrite (mapi_from_len _ _ _ _ _ Ei). f_equal. f_equal. revert Ei. apply mapi_from_factor. intros n a b. apply P_legacy_in.
  - unfold legacy_single_bug in B, B'. destruct (hash_none ht); [reflexivity|]. destruct (hash_single ht) eqn:Sg; cbn [andb] in B, B'.
    + unfold mapi in *. pose proof (mapi_from_len _ _ _ _ _ Eo) as L. rewrite !firstn_length in L. apply Nat.leb_gt in B, B'.
      replace (idx + 1)%nat with (idx' + 1)%nat at 1 by lia. f_equal. f_equal. revert Eo. apply mapi_from_factor. intros n a b. apply P_legacy_out.
    + rewrite (map_len_eq _ _ _ _ Eo). f_equal. f_equal. revert Eo. apply map_factor. apply P_txout. Qed.

(* ---------------- taproot ---------------- *)
Lemma K_flags t t' : FList (map fv_flags (tx_in t)) = FList (map fv_flags (tx_in t')) -> sha_outpoint_flags H t = sha_outpoint_flags H t'.
Proof. intros E. apply FList_inj in E. unfold sha_outpoint_flags. apply f_equal. revert E. apply map_factor. intros a b X. now rewrite (P_flagbyte _ _ X). Qed.
Lemma K_prevouts t t' : FList (map (fun i => fv_outpoint (in_prev i)) (tx_in t)) = FList (map (fun i => fv_outpoint (in_prev i)) (tx_in t')) -> sha_prevouts H t = sha_prevouts H t'.
Proof. intros E. apply FList_inj in E. unfold sha_prevouts. apply f_equal, f_equal. revert E. apply map_factor. intros a b X. now rewrite (P_outpoint _ _ X). Qed.
Lemma K_aa l l' : FList (map (fun o => FList [FAst (out_asset o); FVal (out_value o)]) l) = FList (map (fun o => FList [FAst (out_asset o); FVal (out_value o)]) l') ->
  sha_asset_amounts pt_ok H l = sha_asset_amounts pt_ok H l'.
Proof. intros E. apply FList_inj in E. unfold sha_asset_amounts. apply f_equal, f_equal. revert E. apply map_factor. intros a b X.
  apply FList_inj in X. apply cons_inj in X as [X1 X]. apply cons_inj in X as [X2 _]. apply FAst_inj in X1. apply FVal_inj in X2. now rewrite X1, X2. Qed.
Lemma K_scripts l l' : FList (map (fun o => FBytes (out_script o)) l) = FList (map (fun o => FBytes (out_script o)) l') -> sha_scriptpubkeys H l = sha_scriptpubkeys H l'.
Proof. intros E. apply FList_inj in E. unfold sha_scriptpubkeys. apply f_equal, f_equal. revert E. apply map_factor. intros a b X. apply FBytes_inj in X. now rewrite X. Qed.
Lemma K_seqs t t' : FList (map (fun i => FNum (in_seq i)) (tx_in t)) = FList (map (fun i => FNum (in_seq i)) (tx_in t')) -> sha_sequences H t = sha_sequences H t'.
Proof. intros E. apply FList_inj in E. unfold sha_sequences. apply f_equal, f_equal. revert E. apply map_factor. intros a b X. apply FNum_inj in X. now rewrite X. Qed.
Lemma K_iss t t' : FList (map fv_iss_opt (tx_in t)) = FList (map fv_iss_opt (tx_in t')) -> sha_issuances pt_ok H t = sha_issuances pt_ok H t'.
Proof. intros E. apply FList_inj in E. unfold sha_issuances. apply f_equal, f_equal. revert E. apply map_factor. apply P_iss_or_zero. Qed.
Lemma K_issproofs t t' : FList (map fv_issproofs (tx_in t)) = FList (map fv_issproofs (tx_in t')) -> sha_issuance_rangeproofs H t = sha_issuance_rangeproofs H t'.
Proof. intros E. apply FList_inj in E. unfold sha_issuance_rangeproofs. apply f_equal, f_equal. revert E. apply map_factor. apply P_issproofs. Qed.
Lemma K_outputs t t' : FList (map fv_txout (tx_out t)) = FList (map fv_txout (tx_out t')) -> sha_outputs pt_ok H t = sha_outputs pt_ok H t'.
Proof. intros E. apply FList_inj in E. unfold sha_outputs. apply f_equal, f_equal. revert E. apply map_factor. apply P_txout. Qed.
Lemma K_outwits t t' : FList (map fv_outwit (tx_out t)) = FList (map fv_outwit (tx_out t')) -> sha_output_witnesses H t = sha_output_witnesses H t'.
Proof. intros E. apply FList_inj in E. unfold sha_output_witnesses. apply f_equal, f_equal. revert E. apply map_factor. apply P_outwit. Qed.
Lemma K_annex (a a' : option bytes) : (match a with Some x => FSome (FBytes x) | None => FNone end) = (match a' with Some x => FSome (FBytes x) | None => FNone end) -> a = a'.
Proof. destruct a, a'; intros E; try discriminate; [|reflexivity]. apply FSome_inj, FBytes_inj in E. now subst. Qed.

Theorem taproot_committed_complete t t' spent spent' idx idx' annex annex' leaf leaf' ht ht' g g' m m' :
  spec_taproot_msg pt_ok H t spent idx annex leaf ht g = Some m -> spec_taproot_msg pt_ok H t' spent' idx' annex' leaf' ht' g' = Some m' ->
  taproot_committed t spent idx annex leaf ht g = taproot_committed t' spent' idx' annex' leaf' ht' g' -> m = m'.
Proof. unfold spec_taproot_msg, taproot_committed. intros S S' E.
  destruct (negb (tap_type_valid ht)); [discriminate|]. destruct (negb (tap_type_valid ht')); [discriminate|].
  destruct (negb (Nat.eqb (length spent) (length (tx_in t)))); [discriminate|]. destruct (negb (Nat.eqb (length spent') (length (tx_in t')))); [discriminate|].
  destruct (negb (annex_valid annex)); [discriminate|]. destruct (negb (annex_valid annex')); [discriminate|].
  destruct (nth_error (tx_in t) idx) as [me|]; [|discriminate]. destruct (nth_error spent idx) as [prev|]; [|discriminate].
  destruct (nth_error (tx_in t') idx') as [me'|]; [|discriminate]. destruct (nth_error spent' idx') as [prev'|]; [|discriminate].
  destruct (if tap_output_type ht =? SIGHASH_SINGLE then _ else _) as [so|] eqn:So; [|discriminate].
  destruct (if tap_output_type ht' =? SIGHASH_SINGLE then _ else _) as [so'|] eqn:So'; [|discriminate].
  apply Some_inj in S. apply Some_inj in S'. subst m m'.
  cbn [app] in E. apply cons_inj in E as [Eg E]. apply cons_inj in E as [Eh E]. apply cons_inj in E as [Ev E]. apply cons_inj in E as [El E].
  apply FBytes_inj in Eg. apply FNum_inj in Eh, Ev, El. subst g' ht'. rewrite Ev, El. clear Ev El.
  destruct (tap_input_acp ht) eqn:A; cbn [app] in E.
  all: try (apply cons_inj in E as [F1 E]; apply cons_inj in E as [F2 E]; apply cons_inj in E as [F3 E]; apply cons_inj in E as [F4 E];
            apply cons_inj in E as [F5 E]; apply cons_inj in E as [F6 E]; apply cons_inj in E as [F7 E];
            apply K_flags in F1; apply K_prevouts in F2; apply K_aa in F3; apply K_scripts in F4; apply K_seqs in F5; apply K_iss in F6; apply K_issproofs in F7;
            rewrite F1, F2, F3, F4, F5, F6, F7; clear F1 F2 F3 F4 F5 F6 F7).
  all: destruct (tap_output_type ht =? SIGHASH_ALL) eqn:OA; cbn [app] in E.
  all: try (apply cons_inj in E as [F8 E]; apply cons_inj in E as [F9 E]; apply K_outputs in F8; apply K_outwits in F9; rewrite F8, F9; clear F8 F9).
  all: apply cons_inj in E as [Elf E]; apply cons_inj in E as [Ean E]; apply K_annex in Ean; subst annex'.
  (* the input: ANYONECANPAY *)
  all: try (apply cons_inj in E as [G1 E]; apply cons_inj in E as [G2 E]; apply cons_inj in E as [G3 E]; apply cons_inj in E as [G4 E];
            apply cons_inj in E as [G5 E]; apply cons_inj in E as [G6 E]; apply cons_inj in E as [G7 E]; apply cons_inj in E as [G8 E];
            apply P_flagbyte in G1; apply P_outpoint in G2; apply FAst_inj in G3; apply FVal_inj in G4; apply FBytes_inj in G5; apply FNum_inj in G6;
            destruct (P_iss _ _ G7) as [Gn Gi]; rewrite G1, G2, G3, G4, G5, G6; rewrite <- Gn in *;
            destruct (issuance_null me); [|apply FSome_inj, P_issproofs in G8; rewrite (Gi eq_refl), G8]; clear G1 G2 G3 G4 G5 G6 G7 G8).
  (* ... or the input index *)
  all: try (apply cons_inj in E as [G1 E]; apply FNum_inj in G1; apply Nnat.Nat2N.inj in G1; subst idx').
  (* script path *)
  all: destruct leaf as [[h p]|], leaf' as [[h' p']|]; try discriminate Elf.
  (* SIGHASH_SINGLE *)
  all: destruct (tap_output_type ht =? SIGHASH_SINGLE) eqn:OS.
  all: try (destruct (nth_error (tx_out t) idx) as [o|]; [|discriminate So]; cbn [option_map] in So; apply Some_inj in So).
  all: try (match type of So' with context [nth_error ?l ?n] => destruct (nth_error l n) as [o'|]; [|discriminate So'] end; cbn [option_map] in So'; apply Some_inj in So').
  all: try (apply Some_inj in So); try (apply Some_inj in So').
  all: subst so so'; cbn [app] in E.
  all: try (apply cons_inj in E as [J1 E]; apply cons_inj in E as [J2 E]; apply P_txout in J1; apply P_outwit in J2; rewrite J1, J2).
  all: try (apply cons_inj in E as [L1 E]; apply cons_inj in E as [_ E]; apply cons_inj in E as [L3 _]; apply FBytes_inj in L1; apply FNum_inj in L3; subst h' p').
  all: reflexivity.
Qed.
End CONV.
