(* Proofs for C08: BIP370 lock time selection, unique-id invariance, from_tx/extract_tx. *)
From Coq Require Import List NArith Bool Lia ZifyN ZifyBool.
From Coq.Strings Require Import Byte.
From EV Require Import Base.Bytes Base.Codec Gen.Tables Model.PsetMap Model.PsetTx Proofs.PsetMap.
Import ListNotations.
Open Scope N_scope.

(* ================================================================ lock time *)
Definition time_only (i : pmap) : bool := has_time i && negb (has_height i).
Definition height_only (i : pmap) : bool := has_height i && negb (has_time i).
(* closed form of the per-input fold *)
Definition spec_state (l : list pmap) : lt3 * lt3 :=
  (if existsb height_only l then LD else if existsb has_time l then LMin (max_of (map req_time l)) else LU,
   if existsb time_only l then LD else if existsb has_height l then LMin (max_of (map req_height l)) else LU).

Lemma max_of_gen l : forall m, fold_left (fun m o => match o with Some x => N.max m x | None => m end) l m = N.max m (max_of l).
Proof.
  unfold max_of. induction l as [|o l IH]; intros m; cbn [fold_left]; [lia|].
  rewrite IH, (IH (match o with Some x => N.max 0 x | None => 0 end)). destruct o; lia.
Qed.
Lemma max_of_app l x : max_of (l ++ [x]) = match x with Some v => N.max (max_of l) v | None => max_of l end.
Proof. unfold max_of at 1. rewrite fold_left_app. cbn [fold_left]. fold (max_of l). reflexivity. Qed.
Lemma max_of_none l (f : pmap -> option N) (h : pmap -> bool) :
  (forall i, h i = match f i with Some _ => true | None => false end) -> existsb h l = false -> max_of (map f l) = 0.
Proof.
  intros Hh. induction l as [|i l IH]; cbn [existsb map]; [reflexivity|]. intros E. apply orb_false_iff in E as [E1 E2].
  unfold max_of. cbn [fold_left]. rewrite Hh in E1. destruct (f i); [discriminate|]. apply IH, E2.
Qed.
Lemma lt3_max_min x y : lt3_max (LMin x) (LMin y) = LMin (N.max x y).
Proof. cbn [lt3_max]. destruct (N.ltb_spec y x); f_equal; lia. Qed.

Lemma comp_step (d a : bool) (m v : N) : (a = false -> m = 0) ->
  lt3_max (if d then LD else if a then LMin m else LU) (LMin v) = (if d then LD else LMin (N.max m v)).
Proof. intros H. destruct d, a; cbn [lt3_max]; try reflexivity; [apply lt3_max_min|]. rewrite (H eq_refl). f_equal. lia. Qed.

Lemma lt_fold_spec l : lt_fold l = spec_state l.
Proof.
  induction l as [|i l IH] using rev_ind; [reflexivity|].
  unfold lt_fold in *. rewrite fold_left_app. cbn [fold_left]. rewrite IH. clear IH.
  unfold spec_state. rewrite !existsb_app, !map_app. cbn [existsb map]. rewrite !orb_false_r, !max_of_app.
  pose proof (max_of_none l req_time has_time (fun _ => eq_refl)) as Z1.
  pose proof (max_of_none l req_height has_height (fun _ => eq_refl)) as Z2.
  unfold lt_step, time_only, height_only, has_time, has_height in *.
  destruct (req_time i) as [t|], (req_height i) as [h|]; cbn [fst snd andb negb]; rewrite ?orb_false_r, ?orb_true_r.
  - rewrite !comp_step by assumption. reflexivity.
  - rewrite comp_step by assumption. reflexivity.
  - rewrite comp_step by assumption. reflexivity.
  - reflexivity.
Qed.

(* the two arm orders this development knows: the one in the tree before the F6 repair (time tested first) and the repaired one *)
Definition arms_time_first : list (lt_pat * lt_pat * lt_act) :=
  [(LP_U, LP_U, LA_Fallback); (LP_Min, LP_Any, LA_Time); (LP_Any, LP_Min, LA_Height); (LP_D, LP_D, LA_Conflict); (LP_U, LP_D, LA_Unreachable); (LP_D, LP_U, LA_Unreachable)].
Definition arms_height_first : list (lt_pat * lt_pat * lt_act) :=
  [(LP_U, LP_U, LA_Fallback); (LP_Any, LP_Min, LA_Height); (LP_Min, LP_Any, LA_Time); (LP_D, LP_D, LA_Conflict); (LP_U, LP_D, LA_Unreachable); (LP_D, LP_U, LA_Unreachable)].
Definition arms_known (arms : list (lt_pat * lt_pat * lt_act)) : Prop := arms = arms_time_first \/ arms = arms_height_first.

(* facts about the constraining inputs *)
Lemma constrains_or i : constrains i = has_time i || has_height i.
Proof. unfold constrains, has_time, has_height. destruct (req_time i), (req_height i); reflexivity. Qed.
Lemma filter_nil_existsb {A} (f : A -> bool) l : match filter f l with [] => true | _ => false end = negb (existsb f l).
Proof. induction l as [|x l IH]; cbn; [reflexivity|]. destruct (f x); cbn; auto. Qed.
Lemma existsb_constrains l : existsb constrains l = existsb has_time l || existsb has_height l.
Proof. induction l as [|x l IH]; cbn; [reflexivity|]. rewrite IH, constrains_or. destruct (has_time x), (has_height x), (existsb has_time l); reflexivity. Qed.
Lemma forallb_height_cs l : forallb has_height (filter constrains l) = negb (existsb time_only l).
Proof.
  induction l as [|x l IH]; cbn; [reflexivity|]. rewrite constrains_or. unfold time_only.
  destruct (has_time x) eqn:T, (has_height x) eqn:H; cbn; rewrite ?H; cbn; auto.
Qed.
Lemma forallb_time_cs l : forallb has_time (filter constrains l) = negb (existsb height_only l).
Proof.
  induction l as [|x l IH]; cbn; [reflexivity|]. rewrite constrains_or. unfold height_only.
  destruct (has_time x) eqn:T, (has_height x) eqn:H; cbn; rewrite ?T; cbn; auto.
Qed.
Lemma max_of_cons o l : max_of (o :: l) = match o with Some x => N.max x (max_of l) | None => max_of l end.
Proof. unfold max_of at 1. cbn [fold_left]. rewrite max_of_gen. destruct o; lia. Qed.
Lemma max_cs (f : pmap -> option N) l : (forall i, constrains i = false -> f i = None) -> max_of (map f (filter constrains l)) = max_of (map f l).
Proof.
  intros H. induction l as [|x l IH]; [reflexivity|]. cbn [filter map]. destruct (constrains x) eqn:C; cbn [map]; rewrite !max_of_cons, ?IH; [reflexivity|].
  now rewrite (H x C).
Qed.
Lemma exists_only_has l : (existsb time_only l = true -> existsb has_time l = true) /\ (existsb height_only l = true -> existsb has_height l = true)
  /\ (existsb has_time l = true -> existsb time_only l = false -> existsb has_height l = true)
  /\ (existsb has_height l = true -> existsb height_only l = false -> existsb has_time l = true).
Proof.
  unfold time_only, height_only. induction l as [|x l [I1 [I2 [I3 I4]]]]; cbn; [repeat split; discriminate|].
  destruct (has_time x), (has_height x); cbn; repeat split; auto; intros; rewrite ?orb_true_r; auto; discriminate.
Qed.

(* the class on which the current tree departs from BIP370 (F6): time arm first, and every constraining input allows both kinds *)
Definition both_possible (p : pset) : bool :=
  let cs := filter constrains (pinputs p) in
  negb (match cs with [] => true | _ => false end) && forallb has_time cs && forallb has_height cs.
Definition known_F6 (arms : list (lt_pat * lt_pat * lt_act)) (p : pset) : Prop := arms = arms_time_first /\ both_possible p = true.

Lemma bip370_closed p :
  let l := pinputs p in
  bip370 p = if negb (existsb has_time l || existsb has_height l) then Val (fallback_of (pglobal p))
             else if negb (existsb time_only l) then Val (max_of (map req_height l))
             else if negb (existsb height_only l) then Val (max_of (map req_time l))
             else Fail E_LocktimeConflict.
Proof.
  cbn zeta. unfold bip370.
  pose proof (filter_nil_existsb constrains (pinputs p)) as N. rewrite existsb_constrains in N.
  rewrite forallb_height_cs, forallb_time_cs, !max_cs.
  - destruct (filter constrains (pinputs p)); rewrite <- N; reflexivity.
  - intros i C. unfold constrains, req_time in *. destruct (opt_u32 (unk i F_req_time)); [destruct (req_height i); discriminate|reflexivity].
  - intros i C. unfold constrains in *. destruct (req_time i), (req_height i); try discriminate; reflexivity.
Qed.

Theorem locktime_is_bip370 arms p : arms_known arms -> ~ known_F6 arms p -> locktime_with arms p = bip370 p.
Proof.
  intros K NF. rewrite bip370_closed. unfold locktime_with. rewrite lt_fold_spec. unfold spec_state. cbn [fst snd].
  assert (arms = arms_time_first -> both_possible p = false) as NF' by (intros E; destruct (both_possible p) eqn:B; [exfalso; apply NF; split; auto|reflexivity]).
  unfold both_possible in NF'. pose proof (filter_nil_existsb constrains (pinputs p)) as N. rewrite existsb_constrains in N.
  rewrite forallb_height_cs, forallb_time_cs in NF'.
  destruct (exists_only_has (pinputs p)) as [I1 [I2 [I3 I4]]].
  destruct (match filter constrains (pinputs p) with [] => true | _ :: _ => false end); symmetry in N;
  destruct (existsb time_only (pinputs p)), (existsb height_only (pinputs p)), (existsb has_time (pinputs p)), (existsb has_height (pinputs p));
  cbn in N; try discriminate; try (specialize (I1 eq_refl); discriminate); try (specialize (I2 eq_refl); discriminate);
  try (specialize (I3 eq_refl eq_refl); discriminate); try (specialize (I4 eq_refl eq_refl); discriminate);
  destruct K as [-> | ->]; cbn; try reflexivity; specialize (NF' eq_refl); discriminate.
Qed.

Theorem locktime_never_panics arms p : arms_known arms -> forall s, locktime_with arms p <> Panic s.
Proof.
  intros K s. unfold locktime_with. rewrite lt_fold_spec. unfold spec_state. cbn [fst snd].
  destruct (exists_only_has (pinputs p)) as [I1 [I2 [I3 I4]]].
  destruct (existsb time_only (pinputs p)), (existsb height_only (pinputs p)), (existsb has_time (pinputs p)), (existsb has_height (pinputs p));
  try (specialize (I1 eq_refl); discriminate); try (specialize (I2 eq_refl); discriminate);
  try (specialize (I3 eq_refl eq_refl); discriminate); try (specialize (I4 eq_refl eq_refl); discriminate);
  destruct K as [-> | ->]; cbn; discriminate.
Qed.

(* ================================================================ unique id: which fields it reads *)
Definition uid_global_fields : list field := [F_tx_version; F_fallback; F_input_count; F_output_count].
Definition uid_input_fields (cl : list field) : list field :=
  [F_prev_txid; F_prev_index; F_req_time; F_req_height; F_iss_nonce; F_iss_entropy; F_iss_amount; F_iss_comm; F_iss_keys; F_iss_keys_comm]
  ++ (if mem_field (fld "script_sig") cl then [] else [F_final_script_sig]) ++ (if mem_field (fld "sequence") cl then [] else [F_sequence]).
Definition uid_output_fields : list field := [F_asset_comm; F_asset; F_amount_comm; F_amount; F_ecdh_pubkey; F_script_pubkey].
Definition agree_on (fs : list field) (a b : pmap) : Prop := forall f, In f fs -> unk a f = unk b f.
Definition pset_agree (cl : list field) (p q : pset) : Prop :=
  agree_on uid_global_fields (pglobal p) (pglobal q) /\ Forall2 (agree_on (uid_input_fields cl)) (pinputs p) (pinputs q)
  /\ Forall2 (agree_on uid_output_fields) (poutputs p) (poutputs q).

Definition omap {A B} (f : A -> B) (o : outcome A) : outcome B := obind o (fun a => Val (f a)).

Lemma uid_preimage_unfold arms exempt cl p :
  uid_preimage_with arms exempt cl p =
  obind (sanity_check p) (fun _ => obind (locktime_with arms p) (fun lt =>
  obind (omap (map strip_out_witness) (outs_of (poutputs p))) (fun so =>
  Val (mk_tx (tx_version_of (pglobal p)) lt (map (fun i => strip_in_witness (uid_reset_in cl (txin_of_with exempt i))) (pinputs p)) so)))).
Proof.
  unfold uid_preimage_with, extract_tx_with, omap. destruct (sanity_check p); cbn [obind]; try reflexivity.
  destruct (locktime_with arms p); cbn [obind]; try reflexivity. destruct (outs_of (poutputs p)); cbn [obind]; try reflexivity.
  unfold uid_tx_with, txid_preimage. cbn [tx_version tx_lock_time tx_ins tx_outs]. now rewrite !map_map.
Qed.

Ltac use_agree H := repeat match goal with |- context [unk ?a ?f] => rewrite (H f) by (cbn; tauto) end.

Lemma lt_step_agree cl a b st : agree_on (uid_input_fields cl) a b -> lt_step st a = lt_step st b.
Proof. intros H. unfold lt_step, req_time, req_height. rewrite (H F_req_time), (H F_req_height) by (cbn; tauto). reflexivity. Qed.
Lemma lt_fold_agree cl l l' : Forall2 (agree_on (uid_input_fields cl)) l l' -> lt_fold l = lt_fold l'.
Proof.
  unfold lt_fold. generalize (LU, LU). intros st F. revert st. induction F as [|a b l l' H F IH]; intros st; cbn [fold_left]; [reflexivity|].
  rewrite (lt_step_agree cl a b st H). apply IH.
Qed.
Lemma txin_agree cl exempt a b : agree_on (uid_input_fields cl) a b ->
  strip_in_witness (uid_reset_in cl (txin_of_with exempt a)) = strip_in_witness (uid_reset_in cl (txin_of_with exempt b)).
Proof.
  intros H. unfold strip_in_witness, uid_reset_in, txin_of_with, ti_has_issuance, is_pegin_with, prev_index, uid_input_fields in *.
  cbn [ti_txid ti_vout ti_pegin ti_script_sig ti_sequence ti_iss_nonce ti_iss_entropy ti_iss_amount ti_iss_keys].
  rewrite (H F_prev_txid), (H F_prev_index), (H F_iss_nonce), (H F_iss_entropy), (H F_iss_amount), (H F_iss_comm), (H F_iss_keys), (H F_iss_keys_comm) by (cbn; tauto).
  destruct (mem_field (fld "script_sig") cl), (mem_field (fld "sequence") cl); cbn [app] in H;
    rewrite ?(H F_final_script_sig), ?(H F_sequence) by (rewrite ?in_app_iff; cbn; tauto); reflexivity.
Qed.
Lemma txout_agree a b : agree_on uid_output_fields a b -> omap strip_out_witness (txout_of a) = omap strip_out_witness (txout_of b).
Proof.
  intros H. unfold txout_of. rewrite (H F_asset_comm), (H F_asset), (H F_amount_comm), (H F_amount), (H F_ecdh_pubkey), (H F_script_pubkey) by (cbn; tauto).
  destruct (unk b F_asset_comm), (unk b F_asset), (unk b F_amount_comm), (unk b F_amount); reflexivity.
Qed.
Lemma outs_agree l l' : Forall2 (agree_on uid_output_fields) l l' -> omap (map strip_out_witness) (outs_of l) = omap (map strip_out_witness) (outs_of l').
Proof.
  intros F. induction F as [|a b l l' H F IH]; [reflexivity|]. cbn [outs_of].
  pose proof (txout_agree a b H) as E. unfold omap in *.
  destruct (txout_of a) as [x| |], (txout_of b) as [y| |]; cbn [obind] in *; try discriminate; try exact E.
  assert (strip_out_witness x = strip_out_witness y) as E' by congruence.
  destruct (outs_of l) as [xs| |], (outs_of l') as [ys| |]; cbn [obind map] in *; try discriminate; try exact IH.
  assert (map strip_out_witness xs = map strip_out_witness ys) as IH' by congruence. now rewrite E', IH'.
  all: cbn in *; congruence.
Qed.

Lemma Forall2_len {A B} (R : A -> B -> Prop) l l' : Forall2 R l l' -> length l = length l'.
Proof. induction 1; cbn; auto. Qed.
Theorem uid_preimage_depends arms exempt cl p q : pset_agree cl p q -> uid_preimage_with arms exempt cl p = uid_preimage_with arms exempt cl q.
Proof.
  intros [G [I O]]. rewrite !uid_preimage_unfold.
  assert (sanity_check p = sanity_check q) as ->.
  { unfold sanity_check. rewrite (G F_input_count), (G F_output_count) by (cbn; tauto). now rewrite (Forall2_len _ _ _ I), (Forall2_len _ _ _ O). }
  assert (locktime_with arms p = locktime_with arms q) as ->.
  { unfold locktime_with, fallback_of. rewrite (lt_fold_agree cl _ _ I), (G F_fallback) by (cbn; tauto). reflexivity. }
  rewrite (outs_agree _ _ O). unfold tx_version_of. rewrite (G F_tx_version) by (cbn; tauto).
  assert (map (fun i => strip_in_witness (uid_reset_in cl (txin_of_with exempt i))) (pinputs p)
        = map (fun i => strip_in_witness (uid_reset_in cl (txin_of_with exempt i))) (pinputs q)) as ->; [|reflexivity].
  induction I as [|a b l l' H F IH]; [reflexivity|]. cbn [map]. now rewrite (txin_agree cl exempt a b H), IH.
Qed.

(* single-field updates *)
Fixpoint upd_nth (l : list pmap) (i : nat) (g : pmap -> pmap) : list pmap :=
  match l, i with [], _ => [] | x :: r, O => g x :: r | x :: r, S i' => x :: upd_nth r i' g end.
Lemma agree_refl fs a : agree_on fs a a. Proof. intros f _. reflexivity. Qed.
Lemma Forall2_refl_agree fs l : Forall2 (agree_on fs) l l. Proof. induction l; constructor; auto using agree_refl. Qed.
Lemma Forall2_upd fs l i g : (forall x, agree_on fs x (g x)) -> Forall2 (agree_on fs) l (upd_nth l i g).
Proof. intros H. revert i. induction l as [|x l IH]; intros [|i]; cbn; constructor; auto using agree_refl, Forall2_refl_agree. Qed.
Lemma agree_set_unk fs m f v : ~ In f fs -> agree_on fs m (set_unk m f v).
Proof. intros N g I. cbn. destruct (bytes_eqb_spec g f) as [->|]; [contradiction|reflexivity]. Qed.
Lemma agree_set_kyd fs m f l : agree_on fs m (set_kyd m f l). Proof. intros g _. reflexivity. Qed.

(* ================================================================ from_tx then extract_tx *)
(* the pegin / issuance bits folded into the output index (from recon/sketches/Flags.v) *)
Lemma lor_disjoint_add a b : N.land a b = 0 -> N.lor a b = a + b.
Proof. intros Hd. rewrite <- N.lxor_lor by assumption. symmetry. now apply N.add_nocarry_lxor. Qed.
Lemma land_pow2_small v k : v < 2 ^ k -> N.land v (2 ^ k) = 0.
Proof. intros Hv. apply N.bits_inj; intros n. rewrite N.land_spec, N.bits_0, N.pow2_bits_eqb.
  destruct (N.eqb_spec k n) as [->|]; [|now rewrite andb_false_r].
  destruct (N.eq_dec v 0) as [->|NZ]; [now rewrite N.bits_0|]. rewrite N.bits_above_log2; [reflexivity|]. now apply N.log2_lt_pow2; [lia|]. Qed.
Lemma testbit_div w k : N.testbit w k = ((w / 2 ^ k) mod 2 =? 1).
Proof. pose proof (N.testbit_spec' w k) as S. destruct (N.testbit w k); cbn [N.b2n] in S; rewrite <- S; reflexivity. Qed.
Lemma index_arith v (p i : bool) : v < 2 ^ 30 ->
  N.lor (if p then N.lor v (2 ^ 30) else v) (if i then 2 ^ 31 else 0) = v + (if p then 2 ^ 30 else 0) + (if i then 2 ^ 31 else 0).
Proof.
  intros Hv. assert ((if p then N.lor v (2 ^ 30) else v) = v + (if p then 2 ^ 30 else 0)) as ->.
  { destruct p; [|lia]. apply lor_disjoint_add. now apply land_pow2_small. }
  destruct i; [|now rewrite N.lor_0_r, N.add_0_r]. apply lor_disjoint_add. apply land_pow2_small.
  change (2 ^ 30) with 1073741824 in *. change (2 ^ 31) with 2147483648. destruct p; lia.
Qed.

Definition wf_txin (i : txin) : Prop :=
  ti_sequence i < 2 ^ 32 /\
  ((ti_vout i < 2 ^ 30 /\ ~ (ti_vout i = 2 ^ 30 - 1 /\ ti_pegin i = true /\ ti_has_issuance i = true)) \/ (ti_vout i = 0xffffffff /\ ti_pegin i = false)) /\
  (ti_pegin i = false -> ti_pegin_witness i = empty_witness) /\                                  (* pegin witnesses only on pegin inputs *)
  (ti_has_issuance i = false -> ti_iss_nonce i = zero32 /\ ti_iss_entropy i = zero32 /\       (* a null issuance is all-null (C01) *)
                                ti_amount_rangeproof i = None /\ ti_keys_rangeproof i = None). (* issuance proofs only on issuances *)
(* F8a: a coinbase-style input comes back as a pegin unless is_pegin() exempts the index 0xffffffff *)
Definition known_F8a (exempt : bool) (i : txin) : Prop := exempt = false /\ ti_vout i = 0xffffffff /\ ti_pegin i = false.

Ltac lk := cbn [unk of_entries find fst snd];
  repeat match goal with |- context [bytes_eqb ?a ?b] => let r := eval vm_compute in (bytes_eqb a b) in change (bytes_eqb a b) with r end; cbv iota; cbn [fst snd].

Lemma u32_rt n : n < 2 ^ 32 -> u32_of (u32_enc n) = n.
Proof. intros H. unfold u32_of, u32_enc. apply le_val_enc. exact H. Qed.

Lemma txin_index_lt i : (ti_vout i < 2 ^ 30 \/ ti_vout i = 0xffffffff) -> txin_index i < 2 ^ 32.
Proof.
  intros [H| H]; unfold txin_index.
  - replace (if ti_has_issuance i then N.lor (if ti_pegin i then N.lor (ti_vout i) (2 ^ 30) else ti_vout i) (2 ^ 31) else if ti_pegin i then N.lor (ti_vout i) (2 ^ 30) else ti_vout i)
      with (N.lor (if ti_pegin i then N.lor (ti_vout i) (2 ^ 30) else ti_vout i) (if ti_has_issuance i then 2 ^ 31 else 0))
      by (destruct (ti_has_issuance i); [reflexivity|now rewrite N.lor_0_r]).
    rewrite index_arith by assumption. change (2 ^ 30) with 1073741824 in *. change (2 ^ 31) with 2147483648. change (2 ^ 32) with 4294967296.
    destruct (ti_pegin i), (ti_has_issuance i); lia.
  - rewrite H. destruct (ti_pegin i), (ti_has_issuance i); vm_compute; reflexivity.
Qed.

Lemma txin_roundtrip exempt i : wf_txin i -> ~ known_F8a exempt i -> txin_of_with exempt (from_txin i) = i.
Proof.
  intros [WS [WV [WP WI]]] NK. destruct i as [txid vout pegin ssig sq nonce entropy amount keys arp krp sw pw].
  cbn [ti_sequence ti_vout ti_pegin ti_pegin_witness ti_iss_nonce ti_iss_entropy ti_amount_rangeproof ti_keys_rangeproof] in *.
  set (i := mk_txin txid vout pegin ssig sq nonce entropy amount keys arp krp sw pw) in *.
  assert (prev_index (from_txin i) = txin_index i) as PI.
  { unfold prev_index, from_txin, txin_entries. lk. apply u32_rt, txin_index_lt. cbn [ti_vout i]. tauto. }
  unfold txin_of_with, is_pegin_with. rewrite PI.
  assert ((if txin_index i =? 4294967295 then txin_index i else N.land (txin_index i) 1073741823) = vout /\
          (if exempt && (txin_index i =? 4294967295) then false else N.testbit (txin_index i) 30) = pegin) as [-> ->].
  { unfold txin_index. cbn [ti_vout ti_pegin i]. fold i. destruct WV as [[LT NT]|[-> ->]].
    - replace (if ti_has_issuance i then N.lor (if pegin then N.lor vout (2 ^ 30) else vout) (2 ^ 31) else if pegin then N.lor vout (2 ^ 30) else vout)
        with (N.lor (if pegin then N.lor vout (2 ^ 30) else vout) (if ti_has_issuance i then 2 ^ 31 else 0))
        by (destruct (ti_has_issuance i); [reflexivity|now rewrite N.lor_0_r]).
      rewrite index_arith by assumption.
      set (w := vout + (if pegin then 2 ^ 30 else 0) + (if ti_has_issuance i then 2 ^ 31 else 0)).
      assert (w <> 4294967295) as NE.
      { unfold w. change (2 ^ 30) with 1073741824 in *. change (2 ^ 31) with 2147483648. intro E. apply NT. destruct pegin, (ti_has_issuance i); lia. }
      destruct (N.eqb_spec w 4294967295); [contradiction|]. rewrite andb_false_r. change 1073741823 with (N.ones 30). rewrite N.land_ones, testbit_div.
      unfold w. change (2 ^ 30) with 1073741824 in *. change (2 ^ 31) with 2147483648. split.
      + destruct pegin, (ti_has_issuance i); lia.
      + destruct pegin, (ti_has_issuance i); apply eq_true_iff_eq; rewrite N.eqb_eq; split; intros; try lia; try discriminate.
    - assert (exempt = true) as -> by (destruct exempt; [reflexivity|exfalso; apply NK; repeat split; reflexivity]).
      destruct (ti_has_issuance i); vm_compute; auto. }
  unfold from_txin, txin_entries. lk. cbn [or_default ti_txid ti_script_sig ti_sequence ti_script_witness i]. rewrite (u32_rt sq WS).
  fold i. destruct (ti_has_issuance i) eqn:HI.
  - subst i. unfold ti_has_issuance in HI. cbn [ti_iss_amount ti_iss_keys] in HI.
    cbn [ti_iss_nonce ti_iss_entropy ti_iss_amount ti_iss_keys ti_keys_rangeproof ti_amount_rangeproof ti_pegin ti_pegin_witness or_default].
    destruct amount, keys; try discriminate; cbn [cv_explicit cv_conf conf_pair]; destruct pegin; cbn [or_default]; rewrite ?(WP eq_refl); reflexivity.
  - destruct (WI eq_refl) as [-> [-> [-> ->]]]. subst i. unfold ti_has_issuance in HI. cbn [ti_iss_amount ti_iss_keys] in HI.
    destruct amount, keys; try discriminate. cbn [conf_pair or_default ti_pegin ti_pegin_witness].
    destruct pegin; cbn [or_default]; rewrite ?(WP eq_refl); reflexivity.
Qed.

Definition wf_txout (o : txout) : Prop := to_asset o <> CNull /\ to_value o <> CNull.            (* non-null outputs *)
(* F8b: the nonce of an output that is not partially blinded goes to `blinding_key` and does not come back; an explicit (32-byte) nonce is dropped *)
Definition known_F8b (o : txout) : Prop := (to_is_partially_blinded o = false /\ to_nonce o <> CNull) \/ (exists x, to_nonce o = CExplicit x).

Lemma txout_roundtrip o : wf_txout o -> ~ known_F8b o -> txout_of (from_txout o) = Val o.
Proof.
  intros [WA WV] NK. destruct o as [asset value nonce spk sp rp]. cbn [to_asset to_value] in *.
  unfold txout_of, from_txout, txout_entries. lk. cbn [to_asset to_value to_nonce to_spk to_rangeproof to_surjection_proof or_default].
  assert (match (if to_is_partially_blinded (mk_txout asset value nonce spk sp rp) then nonce_key nonce else None) with Some k => CConf k | None => CNull end = nonce) as ->.
  { destruct (to_is_partially_blinded _) eqn:PB; destruct nonce as [|x|k]; cbn [nonce_key]; try reflexivity; exfalso; apply NK;
      try (right; cbn [to_nonce]; eauto; fail); left; cbn [to_nonce]; (split; [assumption|discriminate]). }
  destruct asset, value; try contradiction; reflexivity.
Qed.

Definition wf_tx (t : tx) : Prop :=
  tx_version t < 2 ^ 32 /\ tx_lock_time t < 2 ^ 32 /\ N.of_nat (length (tx_ins t)) < 2 ^ 64 /\ N.of_nat (length (tx_outs t)) < 2 ^ 64 /\
  Forall wf_txin (tx_ins t) /\ Forall wf_txout (tx_outs t).

Lemma vi_rt n : n < 2 ^ 64 -> count_of (Some (vi_enc n)) = Some n.
Proof.
  intros H. unfold count_of. pose proof (l_complete c_varint_lawful n []) as C. cbn [wf enc dec c_varint] in C.
  rewrite app_nil_r in C. rewrite C; [reflexivity|]. now apply N.ltb_lt.
Qed.

Theorem extract_from_tx arms exempt t : arms_known arms -> wf_tx t ->
  Forall (fun i => ~ known_F8a exempt i) (tx_ins t) -> Forall (fun o => ~ known_F8b o) (tx_outs t) ->
  extract_tx_with arms exempt (from_tx t) = Val t.
Proof.
  intros K [WV [WL [WI [WO [FI FO]]]]] NA NB. destruct t as [v lt ins outs]. cbn [tx_version tx_lock_time tx_ins tx_outs] in *.
  unfold extract_tx_with, from_tx. cbn [tx_version tx_lock_time tx_ins tx_outs].
  assert (sanity_check (mkpset (of_entries [(fld "version", Some (u32_enc 2)); (F_tx_version, Some (u32_enc v)); (F_fallback, Some (u32_enc lt));
             (F_input_count, Some (vi_enc (N.of_nat (length ins)))); (F_output_count, Some (vi_enc (N.of_nat (length outs))))]) (map from_txin ins) (map from_txout outs)) = Val tt) as ->.
  { unfold sanity_check. cbn [pglobal pinputs poutputs]. lk. rewrite !vi_rt, !map_length, !N.eqb_refl by assumption. reflexivity. }
  cbn [obind].
  assert (forall l, lt_fold (map from_txin l) = (LU, LU)) as LF.
  { intros l. rewrite lt_fold_spec. unfold spec_state.
    assert (forall h, (forall i, h (from_txin i) = false) -> existsb h (map from_txin l) = false) as EX.
    { intros h Hh. induction l; cbn; [reflexivity|]. now rewrite Hh. }
    rewrite !EX; [reflexivity| | | |]; intros i; unfold time_only, height_only, has_time, has_height, req_time, req_height, from_txin, txin_entries; lk; reflexivity. }
  unfold locktime_with. cbn [pinputs pglobal]. rewrite LF. cbn [fst snd].
  assert (select_arm arms LU LU = Some LA_Fallback) as -> by (destruct K as [-> | ->]; reflexivity).
  cbn [obind]. unfold fallback_of, tx_version_of. lk. rewrite !u32_rt by assumption. cbn [poutputs].
  assert (outs_of (map from_txout outs) = Val outs) as ->.
  { clear WO. induction outs as [|o outs IH]; [reflexivity|]. inversion FO; inversion NB; subst. cbn [map outs_of]. rewrite txout_roundtrip, IH by assumption. reflexivity. }
  cbn [obind]. f_equal. f_equal.
  clear WI. induction ins as [|i ins IH]; [reflexivity|]. inversion FI; inversion NA; subst. cbn [map]. rewrite txin_roundtrip, IH by assumption. reflexivity.
Qed.

(* ================================================================ the output commitments are part of the id pre-image (used by C14) *)
Lemma conf_pair_comm e c e' c' : conf_pair e c = conf_pair e' c' -> c = c'.
Proof. destruct e, c, e', c'; cbn; congruence. Qed.
Lemma txout_of_comms x ox : txout_of x = Val ox ->
  to_value ox = conf_pair (unk x F_amount) (unk x F_amount_comm) /\ to_asset ox = conf_pair (unk x F_asset) (unk x F_asset_comm).
Proof.
  unfold txout_of. destruct (unk x F_asset_comm), (unk x F_asset), (unk x F_amount_comm), (unk x F_amount); intros H; try discriminate;
  injection H as <-; split; reflexivity.
Qed.
Lemma outs_comms_equal : forall l l' so,
  omap (map strip_out_witness) (outs_of l) = Val so -> omap (map strip_out_witness) (outs_of l') = Val so ->
  forall i x y, nth_error l i = Some x -> nth_error l' i = Some y ->
    unk x F_amount_comm = unk y F_amount_comm /\ unk x F_asset_comm = unk y F_asset_comm.
Proof.
  unfold omap. induction l as [|a l IH]; intros l' so H H' i x y X Y; [destruct i; discriminate|].
  destruct l' as [|b l']; [destruct i; discriminate|].
  cbn [outs_of] in H, H'.
  destruct (txout_of a) as [oa| |] eqn:A; cbn [obind] in H; try discriminate.
  destruct (outs_of l) as [ol| |] eqn:L; cbn [obind] in H; try discriminate.
  destruct (txout_of b) as [ob| |] eqn:B; cbn [obind] in H'; try discriminate.
  destruct (outs_of l') as [ol'| |] eqn:L'; cbn [obind] in H'; try discriminate.
  cbn [map] in H, H'. destruct so as [|s so]; [discriminate|].
  assert (strip_out_witness oa = s /\ map strip_out_witness ol = so) as [S1 S2] by (split; congruence).
  assert (strip_out_witness ob = s /\ map strip_out_witness ol' = so) as [T1 T2] by (split; congruence).
  destruct i as [|i]; cbn [nth_error] in X, Y.
  - injection X as <-. injection Y as <-.
    destruct (txout_of_comms _ _ A) as [VA AA]. destruct (txout_of_comms _ _ B) as [VB AB].
    assert (to_value oa = to_value ob /\ to_asset oa = to_asset ob) as [EV EA].
    { rewrite <- T1 in S1. unfold strip_out_witness in S1. split; congruence. }
    rewrite VA, VB in EV. rewrite AA, AB in EA. split; eapply conf_pair_comm; eauto.
  - apply (IH l' so) with (i := i); try assumption; [try rewrite L; cbn [obind]; now rewrite S2|try rewrite L'; cbn [obind]; now rewrite T2].
Qed.
Theorem commitments_fixed_by_uid arms exempt cl p q t :
  uid_preimage_with arms exempt cl p = Val t -> uid_preimage_with arms exempt cl q = Val t ->
  forall i x y, nth_error (poutputs p) i = Some x -> nth_error (poutputs q) i = Some y ->
    unk x F_amount_comm = unk y F_amount_comm /\ unk x F_asset_comm = unk y F_asset_comm.
Proof.
  rewrite !uid_preimage_unfold. intros HP HQ.
  destruct (sanity_check p); cbn [obind] in HP; try discriminate. destruct (locktime_with arms p); cbn [obind] in HP; try discriminate.
  destruct (omap (map strip_out_witness) (outs_of (poutputs p))) as [so| |] eqn:OP; cbn [obind] in HP; try discriminate.
  destruct (sanity_check q); cbn [obind] in HQ; try discriminate. destruct (locktime_with arms q); cbn [obind] in HQ; try discriminate.
  destruct (omap (map strip_out_witness) (outs_of (poutputs q))) as [so'| |] eqn:OQ; cbn [obind] in HQ; try discriminate.
  assert (so = so') as <- by congruence. eapply outs_comms_equal; eauto.
Qed.

(* ================================================================ revealing an explicit value next to an existing commitment *)
(* the property's "explicit-value proof fields" clause: a later role adds the explicit amount / asset (and its blind proof, which no
   extraction reads) next to a commitment that is already there; what is extracted — and hence the unique id — stays the commitment *)
Definition reveal_pairs_in : list (field * field) := [(F_iss_amount, F_iss_comm); (F_iss_keys, F_iss_keys_comm)].
Definition reveal_pairs_out : list (field * field) := [(F_amount, F_amount_comm); (F_asset, F_asset_comm)].
Ltac lk2 := cbn [unk set_unk];
  repeat match goal with |- context [bytes_eqb ?a ?b] => let r := eval vm_compute in (bytes_eqb a b) in change (bytes_eqb a b) with r end; cbv iota.

Lemma txin_of_reveal exempt m f fc v c : In (f, fc) reveal_pairs_in -> unk m fc = Some c -> txin_of_with exempt (set_unk m f v) = txin_of_with exempt m.
Proof.
  intros I C. unfold txin_of_with, is_pegin_with, prev_index.
  destruct I as [[= <- <-]|[[= <- <-]|[]]]; lk2; rewrite C.
  - destruct v, (unk m F_iss_amount); reflexivity.
  - destruct v, (unk m F_iss_keys); reflexivity.
Qed.
Lemma txout_of_reveal m f fc v c : In (f, fc) reveal_pairs_out -> unk m fc = Some c -> txout_of (set_unk m f v) = txout_of m.
Proof.
  intros I C. unfold txout_of.
  destruct I as [[= <- <-]|[[= <- <-]|[]]]; lk2; rewrite C.
  - destruct (unk m F_asset_comm), (unk m F_asset), v, (unk m F_amount); reflexivity.
  - destruct v, (unk m F_asset), (unk m F_amount_comm), (unk m F_amount); reflexivity.
Qed.
Lemma lt_step_reveal st m f fc v : In (f, fc) reveal_pairs_in -> lt_step st (set_unk m f v) = lt_step st m.
Proof. intros I. unfold lt_step, req_time, req_height. destruct I as [[= <- <-]|[[= <- <-]|[]]]; lk2; reflexivity. Qed.

Lemma upd_nth_length l i g : length (upd_nth l i g) = length l.
Proof. revert i. induction l as [|x l IH]; intros [|i]; cbn; auto. Qed.
Lemma upd_nth_fold {S} (step : S -> pmap -> S) g : (forall st m, step st (g m) = step st m) ->
  forall l i st, fold_left step (upd_nth l i g) st = fold_left step l st.
Proof. intros H. induction l as [|x l IH]; intros [|i] st; cbn [upd_nth fold_left]; auto. now rewrite H. Qed.
Lemma upd_nth_map {B} (h : pmap -> B) g : forall l i, h (g (nth i l empty_map)) = h (nth i l empty_map) -> map h (upd_nth l i g) = map h l.
Proof. induction l as [|x l IH]; intros [|i] H; cbn [upd_nth map nth] in *; auto; [now rewrite H|now rewrite IH]. Qed.
Lemma upd_nth_outs g : forall l i, txout_of (g (nth i l empty_map)) = txout_of (nth i l empty_map) -> outs_of (upd_nth l i g) = outs_of l.
Proof. induction l as [|x l IH]; intros [|i] H; cbn [upd_nth outs_of nth] in *; auto; [now rewrite H|now rewrite IH]. Qed.

Theorem extract_reveal_input arms exempt p i f fc v c : In (f, fc) reveal_pairs_in -> unk (nth i (pinputs p) empty_map) fc = Some c ->
  extract_tx_with arms exempt (mkpset (pglobal p) (upd_nth (pinputs p) i (fun m => set_unk m f v)) (poutputs p)) = extract_tx_with arms exempt p.
Proof.
  intros I C. unfold extract_tx_with, sanity_check, locktime_with, lt_fold. cbn [pglobal pinputs poutputs].
  rewrite upd_nth_length, (upd_nth_fold lt_step _ (fun st m => lt_step_reveal st m f fc v I)).
  now rewrite (upd_nth_map (txin_of_with exempt) _ _ _ (txin_of_reveal exempt _ f fc v c I C)).
Qed.
Theorem extract_reveal_output arms exempt p i f fc v c : In (f, fc) reveal_pairs_out -> unk (nth i (poutputs p) empty_map) fc = Some c ->
  extract_tx_with arms exempt (mkpset (pglobal p) (pinputs p) (upd_nth (poutputs p) i (fun m => set_unk m f v))) = extract_tx_with arms exempt p.
Proof.
  intros I C. unfold extract_tx_with, sanity_check, locktime_with. cbn [pglobal pinputs poutputs].
  now rewrite upd_nth_length, (upd_nth_outs _ _ _ (txout_of_reveal _ f fc v c I C)).
Qed.
