(* C06: uniqueness of the checksum symbols, regrouping 5 -> 8 -> 5 under the padding rules, characters in both letter cases, hence
   (i) encode (decode s) = lower s for every text the segwit decoder accepts, (ii) parse s = a -> display a = lower s / s (canonical form),
   (iii) the round trip of the upper-case form of a displayed segwit address. *)
From Coq Require Import List NArith ZArith Bool Lia ZifyN ZifyBool ZifyNat.
From Coq.Strings Require Import Byte.
From EV Require Import Base.Bytes Gen.Tables Model.Bech32 Model.Base58 Model.Address Proofs.Bech32 Proofs.Bech32Codes Proofs.Bech32Enc Proofs.Address
  Proofs.AddressRT Proofs.Numeral Proofs.AddressB58.
Ltac Zify.zify_post_hook ::= Z.div_mod_to_equations.
Import ListNotations.
Open Scope N_scope.
Set Default Timeout 30.

(* ---------------------------------------------------------------- the checksum symbols are determined by what precedes them *)
Section Uniq.
Variable gen : list N. Variable n : nat.
Hypothesis n_pos : (1 <= n)%nat.
Let sh : N := 5 * (N.of_nat n - 1).

Lemma pack_value l : forall acc, pack_from acc l = value 32 l acc.
Proof. induction l as [|x l IH]; intros acc; [reflexivity|]. unfold pack_from in *. cbn [fold_left value]. apply IH. Qed.
Lemma checksum_unique s0 ck1 ck2 : syms ck1 -> syms ck2 -> length ck1 = n -> length ck2 = n ->
  feedg gen sh s0 ck1 = feedg gen sh s0 ck2 -> ck1 = ck2.
Proof. intros S1 S2 L1 L2 E. rewrite (feed_split gen sh ck1 s0 S1), (feed_split gen sh ck2 s0 S2), L1, L2 in E. apply lxor_cancel in E.
  unfold sh in E. rewrite (feed_clean gen n n_pos ck1 0 0), (feed_clean gen n n_pos ck2 0 0) in E; try assumption; try (cbn; lia).
  rewrite !pack_value in E. apply (value_inj 32 ltac:(lia)); [congruence|exact S1|exact S2|exact E]. Qed.
End Uniq.

Lemma checksum_syms_unique c : In c the_codes -> forall pre ck, sym_word pre -> sym_word ck -> length ck = c_len c ->
  valid_codeword c (pre ++ ck) = true -> ck = checksum_syms c pre.
Proof. intros I pre ck Sp Sc Lc V. pose proof (checksum_valid c I pre Sp) as V2.
  assert (NP : (1 <= c_len c)%nat) by (cbn in I; destruct I as [<-|[<-|[<-|[<-|[]]]]]; vm_compute; lia).
  unfold valid_codeword, residue, feed in V, V2. apply N.eqb_eq in V, V2. rewrite fold_left_app in V, V2.
  apply (checksum_unique (c_gen c) (c_len c) NP (fold_left (cstep c) pre 1)); [exact Sc|apply checksum_syms_sym|exact Lc|apply checksum_syms_length|].
  unfold feedg, cstep, shift_of in *. rewrite V2. exact V. Qed.

(* ---------------------------------------------------------------- regrouping 5 -> 8 -> 5 *)
Lemma val_bits5 x : x < 32 -> val_of (bits_of 5 x) 0 = x.
Proof. revert x. apply lt32_cases. intros k I. cbn in I. repeat (destruct I as [<-|I]; [reflexivity|]). contradiction. Qed.
Lemma app_eq_length {A} (a : list A) : forall b c d, length a = length c -> a ++ b = c ++ d -> a = c /\ b = d.
Proof. induction a as [|x a IH]; intros b [|y c] d L E; try discriminate L; [now split|]. cbn [app] in E. injection E as -> E.
  cbn [length] in L. apply Nat.succ_inj in L. destruct (IH _ _ _ L E) as [-> ->]. now split. Qed.
Lemma bits_of_syms_inj l1 : forall l2, sym_word l1 -> sym_word l2 -> bits_of_syms l1 = bits_of_syms l2 -> l1 = l2.
Proof. induction l1 as [|x l1 IH]; intros [|y l2] S1 S2 E.
  - reflexivity.
  - apply (f_equal (@length bool)) in E. rewrite !bits_of_syms_length in E. cbn [length] in E. lia.
  - apply (f_equal (@length bool)) in E. rewrite !bits_of_syms_length in E. cbn [length] in E. lia.
  - inversion S1 as [|? ? Hx S1']; subst. inversion S2 as [|? ? Hy S2']; subst. unfold bits_of_syms in E. cbn [flat_map] in E.
    apply app_eq_length in E as [E1 E2]; [|now rewrite !bits_of_length]. f_equal; [|now apply IH].
    rewrite <- (val_bits5 x Hx), <- (val_bits5 y Hy). now rewrite E1. Qed.
Lemma bits8_val a b c d e f g h : bits_of 8 (b2n (n2b (val_of [a; b; c; d; e; f; g; h] 0))) = [a; b; c; d; e; f; g; h].
Proof. destruct a, b, c, d, e, f, g, h; reflexivity. Qed.
Lemma bits_chunk8 m : forall B pad, length B = (8 * m)%nat -> (length pad < 8)%nat -> bits_of_bytes (chunk8 (B ++ pad)) = B.
Proof. induction m as [|m IH]; intros B pad L Lp.
  - destruct B; [|cbn [length] in L; lia]. cbn [app]. now rewrite chunk8_short.
  - do 8 (destruct B as [|? B]; [cbn [length] in L; lia|]). cbn [app chunk8]. unfold bits_of_bytes in *. cbn [flat_map]. rewrite bits8_val. cbn [app].
    do 8 f_equal. apply IH; [cbn [length] in L; lia|exact Lp]. Qed.
Lemma pad_bits x r : x < 32 -> (r <= 4)%nat -> N.land x (N.ones (N.of_nat r)) = 0 -> bits_of 5 x = firstn (5 - r) (bits_of 5 x) ++ repeat false r.
Proof. intros Hx Hr. revert x Hx. apply (lt32_cases (fun x => N.land x (N.ones (N.of_nat r)) = 0 -> bits_of 5 x = firstn (5 - r) (bits_of 5 x) ++ repeat false r)).
  intros k I. cbn in I. destruct r as [|[|[|[|[|r]]]]]; try lia;
    repeat (destruct I as [<-|I]; [intros E; vm_compute in E; try discriminate E; reflexivity|]); contradiction. Qed.

Lemma validate_padding_inv body x : validate_padding (body ++ [x]) = Ok tt ->
  let pad := (((length body + 1) * 5) mod 8)%nat in (pad <= 4)%nat /\ N.land x (N.ones (N.of_nat pad)) = 0.
Proof. unfold validate_padding. destruct (body ++ [x]) as [|y ys] eqn:E; [destruct body; discriminate E|]. rewrite <- E. clear y ys E.
  rewrite app_length, last_last. cbn [length]. set (pad := (((length body + 1) * 5) mod 8)%nat). cbv zeta.
  destruct (Nat.ltb_spec 4 pad); [discriminate|]. destruct (N.eqb_spec (N.land x (N.ones (N.of_nat pad))) 0); [|discriminate]. intros _. split; [lia|assumption]. Qed.

(* C06 regrouping, decode -> encode direction: the symbols the decoder turned into bytes are the symbols of those bytes *)
Theorem bytes_fes_roundtrip body : sym_word body -> validate_padding body = Ok tt -> bytes_to_fes (fes_to_bytes body) = body.
Proof. destruct body as [|x body' _] using rev_ind; [reflexivity|]. intros S VP. apply Forall_app in S as [S' Sx]. inversion Sx as [|? ? Hx _]; subst.
  destruct (validate_padding_inv _ _ VP) as [P4 PZ]. set (pad := (((length body' + 1) * 5) mod 8)%nat) in *.
  set (B := bits_of_syms body' ++ firstn (5 - pad) (bits_of 5 x)).
  assert (EQ : bits_of_syms (body' ++ [x]) = B ++ repeat false pad).
  { unfold B, bits_of_syms. rewrite flat_map_app. cbn [flat_map]. rewrite app_nil_r, <- app_assoc. f_equal. now apply pad_bits. }
  assert (LB : length B = (5 * length body' + (5 - pad))%nat).
  { unfold B. rewrite app_length, bits_of_syms_length, firstn_length, bits_of_length. lia. }
  assert (L8 : length B = (8 * (length B / 8))%nat) by (rewrite LB; unfold pad; lia).
  unfold bytes_to_fes, fes_to_bytes. rewrite EQ, (bits_chunk8 (length B / 8) B _ L8) by (rewrite repeat_length; lia).
  destruct (chunk5_spec (length B) B ltac:(lia)) as (C1 & _ & _).
  apply bits_of_syms_inj; [apply (chunk5_sym (length B)); lia|apply Forall_app; split; assumption|].
  rewrite C1, EQ. f_equal. f_equal. rewrite LB. unfold padlen. lia. Qed.

(* ---------------------------------------------------------------- characters *)
Lemma from_char_to_char c v : from_char c = Some v -> to_char v = to_lower c.
Proof. destruct c; intros E; vm_compute in E; try discriminate E; apply Some_inj in E; subst v; reflexivity. Qed.
Lemma syms_of_lower d w : syms_of d = Some w -> map to_char w = lower d.
Proof. unfold syms_of. intros E. apply all_some_map_inv in E. induction E as [|c v d' w' F _ IH]; [reflexivity|]. cbn [map lower]. unfold lower in IH.
  now rewrite IH, (from_char_to_char _ _ F). Qed.
Lemma eq_lower_lower a : forall b, eq_lower a b = true -> lower a = lower b.
Proof. induction a as [|x a IH]; intros [|y b] E; try discriminate E; [reflexivity|]. cbn [eq_lower] in E. apply andb_true_iff in E as [E1 E2].
  destruct (byte_eqb_spec (to_lower x) (to_lower y)) as [E|]; [|discriminate]. cbn [lower map]. rewrite E. f_equal. now apply IH. Qed.
Lemma to_lower_idem b : to_lower (to_lower b) = to_lower b.
Proof. destruct b; reflexivity. Qed.
Lemma hrp_expand_lower h : hrp_expand (lower h) = hrp_expand h.
Proof. unfold hrp_expand, lower. rewrite !map_map. f_equal; [|f_equal]; apply map_ext; intros b; now rewrite to_lower_idem. Qed.
Lemma hrp_expand_eq_lower a b : eq_lower a b = true -> hrp_expand a = hrp_expand b.
Proof. intros E. rewrite <- (hrp_expand_lower a), <- (hrp_expand_lower b). now rewrite (eq_lower_lower _ _ E). Qed.

(* ---------------------------------------------------------------- encode (decode s) = lower s *)
Theorem segwit_canonical cfg s v data hrp : segwit_decode cfg s = Ok (v, data) -> In (code_for cfg v) the_codes ->
  eq_lower hrp (find_prefix s) = true -> encode_segwit (code_for cfg v) hrp v data = lower s.
Proof. intros E Ic M. destruct (segwit_decode_inv _ _ _ _ E) as (h & d & w & rest & body & R & P & S & Ew & LV & VC & _ & F & VP & VW & ->).
  set (c := code_for cfg v) in *. assert (FP : find_prefix s = h) by (unfold find_prefix; now rewrite R). rewrite FP in M.
  apply rsplit_spec in R as [-> _]. destruct (syms_of_spec _ _ S) as (Sw & _ & _).
  assert (NZ : c_len c <> 0%nat) by (cbn in Ic; destruct Ic as [<-|[<-|[<-|[<-|[]]]]]; vm_compute; discriminate).
  apply validate_checksum_ok in VC as [LC V]; [|exact NZ].
  set (k := (length w - c_len c)%nat) in *. set (ck := skipn k w).
  assert (W : w = (v :: body) ++ ck) by (rewrite <- F; symmetry; apply firstn_skipn).
  assert (Lck : length ck = c_len c) by (unfold ck; rewrite skipn_length; unfold k; lia).
  rewrite W in Sw. apply Forall_app in Sw as [Sb Sck]. assert (Sbody : sym_word body) by (now inversion Sb).
  assert (CK : ck = checksum_syms c (hrp_expand h ++ v :: body)).
  { apply checksum_syms_unique; [exact Ic|apply Forall_app; split; [apply hrp_expand_sym|exact Sb]|exact Sck|exact Lck|].
    rewrite <- app_assoc. rewrite <- W. exact V. }
  unfold encode_segwit. rewrite (bytes_fes_roundtrip body Sbody VP), (hrp_expand_eq_lower _ _ M), <- CK, <- W, (syms_of_lower _ _ S), (eq_lower_lower _ _ M).
  unfold lower. rewrite map_app. reflexivity. Qed.

(* ---------------------------------------------------------------- address level: canonical form *)
Section Canon.
Variable H : bytes -> bytes. Variable pkv : bytes -> bool.

Lemma from_bech32_display s bl p a : from_bech32 pkv s bl p = AOk a -> eq_lower (hrp_of p bl) (find_prefix s) = true -> is_segwit a /\ display H a = lower s.
Proof. unfold from_bech32. intros E M. destruct bl; cbn [hrp_of] in M.
  - destruct (segwit_decode cfg_blech s) as [[v data]|] eqn:D; [|discriminate]. destruct (Nat.ltb (length data) 33); [discriminate|].
    remember (firstn 33 data) as pk eqn:Epk. remember (skipn 33 data) as pr eqn:Epr.
    destruct (pkv pk); [|discriminate]. destruct (prog_len_bad pr); [discriminate|]. injection E as <-. split; [eexists _, _; reflexivity|].
    unfold display. cbn [a_params a_payload a_blinder]. subst pk pr. rewrite firstn_skipn.
    assert (Ic : In (code_for cfg_blech v) the_codes).
    { unfold code_for. change (sw_code_v0 cfg_blech) with blech32. change (sw_code_v1 cfg_blech) with blech32m. destruct (v =? 0); cbn; tauto. }
    exact (segwit_canonical cfg_blech s v data (p_blech p) D Ic M).
  - destruct (segwit_decode cfg_bech s) as [[v data]|] eqn:D; [|discriminate]. destruct (prog_len_bad data); [discriminate|].
    injection E as <-. split; [eexists _, _; reflexivity|].
    unfold display. cbn [a_params a_payload a_blinder].
    assert (Ic : In (code_for cfg_bech v) the_codes) by (unfold code_for; cbn [sw_code_v0 sw_code_v1 cfg_bech]; destruct (v =? 0); cbn; tauto).
    exact (segwit_canonical cfg_bech s v data (p_bech p) D Ic M). Qed.

Lemma from_base58_display data p a : from_base58 pkv data p = AOk a -> display H a = b58_encode_check H data.
Proof. unfold from_base58. intros E. destruct data as [|bp bd]; [discriminate|]. cbv zeta in E.
  destruct (N.eqb_spec (b2n bp) (p_blinded p)) as [EB|_].
  - destruct bd as [|prefix pkh]; [discriminate|]. destruct (negb (Nat.eqb (length pkh) 53)); [discriminate|].
    remember (firstn 33 pkh) as pk eqn:Epk. remember (skipn 33 pkh) as pr eqn:Epr. destruct (pkv pk); [|discriminate].
    destruct (N.eqb_spec (b2n prefix) (p_p2pkh p)) as [E1|_]; [|destruct (N.eqb_spec (b2n prefix) (p_p2sh p)) as [E2|_]; [|discriminate]];
      injection E as <-; unfold display; cbn [a_params a_payload a_blinder]; subst pk pr; rewrite firstn_skipn, <- EB, n2b_b2n;
      [rewrite <- E1|rewrite <- E2]; now rewrite n2b_b2n.
  - destruct (negb (Nat.eqb (length bd) 20)); [discriminate|].
    destruct (N.eqb_spec (b2n bp) (p_p2pkh p)) as [E1|_]; [|destruct (N.eqb_spec (b2n bp) (p_p2sh p)) as [E2|_]; [|discriminate]];
      injection E as <-; unfold display; cbn [a_params a_payload a_blinder]; [rewrite <- E1|rewrite <- E2]; now rewrite n2b_b2n. Qed.

(* C06 canonical: parsing then displaying returns the lower-case form of a segwit string, and a base58check string unchanged *)
Theorem canonical s p a : parse_with_params H pkv s p = AOk a ->
  (is_segwit a /\ display H a = lower s) \/ (~ is_segwit a /\ display H a = s).
Proof. unfold parse_with_params, match_prefix. intros E.
  destruct (eq_lower (p_bech p) (find_prefix s)) eqn:MB; [|destruct (eq_lower (p_blech p) (find_prefix s)) eqn:ML]; cbn [orb] in E.
  - left. destruct (eq_lower (p_blech p) (find_prefix s)) eqn:ML.
    + exact (from_bech32_display s true p a E ML).
    + exact (from_bech32_display s false p a E MB).
  - left. exact (from_bech32_display s true p a E ML).
  - right. destruct (too_long_for_base58 s); [discriminate|]. destruct (b58_decode_check H s) as [data|] eqn:DC; [|discriminate].
    split; [exact (from_base58_not_segwit _ _ _ _ E)|]. rewrite (from_base58_display _ _ _ E). exact (b58_check_canonical H _ _ DC). Qed.
End Canon.

(* ---------------------------------------------------------------- the upper-case form *)
Lemma to_char_upper_facts v : v < 32 -> from_char (to_upper (to_char v)) = Some v /\ to_upper (to_char v) <> x31.
Proof. revert v. apply lt32_cases. intros k I. cbn in I. repeat (destruct I as [<-|I]; [split; [reflexivity|discriminate]|]). contradiction. Qed.
Lemma is_lower_to_upper b : is_lower (to_upper b) = false.
Proof. destruct b; reflexivity. Qed.
Lemma no_lower_upper s : existsb is_lower (upper s) = false.
Proof. induction s as [|c s IH]; [reflexivity|]. cbn [upper map existsb]. unfold upper in IH. now rewrite is_lower_to_upper, IH. Qed.
Lemma to_lower_to_upper b : to_lower (to_upper b) = to_lower b.
Proof. destruct b; reflexivity. Qed.
Lemma hrp_expand_upper h : hrp_expand (upper h) = hrp_expand h.
Proof. unfold hrp_expand, upper. rewrite !map_map. f_equal; [|f_equal]; apply map_ext; intros b; now rewrite to_lower_to_upper. Qed.
Lemma eq_lower_upper h : eq_lower h (upper h) = true.
Proof. induction h as [|b h IH]; [reflexivity|]. cbn [upper map eq_lower]. unfold upper in IH. now rewrite to_lower_to_upper, byte_eqb_refl, IH. Qed.

Lemma word_chars_upper w : sym_word w -> syms_of (upper (map to_char w)) = Some w /\ ~ In x31 (upper (map to_char w)) /\
  forallb (fun c => match from_char c with Some _ => true | None => false end) (upper (map to_char w)) = true.
Proof. unfold syms_of, upper. induction w as [|v w IH]; intros S; [repeat split; auto|]. inversion S as [|? ? Hv Hw]; subst.
  destruct (to_char_upper_facts v Hv) as (F1 & F3). destruct (IH Hw) as (I1 & I3 & I4). cbn [map all_some forallb].
  rewrite F1, I1, I4. repeat split; auto. intros [X|X]; [now apply F3|now apply I3]. Qed.

(* segwit_decode_complete of Proofs/AddressRT.v with the mixed-case test stated as it is (instead of "no upper-case character") *)
Lemma segwit_decode_complete2 cfg s h d w v rest body :
  match sw_max_string cfg with Some m => (length s <= m)%nat | None => True end ->
  rsplit x31 s = Some (h, d) ->
  forallb (fun c => match from_char c with Some _ => true | None => false end) d = true ->
  existsb is_upper s && existsb is_lower s = false -> hrp_parse h = Ok tt -> syms_of d = Some w -> w = v :: rest -> v <= sw_max_version cfg ->
  validate_checksum cfg (code_for cfg v) (length s) h w = Ok tt ->
  firstn (length w - c_len (code_for cfg v)) w = v :: body -> validate_padding body = Ok tt -> validate_wpl cfg v body = Ok tt ->
  segwit_decode cfg s = Ok (v, fes_to_bytes body).
Proof. intros M R V U P S -> LV VC F VP VW. unfold segwit_decode.
  replace (match sw_max_string cfg with Some m => Nat.ltb m (length s) | None => false end) with false
    by (destruct (sw_max_string cfg) as [m|]; [symmetry; apply Nat.ltb_ge; exact M|reflexivity]).
  unfold unchecked_new, check_characters. rewrite R, V, U. cbn [negb]. rewrite P, S.
  replace (sw_max_version cfg <? v) with false by (symmetry; apply N.ltb_ge; exact LV).
  fold (code_for cfg v). rewrite VC, F, VP, VW. reflexivity. Qed.

Lemma encode_decode_upper cfg c h v data :
  code_for cfg v = c -> In c the_codes -> lower h = h -> hrp_parse (upper h) = Ok tt ->
  v <= sw_max_version cfg -> v < 32 ->
  match sw_max_string cfg with Some m => (length h + 2 + length (bytes_to_fes data) + c_len c <= m)%nat | None => True end ->
  match sw_code_length cfg with Some m => (length h + 2 + length (bytes_to_fes data) + c_len c <= m)%nat | None => True end ->
  validate_wpl cfg v (bytes_to_fes data) = Ok tt ->
  segwit_decode cfg (upper (encode_segwit c h v data)) = Ok (v, data).
Proof. intros HC IC LH PH LV V32 MS CL VW. unfold encode_segwit. rewrite LH.
  set (body := v :: bytes_to_fes data). set (ck := checksum_syms c (hrp_expand h ++ body)). set (w := body ++ ck).
  assert (EU : upper (h ++ [x31] ++ map to_char w) = upper h ++ x31 :: upper (map to_char w)) by (unfold upper; rewrite map_app; reflexivity).
  rewrite EU.
  assert (Sb : sym_word body) by (constructor; [exact V32|apply bytes_to_fes_sym]).
  assert (Sw : sym_word w) by (apply Forall_app; split; [exact Sb|apply checksum_syms_sym]).
  destruct (word_chars_upper w Sw) as (W1 & W3 & W4).
  assert (Lck : length ck = c_len c) by apply checksum_syms_length.
  assert (Lw : length w = (1 + length (bytes_to_fes data) + c_len c)%nat) by (unfold w, body; rewrite app_length, Lck; cbn [length]; lia).
  assert (Ls : length (upper h ++ x31 :: upper (map to_char w)) = (length h + 2 + length (bytes_to_fes data) + c_len c)%nat)
    by (unfold upper; rewrite app_length; cbn [length]; rewrite !map_length, Lw; lia).
  assert (NZ : c_len c <> 0%nat) by (cbn in IC; destruct IC as [<-|[<-|[<-|[<-|[]]]]]; vm_compute; discriminate).
  replace (@Ok (N * bytes) (v, data)) with (@Ok (N * bytes) (v, fes_to_bytes (bytes_to_fes data))) by (now rewrite fes_bytes_roundtrip).
  apply (segwit_decode_complete2 cfg _ (upper h) (upper (map to_char w)) w v (bytes_to_fes data ++ ck) (bytes_to_fes data)).
  - rewrite Ls. exact MS.
  - apply rsplit_app. exact W3.
  - exact W4.
  - rewrite <- EU, no_lower_upper. apply andb_false_r.
  - exact PH.
  - exact W1.
  - reflexivity.
  - exact LV.
  - rewrite HC. unfold validate_checksum. rewrite Ls.
    replace (match sw_code_length cfg with Some cl => Nat.ltb cl _ | None => false end) with false
      by (destruct (sw_code_length cfg) as [m|]; [symmetry; apply Nat.ltb_ge; exact CL|reflexivity]).
    destruct (Nat.eqb_spec (c_len c) 0); [contradiction|]. destruct (Nat.ltb_spec (length w) (c_len c)); [lia|].
    rewrite hrp_expand_upper. unfold w. rewrite app_assoc. unfold ck. rewrite checksum_valid; [reflexivity|exact IC|].
    apply Forall_app; split; [apply hrp_expand_sym|exact Sb].
  - rewrite HC, Lw. replace (1 + length (bytes_to_fes data) + c_len c - c_len c)%nat with (length body) by (unfold body; cbn [length]; lia).
    unfold w. rewrite firstn_app, Nat.sub_diag, firstn_all. cbn [firstn]. now rewrite app_nil_r.
  - apply bytes_to_fes_padding.
  - exact VW. Qed.

Lemma builtin_hrp_upper_facts p bl : In p builtin -> hrp_parse (upper (hrp_of p bl)) = Ok tt.
Proof. intros I. cbn in I. destruct I as [<-|[<-|[<-|[]]]], bl; vm_compute; reflexivity. Qed.

Section RTUpper.
Variable H : bytes -> bytes. Variable pkv : bytes -> bool.

(* C06 round trip, upper-case form of a segwit address *)
Theorem roundtrip_segwit_upper a : wf_addr pkv a -> is_segwit a ->
  parse_with_params H pkv (upper (display H a)) (a_params a) = AOk a /\ from_str H pkv (upper (display H a)) = AOk a.
Proof. destruct a as [p pay blinder]. intros (Ip & WB & WP) (v & prog & EP). cbn [a_params a_payload a_blinder] in *. subst pay.
  destruct WP as (LV & LP & V0).
  set (bl := match blinder with Some _ => true | None => false end).
  destruct (builtin_hrp_facts p bl Ip) as (F1 & F2 & F3 & F4 & F5). pose proof (builtin_hrp_upper_facts p bl Ip) as F6.
  set (h := hrp_of p bl) in *.
  set (data := match blinder with Some b => b ++ prog | None => prog end).
  set (c := required_code bl v).
  assert (ED : display H (mkAddr p (WitnessProgram v prog) blinder) = encode_segwit c h v data) by (unfold display, c, h, data, bl, required_code; cbn [a_params a_payload a_blinder]; destruct blinder; reflexivity).
  rewrite ED.
  assert (V32 : v < 32) by lia.
  assert (Ic : In c the_codes) by (unfold c, required_code; destruct bl, (v =? 0); cbn; tauto).
  assert (Lfes : (length (bytes_to_fes data) <= (8 * length data + 4) / 5)%nat) by (rewrite bytes_to_fes_length; lia).
  assert (DEC : segwit_decode (if bl then cfg_blech else cfg_bech) (upper (encode_segwit c h v data)) = Ok (v, data)).
  { destruct blinder as [b|]; cbn [bl].
    - destruct WB as [Lb Pb]. assert (Ld : length data = (33 + length prog)%nat) by (unfold data; rewrite app_length; lia).
      apply encode_decode_upper;
        [unfold c, required_code, code_for; cbn [bl]; destruct (v =? 0); reflexivity|exact Ic|exact F1|exact F6|exact LV|exact V32|exact I|exact I|].
      apply wpl_ok; [change (sw_len_min cfg_blech) with 2%nat; change (sw_len_max cfg_blech) with 73%nat; lia|].
      change (sw_len_v0_a cfg_blech) with 53%nat; change (sw_len_v0_b cfg_blech) with 65%nat. intros E. destruct (V0 E); lia.
    - assert (Ld : length data = length prog) by reflexivity.
      assert (Lc : c_len c = 6%nat) by (unfold c, required_code; cbn [bl]; destruct (v =? 0); reflexivity).
      apply encode_decode_upper;
        [unfold c, required_code, code_for; cbn [bl]; destruct (v =? 0); reflexivity|exact Ic|exact F1|exact F6|exact LV|exact V32
        |cbn [sw_max_string cfg_bech]; rewrite Lc; lia|cbn [sw_code_length cfg_bech]; rewrite Lc; lia|].
      apply wpl_ok; [change (sw_len_min cfg_bech) with 2%nat; change (sw_len_max cfg_bech) with 40%nat; lia|].
      change (sw_len_v0_a cfg_bech) with 20%nat; change (sw_len_v0_b cfg_bech) with 32%nat. intros E. destruct (V0 E); lia. }
  assert (FB : from_bech32 pkv (upper (encode_segwit c h v data)) bl p = AOk (mkAddr p (WitnessProgram v prog) blinder)).
  { assert (PLB : prog_len_bad prog = false) by (apply prog_len_ok; exact LP).
    unfold from_bech32. destruct blinder as [b|]; cbn [bl] in *; rewrite DEC; [|unfold data; rewrite PLB; reflexivity].
    destruct WB as [Lb Pb]. unfold data. rewrite app_length. destruct (Nat.ltb_spec (length b + length prog) 33); [lia|].
    rewrite <- Lb. rewrite firstn_app, Nat.sub_diag, firstn_all, firstn_O, app_nil_r, Pb.
    rewrite skipn_app, Nat.sub_diag, skipn_all. change ([] ++ skipn 0 prog) with prog. rewrite PLB. reflexivity. }
  assert (FP : find_prefix (upper (encode_segwit c h v data)) = upper h).
  { unfold find_prefix, encode_segwit. rewrite F1. set (w := (v :: bytes_to_fes data) ++ _).
    assert (Sw : sym_word w) by (apply Forall_app; split; [constructor; [exact V32|apply bytes_to_fes_sym]|apply checksum_syms_sym]).
    destruct (word_chars_upper w Sw) as (_ & W3 & _).
    assert (EU : upper (h ++ [x31] ++ map to_char w) = upper h ++ x31 :: upper (map to_char w)) by (unfold upper; rewrite map_app; reflexivity).
    rewrite EU. now rewrite (rsplit_app _ _ _ W3). }
  assert (M : match_prefix (upper h) (hrp_of p bl) = true) by (unfold match_prefix; apply eq_lower_upper).
  assert (UNIQ : forall p' bl', In p' builtin -> match_prefix (upper h) (hrp_of p' bl') = true -> p' = p /\ bl' = bl).
  { intros p' bl' I' M'. unfold match_prefix in M, M'. apply (builtin_hrps_distinct p' p bl' bl I' Ip). exact (eq_lower_trans_r _ _ _ M' M). }
  split.
  - unfold parse_with_params. rewrite FP. destruct bl eqn:EB.
    + change (match_prefix (upper h) (p_blech p)) with (match_prefix (upper h) (hrp_of p true)). rewrite M, orb_true_r. exact FB.
    + change (match_prefix (upper h) (p_bech p)) with (match_prefix (upper h) (hrp_of p false)). rewrite M. cbn [orb].
      destruct (match_prefix (upper h) (p_blech p)) eqn:ML; [|exact FB]. destruct (UNIQ p true Ip ML) as [_ X]. discriminate.
  - unfold from_str. rewrite FP. rewrite (from_str_bech_first pkv _ (upper h) p bl builtin UNIQ Ip M). exact FB. Qed.
End RTUpper.

(* ---------------------------------------------------------------- C06_roundtrip, all address kinds *)
Section RTAll.
Variable H : bytes -> bytes. Variable pkv : bytes -> bool.

Lemma is_segwit_dec a : is_segwit a \/ ~ is_segwit a.
Proof. unfold is_segwit. destruct (a_payload a) as [h|h|v prog]; [right|right|left; eauto]; intros (v & prog & E); discriminate E. Qed.

Theorem roundtrip_all : (forall x, 4 <= length (H x))%nat -> forall a, wf_addr pkv a ->
  (parse_with_params H pkv (display H a) (a_params a) = AOk a /\ from_str H pkv (display H a) = AOk a) /\
  (is_segwit a -> parse_with_params H pkv (upper (display H a)) (a_params a) = AOk a /\ from_str H pkv (upper (display H a)) = AOk a).
Proof. intros H4 a WF. split; [|intros SW; now apply roundtrip_segwit_upper].
  destruct (is_segwit_dec a) as [SW|NS]; [now apply roundtrip_segwit|now apply roundtrip_base58]. Qed.

Theorem canonical_from_str s a : from_str H pkv s = AOk a -> (is_segwit a /\ display H a = lower s) \/ (~ is_segwit a /\ display H a = s).
Proof. intros E. destruct (from_str_is_parse H pkv s a E) as (p & _ & E'). exact (canonical H pkv s p a E'). Qed.
End RTAll.
