(* C15 — lemmas about Model/Huffman.v. *)
From Coq Require Import List Arith NArith ZArith Bool Lia ZifyN ZifyBool ZifyNat Permutation.
From Coq.Strings Require Import Byte.
From EV Require Import Base.Bytes Gen.Tables Model.Taproot Model.Huffman Proofs.Taproot.
Import ListNotations.
Ltac Zify.zify_post_hook ::= Z.div_mod_to_equations.

Section GEN.
Variable X : Type.
Variable xcmp : X -> X -> comparison.
Variable xcomb : X -> X -> res berr X.
Notation entry_cmp := (entry_cmp X xcmp).
Notation pop_max := (pop_max X xcmp).
Notation huff_loop := (huff_loop X xcmp xcomb).

(* BinaryHeap::pop: a rearrangement of the multiset whose head has the least weight *)
Lemma pop_max_spec : forall l x m rest, pop_max x l = (m, rest) ->
  Permutation (x :: l) (m :: rest) /\ (forall y, In y (x :: l) -> (fst m <= fst y)%N).
Proof. induction l as [|y r IH]; intros x m rest E; cbn [Huffman.pop_max] in E.
  - inversion E; subst. split; [reflexivity|]. intros y [<-|[]]. lia.
  - destruct (pop_max y r) as [m' rest'] eqn:P. destruct (IH y m' rest' P) as [Pm Min].
    unfold Huffman.entry_cmp in E. destruct (N.compare_spec (fst m') (fst x)) as [Ew|Lw|Gw].
    + (* equal weights: the node order decides; either way both have the least weight *)
      destruct (xcmp (snd x) (snd m')); inversion E; subst;
        try (split; [reflexivity|intros z [<-|Hz]; [lia|specialize (Min z Hz); lia]]).
      split; [rewrite Pm; apply perm_swap|]. intros z [<-|Hz]; [lia|apply Min, Hz].
    + inversion E; subst. split; [rewrite Pm; apply perm_swap|]. intros z [<-|Hz]; [lia|apply Min, Hz].
    + inversion E; subst. split; [reflexivity|]. intros z [<-|Hz]; [lia|specialize (Min z Hz); lia]. Qed.
Lemma pop_max_length l x m rest : pop_max x l = (m, rest) -> length rest = length l.
Proof. intros E. apply pop_max_spec in E as [P _]. apply Permutation_length in P. cbn in P. lia. Qed.

(* invariant rule for the merge loop: I is stable under rearrangement and under one merge of the two lightest *)
Section IND.
Variable I : list (N * X) -> Prop.
Hypothesis I_perm : forall h h', Permutation h h' -> I h -> I h'.
Hypothesis I_step : forall e1 e2 r c, I (e1 :: e2 :: r) -> (fst e1 <= fst e2)%N -> (forall y, In y r -> (fst e2 <= fst y)%N) ->
  xcomb (snd e1) (snd e2) = Ok c -> I ((sat_add (fst e1) (fst e2), c) :: r).
Lemma huff_loop_inv : forall fuel h x, I h -> huff_loop fuel h = Val x -> exists w, I [(w, x)].
Proof. induction fuel as [|f IH]; intros h x Ih E.
  - destruct h as [|a [|b r]]; cbn in E; try discriminate. inversion E; subst. exists (fst a). now destruct a.
  - destruct h as [|a [|b r]]; cbn [Huffman.huff_loop] in E; try discriminate.
    + inversion E; subst. exists (fst a). now destruct a.
    + destruct (pop_max a (b :: r)) as [e1 h1] eqn:P1. destruct (pop_max_spec _ _ _ _ P1) as [Pm1 Min1].
      destruct h1 as [|y r1]; [discriminate|]. destruct (pop_max y r1) as [e2 h2] eqn:P2. destruct (pop_max_spec _ _ _ _ P2) as [Pm2 Min2].
      destruct (xcomb (snd e1) (snd e2)) as [c|e] eqn:C; [|discriminate].
      apply (IH _ _ (I_step e1 e2 h2 c
               (I_perm _ _ (perm_trans Pm1 (perm_skip e1 Pm2)) Ih)
               (Min1 e2 (Permutation_in _ (Permutation_sym Pm1) (or_intror (Permutation_in _ (Permutation_sym Pm2) (or_introl eq_refl)))))
               (fun z Hz => Min2 z (Permutation_in _ (Permutation_sym Pm2) (or_intror Hz))) C) E). Qed.
Lemma huff_loop_fail : forall fuel h e, I h -> huff_loop fuel h = Fail e ->
  exists e1 e2 r, I (e1 :: e2 :: r) /\ xcomb (snd e1) (snd e2) = Err e.
Proof. induction fuel as [|f IH]; intros h e Ih E.
  - destruct h as [|a [|b r]]; cbn in E; discriminate.
  - destruct h as [|a [|b r]]; cbn [Huffman.huff_loop] in E; try discriminate.
    destruct (pop_max a (b :: r)) as [e1 h1] eqn:P1. destruct (pop_max_spec _ _ _ _ P1) as [Pm1 Min1].
    destruct h1 as [|y r1]; [discriminate|]. destruct (pop_max y r1) as [e2 h2] eqn:P2. destruct (pop_max_spec _ _ _ _ P2) as [Pm2 Min2].
    pose proof (I_perm _ _ (perm_trans Pm1 (perm_skip e1 Pm2)) Ih) as I2.
    destruct (xcomb (snd e1) (snd e2)) as [c|e'] eqn:C.
    + apply (IH _ _ (I_step e1 e2 h2 c I2
               (Min1 e2 (Permutation_in _ (Permutation_sym Pm1) (or_intror (Permutation_in _ (Permutation_sym Pm2) (or_introl eq_refl)))))
               (fun z Hz => Min2 z (Permutation_in _ (Permutation_sym Pm2) (or_intror Hz))) C) E).
    + inversion E; subst. eauto. Qed.
End IND.

(* the loop never runs out of fuel and none of its `expect`s can fire *)
Lemma huff_loop_total : forall fuel h, h <> [] -> (length h <= S fuel)%nat -> (exists x, huff_loop fuel h = Val x) \/ (exists e, huff_loop fuel h = Fail e).
Proof. induction fuel as [|f IH]; intros h N L.
  - destruct h as [|a [|b r]]; [congruence|left; cbn; eauto|cbn in L; lia].
  - destruct h as [|a [|b r]]; [congruence|left; cbn; eauto|]. cbn [Huffman.huff_loop].
    destruct (pop_max a (b :: r)) as [e1 h1] eqn:P1. pose proof (pop_max_length _ _ _ _ P1) as L1.
    destruct h1 as [|y r1]; [cbn in L1; lia|]. destruct (pop_max y r1) as [e2 h2] eqn:P2. pose proof (pop_max_length _ _ _ _ P2) as L2.
    destruct (xcomb (snd e1) (snd e2)) as [c|e]; [|right; eauto]. apply IH; [discriminate|]. cbn [length] in *. lia. Qed.
Lemma huffman_total h : (exists x, huffman X xcmp xcomb h = Val x) \/ (exists e, huffman X xcmp xcomb h = Fail e).
Proof. unfold huffman. destruct h as [|a r]; [right; eauto|]. apply huff_loop_total; [discriminate|lia]. Qed.
End GEN.

(* ------------------------------------------------------------------ shape of the Huffman tree over NodeInfo *)
Section SHAPE.
Variables Hleaf Hbranch : bytes -> bytes.
Notation combine := (combine Hbranch).
Definition keys (n : node) : list (bytes * byte) := map (fun l => (l_script l, l_ver l)) (n_leaves n).
Definition allkeys (h : list (N * node)) : list (bytes * byte) := flat_map (fun e => keys (snd e)) h.
Definition node_ok (n : node) : Prop :=
  n_leaves n <> [] /\ Forall (fun l => (length (l_branch l) < length (n_leaves n))%nat /\ (length (l_branch l) <= MAXD)%nat) (n_leaves n).
Definition shape_inv (inputs : list (bytes * byte)) (h : list (N * node)) : Prop :=
  Permutation (allkeys h) inputs /\ Forall (fun e => node_ok (snd e)) h.

Lemma push_all_spec h : forall ls ls', push_all h ls = Ok ls' ->
  ls' = map (snoc h) ls /\ Forall (fun l => (length (l_branch l) < MAXD)%nat) ls.
Proof. induction ls as [|l r IH]; intros ls' E; cbn [push_all] in E.
  - inversion E. split; [reflexivity|constructor].
  - unfold push in E. destruct (Nat.leb_spec MAXD (length (l_branch l))); [discriminate|].
    destruct (push_all h r) as [r'|] eqn:Pr; [|discriminate]. inversion E; subst. destruct (IH r' eq_refl) as [-> F].
    split; [reflexivity|constructor; assumption]. Qed.
Lemma push_all_err h : forall ls e, push_all h ls = Err e -> Forall (fun l => (length (l_branch l) <= MAXD)%nat) ls ->
  e = InvalidMerkleTreeDepth (N.of_nat MAXD).
Proof. induction ls as [|l r IH]; intros e E F; cbn [push_all] in E; [discriminate|]. inversion F as [|? ? Fl Fr]; subst.
  unfold push in E. destruct (Nat.leb_spec MAXD (length (l_branch l))).
  - inversion E. f_equal. lia.
  - destruct (push_all h r) as [r'|e'] eqn:Pr; [discriminate|]. inversion E; subst. now apply IH. Qed.
Lemma combine_spec a b c : combine a b = Ok c ->
  c = combine_tot Hbranch a b /\ Forall (fun l => (length (l_branch l) < MAXD)%nat) (n_leaves a ++ n_leaves b).
Proof. unfold Taproot.combine. destruct (push_all (n_hash b) (n_leaves a)) as [la|] eqn:Pa; [|discriminate].
  destruct (push_all (n_hash a) (n_leaves b)) as [lb|] eqn:Pb; [|discriminate]. intros E; inversion E; subst.
  apply push_all_spec in Pa as [-> Fa]. apply push_all_spec in Pb as [-> Fb]. split; [reflexivity|now apply Forall_app]. Qed.
Lemma keys_combine_tot a b : keys (combine_tot Hbranch a b) = keys a ++ keys b.
Proof. unfold keys, combine_tot. cbn [n_leaves]. rewrite map_app, !map_map. reflexivity. Qed.
Lemma node_ok_combine a b c : node_ok a -> node_ok b -> combine a b = Ok c -> node_ok c.
Proof. intros [Na Fa] [Nb Fb] E. apply combine_spec in E as [-> F]. unfold node_ok, combine_tot. cbn [n_leaves].
  split; [destruct (n_leaves a); [congruence|discriminate]|].
  rewrite app_length, !map_length. apply Forall_app in F as [F1 F2]. rewrite Forall_forall in Fa, Fb, F1, F2.
  assert (La : (0 < length (n_leaves a))%nat) by (destruct (n_leaves a); [congruence|cbn; lia]).
  assert (Lb : (0 < length (n_leaves b))%nat) by (destruct (n_leaves b); [congruence|cbn; lia]).
  apply Forall_app; split; apply Forall_forall; intros l Hl; apply in_map_iff in Hl as [l' [<- Hl']]; cbn [snoc l_branch];
    rewrite app_length; cbn [length]; [specialize (Fa l' Hl'); specialize (F1 l' Hl')|specialize (Fb l' Hl'); specialize (F2 l' Hl')]; lia. Qed.

Lemma shape_perm inputs h h' : Permutation h h' -> shape_inv inputs h -> shape_inv inputs h'.
Proof. intros P [K F]. split; [|eapply Permutation_Forall; eassumption].
  rewrite <- K. unfold allkeys. symmetry. now apply Permutation_flat_map. Qed.
Lemma shape_step inputs e1 e2 r c : shape_inv inputs (e1 :: e2 :: r) -> combine (snd e1) (snd e2) = Ok c ->
  shape_inv inputs ((sat_add (fst e1) (fst e2), c) :: r).
Proof. intros [K F] E. inversion F as [|? ? F1 F']; subst. inversion F' as [|? ? F2 Fr]; subst. split.
  - rewrite <- K. unfold allkeys. cbn [flat_map snd]. destruct (combine_spec _ _ _ E) as [-> _]. rewrite keys_combine_tot, <- app_assoc. apply Permutation_refl.
  - constructor; [cbn [snd]; exact (node_ok_combine _ _ _ F1 F2 E)|assumption]. Qed.

Definition leaf_entry (ws : N * bytes) : N * node := (fst ws, new_leaf Hleaf (snd ws) default_ver).
Lemma shape_init ws : shape_inv (map (fun ws => (snd ws, default_ver)) ws) (map leaf_entry ws).
Proof. split.
  - induction ws as [|a r IH]; cbn; [reflexivity|]. now apply perm_skip.
  - apply Forall_forall. intros e He. apply in_map_iff in He as [a [<- _]]. unfold leaf_entry, node_ok, new_leaf. cbn.
    split; [discriminate|]. repeat constructor; cbn; lia. Qed.

(* with_huffman_tree's node: never a panic; Ok exactly with the input scripts (default version) as leaves, every depth at most
   n-1 and at most 128; the only refusals are the empty input and a leaf pushed past depth 128 *)
Theorem huff_node_shape ws :
  (exists n, huff_node Hleaf Hbranch ws = Val n /\ Permutation (keys n) (map (fun ws => (snd ws, default_ver)) ws) /\
             length (n_leaves n) = length ws /\
             Forall (fun l => (length (l_branch l) < length ws)%nat /\ (length (l_branch l) <= MAXD)%nat) (n_leaves n)) \/
  (ws = [] /\ huff_node Hleaf Hbranch ws = Fail IncompleteTree) \/
  (ws <> [] /\ huff_node Hleaf Hbranch ws = Fail (InvalidMerkleTreeDepth (N.of_nat MAXD))).
Proof. unfold huff_node. destruct ws as [|w0 wr]; [right; left; auto|].
  set (ws := w0 :: wr). set (inputs := map (fun ws => (snd ws, default_ver)) ws).
  change (map (fun ws0 : N * bytes => (fst ws0, new_leaf Hleaf (snd ws0) default_ver)) ws) with (map leaf_entry ws).
  pose proof (shape_init ws) as I0. fold inputs in I0.
  assert (Stp : forall e1 e2 r c, shape_inv inputs (e1 :: e2 :: r) -> (fst e1 <= fst e2)%N -> (forall y, In y r -> (fst e2 <= fst y)%N) ->
            combine (snd e1) (snd e2) = Ok c -> shape_inv inputs ((sat_add (fst e1) (fst e2), c) :: r))
    by (intros; eapply shape_step; eassumption).
  destruct (huffman_total node node_cmp combine (map leaf_entry ws)) as [[n E]|[e E]].
  - left. exists n. split; [exact E|]. unfold huffman in E. cbn [map ws] in E. fold ws in E. change (leaf_entry w0 :: map leaf_entry wr) with (map leaf_entry ws) in E.
    destruct (huff_loop_inv node node_cmp combine (shape_inv inputs) (shape_perm inputs) Stp _ _ n I0 E) as [w [K F]].
    unfold allkeys in K. cbn [flat_map snd] in K. rewrite app_nil_r in K. split; [exact K|].
    assert (Len : length (n_leaves n) = length ws).
    { apply Permutation_length in K. unfold keys, inputs in K. now rewrite !map_length in K. }
    split; [exact Len|]. inversion F as [|? ? [_ Fn] _]; subst. cbn [snd] in Fn. rewrite Len in Fn. exact Fn.
  - right. right. split; [discriminate|]. rewrite E. f_equal. unfold huffman in E. cbn [map ws] in E. change (leaf_entry w0 :: map leaf_entry wr) with (map leaf_entry ws) in E.
    destruct (huff_loop_fail node node_cmp combine (shape_inv inputs) (shape_perm inputs) Stp _ _ e I0 E) as (e1 & e2 & r & [_ F] & C).
    inversion F as [|? ? [_ F1] F']; subst. inversion F' as [|? ? [_ F2] _]; subst.
    assert (B1 : Forall (fun l => (length (l_branch l) <= MAXD)%nat) (n_leaves (snd e1))) by (eapply Forall_impl; [|exact F1]; cbn; tauto).
    assert (B2 : Forall (fun l => (length (l_branch l) <= MAXD)%nat) (n_leaves (snd e2))) by (eapply Forall_impl; [|exact F2]; cbn; tauto).
    unfold Taproot.combine in C. destruct (push_all (n_hash (snd e2)) (n_leaves (snd e1))) as [la|ea] eqn:Pa.
    + destruct (push_all (n_hash (snd e1)) (n_leaves (snd e2))) as [lb|eb] eqn:Pb; [discriminate|]. inversion C; subst. eapply push_all_err; eassumption.
    + inversion C; subst. eapply push_all_err; eassumption. Qed.
End SHAPE.

(* ------------------------------------------------------------------ the Huffman node is the builder's node of a script tree *)
Section ASTREE.
Variables Hleaf Hbranch : bytes -> bytes.
Notation combine := (combine Hbranch).
Notation node_of := (node_of Hleaf Hbranch).
Fixpoint no_hidden (t : tree) : Prop := match t with Leaf _ _ => True | Hidden _ => False | Node a b => no_hidden a /\ no_hidden b end.
Lemma deepest_leaf t : no_hidden t -> exists l, In l (n_leaves (node_of t)) /\ length (l_branch l) = height t.
Proof. induction t as [s v|h|a IHa b IHb]; cbn [no_hidden Taproot.node_of height]; intros N.
  - eexists. split; [left; reflexivity|reflexivity].
  - destruct N.
  - destruct N as [Na Nb]. destruct (IHa Na) as (la & Ia & Ea). destruct (IHb Nb) as (lb & Ib & Eb).
    unfold combine_tot. cbn [n_leaves]. destruct (Nat.max_spec (height a) (height b)) as [[_ ->]|[_ ->]].
    + exists (snoc (n_hash (node_of a)) lb). split; [apply in_or_app; right; now apply in_map|]. cbn [snoc l_branch]. rewrite app_length. cbn [length]. lia.
    + exists (snoc (n_hash (node_of b)) la). split; [apply in_or_app; left; now apply in_map|]. cbn [snoc l_branch]. rewrite app_length. cbn [length]. lia. Qed.
Definition tree_inv (h : list (N * node)) : Prop :=
  Forall (fun e => exists t, snd e = node_of t /\ no_hidden t /\ (height t <= MAXD)%nat) h.
Lemma tree_perm h h' : Permutation h h' -> tree_inv h -> tree_inv h'.
Proof. intros P. apply Permutation_Forall, P. Qed.
Lemma tree_step e1 e2 r c : tree_inv (e1 :: e2 :: r) -> combine (snd e1) (snd e2) = Ok c -> tree_inv ((sat_add (fst e1) (fst e2), c) :: r).
Proof. intros F E. inversion F as [|? ? (t1 & E1 & N1 & H1) F']; subst. inversion F' as [|? ? (t2 & E2 & N2 & H2) Fr]; subst.
  constructor; [|assumption]. cbn [snd]. apply combine_spec in E as [-> B]. exists (Node t1 t2). rewrite E1, E2. split; [reflexivity|]. split; [cbn; auto|].
  apply Forall_app in B as [B1 B2]. rewrite Forall_forall in B1, B2. rewrite E1 in B1. rewrite E2 in B2.
  destruct (deepest_leaf t1 N1) as (l1 & I1 & L1). destruct (deepest_leaf t2 N2) as (l2 & I2 & L2).
  specialize (B1 l1 I1). specialize (B2 l2 I2). cbn [height]. lia. Qed.
Theorem huff_node_tree ws n : huff_node Hleaf Hbranch ws = Val n -> exists t, n = node_of t /\ no_hidden t /\ (height t <= MAXD)%nat.
Proof. unfold huff_node, huffman. destruct ws as [|w0 wr]; [discriminate|]. intros E.
  assert (I0 : tree_inv (map (fun ws => (fst ws, new_leaf Hleaf (snd ws) default_ver)) (w0 :: wr))).
  { apply Forall_forall. intros e He. apply in_map_iff in He as [a [<- _]]. exists (Leaf (snd a) default_ver). cbn. repeat split; auto. lia. }
  destruct (huff_loop_inv node node_cmp combine tree_inv tree_perm (fun e1 e2 r c I _ _ C => tree_step e1 e2 r c I C) _ _ n I0 E) as [w F].
  inversion F as [|? ? H _]; subst. exact H. Qed.
End ASTREE.

Section SPEND.
Variables Hleaf Hbranch Htweak : bytes -> bytes.
Variable scalar_ok : bytes -> bool.
Variable tweak : bytes -> bytes -> option (bytes * bool).
(* with_huffman_tree is the builder's result on the depth-first walk of a hidden-free tree whose leaves are exactly the inputs:
   every control-block theorem of the builder applies to it *)
Theorem with_huffman_is_build P ws i : with_huffman_tree Hleaf Hbranch Htweak scalar_ok tweak P ws = Val i ->
  exists t, no_hidden t /\ (height t <= MAXD)%nat /\ build Hleaf Hbranch Htweak scalar_ok tweak (dfs t 0) P = Val i /\
            Permutation (map (fun l => (l_script l, l_ver l)) (leaf_paths Hleaf Hbranch t)) (map (fun ws => (snd ws, default_ver)) ws) /\
            Forall (fun l => (length (l_branch l) < length ws)%nat) (leaf_paths Hleaf Hbranch t).
Proof. unfold with_huffman_tree. destruct (huff_node Hleaf Hbranch ws) as [n| |] eqn:E; try discriminate. intros F.
  destruct (huff_node_tree Hleaf Hbranch ws n E) as (t & -> & N & Hh). exists t. split; [assumption|]. split; [assumption|].
  split; [rewrite build_accepts by assumption; exact F|].
  destruct (huff_node_shape Hleaf Hbranch ws) as [(n' & E' & K & _ & B)|[[_ E']|[_ E']]]; rewrite E in E'; try discriminate.
  inversion E'; subst n'. unfold keys in K. rewrite node_of_leaves in K, B. split.
  - exact K.
  - eapply Forall_impl; [|exact B]. cbn. tauto. Qed.
(* it never panics inside the Huffman loop, and refuses only the empty list and trees deeper than 128 *)
Theorem with_huffman_outcomes P ws :
  match with_huffman_tree Hleaf Hbranch Htweak scalar_ok tweak P ws with
  | Val _ => ws <> []
  | Fail e => (ws = [] /\ e = IncompleteTree) \/ (ws <> [] /\ e = InvalidMerkleTreeDepth (N.of_nat MAXD))
  | Panic s => s = ScalarRange \/ s = TweakFailed
  end.
Proof. destruct ws as [|w0 wr]; [cbn; auto|]. unfold with_huffman_tree.
  destruct (huff_node_shape Hleaf Hbranch (w0 :: wr)) as [(n & -> & _)|[[D _]|[N ->]]]; [|discriminate|right; split; [discriminate|reflexivity]].
  unfold from_node_info, new_key_spend, tap_tweak. destruct (scalar_ok _); [|auto]. destruct (tweak P _) as [[Q par]|]; [discriminate|auto]. Qed.
End SPEND.

(* ------------------------------------------------------------------ running the loop with a shadow payload *)
Section PROJ.
Variables X Y : Type.
Variable f : Y -> X.
Variable xcmp : X -> X -> comparison.
Variable xcomb : X -> X -> res berr X.
Variable ycomb : Y -> Y -> res berr Y.
Hypothesis comb_ok : forall a b, match ycomb a b with Ok c => xcomb (f a) (f b) = Ok (f c) | Err e => xcomb (f a) (f b) = Err e end.
Definition ycmp (a b : Y) : comparison := xcmp (f a) (f b).
Definition pf (e : N * Y) : N * X := (fst e, f (snd e)).
Lemma pop_max_proj : forall l y m rest, pop_max Y ycmp y l = (m, rest) -> pop_max X xcmp (pf y) (map pf l) = (pf m, map pf rest).
Proof. induction l as [|z r IH]; intros y m rest E; cbn [Huffman.pop_max map] in *.
  - inversion E; subst. reflexivity.
  - destruct (pop_max Y ycmp z r) as [m' rest'] eqn:P. rewrite (IH z m' rest' P).
    change (Huffman.entry_cmp X xcmp (pf y) (pf m')) with (Huffman.entry_cmp Y ycmp y m').
    destruct (Huffman.entry_cmp Y ycmp y m'); inversion E; subst; reflexivity. Qed.
Lemma huff_loop_proj : forall fuel h,
  huff_loop X xcmp xcomb fuel (map pf h) =
  match huff_loop Y ycmp ycomb fuel h with Val y => Val (f y) | Fail e => Fail e | Panic s => Panic s end.
Proof. induction fuel as [|fu IH]; intros h.
  - destruct h as [|a [|b r]]; reflexivity.
  - destruct h as [|a [|b r]]; try reflexivity. cbn [Huffman.huff_loop map].
    destruct (pop_max Y ycmp a (b :: r)) as [e1 h1] eqn:P1. apply pop_max_proj in P1. cbn [map] in P1. rewrite P1.
    destruct h1 as [|y r1]; [reflexivity|]. cbn [map]. destruct (pop_max Y ycmp y r1) as [e2 h2] eqn:P2. apply pop_max_proj in P2. rewrite P2.
    pose proof (comb_ok (snd e1) (snd e2)) as C. cbn [pf snd fst]. destruct (ycomb (snd e1) (snd e2)) as [c|e]; rewrite C; [|reflexivity].
    apply (IH ((sat_add (fst e1) (fst e2), c) :: h2)). Qed.
End PROJ.

(* ------------------------------------------------------------------ weighted shadow trees and the depth-order argument
   In a tree built by always merging the two lightest, any two internal nodes are ordered: all children of the earlier one weigh
   at most as much as all children of the later one.  From that and "weight = sum of the children": for ANY two nodes x, y of
   the final tree, weight x < weight y -> depth x >= depth y (induction on the depth of y; the parents are either the same
   node, or strictly ordered by weight again). *)
Inductive wtree := WL (w : N) (sc : bytes) | WN (w : N) (a b : wtree).
Definition wt (T : wtree) : N := match T with WL w _ => w | WN w _ _ => w end.
Fixpoint sums (T : wtree) : Prop := match T with WL _ _ => True | WN w a b => w = (wt a + wt b)%N /\ sums a /\ sums b end.
Record irec := { r_d : nat; r_w : N; r_a : N; r_b : N }.     (* an internal node: depth, weight, weights of its two children *)
Definition bump (r : irec) : irec := {| r_d := S (r_d r); r_w := r_w r; r_a := r_a r; r_b := r_b r |}.
Fixpoint inodes (T : wtree) (d : nat) : list irec :=
  match T with WL _ _ => [] | WN w a b => {| r_d := d; r_w := w; r_a := wt a; r_b := wt b |} :: inodes a (S d) ++ inodes b (S d) end.
Fixpoint nodes (T : wtree) (d : nat) : list (N * nat) :=
  match T with WL w _ => [(w, d)] | WN w a b => (w, d) :: nodes a (S d) ++ nodes b (S d) end.
Fixpoint wleaves (T : wtree) (d : nat) : list (N * bytes * nat) :=
  match T with WL w sc => [(w, sc, d)] | WN _ a b => wleaves a (S d) ++ wleaves b (S d) end.
Definition ord (r1 r2 : irec) : Prop :=
  (N.max (r_a r1) (r_b r1) <= N.min (r_a r2) (r_b r2))%N \/ (N.max (r_a r2) (r_b r2) <= N.min (r_a r1) (r_b r1))%N.
Definition C1d (T : wtree) (d : nat) : Prop := forall r1 r2, In r1 (inodes T d) -> In r2 (inodes T d) -> ord r1 r2 \/ r_d r1 = r_d r2.
Lemma ord_sym r1 r2 : ord r1 r2 -> ord r2 r1. Proof. unfold ord. tauto. Qed.
Lemma ord_bump r1 r2 : ord r1 r2 -> ord (bump r1) (bump r2). Proof. exact (fun H => H). Qed.

Lemma inodes_S T : forall d, inodes T (S d) = map bump (inodes T d).
Proof. induction T as [w sc|w a IHa b IHb]; intros d; cbn [inodes map]; [reflexivity|]. rewrite IHa, IHb, map_app. reflexivity. Qed.
Lemma wleaves_S T : forall d, wleaves T (S d) = map (fun x => (fst x, S (snd x))) (wleaves T d).
Proof. induction T as [w sc|w a IHa b IHb]; intros d; cbn [wleaves map]; [reflexivity|]. rewrite IHa, IHb, map_app. reflexivity. Qed.
Lemma C1d_S T d : C1d T d -> C1d T (S d).
Proof. intros C r1 r2. rewrite inodes_S. intros H1 H2. apply in_map_iff in H1 as [x1 [<- H1]]. apply in_map_iff in H2 as [x2 [<- H2]].
  destruct (C x1 x2 H1 H2) as [O|E]; [left; exact O|right; cbn; congruence]. Qed.

Lemma node_parent T : forall d w e, In (w, e) (nodes T d) ->
  (e = d /\ w = wt T) \/ exists r, In r (inodes T d) /\ S (r_d r) = e /\ (w = r_a r \/ w = r_b r).
Proof. induction T as [w0 sc|w0 a IHa b IHb]; intros d w e H; cbn [nodes inodes wt] in *.
  - destruct H as [H|[]]. inversion H; subst. now left.
  - destruct H as [H|H]; [inversion H; subst; now left|]. right. apply in_app_or in H as [H|H].
    + destruct (IHa _ _ _ H) as [[-> ->]|(r & Hr & R)].
      * eexists. split; [left; reflexivity|]. cbn. auto.
      * exists r. split; [right; apply in_or_app; now left|exact R].
    + destruct (IHb _ _ _ H) as [[-> ->]|(r & Hr & R)].
      * eexists. split; [left; reflexivity|]. cbn. auto.
      * exists r. split; [right; apply in_or_app; now right|exact R]. Qed.
Lemma inode_node T : forall d r, sums T -> In r (inodes T d) -> r_w r = (r_a r + r_b r)%N /\ In (r_w r, r_d r) (nodes T d).
Proof. induction T as [w0 sc|w0 a IHa b IHb]; intros d r Sm H; cbn [nodes inodes sums] in *; [destruct H|].
  destruct Sm as (E & Sa & Sb). destruct H as [<-|H]; [cbn; auto|]. apply in_app_or in H as [H|H].
  - destruct (IHa _ _ Sa H) as [E1 E2]. split; [exact E1|right; apply in_or_app; now left].
  - destruct (IHb _ _ Sb H) as [E1 E2]. split; [exact E1|right; apply in_or_app; now right]. Qed.
Lemma node_le_root T : forall d w e, sums T -> In (w, e) (nodes T d) -> (w <= wt T)%N.
Proof. induction T as [w0 sc|w0 a IHa b IHb]; intros d w e Sm H; cbn [nodes sums wt] in *.
  - destruct H as [H|[]]. inversion H. lia.
  - destruct Sm as (E & Sa & Sb). destruct H as [H|H]; [inversion H; lia|]. apply in_app_or in H as [H|H].
    + specialize (IHa _ _ _ Sa H). lia. + specialize (IHb _ _ _ Sb H). lia. Qed.
Lemma wleaf_node T : forall d x, In x (wleaves T d) -> In (fst (fst x), snd x) (nodes T d).
Proof. induction T as [w0 sc|w0 a IHa b IHb]; intros d x H; cbn [nodes wleaves] in *.
  - destruct H as [<-|[]]. now left.
  - right. apply in_or_app. apply in_app_or in H as [H|H]; [left; now apply IHa|right; now apply IHb]. Qed.

Theorem depth_order T : sums T -> C1d T 0 -> forall d2 w1 d1 w2, In (w1, d1) (nodes T 0) -> In (w2, d2) (nodes T 0) -> (w1 < w2)%N -> (d2 <= d1)%nat.
Proof. intros Sm C. induction d2 as [|d2' IH]; intros w1 d1 w2 H1 H2 L; [lia|].
  destruct (node_parent T 0 w1 d1 H1) as [[-> ->]|(r1 & I1 & D1 & K1)].
  - pose proof (node_le_root T 0 w2 (S d2') Sm H2). lia.
  - destruct (node_parent T 0 w2 (S d2') H2) as [[Bad _]|(r2 & I2 & D2 & K2)]; [discriminate|].
    destruct (inode_node T 0 r1 Sm I1) as [E1 N1]. destruct (inode_node T 0 r2 Sm I2) as [E2 N2].
    destruct (C r1 r2 I1 I2) as [[O|O]|Ed]; [| |lia].
    + assert (Lw : (r_w r1 < r_w r2)%N) by (destruct K1, K2; lia).
      assert (Dd : r_d r2 = d2') by lia. rewrite Dd in N2. specialize (IH _ _ _ N1 N2 Lw). lia.
    + exfalso. destruct K1, K2; lia. Qed.

Lemma FOP_perm {A} (R : A -> A -> Prop) (Rsym : forall x y, R x y -> R y x) l l' :
  Permutation l l' -> ForallOrdPairs R l -> ForallOrdPairs R l'.
Proof. induction 1 as [|x l l' P IH|x y l|l l' l'' P1 IH1 P2 IH2]; intros F.
  - constructor.
  - inversion F; subst. constructor; [eapply Permutation_Forall; eassumption|auto].
  - inversion F as [|? ? Fy F']; subst. inversion F' as [|? ? Fx F'']; subst. inversion Fy; subst.
    constructor; [constructor; [apply Rsym; assumption|assumption]|constructor; assumption].
  - auto. Qed.

Section HORDER.
Variables Hleaf Hbranch : bytes -> bytes.
Notation combine := (combine Hbranch).
Notation Y := (node * wtree)%type (only parsing).
Definition ycomb (a b : Y) : res berr Y :=
  match combine (fst a) (fst b) with Ok c => Ok (c, WN (wt (snd a) + wt (snd b)) (snd a) (snd b)) | Err e => Err e end.
Lemma ycomb_ok a b : match ycomb a b with Ok c => combine (fst a) (fst b) = Ok (fst c) | Err e => combine (fst a) (fst b) = Err e end.
Proof. unfold ycomb. destruct (combine (fst a) (fst b)); reflexivity. Qed.
Definition eT (e : N * Y) : wtree := snd (snd e).
Definition eN (e : N * Y) : node := fst (snd e).
Definition Rn (n : node) (T : wtree) : Prop :=
  map (fun l => (l_script l, length (l_branch l))) (n_leaves n) = map (fun x => (snd (fst x), snd x)) (wleaves T 0).
Definition ent_ok (e : N * Y) : Prop := fst e = wt (eT e) /\ sums (eT e) /\ C1d (eT e) 0 /\ Rn (eN e) (eT e).
Definition bound (h : list (N * Y)) : Prop :=
  forall e e', In e h -> In e' h -> forall r, In r (inodes (eT e) 0) -> (r_a r <= fst e')%N /\ (r_b r <= fst e')%N.
Definition crossR (e e' : N * Y) : Prop := forall r r', In r (inodes (eT e) 0) -> In r' (inodes (eT e') 0) -> ord r r'.
Definition sumw (h : list (N * Y)) : N := fold_right (fun e s => (fst e + s)%N) 0%N h.
Definition lw (h : list (N * Y)) : list (N * bytes) := flat_map (fun e => map fst (wleaves (eT e) 0)) h.
Variable total : N.
Variable ws : list (N * bytes).
Hypothesis total_ok : (total <= U64MAX)%N.
Definition INV (h : list (N * Y)) : Prop :=
  Forall ent_ok h /\ bound h /\ ForallOrdPairs crossR h /\ sumw h = total /\ Permutation (lw h) ws.

Lemma sumw_perm h h' : Permutation h h' -> sumw h = sumw h'.
Proof. induction 1; unfold sumw in *; cbn [fold_right] in *; lia. Qed.
Lemma sumw_in h e : In e h -> (fst e <= sumw h)%N.
Proof. induction h as [|a r IH]; intros []; cbn [sumw fold_right]; [subst; lia|]. specialize (IH H). unfold sumw in IH. lia. Qed.
Lemma INV_perm h h' : Permutation h h' -> INV h -> INV h'.
Proof. intros P (F & B & C & Sw & L). split; [eapply Permutation_Forall; eassumption|]. split.
  - intros e e' He He'. apply (B e e'); eapply Permutation_in; try apply Permutation_sym; eassumption.
  - split; [eapply FOP_perm; [|eassumption|assumption]; intros x y H r r' Hr Hr'; apply ord_sym; auto|].
    split; [rewrite <- Sw; symmetry; now apply sumw_perm|]. rewrite <- L. symmetry. now apply Permutation_flat_map. Qed.

Lemma INV_step e1 e2 r c : INV (e1 :: e2 :: r) -> (fst e1 <= fst e2)%N -> (forall y, In y r -> (fst e2 <= fst y)%N) ->
  ycomb (snd e1) (snd e2) = Ok c -> INV ((sat_add (fst e1) (fst e2), c) :: r).
Proof. intros (F & B & C & Sw & L) L12 L2r E.
  inversion F as [|? ? (W1 & S1 & C1 & R1) F']; subst. inversion F' as [|? ? (W2 & S2 & C2 & R2) Fr]; subst.
  inversion C as [|? ? X1 C']; subst. inversion C' as [|? ? X2 Cr]; subst. inversion X1 as [|? ? X12 X1r]; subst.
  unfold ycomb in E. destruct (combine (fst (snd e1)) (fst (snd e2))) as [cn|] eqn:Ec; [|discriminate]. inversion E; subst c. clear E.
  fold (eT e1) (eT e2) in *. fold (eN e1) (eN e2) in *.
  assert (Sat : sat_add (fst e1) (fst e2) = (fst e1 + fst e2)%N).
  { unfold sat_add. cbn [sumw fold_right] in Sw. apply N.min_l. lia. }
  rewrite Sat. set (T := WN (wt (eT e1) + wt (eT e2)) (eT e1) (eT e2)). set (enew := ((fst e1 + fst e2)%N, (cn, T))).
  assert (In1 : In e1 (e1 :: e2 :: r)) by (now left). assert (In2 : In e2 (e1 :: e2 :: r)) by (right; now left).
  (* children of every old internal node weigh at most as much as both merged roots *)
  assert (Old : forall e, In e (e1 :: e2 :: r) -> forall x, In x (inodes (eT e) 0) ->
            (N.max (r_a x) (r_b x) <= N.min (wt (eT e1)) (wt (eT e2)))%N).
  { intros e He x Hx. destruct (B e e1 He In1 x Hx). destruct (B e e2 He In2 x Hx). lia. }
  assert (InT : forall x, In x (inodes T 0) ->
            x = {| r_d := 0; r_w := (wt (eT e1) + wt (eT e2))%N; r_a := wt (eT e1); r_b := wt (eT e2) |} \/
            (exists x', x = bump x' /\ In x' (inodes (eT e1) 0)) \/ (exists x', x = bump x' /\ In x' (inodes (eT e2) 0))).
  { intros x Hx. cbn [inodes T] in Hx. rewrite !inodes_S in Hx. destruct Hx as [<-|Hx]; [now left|]. right.
    apply in_app_or in Hx as [Hx|Hx]; apply in_map_iff in Hx as [x' [<- Hx']]; eauto. }
  split; [constructor; [|exact Fr]|].
  { (* the new entry *)
    unfold ent_ok, enew. cbn [fst snd eT eN]. split; [cbn [wt T]; lia|]. split; [cbn [sums T]; auto|]. split.
    - intros x y Hx Hy. destruct (InT x Hx) as [->|[(x' & -> & Hx')|(x' & -> & Hx')]]; destruct (InT y Hy) as [->|[(y' & -> & Hy')|(y' & -> & Hy')]].
      + now right.
      + left. right. cbn. apply (Old e1 In1 y' Hy').
      + left. right. cbn. apply (Old e2 In2 y' Hy').
      + left. left. cbn. apply (Old e1 In1 x' Hx').
      + destruct (C1 x' y' Hx' Hy') as [O|D]; [left; exact O|right; cbn; congruence].
      + left. exact (X12 x' y' Hx' Hy').
      + left. left. cbn. apply (Old e2 In2 x' Hx').
      + left. apply ord_sym. exact (X12 y' x' Hy' Hx').
      + destruct (C2 x' y' Hx' Hy') as [O|D]; [left; exact O|right; cbn; congruence].
    - unfold Rn in *. destruct (combine_spec Hbranch _ _ _ Ec) as [-> _]. unfold combine_tot. cbn [n_leaves wleaves T].
      rewrite !map_app, !map_map, !wleaves_S, !map_map. cbn [snoc l_script l_branch fst snd]. f_equal.
      + transitivity (map (fun p => (fst p, S (snd p))) (map (fun l => (l_script l, length (l_branch l))) (n_leaves (eN e1)))).
        * rewrite map_map. apply map_ext. intros l. cbn. rewrite app_length. cbn. f_equal. lia.
        * rewrite R1, map_map. reflexivity.
      + transitivity (map (fun p => (fst p, S (snd p))) (map (fun l => (l_script l, length (l_branch l))) (n_leaves (eN e2)))).
        * rewrite map_map. apply map_ext. intros l. cbn. rewrite app_length. cbn. f_equal. lia.
        * rewrite R2, map_map. reflexivity. }
  split.
  { (* bound *)
    intros e e' He He' x Hx.
    assert (Root : forall e'', In e'' (enew :: r) -> (fst e1 <= fst e'')%N /\ (fst e2 <= fst e'')%N).
    { intros e'' [<-|H]; [unfold enew; cbn [fst]; lia|]. specialize (L2r e'' H). lia. }
    destruct (Root e' He') as [G1 G2]. destruct He as [<-|He].
    - cbn [eT enew snd] in Hx. destruct (InT x Hx) as [->|[(x' & -> & Hx')|(x' & -> & Hx')]]; cbn [bump r_a r_b].
      + lia.
      + destruct (B e1 e1 In1 In1 x' Hx'). lia.
      + destruct (B e2 e1 In2 In1 x' Hx'). lia.
    - destruct (B e e1 (or_intror (or_intror He)) In1 x Hx). lia. }
  split.
  { (* cross *)
    constructor; [|exact Cr]. apply Forall_forall. intros e' He' x y Hx Hy. cbn [eT enew snd] in Hx.
    rewrite Forall_forall in X1r, X2.
    destruct (InT x Hx) as [->|[(x' & -> & Hx')|(x' & -> & Hx')]].
    - right. cbn. apply (Old e' (or_intror (or_intror He')) y Hy).
    - exact (X1r e' He' x' y Hx' Hy).
    - exact (X2 e' He' x' y Hx' Hy). }
  split.
  { cbn [sumw fold_right enew fst] in *. lia. }
  { rewrite <- L. unfold lw. cbn [flat_map eT enew snd wleaves T]. rewrite !wleaves_S, map_app, !map_map. cbn [fst]. rewrite <- app_assoc. apply Permutation_refl. }
Qed.
End HORDER.

Section ORDER_THM.
Variables Hleaf Hbranch : bytes -> bytes.
Definition wsum (ws : list (N * bytes)) : N := fold_right (fun x s => (fst x + s)%N) 0%N ws.
Definition shadow_entry (x : N * bytes) : N * (node * wtree) := (fst x, (new_leaf Hleaf (snd x) default_ver, WL (fst x) (snd x))).

Lemma INV_init ws : (wsum ws <= U64MAX)%N -> INV (wsum ws) ws (map shadow_entry ws).
Proof. intros _. split; [|split; [|split; [|split]]].
  - apply Forall_forall. intros e He. apply in_map_iff in He as [x [<- _]]. unfold ent_ok, shadow_entry, eT, eN. cbn.
    split; [reflexivity|]. split; [exact I|]. split; [intros r1 r2 []|reflexivity].
  - intros e e' He _ r Hr. apply in_map_iff in He as [x [<- _]]. destruct Hr.
  - induction ws as [|x r IH]; cbn [map]; constructor; [|exact IH]. apply Forall_forall. intros e' _ r1 r2 [].
  - induction ws as [|x r IH]; cbn [map sumw wsum fold_right fst shadow_entry] in *; [reflexivity|]. unfold sumw, wsum in IH. now rewrite IH.
  - unfold lw. induction ws as [|x r IH]; cbn [map flat_map]; [constructor|]. unfold eT, shadow_entry at 1. cbn. destruct x. now apply perm_skip. Qed.

(* Huffman order (full, when the u64 weight sum does not saturate): there is an assignment of the input weights to the leaves of
   the result — a rearrangement wl of the inputs, position by position the leaves of the result with their scripts and depths —
   under which a strictly heavier leaf is never strictly deeper than a lighter one *)
Theorem huff_order ws n : huff_node Hleaf Hbranch ws = Val n -> (wsum ws <= U64MAX)%N ->
  exists wl : list (N * bytes * nat),
    Permutation (map fst wl) ws /\
    map (fun l => (l_script l, length (l_branch l))) (n_leaves n) = map (fun x => (snd (fst x), snd x)) wl /\
    forall x y, In x wl -> In y wl -> (fst (fst y) < fst (fst x))%N -> (snd x <= snd y)%nat.
Proof. intros E Hs. unfold huff_node, huffman in E. destruct ws as [|w0 wr]; [discriminate|]. cbn [map] in E.
  set (ws := w0 :: wr) in *.
  change ((fst w0, new_leaf Hleaf (snd w0) default_ver) :: map (fun x : N * bytes => (fst x, new_leaf Hleaf (snd x) default_ver)) wr)
    with (map (fun x : N * bytes => (fst x, new_leaf Hleaf (snd x) default_ver)) ws) in E.
  assert (Em : map (fun x : N * bytes => (fst x, new_leaf Hleaf (snd x) default_ver)) ws = map (pf node (node * wtree) fst) (map shadow_entry ws)).
  { rewrite map_map. apply map_ext. intros x. reflexivity. }
  assert (E' : huff_loop node node_cmp (combine Hbranch) (length (map shadow_entry ws)) (map (pf node (node * wtree) fst) (map shadow_entry ws)) = Val n).
  { rewrite <- Em. rewrite map_length in *. exact E. }
  rewrite (huff_loop_proj node (node * wtree) fst node_cmp (combine Hbranch) (ycomb Hbranch) (ycomb_ok Hbranch)) in E'.
  destruct (huff_loop (node * wtree) _ _ _ _) as [y| |] eqn:Ey; try discriminate. inversion E'; subst n.
  destruct (huff_loop_inv (node * wtree) _ (ycomb Hbranch) (INV (wsum ws) ws) (INV_perm (wsum ws) ws Hs) (INV_step Hbranch (wsum ws) ws Hs) _ _ y (INV_init ws Hs) Ey)
    as [w (F & _ & _ & _ & L)].
  inversion F as [|? ? (_ & Sm & C & R) _]; subst. unfold eT, eN in *. cbn [fst snd] in *.
  exists (wleaves (snd y) 0). unfold lw in L. cbn [flat_map eT snd] in L. rewrite app_nil_r in L.
  split; [exact L|]. split; [exact R|]. intros a b Ha Hb Lt.
  exact (depth_order (snd y) Sm C (snd a) (fst (fst b)) (snd b) (fst (fst a)) (wleaf_node _ _ _ Hb) (wleaf_node _ _ _ Ha) Lt). Qed.
End ORDER_THM.

(* the Rust inputs are u32 weights: fewer than 2^32 of them cannot saturate the u64 sum *)
Lemma wsum_u32 ws : (forall x, In x ws -> (fst x < 2 ^ 32)%N) -> (N.of_nat (length ws) <= 2 ^ 32)%N -> (wsum ws <= U64MAX)%N.
Proof. intros B L. assert (G : (wsum ws <= N.of_nat (length ws) * (2 ^ 32 - 1))%N).
  { clear L. induction ws as [|x r IH]; cbn [wsum fold_right length]; [lia|]. specialize (B x (or_introl eq_refl)) as Bx.
    assert (IH' : (wsum r <= N.of_nat (length r) * (2 ^ 32 - 1))%N) by (apply IH; intros; apply B; now right). unfold wsum in IH'. lia. }
  unfold U64MAX. change (2 ^ 32)%N with 4294967296%N in *. nia. Qed.
