(* C15 — lemmas about Model/Huffman.v. *)
From Coq Require Import List Arith NArith ZArith Bool Lia ZifyN ZifyBool ZifyNat Permutation.
From Coq.Strings Require Import Byte.
From EV Require Import Base.Bytes Gen.Tables Model.Taproot Model.Huffman Proofs.Taproot.
Import ListNotations.
Ltac Zify.zify_post_hook ::= Z.div_mod_to_equations.

Section GEN.
Variable X : Type.
Variable xcmp : X -> X -> comparison.
Variable xcomb : X -> X -> res berr X.
Notation entry_cmp := (entry_cmp X xcmp).
Notation pop_max := (pop_max X xcmp).
Notation huff_loop := (huff_loop X xcmp xcomb).

(* BinaryHeap::pop: a rearrangement of the multiset whose head has the least weight *)
Lemma pop_max_spec : forall l x m rest, pop_max x l = (m, rest) ->
  Permutation (x :: l) (m :: rest) /\ (forall y, In y (x :: l) -> (fst m <= fst y)%N).
Proof. induction l as [|y r IH]; intros x m rest E; cbn [Huffman.pop_max] in E.
  - inversion E; subst. split; [reflexivity|]. intros y [<-|[]]. lia.
  - destruct (pop_max y r) as [m' rest'] eqn:P. destruct (IH y m' rest' P) as [Pm Min].
    unfold Huffman.entry_cmp in E. destruct (N.compare_spec (fst m') (fst x)) as [Ew|Lw|Gw].
    + (* equal weights: the node order decides; either way both have the least weight *)
      destruct (xcmp (snd x) (snd m')); inversion E; subst;
        try (split; [reflexivity|intros z [<-|Hz]; [lia|specialize (Min z Hz); lia]]).
      split; [rewrite Pm; apply perm_swap|]. intros z [<-|Hz]; [lia|apply Min, Hz].
    + inversion E; subst. split; [rewrite Pm; apply perm_swap|]. intros z [<-|Hz]; [lia|apply Min, Hz].
    + inversion E; subst. split; [reflexivity|]. intros z [<-|Hz]; [lia|specialize (Min z Hz); lia]. Qed.
Lemma pop_max_length l x m rest : pop_max x l = (m, rest) -> length rest = length l.
Proof. intros E. apply pop_max_spec in E as [P _]. apply Permutation_length in P. cbn in P. lia. Qed.

(* invariant rule for the merge loop: I is stable under rearrangement and under one merge of the two lightest *)
Section IND.
Variable I : list (N * X) -> Prop.
Hypothesis I_perm : forall h h', Permutation h h' -> I h -> I h'.
Hypothesis I_step : forall e1 e2 r c, I (e1 :: e2 :: r) -> (fst e1 <= fst e2)%N -> (forall y, In y r -> (fst e2 <= fst y)%N) ->
  xcomb (snd e1) (snd e2) = Ok c -> I ((sat_add (fst e1) (fst e2), c) :: r).
Lemma huff_loop_inv : forall fuel h x, I h -> huff_loop fuel h = Val x -> exists w, I [(w, x)].
Proof. induction fuel as [|f IH]; intros h x Ih E.
  - destruct h as [|a [|b r]]; cbn in E; try discriminate. inversion E; subst. exists (fst a). now destruct a.
  - destruct h as [|a [|b r]]; cbn [Huffman.huff_loop] in E; try discriminate.
    + inversion E; subst. exists (fst a). now destruct a.
    + destruct (pop_max a (b :: r)) as [e1 h1] eqn:P1. destruct (pop_max_spec _ _ _ _ P1) as [Pm1 Min1].
      destruct h1 as [|y r1]; [discriminate|]. destruct (pop_max y r1) as [e2 h2] eqn:P2. destruct (pop_max_spec _ _ _ _ P2) as [Pm2 Min2].
      destruct (xcomb (snd e1) (snd e2)) as [c|e] eqn:C; [|discriminate].
      apply (IH _ _ (I_step e1 e2 h2 c
               (I_perm _ _ (perm_trans Pm1 (perm_skip e1 Pm2)) Ih)
               (Min1 e2 (Permutation_in _ (Permutation_sym Pm1) (or_intror (Permutation_in _ (Permutation_sym Pm2) (or_introl eq_refl)))))
               (fun z Hz => Min2 z (Permutation_in _ (Permutation_sym Pm2) (or_intror Hz))) C) E). Qed.
Lemma huff_loop_fail : forall fuel h e, I h -> huff_loop fuel h = Fail e ->
  exists e1 e2 r, I (e1 :: e2 :: r) /\ xcomb (snd e1) (snd e2) = Err e.
Proof. induction fuel as [|f IH]; intros h e Ih E.
  - destruct h as [|a [|b r]]; cbn in E; discriminate.
  - destruct h as [|a [|b r]]; cbn [Huffman.huff_loop] in E; try discriminate.
    destruct (pop_max a (b :: r)) as [e1 h1] eqn:P1. destruct (pop_max_spec _ _ _ _ P1) as [Pm1 Min1].
    destruct h1 as [|y r1]; [discriminate|]. destruct (pop_max y r1) as [e2 h2] eqn:P2. destruct (pop_max_spec _ _ _ _ P2) as [Pm2 Min2].
    pose proof (I_perm _ _ (perm_trans Pm1 (perm_skip e1 Pm2)) Ih) as I2.
    destruct (xcomb (snd e1) (snd e2)) as [c|e'] eqn:C.
    + apply (IH _ _ (I_step e1 e2 h2 c I2
               (Min1 e2 (Permutation_in _ (Permutation_sym Pm1) (or_intror (Permutation_in _ (Permutation_sym Pm2) (or_introl eq_refl)))))
               (fun z Hz => Min2 z (Permutation_in _ (Permutation_sym Pm2) (or_intror Hz))) C) E).
    + inversion E; subst. eauto. Qed.
End IND.

(* the loop never runs out of fuel and none of its `expect`s can fire *)
Lemma huff_loop_total : forall fuel h, h <> [] -> (length h <= S fuel)%nat -> (exists x, huff_loop fuel h = Val x) \/ (exists e, huff_loop fuel h = Fail e).
Proof. induction fuel as [|f IH]; intros h N L.
  - destruct h as [|a [|b r]]; [congruence|left; cbn; eauto|cbn in L; lia].
  - destruct h as [|a [|b r]]; [congruence|left; cbn; eauto|]. cbn [Huffman.huff_loop].
    destruct (pop_max a (b :: r)) as [e1 h1] eqn:P1. pose proof (pop_max_length _ _ _ _ P1) as L1.
    destruct h1 as [|y r1]; [cbn in L1; lia|]. destruct (pop_max y r1) as [e2 h2] eqn:P2. pose proof (pop_max_length _ _ _ _ P2) as L2.
    destruct (xcomb (snd e1) (snd e2)) as [c|e]; [|right; eauto]. apply IH; [discriminate|]. cbn [length] in *. lia. Qed.
Lemma huffman_total h : (exists x, huffman X xcmp xcomb h = Val x) \/ (exists e, huffman X xcmp xcomb h = Fail e).
Proof. unfold huffman. destruct h as [|a r]; [right; eauto|]. apply huff_loop_total; [discriminate|lia]. Qed.
End GEN.

(* ------------------------------------------------------------------ shape of the Huffman tree over NodeInfo *)
Section SHAPE.
Variables Hleaf Hbranch : bytes -> bytes.
Notation combine := (combine Hbranch).
Definition keys (n : node) : list (bytes * byte) := map (fun l => (l_script l, l_ver l)) (n_leaves n).
Definition allkeys (h : list (N * node)) : list (bytes * byte) := flat_map (fun e => keys (snd e)) h.
Definition node_ok (n : node) : Prop :=
  n_leaves n <> [] /\ Forall (fun l => (length (l_branch l) < length (n_leaves n))%nat /\ (length (l_branch l) <= MAXD)%nat) (n_leaves n).
Definition shape_inv (inputs : list (bytes * byte)) (h : list (N * node)) : Prop :=
  Permutation (allkeys h) inputs /\ Forall (fun e => node_ok (snd e)) h.

Lemma push_all_spec h : forall ls ls', push_all h ls = Ok ls' ->
  ls' = map (snoc h) ls /\ Forall (fun l => (length (l_branch l) < MAXD)%nat) ls.
Proof. induction ls as [|l r IH]; intros ls' E; cbn [push_all] in E.
  - inversion E. split; [reflexivity|constructor].
  - unfold push in E. destruct (Nat.leb_spec MAXD (length (l_branch l))); [discriminate|].
    destruct (push_all h r) as [r'|] eqn:Pr; [|discriminate]. inversion E; subst. destruct (IH r' eq_refl) as [-> F].
    split; [reflexivity|constructor; assumption]. Qed.
Lemma push_all_err h : forall ls e, push_all h ls = Err e -> Forall (fun l => (length (l_branch l) <= MAXD)%nat) ls ->
  e = InvalidMerkleTreeDepth (N.of_nat MAXD).
Proof. induction ls as [|l r IH]; intros e E F; cbn [push_all] in E; [discriminate|]. inversion F as [|? ? Fl Fr]; subst.
  unfold push in E. destruct (Nat.leb_spec MAXD (length (l_branch l))).
  - inversion E. f_equal. lia.
  - destruct (push_all h r) as [r'|e'] eqn:Pr; [discriminate|]. inversion E; subst. now apply IH. Qed.
Lemma combine_spec a b c : combine a b = Ok c ->
  c = combine_tot Hbranch a b /\ Forall (fun l => (length (l_branch l) < MAXD)%nat) (n_leaves a ++ n_leaves b).
Proof. unfold Taproot.combine. destruct (push_all (n_hash b) (n_leaves a)) as [la|] eqn:Pa; [|discriminate].
  destruct (push_all (n_hash a) (n_leaves b)) as [lb|] eqn:Pb; [|discriminate]. intros E; inversion E; subst.
  apply push_all_spec in Pa as [-> Fa]. apply push_all_spec in Pb as [-> Fb]. split; [reflexivity|now apply Forall_app]. Qed.
Lemma keys_combine_tot a b : keys (combine_tot Hbranch a b) = keys a ++ keys b.
Proof. unfold keys, combine_tot. cbn [n_leaves]. rewrite map_app, !map_map. reflexivity. Qed.
Lemma node_ok_combine a b c : node_ok a -> node_ok b -> combine a b = Ok c -> node_ok c.
Proof. intros [Na Fa] [Nb Fb] E. apply combine_spec in E as [-> F]. unfold node_ok, combine_tot. cbn [n_leaves].
  split; [destruct (n_leaves a); [congruence|discriminate]|].
  rewrite app_length, !map_length. apply Forall_app in F as [F1 F2]. rewrite Forall_forall in Fa, Fb, F1, F2.
  assert (La : (0 < length (n_leaves a))%nat) by (destruct (n_leaves a); [congruence|cbn; lia]).
  assert (Lb : (0 < length (n_leaves b))%nat) by (destruct (n_leaves b); [congruence|cbn; lia]).
  apply Forall_app; split; apply Forall_forall; intros l Hl; apply in_map_iff in Hl as [l' [<- Hl']]; cbn [snoc l_branch];
    rewrite app_length; cbn [length]; [specialize (Fa l' Hl'); specialize (F1 l' Hl')|specialize (Fb l' Hl'); specialize (F2 l' Hl')]; lia. Qed.

Lemma shape_perm inputs h h' : Permutation h h' -> shape_inv inputs h -> shape_inv inputs h'.
Proof. intros P [K F]. split; [|eapply Permutation_Forall; eassumption].
  rewrite <- K. unfold allkeys. symmetry. now apply Permutation_flat_map. Qed.
Lemma shape_step inputs e1 e2 r c : shape_inv inputs (e1 :: e2 :: r) -> combine (snd e1) (snd e2) = Ok c ->
  shape_inv inputs ((sat_add (fst e1) (fst e2), c) :: r).
Proof. intros [K F] E. inversion F as [|? ? F1 F']; subst. inversion F' as [|? ? F2 Fr]; subst. split.
  - rewrite <- K. unfold allkeys. cbn [flat_map snd]. destruct (combine_spec _ _ _ E) as [-> _]. rewrite keys_combine_tot, <- app_assoc. apply Permutation_refl.
  - constructor; [cbn [snd]; exact (node_ok_combine _ _ _ F1 F2 E)|assumption]. Qed.

Definition leaf_entry (ws : N * bytes) : N * node := (fst ws, new_leaf Hleaf (snd ws) default_ver).
Lemma shape_init ws : shape_inv (map (fun ws => (snd ws, default_ver)) ws) (map leaf_entry ws).
Proof. split.
  - induction ws as [|a r IH]; cbn; [reflexivity|]. now apply perm_skip.
  - apply Forall_forall. intros e He. apply in_map_iff in He as [a [<- _]]. unfold leaf_entry, node_ok, new_leaf. cbn.
    split; [discriminate|]. repeat constructor; cbn; lia. Qed.

(* with_huffman_tree's node: never a panic; Ok exactly with the input scripts (default version) as leaves, every depth at most
   n-1 and at most 128; the only refusals are the empty input and a leaf pushed past depth 128 *)
Theorem huff_node_shape ws :
  (exists n, huff_node Hleaf Hbranch ws = Val n /\ Permutation (keys n) (map (fun ws => (snd ws, default_ver)) ws) /\
             length (n_leaves n) = length ws /\
             Forall (fun l => (length (l_branch l) < length ws)%nat /\ (length (l_branch l) <= MAXD)%nat) (n_leaves n)) \/
  (ws = [] /\ huff_node Hleaf Hbranch ws = Fail IncompleteTree) \/
  (ws <> [] /\ huff_node Hleaf Hbranch ws = Fail (InvalidMerkleTreeDepth (N.of_nat MAXD))).
Proof. unfold huff_node. destruct ws as [|w0 wr]; [right; left; auto|].
  set (ws := w0 :: wr). set (inputs := map (fun ws => (snd ws, default_ver)) ws).
  change (map (fun ws0 : N * bytes => (fst ws0, new_leaf Hleaf (snd ws0) default_ver)) ws) with (map leaf_entry ws).
  pose proof (shape_init ws) as I0. fold inputs in I0.
  assert (Stp : forall e1 e2 r c, shape_inv inputs (e1 :: e2 :: r) -> (fst e1 <= fst e2)%N -> (forall y, In y r -> (fst e2 <= fst y)%N) ->
            combine (snd e1) (snd e2) = Ok c -> shape_inv inputs ((sat_add (fst e1) (fst e2), c) :: r))
    by (intros; eapply shape_step; eassumption).
  destruct (huffman_total node node_cmp combine (map leaf_entry ws)) as [[n E]|[e E]].
  - left. exists n. split; [exact E|]. unfold huffman in E. cbn [map ws] in E. fold ws in E. change (leaf_entry w0 :: map leaf_entry wr) with (map leaf_entry ws) in E.
    destruct (huff_loop_inv node node_cmp combine (shape_inv inputs) (shape_perm inputs) Stp _ _ n I0 E) as [w [K F]].
    unfold allkeys in K. cbn [flat_map snd] in K. rewrite app_nil_r in K. split; [exact K|].
    assert (Len : length (n_leaves n) = length ws).
    { apply Permutation_length in K. unfold keys, inputs in K. now rewrite !map_length in K. }
    split; [exact Len|]. inversion F as [|? ? [_ Fn] _]; subst. cbn [snd] in Fn. rewrite Len in Fn. exact Fn.
  - right. right. split; [discriminate|]. rewrite E. f_equal. unfold huffman in E. cbn [map ws] in E. change (leaf_entry w0 :: map leaf_entry wr) with (map leaf_entry ws) in E.
    destruct (huff_loop_fail node node_cmp combine (shape_inv inputs) (shape_perm inputs) Stp _ _ e I0 E) as (e1 & e2 & r & [_ F] & C).
    inversion F as [|? ? [_ F1] F']; subst. inversion F' as [|? ? [_ F2] _]; subst.
    assert (B1 : Forall (fun l => (length (l_branch l) <= MAXD)%nat) (n_leaves (snd e1))) by (eapply Forall_impl; [|exact F1]; cbn; tauto).
    assert (B2 : Forall (fun l => (length (l_branch l) <= MAXD)%nat) (n_leaves (snd e2))) by (eapply Forall_impl; [|exact F2]; cbn; tauto).
    unfold Taproot.combine in C. destruct (push_all (n_hash (snd e2)) (n_leaves (snd e1))) as [la|ea] eqn:Pa.
    + destruct (push_all (n_hash (snd e1)) (n_leaves (snd e2))) as [lb|eb] eqn:Pb; [discriminate|]. inversion C; subst. eapply push_all_err; eassumption.
    + inversion C; subst. eapply push_all_err; eassumption. Qed.
End SHAPE.

(* ------------------------------------------------------------------ the Huffman node is the builder's node of a script tree *)
Section ASTREE.
Variables Hleaf Hbranch : bytes -> bytes.
Notation combine := (combine Hbranch).
Notation node_of := (node_of Hleaf Hbranch).
Fixpoint no_hidden (t : tree) : Prop := match t with Leaf _ _ => True | Hidden _ => False | Node a b => no_hidden a /\ no_hidden b end.
Lemma deepest_leaf t : no_hidden t -> exists l, In l (n_leaves (node_of t)) /\ length (l_branch l) = height t.
Proof. induction t as [s v|h|a IHa b IHb]; cbn [no_hidden Taproot.node_of height]; intros N.
  - eexists. split; [left; reflexivity|reflexivity].
  - destruct N.
  - destruct N as [Na Nb]. destruct (IHa Na) as (la & Ia & Ea). destruct (IHb Nb) as (lb & Ib & Eb).
    unfold combine_tot. cbn [n_leaves]. destruct (Nat.max_spec (height a) (height b)) as [[_ ->]|[_ ->]].
    + exists (snoc (n_hash (node_of a)) lb). split; [apply in_or_app; left; now apply in_map|]. cbn [snoc l_branch]. rewrite app_length. cbn [length]. lia.
    + exists (snoc (n_hash (node_of b)) la). split; [apply in_or_app; right; now apply in_map|]. cbn [snoc l_branch]. rewrite app_length. cbn [length]. lia. Qed.
Definition tree_inv (h : list (N * node)) : Prop :=
  Forall (fun e => exists t, snd e = node_of t /\ no_hidden t /\ (height t <= MAXD)%nat) h.
Lemma tree_perm h h' : Permutation h h' -> tree_inv h -> tree_inv h'.
Proof. intros P. apply Permutation_Forall, P. Qed.
Lemma tree_step e1 e2 r c : tree_inv (e1 :: e2 :: r) -> combine (snd e1) (snd e2) = Ok c -> tree_inv ((sat_add (fst e1) (fst e2), c) :: r).
Proof. intros F E. inversion F as [|? ? (t1 & E1 & N1 & H1) F']; subst. inversion F' as [|? ? (t2 & E2 & N2 & H2) Fr]; subst.
  constructor; [|assumption]. cbn [snd]. apply combine_spec in E as [-> B]. exists (Node t2 t1). rewrite E1, E2. split; [reflexivity|]. split; [cbn; auto|].
  apply Forall_app in B as [B1 B2]. rewrite Forall_forall in B1, B2. rewrite E1 in B1. rewrite E2 in B2.
  destruct (deepest_leaf t1 N1) as (l1 & I1 & L1). destruct (deepest_leaf t2 N2) as (l2 & I2 & L2).
  specialize (B1 l1 I1). specialize (B2 l2 I2). cbn [height]. lia. Qed.
Theorem huff_node_tree ws n : huff_node Hleaf Hbranch ws = Val n -> exists t, n = node_of t /\ no_hidden t /\ (height t <= MAXD)%nat.
Proof. unfold huff_node, huffman. destruct ws as [|w0 wr]; [discriminate|]. intros E.
  assert (I0 : tree_inv (map (fun ws => (fst ws, new_leaf Hleaf (snd ws) default_ver)) (w0 :: wr))).
  { apply Forall_forall. intros e He. apply in_map_iff in He as [a [<- _]]. exists (Leaf (snd a) default_ver). cbn. repeat split; auto. lia. }
  destruct (huff_loop_inv node node_cmp combine tree_inv tree_perm (fun e1 e2 r c I _ _ C => tree_step e1 e2 r c I C) _ _ n I0 E) as [w F].
  inversion F as [|? ? H _]; subst. exact H. Qed.
End ASTREE.

Section SPEND.
Variables Hleaf Hbranch Htweak : bytes -> bytes.
Variable scalar_ok : bytes -> bool.
Variable tweak : bytes -> bytes -> option (bytes * bool).
(* with_huffman_tree is the builder's result on the depth-first walk of a hidden-free tree whose leaves are exactly the inputs:
   every control-block theorem of the builder applies to it *)
Theorem with_huffman_is_build P ws i : with_huffman_tree Hleaf Hbranch Htweak scalar_ok tweak P ws = Val i ->
  exists t, no_hidden t /\ (height t <= MAXD)%nat /\ build Hleaf Hbranch Htweak scalar_ok tweak (dfs t 0) P = Val i /\
            Permutation (map (fun l => (l_script l, l_ver l)) (leaf_paths Hleaf Hbranch t)) (map (fun ws => (snd ws, default_ver)) ws) /\
            Forall (fun l => (length (l_branch l) < length ws)%nat) (leaf_paths Hleaf Hbranch t).
Proof. unfold with_huffman_tree. destruct (huff_node Hleaf Hbranch ws) as [n| |] eqn:E; try discriminate. intros F.
  destruct (huff_node_tree Hleaf Hbranch ws n E) as (t & -> & N & Hh). exists t. split; [assumption|]. split; [assumption|].
  split; [rewrite build_accepts by assumption; exact F|].
  destruct (huff_node_shape Hleaf Hbranch ws) as [(n' & E' & K & _ & B)|[[_ E']|[_ E']]]; rewrite E in E'; try discriminate.
  inversion E'; subst n'. unfold keys in K. rewrite node_of_leaves in K, B. split.
  - rewrite <- K. apply Permutation_map, Permutation_rev.
  - apply Forall_rev in B. rewrite rev_involutive in B. eapply Forall_impl; [|exact B]. cbn. tauto. Qed.
(* it never panics inside the Huffman loop, and refuses only the empty list and trees deeper than 128 *)
Theorem with_huffman_outcomes P ws :
  match with_huffman_tree Hleaf Hbranch Htweak scalar_ok tweak P ws with
  | Val _ => ws <> []
  | Fail e => (ws = [] /\ e = IncompleteTree) \/ (ws <> [] /\ e = InvalidMerkleTreeDepth (N.of_nat MAXD))
  | Panic s => s = ScalarRange \/ s = TweakFailed
  end.
Proof. destruct ws as [|w0 wr]; [cbn; auto|]. unfold with_huffman_tree.
  destruct (huff_node_shape Hleaf Hbranch (w0 :: wr)) as [(n & -> & _)|[[D _]|[N ->]]]; [|discriminate|right; split; [discriminate|reflexivity]].
  unfold from_node_info, new_key_spend, tap_tweak. destruct (scalar_ok _); [|auto]. destruct (tweak P _) as [[Q par]|]; [discriminate|auto]. Qed.
End SPEND.
