(* C03 — full sensitivity, segwit v0: equal digests => equal committed views, or a collision, or a preimage of the zero hash. *)
From Coq Require Import List Arith NArith Bool Lia.
From Coq.Strings Require Import Byte.
From EV Require Import Base.Bytes Base.Codec Model.Tx Model.SighashSpec Model.SighashCommit Proofs.Tx Proofs.Sighash Proofs.SighashCommit Proofs.SighashCommitTap.
Import ListNotations.
Open Scope N_scope.
Set Default Timeout 120.

Definition Preimage (H : bytes -> bytes) (y : bytes) : Prop := exists x, H x = y.

Section SEGWIT.
Variable pt_ok : bytes -> bool.
Variable H : bytes -> bytes.
Hypothesis Hlen : forall x, length (H x) = 32%nat.
Notation canon_in := (canon_in pt_ok). Notation canon_out := (canon_out pt_ok). Notation canon_tx := (canon_tx pt_ok).

Lemma issuance_nonempty i : wf (c_issuance pt_ok) i = true -> ser_issuance pt_ok i <> [].
Proof. unfold c_issuance. cbn [c_conv wf c_pair c_tweak c_guard c_fixed]. intros W E. apply andb_true_iff in W as [_ W]. apply andb_true_iff in W as [W _].
  apply andb_true_iff in W as [W _]. apply Nat.eqb_eq in W. unfold ser_issuance in E. apply app_eq_nil in E as [E _]. rewrite E in W. discriminate. Qed.
Lemma len32_if (b : bool) x : length (if b then zero256 else H x) = 32%nat.
Proof. destruct b; [reflexivity|apply Hlen]. Qed.

Ltac col K := right; left; exact K.
Ltac len32 := repeat match goal with |- context [if ?b then _ else _] => destruct b end; rewrite ?Hlen; reflexivity.

Theorem segwit_msg_sensitive t t' idx idx' sc sc' v v' ht ht' m :
  spec_segwit_msg pt_ok H t idx sc v ht = Some m -> spec_segwit_msg pt_ok H t' idx' sc' v' ht' = Some m ->
  canon_tx t = true -> canon_tx t' = true -> seg_query_ok pt_ok sc v ht = true -> seg_query_ok pt_ok sc' v' ht' = true ->
  segwit_committed pt_ok t idx sc v ht = segwit_committed pt_ok t' idx' sc' v' ht' \/ Collision H \/ Preimage H zero256.
Proof. unfold spec_segwit_msg, segwit_committed. intros S S' C C' Q Q'.
  destruct (canon_tx_facts pt_ok t C) as (Vv & Vl & CI & CO). destruct (canon_tx_facts pt_ok t' C') as (Vv' & Vl' & CI' & CO').
  unfold seg_query_ok in Q, Q'. apply andb_true_iff in Q as [Q Qh]. apply andb_true_iff in Q as [Qs Qv]. apply andb_true_iff in Q' as [Q' Qh']. apply andb_true_iff in Q' as [Qs' Qv'].
  apply N.ltb_lt in Qh, Qh'. apply len_ok_wf in Qs, Qs'.
  destruct (nth_error (tx_in t) idx) as [me|] eqn:Nme; [|discriminate]. destruct (nth_error (tx_in t') idx') as [me'|] eqn:Nme'; [|discriminate].
  pose proof (forallb_nth _ _ _ _ CI Nme) as Cme. pose proof (forallb_nth _ _ _ _ CI' Nme') as Cme'.
  destruct (canon_in_facts pt_ok me Cme) as (_ & _ & Sq & Is & _). destruct (canon_in_facts pt_ok me' Cme') as (_ & _ & Sq' & Is' & _).
  apply Some_inj in S. apply Some_inj in S'. rewrite <- S' in S. clear S' m.
  apply app_eq_len in S as [Ev S]; [|now rewrite !ser_u32_len]. apply ser_u32_inj in Ev; auto.
  apply app_eq_len in S as [E1 S]; [|unfold hash_prevouts, sha256d; len32].
  apply app_eq_len in S as [E2 S]; [|unfold hash_sequence, sha256d; len32].
  apply app_eq_len in S as [E3 S]; [|unfold hash_issuance, sha256d; len32].
  apply (peel c_outpoint) in S as [Eo S]; [|apply c_outpoint_lawful|now apply (wf_outpoint pt_ok)|now apply (wf_outpoint pt_ok)].
  apply (peel (c_varbytes BIG)) in S as [Es S]; [|apply c_varbytes_lawful|assumption|assumption].
  apply (peel (c_value pt_ok)) in S as [Eval S]; [|apply c_value_lawful|assumption|assumption].
  apply app_eq_len in S as [Eq S]; [|now rewrite !ser_u32_len]. apply ser_u32_inj in Eq; auto.
  rewrite !app_assoc in S. apply app_eq_len_r in S as [S Eh]; [|now rewrite !ser_u32_len]. apply ser_u32_inj in Eh; auto. subst ht'.
  apply app_eq_len_r in S as [S El]; [|now rewrite !ser_u32_len]. apply ser_u32_inj in El; auto.
  apply app_eq_len_r in S as [Ei E4].
  2:{ destruct (negb (hash_single ht) && negb (hash_none ht)); [unfold hash_outputs, sha256d; now rewrite !Hlen|].
      destruct (hash_single ht); [|reflexivity]. destruct (nth_error (tx_out t) idx), (nth_error (tx_out t') idx'); unfold sha256d; now rewrite ?Hlen. }
  rewrite Ev, Eo, Es, Eval, Eq, El. clear Ev Eo Es Eval Eq El.
  assert (Fi : fv_iss_opt me = fv_iss_opt me').
  { unfold fv_iss_opt. destruct (issuance_null me) eqn:Z, (issuance_null me') eqn:Z'; try reflexivity.
    - symmetry in Ei. now apply issuance_nonempty in Ei; [|apply Is'].
    - now apply issuance_nonempty in Ei; [|apply Is].
    - change (ser_issuance pt_ok) with (enc (c_issuance pt_ok)) in Ei. apply (enc_inj _ (c_issuance_lawful pt_ok)) in Ei; [now rewrite Ei|now apply Is|now apply Is']. }
  rewrite Fi. clear Fi Ei.
  assert (F1 : (if anyone_can_pay ht then FNone else FSome (FList (map (fun i => fv_outpoint (in_prev i)) (tx_in t)))) =
               (if anyone_can_pay ht then FNone else FSome (FList (map (fun i => fv_outpoint (in_prev i)) (tx_in t')))) \/ Collision H).
  { destruct (anyone_can_pay ht); [now left|]. unfold hash_prevouts, sha256d in E1. destruct (hash_eq H _ _ E1) as [E|K]; [|now right].
    destruct (sub_prevouts pt_ok H _ _ CI CI' E) as [F|K]; [left; now rewrite F|now right]. }
  destruct F1 as [F1|K]; [rewrite F1; clear F1 E1|col K].
  assert (F2 : (if negb (anyone_can_pay ht) && negb (hash_single ht) && negb (hash_none ht) then FSome (FList (map (fun i => FNum (in_seq i)) (tx_in t))) else FNone) =
               (if negb (anyone_can_pay ht) && negb (hash_single ht) && negb (hash_none ht) then FSome (FList (map (fun i => FNum (in_seq i)) (tx_in t'))) else FNone) \/ Collision H).
  { destruct (negb (anyone_can_pay ht) && negb (hash_single ht) && negb (hash_none ht)); [|now left]. unfold hash_sequence, sha256d in E2.
    destruct (hash_eq H _ _ E2) as [E|K]; [|now right]. destruct (sub_sequences pt_ok H _ _ CI CI' E) as [F|K]; [left; now rewrite F|now right]. }
  destruct F2 as [F2|K]; [rewrite F2; clear F2 E2|col K].
  assert (F3 : (if anyone_can_pay ht then FNone else FSome (FBytes (concat (map (issuance_or_zero pt_ok) (tx_in t))))) =
               (if anyone_can_pay ht then FNone else FSome (FBytes (concat (map (issuance_or_zero pt_ok) (tx_in t'))))) \/ Collision H).
  { destruct (anyone_can_pay ht); [now left|]. unfold hash_issuance, sha256d in E3. destruct (hash_eq H _ _ E3) as [E|K]; [|now right].
    destruct (hash_eq H _ _ E) as [F|K]; [left; now rewrite F|now right]. }
  destruct F3 as [F3|K]; [rewrite F3; clear F3 E3|col K].
  destruct (negb (hash_single ht) && negb (hash_none ht)).
  - unfold hash_outputs, sha256d in E4. destruct (hash_eq H _ _ E4) as [E|K]; [|col K]. destruct (sub_outputs pt_ok H _ _ CO CO' E) as [F|K]; [|col K]. left. now rewrite F.
  - destruct (hash_single ht); [|now left].
    destruct (nth_error (tx_out t) idx) as [o|] eqn:No, (nth_error (tx_out t') idx') as [o'|] eqn:No'.
    + unfold sha256d in E4. destruct (hash_eq H _ _ E4) as [E|K]; [|col K]. destruct (hash_eq H _ _ E) as [E'|K]; [|col K].
      change (ser_txout pt_ok o) with (enc (c_out4 pt_ok) (out4 o)) in E'. change (ser_txout pt_ok o') with (enc (c_out4 pt_ok) (out4 o')) in E'.
      apply (enc_inj _ (c_out4_lawful pt_ok)) in E'; [|apply (wf_out4 pt_ok); exact (forallb_nth _ _ _ _ CO No)|apply (wf_out4 pt_ok); exact (forallb_nth _ _ _ _ CO' No')].
      left. unfold fv_txout. unfold out4 in E'. inversion E' as [[A1 A2 A3 A4]]. rewrite A1, A2, A3, A4. reflexivity.
    + right. right. eexists. exact E4.
    + right. right. eexists. symmetry. exact E4.
    + now left.
Qed.
End SEGWIT.
