(* C07 — raw key/pair/proprietary-key framing laws and the total-order laws of the transcribed comparators. *)
From Coq Require Import List Arith NArith ZArith Lia Bool ZifyN ZifyBool ZifyNat.
From Coq.Strings Require Import Byte.
From EV Require Import Base.Bytes Base.Codec Model.PsetRaw.
Import ListNotations.
Ltac Zify.zify_post_hook ::= Z.div_mod_to_equations.
Open Scope N_scope.
Set Default Timeout 30.

(* ---------------------------------------------------------------- lexicographic orders *)
Section LEX.
Context {A : Type} (c : A -> A -> comparison).
Hypothesis c_eq : forall x y, c x y = Eq <-> x = y.
Hypothesis c_anti : forall x y, c y x = CompOpp (c x y).
Hypothesis c_trans : forall x y z, c x y = Lt -> c y z = Lt -> c x z = Lt.
Lemma lex_cmp_eq : forall a b, lex_cmp c a b = Eq <-> a = b.
Proof. induction a as [|x a IH]; intros [|y b]; cbn [lex_cmp]; try (split; discriminate); [tauto|].
  destruct (c x y) eqn:E.
  - apply c_eq in E. subst. rewrite IH. split; [intros ->; reflexivity|intros H; now inversion H].
  - split; [discriminate|]. intros H; inversion H; subst. assert (c y y = Eq) by now apply c_eq. congruence.
  - split; [discriminate|]. intros H; inversion H; subst. assert (c y y = Eq) by now apply c_eq. congruence. Qed.
Lemma lex_cmp_anti : forall a b, lex_cmp c b a = CompOpp (lex_cmp c a b).
Proof. induction a as [|x a IH]; intros [|y b]; cbn [lex_cmp]; try reflexivity.
  rewrite (c_anti x y). destruct (c x y); cbn [CompOpp]; auto. Qed.
Lemma lex_cmp_trans : forall a b d, lex_cmp c a b = Lt -> lex_cmp c b d = Lt -> lex_cmp c a d = Lt.
Proof. induction a as [|x a IH]; intros [|y b] [|z d]; cbn [lex_cmp]; try discriminate; try reflexivity.
  destruct (c x y) eqn:E1; try discriminate.
  - apply c_eq in E1. subst y. destruct (c x z); try discriminate; auto. intros H1 H2. eapply IH; eauto.
  - intros _. destruct (c y z) eqn:E2; try discriminate.
    + apply c_eq in E2. subst z. now rewrite E1.
    + intros _. now rewrite (c_trans _ _ _ E1 E2). Qed.
End LEX.

Lemma bcmp_eq x y : bcmp x y = Eq <-> x = y.
Proof. unfold bcmp. rewrite N.compare_eq_iff. split; [apply b2n_inj|now intros ->]. Qed.
Lemma bcmp_anti x y : bcmp y x = CompOpp (bcmp x y). Proof. unfold bcmp. apply N.compare_antisym. Qed.
Lemma bcmp_trans x y z : bcmp x y = Lt -> bcmp y z = Lt -> bcmp x z = Lt.
Proof. unfold bcmp. rewrite !N.compare_lt_iff. lia. Qed.
Lemma bscmp_eq a b : bscmp a b = Eq <-> a = b. Proof. apply lex_cmp_eq, bcmp_eq. Qed.
Lemma bscmp_anti a b : bscmp b a = CompOpp (bscmp a b). Proof. apply lex_cmp_anti, bcmp_anti. Qed.
Lemma bscmp_trans a b d : bscmp a b = Lt -> bscmp b d = Lt -> bscmp a d = Lt.
Proof. apply lex_cmp_trans; [apply bcmp_eq|apply bcmp_trans]. Qed.
Lemma tcmp_eq a b : tcmp a b = Eq <-> a = b. Proof. apply lex_cmp_eq, bscmp_eq. Qed.
Lemma tcmp_anti a b : tcmp b a = CompOpp (tcmp a b). Proof. apply lex_cmp_anti, bscmp_anti. Qed.
Lemma tcmp_trans a b d : tcmp a b = Lt -> tcmp b d = Lt -> tcmp a d = Lt.
Proof. apply lex_cmp_trans; [apply bscmp_eq|apply bscmp_trans]. Qed.
Lemma tcmp_refl a : tcmp a a = Eq. Proof. now apply tcmp_eq. Qed.

(* ---------------------------------------------------------------- framing *)
Section RAW.
Variable maxvec : N.
Hypothesis Hmax : maxvec + 1 < 2 ^ 64.

Definition fitsb (b : bytes) : bool := N.of_nat (length b) <=? maxvec.
Definition fits (p : rpair) : Prop := fitsb (snd (fst p)) = true /\ fitsb (snd p) = true.

Lemma c_key_lawful : Lawful (c_key maxvec).
Proof. unfold c_key. apply c_conv_lawful.
  - unfold c_keybody. apply c_dep_lawful; [apply c_guard_lawful, c_varint_lawful|intros; apply c_fixed_lawful].
  - intros [n b] [t k]. unfold key_of_body, body_of_key. cbn [snd fst wf c_keybody c_dep c_fixed c_keylen c_guard].
    intros W H. destruct b as [|t' k']; [discriminate|]. inversion H; subst. split; [|reflexivity].
    apply andb_true_iff in W as [_ W]. apply Nat.eqb_eq in W. f_equal. cbn [length] in W. lia.
  - intros [t k] _ _. reflexivity. Qed.
Lemma c_rawpair_lawful : Lawful (c_rawpair maxvec).
Proof. apply c_pair_lawful; [apply c_key_lawful|apply c_varbytes_lawful]. Qed.

Lemma rawpair_wf_iff p : wf (c_rawpair maxvec) p = true <-> fits p.
Proof. destruct p as [[t k] v]. unfold fits, fitsb. cbn [c_rawpair c_pair wf c_key c_conv c_keybody c_dep c_keylen c_guard c_varint c_fixed c_varbytes body_of_key fst snd length].
  rewrite Nat2N.id, Nat.eqb_refl. split.
  - intros H. repeat (apply andb_true_iff in H as [H ?]). split; lia.
  - intros [H1 H2]. repeat (apply andb_true_iff; split); try reflexivity; lia. Qed.

Lemma vi_enc_head n : 1 <= n -> exists b r, vi_enc n = b :: r /\ b <> x00.
Proof. intros H. unfold vi_enc. destruct (N.ltb_spec n 0xFD).
  - exists (n2b n), []. split; [reflexivity|]. intros E. assert (b2n (n2b n) = 0) by now rewrite E. rewrite b2n_n2b_small in H1; lia.
  - destruct (n <? 0x10000); [|destruct (n <? 0x100000000)]; eexists _, _; (split; [reflexivity|]); intros E; discriminate E. Qed.
Lemma enc_pair_head p : exists b r, enc_pair maxvec p = b :: r /\ b <> x00.
Proof. destruct p as [[t k] v]. unfold enc_pair. cbn [c_rawpair c_pair enc c_key c_conv c_keybody c_dep c_keylen c_guard c_varint c_fixed body_of_key fst snd].
  destruct (vi_enc_head (N.of_nat (S (length k)))) as (b & r & E & Hb); [lia|]. rewrite E. cbn [app]. eauto. Qed.
Lemma enc_pair_nonempty p : (1 <= length (enc_pair maxvec p))%nat.
Proof. destruct (enc_pair_head p) as (b & r & -> & _). cbn [length]. lia. Qed.

Lemma dec_pair_nz b r : b <> x00 ->
  dec_pair maxvec (b :: r) = match dec (c_rawpair maxvec) (b :: r) with Some (p, rest) => POk (Some p, rest) | None => PErr EInvalid end.
Proof. intros H. destruct b; try congruence; reflexivity. Qed.
Lemma dec_pair_enc p rest : fits p -> dec_pair maxvec (enc_pair maxvec p ++ rest) = POk (Some p, rest).
Proof. intros F. apply rawpair_wf_iff in F. destruct (enc_pair_head p) as (b & r & E & Hb).
  pose proof (l_complete c_rawpair_lawful p rest F) as D. unfold enc_pair in *. rewrite E in *. cbn [app] in *.
  rewrite dec_pair_nz by exact Hb. now rewrite D. Qed.
Lemma dec_pair_sep rest : dec_pair maxvec (x00 :: rest) = POk (None, rest). Proof. reflexivity. Qed.
Lemma dec_pair_some bs p rest : dec_pair maxvec bs = POk (Some p, rest) -> bs = enc_pair maxvec p ++ rest /\ fits p.
Proof. intros H.
  assert (D : dec (c_rawpair maxvec) bs = Some (p, rest)).
  { destruct bs as [|b r]; [cbn in H; discriminate|]. destruct (byte_eqb_spec b x00) as [->|Hb]; [cbn in H; discriminate|].
    rewrite dec_pair_nz in H by exact Hb. destruct (dec (c_rawpair maxvec) (b :: r)) as [[p' r']|]; [now inversion H|discriminate]. }
  split; [now apply (l_exact c_rawpair_lawful)|]. apply rawpair_wf_iff. eapply (l_wf c_rawpair_lawful); eauto. Qed.
Lemma dec_pair_none bs rest : dec_pair maxvec bs = POk (None, rest) -> bs = x00 :: rest.
Proof. intros H. destruct bs as [|b r]; [cbn in H; discriminate|]. destruct (byte_eqb_spec b x00) as [->|Hb]; [cbn in H; now inversion H|].
  rewrite dec_pair_nz in H by exact Hb. destruct (dec (c_rawpair maxvec) (b :: r)) as [[p' r']|]; discriminate. Qed.

(* proprietary keys *)
Lemma prop_dec_enc pfx s kd : fitsb pfx = true -> prop_dec maxvec (prop_enc maxvec pfx s kd) = Some (pfx, s, kd).
Proof. intros F. unfold prop_dec, prop_enc, fitsb in *.
  assert (W : wf (c_varbytes maxvec) pfx = true) by (cbn; apply andb_true_iff; split; lia).
  now rewrite (l_complete (c_varbytes_lawful maxvec) pfx (s :: kd) W). Qed.
Lemma prop_dec_exact k pfx s kd : prop_dec maxvec k = Some (pfx, s, kd) -> k = prop_enc maxvec pfx s kd /\ fitsb pfx = true.
Proof. unfold prop_dec, prop_enc. destruct (dec (c_varbytes maxvec) k) as [[p [|s' d]]|] eqn:D; try discriminate.
  intros H; inversion H; subst. split; [now apply (l_exact (c_varbytes_lawful maxvec)) in D|].
  apply (l_wf (c_varbytes_lawful maxvec)) in D. cbn in D. apply andb_true_iff in D as [D _]. exact D. Qed.
Lemma prop_enc_length pfx s kd : length (prop_enc maxvec pfx s kd) = (length (enc (c_varbytes maxvec) pfx) + S (length kd))%nat.
Proof. unfold prop_enc. now rewrite app_length. Qed.
End RAW.
