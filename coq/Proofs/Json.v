(* Key-order independence of the canonical JSON serialisation (C11, contract-hash clause). *)
From Coq Require Import List NArith Bool Lia Permutation Relations ZifyN ZifyBool.
From Coq.Strings Require Import Byte.
From EV Require Import Base.Bytes Model.Json.
Import ListNotations.
Open Scope N_scope.
Set Default Timeout 30.

(* ---- the order ---- *)
Lemma leb_total a : forall b, bytes_leb a b = true \/ bytes_leb b a = true.
Proof. induction a as [|x a IH]; intros [|y b]; cbn [bytes_leb]; auto.
  destruct (N.ltb_spec (b2n x) (b2n y)); [auto|]. destruct (N.ltb_spec (b2n y) (b2n x)); [auto|]. apply IH. Qed.
Lemma leb_antisym a : forall b, bytes_leb a b = true -> bytes_leb b a = true -> a = b.
Proof. induction a as [|x a IH]; intros [|y b]; cbn [bytes_leb]; try discriminate; auto.
  destruct (N.ltb_spec (b2n x) (b2n y)); destruct (N.ltb_spec (b2n y) (b2n x)); try discriminate; try lia.
  intros H1 H2. assert (x = y) by (apply b2n_inj; lia). subst. f_equal. now apply IH. Qed.
Lemma leb_trans a : forall b c, bytes_leb a b = true -> bytes_leb b c = true -> bytes_leb a c = true.
Proof. induction a as [|x a IH]; intros [|y b] [|z c]; cbn [bytes_leb]; try discriminate; auto.
  destruct (N.ltb_spec (b2n x) (b2n y)); destruct (N.ltb_spec (b2n y) (b2n x)); destruct (N.ltb_spec (b2n y) (b2n z)); destruct (N.ltb_spec (b2n z) (b2n y));
  destruct (N.ltb_spec (b2n x) (b2n z)); destruct (N.ltb_spec (b2n z) (b2n x)); try discriminate; try lia; auto. apply IH. Qed.

(* ---- insertion sort by key does not depend on the order of entries with distinct keys ---- *)
Section SORT.
Variable A : Type.
Notation entry := (bytes * A)%type.
Lemma insert_comm (x y : entry) : fst x <> fst y -> forall l, insert_by x (insert_by y l) = insert_by y (insert_by x l).
Proof. intros NE.
  assert (XY : bytes_leb (fst x) (fst y) = true -> bytes_leb (fst y) (fst x) = false).
  { intros H. destruct (bytes_leb (fst y) (fst x)) eqn:E; [|reflexivity]. exfalso. apply NE. now apply leb_antisym. }
  assert (YX : bytes_leb (fst x) (fst y) = false -> bytes_leb (fst y) (fst x) = true).
  { intros H. destruct (leb_total (fst x) (fst y)); congruence. }
  assert (CASES : (bytes_leb (fst x) (fst y) = true /\ bytes_leb (fst y) (fst x) = false) \/ (bytes_leb (fst x) (fst y) = false /\ bytes_leb (fst y) (fst x) = true)).
  { destruct (bytes_leb (fst x) (fst y)) eqn:E; [left|right]; split; auto. }
  clear XY YX.
  induction l as [|h t IH].
  - cbn [insert_by]. destruct CASES as [[Exy Eyx]|[Exy Eyx]]; rewrite Exy, Eyx; reflexivity.
  - destruct (bytes_leb (fst y) (fst h)) eqn:Eyh; destruct (bytes_leb (fst x) (fst h)) eqn:Exh.
    + destruct CASES as [[Exy Eyx]|[Exy Eyx]];
        cbn [insert_by]; rewrite ?Eyh, ?Exh, ?Exy, ?Eyx; cbn [insert_by]; rewrite ?Eyh, ?Exh, ?Exy, ?Eyx; reflexivity.
    + (* y <= h < x: so y < x *)
      destruct CASES as [[Exy Eyx]|[Exy Eyx]]; [rewrite (leb_trans _ _ _ Exy Eyh) in Exh; discriminate|].
      cbn [insert_by]; rewrite ?Eyh, ?Exh, ?Exy, ?Eyx; cbn [insert_by]; rewrite ?Eyh, ?Exh, ?Exy, ?Eyx; reflexivity.
    + (* x <= h < y: so x < y *)
      destruct CASES as [[Exy Eyx]|[Exy Eyx]]; [|rewrite (leb_trans _ _ _ Eyx Exh) in Eyh; discriminate].
      cbn [insert_by]; rewrite ?Eyh, ?Exh, ?Exy, ?Eyx; cbn [insert_by]; rewrite ?Eyh, ?Exh, ?Exy, ?Eyx; reflexivity.
    + cbn [insert_by]; rewrite ?Eyh, ?Exh; cbn [insert_by]; rewrite ?Eyh, ?Exh. now rewrite IH. Qed.
Lemma isort_perm (l l' : list entry) : Permutation l l' -> NoDup (map fst l) -> isort l = isort l'.
Proof. induction 1 as [|x l l' P IH|x y l|l l' l'' P1 IH1 P2 IH2]; intros ND; cbn [isort map] in *.
  - reflexivity.
  - inversion ND; subst. now rewrite IH.
  - inversion ND as [|? ? Hy ND']; subst. inversion ND' ; subst. apply insert_comm. intros E. apply Hy. left. now symmetry.
  - rewrite IH1 by exact ND. apply IH2. eapply Permutation_NoDup; [apply Permutation_map; exact P1|exact ND]. Qed.
End SORT.

(* ---- one re-ordering of the entries of one object, anywhere in the tree ---- *)
Inductive step : json -> json -> Prop :=
| st_here l l' : Permutation l l' -> NoDup (map fst l) -> step (JObj l) (JObj l')
| st_arr a j j' b : step j j' -> step (JArr (a ++ j :: b)) (JArr (a ++ j' :: b))
| st_obj a k lit j j' b : step j j' -> step (JObj (a ++ (k, (lit, j)) :: b)) (JObj (a ++ (k, (lit, j')) :: b)).
Definition render (e : bytes * (bytes * json)) : bytes * bytes := match e with (k, (lit, v)) => (k, lit ++ [x3a] ++ canon v) end.
Lemma canon_obj l : canon (JObj l) = [x7b] ++ join_with [x2c] (map snd (isort (map render l))) ++ [x7d].
Proof. reflexivity. Qed.
Lemma render_key l : map fst (map render l) = map fst l.
Proof. rewrite map_map. apply map_ext. intros [k [lit v]]. reflexivity. Qed.
Theorem step_canon j j' : step j j' -> canon j = canon j'.
Proof. induction 1 as [l l' P ND|a j j' b S IH|a k lit j j' b S IH].
  - rewrite !canon_obj. f_equal. f_equal. f_equal. f_equal. apply isort_perm; [now apply Permutation_map|now rewrite render_key].
  - cbn [canon]. rewrite !map_app. cbn [map]. now rewrite IH.
  - rewrite !canon_obj. rewrite !map_app. cbn [map render]. now rewrite IH. Qed.
Theorem reorder_canon j j' : clos_refl_trans json step j j' -> canon j = canon j'.
Proof. induction 1 as [j j' S| |j1 j2 j3 _ IH1 _ IH2]; [now apply step_canon|reflexivity|congruence]. Qed.
