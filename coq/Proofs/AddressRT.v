(* Round trip parse (display a) = a for segwit addresses (C06): regrouping of bits, character set, decoder completeness. *)
From Coq Require Import List NArith ZArith Bool Lia ZifyN ZifyBool ZifyNat.
From Coq.Strings Require Import Byte.
From EV Require Import Base.Bytes Gen.Tables Model.Bech32 Model.Base58 Model.Address Proofs.Bech32 Proofs.Bech32Codes Proofs.Bech32Enc Proofs.Address.
Ltac Zify.zify_post_hook ::= Z.div_mod_to_equations.
Import ListNotations.
Open Scope N_scope.

(* ---------------------------------------------------------------- bits *)
Lemma bits5_val a b c d e : bits_of 5 (val_of [a; b; c; d; e] 0) = [a; b; c; d; e].
Proof. destruct a, b, c, d, e; reflexivity. Qed.
Lemma byte_bits b : exists b7 b6 b5 b4 b3 b2 b1 b0, bits_of 8 (b2n b) = [b7; b6; b5; b4; b3; b2; b1; b0] /\ n2b (val_of [b7; b6; b5; b4; b3; b2; b1; b0] 0) = b.
Proof. destruct b; do 8 eexists; split; reflexivity. Qed.

Lemma chunk8_short pad : (length pad < 8)%nat -> chunk8 pad = [].
Proof. intros L. do 8 (destruct pad as [|? pad]; [reflexivity|]). cbn [length] in L. lia. Qed.
Lemma chunk8_bytes data : forall pad, (length pad < 8)%nat -> chunk8 (bits_of_bytes data ++ pad) = data.
Proof. induction data as [|b r IH]; intros pad L; [now apply chunk8_short|]. unfold bits_of_bytes in *. cbn [flat_map].
  destruct (byte_bits b) as (b7 & b6 & b5 & b4 & b3 & b2 & b1 & b0 & -> & E). cbn [app chunk8]. rewrite E. f_equal. now apply IH. Qed.

(* chunk5: what the symbols spell out, how many there are, and the zero padding of the last one *)
Definition padlen (k : nat) : nat := ((5 - k mod 5) mod 5)%nat.
Lemma chunk5_spec m : forall bs, (length bs <= 5 * m + 4)%nat ->
  bits_of_syms (chunk5 bs) = bs ++ repeat false (padlen (length bs)) /\
  length (chunk5 bs) = ((length bs + 4) / 5)%nat /\
  (bs <> [] -> N.land (last (chunk5 bs) 0) (N.ones (N.of_nat (padlen (length bs)))) = 0).
Proof. induction m as [|m IH]; intros bs L.
  - destruct bs as [|a [|b [|c [|d [|e r]]]]]; cbn [length] in L; try lia; unfold bits_of_syms; cbn [chunk5 flat_map app].
    + repeat split; try reflexivity; try (intros X; contradiction).
    + rewrite bits5_val. repeat split; try reflexivity. intros _. destruct a; reflexivity.
    + rewrite bits5_val. repeat split; try reflexivity. intros _. destruct a, b; reflexivity.
    + rewrite bits5_val. repeat split; try reflexivity. intros _. destruct a, b, c; reflexivity.
    + rewrite bits5_val. repeat split; try reflexivity. intros _. destruct a, b, c, d; reflexivity.
  - destruct bs as [|a [|b [|c [|d [|e r]]]]]; try (apply (IH _); cbn [length]; lia).
    destruct (IH r) as (S1 & S2 & S3); [cbn [length] in L; lia|].
    assert (PL : padlen (length (a :: b :: c :: d :: e :: r)) = padlen (length r)).
    { unfold padlen. cbn [length]. replace (S (S (S (S (S (length r)))))) with (length r + 1 * 5)%nat by lia. now rewrite Nat.mod_add by lia. }
    rewrite PL. unfold bits_of_syms in *. cbn [chunk5 flat_map]. rewrite bits5_val, S1. cbn [app length]. rewrite S2. repeat split.
    + lia.
    + intros _. destruct r as [|x r'].
      * cbn. apply N.land_0_r.
      * assert (NE : chunk5 (x :: r') <> []) by (intros Z; apply (f_equal (@length N)) in Z; rewrite S2 in Z; cbn [length] in Z; lia).
        destruct (chunk5 (x :: r')) as [|y ys] eqn:C; [contradiction|]. cbn [last]. apply S3. discriminate. Qed.

Lemma fes_bytes_roundtrip data : fes_to_bytes (bytes_to_fes data) = data.
Proof. unfold fes_to_bytes, bytes_to_fes. destruct (chunk5_spec (length (bits_of_bytes data)) (bits_of_bytes data)) as (S1 & _); [lia|].
  rewrite S1. apply chunk8_bytes. rewrite repeat_length. unfold padlen. lia. Qed.
Lemma bits_of_bytes_length data : length (bits_of_bytes data) = (8 * length data)%nat.
Proof. induction data as [|b r IH]; [reflexivity|]. unfold bits_of_bytes in *. cbn [flat_map length]. rewrite app_length, bits_of_length, IH. lia. Qed.
Lemma bytes_to_fes_length data : length (bytes_to_fes data) = ((8 * length data + 4) / 5)%nat.
Proof. unfold bytes_to_fes. destruct (chunk5_spec (length (bits_of_bytes data)) (bits_of_bytes data)) as (_ & S2 & _); [lia|].
  now rewrite S2, bits_of_bytes_length. Qed.
Lemma bytes_to_fes_padding data : validate_padding (bytes_to_fes data) = Ok tt.
Proof. unfold validate_padding. destruct (bytes_to_fes data) as [|x xs] eqn:E; [reflexivity|]. rewrite <- E. clear x xs E.
  destruct (chunk5_spec (length (bits_of_bytes data)) (bits_of_bytes data)) as (_ & S2 & S3); [lia|]. fold (bytes_to_fes data) in *.
  rewrite bits_of_bytes_length in *. rewrite S2.
  assert (PD : ((8 * length data + 4) / 5 * 5 mod 8 = padlen (8 * length data))%nat) by (unfold padlen; lia).
  rewrite PD. destruct (Nat.ltb_spec 4 (padlen (8 * length data))) as [L|L]; [unfold padlen in L; lia|].
  destruct data as [|b r]; [reflexivity|]. rewrite S3; [reflexivity|]. unfold bits_of_bytes. cbn [flat_map]. destruct (byte_bits b) as (? & ? & ? & ? & ? & ? & ? & ? & -> & _). discriminate. Qed.

(* ---------------------------------------------------------------- characters *)
Lemma lt32_cases (P : N -> Prop) : (forall k, In k (map N.of_nat (seq 0 32)) -> P k) -> forall v, v < 32 -> P v.
Proof. intros A v L. apply A. apply in_map_iff. exists (N.to_nat v). split; [apply Nnat.N2Nat.id|apply in_seq; lia]. Qed.
Lemma to_char_facts v : v < 32 -> from_char (to_char v) = Some v /\ is_upper (to_char v) = false /\ to_char v <> x31.
Proof. revert v. apply lt32_cases. intros k I. cbn in I.
  repeat (destruct I as [<-|I]; [repeat split; try reflexivity; discriminate|]). contradiction. Qed.
Lemma to_lower_not_upper b : is_upper (to_lower b) = false.
Proof. destruct b; reflexivity. Qed.

Lemma word_chars w : sym_word w -> syms_of (map to_char w) = Some w /\ existsb is_upper (map to_char w) = false /\ ~ In x31 (map to_char w) /\
  forallb (fun c => match from_char c with Some _ => true | None => false end) (map to_char w) = true.
Proof. unfold syms_of. induction w as [|v w IH]; intros S; [repeat split; auto|]. inversion S as [|? ? Hv Hw]; subst.
  destruct (to_char_facts v Hv) as (F1 & F2 & F3). destruct (IH Hw) as (I1 & I2 & I3 & I4). cbn [map all_some existsb forallb].
  rewrite F1, I1, F2, I2, I4. repeat split; auto. intros [X|X]; [now apply F3|now apply I3]. Qed.

(* ---------------------------------------------------------------- decoder completeness *)
Lemma segwit_decode_complete cfg s h d w v rest body :
  match sw_max_string cfg with Some m => (length s <= m)%nat | None => True end ->
  rsplit x31 s = Some (h, d) ->
  forallb (fun c => match from_char c with Some _ => true | None => false end) d = true ->
  existsb is_upper s = false -> hrp_parse h = Ok tt -> syms_of d = Some w -> w = v :: rest -> v <= sw_max_version cfg ->
  validate_checksum cfg (code_for cfg v) (length s) h w = Ok tt ->
  firstn (length w - c_len (code_for cfg v)) w = v :: body -> validate_padding body = Ok tt -> validate_wpl cfg v body = Ok tt ->
  segwit_decode cfg s = Ok (v, fes_to_bytes body).
Proof. intros M R V U P S -> LV VC F VP VW. unfold segwit_decode.
  replace (match sw_max_string cfg with Some m => Nat.ltb m (length s) | None => false end) with false
    by (destruct (sw_max_string cfg) as [m|]; [symmetry; apply Nat.ltb_ge; exact M|reflexivity]).
  unfold unchecked_new, check_characters. rewrite R, V, U. cbn [negb andb]. rewrite P, S.
  replace (sw_max_version cfg <? v) with false by (symmetry; apply N.ltb_ge; exact LV).
  fold (code_for cfg v). rewrite VC, F, VP, VW. reflexivity. Qed.

(* what the encoder appends verifies — for the four codes *)
Lemma checksum_valid c : In c the_codes -> forall pre, sym_word pre -> valid_codeword c (pre ++ checksum_syms c pre) = true.
Proof. intros I pre Hp. unfold valid_codeword, residue, checksum_syms, feed, cstep. apply N.eqb_eq.
  assert (X : (1 <= c_len c)%nat /\ Forall (fun g => g < 2 ^ (5 * N.of_nat (c_len c))) (c_gen c) /\ c_target c < 2 ^ (5 * N.of_nat (c_len c))).
  { cbn in I. destruct I as [<-|[<-|[<-|[<-|[]]]]]; (split; [vm_compute; lia|split; [repeat constructor|reflexivity]]). }
  destruct X as (X1 & X2 & X3). exact (checksum_verifies (c_gen c) (c_len c) X1 X2 (c_target c) pre X3 Hp). Qed.
Lemma checksum_syms_length c pre : length (checksum_syms c pre) = c_len c.
Proof. unfold checksum_syms. apply unpack_all_length. Qed.
Lemma checksum_syms_sym c pre : sym_word (checksum_syms c pre).
Proof. unfold checksum_syms. apply unpack_all_syms. Qed.

Lemma chunk5_sym m : forall bs, (length bs <= 5 * m + 4)%nat -> sym_word (chunk5 bs).
Proof. induction m as [|m IH]; intros bs L.
  - destruct bs as [|a [|b [|c [|d [|e r]]]]]; cbn [length] in L; try lia; cbn [chunk5]; repeat constructor.
    + destruct a; reflexivity. + destruct a, b; reflexivity. + destruct a, b, c; reflexivity. + destruct a, b, c, d; reflexivity.
  - destruct bs as [|a [|b [|c [|d [|e r]]]]]; try (apply (IH _); cbn [length]; lia). cbn [chunk5]. constructor.
    + destruct a, b, c, d, e; reflexivity. + apply IH. cbn [length] in L. lia. Qed.
Lemma bytes_to_fes_sym data : sym_word (bytes_to_fes data).
Proof. unfold bytes_to_fes. apply (chunk5_sym (length (bits_of_bytes data))). lia. Qed.

Lemma existsb_app_false {A} (f : A -> bool) l1 l2 : existsb f l1 = false -> existsb f l2 = false -> existsb f (l1 ++ l2) = false.
Proof. intros A1 A2. now rewrite existsb_app, A1, A2. Qed.

Lemma encode_decode_gen cfg c h v data :
  code_for cfg v = c -> In c the_codes -> lower h = h -> hrp_parse h = Ok tt -> existsb is_upper h = false ->
  v <= sw_max_version cfg -> v < 32 ->
  match sw_max_string cfg with Some m => (length h + 2 + length (bytes_to_fes data) + c_len c <= m)%nat | None => True end ->
  match sw_code_length cfg with Some m => (length h + 2 + length (bytes_to_fes data) + c_len c <= m)%nat | None => True end ->
  validate_wpl cfg v (bytes_to_fes data) = Ok tt ->
  segwit_decode cfg (encode_segwit c h v data) = Ok (v, data).
Proof. intros HC IC LH PH UH LV V32 MS CL VW. unfold encode_segwit. rewrite LH.
  set (body := v :: bytes_to_fes data). set (ck := checksum_syms c (hrp_expand h ++ body)). set (w := body ++ ck).
  assert (Sb : sym_word body) by (constructor; [exact V32|apply bytes_to_fes_sym]).
  assert (Sw : sym_word w) by (apply Forall_app; split; [exact Sb|apply checksum_syms_sym]).
  destruct (word_chars w Sw) as (W1 & W2 & W3 & W4).
  assert (Lck : length ck = c_len c) by apply checksum_syms_length.
  assert (Lw : length w = (1 + length (bytes_to_fes data) + c_len c)%nat) by (unfold w, body; rewrite app_length, Lck; cbn [length]; lia).
  assert (Ls : length (h ++ [x31] ++ map to_char w) = (length h + 2 + length (bytes_to_fes data) + c_len c)%nat)
    by (rewrite !app_length, map_length, Lw; cbn [length]; lia).
  assert (NZ : c_len c <> 0%nat) by (cbn in IC; destruct IC as [<-|[<-|[<-|[<-|[]]]]]; vm_compute; discriminate).
  replace (@Ok (N * bytes) (v, data)) with (@Ok (N * bytes) (v, fes_to_bytes (bytes_to_fes data))) by (now rewrite fes_bytes_roundtrip).
  apply (segwit_decode_complete cfg _ h (map to_char w) w v (bytes_to_fes data ++ ck) (bytes_to_fes data)).
  - rewrite Ls. exact MS.
  - apply rsplit_app. exact W3.
  - exact W4.
  - apply existsb_app_false; [exact UH|]. cbn [app existsb]. rewrite W2. reflexivity.
  - exact PH.
  - exact W1.
  - reflexivity.
  - exact LV.
  - rewrite HC. unfold validate_checksum. rewrite Ls.
    replace (match sw_code_length cfg with Some cl => Nat.ltb cl _ | None => false end) with false
      by (destruct (sw_code_length cfg) as [m|]; [symmetry; apply Nat.ltb_ge; exact CL|reflexivity]).
    destruct (Nat.eqb_spec (c_len c) 0); [contradiction|]. destruct (Nat.ltb_spec (length w) (c_len c)); [lia|].
    unfold w. rewrite app_assoc. unfold ck. rewrite checksum_valid; [reflexivity|exact IC|].
    apply Forall_app; split; [apply hrp_expand_sym|exact Sb].
  - rewrite HC, Lw. replace (1 + length (bytes_to_fes data) + c_len c - c_len c)%nat with (length body) by (unfold body; cbn [length]; lia).
    unfold w. rewrite firstn_app, Nat.sub_diag, firstn_all. cbn [firstn]. now rewrite app_nil_r.
  - apply bytes_to_fes_padding.
  - exact VW. Qed.

(* ---------------------------------------------------------------- addresses *)
Definition wf_addr (pkv : bytes -> bool) (a : address) : Prop :=
  In (a_params a) builtin /\
  match a_blinder a with Some b => length b = 33%nat /\ pkv b = true | None => True end /\
  match a_payload a with
  | PubkeyHash h | ScriptHash h => length h = 20%nat
  | WitnessProgram v prog => v <= 16 /\ (2 <= length prog <= 40)%nat /\ (v = 0 -> length prog = 20%nat \/ length prog = 32%nat) end.

Lemma builtin_hrp_facts p bl : In p builtin -> let h := hrp_of p bl in
  lower h = h /\ hrp_parse h = Ok tt /\ existsb is_upper h = false /\ (length h <= 3)%nat /\ eq_lower h h = true.
Proof. intros I. cbn in I. destruct I as [<-|[<-|[<-|[]]]], bl; vm_compute; repeat split; lia. Qed.

Lemma wpl_ok cfg v data : (sw_len_min cfg <= length data <= sw_len_max cfg)%nat ->
  (v = 0 -> length data = sw_len_v0_a cfg \/ length data = sw_len_v0_b cfg) -> validate_wpl cfg v (bytes_to_fes data) = Ok tt.
Proof. intros B V0. unfold validate_wpl. rewrite bytes_to_fes_length.
  replace ((8 * length data + 4) / 5 * 5 / 8)%nat with (length data) by lia.
  destruct (Nat.ltb_spec (length data) (sw_len_min cfg)); [lia|]. destruct (Nat.ltb_spec (sw_len_max cfg) (length data)); [lia|].
  destruct (N.eqb_spec v 0) as [E|NE]; cbn [andb]; [|reflexivity]. destruct (V0 E) as [X|X]; rewrite X, Nat.eqb_refl; cbn; [reflexivity|].
  destruct (Nat.eqb (sw_len_v0_b cfg) (sw_len_v0_a cfg)); reflexivity. Qed.

Section RT.
Variable H : bytes -> bytes. Variable pkv : bytes -> bool.

Theorem roundtrip_segwit a : wf_addr pkv a -> is_segwit a ->
  parse_with_params H pkv (display H a) (a_params a) = AOk a /\ from_str H pkv (display H a) = AOk a.
Proof. destruct a as [p pay blinder]. intros (Ip & WB & WP) (v & prog & EP). cbn [a_params a_payload a_blinder] in *. subst pay.
  destruct WP as (LV & LP & V0).
  set (bl := match blinder with Some _ => true | None => false end).
  destruct (builtin_hrp_facts p bl Ip) as (F1 & F2 & F3 & F4 & F5).
  set (h := hrp_of p bl) in *.
  set (data := match blinder with Some b => b ++ prog | None => prog end).
  set (c := required_code bl v).
  assert (ED : display H (mkAddr p (WitnessProgram v prog) blinder) = encode_segwit c h v data) by (unfold display, c, h, data, bl, required_code; cbn [a_params a_payload a_blinder]; destruct blinder; reflexivity).
  rewrite ED.
  assert (V32 : v < 32) by lia.
  assert (Ic : In c the_codes) by (unfold c, required_code; destruct bl, (v =? 0); cbn; tauto).
  assert (Lfes : (length (bytes_to_fes data) <= (8 * length data + 4) / 5)%nat) by (rewrite bytes_to_fes_length; lia).
  assert (DEC : segwit_decode (if bl then cfg_blech else cfg_bech) (encode_segwit c h v data) = Ok (v, data)).
  { destruct blinder as [b|]; cbn [bl].
    - destruct WB as [Lb Pb]. assert (Ld : length data = (33 + length prog)%nat) by (unfold data; rewrite app_length; lia).
      apply encode_decode_gen;
        [unfold c, required_code, code_for; cbn [bl]; destruct (v =? 0); reflexivity|exact Ic|exact F1|exact F2|exact F3|exact LV|exact V32|exact I|exact I|].
      apply wpl_ok; [change (sw_len_min cfg_blech) with 2%nat; change (sw_len_max cfg_blech) with 73%nat; lia|].
      change (sw_len_v0_a cfg_blech) with 53%nat; change (sw_len_v0_b cfg_blech) with 65%nat. intros E. destruct (V0 E); lia.
    - assert (Ld : length data = length prog) by reflexivity.
      assert (Lc : c_len c = 6%nat) by (unfold c, required_code; cbn [bl]; destruct (v =? 0); reflexivity).
      apply encode_decode_gen;
        [unfold c, required_code, code_for; cbn [bl]; destruct (v =? 0); reflexivity|exact Ic|exact F1|exact F2|exact F3|exact LV|exact V32
        |cbn [sw_max_string cfg_bech]; rewrite Lc; lia|cbn [sw_code_length cfg_bech]; rewrite Lc; lia|].
      apply wpl_ok; [change (sw_len_min cfg_bech) with 2%nat; change (sw_len_max cfg_bech) with 40%nat; lia|].
      change (sw_len_v0_a cfg_bech) with 20%nat; change (sw_len_v0_b cfg_bech) with 32%nat. intros E. destruct (V0 E); lia. }
  assert (FB : from_bech32 pkv (encode_segwit c h v data) bl p = AOk (mkAddr p (WitnessProgram v prog) blinder)).
  { assert (PLB : prog_len_bad prog = false) by (apply prog_len_ok; exact LP).
    unfold from_bech32. destruct blinder as [b|]; cbn [bl] in *; rewrite DEC; [|unfold data; rewrite PLB; reflexivity].
    destruct WB as [Lb Pb]. unfold data. rewrite app_length. destruct (Nat.ltb_spec (length b + length prog) 33); [lia|].
    rewrite <- Lb. rewrite firstn_app, Nat.sub_diag, firstn_all, firstn_O, app_nil_r, Pb.
    rewrite skipn_app, Nat.sub_diag, skipn_all. change ([] ++ skipn 0 prog) with prog. rewrite PLB. reflexivity. }
  assert (FP : find_prefix (encode_segwit c h v data) = h).
  { unfold find_prefix, encode_segwit. rewrite F1. set (w := (v :: bytes_to_fes data) ++ _).
    assert (Sw : sym_word w) by (apply Forall_app; split; [constructor; [exact V32|apply bytes_to_fes_sym]|apply checksum_syms_sym]).
    destruct (word_chars w Sw) as (_ & _ & W3 & _). cbn [app]. now rewrite (rsplit_app _ _ _ W3). }
  assert (M : match_prefix h (hrp_of p bl) = true) by exact F5.
  assert (UNIQ : forall p' bl', In p' builtin -> match_prefix h (hrp_of p' bl') = true -> p' = p /\ bl' = bl).
  { intros p' bl' I' M'. unfold match_prefix in M, M'. apply (builtin_hrps_distinct p' p bl' bl I' Ip). exact (eq_lower_trans_r _ _ _ M' M). }
  split.
  - unfold parse_with_params. rewrite FP. destruct bl eqn:EB.
    + change (match_prefix h (p_blech p)) with (match_prefix h (hrp_of p true)). rewrite M, orb_true_r. exact FB.
    + change (match_prefix h (p_bech p)) with (match_prefix h (hrp_of p false)). rewrite M. cbn [orb].
      destruct (match_prefix h (p_blech p)) eqn:ML; [|exact FB]. destruct (UNIQ p true Ip ML) as [_ X]. discriminate.
  - unfold from_str. rewrite FP. rewrite (from_str_bech_first pkv _ h p bl builtin UNIQ Ip M). exact FB. Qed.
End RT.
