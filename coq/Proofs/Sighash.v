(* C03 — proofs: the implementation model's pre-images equal the specification's messages (refinement), irrelevance of
   uncommitted fields, and (partial) sensitivity to committed ones. *)
From Coq Require Import List Arith NArith Bool Lia.
From Coq.Strings Require Import Byte.
From EV Require Import Base.Bytes Base.Codec Gen.Tables Model.Tx Model.SighashImpl Model.SighashCache Model.SighashSpec Model.SighashQuery
  Proofs.Tx Proofs.SighashCache.
Import ListNotations.
Open Scope N_scope.
Set Default Timeout 120.

(* evaluate closed boolean tests on sighash types (tables of Gen/Tables.v, hash-type arithmetic of the specification) *)
Ltac eval_closed :=
  repeat match goal with
  | |- context [schnorr_eqb ?a ?b] => let v := eval vm_compute in (schnorr_eqb a b) in change (schnorr_eqb a b) with v
  | |- context [ecdsa_eqb ?a ?b] => let v := eval vm_compute in (ecdsa_eqb a b) in change (ecdsa_eqb a b) with v
  | |- context [hash_single ?a] => let v := eval vm_compute in (hash_single a) in change (hash_single a) with v
  | |- context [hash_none ?a] => let v := eval vm_compute in (hash_none a) in change (hash_none a) with v
  | |- context [anyone_can_pay ?a] => let v := eval vm_compute in (anyone_can_pay a) in change (anyone_can_pay a) with v
  | |- context [tap_type_valid ?a] => let v := eval vm_compute in (tap_type_valid a) in change (tap_type_valid a) with v
  | |- context [tap_input_acp ?a] => let v := eval vm_compute in (tap_input_acp a) in change (tap_input_acp a) with v
  | |- context [tap_output_type ?a =? ?b] => let v := eval vm_compute in (tap_output_type a =? b) in change (tap_output_type a =? b) with v
  end.

Lemma Some_inj {A} (a b : A) : Some a = Some b -> a = b. Proof. congruence. Qed.

Section ENC.
Variable pt_ok : bytes -> bool.
Variable maxvec : N.

Lemma e_script_ser b : e_script maxvec b = ser_bytes b. Proof. reflexivity. Qed.
Lemma e_issuance_ser i : e_issuance pt_ok i = ser_issuance pt_ok i. Proof. reflexivity. Qed.
Lemma e_outpoint_ser o : e_outpoint o = ser_outpoint o. Proof. reflexivity. Qed.
Lemma e_txout_ser o : e_txout pt_ok maxvec o = ser_txout pt_ok o. Proof. reflexivity. Qed.
Lemma e_rangeproof_ser p : e_rangeproof maxvec p = ser_proof p. Proof. destruct p; reflexivity. Qed.
Lemma e_surjproof_ser p : e_surjproof maxvec p = ser_proof p. Proof. destruct p; reflexivity. Qed.
Lemma e_outwit_ser o : e_outwit maxvec (out_wit o) = output_witness o.
Proof. unfold output_witness. rewrite <- e_surjproof_ser, <- e_rangeproof_ser. reflexivity. Qed.
Lemma has_issuance_null i : has_issuance i = negb (issuance_null i). Proof. reflexivity. Qed.
Lemma outpoint_flag_eq i : outpoint_flag i = outpoint_flag_byte i.
Proof. unfold outpoint_flag, outpoint_flag_byte. rewrite has_issuance_null. destruct (in_pegin i), (issuance_null i); reflexivity. Qed.
Lemma iss_or_zero i : (if has_issuance i then e_issuance pt_ok (in_iss i) else [x00]) = issuance_or_zero pt_ok i.
Proof. unfold issuance_or_zero. rewrite has_issuance_null. destruct (issuance_null i); reflexivity. Qed.

(* the literal TxIn encoder agrees with the C01 codec on canonical inputs *)
Lemma e_txin_canonical i : wire_has_issuance (wire_vout i) = has_issuance i -> e_txin pt_ok maxvec i = enc (c_txin pt_ok maxvec) i.
Proof. intros E. unfold e_txin, c_txin, c_txin_nowit, c_conv, c_txin_wire, c_dep; cbn [enc wire_of_txin fst snd]. rewrite E.
  destruct (has_issuance i); cbn [enc c_txin_head c_pair c_conv c_unit]; rewrite <- ?app_assoc; reflexivity. Qed.
End ENC.

(* =========================================== legacy =========================================== *)
Section LEGACY.
Variable pt_ok : bytes -> bool.
Variable maxvec : N.
Notation e_txin := (e_txin pt_ok maxvec).
Notation e_txout := (e_txout pt_ok maxvec).

Lemma flat_map_enumerate {A B} (e : B -> bytes) (f : nat * A -> B) (g : nat -> A -> bytes) :
  (forall n a, e (f (n, a)) = g n a) -> forall l n, flat_map e (map f (enumerate_from n l)) = concat (mapi_from n g l).
Proof. intros E. induction l as [|a l IH]; intros n; cbn; [reflexivity|]. now rewrite E, IH. Qed.
Lemma enumerate_length {A} (l : list A) : forall n, length (enumerate_from n l) = length l.
Proof. induction l; intros; cbn; auto. Qed.

Lemma legacy_input_eq ht idx sc zs n i : (hash_single ht || hash_none ht) = zs ->
  e_txin {| in_prev := in_prev i; in_pegin := in_pegin i; in_script := (if Nat.eqb n idx then sc else []);
            in_seq := (if negb (Nat.eqb n idx) && zs then 0 else in_seq i); in_iss := in_iss i; in_wit := empty_inwit |}
  = legacy_input pt_ok true ht idx sc n i.
Proof. intros <-. unfold SighashImpl.e_txin, legacy_input, legacy_prevout, index_with_flags, wire_vout, has_issuance, issuance_null.
  cbn [in_prev in_pegin in_script in_seq in_iss]. rewrite <- !app_assoc. repeat f_equal.
  - destruct (Nat.eqb n idx); reflexivity.
  - destruct (issuance_is_null (in_iss i)); reflexivity. Qed.
Lemma legacy_input_acp ht idx sc i :
  e_txin {| in_prev := in_prev i; in_pegin := in_pegin i; in_script := sc; in_seq := in_seq i; in_iss := in_iss i; in_wit := empty_inwit |}
  = legacy_input pt_ok true ht idx sc idx i.
Proof. unfold SighashImpl.e_txin, legacy_input, legacy_prevout, index_with_flags, wire_vout, has_issuance, issuance_null.
  cbn [in_prev in_pegin in_script in_seq in_iss]. rewrite Nat.eqb_refl. cbn [negb andb]. rewrite <- !app_assoc. repeat f_equal.
  destruct (issuance_is_null (in_iss i)); reflexivity. Qed.
Lemma legacy_output_eq ht idx n o : hash_single ht = true ->
  e_txout (if Nat.eqb n idx then o else default_txout) = legacy_output pt_ok ht idx n o.
Proof. intros E. unfold legacy_output. rewrite E. cbn [andb]. destruct (Nat.eqb n idx); reflexivity. Qed.

Theorem legacy_refines t idx sc ty m :
  spec_legacy_msg pt_ok true t idx sc (ecdsa_u32 ty) = Some m -> legacy_encode_tx pt_ok maxvec t idx sc ty = SOk m.
Proof. unfold spec_legacy_msg, legacy_single_bug, legacy_encode_tx. intros S.
  destruct (nth_error (tx_in t) idx) as [me|] eqn:Nth; [|discriminate].
  assert (Lt : (idx < length (tx_in t))%nat) by (apply nth_error_Some; congruence).
  apply Nat.ltb_lt in Lt. rewrite Lt. cbn [negb]. rewrite ecdsa_split_eq.
  destruct ty; cbv beta iota; revert S; eval_closed; cbn [andb orb negb]; intros S.
  all: try (destruct (Nat.leb (length (tx_out t)) idx) eqn:Le; [discriminate S|]).
  all: apply Some_inj in S; subst m; unfold e_txins, e_txouts; rewrite ?map_length, ?enumerate_length;
    rewrite <- ?app_assoc; unfold ser_u32, e_u32, compact_size; repeat f_equal.
  all: try (apply flat_map_enumerate; intros; apply legacy_input_eq; reflexivity).
  all: try (unfold flat_map; rewrite app_nil_r; apply legacy_input_acp).
  all: try (rewrite flat_map_concat_map; reflexivity).
  all: try (apply flat_map_enumerate; intros; apply legacy_output_eq; reflexivity).
  all: rewrite firstn_length; apply Nat.leb_gt in Le; lia.
Qed.
End LEGACY.

(* =========================================== evaluation on a fresh cache =========================================== *)
Section EVAL.
Variable pt_ok : bytes -> bool.
Variable maxvec : N.
Variable H : bytes -> bytes.
Variable t : tx.
Variable spent : list txout.
Notation Ev := (Ev pt_ok maxvec H t spent).
Notation compute_common := (compute_common pt_ok maxvec H).
Notation compute_taproot := (compute_taproot pt_ok maxvec H).
Notation common_cache_get := (common_cache_get pt_ok maxvec H).
Notation segwit_cache_get := (segwit_cache_get pt_ok maxvec H).
Notation taproot_cache_get := (taproot_cache_get pt_ok maxvec H).

Lemma Ev_bind_tx' {B} (k : tx -> M B) r : Ev (k t) r -> Ev (bind get_tx k) r.
Proof. intros. eapply Ev_bind_ok; [apply Ev_get_tx|assumption]. Qed.
Lemma Ev_bind_common' {B} (k : common_cache -> M B) r : Ev (k (compute_common t)) r -> Ev (bind common_cache_get k) r.
Proof. intros. eapply Ev_bind_ok; [apply Ev_common|assumption]. Qed.
Lemma Ev_bind_segwit' {B} (k : segwit_cache -> M B) r : Ev (k (compute_segwit H (compute_common t))) r -> Ev (bind segwit_cache_get k) r.
Proof. intros. eapply Ev_bind_ok; [apply Ev_segwit|assumption]. Qed.
Lemma Ev_bind_taproot' {B} (k : taproot_cache -> M B) r : Ev (k (compute_taproot t spent)) r -> Ev (bind (taproot_cache_get spent) k) r.
Proof. intros. eapply Ev_bind_ok; [apply Ev_taproot|assumption]. Qed.
Lemma Ev_bind_lift_ok {A B} (a : A) (k : A -> M B) r : Ev (k a) r -> Ev (bind (lift (SOk a)) k) r.
Proof. intros. eapply Ev_bind_ok; [apply Ev_lift|assumption]. Qed.
Lemma Ev_bind_lift_err {A B} e (k : A -> M B) : Ev (bind (lift (SErr e)) k) (SErr e).
Proof. apply Ev_bind_err, Ev_lift. Qed.
Lemma Ev_bind_lift_panic {A B} (k : A -> M B) : Ev (bind (lift SPanic) k) SPanic.
Proof. apply Ev_bind_panic, Ev_lift. Qed.
Lemma Ev_bind_ret {A B} (a : A) (k : A -> M B) r : Ev (k a) r -> Ev (bind (ret a) k) r.
Proof. intros. eapply Ev_bind_ok; [apply Ev_ret|assumption]. Qed.
Lemma Ev_ret_eq {A} (a b : A) : a = b -> Ev (ret a) (SOk b).
Proof. intros ->. apply Ev_ret. Qed.
Lemma Ev_assoc {A B C} (m : M A) (f : A -> M B) (g : B -> M C) r : Ev (bind m (fun x => bind (f x) g)) r -> Ev (bind (bind m f) g) r.
Proof. intros E s G. destruct (E s G) as (s' & X & G'). exists s'. split; [|exact G']. rewrite <- X. unfold bind.
  destruct (m s) as [s1 [a|e|]]; reflexivity. Qed.
Lemma Ev_init {A} (m : M A) r : Ev m r -> snd (m (init t)) = r.
Proof. intros E. apply (Ev_snd pt_ok maxvec H t spent m r (init t) E), Good_init. Qed.
End EVAL.

Ltac ev := repeat first
  [ apply Ev_bind_tx' | apply Ev_bind_common' | apply Ev_bind_segwit' | apply Ev_bind_taproot'
  | apply Ev_bind_lift_ok | apply Ev_bind_ret | apply Ev_assoc ].

(* =========================================== segwit v0 =========================================== *)
Section SEGWIT.
Variable pt_ok : bytes -> bool.
Variable maxvec : N.
Variable H : bytes -> bytes.

Lemma sc_prevouts_eq t : sc_prevouts (compute_segwit H (compute_common pt_ok maxvec H t)) = hash_prevouts H t.
Proof. unfold hash_prevouts, sha256d. cbn. now rewrite flat_map_concat_map. Qed.
Lemma sc_sequences_eq t : sc_sequences (compute_segwit H (compute_common pt_ok maxvec H t)) = hash_sequence H t.
Proof. unfold hash_sequence, sha256d. cbn. now rewrite flat_map_concat_map. Qed.
Lemma sc_outputs_eq t : sc_outputs (compute_segwit H (compute_common pt_ok maxvec H t)) = hash_outputs pt_ok H t.
Proof. unfold hash_outputs, sha256d. cbn. now rewrite flat_map_concat_map. Qed.
Lemma sc_issuances_eq t : sc_issuances (compute_segwit H (compute_common pt_ok maxvec H t)) = hash_issuance pt_ok H t.
Proof. unfold hash_issuance, sha256d. cbn. rewrite flat_map_concat_map. do 3 f_equal. apply map_ext. intros. apply iss_or_zero. Qed.

Theorem segwit_refines_ev t spent idx sc v ty m :
  spec_segwit_msg pt_ok H t idx sc v (ecdsa_u32 ty) = Some m ->
  Ev pt_ok maxvec H t spent (segwit_encode pt_ok maxvec H idx sc v ty) (SOk m).
Proof. unfold spec_segwit_msg, segwit_encode. intros S.
  destruct (nth_error (tx_in t) idx) as [me|] eqn:Nth; [|discriminate]. apply Some_inj in S. subst m.
  apply Ev_bind_tx'. rewrite Nth, ecdsa_split_eq.
  destruct ty; cbv beta iota; eval_closed; cbn [andb orb negb]; ev.
  all: rewrite ?sc_prevouts_eq, ?sc_sequences_eq, ?sc_outputs_eq, ?sc_issuances_eq.
  all: try (destruct (Nat.ltb idx (length (tx_out t))) eqn:Lt;
    [ apply Nat.ltb_lt in Lt; destruct (nth_error (tx_out t) idx) as [o|] eqn:No; [|apply nth_error_None in No; lia]; ev
    | apply Nat.ltb_ge in Lt; apply nth_error_None in Lt; rewrite Lt; ev ]).
  all: apply Ev_ret_eq; rewrite has_issuance_null; destruct (issuance_null me); cbn [negb]; rewrite <- ?app_assoc; reflexivity.
Qed.
Theorem segwit_panics t spent idx sc v ty : nth_error (tx_in t) idx = None ->
  Ev pt_ok maxvec H t spent (segwit_encode pt_ok maxvec H idx sc v ty) SPanic.
Proof. unfold segwit_encode. intros Nth. apply Ev_bind_tx'. rewrite Nth, ecdsa_split_eq.
  destruct ty; cbv beta iota; eval_closed; cbn [andb orb negb]; ev; apply Ev_bind_lift_panic. Qed.
End SEGWIT.

(* =========================================== taproot =========================================== *)
Section TAPROOT.
Variable pt_ok : bytes -> bool.
Variable maxvec : N.
Variable H : bytes -> bytes.
Notation CC := (compute_common pt_ok maxvec H).
Notation TC := (compute_taproot pt_ok maxvec H).

Lemma tc_outpoint_flags_eq t sp : tc_outpoint_flags (TC t sp) = sha_outpoint_flags H t.
Proof. unfold sha_outpoint_flags. cbn. f_equal. apply map_ext. intros. now rewrite outpoint_flag_eq. Qed.
Lemma cc_prevouts_eq t : cc_prevouts (CC t) = sha_prevouts H t.
Proof. unfold sha_prevouts. cbn. now rewrite flat_map_concat_map. Qed.
Lemma tc_asset_amounts_eq t sp : tc_asset_amounts (TC t sp) = sha_asset_amounts pt_ok H sp.
Proof. unfold sha_asset_amounts. cbn. now rewrite flat_map_concat_map. Qed.
Lemma tc_script_pubkeys_eq t sp : tc_script_pubkeys (TC t sp) = sha_scriptpubkeys H sp.
Proof. unfold sha_scriptpubkeys. cbn. now rewrite flat_map_concat_map. Qed.
Lemma cc_sequences_eq t : cc_sequences (CC t) = sha_sequences H t.
Proof. unfold sha_sequences. cbn. now rewrite flat_map_concat_map. Qed.
Lemma cc_issuances_eq t : cc_issuances (CC t) = sha_issuances pt_ok H t.
Proof. unfold sha_issuances. cbn. rewrite flat_map_concat_map. do 2 f_equal. apply map_ext. intros. apply iss_or_zero. Qed.
Lemma tc_issuance_rangeproofs_eq t sp : tc_issuance_rangeproofs (TC t sp) = sha_issuance_rangeproofs H t.
Proof. unfold sha_issuance_rangeproofs. cbn. now rewrite flat_map_concat_map. Qed.
Lemma cc_outputs_eq t : cc_outputs (CC t) = sha_outputs pt_ok H t.
Proof. unfold sha_outputs. cbn. now rewrite flat_map_concat_map. Qed.
Lemma cc_output_witnesses_eq t : cc_output_witnesses (CC t) = sha_output_witnesses H t.
Proof. unfold sha_output_witnesses. cbn. now rewrite flat_map_concat_map. Qed.

Lemma annex_opt_valid a : annex_valid a = true -> annex_opt a = SOk a.
Proof. destruct a as [[|b r]|]; cbn; try discriminate; [|reflexivity]. intros E. change ANNEX_PREFIX with 80. now rewrite E. Qed.
Lemma nat_u32_small n : N.of_nat n < 4294967296 -> nat_u32 n = N.of_nat n.
Proof. intros. unfold nat_u32. now apply N.mod_small. Qed.

Theorem taproot_refines_ev t spent idx annex leaf ty g m :
  spec_taproot_msg pt_ok H t spent idx annex leaf (schnorr_u8 ty) g = Some m -> N.of_nat idx < 4294967296 ->
  Ev pt_ok maxvec H t spent (taproot_encode pt_ok maxvec H idx (PAll spent) annex leaf ty g) (SOk m).
Proof. unfold spec_taproot_msg, taproot_encode. intros S Hidx.
  destruct (tap_type_valid (schnorr_u8 ty)) eqn:V; [|discriminate]. cbn [negb] in S.
  destruct (Nat.eqb (length spent) (length (tx_in t))) eqn:L; [|discriminate]. cbn [negb] in S.
  destruct (annex_valid annex) eqn:A; [|discriminate]. cbn [negb] in S.
  destruct (nth_error (tx_in t) idx) as [me|] eqn:Nth; [|discriminate].
  destruct (nth_error spent idx) as [prev|] eqn:Np; [|discriminate].
  apply Ev_bind_tx'. cbn [check_all]. rewrite L. apply Ev_bind_lift_ok. rewrite schnorr_split_eq.
  destruct ty; try discriminate V; cbv beta iota; revert S; eval_closed; cbn [andb orb negb get_all pv_get opt_ok]; intros S;
    rewrite ?Nth, ?Np; cbn [opt_ok]; ev.
  all: try (destruct (nth_error (tx_out t) idx) as [o|] eqn:No; [|discriminate S]; cbn [option_map opt_ok] in S |- *; ev).
  all: apply Some_inj in S; subst m.
  all: rewrite ?tc_outpoint_flags_eq, ?cc_prevouts_eq, ?tc_asset_amounts_eq, ?tc_script_pubkeys_eq, ?cc_sequences_eq, ?cc_issuances_eq,
         ?tc_issuance_rangeproofs_eq, ?cc_outputs_eq, ?cc_output_witnesses_eq, ?nat_u32_small by assumption.
  all: rewrite ?has_issuance_null; try destruct (issuance_null me); cbn [negb]; ev.
  all: apply Ev_ret_eq; rewrite ?outpoint_flag_eq; destruct leaf as [[h pos]|], annex as [a|]; rewrite <- ?app_assoc, ?app_nil_l, ?app_nil_r; reflexivity.
Qed.
End TAPROOT.

(* =========================================== irrelevance of uncommitted fields =========================================== *)
Section IRRELEVANT.
Variable pt_ok : bytes -> bool.
Variable H : bytes -> bytes.
Variable flags : bool.

Lemma F2_map {A B} (R : A -> A -> Prop) (f : A -> B) : (forall a b, R a b -> f a = f b) -> forall l l', Forall2 R l l' -> map f l = map f l'.
Proof. intros E l l' F. induction F; cbn; [reflexivity|]. now rewrite (E _ _ H0), IHF. Qed.
Lemma F2_mapi {A B} (R : A -> A -> Prop) (f : nat -> A -> B) : (forall n a b, R a b -> f n a = f n b) ->
  forall l l', Forall2 R l l' -> forall n, mapi_from n f l = mapi_from n f l'.
Proof. intros E l l' F. induction F; intros n; cbn; [reflexivity|]. now rewrite (E _ _ _ H0), IHF. Qed.
Lemma F2_firstn {A} (R : A -> A -> Prop) l l' : Forall2 R l l' -> forall n, Forall2 R (firstn n l) (firstn n l').
Proof. intros F. induction F; intros [|n]; cbn; constructor; auto. Qed.
Lemma F2_nth {A} (R : A -> A -> Prop) l l' : Forall2 R l l' -> forall n,
  match nth_error l n, nth_error l' n with Some a, Some b => R a b | None, None => True | _, _ => False end.
Proof. intros F. induction F; intros [|n]; cbn; auto. apply IHF. Qed.
Lemma Forall2_length {A} (R : A -> A -> Prop) l l' : Forall2 R l l' -> length l = length l'.
Proof. induction 1; cbn; auto. Qed.
Lemma F2_refl {A} (R : A -> A -> Prop) : (forall a, R a a) -> forall l, Forall2 R l l.
Proof. intros E. induction l; constructor; auto. Qed.

Lemma in_sig_core a b : in_sig_eq a b -> in_core_eq a b.
Proof. unfold in_sig_eq, in_core_eq. tauto. Qed.
Lemma tx_sig_core t t' : tx_sig_eq t t' -> tx_core_eq t t'.
Proof. intros (V & L & I & O). repeat split; auto.
  - clear -I. induction I; constructor; auto using in_sig_core.
  - rewrite O. apply F2_refl. unfold out_core_eq. auto. Qed.

Lemma legacy_input_core ht idx sc n a b : in_core_eq a b -> legacy_input pt_ok flags ht idx sc n a = legacy_input pt_ok flags ht idx sc n b.
Proof. destruct a, b. unfold in_core_eq. cbn. intros (-> & -> & -> & ->). reflexivity. Qed.
Lemma ser_txout_core a b : out_core_eq a b -> ser_txout pt_ok a = ser_txout pt_ok b.
Proof. destruct a, b. unfold out_core_eq. cbn. intros (-> & -> & -> & ->). reflexivity. Qed.
Lemma legacy_output_core ht idx n a b : out_core_eq a b -> legacy_output pt_ok ht idx n a = legacy_output pt_ok ht idx n b.
Proof. intros E. unfold legacy_output. now rewrite (ser_txout_core _ _ E). Qed.

(* script_sig and every witness field (script witness, pegin witness, issuance range proofs, output witnesses) are outside the
   legacy and segwit v0 messages *)
Theorem legacy_core t t' idx sc ht : tx_core_eq t t' -> spec_legacy_msg pt_ok flags t idx sc ht = spec_legacy_msg pt_ok flags t' idx sc ht.
Proof. intros (V & L & I & O). unfold spec_legacy_msg, legacy_single_bug, mapi.
  pose proof (F2_nth _ _ _ I idx) as Nth. rewrite <- (Forall2_length _ _ _ I), <- (Forall2_length _ _ _ O), V, L.
  destruct (nth_error (tx_in t) idx) as [a|], (nth_error (tx_in t') idx) as [b|]; try contradiction; [|reflexivity].
  rewrite (legacy_input_core ht idx sc idx _ _ Nth).
  rewrite (F2_mapi _ _ (legacy_input_core ht idx sc) _ _ I).
  rewrite (F2_map _ _ ser_txout_core _ _ O).
  rewrite (F2_mapi _ _ (legacy_output_core ht idx) _ _ (F2_firstn _ _ _ O (idx + 1))). reflexivity. Qed.

Lemma core_prev a b : in_core_eq a b -> in_prev a = in_prev b. Proof. unfold in_core_eq. tauto. Qed.
Lemma core_seq a b : in_core_eq a b -> in_seq a = in_seq b. Proof. unfold in_core_eq. tauto. Qed.
Lemma core_iss a b : in_core_eq a b -> in_iss a = in_iss b. Proof. unfold in_core_eq. tauto. Qed.
Lemma core_iss_or_zero a b : in_core_eq a b -> issuance_or_zero pt_ok a = issuance_or_zero pt_ok b.
Proof. intros E. unfold issuance_or_zero, issuance_null. now rewrite (core_iss _ _ E). Qed.

Theorem segwit_core t t' idx sc v ht : tx_core_eq t t' -> spec_segwit_msg pt_ok H t idx sc v ht = spec_segwit_msg pt_ok H t' idx sc v ht.
Proof. intros (V & L & I & O). unfold spec_segwit_msg, hash_prevouts, hash_sequence, hash_issuance, hash_outputs.
  pose proof (F2_nth _ _ _ I idx) as Nth. pose proof (F2_nth _ _ _ O idx) as No. rewrite V, L.
  rewrite (F2_map _ (fun i => ser_outpoint (in_prev i)) (fun a b E => f_equal ser_outpoint (core_prev a b E)) _ _ I).
  rewrite (F2_map _ (fun i => ser_u32 (in_seq i)) (fun a b E => f_equal ser_u32 (core_seq a b E)) _ _ I).
  rewrite (F2_map _ _ core_iss_or_zero _ _ I).
  rewrite (F2_map _ _ ser_txout_core _ _ O).
  destruct (nth_error (tx_in t) idx) as [a|], (nth_error (tx_in t') idx) as [b|]; try contradiction; [|reflexivity].
  unfold issuance_null. rewrite (core_prev _ _ Nth), (core_seq _ _ Nth), (core_iss _ _ Nth).
  destruct (nth_error (tx_out t) idx) as [oa|], (nth_error (tx_out t') idx) as [ob|]; try contradiction; [|reflexivity].
  now rewrite (ser_txout_core _ _ No). Qed.

(* taproot: script_sig, script witness and pegin witness are outside the message (the issuance range proofs and the output
   witnesses are inside) *)
Lemma sig_flag a b : in_sig_eq a b -> outpoint_flag_byte a = outpoint_flag_byte b.
Proof. unfold in_sig_eq, outpoint_flag_byte, issuance_null. intros (_ & -> & _ & -> & _). reflexivity. Qed.
Lemma sig_proofs a b : in_sig_eq a b -> issuance_proofs a = issuance_proofs b.
Proof. unfold in_sig_eq, issuance_proofs. intros (_ & _ & _ & _ & -> & ->). reflexivity. Qed.
Theorem taproot_sig t t' spent idx annex leaf ht g : tx_sig_eq t t' ->
  spec_taproot_msg pt_ok H t spent idx annex leaf ht g = spec_taproot_msg pt_ok H t' spent idx annex leaf ht g.
Proof. intros (V & L & I & O). unfold spec_taproot_msg, sha_outpoint_flags, sha_prevouts, sha_sequences, sha_issuances, sha_issuance_rangeproofs,
    sha_outputs, sha_output_witnesses.
  pose proof (F2_nth _ _ _ I idx) as Nth. rewrite <- (Forall2_length _ _ _ I), V, L, O.
  pose proof (fun a b (E : in_sig_eq a b) => in_sig_core a b E) as C.
  rewrite (F2_map _ (fun i => n2b (outpoint_flag_byte i)) (fun a b E => f_equal n2b (sig_flag a b E)) _ _ I).
  rewrite (F2_map _ (fun i => ser_outpoint (in_prev i)) (fun a b E => f_equal ser_outpoint (core_prev a b (C a b E))) _ _ I).
  rewrite (F2_map _ (fun i => ser_u32 (in_seq i)) (fun a b E => f_equal ser_u32 (core_seq a b (C a b E))) _ _ I).
  rewrite (F2_map _ _ (fun a b E => core_iss_or_zero a b (C a b E)) _ _ I).
  rewrite (F2_map _ _ sig_proofs _ _ I).
  destruct (nth_error (tx_in t) idx) as [a|], (nth_error (tx_in t') idx) as [b|]; try contradiction; [|reflexivity].
  unfold issuance_null. rewrite (sig_flag _ _ Nth), (sig_proofs _ _ Nth), (core_prev _ _ (C _ _ Nth)), (core_seq _ _ (C _ _ Nth)), (core_iss _ _ (C _ _ Nth)).
  reflexivity. Qed.
End IRRELEVANT.

Section IRRELEVANT2.
Variable pt_ok : bytes -> bool.
Variable H : bytes -> bytes.
Variable flags : bool.

Lemma none_not_single ht : hash_none ht = true -> hash_single ht = false.
Proof. unfold hash_none, hash_single. intros E. apply N.eqb_eq in E. rewrite E. reflexivity. Qed.

(* ---- SIGHASH_NONE: the outputs are outside the message ---- *)
Theorem legacy_none t t' idx sc ht : hash_none ht = true -> tx_eq_but_outputs t t' ->
  spec_legacy_msg pt_ok flags t idx sc ht = spec_legacy_msg pt_ok flags t' idx sc ht.
Proof. intros N (V & L & I). unfold spec_legacy_msg, legacy_single_bug. rewrite (none_not_single _ N), N, V, L, I. reflexivity. Qed.
Theorem segwit_none t t' idx sc v ht : hash_none ht = true -> tx_eq_but_outputs t t' ->
  spec_segwit_msg pt_ok H t idx sc v ht = spec_segwit_msg pt_ok H t' idx sc v ht.
Proof. intros N (V & L & I). unfold spec_segwit_msg, hash_prevouts, hash_sequence, hash_issuance. rewrite (none_not_single _ N), N, V, L, I. reflexivity. Qed.
Theorem taproot_none t t' spent idx annex leaf ht g : tap_output_type ht = SIGHASH_NONE -> tx_eq_but_outputs t t' ->
  spec_taproot_msg pt_ok H t spent idx annex leaf ht g = spec_taproot_msg pt_ok H t' spent idx annex leaf ht g.
Proof. intros N (V & L & I). unfold spec_taproot_msg, sha_outpoint_flags, sha_prevouts, sha_sequences, sha_issuances, sha_issuance_rangeproofs.
  rewrite N, V, L, I. reflexivity. Qed.

(* ---- ANYONECANPAY: the other inputs, their number and their spent outputs are outside the message ---- *)
Theorem legacy_acp t t' idx sc ht : anyone_can_pay ht = true -> tx_eq_at_input idx t t' ->
  spec_legacy_msg pt_ok flags t idx sc ht = spec_legacy_msg pt_ok flags t' idx sc ht.
Proof. intros A (V & L & O & I). unfold spec_legacy_msg, legacy_single_bug. rewrite A, V, L, O, I. reflexivity. Qed.
Theorem segwit_acp t t' idx sc v ht : anyone_can_pay ht = true -> tx_eq_at_input idx t t' ->
  spec_segwit_msg pt_ok H t idx sc v ht = spec_segwit_msg pt_ok H t' idx sc v ht.
Proof. intros A (V & L & O & I). unfold spec_segwit_msg, hash_outputs. rewrite A, V, L, O, I. reflexivity. Qed.
Theorem taproot_acp t t' spent spent' idx annex leaf ht g : tap_input_acp ht = true -> tx_eq_at_input idx t t' ->
  length spent = length (tx_in t) -> length spent' = length (tx_in t') -> nth_error spent idx = nth_error spent' idx ->
  spec_taproot_msg pt_ok H t spent idx annex leaf ht g = spec_taproot_msg pt_ok H t' spent' idx annex leaf ht g.
Proof. intros A (V & L & O & I) L1 L2 S. unfold spec_taproot_msg, sha_outputs, sha_output_witnesses.
  rewrite A, V, L, O, I, S, L1, L2, !Nat.eqb_refl. reflexivity. Qed.

(* ---- SIGHASH_SINGLE: the other outputs (and how many follow) are outside the message ---- *)
Lemma single_outputs ht : hash_single ht = true -> forall idx outs n o, nth_error outs idx = Some o ->
  concat (mapi_from n (legacy_output pt_ok ht (n + idx)) (firstn (idx + 1) outs)) = concat (repeat (ser_txout pt_ok null_txout) idx) ++ ser_txout pt_ok o.
Proof. intros S. induction idx as [|k IH]; intros [|x r] n o E; try discriminate; cbn [nth_error] in E.
  - inversion E; subst. cbn. unfold legacy_output. rewrite Nat.add_0_r, Nat.eqb_refl, S. cbn. now rewrite app_nil_r.
  - cbn [Nat.add firstn mapi_from concat repeat]. unfold legacy_output at 1. rewrite S.
    replace (Nat.eqb n (n + Datatypes.S k)) with false by (symmetry; apply Nat.eqb_neq; lia). cbn [andb negb].
    replace (n + Datatypes.S k)%nat with (Datatypes.S n + k)%nat by lia. rewrite (IH r (Datatypes.S n) o E). now rewrite <- app_assoc. Qed.
Theorem legacy_single t t' idx sc ht : hash_single ht = true -> tx_eq_at_output idx t t' ->
  spec_legacy_msg pt_ok flags t idx sc ht = spec_legacy_msg pt_ok flags t' idx sc ht.
Proof. intros S (V & L & I & O). unfold spec_legacy_msg, legacy_single_bug, mapi. rewrite S, V, L, I. cbn [andb].
  destruct (nth_error (tx_in t') idx); [|reflexivity].
  destruct (nth_error (tx_out t) idx) as [o|] eqn:E1; symmetry in O.
  - assert (L1 : Nat.leb (length (tx_out t)) idx = false) by (apply Nat.leb_gt, nth_error_Some; congruence).
    assert (L2 : Nat.leb (length (tx_out t')) idx = false) by (apply Nat.leb_gt, nth_error_Some; congruence).
    rewrite L1, L2. pose proof (single_outputs ht S idx (tx_out t) 0 o E1) as X1. pose proof (single_outputs ht S idx (tx_out t') 0 o O) as X2.
    cbn [Nat.add] in X1, X2. rewrite X1, X2. destruct (hash_none ht); reflexivity.
  - apply nth_error_None in E1. apply nth_error_None in O. apply Nat.leb_le in E1. apply Nat.leb_le in O. now rewrite E1, O. Qed.
Theorem segwit_single t t' idx sc v ht : hash_single ht = true -> tx_eq_at_output idx t t' ->
  spec_segwit_msg pt_ok H t idx sc v ht = spec_segwit_msg pt_ok H t' idx sc v ht.
Proof. intros S (V & L & I & O). unfold spec_segwit_msg, hash_prevouts, hash_sequence, hash_issuance. rewrite S, V, L, I, O. reflexivity. Qed.
Theorem taproot_single t t' spent idx annex leaf ht g : tap_output_type ht = SIGHASH_SINGLE -> tx_eq_at_output idx t t' ->
  spec_taproot_msg pt_ok H t spent idx annex leaf ht g = spec_taproot_msg pt_ok H t' spent idx annex leaf ht g.
Proof. intros S (V & L & I & O). unfold spec_taproot_msg, sha_outpoint_flags, sha_prevouts, sha_sequences, sha_issuances, sha_issuance_rangeproofs.
  rewrite S, V, L, I, O. reflexivity. Qed.

(* ---- SIGHASH_NONE / SIGHASH_SINGLE (legacy, segwit v0): the sequence numbers of the other inputs are outside the message ---- *)
Lemma map_mapi_from {A B C} (g : B -> C) (h : nat -> A -> B) l : forall n, map g (mapi_from n h l) = mapi_from n (fun k a => g (h k a)) l.
Proof. induction l; intros; cbn; [reflexivity|]. now rewrite IHl. Qed.
Lemma mapi_from_const {A B} (g : A -> B) l : forall n, mapi_from n (fun _ a => g a) l = map g l.
Proof. induction l; intros; cbn; [reflexivity|]. now rewrite IHl. Qed.
Lemma mapi_from_ext {A B} (f g : nat -> A -> B) : (forall n a, f n a = g n a) -> forall l n, mapi_from n f l = mapi_from n g l.
Proof. intros E. induction l; intros; cbn; [reflexivity|]. now rewrite E, IHl. Qed.
Lemma mapi_mapi_from {A B C} (f : nat -> B -> C) (h : nat -> A -> B) l : forall n, mapi_from n f (mapi_from n h l) = mapi_from n (fun k a => f k (h k a)) l.
Proof. induction l; intros; cbn; [reflexivity|]. now rewrite IHl. Qed.
Lemma mapi_from_length {A B} (f : nat -> A -> B) l : forall n, length (mapi_from n f l) = length l.
Proof. induction l; intros; cbn; auto. Qed.
Lemma nth_mapi_from {A B} (f : nat -> A -> B) l : forall n k, nth_error (mapi_from n f l) k = option_map (f (n + k)%nat) (nth_error l k).
Proof. induction l; intros n [|k]; cbn; try reflexivity. { now rewrite Nat.add_0_r. } rewrite IHl. now replace (S n + k)%nat with (n + S k)%nat by lia. Qed.
Lemma erase_map {B} (g : txin -> B) idx l : (forall i q, g (set_seq i q) = g i) -> map g (erase_other_sequences idx l) = map g l.
Proof. intros E. unfold erase_other_sequences, mapi. rewrite map_mapi_from. rewrite <- (mapi_from_const g l 0). apply mapi_from_ext.
  intros n a. destruct (Nat.eqb n idx); auto. Qed.
Lemma erase_nth idx l : nth_error (erase_other_sequences idx l) idx = nth_error l idx.
Proof. unfold erase_other_sequences, mapi. rewrite nth_mapi_from. cbn [Nat.add]. rewrite Nat.eqb_refl. now destruct (nth_error l idx). Qed.
Lemma erase_length idx l : length (erase_other_sequences idx l) = length l.
Proof. apply mapi_from_length. Qed.
Lemma erase_legacy_inputs ht idx sc l : (hash_single ht || hash_none ht) = true ->
  mapi (legacy_input pt_ok flags ht idx sc) (erase_other_sequences idx l) = mapi (legacy_input pt_ok flags ht idx sc) l.
Proof. intros Z. unfold erase_other_sequences, mapi. rewrite mapi_mapi_from. apply mapi_from_ext. intros n a.
  destruct (Nat.eqb n idx) eqn:E; [reflexivity|]. unfold legacy_input. rewrite E, Z. reflexivity. Qed.

Theorem legacy_other_sequences t t' idx sc ht : (hash_single ht || hash_none ht) = true -> tx_eq_but_other_sequences idx t t' ->
  spec_legacy_msg pt_ok flags t idx sc ht = spec_legacy_msg pt_ok flags t' idx sc ht.
Proof. intros Z (V & L & O & I). unfold spec_legacy_msg, legacy_single_bug.
  rewrite <- (erase_nth idx (tx_in t)), <- (erase_nth idx (tx_in t')), <- (erase_length idx (tx_in t)), <- (erase_length idx (tx_in t')).
  rewrite <- (erase_legacy_inputs ht idx sc (tx_in t) Z), <- (erase_legacy_inputs ht idx sc (tx_in t') Z). rewrite V, L, O, I. reflexivity. Qed.
Theorem segwit_other_sequences t t' idx sc v ht : (hash_single ht || hash_none ht) = true -> tx_eq_but_other_sequences idx t t' ->
  spec_segwit_msg pt_ok H t idx sc v ht = spec_segwit_msg pt_ok H t' idx sc v ht.
Proof. intros Z (V & L & O & I). unfold spec_segwit_msg, hash_prevouts, hash_issuance, hash_outputs.
  assert (Z' : negb (anyone_can_pay ht) && negb (hash_single ht) && negb (hash_none ht) = false)
    by (destruct (anyone_can_pay ht), (hash_single ht), (hash_none ht); cbn in *; congruence).
  rewrite Z'. rewrite <- (erase_nth idx (tx_in t)), <- (erase_nth idx (tx_in t')).
  rewrite <- (erase_map (fun i => ser_outpoint (in_prev i)) idx (tx_in t)), <- (erase_map (fun i => ser_outpoint (in_prev i)) idx (tx_in t')) by reflexivity.
  rewrite <- (erase_map (issuance_or_zero pt_ok) idx (tx_in t)), <- (erase_map (issuance_or_zero pt_ok) idx (tx_in t')) by reflexivity.
  rewrite V, L, O, I. reflexivity. Qed.
End IRRELEVANT2.

(* =========================================== the queries on a fresh cache =========================================== *)
Section PACK.
Variable pt_ok : bytes -> bool.
Variable maxvec : N.
Variable H : bytes -> bytes.
Variable Htag : bytes -> bytes.
Notation impl_msg := (impl_msg pt_ok maxvec H).
Notation impl_digest := (impl_digest pt_ok maxvec H Htag).

Lemma mapM_init {A B} (f : A -> B) (m : M A) t r : snd (m (init t)) = SOk r -> snd (mapM f m (init t)) = SOk (f r).
Proof. unfold mapM, bind, ret. destruct (m (init t)) as [s [a|e|]]; cbn; intros E; inversion E; reflexivity. Qed.
Lemma mapM_init_panic {A B} (f : A -> B) (m : M A) t : snd (m (init t)) = SPanic -> snd (mapM f m (init t)) = SPanic.
Proof. unfold mapM, bind, ret. destruct (m (init t)) as [s [a|e|]]; cbn; intros E; inversion E; reflexivity. Qed.

(* legacy *)
Lemma legacy_digest_nobug t idx sc ty : legacy_single_bug t idx (ecdsa_u32 ty) = false ->
  snd (legacy_sighash pt_ok maxvec H idx sc ty (init t)) = snd (mapM (fun m => H (H m)) (legacy_encode pt_ok maxvec idx sc ty) (init t)).
Proof. unfold legacy_single_bug, legacy_sighash. rewrite bind_get_tx. cbn [init st_tx]. rewrite ecdsa_split_eq.
  destruct ty; cbv beta iota; eval_closed; cbn [andb]; try reflexivity; intros ->; rewrite andb_false_r; reflexivity. Qed.
Lemma legacy_digest_oob t idx sc ty : (length (tx_in t) <= idx)%nat ->
  snd (legacy_sighash pt_ok maxvec H idx sc ty (init t)) = snd (mapM (fun m => H (H m)) (legacy_encode pt_ok maxvec idx sc ty) (init t)).
Proof. intros Ge. apply Nat.ltb_ge in Ge. unfold legacy_sighash. rewrite bind_get_tx. cbn [init st_tx]. destruct (ecdsa_split ty). rewrite Ge, andb_false_r. reflexivity. Qed.
Lemma legacy_digest_bug t idx sc ty : (idx < length (tx_in t))%nat -> legacy_single_bug t idx (ecdsa_u32 ty) = true ->
  snd (legacy_sighash pt_ok maxvec H idx sc ty (init t)) = SOk uint256_one.
Proof. intros Lt. apply Nat.ltb_lt in Lt. unfold legacy_single_bug, legacy_sighash. rewrite bind_get_tx. cbn [init st_tx]. rewrite ecdsa_split_eq, Lt.
  destruct ty; cbv beta iota; eval_closed; cbn [andb]; try discriminate; intros ->; reflexivity. Qed.

Theorem pack_legacy t idx sc ty : (idx < length (tx_in t))%nat -> legacy_single_bug t idx (ecdsa_u32 ty) = false ->
  exists m, spec_legacy_msg pt_ok true t idx sc (ecdsa_u32 ty) = Some m /\
            impl_msg t (OLegacy idx sc ty) = SOk m /\ impl_digest t (OLegacy idx sc ty) = SOk (H (H m)) /\
            spec_legacy_digest pt_ok H true t idx sc (ecdsa_u32 ty) = Some (H (H m)).
Proof. intros Lt Bug. destruct (nth_error (tx_in t) idx) as [me|] eqn:Nth; [|apply nth_error_None in Nth; lia].
  destruct (spec_legacy_msg pt_ok true t idx sc (ecdsa_u32 ty)) as [m|] eqn:S.
  2:{ unfold spec_legacy_msg in S. rewrite Nth, Bug in S. discriminate. }
  exists m. pose proof (legacy_refines pt_ok maxvec t idx sc ty m S) as R. split; [reflexivity|]. split; [exact R|]. split.
  - unfold SighashQuery.impl_digest, query. rewrite (legacy_digest_nobug t idx sc ty Bug). apply (mapM_init (fun x => H (H x))). exact R.
  - unfold spec_legacy_digest. rewrite Nth, Bug, S. reflexivity. Qed.
Theorem legacy_oob_panics t idx sc ty : (length (tx_in t) <= idx)%nat ->
  impl_msg t (OLegacy idx sc ty) = SPanic /\ impl_digest t (OLegacy idx sc ty) = SPanic /\ spec_legacy_digest pt_ok H true t idx sc (ecdsa_u32 ty) = None.
Proof. intros Ge. assert (P : SighashQuery.impl_msg pt_ok maxvec H t (OLegacy idx sc ty) = SPanic).
  { unfold SighashQuery.impl_msg, preimage, legacy_encode, bind, get_tx, lift, init; cbn [st_tx snd]. unfold legacy_encode_tx.
    apply Nat.ltb_ge in Ge. now rewrite Ge. }
  split; [exact P|]. split.
  - unfold SighashQuery.impl_digest, query. rewrite (legacy_digest_oob t idx sc ty Ge). apply mapM_init_panic. exact P.
  - unfold spec_legacy_digest. apply nth_error_None in Ge. now rewrite Ge. Qed.
(* the SIGHASH_SINGLE out-of-range rule: the writer emits the constant, and the digest IS the constant, as in consensus *)
Theorem legacy_single_bug_digests t idx sc ty : (idx < length (tx_in t))%nat -> legacy_single_bug t idx (ecdsa_u32 ty) = true ->
  impl_msg t (OLegacy idx sc ty) = SOk uint256_one /\ impl_digest t (OLegacy idx sc ty) = SOk uint256_one /\
  spec_legacy_digest pt_ok H true t idx sc (ecdsa_u32 ty) = Some uint256_one /\ spec_legacy_msg pt_ok true t idx sc (ecdsa_u32 ty) = None.
Proof. intros Lt Bug. destruct (nth_error (tx_in t) idx) as [me|] eqn:Nth; [|apply nth_error_None in Nth; lia].
  assert (P : SighashQuery.impl_msg pt_ok maxvec H t (OLegacy idx sc ty) = SOk uint256_one).
  { unfold SighashQuery.impl_msg, preimage, legacy_encode, bind, get_tx, lift, init; cbn [st_tx snd]. unfold legacy_encode_tx.
    pose proof Lt as Lt'. apply Nat.ltb_lt in Lt'. rewrite Lt'. cbn [negb]. rewrite ecdsa_split_eq. unfold legacy_single_bug in Bug. revert Bug.
    destruct ty; cbv beta iota; eval_closed; cbn [andb]; try discriminate; intros ->; reflexivity. }
  split; [exact P|]. split; [|split].
  - unfold SighashQuery.impl_digest, query. apply legacy_digest_bug; assumption.
  - unfold spec_legacy_digest. now rewrite Nth, Bug.
  - unfold spec_legacy_msg. now rewrite Nth, Bug. Qed.
(* digest-level refinement on the whole consensus domain *)
Theorem legacy_digest_refines t idx sc ty : (idx < length (tx_in t))%nat ->
  exists d, impl_digest t (OLegacy idx sc ty) = SOk d /\ spec_legacy_digest pt_ok H true t idx sc (ecdsa_u32 ty) = Some d.
Proof. intros Lt. destruct (legacy_single_bug t idx (ecdsa_u32 ty)) eqn:Bug.
  - destruct (legacy_single_bug_digests t idx sc ty Lt Bug) as (_ & D & S & _). eauto.
  - destruct (pack_legacy t idx sc ty Lt Bug) as (m & _ & _ & D & S). eauto. Qed.

(* segwit v0 *)
Theorem pack_segwit t idx sc v ty : (idx < length (tx_in t))%nat ->
  exists m, spec_segwit_msg pt_ok H t idx sc v (ecdsa_u32 ty) = Some m /\
            impl_msg t (OSegwit idx sc v ty) = SOk m /\ impl_digest t (OSegwit idx sc v ty) = SOk (H (H m)) /\
            spec_segwit_digest pt_ok H t idx sc v (ecdsa_u32 ty) = Some (H (H m)).
Proof. intros Lt. destruct (nth_error (tx_in t) idx) as [me|] eqn:Nth; [|apply nth_error_None in Nth; lia].
  destruct (spec_segwit_msg pt_ok H t idx sc v (ecdsa_u32 ty)) as [m|] eqn:S.
  2:{ unfold spec_segwit_msg in S. rewrite Nth in S. discriminate. }
  exists m. pose proof (Ev_init _ _ _ _ _ _ _ (segwit_refines_ev pt_ok maxvec H t [] idx sc v ty m S)) as R.
  split; [reflexivity|]. split; [exact R|]. split.
  - unfold SighashQuery.impl_digest, query, segwit_sighash. apply (mapM_init (fun x => H (H x))). exact R.
  - unfold spec_segwit_digest. now rewrite S. Qed.
Theorem segwit_oob_panics t idx sc v ty : (length (tx_in t) <= idx)%nat ->
  impl_msg t (OSegwit idx sc v ty) = SPanic /\ impl_digest t (OSegwit idx sc v ty) = SPanic /\ spec_segwit_msg pt_ok H t idx sc v (ecdsa_u32 ty) = None.
Proof. intros Ge. apply nth_error_None in Ge.
  pose proof (Ev_init _ _ _ _ _ _ _ (segwit_panics pt_ok maxvec H t [] idx sc v ty Ge)) as R. split; [exact R|]. split.
  - unfold SighashQuery.impl_digest, query, segwit_sighash. apply mapM_init_panic. exact R.
  - unfold spec_segwit_msg. now rewrite Ge. Qed.

(* taproot *)
Definition tap_single (ty : schnorr_ty) : bool := schnorr_eqb ty SSingle || schnorr_eqb ty SSingleAcp.
Lemma taproot_defined t spent idx annex leaf ty g :
  ty <> SReserved -> length spent = length (tx_in t) -> (idx < length (tx_in t))%nat -> annex_valid annex = true ->
  (tap_single ty = true -> (idx < length (tx_out t))%nat) ->
  exists m, spec_taproot_msg pt_ok H t spent idx annex leaf (schnorr_u8 ty) g = Some m.
Proof. intros NR L Lt A Sg. unfold spec_taproot_msg.
  destruct (nth_error (tx_in t) idx) as [me|] eqn:Nth; [|apply nth_error_None in Nth; lia].
  destruct (nth_error spent idx) as [prev|] eqn:Np; [|apply nth_error_None in Np; lia].
  rewrite L, Nat.eqb_refl, A. cbn [negb].
  destruct ty; try congruence; eval_closed; cbn [negb]; try (eexists; reflexivity).
  all: destruct (nth_error (tx_out t) idx) as [o|] eqn:No; [eexists; reflexivity|].
  all: apply nth_error_None in No; specialize (Sg eq_refl); lia. Qed.
Theorem pack_taproot t spent idx annex leaf ty g :
  ty <> SReserved -> length spent = length (tx_in t) -> (idx < length (tx_in t))%nat -> annex_valid annex = true ->
  (tap_single ty = true -> (idx < length (tx_out t))%nat) -> N.of_nat idx < 4294967296 ->
  exists m, spec_taproot_msg pt_ok H t spent idx annex leaf (schnorr_u8 ty) g = Some m /\
            impl_msg t (OTaproot idx (PAll spent) annex leaf ty g) = SOk m /\
            impl_digest t (OTaproot idx (PAll spent) annex leaf ty g) = SOk (Htag m) /\
            spec_taproot_digest pt_ok H Htag t spent idx annex leaf (schnorr_u8 ty) g = Some (Htag m).
Proof. intros NR L Lt A Sg U. destruct (taproot_defined t spent idx annex leaf ty g NR L Lt A Sg) as [m S]. exists m.
  pose proof (Ev_init _ _ _ _ _ _ _ (taproot_refines_ev pt_ok maxvec H t spent idx annex leaf ty g m S U)) as R.
  assert (P : SighashQuery.impl_msg pt_ok maxvec H t (OTaproot idx (PAll spent) annex leaf ty g) = SOk m).
  { unfold SighashQuery.impl_msg, preimage. rewrite (annex_opt_valid _ A). exact R. }
  split; [exact S|]. split; [exact P|]. split.
  - unfold SighashQuery.impl_digest, query. rewrite (annex_opt_valid _ A). unfold taproot_sighash.
    change (bind (lift (SOk annex)) ?k (init t)) with (k annex (init t)). apply mapM_init. exact R.
  - unfold spec_taproot_digest. now rewrite S. Qed.
(* the two convenience entry points are taproot_sighash without annex, on the key path resp. on the script path with no code separator *)
Lemma key_spend_eq t idx pv ty g : impl_digest t (OTapKey idx pv ty g) = impl_digest t (OTaproot idx pv None None ty g).
Proof. reflexivity. Qed.
Lemma script_spend_eq t idx pv lh ty g : impl_digest t (OTapScript idx pv lh ty g) = impl_digest t (OTaproot idx pv None (Some (lh, 4294967295)) ty g).
Proof. reflexivity. Qed.
(* Prevouts::One for every ANYONECANPAY type *)
Theorem pack_taproot_one t spent idx o annex leaf ty g :
  schnorr_acp ty = true -> length spent = length (tx_in t) -> nth_error spent idx = Some o ->
  impl_msg t (OTaproot idx (POne idx o) annex leaf ty g) = impl_msg t (OTaproot idx (PAll spent) annex leaf ty g) /\
  impl_digest t (OTaproot idx (POne idx o) annex leaf ty g) = impl_digest t (OTaproot idx (PAll spent) annex leaf ty g).
Proof. intros A L N. unfold SighashQuery.impl_msg, SighashQuery.impl_digest, preimage, query.
  destruct (annex_opt annex) as [a'| |]; try (split; reflexivity).
  change (bind (lift (SOk a')) ?k (init t)) with (k a' (init t)). unfold taproot_sighash, mapM, bind.
  rewrite (acp_one_eq_all pt_ok maxvec H (init t) spent idx o a' leaf ty g A L N). split; reflexivity. Qed.
End PACK.

(* =========================================== sensitivity to committed fields (partial) =========================================== *)
Definition Collision (H : bytes -> bytes) : Prop := exists a b, a <> b /\ H a = H b.
Section SENSITIVE.
Variable pt_ok : bytes -> bool.
Variable H : bytes -> bytes.
Variable flags : bool.
Hypothesis Hlen : forall x, length (H x) = 32%nat.

Lemma hash_eq a b : H a = H b -> a = b \/ Collision H.
Proof. intros E. destruct (bytes_eqb_spec a b) as [->|N]; [now left|]. right. now exists a, b. Qed.
Lemma dhash_eq a b : H (H a) = H (H b) -> a = b \/ Collision H.
Proof. intros E. destruct (hash_eq _ _ E) as [E'|C]; [|now right]. now apply hash_eq. Qed.
Lemma app_eq_len {A} (a b x y : list A) : length a = length b -> a ++ x = b ++ y -> a = b /\ x = y.
Proof. revert b. induction a as [|h a IH]; intros [|h' b] L E; try discriminate; cbn in *; [auto|].
  inversion E; subst. destruct (IH b) as [-> ->]; auto. Qed.
Lemma app_eq_len_r {A} (a b x y : list A) : length x = length y -> a ++ x = b ++ y -> a = b /\ x = y.
Proof. intros L E. assert (La : length a = length b) by (apply (f_equal (@length A)) in E; rewrite !app_length in E; lia).
  now apply app_eq_len. Qed.
Lemma ser_u32_inj a b : a < 4294967296 -> b < 4294967296 -> ser_u32 a = ser_u32 b -> a = b.
Proof. intros Ha Hb E. unfold ser_u32 in E. rewrite <- (le_val_enc 4 a), <- (le_val_enc 4 b) by (cbn; lia). now rewrite E. Qed.
Lemma ser_u32_len a : length (ser_u32 a) = 4%nat. Proof. apply le_enc_length. Qed.

(* legacy: the message is the serialization itself; version, lock time and hash type are read off its two ends *)
Theorem legacy_commits_ends t t' idx idx' sc sc' ht ht' m :
  spec_legacy_msg pt_ok flags t idx sc ht = Some m -> spec_legacy_msg pt_ok flags t' idx' sc' ht' = Some m ->
  tx_version t < 4294967296 -> tx_version t' < 4294967296 -> tx_lock t < 4294967296 -> tx_lock t' < 4294967296 -> ht < 4294967296 -> ht' < 4294967296 ->
  tx_version t = tx_version t' /\ tx_lock t = tx_lock t' /\ ht = ht'.
Proof. unfold spec_legacy_msg. intros S S' V V' L L' T T'.
  destruct (nth_error (tx_in t) idx); [|discriminate]. destruct (legacy_single_bug t idx ht); [discriminate|].
  destruct (nth_error (tx_in t') idx'); [|discriminate]. destruct (legacy_single_bug t' idx' ht'); [discriminate|].
  apply Some_inj in S. apply Some_inj in S'. rewrite <- S' in S. clear S'.
  apply app_eq_len in S as [Ev S]; [|now rewrite !ser_u32_len]. rewrite !app_assoc in S.
  apply app_eq_len_r in S as [S Et]; [|now rewrite !ser_u32_len]. apply app_eq_len_r in S as [_ El]; [|now rewrite !ser_u32_len].
  auto using ser_u32_inj. Qed.

(* segwit v0, same hash type: version, the three (possibly zeroed) hash fields and the outpoint are fixed-width fields;
   each hash field, when it is a hash, determines its pre-image up to an explicit collision *)
Theorem segwit_commits t t' idx idx' sc sc' v v' ht m me me' :
  spec_segwit_msg pt_ok H t idx sc v ht = Some m -> spec_segwit_msg pt_ok H t' idx' sc' v' ht = Some m ->
  nth_error (tx_in t) idx = Some me -> nth_error (tx_in t') idx' = Some me' ->
  tx_version t < 4294967296 -> tx_version t' < 4294967296 ->
  length (o_txid (in_prev me)) = 32%nat -> length (o_txid (in_prev me')) = 32%nat -> o_vout (in_prev me) < 4294967296 -> o_vout (in_prev me') < 4294967296 ->
  (tx_version t = tx_version t' /\ in_prev me = in_prev me') /\
  (anyone_can_pay ht = false -> (concat (map (fun i => ser_outpoint (in_prev i)) (tx_in t)) = concat (map (fun i => ser_outpoint (in_prev i)) (tx_in t')) \/ Collision H) /\
                                 (concat (map (issuance_or_zero pt_ok) (tx_in t)) = concat (map (issuance_or_zero pt_ok) (tx_in t')) \/ Collision H)) /\
  (anyone_can_pay ht = false -> hash_single ht = false -> hash_none ht = false ->
     concat (map (fun i => ser_u32 (in_seq i)) (tx_in t)) = concat (map (fun i => ser_u32 (in_seq i)) (tx_in t')) \/ Collision H).
Proof. unfold spec_segwit_msg. intros S S' N N' V V' T T' O O'. rewrite N in S. rewrite N' in S'.
  apply Some_inj in S. apply Some_inj in S'. rewrite <- S' in S. clear S'.
  assert (Z : length zero256 = 32%nat) by reflexivity.
  apply app_eq_len in S as [Ev S]; [|now rewrite !ser_u32_len].
  apply app_eq_len in S as [Ep S]; [|destruct (anyone_can_pay ht); unfold hash_prevouts, sha256d; now rewrite ?Hlen].
  apply app_eq_len in S as [Es S]; [|destruct (negb (anyone_can_pay ht) && negb (hash_single ht) && negb (hash_none ht)); unfold hash_sequence, sha256d; now rewrite ?Hlen].
  apply app_eq_len in S as [Ei S]; [|destruct (anyone_can_pay ht); unfold hash_issuance, sha256d; now rewrite ?Hlen].
  apply app_eq_len in S as [Eo _]; [|unfold ser_outpoint; rewrite !app_length, !ser_u32_len; lia].
  split; [split; [now apply ser_u32_inj|]|split].
  - unfold ser_outpoint in Eo. apply app_eq_len in Eo as [E1 E2]; [|lia]. apply ser_u32_inj in E2; auto.
    destruct (in_prev me), (in_prev me'); cbn in *; congruence.
  - intros A. rewrite A in Ep, Ei. split.
    + unfold hash_prevouts, sha256d in Ep. destruct (dhash_eq _ _ Ep) as [E|C]; auto.
    + unfold hash_issuance, sha256d in Ei. destruct (dhash_eq _ _ Ei) as [E|C]; auto.
  - intros A Sg Nn. rewrite A, Sg, Nn in Es. cbn [negb andb] in Es. unfold hash_sequence, sha256d in Es. destruct (dhash_eq _ _ Es) as [E|C]; auto.
Qed.

(* taproot, same hash type and same spend shape: genesis hash, version, lock time are fixed-width fields; without ANYONECANPAY the
   seven sub-hashes, and for ALL/DEFAULT the outputs hash and the OUTPUT-WITNESS hash, each determine their pre-image up to an
   explicit collision — in particular taproot ALL commits to the output witnesses *)
Theorem taproot_commits t t' spent spent' idx idx' annex annex' leaf leaf' ht g g' m :
  spec_taproot_msg pt_ok H t spent idx annex leaf ht g = Some m -> spec_taproot_msg pt_ok H t' spent' idx' annex' leaf' ht g' = Some m ->
  length g = 32%nat -> length g' = 32%nat -> tx_version t < 4294967296 -> tx_version t' < 4294967296 -> tx_lock t < 4294967296 -> tx_lock t' < 4294967296 ->
  (g = g' /\ tx_version t = tx_version t' /\ tx_lock t = tx_lock t') /\
  (tap_input_acp ht = false ->
     (map (fun i => n2b (outpoint_flag_byte i)) (tx_in t) = map (fun i => n2b (outpoint_flag_byte i)) (tx_in t') \/ Collision H) /\
     (concat (map (fun i => ser_outpoint (in_prev i)) (tx_in t)) = concat (map (fun i => ser_outpoint (in_prev i)) (tx_in t')) \/ Collision H) /\
     (concat (map (fun o => ser_asset pt_ok (out_asset o) ++ ser_value pt_ok (out_value o)) spent) = concat (map (fun o => ser_asset pt_ok (out_asset o) ++ ser_value pt_ok (out_value o)) spent') \/ Collision H) /\
     (concat (map (fun o => ser_bytes (out_script o)) spent) = concat (map (fun o => ser_bytes (out_script o)) spent') \/ Collision H) /\
     (concat (map (fun i => ser_u32 (in_seq i)) (tx_in t)) = concat (map (fun i => ser_u32 (in_seq i)) (tx_in t')) \/ Collision H) /\
     (concat (map (issuance_or_zero pt_ok) (tx_in t)) = concat (map (issuance_or_zero pt_ok) (tx_in t')) \/ Collision H) /\
     (concat (map issuance_proofs (tx_in t)) = concat (map issuance_proofs (tx_in t')) \/ Collision H) /\
     (tap_output_type ht = SIGHASH_ALL ->
        (concat (map (ser_txout pt_ok) (tx_out t)) = concat (map (ser_txout pt_ok) (tx_out t')) \/ Collision H) /\
        (concat (map output_witness (tx_out t)) = concat (map output_witness (tx_out t')) \/ Collision H))).
Proof. unfold spec_taproot_msg. intros S S' G G' V V' L L'.
  destruct (negb (tap_type_valid ht)); [discriminate|].
  destruct (negb (Nat.eqb (length spent) (length (tx_in t)))); [discriminate|]. destruct (negb (annex_valid annex)); [discriminate|].
  destruct (negb (Nat.eqb (length spent') (length (tx_in t')))); [discriminate|]. destruct (negb (annex_valid annex')); [discriminate|].
  destruct (nth_error (tx_in t) idx) as [me|]; [|discriminate]. destruct (nth_error spent idx) as [prev|]; [|discriminate].
  destruct (nth_error (tx_in t') idx') as [me'|]; [|discriminate]. destruct (nth_error spent' idx') as [prev'|]; [|discriminate].
  destruct (if tap_output_type ht =? SIGHASH_SINGLE then _ else _) as [so|]; [|discriminate].
  destruct (if tap_output_type ht =? SIGHASH_SINGLE then _ else _) as [so'|]; [|discriminate].
  apply Some_inj in S. apply Some_inj in S'. rewrite <- S' in S. clear S'.
  apply app_eq_len in S as [Eg S]; [|lia]. apply app_eq_len in S as [_ S]; [|lia].
  apply app_eq_len in S as [_ S]; [|reflexivity].
  apply app_eq_len in S as [Ev S]; [|now rewrite !ser_u32_len]. apply app_eq_len in S as [El S]; [|now rewrite !ser_u32_len].
  split; [auto using ser_u32_inj|]. intros A. rewrite A in S. rewrite <- !app_assoc in S.
  unfold sha_outpoint_flags, sha_prevouts, sha_asset_amounts, sha_scriptpubkeys, sha_sequences, sha_issuances, sha_issuance_rangeproofs in S.
  apply app_eq_len in S as [E1 S]; [|now rewrite !Hlen]. apply app_eq_len in S as [E2 S]; [|now rewrite !Hlen].
  apply app_eq_len in S as [E3 S]; [|now rewrite !Hlen]. apply app_eq_len in S as [E4 S]; [|now rewrite !Hlen].
  apply app_eq_len in S as [E5 S]; [|now rewrite !Hlen]. apply app_eq_len in S as [E6 S]; [|now rewrite !Hlen].
  apply app_eq_len in S as [E7 S]; [|now rewrite !Hlen].
  repeat (split; [now apply hash_eq|]). intros OA. rewrite OA in S. cbn [N.eqb SIGHASH_ALL Pos.eqb] in S. rewrite <- !app_assoc in S.
  unfold sha_outputs, sha_output_witnesses in S.
  apply app_eq_len in S as [E8 S]; [|now rewrite !Hlen]. apply app_eq_len in S as [E9 S]; [|now rewrite !Hlen].
  split; now apply hash_eq. Qed.
End SENSITIVE.
