(* Checksum creation followed by verification succeeds (for the encoder side of C06): bounds on the residue, clean shifts while
   fewer than CHECKSUM_LENGTH symbols are in the register, pack/unpack. *)
From Coq Require Import List NArith ZArith Bool Lia ZifyN ZifyBool ZifyNat.
From EV Require Import Base.Bytes Model.Bech32 Proofs.Bech32.
Ltac Zify.zify_post_hook ::= Z.div_mod_to_equations.
Import ListNotations.
Open Scope N_scope.

Section Enc.
Variable gen : list N. Variable n : nat.           (* n = CHECKSUM_LENGTH >= 1 *)
Hypothesis n_pos : (1 <= n)%nat.
Let sh : N := 5 * (N.of_nat n - 1).
Let W : N := 5 * N.of_nat n.
Hypothesis gen_bound : Forall (fun g => g < 2 ^ W) gen.
Notation step := (step gen sh). Notation feedg := (feedg gen sh). Notation Zp := (Zp gen sh).

Lemma W_sh : W = sh + 5. Proof. unfold W, sh. lia. Qed.

Lemma mix_bound_gen g top : Forall (fun g => g < 2 ^ W) g -> forall i, mix top i g < 2 ^ W.
Proof. induction g as [|x r IH]; intros F i; cbn [mix]. { apply N.neq_0_lt_0, N.pow_nonzero. lia. }
  inversion F; subst. apply lxor_lt_pow2; [|now apply IH]. destruct (N.testbit top i); cbn [sel]; [assumption|]. apply N.neq_0_lt_0, N.pow_nonzero. lia. Qed.
Lemma mix_bound top i : mix top i gen < 2 ^ W.
Proof. now apply mix_bound_gen. Qed.
Lemma step_bound s v : v < 32 -> step s v < 2 ^ W.
Proof. intros Hv. unfold Bech32.step. apply lxor_lt_pow2; [|apply mix_bound]. apply lor_lt_pow2.
  - apply bits_lt_pow2. intros m Hm. rewrite N.shiftl_spec_high' by (rewrite W_sh in Hm; lia).
    rewrite N.land_spec, N.ones_spec_high by (rewrite W_sh in Hm; lia). apply andb_false_r.
  - apply N.lt_le_trans with (2 ^ 5); [exact Hv|]. apply N.pow_le_mono_r; [lia|]. unfold W. lia. Qed.
Lemma feed_bound w : forall s, s < 2 ^ W -> syms w -> feedg s w < 2 ^ W.
Proof. induction w as [|x w IH]; intros s Hs Hw; [exact Hs|]. inversion Hw; subst. cbn [Proofs.Bech32.feedg fold_left].
  apply IH; [apply step_bound; assumption|assumption]. Qed.

(* while the register holds fewer than n symbols a step is a clean shift *)
Lemma step_clean s v : s < 2 ^ sh -> v < 32 -> step s v = s * 32 + v.
Proof. intros Hs Hv. unfold Bech32.step.
  assert (SR : N.shiftr s sh = 0) by (destruct (N.eq_dec s 0) as [->|NZ]; [apply N.shiftr_0_l|apply N.shiftr_eq_0, N.log2_lt_pow2; lia]).
  rewrite SR.
  rewrite N.land_0_l, mix_0, N.lxor_0_r. rewrite N.land_ones, N.mod_small by assumption. rewrite N.shiftl_mul_pow2.
  change (2 ^ 5) with 32. rewrite <- N.shiftl_mul_pow2 with (n := 5). rewrite lor_low_is_lxor by assumption.
  rewrite N.shiftl_mul_pow2. change (2 ^ 5) with 32. symmetry. apply N.add_nocarry_lxor.
  apply N.bits_inj. intros m. rewrite N.land_spec, N.bits_0. destruct (N.lt_ge_cases m 5) as [L|L].
  - replace (s * 32) with (s * 2 ^ 5) by reflexivity. rewrite N.mul_pow2_bits_low by assumption. reflexivity.
  - change 32 with (2 ^ 5) in Hv. rewrite (lt_pow2_bits v 5 Hv m L). apply andb_false_r. Qed.

Definition pack_from (acc : N) (l : list N) : N := fold_left (fun a v => a * 32 + v) l acc.
Lemma feed_clean l : forall k s, (k + length l <= n)%nat -> s < 2 ^ (5 * N.of_nat k) -> syms l -> feedg s l = pack_from s l.
Proof. induction l as [|x l IH]; intros k s L Hs Hl; [reflexivity|]. inversion Hl as [|? ? Hx Hl']; subst. cbn [length] in L.
  cbn [Proofs.Bech32.feedg pack_from fold_left]. unfold sym in Hx.
  assert (Hs' : s < 2 ^ sh). { apply N.lt_le_trans with (2 ^ (5 * N.of_nat k)); [assumption|]. apply N.pow_le_mono_r; [lia|]. unfold sh. lia. }
  rewrite step_clean by assumption. apply (IH (S k)); [lia| |assumption].
  replace (5 * N.of_nat (S k)) with (5 * N.of_nat k + 5) by lia. rewrite N.pow_add_r. change (2 ^ 5) with 32. lia. Qed.

Lemma unpack_sym r k : unpack r k < 32.
Proof. unfold unpack. change 31 with (N.ones 5). rewrite N.land_ones. apply N.mod_lt. discriminate. Qed.
Lemma unpack_all_syms k r : syms (unpack_all k r).
Proof. induction k as [|k IH]; cbn [unpack_all]; constructor; [apply unpack_sym|assumption]. Qed.
Lemma unpack_all_length k r : length (unpack_all k r) = k.
Proof. induction k as [|k IH]; cbn [unpack_all length]; congruence. Qed.
Lemma pack_unpack k : forall acc r, pack_from acc (unpack_all k r) = acc * 32 ^ N.of_nat k + r mod 32 ^ N.of_nat k.
Proof. induction k as [|k IH]; intros acc r; cbn [unpack_all pack_from fold_left].
  - cbn. rewrite N.mod_1_r. lia.
  - fold (pack_from (acc * 32 + unpack r k) (unpack_all k r)). rewrite IH. unfold unpack. change 31 with (N.ones 5).
    rewrite N.land_ones, N.shiftr_div_pow2. replace (2 ^ (5 * N.of_nat k)) with (32 ^ N.of_nat k) by (change 32 with (2 ^ 5); now rewrite <- N.pow_mul_r).
    change (2 ^ 5) with 32. rewrite Nnat.Nat2N.inj_succ, N.pow_succ_r'.
    assert (NZ : 32 ^ N.of_nat k <> 0) by (apply N.pow_nonzero; discriminate).
    rewrite (N.mul_comm 32 (32 ^ N.of_nat k)). rewrite (N.mod_mul_r r (32 ^ N.of_nat k) 32) by (assumption || discriminate). lia. Qed.

(* C06's checksum lemma: what the encoder appends verifies *)
Theorem checksum_verifies target pre : target < 2 ^ W -> syms pre ->
  feedg 1 (pre ++ unpack_all n (feedg (feedg 1 pre) (unpack_all n target))) = target.
Proof. intros HT Hp. unfold Proofs.Bech32.feedg at 1. rewrite fold_left_app. fold (feedg 1 pre). set (s0 := feedg 1 pre).
  assert (H1 : (1:N) < 2 ^ W) by (apply N.lt_le_trans with (2 ^ 5); [reflexivity|apply N.pow_le_mono_r; [lia|unfold W; lia]]).
  assert (Hs0 : s0 < 2 ^ W) by (apply feed_bound; assumption).
  set (T := unpack_all n target). set (r := feedg s0 T). fold (feedg s0 (unpack_all n r)).
  assert (Hr : r < 2 ^ W) by (apply feed_bound; [assumption|apply unpack_all_syms]).
  assert (P32 : 32 ^ N.of_nat n = 2 ^ W) by (unfold W; change 32 with (2 ^ 5); now rewrite <- N.pow_mul_r).
  assert (C : forall x, x < 2 ^ W -> feedg 0 (unpack_all n x) = x).
  { intros x Hx. rewrite (feed_clean _ 0 0); [|rewrite unpack_all_length; lia|cbn; lia|apply unpack_all_syms].
    rewrite pack_unpack, P32, N.mod_small by assumption. lia. }
  rewrite (feed_split gen sh (unpack_all n r)) by apply unpack_all_syms. rewrite unpack_all_length, (C r Hr).
  unfold r. rewrite (feed_split gen sh T) by apply unpack_all_syms. unfold T. rewrite unpack_all_length. rewrite (C target HT).
  now rewrite <- N.lxor_assoc, N.lxor_nilpotent, N.lxor_0_l. Qed.
End Enc.
