(* The numbers hard-wired into the C01 / C02 / C11 / C12 / C19 models are exactly the ones the Rust source uses now:
   Gen/Tables.v is regenerated from /repo/src on every run (translator/tables_C01.py), and every statement below is closed by
   computation, so a changed constant in the source breaks this file (a proof obligation of C01, C11, C12) before the
   correspondence check even runs.  Prefix sets are compared over the whole byte range 0..255 (a finite domain, swept in the kernel). *)
From Coq Require Import List NArith Bool.
From Coq.Strings Require Import Byte.
From EV Require Import Base.Bytes Base.Codec Model.Tx Model.Block Model.Sizes Model.Ids Gen.Tables.
Import ListNotations.
Open Scope N_scope.
Set Default Timeout 60.

Definition all_bytes : list N := map N.of_nat (seq 0 256).
Definition accepts {A} (d : bytes -> option (A * bytes)) (p : N) : bool :=
  match d (n2b p :: repeat x00 32) with Some _ => true | None => false end.
Definition inl (p : N) (l : list N) : bool := existsb (N.eqb p) l.
Definition any_pt (_ : bytes) : bool := true.

(* --- TxIn flag bits --- *)
Example tie_pegin_bit : c01_pegin_bit_enc = bit30 /\ c01_pegin_bit_dec = bit30. Proof. split; reflexivity. Qed.
Example tie_issuance_bit : c01_issuance_bit_enc = Tx.bit31 /\ c01_issuance_bit_dec = Tx.bit31. Proof. split; reflexivity. Qed.
Example tie_flag_mask : forall w, w <> u32max -> wire_plain_vout w = N.land w (N.lxor u32max c01_flag_mask).
Proof. intros w H. unfold wire_plain_vout. destruct (N.eqb_spec w u32max); [contradiction|reflexivity]. Qed.
Example tie_coinbase_vout : c01_coinbase_vout = u32max. Proof. reflexivity. Qed.
Example tie_flag_tests : forallb (fun k => Bool.eqb (N.testbit c01_pegin_bit_dec k) (N.eqb k 30) && Bool.eqb (N.testbit c01_issuance_bit_dec k) (N.eqb k 31))
                                 (map N.of_nat (seq 0 64)) = true.
Proof. vm_compute. reflexivity. Qed.

(* --- confidential prefixes: the model decoders accept exactly the prefix bytes named in the source, over all 256 bytes --- *)
Example tie_value_prefixes :
  forallb (fun p => Bool.eqb (accepts (value_dec any_pt) p)
                             (inl p [c01_value_prefix_null; c01_value_prefix_explicit; c01_value_prefix_conf_even; c01_value_prefix_conf_odd])) all_bytes = true.
Proof. vm_compute. reflexivity. Qed.
Example tie_asset_prefixes :
  forallb (fun p => Bool.eqb (accepts (asset_dec any_pt) p)
                             (inl p [c01_asset_prefix_null; c01_asset_prefix_explicit; c01_asset_prefix_conf_even; c01_asset_prefix_conf_odd])) all_bytes = true.
Proof. vm_compute. reflexivity. Qed.
Example tie_nonce_prefixes :
  forallb (fun p => Bool.eqb (accepts (nonce_dec any_pt) p)
                             (inl p [c01_nonce_prefix_null; c01_nonce_prefix_explicit; c01_nonce_prefix_conf_even; c01_nonce_prefix_conf_odd])) all_bytes = true.
Proof. vm_compute. reflexivity. Qed.
(* which prefix selects which constructor *)
Example tie_value_kinds :
  map (fun p => match value_dec any_pt (n2b p :: repeat x00 32) with Some (VNull, _) => 0 | Some (VExplicit _, _) => 1 | Some (VConf _, _) => 2 | None => 3 end)
      [c01_value_prefix_null; c01_value_prefix_explicit; c01_value_prefix_conf_even; c01_value_prefix_conf_odd] = [0; 1; 2; 2].
Proof. vm_compute. reflexivity. Qed.
Example tie_asset_kinds :
  map (fun p => match asset_dec any_pt (n2b p :: repeat x00 32) with Some (ANull, _) => 0 | Some (AExplicit _, _) => 1 | Some (AConf _, _) => 2 | None => 3 end)
      [c01_asset_prefix_null; c01_asset_prefix_explicit; c01_asset_prefix_conf_even; c01_asset_prefix_conf_odd] = [0; 1; 2; 2].
Proof. vm_compute. reflexivity. Qed.
Example tie_nonce_kinds :
  map (fun p => match nonce_dec any_pt (n2b p :: repeat x00 32) with Some (NNull, _) => 0 | Some (NExplicit _, _) => 1 | Some (NConf _, _) => 2 | None => 3 end)
      [c01_nonce_prefix_null; c01_nonce_prefix_explicit; c01_nonce_prefix_conf_even; c01_nonce_prefix_conf_odd] = [0; 1; 2; 2].
Proof. vm_compute. reflexivity. Qed.

(* --- dynafed parameter tags and the header's version bit --- *)
Example tie_params_tags :
  params_tag PNull = c01_params_tag_null /\ params_tag (PCompact [] 0 []) = c01_params_tag_compact
  /\ params_tag (PFull {| fp_sbs := []; fp_limit := 0; fp_program := []; fp_script := []; fp_ext := [] |}) = c01_params_tag_full.
Proof. repeat split; reflexivity. Qed.
Example tie_header_bit : c01_header_dyna_bit_enc = Block.bit31 /\ c01_header_dyna_shift_dec = 31 /\ c01_header_version_mask_dec = 2147483647
                         /\ N.lxor c01_header_dyna_bit_enc c01_header_version_mask_dec = u32max.
Proof. repeat split; reflexivity. Qed.
Example tie_wire_is_dyna : forall wv, wire_is_dyna wv = (N.shiftr wv c01_header_dyna_shift_dec =? 1). Proof. reflexivity. Qed.

(* --- C12 --- *)
Example tie_weight_scale : forall t, tx_weight t = scaled_size c12_weight_scale t /\ tx_size t = scaled_size c12_size_scale t. Proof. split; reflexivity. Qed.
Example tie_vsize : forall w, div_ceil4 w = (w + (c12_vsize_div - 1)) / c12_vsize_div /\ c12_discount_vsize_div = c12_vsize_div /\ c12_discount_scale = c12_weight_scale.
Proof. repeat split; reflexivity. Qed.
Example tie_discount : forall o, output_discount o =
  (output_wit o - c12_discount_witness_keep) + (if value_is_conf (out_value o) then c12_discount_value else 0) + (if nonce_is_conf (out_nonce o) then c12_discount_nonce else 0).
Proof. reflexivity. Qed.

(* --- C11 --- *)
Example tie_issuance_consts : map b2n zero32 = c11_zero32 /\ map b2n one32 = c11_one32 /\ map b2n two32 = c11_two32.
Proof. repeat split; vm_compute; reflexivity. Qed.
