(* Proofs for Model/Text.v: parse (print x) = Ok x for every Display/FromStr pair. *)
From Coq Require Import List NArith ZArith Bool Lia ZifyN ZifyBool ZifyNat.
From Coq.Strings Require Import Byte.
From EV Require Import Base.Bytes Gen.Tables Model.Tx Model.Text.
Import ListNotations.
Ltac Zify.zify_post_hook ::= Z.div_mod_to_equations.
Open Scope N_scope.

(* ---------- the sixteen digit characters ---------- *)
Ltac cases16 d H :=
  let p := fresh "p" in destruct d as [|p]; [| do 4 (try (destruct p as [p|p|]; try (exfalso; lia))) ].
Lemma unhex_hexdigit d : d < 16 -> unhexdigit (hexdigit d) = Some d.
Proof. intros H. cases16 d H; reflexivity. Qed.
Lemma undigit_hexdigit r d : r <= 16 -> d < r -> undigit r (hexdigit d) = Some d.
Proof. intros Hr Hd. unfold undigit. rewrite unhex_hexdigit by lia. destruct (N.ltb_spec d r); [reflexivity|lia]. Qed.
Definition plain_char (c : byte) : bool := negb (byte_eqb c colon) && negb (byte_eqb c plus) && negb (byte_eqb c minus).
Lemma hexdigit_plain d : d < 16 -> plain_char (hexdigit d) = true.
Proof. intros H. cases16 d H; reflexivity. Qed.
Lemma hexdigit_zero d : d < 16 -> d <> 0 -> byte_eqb (hexdigit d) zero_ch = false.
Proof. intros H Hz. cases16 d H; try reflexivity. exfalso. now apply Hz. Qed.
Lemma hexdigit_not_x d : d < 16 -> byte_eqb (hexdigit d) x78 = false.
Proof. intros H. cases16 d H; reflexivity. Qed.
Lemma plain_colon c : plain_char c = true -> byte_eqb c colon = false.
Proof. unfold plain_char. intros H. apply andb_prop in H as [H1 H3]. apply andb_prop in H1 as [H1 H2]. now apply negb_true_iff in H1. Qed.
Lemma plain_plus c : plain_char c = true -> byte_eqb c plus = false.
Proof. unfold plain_char. intros H. apply andb_prop in H as [H1 H3]. apply andb_prop in H1 as [H1 H2]. now apply negb_true_iff in H2. Qed.
Lemma plain_minus c : plain_char c = true -> byte_eqb c minus = false.
Proof. unfold plain_char. intros H. apply andb_prop in H as [H1 H3]. now apply negb_true_iff in H3. Qed.

(* ---------- hex ---------- *)
Lemma hex_of_bytes_cons x b : hex_of_bytes (x :: b) = hexdigit (b2n x / 16) :: hexdigit (b2n x mod 16) :: hex_of_bytes b.
Proof. reflexivity. Qed.
Lemma hex_pairs_of_bytes b : hex_pairs (hex_of_bytes b) = Ok b.
Proof. induction b as [|x b IH]; [reflexivity|]. rewrite hex_of_bytes_cons. cbn [hex_pairs].
  pose proof (b2n_lt x) as Hx. rewrite !unhex_hexdigit by lia. rewrite IH. cbn [rbind]. do 2 f_equal.
  replace (16 * (b2n x / 16) + b2n x mod 16) with (b2n x) by lia. apply n2b_b2n. Qed.
Lemma hex_of_bytes_length b : length (hex_of_bytes b) = (2 * length b)%nat.
Proof. induction b as [|x b IH]; [reflexivity|]. rewrite hex_of_bytes_cons. cbn [length]. lia. Qed.
Lemma hex_of_bytes_plain b : forallb plain_char (hex_of_bytes b) = true.
Proof. induction b as [|x b IH]; [reflexivity|]. rewrite hex_of_bytes_cons. cbn [forallb]. pose proof (b2n_lt x).
  rewrite !hexdigit_plain by lia. exact IH. Qed.
Lemma hex_decode_fixed_ok len b : N.of_nat (length b) = len -> hex_decode_fixed len (hex_of_bytes b) = Ok b.
Proof. intros L. unfold hex_decode_fixed. rewrite hex_of_bytes_length.
  destruct (N.eqb_spec (N.of_nat (2 * length b)) (2 * len)); [apply hex_pairs_of_bytes|lia]. Qed.
Lemma maybe_rev_length r b : length (maybe_rev r b) = length b.
Proof. destruct r; cbn; [apply rev_length|reflexivity]. Qed.
Lemma maybe_rev_invol r b : maybe_rev r (maybe_rev r b) = b.
Proof. destruct r; cbn; [apply rev_involutive|reflexivity]. Qed.
Lemma parse_print_hash len r b : N.of_nat (length b) = len -> parse_hash len r (print_hash r b) = Ok b.
Proof. intros L. unfold parse_hash, print_hash. rewrite hex_decode_fixed_ok by (now rewrite maybe_rev_length).
  cbn [rbind]. now rewrite maybe_rev_invol. Qed.
Lemma parse_print_bf len r b : N.of_nat (length b) = len -> tweak_ok b = true -> parse_bf len r (print_bf r b) = Ok b.
Proof. intros L T. unfold parse_bf, print_bf. rewrite parse_print_hash by exact L. cbn [rbind]. now rewrite T. Qed.

(* ---------- integers ---------- *)
Section RADIX.
Variables r B : N.
Hypothesis Hr2 : 2 <= r. Hypothesis Hr16 : r <= 16.

Lemma parse_digits_digits fuel : forall n acc, n < 2 ^ N.of_nat fuel -> n < B ->
  parse_digits r B (digits r fuel n acc) 0 = parse_digits r B acc n.
Proof. induction fuel as [|f IH]; intros n acc Hn HB.
  - cbn in Hn. assert (n = 0) by lia. subst. reflexivity.
  - cbn [digits]. rewrite Nnat.Nat2N.inj_succ, N.pow_succ_r' in Hn.
    assert (Hm : n mod r < r) by (apply N.mod_upper_bound; lia).
    destruct (N.eqb_spec (n / r) 0) as [E|E].
    + cbn [parse_digits]. rewrite undigit_hexdigit by lia.
      replace (0 * r + n mod r) with n by (rewrite N.mod_eq, E by lia; lia). destruct (N.ltb_spec n B); [reflexivity|lia].
    + rewrite IH; [| |].
      * cbn [parse_digits]. rewrite undigit_hexdigit by lia.
        replace (n / r * r + n mod r) with n by (rewrite (N.mul_comm (n / r) r); apply N.div_mod'). destruct (N.ltb_spec n B); [reflexivity|lia].
      * assert (n / r <= n / 2) by (apply N.div_le_compat_l; lia). assert (n / 2 < 2 ^ N.of_nat f) by (apply N.div_lt_upper_bound; lia). lia.
      * assert (n / r <= n) by (apply N.div_le_upper_bound; nia). lia. Qed.

(* the first digit: a digit character, and not '0' unless the number is zero *)
Lemma digits_head fuel : forall n acc, n < 2 ^ N.of_nat fuel -> (0 < fuel)%nat ->
  exists d l, d < r /\ (n <> 0 -> d <> 0) /\ (n = 0 -> l = acc) /\ digits r fuel n acc = hexdigit d :: l.
Proof. induction fuel as [|f IH]; intros n acc Hn Hf; [lia|].
  cbn [digits]. rewrite Nnat.Nat2N.inj_succ, N.pow_succ_r' in Hn.
  assert (Hm : n mod r < r) by (apply N.mod_upper_bound; lia).
  destruct (N.eqb_spec (n / r) 0) as [E|E].
  - exists (n mod r), acc. repeat split; try assumption. intros Hz. assert (n mod r = n) by (rewrite N.mod_eq, E by lia; lia). lia.
  - assert (Hq : n / r < 2 ^ N.of_nat f).
    { assert (n / r <= n / 2) by (apply N.div_le_compat_l; lia). assert (n / 2 < 2 ^ N.of_nat f) by (apply N.div_lt_upper_bound; lia). lia. }
    destruct f as [|f']; [change (2 ^ N.of_nat 0) with 1 in Hq; exfalso; apply E; now apply N.lt_1_r|].
    destruct (IH (n / r) (hexdigit (n mod r) :: acc) Hq ltac:(lia)) as (d & l & Hd & Hnz & _ & E2).
    exists d, l. repeat split; try assumption.
    + intros _. now apply Hnz.
    + intros Hz. subst n. rewrite N.div_0_l in E by lia. congruence. Qed.

Lemma digits_forall (P : byte -> bool) : (forall d, d < r -> P (hexdigit d) = true) ->
  forall fuel n acc, forallb P acc = true -> forallb P (digits r fuel n acc) = true.
Proof. intros HP. induction fuel as [|f IH]; intros n acc Ha; [exact Ha|].
  cbn [digits]. assert (Hm : n mod r < r) by (apply N.mod_upper_bound; lia).
  assert (Ha' : forallb P (hexdigit (n mod r) :: acc) = true) by (cbn [forallb]; now rewrite HP, Ha).
  destruct (n / r =? 0); [exact Ha'|]. now apply IH. Qed.

Lemma digits_length fuel : forall n acc k, n < r ^ N.of_nat k -> (1 <= k)%nat ->
  (length (digits r fuel n acc) <= length acc + k)%nat.
Proof. induction fuel as [|f IH]; intros n acc k Hn Hk; [cbn; lia|].
  cbn [digits]. destruct (N.eqb_spec (n / r) 0) as [E|E]; [cbn [length]; lia|].
  destruct k as [|k]; [lia|]. rewrite Nnat.Nat2N.inj_succ, N.pow_succ_r' in Hn.
  destruct k as [|k].
  - cbn in Hn. exfalso. apply E. apply N.div_small. lia.
  - specialize (IH (n / r) (hexdigit (n mod r) :: acc) (S k)). cbn [length] in IH.
    assert (n / r < r ^ N.of_nat (S k)) by (apply N.div_lt_upper_bound; lia). lia. Qed.

Lemma log2_fuel n : n < 2 ^ N.of_nat (S (N.to_nat (N.log2 n))).
Proof. rewrite Nnat.Nat2N.inj_succ, Nnat.N2Nat.id. destruct (N.eq_dec n 0) as [->|Hz]; [cbn; lia|].
  apply N.log2_spec. lia. Qed.

Lemma print_radix_head n : exists d l, d < r /\ (n <> 0 -> d <> 0) /\ (n = 0 -> l = []) /\ print_radix r n = hexdigit d :: l.
Proof. unfold print_radix. apply digits_head; [apply log2_fuel|lia]. Qed.

Lemma parse_print_radix n : n < B -> parse_uint r B (print_radix r n) = Ok n.
Proof. intros HB. destruct (print_radix_head n) as (d & l & Hd & _ & _ & E).
  pose proof (parse_digits_digits _ n [] (log2_fuel n) HB) as P. fold (print_radix r n) in P.
  unfold parse_uint. rewrite E in *. pose proof (hexdigit_plain d ltac:(lia)) as Hp.
  rewrite (plain_plus _ Hp), (plain_minus _ Hp). cbn [orb andb]. exact P. Qed.
End RADIX.

Lemma parse_print_u32 n : n < u32_bound -> parse_u32 (print_dec n) = Ok n.
Proof. intros H. unfold parse_u32, print_dec. apply parse_print_radix; lia. Qed.
Lemma print_dec_plain n : forallb plain_char (print_dec n) = true.
Proof. unfold print_dec, print_radix. apply (digits_forall 10 ltac:(lia) ltac:(lia) plain_char); [|reflexivity]. intros d Hd. apply hexdigit_plain. lia. Qed.
Lemma print_dec_length n : n < u32_bound -> (1 <= length (print_dec n) <= 10)%nat.
Proof. intros H. split.
  - destruct (print_radix_head 10 ltac:(lia) ltac:(lia) n) as (d & l & _ & _ & _ & E). unfold print_dec. rewrite E. cbn [length]. lia.
  - unfold print_dec, print_radix. pose proof (digits_length 10 ltac:(lia) ltac:(lia) (S (N.to_nat (N.log2 n))) n [] 10%nat) as L.
    cbn [length] in L. apply L; [|lia]. unfold u32_bound in H. change (10 ^ N.of_nat 10) with 10000000000. lia. Qed.

Lemma parse_print_sequence n : n < u32_bound -> parse_sequence (print_sequence n) = Ok n.
Proof. exact (parse_print_u32 n). Qed.
Lemma parse_print_locktime l : locktime_wf l = true -> parse_locktime (print_locktime l) = Ok l.
Proof. unfold parse_locktime, print_locktime, locktime_wf, locktime_from_consensus. destruct l as [h|t]; cbn [locktime_to_consensus]; intros W.
  - assert (C20_LOCK_TIME_THRESHOLD <= u32_bound) by (vm_compute; discriminate).
    rewrite parse_print_u32 by lia. cbn [rbind]. now rewrite W.
  - rewrite parse_print_u32 by lia. cbn [rbind]. destruct (N.ltb_spec t C20_LOCK_TIME_THRESHOLD); [lia|reflexivity]. Qed.
Lemma parse_print_locktime_any l : locktime_to_consensus l < u32_bound ->
  parse_locktime (print_locktime l) = Ok (locktime_from_consensus (locktime_to_consensus l)).
Proof. intros H. unfold parse_locktime, print_locktime. now rewrite parse_print_u32. Qed.
Lemma locktime_from_consensus_wf n : n < u32_bound -> locktime_wf (locktime_from_consensus n) = true.
Proof. intros H. unfold locktime_from_consensus, locktime_wf. destruct (N.ltb_spec n C20_LOCK_TIME_THRESHOLD) as [L|L].
  - now apply N.ltb_lt.
  - apply andb_true_intro. split; [now apply N.leb_le|now apply N.ltb_lt]. Qed.
Lemma parse_print_locktime_iff l : locktime_to_consensus l < u32_bound ->
  (parse_locktime (print_locktime l) = Ok l <-> locktime_wf l = true).
Proof. intros H. split; [|apply parse_print_locktime]. rewrite parse_print_locktime_any by exact H. intros E. inversion E as [E'].
  rewrite E'. rewrite <- E' at 1. now apply locktime_from_consensus_wf. Qed.
Lemma parse_print_height h : h < C20_LOCK_TIME_THRESHOLD -> parse_height (print_height h) = Ok h.
Proof. intros H. unfold parse_height, print_height. assert (C20_LOCK_TIME_THRESHOLD <= u32_bound) by (vm_compute; discriminate).
  rewrite parse_print_u32 by lia. cbn [rbind]. destruct (N.ltb_spec h C20_LOCK_TIME_THRESHOLD); [reflexivity|lia]. Qed.
Lemma parse_print_time t : C20_LOCK_TIME_THRESHOLD <= t -> t < u32_bound -> parse_time (print_time t) = Ok t.
Proof. intros H1 H2. unfold parse_time, print_time. rewrite parse_print_u32 by lia. cbn [rbind].
  destruct (N.leb_spec C20_LOCK_TIME_THRESHOLD t); [reflexivity|lia]. Qed.

(* ---------- OutPoint ---------- *)
Lemma starts_with_app p s : starts_with p (p ++ s) = true.
Proof. induction p as [|a p IH]; [reflexivity|]. cbn. rewrite IH. destruct (byte_eqb_spec a a); [reflexivity|congruence]. Qed.
Lemma skipn_app_exact {A} (p s : list A) : skipn (length p) (p ++ s) = s.
Proof. induction p; [reflexivity|exact IHp]. Qed.
Lemma firstn_app_exact {A} (p s : list A) : firstn (length p) (p ++ s) = p.
Proof. induction p as [|a p IH]; [reflexivity|]. cbn. now rewrite IH. Qed.
Lemma find_colon_none D : forallb plain_char D = true -> find_byte colon D = None /\ rfind_byte colon D = None.
Proof. induction D as [|x D IH]; [split; reflexivity|]. cbn [forallb]. intros H. apply andb_prop in H as [Hx HD].
  destruct (IH HD) as [F R]. cbn [find_byte rfind_byte]. rewrite (plain_colon _ Hx), F, R. split; reflexivity. Qed.
Lemma find_colon_app H D : forallb plain_char H = true -> find_byte colon (H ++ colon :: D) = Some (length H).
Proof. induction H as [|x H IH]; [reflexivity|]. cbn [forallb]. intros Hp. apply andb_prop in Hp as [Hx HH].
  cbn [app find_byte length]. rewrite (plain_colon _ Hx), (IH HH). reflexivity. Qed.
Lemma rfind_colon_app H D : forallb plain_char D = true -> rfind_byte colon (H ++ colon :: D) = Some (length H).
Proof. intros HD. induction H as [|x H IH].
  - cbn [app rfind_byte length]. destruct (find_colon_none D HD) as [_ ->]. reflexivity.
  - cbn [app rfind_byte length]. now rewrite IH. Qed.

Lemma parse_vout_print v : v < u32_bound -> parse_vout (print_dec v) = Ok v.
Proof. intros Hv. pose proof (parse_print_u32 v Hv) as P.
  destruct (print_radix_head 10 ltac:(lia) ltac:(lia) v) as (d & l & Hd & Hnz & Hz & E). unfold print_dec in *. rewrite E in *.
  unfold parse_vout. destruct l as [|c l]; [exact P|].
  assert (v <> 0) by (intros Z; specialize (Hz Z); discriminate).
  rewrite (hexdigit_zero d ltac:(lia) (Hnz H)), (plain_plus _ (hexdigit_plain d ltac:(lia))). exact P. Qed.

Lemma parse_print_btc_outpoint txid v : length txid = 32%nat -> v < u32_bound ->
  parse_btc_outpoint (print_hash true txid ++ colon :: print_dec v) = Ok {| o_txid := txid; o_vout := v |}.
Proof. intros Lt Hv. unfold parse_btc_outpoint.
  set (H := print_hash true txid). set (D := print_dec v).
  assert (LH : length H = 64%nat) by (unfold H, print_hash; rewrite hex_of_bytes_length, maybe_rev_length; lia).
  assert (PH : forallb plain_char H = true) by apply hex_of_bytes_plain.
  assert (PD : forallb plain_char D = true) by apply print_dec_plain.
  pose proof (print_dec_length v Hv) as LD. fold D in LD.
  rewrite app_length. cbn [length]. destruct (Nat.ltb_spec 75 (length H + S (length D))); [lia|].
  rewrite (find_colon_app H D PH), (rfind_colon_app H D PD). cbn [opt_nat_eqb]. rewrite Nat.eqb_refl. cbn [negb].
  rewrite LH. destruct (Nat.eqb_spec 64 (64 + S (length D) - 1)); [lia|]. cbn [Nat.eqb orb].
  rewrite <- LH at 1. rewrite firstn_app_exact. unfold H at 1. rewrite parse_print_hash by (now rewrite Lt).
  replace (H ++ colon :: D) with ((H ++ [colon]) ++ D) by (now rewrite <- app_assoc).
  replace 65%nat with (length (H ++ [colon])) by (rewrite app_length, LH; reflexivity).
  rewrite skipn_app_exact. unfold D. rewrite parse_vout_print by exact Hv. reflexivity. Qed.

Lemma parse_print_outpoint o : length (o_txid o) = 32%nat -> o_vout o < u32_bound -> parse_outpoint (print_outpoint o) = Ok o.
Proof. intros Lt Hv. unfold parse_outpoint, print_outpoint.
  change outpoint_parse_prefix with outpoint_display_prefix. rewrite starts_with_app.
  change (N.to_nat outpoint_parse_skip) with (length outpoint_display_prefix). rewrite skipn_app_exact.
  change hash_display_backward_Txid with true. change outpoint_display_sep with [colon]. cbn [app].
  rewrite parse_print_btc_outpoint by assumption. now destruct o. Qed.

(* ---------- sighash tables ---------- *)
Definition resN_eqb (a b : res N) : bool := match a, b with Ok x, Ok y => x =? y | _, _ => false end.
Lemma resN_eqb_ok a v : resN_eqb a (Ok v) = true -> a = Ok v.
Proof. destruct a as [x|e]; cbn; [|discriminate]. intros E. apply N.eqb_eq in E. now subst. Qed.
Lemma is_variant_in variants v : is_variant variants v = true -> In v (map snd variants).
Proof. unfold is_variant. induction variants as [|[k v'] l IH]; cbn; [discriminate|].
  destruct (N.eqb_spec v v'); [left; congruence|]. intros H. right. now apply IH. Qed.
Lemma assocN_in {B} k (l : list (N * B)) x : assocN k l = Some x -> In k (map fst l).
Proof. induction l as [|[k' v] l IH]; cbn; [discriminate|]. destruct (N.eqb_spec k k'); [left; congruence|]. intros H. right. now apply IH. Qed.

Lemma ecdsa_table_roundtrip : forallb (fun v => resN_eqb (parse_ecdsa_sighash (print_ecdsa_sighash v)) (Ok v)) (map snd ecdsa_sighash_variants) = true.
Proof. vm_compute. reflexivity. Qed.
Lemma schnorr_table_roundtrip : forallb (fun v => resN_eqb (parse_schnorr_sighash (print_schnorr_sighash v)) (Ok v)) (map snd schnorr_sighash_variants) = true.
Proof. vm_compute. reflexivity. Qed.
Lemma parse_print_ecdsa v : is_variant ecdsa_sighash_variants v = true -> parse_ecdsa_sighash (print_ecdsa_sighash v) = Ok v.
Proof. intros H. apply resN_eqb_ok. pose proof ecdsa_table_roundtrip as T. rewrite forallb_forall in T. apply T. now apply is_variant_in. Qed.
Lemma parse_print_schnorr v : is_variant schnorr_sighash_variants v = true -> parse_schnorr_sighash (print_schnorr_sighash v) = Ok v.
Proof. intros H. apply resN_eqb_ok. pose proof schnorr_table_roundtrip as T. rewrite forallb_forall in T. apply T. now apply is_variant_in. Qed.

(* PsbtSighashType: named values by the table, everything else through "0x" + minimal lower-case hex *)
Lemma psbt_named_roundtrip : forallb (fun v => resN_eqb (parse_psbt_sighash (print_psbt_sighash v)) (Ok v)) (map fst schnorr_sighash_from_u8) = true.
Proof. vm_compute. reflexivity. Qed.
Lemma schnorr_keys_not_0 : forallb (fun kv => match fst kv with c :: _ => negb (byte_eqb c x30) | [] => true end) schnorr_sighash_fromstr = true.
Proof. vm_compute. reflexivity. Qed.
Lemma assoc_head_none {B} (tbl : list (bytes * B)) s :
  forallb (fun kv => match fst kv with c :: _ => negb (byte_eqb c x30) | [] => true end) tbl = true -> assoc (x30 :: s) tbl = None.
Proof. induction tbl as [|[k v] l IH]; [reflexivity|]. cbn [forallb fst]. intros H. apply andb_prop in H as [Hk Hl].
  cbn [assoc]. destruct k as [|c k]; [cbn; now apply IH|]. cbn [bytes_eqb].
  destruct (byte_eqb_spec x30 c) as [<-|]; [cbn in Hk; discriminate|]. cbn. now apply IH. Qed.

Lemma trim_strip f a p s : trim_start_matches (S f) (a :: p) ((a :: p) ++ s) = trim_start_matches f (a :: p) s.
Proof. cbn [trim_start_matches]. rewrite starts_with_app. now rewrite skipn_app_exact. Qed.
Lemma trim_stop f a p s : starts_with (a :: p) s = false -> trim_start_matches (S f) (a :: p) s = s.
Proof. intros H. cbn [trim_start_matches]. now rewrite H. Qed.
Lemma byte_eqb_sym a b : byte_eqb a b = byte_eqb b a.
Proof. destruct (byte_eqb_spec a b), (byte_eqb_spec b a); congruence. Qed.

Lemma parse_print_psbt_hex v : v < u32_bound -> parse_psbt_sighash ("0x"%lb ++ print_radix 16 v) = Ok v.
Proof. intros Hv. unfold parse_psbt_sighash. change (unlit "0x"%lb) with [x30; x78]. cbn [app].
  rewrite (assoc_head_none _ _ schnorr_keys_not_0).
  change psbt_sighash_prefix with [x30; x78]. change psbt_sighash_radix with 16.
  destruct (print_radix_head 16 ltac:(lia) ltac:(lia) v) as (d & l & Hd & Hnz & Hz & E).
  assert (T : trim_start_matches (length (x30 :: x78 :: print_radix 16 v)) [x30; x78] (x30 :: x78 :: print_radix 16 v) = print_radix 16 v).
  { rewrite E. cbn [length]. change (x30 :: x78 :: hexdigit d :: l) with ([x30; x78] ++ hexdigit d :: l).
    rewrite trim_strip. apply trim_stop. cbn [starts_with].
    destruct l as [|c l]; [now rewrite andb_false_r|].
    assert (v <> 0) by (intros Z; specialize (Hz Z); discriminate).
    rewrite byte_eqb_sym. fold zero_ch. now rewrite (hexdigit_zero d ltac:(lia) (Hnz H)). }
  rewrite T. rewrite parse_print_radix by (try lia; exact Hv). reflexivity. Qed.

Lemma parse_print_psbt v : v < u32_bound -> parse_psbt_sighash (print_psbt_sighash v) = Ok v.
Proof. intros Hv. destruct (psbt_schnorr_name v) as [name|] eqn:E.
  - apply resN_eqb_ok. pose proof psbt_named_roundtrip as T. rewrite forallb_forall in T. apply T.
    unfold psbt_schnorr_name in E. destruct (psbt_sighash_u8_max <? v); [discriminate|]. now apply assocN_in in E.
  - unfold print_psbt_sighash. rewrite E. now apply parse_print_psbt_hex. Qed.
