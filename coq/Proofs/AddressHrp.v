(* C17, the human-readable-part clause for replacements other than a change of letter case: what becomes of a valid segwit address when its
   HRP is replaced by another string of the same length.
   (1) the new prefix is no built-in HRP: every parser takes the base58check branch; the string is rejected unless it is a valid
       base58check address for the hash (explicit residual; impossible when any character — e.g. a `0` or `l` of the data part — is
       outside the base58 alphabet);
   (2) the new prefix is another built-in HRP of the same checksum family (ert <-> tex, lq <-> el): rejected, by a kernel sweep showing
       that the difference of the two HRP-expansion residues is never annihilated by feeding up to 1023 further symbols;
   (3) the new prefix is a built-in HRP of the other family (ex <-> lq, el; tex <-> tlq): rejected unless the same symbols are a codeword
       of both families (explicit residual, narrowed by length arithmetic to program lengths 40 <-> 3). *)
From Coq Require Import List NArith ZArith Bool Lia ZifyN ZifyBool ZifyNat.
From Coq.Strings Require Import Byte.
From EV Require Import Base.Bytes Gen.Tables Model.Bech32 Model.Base58 Model.Address Proofs.Bech32 Proofs.Bech32Codes Proofs.Bech32Enc Proofs.Address
  Proofs.AddressRT Proofs.Numeral Proofs.AddressB58 Proofs.AddressCanon.
Ltac Zify.zify_post_hook ::= Z.div_mod_to_equations.
Import ListNotations.
Open Scope N_scope.
Set Default Timeout 30.

(* ---------------------------------------------------------------- small facts *)
Lemma eq_lower_sym a : forall b, eq_lower a b = eq_lower b a.
Proof. induction a as [|x a IH]; intros [|y b]; cbn [eq_lower]; try reflexivity. rewrite IH. f_equal.
  destruct (byte_eqb_spec (to_lower x) (to_lower y)), (byte_eqb_spec (to_lower y) (to_lower x)); congruence. Qed.
Lemma eq_lower_length a : forall b, eq_lower a b = true -> length a = length b.
Proof. induction a as [|x a IH]; intros [|y b] E; try discriminate E; [reflexivity|]. cbn [eq_lower] in E. apply andb_true_iff in E as [_ E].
  cbn [length]. f_equal. now apply IH. Qed.

Lemma b58_decode_chars s r : b58_decode s = Ok58 r -> forall c, In c s -> b58_digit c <> None.
Proof. unfold b58_decode. destruct (all_some (map b58_digit s)) as [ds|] eqn:AS; [|discriminate]. intros _. apply all_some_map_inv in AS.
  induction AS as [|x d s' ds' F _ IH]; intros c I; [contradiction|]. destruct I as [<-|I]; [congruence|now apply IH]. Qed.

(* ---------------------------------------------------------------- two built-in HRPs, one code: the sweep *)
Definition all_hrps : list bytes := flat_map (fun p => [p_bech p; p_blech p]) builtin.
(* ordered pairs of different built-in HRPs of the same length — the ones reachable from each other by replacing characters *)
Definition hrp_pairs : list (bytes * bytes) :=
  filter (fun hh => Nat.eqb (length (fst hh)) (length (snd hh)) && negb (bytes_eqb (fst hh) (snd hh))) (list_prod all_hrps all_hrps).
Definition L_hrp : nat := 1023.
(* D = residue after h1's expansion xor residue after h2's expansion; feeding n more symbols to both leaves the difference Z^n(D) *)
Definition pair_ok (c : code) (h1 h2 : bytes) : bool :=
  negb (existsb (N.eqb 0) (orbit (c_gen c) (shift_of c) (S L_hrp) (N.lxor (residue c (hrp_expand h1)) (residue c (hrp_expand h2))))).
Lemma hrp_pairs_ok : forallb (fun c => forallb (fun hh => pair_ok c (fst hh) (snd hh)) hrp_pairs) the_codes = true.
Proof. vm_compute. reflexivity. Qed.

Lemma hrp_pair_in p p' bl bl' : In p builtin -> In p' builtin -> length (hrp_of p bl) = length (hrp_of p' bl') -> hrp_of p bl <> hrp_of p' bl' ->
  In (hrp_of p bl, hrp_of p' bl') hrp_pairs.
Proof. intros I I' L NE. unfold hrp_pairs. apply filter_In. split.
  - apply in_prod; unfold all_hrps; apply in_flat_map; [exists p|exists p']; (split; [assumption|]); [destruct bl|destruct bl']; cbn; tauto.
  - cbn [fst snd]. rewrite L, Nat.eqb_refl. destruct (bytes_eqb_spec (hrp_of p bl) (hrp_of p' bl')); [contradiction|reflexivity]. Qed.

(* the same symbols cannot be a codeword behind two different built-in HRPs of the same length (any of the four codes, <= 1023 symbols) *)
Lemma hrp_swap_invalid c h1 h2 w : In c the_codes -> In (h1, h2) hrp_pairs -> sym_word w -> (length w <= L_hrp)%nat ->
  valid_codeword c (hrp_expand h1 ++ w) = true -> valid_codeword c (hrp_expand h2 ++ w) = false.
Proof. intros Ic Ip Sw Lw V1. destruct (valid_codeword c (hrp_expand h2 ++ w)) eqn:V2; [exfalso|reflexivity].
  pose proof (proj1 (forallb_forall _ _) (proj1 (forallb_forall _ _) hrp_pairs_ok c Ic) (h1, h2) Ip) as OK. cbn [fst snd] in OK.
  unfold pair_ok in OK. apply negb_true_iff in OK. apply existsb_eqb_false in OK. apply OK. clear OK.
  unfold valid_codeword in V1, V2. apply N.eqb_eq in V1, V2.
  set (gen := c_gen c) in *. set (sh := shift_of c) in *. set (s1 := residue c (hrp_expand h1)) in *. set (s2 := residue c (hrp_expand h2)) in *.
  assert (R1 : residue c (hrp_expand h1 ++ w) = feedg gen sh s1 w) by (unfold residue, feed, feedg, s1, cstep; now rewrite fold_left_app).
  assert (R2 : residue c (hrp_expand h2 ++ w) = feedg gen sh s2 w) by (unfold residue, feed, feedg, s2, cstep; now rewrite fold_left_app).
  rewrite R1 in V1. rewrite R2 in V2. rewrite (feed_split gen sh w s1 Sw) in V1. rewrite (feed_split gen sh w s2 Sw) in V2.
  assert (E : Zp gen sh (length w) s1 = Zp gen sh (length w) s2).
  { rewrite <- V2 in V1. rewrite (N.lxor_comm (Zp gen sh (length w) s1)), (N.lxor_comm (Zp gen sh (length w) s2)) in V1. exact (lxor_cancel _ _ _ V1). }
  assert (Z : Zp gen sh (length w) (N.lxor s1 s2) = 0) by (rewrite Zp_lin, E; apply N.lxor_nilpotent).
  rewrite orbit_map. apply in_map_iff. exists (length w). split; [exact Z|]. apply in_seq. unfold L_hrp in *. lia. Qed.

(* ---------------------------------------------------------------- the edit relation and the residual cases *)
(* s' is s with the human-readable part (everything before the last '1') replaced by an equally long string that is not a mere
   re-casing of it (those are the subject of C17_hrp_case / C17_mixed_case); any number of characters may differ, the separator
   character may occur in the replacement *)
Definition hrp_edit (s s' : bytes) : Prop :=
  exists h h' d, rsplit x31 s = Some (h, d) /\ s' = h' ++ x31 :: d /\ length h' = length h /\ eq_lower h h' = false.

Definition prog_len (a : address) : nat := match a_payload a with WitnessProgram _ prog => length prog | PubkeyHash h | ScriptHash h => length h end.

Section Hrp.
Variable H : bytes -> bytes. Variable pkv : bytes -> bool.

(* residual 1: no built-in HRP matches the new prefix and the whole string — data part and checksum characters of the segwit address
   included — consists of base58 characters and is a valid base58check address of a built-in network for the hash H *)
Definition hrp_residual_base58 (s' : bytes) : Prop :=
  (forall p' bl', In p' builtin -> match_prefix (find_prefix s') (hrp_of p' bl') = false) /\
  (forall c, In c s' -> b58_digit c <> None) /\
  exists data p' a', In p' builtin /\ b58_decode_check H s' = Ok58 data /\ from_base58 pkv data p' = AOk a'.
(* residual 2: the new prefix is the HRP of the other checksum family of a built-in network and the same symbols are a valid address
   there (a bech32(m) codeword behind the old HRP and a blech32(m) codeword behind the new one, or the other way round); lengths force
   an unblinded 40-byte program to be re-read as blinding key + 3-byte program, or the reverse *)
Definition hrp_residual_cross (a : address) (s' : bytes) : Prop :=
  exists p' bl' a', In p' builtin /\ match_prefix (find_prefix s') (hrp_of p' bl') = true /\ from_bech32 pkv s' bl' p' = AOk a' /\
    ((a_blinder a = None /\ bl' = true /\ prog_len a = 40%nat /\ prog_len a' = 3%nat) \/
     (a_blinder a <> None /\ bl' = false /\ prog_len a = 3%nat /\ prog_len a' = 40%nat)).
Definition all_rejected (s' : bytes) : Prop :=
  (exists e, from_str H pkv s' = AErr e) /\ forall p', In p' builtin -> exists e, parse_with_params H pkv s' p' = AErr e.

Lemma from_str_b58_inv data x nets a : from_str_b58 pkv data x nets = AOk a -> exists p, In p nets /\ from_base58 pkv data p = AOk a.
Proof. induction nets as [|net r IH]; intros E; [discriminate|]. cbn [from_str_b58] in E. destruct (_ || _).
  - exists net. split; [now left|exact E]. - destruct (IH E) as (p & I & F). exists p. split; [now right|exact F]. Qed.

(* what a successful from_bech32 says about lengths *)
Lemma validate_padding_len body : validate_padding body = Ok tt -> ((length body * 5) mod 8 <= 4)%nat.
Proof. unfold validate_padding. destruct body as [|x xs]; [cbn; lia|]. destruct (Nat.ltb_spec 4 ((length (x :: xs) * 5) mod 8)); [discriminate|]. intros _. lia. Qed.
Lemma from_bech32_lengths s bl p a : from_bech32 pkv s bl p = AOk a ->
  exists h d w v prog (nbody : nat), rsplit x31 s = Some (h, d) /\ syms_of d = Some w /\ a_payload a = WitnessProgram v prog /\ hd 0 w = v /\
    match a_blinder a with Some _ => bl = true | None => bl = false end /\
    segwit_decode (if bl then cfg_blech else cfg_bech) s = Ok (v, (match a_blinder a with Some b => b | None => [] end) ++ prog) /\
    length w = (1 + nbody + (if bl then 12 else 6))%nat /\ ((nbody * 5) mod 8 <= 4)%nat /\
    (nbody * 5 / 8 = (if bl then 33 else 0) + length prog)%nat /\ (2 <= length prog <= 40)%nat.
Proof. unfold from_bech32. intros E. destruct bl.
  - destruct (segwit_decode cfg_blech s) as [[v data]|] eqn:D; [|discriminate]. destruct (Nat.ltb_spec (length data) 33) as [|L33]; [discriminate|].
    assert (LSK : length (skipn 33 data) = (length data - 33)%nat) by apply skipn_length.
    assert (FS : firstn 33 data ++ skipn 33 data = data) by apply firstn_skipn.
    remember (firstn 33 data) as pk eqn:Epk. remember (skipn 33 data) as prog eqn:Eprog. clear Epk Eprog.
    destruct (pkv pk); [|discriminate]. destruct (prog_len_bad prog) eqn:PL; [discriminate|]. apply prog_len_ok in PL. injection E as <-.
    destruct (segwit_decode_inv _ _ _ _ D) as (h & d & w & rest & body & R & P & S & -> & LV & VC & _ & F & VP & VW & Ed).
    assert (CL : c_len (code_for cfg_blech v) = 12%nat) by (unfold code_for; destruct (v =? 0); vm_compute; reflexivity).
    apply validate_checksum_ok in VC as [LC _]; [|rewrite CL; discriminate]. rewrite CL in *.
    apply (f_equal (@length N)) in F. rewrite firstn_length in F. cbn [length] in F, LC.
    exists h, d, (v :: rest), v, prog, (length body). cbn [a_payload a_blinder hd]. rewrite FS. repeat split; try assumption; try reflexivity; try lia.
    + cbn [length]. lia. + now apply validate_padding_len. + rewrite <- fes_to_bytes_length, <- Ed. lia.
  - destruct (segwit_decode cfg_bech s) as [[v data]|] eqn:D; [|discriminate]. destruct (prog_len_bad data) eqn:PL; [discriminate|]. apply prog_len_ok in PL.
    injection E as <-. destruct (segwit_decode_inv _ _ _ _ D) as (h & d & w & rest & body & R & P & S & -> & LV & VC & _ & F & VP & VW & Ed).
    assert (CL : c_len (code_for cfg_bech v) = 6%nat) by (unfold code_for; destruct (v =? 0); reflexivity).
    apply validate_checksum_ok in VC as [LC _]; [|rewrite CL; discriminate]. rewrite CL in *.
    apply (f_equal (@length N)) in F. rewrite firstn_length in F. cbn [length] in F, LC.
    exists h, d, (v :: rest), v, data, (length body). cbn [a_payload a_blinder hd app]. repeat split; try assumption; try reflexivity; try lia.
    + cbn [length]. lia. + now apply validate_padding_len. + rewrite <- fes_to_bytes_length, <- Ed. lia. Qed.

(* same family: the decoder accepted s behind h; behind another built-in HRP of the same family and length it rejects the same data *)
Lemma same_family_rejected bl s s' h h' d p p' r r' : In p builtin -> In p' builtin ->
  rsplit x31 s = Some (h, d) -> rsplit x31 s' = Some (h', d) -> length h' = length h -> eq_lower h h' = false ->
  eq_lower (hrp_of p bl) h = true -> eq_lower (hrp_of p' bl) h' = true ->
  segwit_decode (if bl then cfg_blech else cfg_bech) s = Ok r -> segwit_decode (if bl then cfg_blech else cfg_bech) s' = Ok r' -> False.
Proof. intros Ip Ip' R R' LH NE M M' D D'. set (cfg := if bl then cfg_blech else cfg_bech) in *. destruct r as [v data], r' as [v' data'].
  destruct (segwit_decode_inv _ _ _ _ D) as (h0 & d0 & w & rest & body & R0 & _ & S & -> & _ & VC & _).
  rewrite R in R0. apply Some_inj in R0. injection R0 as <- <-.
  destruct (segwit_decode_inv _ _ _ _ D') as (h1 & d1 & w' & rest' & body' & R1 & _ & S' & -> & _ & VC' & _).
  rewrite R' in R1. apply Some_inj in R1. injection R1 as <- <-. rewrite S in S'. apply Some_inj in S'. injection S' as <- <-.
  assert (Ic : In (code_for cfg v) the_codes).
  { unfold code_for, cfg. destruct bl; [change (sw_code_v0 cfg_blech) with blech32; change (sw_code_v1 cfg_blech) with blech32m|cbn [sw_code_v0 sw_code_v1 cfg_bech]];
      destruct (v =? 0); cbn; tauto. }
  assert (NZ : c_len (code_for cfg v) <> 0%nat) by (cbn in Ic; destruct Ic as [<-|[<-|[<-|[<-|[]]]]]; vm_compute; discriminate).
  apply validate_checksum_ok in VC as [_ V]; [|exact NZ]. apply validate_checksum_ok in VC' as [_ V']; [|exact NZ].
  destruct (syms_of_spec _ _ S) as (Sw & LW & _).
  assert (LB : (length (v :: rest) <= L_hrp)%nat).
  { rewrite LW. unfold cfg in D. destruct bl; [pose proof (bound_blech _ _ _ _ D R) as B; unfold L_switch_blech in B|pose proof (bound_bech _ _ _ _ D R) as B; unfold L_switch_bech in B];
      unfold L_hrp; lia. }
  rewrite <- (hrp_expand_eq_lower _ _ M) in V. rewrite <- (hrp_expand_eq_lower _ _ M') in V'.
  assert (IP : In (hrp_of p bl, hrp_of p' bl) hrp_pairs).
  { apply hrp_pair_in; try assumption.
    - rewrite (eq_lower_length _ _ M), (eq_lower_length _ _ M'). now symmetry.
    - intros EQ. rewrite <- EQ in M'. rewrite eq_lower_sym in M, M'. rewrite (eq_lower_trans_r _ _ _ M M') in NE. discriminate. }
  rewrite (hrp_swap_invalid _ _ _ _ Ic IP Sw LB V) in V'. discriminate. Qed.

(* other family: only program lengths 40 (unblinded) <-> 3 (blinded) survive the length rules of both decoders *)
Lemma cross_family_lengths bl s s' h h' d p p' a a' :
  rsplit x31 s = Some (h, d) -> rsplit x31 s' = Some (h', d) ->
  from_bech32 pkv s bl p = AOk a -> from_bech32 pkv s' (negb bl) p' = AOk a' ->
  (a_blinder a = None /\ negb bl = true /\ prog_len a = 40%nat /\ prog_len a' = 3%nat) \/
  (a_blinder a <> None /\ negb bl = false /\ prog_len a = 3%nat /\ prog_len a' = 40%nat).
Proof. intros R R' F F'.
  destruct (from_bech32_lengths _ _ _ _ F) as (h0 & d0 & w & v & prog & nb & R0 & S & EP & _ & BL & _ & LW & PD & LD & LP).
  destruct (from_bech32_lengths _ _ _ _ F') as (h1 & d1 & w' & v' & prog' & nb' & R1 & S' & EP' & _ & BL' & _ & LW' & PD' & LD' & LP').
  rewrite R in R0. apply Some_inj in R0. injection R0 as <- <-. rewrite R' in R1. apply Some_inj in R1. injection R1 as <- <-.
  rewrite S in S'. apply Some_inj in S'. subst w'. unfold prog_len. rewrite EP, EP'.
  destruct bl; cbn [negb] in *.
  - right. destruct (a_blinder a); [|discriminate BL]. split; [discriminate|]. split; [reflexivity|]. lia.
  - left. destruct (a_blinder a); [discriminate BL|]. split; [reflexivity|]. split; [reflexivity|]. lia. Qed.

(* C17_hrp *)
Theorem hrp_replaced p s a s' : In p builtin -> parse_with_params H pkv s p = AOk a -> is_segwit a -> hrp_edit s s' ->
  all_rejected s' \/ hrp_residual_base58 s' \/ hrp_residual_cross a s'.
Proof. intros Ip E SW (h & h' & d & R & Es' & LH & NE). destruct (rsplit_spec _ _ _ _ R) as [Es ND].
  assert (R' : rsplit x31 s' = Some (h', d)) by (rewrite Es'; now apply rsplit_app).
  assert (FP : find_prefix s = h) by (unfold find_prefix; now rewrite R).
  assert (FP' : find_prefix s' = h') by (unfold find_prefix; now rewrite R').
  (* s is read as a segwit string by p *)
  assert (X : exists bl, match_prefix h (hrp_of p bl) = true /\ from_bech32 pkv s bl p = AOk a).
  { unfold parse_with_params in E. rewrite FP in E. destruct (match_prefix h (p_bech p)) eqn:MB, (match_prefix h (p_blech p)) eqn:ML; cbn [orb] in E.
    - exists true. auto. - exists false. auto. - exists true. auto.
    - exfalso. destruct (too_long_for_base58 s); [discriminate|]. destruct (b58_decode_check H s) as [data|]; [|discriminate].
      exact (from_base58_not_segwit _ _ _ _ E SW). }
  destruct X as (bl & M & FB). unfold match_prefix in M.
  (* does the new prefix match a built-in HRP? *)
  destruct (find (fun pb => match_prefix h' (hrp_of (fst pb) (snd pb))) (list_prod builtin [false; true])) as [[p' bl']|] eqn:FD.
  - (* yes: (p', bl') *)
    apply find_some in FD as [IPB M']. cbn [fst snd] in M'. apply in_prod_iff in IPB as [Ip' _].
    assert (UNIQ : forall q blq, In q builtin -> match_prefix h' (hrp_of q blq) = true -> q = p' /\ blq = bl').
    { intros q blq Iq Mq. unfold match_prefix in Mq, M'. apply (builtin_hrps_distinct q p' blq bl' Iq Ip'). exact (eq_lower_trans_r _ _ _ Mq M'). }
    assert (BLP : match_prefix h' (p_blech p') = bl').
    { destruct bl'; [exact M'|]. destruct (match_prefix h' (p_blech p')) eqn:ML; [|reflexivity]. destruct (UNIQ p' true Ip' ML) as [_ X]. discriminate X. }
    assert (OWN : parse_with_params H pkv s' p' = from_bech32 pkv s' bl' p').
    { unfold parse_with_params. rewrite FP', BLP. destruct bl'; [rewrite orb_true_r; reflexivity|]. cbn [hrp_of] in M'. rewrite M'. reflexivity. }
    assert (FS : from_str H pkv s' = from_bech32 pkv s' bl' p').
    { unfold from_str. rewrite FP'. now rewrite (from_str_bech_first pkv s' h' p' bl' builtin UNIQ Ip' M'). }
    assert (OTHER : forall q, In q builtin -> q <> p' -> exists e, parse_with_params H pkv s' q = AErr e).
    { intros q Iq NQ. destruct (parse_with_params H pkv s' q) as [aq|e] eqn:EQ; [exfalso|eauto]. unfold parse_with_params in EQ. rewrite FP' in EQ.
      destruct (match_prefix h' (p_bech q)) eqn:MB; [destruct (UNIQ q false Iq MB); contradiction|].
      destruct (match_prefix h' (p_blech q)) eqn:ML; [destruct (UNIQ q true Iq ML); contradiction|]. cbn [orb] in EQ.
      destruct (too_long_for_base58 s'); [discriminate|]. destruct (b58_decode_check H s') as [data|] eqn:DC; [|discriminate].
      destruct (b58_accept_not_segwit H pkv s' data q aq p' Iq Ip' DC EQ) as [A B]. rewrite FP' in A, B. destruct bl'; cbn [hrp_of] in M'; congruence. }
    destruct (from_bech32 pkv s' bl' p') as [a'|e'] eqn:FB'.
    + (* accepted behind the new HRP: impossible in the same family, residual 2 across families *)
      destruct (Bool.bool_dec bl' bl) as [->|NB].
      * exfalso. unfold from_bech32 in FB, FB'. unfold match_prefix in M'.
        destruct bl.
        -- destruct (segwit_decode cfg_blech s) as [r|] eqn:D; [|discriminate]. destruct (segwit_decode cfg_blech s') as [r'|] eqn:D'; [|discriminate].
           exact (same_family_rejected true s s' h h' d p p' r r' Ip Ip' R R' LH NE M M' D D').
        -- destruct (segwit_decode cfg_bech s) as [r|] eqn:D; [|discriminate]. destruct (segwit_decode cfg_bech s') as [r'|] eqn:D'; [|discriminate].
           exact (same_family_rejected false s s' h h' d p p' r r' Ip Ip' R R' LH NE M M' D D').
      * right. right. clear BLP. assert (EB : bl' = negb bl) by (destruct bl, bl'; try reflexivity; contradiction). subst bl'.
        exists p', (negb bl), a'. rewrite FP'. split; [exact Ip'|]. split; [exact M'|]. split; [exact FB'|].
        exact (cross_family_lengths bl s s' h h' d p p' a a' R R' FB FB').
    + left. split; [rewrite FS; eauto|]. intros q Iq. destruct (bytes_eqb_spec (p_bech q) (p_bech p')) as [EQ|NQ].
      * assert (q = p').
        { assert (MQ : match_prefix h' (hrp_of q false) = match_prefix h' (hrp_of p' false)) by (cbn [hrp_of]; now rewrite EQ).
          destruct (builtin_hrps_distinct q p' false false Iq Ip') as [X _]; [cbn [hrp_of]; rewrite EQ; clear; induction (p_bech p') as [|b r IH]; [reflexivity|cbn [eq_lower]; now rewrite byte_eqb_refl, IH]|exact X]. }
        subst q. rewrite OWN. eauto.
      * apply OTHER; [exact Iq|]. intros ->. contradiction.
  - (* no: every parser takes the base58check branch *)
    assert (NM : forall q blq, In q builtin -> match_prefix h' (hrp_of q blq) = false).
    { intros q blq Iq. apply (find_none _ _ FD (q, blq)). apply in_prod; [exact Iq|destruct blq; cbn; tauto]. }
    assert (NM2 : forall q, In q builtin -> match_prefix h' (p_bech q) = false /\ match_prefix h' (p_blech q) = false)
      by (intros q Iq; split; [exact (NM q false Iq)|exact (NM q true Iq)]).
    assert (PW : forall q, In q builtin -> parse_with_params H pkv s' q =
              if too_long_for_base58 s' then AErr AInvalidLength else match b58_decode_check H s' with Err58 e => AErr (ABase58 e) | Ok58 data => from_base58 pkv data q end).
    { intros q Iq. unfold parse_with_params. rewrite FP'. destruct (NM2 q Iq) as [-> ->]. reflexivity. }
    assert (FS : from_str H pkv s' = if too_long_for_base58 s' then AErr AInvalidLength else match b58_decode_check H s' with
              | Err58 e => AErr (ABase58 e) | Ok58 [] => AErr AInvalidLength | Ok58 ((p0 :: _) as data) => from_str_b58 pkv data (b2n p0) builtin end).
    { unfold from_str. rewrite FP'. now rewrite (from_str_bech_none_intro pkv s' h' builtin NM2). }
    destruct (too_long_for_base58 s') eqn:TL.
    { left. split; [rewrite FS; eauto|]. intros q Iq. rewrite (PW q Iq). eauto. }
    destruct (b58_decode_check H s') as [data|e] eqn:DC.
    2:{ left. split; [rewrite FS; eauto|]. intros q Iq. rewrite (PW q Iq). eauto. }
    (* decodes: is it accepted by some built-in network? *)
    assert (DEC : (exists q aq, In q builtin /\ from_base58 pkv data q = AOk aq) \/ (forall q, In q builtin -> exists e, from_base58 pkv data q = AErr e)).
    { assert (G : forall nets, (exists q aq, In q nets /\ from_base58 pkv data q = AOk aq) \/ (forall q, In q nets -> exists e, from_base58 pkv data q = AErr e)).
      { induction nets as [|net r IH]; [right; intros q []|]. destruct (from_base58 pkv data net) as [aq|e] eqn:F.
        - left. exists net, aq. split; [now left|exact F].
        - destruct IH as [(q & aq & Iq & Fq)|IH]; [left; exists q, aq; split; [now right|exact Fq]|]. right. intros q [<-|Iq]; [eauto|now apply IH]. }
      apply G. }
    destruct DEC as [(q & aq & Iq & Fq)|ALL].
    + right. left. split; [rewrite FP'; exact NM|]. split.
      * destruct (b58_check_inv H _ _ DC) as (ck & _ & _ & D0). exact (b58_decode_chars _ _ D0).
      * exists data, q, aq. auto.
    + left. split.
      * rewrite FS. destruct data as [|p0 rest]; [eauto|]. destruct (from_str_b58 pkv (p0 :: rest) (b2n p0) builtin) as [af|e] eqn:FF; [exfalso|eauto].
        destruct (from_str_b58_inv _ _ _ _ FF) as (q & Iq & Fq). destruct (ALL q Iq) as [e Ee]. congruence.
      * intros q Iq. rewrite (PW q Iq). destruct (ALL q Iq) as [e ->]. eauto. Qed.

(* the residuals vanish under simple conditions *)
Lemma residual_base58_needs_alphabet s' : (exists c, In c s' /\ b58_digit c = None) -> ~ hrp_residual_base58 s'.
Proof. intros (c & Ic & Nc) (_ & A & _). exact (A c Ic Nc). Qed.
Lemma residual_cross_needs_lengths a s' : prog_len a <> 40%nat -> prog_len a <> 3%nat -> ~ hrp_residual_cross a s'.
Proof. intros N40 N3 (p' & bl' & a' & _ & _ & _ & [(_ & _ & L & _)|(_ & _ & L & _)]); contradiction. Qed.

(* the common case: the data part contains a character outside the base58 alphabet (`0` and `l` are the two bech32 characters that are;
   in upper case `0`), and the witness program is not 3 or 40 bytes long (all standard forms: 20 and 32) — rejected by every parser *)
Theorem hrp_replaced_common p s a s' : In p builtin -> parse_with_params H pkv s p = AOk a -> is_segwit a -> hrp_edit s s' ->
  (exists c, In c s' /\ b58_digit c = None) -> prog_len a <> 40%nat -> prog_len a <> 3%nat -> all_rejected s'.
Proof. intros Ip E SW ED NB N40 N3. destruct (hrp_replaced p s a s' Ip E SW ED) as [A|[B|C]]; [exact A|exfalso|exfalso].
  - exact (residual_base58_needs_alphabet s' NB B). - exact (residual_cross_needs_lengths a s' N40 N3 C). Qed.
End Hrp.
