(* Proofs for C14 (merge).  Statements are generic in the policy table wherever possible; the facts about the table that
   the Rust source currently produces are checked by computation on Gen/Tables.v at the end. *)
From Coq Require Import List NArith Bool Lia Arith.
From Coq.Strings Require Import Byte.
From EV Require Import Base.Bytes Gen.Tables Model.PsetMap Model.PsetMerge Proofs.PsetMap.
Import ListNotations.

(* ================================================================ xpub key-source reconciliation *)
Lemma path_eqb_eq a : forall b, path_eqb a b = true <-> a = b.
Proof.
  induction a as [|x a IH]; intros [|y b]; cbn [path_eqb]; try (split; congruence).
  rewrite andb_true_iff, bytes_eqb_eq, IH. split; [intros [-> ->]; reflexivity|intros [= -> ->]; auto].
Qed.
Lemma path_eqb_refl a : path_eqb a a = true. Proof. now apply path_eqb_eq. Qed.
Lemma path_eqb_sym a b : path_eqb a b = path_eqb b a.
Proof. destruct (path_eqb a b) eqn:E, (path_eqb b a) eqn:E'; auto; [apply path_eqb_eq in E|apply path_eqb_eq in E']; subst; rewrite path_eqb_refl in *; congruence. Qed.
Lemma path_eqb_len a b : path_eqb a b = true -> length a = length b.
Proof. intros H. apply path_eqb_eq in H. now subst. Qed.

(* the two classes of key-source pairs on which the code departs from its documentation *)
Definition known_F2 (guarded : bool) (v1 v2 : bytes) : bool :=         (* F2-xpub-underflow *)
  let d1 := ks_path v1 in let d2 := ks_path v2 in
  negb guarded && Nat.ltb (length d1) (length d2) && negb (path_eqb d1 (skipn (length d2 - length d1) d2)).
Definition known_F4 (guarded : bool) (v1 v2 : bytes) : bool :=         (* F4-xpub-fingerprint-replaced *)
  negb guarded && path_eqb (ks_path v1) (ks_path v2) && negb (bytes_eqb (ks_fp v1) (ks_fp v2)).

Lemma reconcile_as_documented guarded v1 v2 :
  known_F2 guarded v1 v2 = false -> known_F4 guarded v1 v2 = false -> reconcile_with guarded v1 v2 = reconcile_doc v1 v2.
Proof.
  unfold known_F2, known_F4, reconcile_with, reconcile_doc.
  set (d1 := ks_path v1). set (d2 := ks_path v2). set (fe := bytes_eqb (ks_fp v1) (ks_fp v2)).
  destruct (path_eqb d1 d2) eqn:P.
  - (* equal paths *)
    pose proof (path_eqb_len _ _ P) as L. apply path_eqb_eq in P. rewrite <- P in *.
    rewrite Nat.ltb_irrefl, Nat.eqb_refl, Nat.sub_diag. cbn [skipn andb]. rewrite path_eqb_refl.
    destruct fe; cbn [andb negb]; [reflexivity|].
    destruct guarded; cbn [negb andb]; [reflexivity|]. intros _ H. discriminate.
  - cbn [andb].
    destruct (Nat.ltb_spec (length d1) (length d2)) as [L|L]; cbn [andb].
    + replace (Nat.eqb (length d1) (length d2)) with false by (symmetry; apply Nat.eqb_neq; lia).
      destruct (path_eqb d1 (skipn (length d2 - length d1) d2)) eqn:S; [reflexivity|].
      destruct guarded; cbn [negb andb].
      * replace (Nat.ltb (length d2) (length d1)) with false by (symmetry; apply Nat.ltb_ge; lia). reflexivity.
      * intros H. discriminate.
    + destruct (Nat.eqb_spec (length d1) (length d2)) as [E|N].
      * (* same length, different paths *)
        rewrite E, Nat.ltb_irrefl, Nat.sub_diag. cbn [skipn andb]. rewrite (path_eqb_sym d2 d1), P.
        destruct guarded; reflexivity.
      * replace (Nat.ltb (length d2) (length d1)) with true by (symmetry; apply Nat.ltb_lt; lia). cbn [andb].
        destruct guarded; reflexivity.
Qed.
Lemma reconcile_doc_no_panic v1 v2 : reconcile_doc v1 v2 <> XPanic.
Proof. unfold reconcile_doc. repeat match goal with |- context [if ?c then _ else _] => destruct c end; discriminate. Qed.
Lemma reconcile_same guarded v : reconcile_with guarded v v = XKeep.
Proof. unfold reconcile_with. now rewrite path_eqb_refl, bytes_eqb_refl. Qed.

(* ================================================================ one statement, and the table run *)
Definition apply_unk (p : merge_policy) (a b : option bytes) : option bytes :=
  match p with
  | MP_FirstWins | MP_FirstWinsClearing _ => first_wins a b
  | MP_Max => max_opt a b
  | MP_OrFlags => or_flags a b
  | _ => a
  end.
Definition cleared_of (p : merge_policy) : list field := match p with MP_FirstWinsClearing cl => cl | _ => [] end.
Definition kyd_rel (guarded : bool) (p : merge_policy) (a b c : alist) : Prop :=
  match p with
  | MP_Extend => c = al_extend a b
  | MP_VecOps ops => c = vec_merge ops a b
  | MP_Xpub => xpub_merge_with guarded a b = Val c
  | _ => c = a
  end.
Definition nodup_fields (tbl : list (field * merge_policy)) : bool :=
  (fix go (l : list (field * merge_policy)) := match l with [] => true | s :: r => negb (existsb (fun t => bytes_eqb (fst s) (fst t)) r) && go r end) tbl.

Definition memf (f : field) (l : list field) : bool := existsb (bytes_eqb f) l.
Lemma memf_app f l l' : memf f (l ++ l') = memf f l || memf f l'. Proof. apply existsb_app. Qed.

Lemma fold_clear_unk cl : forall m g, unk (fold_left (fun m g => set_unk m g None) cl m) g = if memf g cl then None else unk m g.
Proof.
  induction cl as [|h cl IH]; intros m g; cbn [fold_left memf existsb]; [reflexivity|].
  rewrite IH. cbn [set_unk unk]. fold (memf g cl). destruct (memf g cl); [now rewrite orb_true_r|]. rewrite orb_false_r. reflexivity.
Qed.
Lemma fold_clear_kyd cl : forall m g, kyd (fold_left (fun m g => set_unk m g None) cl m) g = kyd m g.
Proof. induction cl as [|h cl IH]; intros m g; cbn [fold_left]; [reflexivity|]. now rewrite IH. Qed.

Lemma step_unk_other guarded f p self other c g :
  step_with guarded (f, p) self other = Val c -> bytes_eqb g f = false -> memf g (cleared_of p) = false -> unk c g = unk self g.
Proof.
  unfold step_with. cbn [fst snd]. intros H N C.
  destruct p; cbn [cleared_of] in C; try (injection H as <-; cbn [set_unk set_kyd unk]; now rewrite ?N).
  - destruct (unk self f), (unk other f); injection H as <-; try reflexivity.
    rewrite fold_clear_unk, C. cbn [set_unk unk]. now rewrite N.
  - destruct (xpub_merge_with guarded (kyd self f) (kyd other f)); cbn [obind] in H; try discriminate. now injection H as <-.
Qed.
Lemma step_unk_same guarded f p self other c :
  step_with guarded (f, p) self other = Val c -> memf f (cleared_of p) = false -> unk c f = apply_unk p (unk self f) (unk other f).
Proof.
  unfold step_with. cbn [fst snd]. intros H C.
  destruct p; cbn [cleared_of apply_unk] in *; try (injection H as <-; cbn [set_unk set_kyd unk]; now rewrite ?bytes_eqb_refl).
  - destruct (unk self f) eqn:S, (unk other f) eqn:O; injection H as <-; cbn [first_wins]; try assumption.
    rewrite fold_clear_unk, C. cbn [set_unk unk]. now rewrite bytes_eqb_refl.
  - destruct (xpub_merge_with guarded (kyd self f) (kyd other f)); cbn [obind] in H; try discriminate. now injection H as <-.
Qed.
Lemma step_kyd_other guarded f p self other c g :
  step_with guarded (f, p) self other = Val c -> bytes_eqb g f = false -> kyd c g = kyd self g.
Proof.
  unfold step_with. cbn [fst snd]. intros H N.
  destruct p; try (injection H as <-; cbn [set_unk set_kyd kyd]; now rewrite ?N).
  - destruct (unk self f), (unk other f); injection H as <-; try reflexivity. now rewrite fold_clear_kyd.
  - destruct (xpub_merge_with guarded (kyd self f) (kyd other f)); cbn [obind] in H; try discriminate. injection H as <-.
    cbn [set_kyd kyd]. now rewrite N.
Qed.
Lemma step_kyd_same guarded f p self other c :
  step_with guarded (f, p) self other = Val c -> kyd_rel guarded p (kyd self f) (kyd other f) (kyd c f).
Proof.
  unfold step_with. cbn [fst snd]. intros H.
  destruct p; cbn [kyd_rel]; try (injection H as <-; cbn [set_unk set_kyd kyd]; now rewrite ?bytes_eqb_refl).
  - destruct (unk self f), (unk other f); injection H as <-; try reflexivity. now rewrite fold_clear_kyd.
  - destruct (xpub_merge_with guarded (kyd self f) (kyd other f)) eqn:X; cbn [obind] in H; try discriminate. injection H as <-.
    cbn [set_kyd kyd]. now rewrite bytes_eqb_refl.
Qed.

Lemma policy_of_cons_same f p r : policy_of ((f, p) :: r) f = p.
Proof. unfold policy_of. cbn [find fst snd]. now rewrite bytes_eqb_refl. Qed.
Lemma policy_of_cons_other f p r g : bytes_eqb g f = false -> policy_of ((f, p) :: r) g = policy_of r g.
Proof. unfold policy_of. cbn [find fst snd]. now intros ->. Qed.
Lemma policy_of_absent r g : existsb (fun t => bytes_eqb g (fst t)) r = false -> policy_of r g = MP_NotMerged.
Proof.
  unfold policy_of. induction r as [|[f p] r IH]; cbn [existsb find fst snd]; [reflexivity|].
  intros H. apply orb_false_iff in H as [H1 H2]. rewrite H1. auto.
Qed.
Lemma cleared_by_cons f p r : cleared_by ((f, p) :: r) = cleared_of p ++ cleared_by r.
Proof. unfold cleared_by. cbn [flat_map snd]. destruct p; reflexivity. Qed.

(* the value of every field that no statement clears is its own statement applied to the operands *)
Lemma run_steps_unk guarded tbl : forall self other c g,
  nodup_fields tbl = true -> memf g (cleared_by tbl) = false -> run_steps guarded tbl self other = Val c ->
  unk c g = apply_unk (policy_of tbl g) (unk self g) (unk other g).
Proof.
  induction tbl as [|[f p] r IH]; intros self other c g ND CL H.
  - cbn in H. injection H as <-. reflexivity.
  - cbn [run_steps] in H. destruct (step_with guarded (f, p) self other) as [s1| |] eqn:S; cbn [obind] in H; try discriminate.
    cbn [nodup_fields] in ND. apply andb_true_iff in ND as [ND1 ND]. cbn [fst] in ND1. apply negb_true_iff in ND1.
    rewrite cleared_by_cons, memf_app in CL. apply orb_false_iff in CL as [CL1 CL2].
    specialize (IH s1 other c g ND CL2 H).
    destruct (bytes_eqb g f) eqn:E.
    + apply bytes_eqb_eq in E. subst g. rewrite policy_of_cons_same. rewrite (policy_of_absent r f ND1) in IH. cbn [apply_unk] in IH.
      rewrite IH. eapply step_unk_same; eauto.
    + rewrite (policy_of_cons_other _ _ _ _ E), IH. f_equal. eapply step_unk_other; eauto.
Qed.
Lemma run_steps_kyd guarded tbl : forall self other c g,
  nodup_fields tbl = true -> run_steps guarded tbl self other = Val c ->
  kyd_rel guarded (policy_of tbl g) (kyd self g) (kyd other g) (kyd c g).
Proof.
  induction tbl as [|[f p] r IH]; intros self other c g ND H.
  - cbn in H. injection H as <-. reflexivity.
  - cbn [run_steps] in H. destruct (step_with guarded (f, p) self other) as [s1| |] eqn:S; cbn [obind] in H; try discriminate.
    cbn [nodup_fields] in ND. apply andb_true_iff in ND as [ND1 ND]. cbn [fst] in ND1. apply negb_true_iff in ND1.
    specialize (IH s1 other c g ND H).
    destruct (bytes_eqb g f) eqn:E.
    + apply bytes_eqb_eq in E. subst g. rewrite policy_of_cons_same. rewrite (policy_of_absent r f ND1) in IH. cbn [kyd_rel] in IH.
      rewrite IH. eapply step_kyd_same; eauto.
    + rewrite (policy_of_cons_other _ _ _ _ E). rewrite (step_kyd_other _ _ _ _ _ _ _ S E) in IH. exact IH.
Qed.

(* ================================================================ nothing is lost (per map) *)
Definition keeps_unk (p : merge_policy) : bool := match p with MP_FirstWins | MP_FirstWinsClearing _ | MP_Max | MP_OrFlags => true | _ => false end.
Definition is_extend (o : vec_op) : bool := match o with VO_Extend => true | _ => false end.
Definition keeps_kyd (p : merge_policy) : bool :=
  match p with MP_Extend | MP_Xpub => true | MP_VecOps ops => existsb is_extend ops | _ => false end.

(* ---- Vec fields: lookups and order after sort / dedup *)
Lemma al_find_app k a b : al_find k (a ++ b) = match al_find k a with Some v => Some v | None => al_find k b end.
Proof. induction a as [|[k' v'] a IH]; cbn [app al_find]; [reflexivity|]. destruct (bytes_eqb k k'); auto. Qed.
Lemma al_find_ins k k1 v1 s : al_find k (al_ins k1 v1 s) = if bytes_eqb k k1 then Some v1 else al_find k s.
Proof.
  induction s as [|[k' v'] r IH]; cbn [al_ins al_find]; [reflexivity|].
  destruct (bytes_cmp k1 k') eqn:C; cbn [al_find]; try reflexivity.
  rewrite IH. destruct (bytes_eqb_spec k k') as [->|N]; [|reflexivity].
  destruct (bytes_eqb_spec k' k1) as [->|N']; [|reflexivity]. rewrite bytes_cmp_refl in C. discriminate.
Qed.
Lemma al_find_sort k l : al_find k (al_sort l) = al_find k l.
Proof. unfold al_sort. induction l as [|[k' v'] l IH]; cbn [fold_right fst snd al_find]; [reflexivity|]. now rewrite al_find_ins, IH. Qed.
Lemma al_find_dd k : forall l p, bytes_eqb k p = false -> al_find k (al_dd p l) = al_find k l.
Proof.
  induction l as [|[k' v'] r IH]; intros p N; cbn [al_dd al_find]; [reflexivity|].
  destruct (bytes_eqb_spec k' p) as [->|N'].
  - rewrite N. apply IH, N.
  - cbn [al_find]. destruct (bytes_eqb k k') eqn:E; [reflexivity|]. apply IH, E.
Qed.
Lemma al_find_dedup k l : al_find k (al_dedup l) = al_find k l.
Proof. destruct l as [|[k' v'] r]; cbn [al_dedup al_find]; [reflexivity|]. destruct (bytes_eqb k k') eqn:E; [reflexivity|]. apply al_find_dd, E. Qed.

Definition cmp_le (a b : bytes) : bool := match bytes_cmp a b with Gt => false | _ => true end.
Lemma cmp_le_trans a b c : cmp_le a b = true -> cmp_le b c = true -> cmp_le a c = true.
Proof.
  unfold cmp_le. destruct (bytes_cmp a b) eqn:AB; try discriminate; destruct (bytes_cmp b c) eqn:BC; try discriminate; intros _ _.
  - apply bytes_cmp_eq in AB, BC. subst. now rewrite bytes_cmp_refl.
  - apply bytes_cmp_eq in AB. subst. now rewrite BC.
  - apply bytes_cmp_eq in BC. subst. now rewrite AB.
  - now rewrite (bytes_cmp_trans_lt _ _ _ AB BC).
Qed.
Fixpoint al_lbe (k : bytes) (l : alist) : bool := match l with [] => true | (k', _) :: r => cmp_le k k' && al_lbe k r end.
Fixpoint al_sle (l : alist) : bool := match l with [] => true | (k, _) :: r => al_lbe k r && al_sle r end.     (* sorted, repeats allowed *)
Lemma al_lbe_trans k k' l : cmp_le k k' = true -> al_lbe k' l = true -> al_lbe k l = true.
Proof.
  induction l as [|[k2 v2] r IH]; cbn [al_lbe]; [reflexivity|]. intros L H. apply andb_true_iff in H as [H1 H2].
  now rewrite (cmp_le_trans _ _ _ L H1), IH.
Qed.
Lemma al_lbe_ins p k v s : cmp_le p k = true -> al_lbe p s = true -> al_lbe p (al_ins k v s) = true.
Proof.
  induction s as [|[k' v'] r IH]; cbn [al_ins al_lbe]; intros L H; [now rewrite L|].
  apply andb_true_iff in H as [H1 H2]. destruct (bytes_cmp k k'); cbn [al_lbe]; rewrite ?L, ?H1, ?H2, ?IH; auto.
Qed.
Lemma al_sle_ins k v s : al_sle s = true -> al_sle (al_ins k v s) = true.
Proof.
  induction s as [|[k' v'] r IH]; cbn [al_ins al_sle]; [reflexivity|]. intros H. apply andb_true_iff in H as [H1 H2].
  destruct (bytes_cmp k k') eqn:C; cbn [al_sle al_lbe].
  - assert (cmp_le k k' = true) as L by (unfold cmp_le; now rewrite C). rewrite L, H1, H2, (al_lbe_trans _ _ _ L H1). reflexivity.
  - assert (cmp_le k k' = true) as L by (unfold cmp_le; now rewrite C). rewrite L, H1, H2, (al_lbe_trans _ _ _ L H1). reflexivity.
  - rewrite (IH H2), andb_true_r. apply al_lbe_ins; [|assumption]. unfold cmp_le. rewrite bytes_cmp_antisym, C. reflexivity.
Qed.
Lemma al_sle_sort l : al_sle (al_sort l) = true.
Proof. unfold al_sort. induction l as [|[k v] l IH]; cbn [fold_right fst snd]; [reflexivity|]. now apply al_sle_ins. Qed.
Lemma al_dd_sorted : forall l p, al_lbe p l = true -> al_sle l = true -> al_lb p (al_dd p l) = true /\ al_sorted (al_dd p l) = true.
Proof.
  induction l as [|[k v] r IH]; intros p L S; cbn [al_dd]; [split; reflexivity|].
  cbn [al_lbe al_sle] in L, S. apply andb_true_iff in L as [L1 L2]. apply andb_true_iff in S as [S1 S2].
  destruct (bytes_eqb_spec k p) as [->|N].
  - apply IH; assumption.
  - destruct (IH k S1 S2) as [I1 I2]. cbn [al_lb al_sorted].
    assert (bytes_cmp p k = Lt) as LT.
    { unfold cmp_le in L1. destruct (bytes_cmp p k) eqn:C; try discriminate; [|reflexivity]. apply bytes_cmp_eq in C. congruence. }
    rewrite LT, I1, I2. split; [|reflexivity]. eapply al_lb_trans; eauto.
Qed.
Lemma al_sorted_dedup l : al_sle l = true -> al_sorted (al_dedup l) = true.
Proof.
  destruct l as [|[k v] r]; cbn [al_dedup al_sle al_sorted]; [reflexivity|]. intros S. apply andb_true_iff in S as [S1 S2].
  destruct (al_dd_sorted r k S1 S2) as [I1 I2]. now rewrite I1, I2.
Qed.

(* the statement sequence the source has today *)
Definition canonical_vec_ops : list vec_op := [VO_Extend; VO_Sort; VO_Dedup].
Lemma vec_merge_canonical a b : vec_merge canonical_vec_ops a b = al_dedup (al_sort (a ++ b)). Proof. reflexivity. Qed.
Lemma vec_merge_sorted a b : al_sorted (vec_merge canonical_vec_ops a b) = true.
Proof. rewrite vec_merge_canonical. apply al_sorted_dedup, al_sle_sort. Qed.
Lemma vec_merge_find k a b : al_find k (vec_merge canonical_vec_ops a b) = match al_find k a with Some v => Some v | None => al_find k b end.
Proof. now rewrite vec_merge_canonical, al_find_dedup, al_find_sort, al_find_app. Qed.
(* membership after any statement sequence: nothing is lost as long as `extend` is among the statements *)
Lemma al_mem_app k a b : al_mem k (a ++ b) = al_mem k a || al_mem k b.
Proof. unfold al_mem. rewrite al_find_app. destruct (al_find k a), (al_find k b); reflexivity. Qed.
Lemma vec_merge_mem k o : forall ops v, al_mem k (fold_left (vec_step o) ops v) = al_mem k v || (existsb is_extend ops && al_mem k o).
Proof.
  induction ops as [|op ops IH]; intros v; cbn [fold_left existsb]; [now rewrite orb_false_r|].
  rewrite IH. destruct op; cbn [vec_step is_extend orb andb].
  - rewrite al_mem_app. destruct (al_mem k v), (al_mem k o), (existsb is_extend ops); reflexivity.
  - unfold al_mem at 1. rewrite al_find_sort. reflexivity.
  - unfold al_mem at 1. rewrite al_find_dedup. reflexivity.
Qed.


Lemma apply_unk_keeps p a b : keeps_unk p = true -> a <> None \/ b <> None -> apply_unk p a b <> None.
Proof. destruct p, a, b; cbn; intros K H; try discriminate; try (destruct H; congruence); try (destruct (_ <? _); discriminate). Qed.

Lemma xpub_merge_mem guarded k : forall other self c, xpub_merge_with guarded self other = Val c ->
  al_mem k self || al_mem k other = true -> al_mem k c = true.
Proof.
  induction other as [|[k1 v1] r IH]; intros self c H M; cbn [xpub_merge_with] in H.
  - injection H as <-. now rewrite orb_false_r in M.
  - assert (forall s', al_mem k s' = true \/ al_mem k r = true -> xpub_merge_with guarded s' r = Val c -> al_mem k c = true) as K.
    { intros s' [A|A] X; eapply IH; eauto; rewrite A; auto using orb_true_r. }
    unfold al_mem at 2 in M. cbn [al_find] in M. fold (al_mem k r) in M.
    assert (bytes_eqb k k1 = true \/ al_mem k self = true \/ al_mem k r = true) as M'.
    { destruct (bytes_eqb k k1); [now left|right]. now apply orb_true_iff in M. }
    clear M.
    destruct (al_find k1 self) as [v2|] eqn:F.
    + destruct (reconcile_with guarded v1 v2); try discriminate.
      * apply (K self); [|exact H]. destruct M' as [E|[M|M]]; auto.
        apply bytes_eqb_eq in E. subst k1. left. unfold al_mem. now rewrite F.
      * apply (K (al_insert k1 v1 self)); [|exact H]. rewrite al_mem_insert. destruct M' as [E|[M|M]]; rewrite ?E, ?M; auto using orb_true_r.
    + apply (K (al_insert k1 v1 self)); [|exact H]. rewrite al_mem_insert. destruct M' as [E|[M|M]]; rewrite ?E, ?M; auto using orb_true_r.
Qed.
Lemma kyd_rel_keeps guarded p a b c k : keeps_kyd p = true -> kyd_rel guarded p a b c -> al_mem k a || al_mem k b = true -> al_mem k c = true.
Proof.
  destruct p; cbn [keeps_kyd kyd_rel]; try discriminate; intros H R M.
  - subst c. now rewrite al_mem_extend.
  - subst c. unfold vec_merge. rewrite vec_merge_mem. rewrite H. cbn [andb]. exact M.
  - eapply xpub_merge_mem; eauto.
Qed.

Theorem merge_map_keeps guarded tbl a b c :
  nodup_fields tbl = true -> run_steps guarded tbl a b = Val c ->
  forall f, memf f (cleared_by tbl) = false ->
    (keeps_unk (policy_of tbl f) = true -> unk a f <> None \/ unk b f <> None -> unk c f <> None) /\
    (keeps_kyd (policy_of tbl f) = true -> forall k, al_mem k (kyd a f) || al_mem k (kyd b f) = true -> al_mem k (kyd c f) = true).
Proof.
  intros ND H f CL. split.
  - intros K P. rewrite (run_steps_unk _ _ _ _ _ _ ND CL H). now apply apply_unk_keeps.
  - intros K k M. eapply kyd_rel_keeps; eauto. eapply run_steps_kyd; eauto.
Qed.

(* ================================================================ zip *)
Lemma zip_merge_nth mm : forall xs ys cs, zip_merge mm xs ys = Val cs ->
  length cs = length xs /\
  forall i x, nth_error xs i = Some x ->
    match nth_error ys i with
    | Some y => exists c, nth_error cs i = Some c /\ mm x y = Val c
    | None => nth_error cs i = Some x
    end.
Proof.
  induction xs as [|x xs IH]; intros ys cs H.
  - destruct ys; cbn in H; injection H as <-; split; auto; intros [|i] ?; discriminate.
  - destruct ys as [|y ys]; cbn [zip_merge] in H.
    + injection H as <-. split; auto. intros i x' E. now destruct i.
    + destruct (mm x y) as [c| |] eqn:M; cbn [obind] in H; try discriminate.
      destruct (zip_merge mm xs ys) as [r| |] eqn:Z; cbn [obind] in H; try discriminate. injection H as <-.
      destruct (IH _ _ Z) as [L N]. split; [cbn; now rewrite L|].
      intros [|i] x' E; cbn [nth_error] in *.
      * injection E as <-. eauto.
      * now apply N.
Qed.

(* ================================================================ whole PSET: gate and nothing-is-lost *)
Definition tables_ok (T : tables) : bool := nodup_fields (t_global T) && nodup_fields (t_input T) && nodup_fields (t_output T).
Definition kept (tbl : list (field * merge_policy)) (a b c : pmap) : Prop :=
  forall f, memf f (cleared_by tbl) = false ->
    (keeps_unk (policy_of tbl f) = true -> unk a f <> None \/ unk b f <> None -> unk c f <> None) /\
    (keeps_kyd (policy_of tbl f) = true -> forall k, al_mem k (kyd a f) || al_mem k (kyd b f) = true -> al_mem k (kyd c f) = true).

Section WithUid.
  Context {id : Type} (id_eqb : id -> id -> bool) (uid : pset -> outcome id).

  Lemma merge_with_val T a b c : merge_with id_eqb uid T a b = Val c ->
    uid_res_eqb id_eqb (uid a) (uid b) = true /\ merge_maps_with T a b = Val c.
  Proof.
    unfold merge_with. destruct (uid a) as [x|e|s] eqn:A, (uid b) as [y|e'|s'] eqn:B; try discriminate;
    destruct (uid_res_eqb id_eqb _ _) eqn:E; try discriminate; auto.
  Qed.

  (* different unique ids are refused *)
  Lemma gate_refuses T a b x y : uid a = Val x -> uid b = Val y -> id_eqb x y = false -> merge_with id_eqb uid T a b = Fail E_UniqueIdMismatch.
  Proof. unfold merge_with. intros -> -> E. cbn [uid_res_eqb]. now rewrite E. Qed.
  Lemma gate_closed T a b : uid_res_eqb id_eqb (uid a) (uid b) = false -> forall c, merge_with id_eqb uid T a b <> Val c.
  Proof. intros E c H. apply merge_with_val in H as [H _]. congruence. Qed.

  Theorem merge_keeps_all T a b c : tables_ok T = true -> merge_with id_eqb uid T a b = Val c ->
    kept (t_global T) (pglobal a) (pglobal b) (pglobal c) /\
    (forall i x y, nth_error (pinputs a) i = Some x -> nth_error (pinputs b) i = Some y ->
        exists z, nth_error (pinputs c) i = Some z /\ kept (t_input T) x y z) /\
    (forall i x y, nth_error (poutputs a) i = Some x -> nth_error (poutputs b) i = Some y ->
        exists z, nth_error (poutputs c) i = Some z /\ kept (t_output T) x y z).
  Proof.
    intros OK H. apply merge_with_val in H as [_ H]. unfold merge_maps_with, merge_map_with in H.
    unfold tables_ok in OK. apply andb_true_iff in OK as [OK O3]. apply andb_true_iff in OK as [O1 O2].
    destruct (run_steps _ (t_global T) _ _) as [g| |] eqn:G; cbn [obind] in H; try discriminate.
    destruct (zip_merge _ (pinputs a) _) as [ins| |] eqn:I; cbn [obind] in H; try discriminate.
    destruct (zip_merge _ (poutputs a) _) as [outs| |] eqn:O; cbn [obind] in H; try discriminate.
    injection H as <-. cbn [pglobal pinputs poutputs].
    split; [|split].
    - intros f CL. eapply merge_map_keeps; eauto.
    - intros i x y X Y. destruct (zip_merge_nth _ _ _ _ I) as [_ N]. specialize (N i x X). rewrite Y in N.
      destruct N as [z [Z M]]. exists z. split; [assumption|]. intros f CL. eapply merge_map_keeps; eauto.
    - intros i x y X Y. destruct (zip_merge_nth _ _ _ _ O) as [_ N]. specialize (N i x X). rewrite Y in N.
      destruct N as [z [Z M]]. exists z. split; [assumption|]. intros f CL. eapply merge_map_keeps; eauto.
  Qed.
End WithUid.

(* ---- which fields of a struct the table keeps, and which it does not (the finding classes), computed from Gen/Tables.v *)
Definition field_kept (tbl : list (field * merge_policy)) (fk : field * field_kind) : bool :=
  negb (memf (fst fk) (cleared_by tbl)) &&
  match snd fk with FK_opt | FK_mand => keeps_unk (policy_of tbl (fst fk)) | FK_map | FK_set => keeps_kyd (policy_of tbl (fst fk)) end.
Definition kept_fields fields tbl : list field := map fst (filter (field_kept tbl) fields).
Definition lost_optional fields tbl : list field :=          (* optional or keyed fields the table does not keep: the F3 class *)
  map fst (filter (fun fk => negb (field_kept tbl fk) && match snd fk with FK_mand => false | _ => true end) fields).
Definition unmerged_mandatory fields tbl : list field :=
  map fst (filter (fun fk => negb (field_kept tbl fk) && match snd fk with FK_mand => true | _ => false end) fields).

(* a field that is not merged is lost when only `other` has it: generic witness, checked by running the model *)
Definition loses (guarded : bool) tbl (f : field) : bool :=
  let b := set_unk empty_map f (Some [x01]) in
  match run_steps guarded tbl empty_map b with Val c => match unk c f with None => true | Some _ => false end | _ => false end.
Lemma loses_witness guarded tbl f : loses guarded tbl f = true ->
  exists a b c, run_steps guarded tbl a b = Val c /\ unk b f <> None /\ unk c f = None.
Proof.
  unfold loses. intros H. exists empty_map, (set_unk empty_map f (Some [x01])).
  destruct (run_steps _ _ _ _) as [c| |]; try discriminate. exists c. split; [reflexivity|]. split.
  - cbn. rewrite bytes_eqb_refl. discriminate.
  - destruct (unk c f); [discriminate|reflexivity].
Qed.
(* the cleared field is lost when `other` brings the clearing field: witness *)
Definition clears (guarded : bool) tbl (f g : field) : bool :=
  let a := set_unk empty_map g (Some [x01]) in
  let b := set_unk empty_map f (Some [x02]) in
  match run_steps guarded tbl a b with Val c => match unk c g with None => true | Some _ => false end | _ => false end.
Lemma clears_witness guarded tbl f g : clears guarded tbl f g = true ->
  exists a b c, run_steps guarded tbl a b = Val c /\ unk a g <> None /\ unk c g = None.
Proof.
  unfold clears. intros H. exists (set_unk empty_map g (Some [x01])), (set_unk empty_map f (Some [x02])).
  destruct (run_steps _ _ _ _) as [c| |]; try discriminate. exists c. split; [reflexivity|]. split.
  - cbn. rewrite bytes_eqb_refl. discriminate.
  - destruct (unk c g); [discriminate|reflexivity].
Qed.

(* ================================================================ order independence for compatible operands *)
Definition wf_map (m : pmap) : Prop := forall f, al_sorted (kyd m f) = true.
(* disjoint-or-identical: wherever both carry a value (or a key), it is the same *)
Definition compat (a b : pmap) : Prop :=
  (forall f x y, unk a f = Some x -> unk b f = Some y -> x = y) /\
  (forall f k x y, al_find k (kyd a f) = Some x -> al_find k (kyd b f) = Some y -> x = y).
(* the part of a field that its statement does not merge is the same in both (negation: the F3 class) *)
Definition agree_unmerged (tbl : list (field * merge_policy)) (a b : pmap) : Prop :=
  forall f, (keeps_unk (policy_of tbl f) = false -> unk a f = unk b f) /\ (keeps_kyd (policy_of tbl f) = false -> kyd a f = kyd b f).
(* no clearing statement fires when `other` is merged into `self` (negation: the utxo-clearing class) *)
Definition quiet (tbl : list (field * merge_policy)) (self other : pmap) : Prop :=
  forall f cl, In (f, MP_FirstWinsClearing cl) tbl -> unk self f = None -> unk other f = None.

Lemma step_unk_quiet guarded f p self other c :
  step_with guarded (f, p) self other = Val c -> (forall cl, p = MP_FirstWinsClearing cl -> unk self f = None -> unk other f = None) ->
  forall g, unk c g = if bytes_eqb g f then apply_unk p (unk self f) (unk other f) else unk self g.
Proof.
  unfold step_with. cbn [fst snd]. intros H Q g.
  destruct p; cbn [apply_unk]; try (injection H as <-; cbn [set_unk set_kyd unk]; destruct (bytes_eqb_spec g f) as [->|]; reflexivity).
  - specialize (Q _ eq_refl). destruct (unk self f) eqn:S.
    + assert (c = self) as -> by (destruct (unk other f); now injection H). cbn [first_wins].
      destruct (bytes_eqb_spec g f) as [->|]; [assumption|reflexivity].
    + rewrite (Q eq_refl) in *. injection H as <-. cbn [first_wins]. destruct (bytes_eqb_spec g f) as [->|]; [assumption|reflexivity].
  - destruct (xpub_merge_with guarded (kyd self f) (kyd other f)); cbn [obind] in H; try discriminate. injection H as <-.
    cbn [set_kyd unk]. destruct (bytes_eqb_spec g f) as [->|]; reflexivity.
Qed.

Lemma run_steps_unk_quiet guarded tbl : forall self other c,
  nodup_fields tbl = true -> quiet tbl self other -> run_steps guarded tbl self other = Val c ->
  forall g, unk c g = apply_unk (policy_of tbl g) (unk self g) (unk other g).
Proof.
  induction tbl as [|[f p] r IH]; intros self other c ND Q H g.
  - cbn in H. injection H as <-. reflexivity.
  - cbn [run_steps] in H. destruct (step_with guarded (f, p) self other) as [s1| |] eqn:S; cbn [obind] in H; try discriminate.
    cbn [nodup_fields] in ND. apply andb_true_iff in ND as [ND1 ND]. cbn [fst] in ND1. apply negb_true_iff in ND1.
    assert (forall g, unk s1 g = if bytes_eqb g f then apply_unk p (unk self f) (unk other f) else unk self g) as U.
    { eapply step_unk_quiet; eauto. intros cl ->. apply (Q f cl). now left. }
    assert (quiet r s1 other) as Q'.
    { intros f' cl' I. rewrite U. destruct (bytes_eqb_spec f' f) as [->|N].
      - exfalso. rewrite existsb_exists in ND1 || (assert (existsb (fun t => bytes_eqb f (fst t)) r = true) as X; [|congruence]).
        apply existsb_exists. exists (f, MP_FirstWinsClearing cl'). split; [assumption|]. cbn. apply bytes_eqb_refl.
      - apply (Q f' cl'). now right. }
    rewrite (IH s1 other c ND Q' H g), U.
    destruct (bytes_eqb g f) eqn:E.
    + apply bytes_eqb_eq in E. subst g. rewrite policy_of_cons_same, (policy_of_absent r f ND1). reflexivity.
    + now rewrite (policy_of_cons_other _ _ _ _ E).
Qed.

Lemma apply_unk_comm p a b : (forall x y, a = Some x -> b = Some y -> x = y) -> (keeps_unk p = false -> a = b) ->
  apply_unk p a b = apply_unk p b a.
Proof.
  intros C A. destruct p; cbn [apply_unk keeps_unk] in *; try (now apply A).
  - destruct a as [x|], b as [y|]; cbn [first_wins]; try reflexivity. now rewrite (C x y eq_refl eq_refl).
  - destruct a as [x|], b as [y|]; cbn [first_wins]; try reflexivity. now rewrite (C x y eq_refl eq_refl).
  - destruct a as [x|], b as [y|]; cbn [max_opt]; try reflexivity. now rewrite (C x y eq_refl eq_refl).
  - unfold or_flags. now rewrite N.lor_comm.
Qed.

Lemma xpub_merge_sorted guarded : forall other self c, al_sorted self = true -> xpub_merge_with guarded self other = Val c -> al_sorted c = true.
Proof.
  induction other as [|[k v] r IH]; intros self c S H; cbn [xpub_merge_with] in H.
  - now injection H as <-.
  - destruct (al_find k self).
    + destruct (reconcile_with guarded v b); try discriminate; eauto using al_sorted_insert.
    + eauto using al_sorted_insert.
Qed.
Lemma xpub_merge_compat guarded : forall other self, al_sorted other = true ->
  (forall k x y, al_find k self = Some x -> al_find k other = Some y -> x = y) ->
  exists c, xpub_merge_with guarded self other = Val c /\
            forall q, al_find q c = match al_find q other with Some v => Some v | None => al_find q self end.
Proof.
  induction other as [|[k v] r IH]; intros self S C; cbn [xpub_merge_with].
  - exists self. split; reflexivity.
  - cbn [al_sorted] in S. apply andb_true_iff in S as [L S]. pose proof (al_lb_find _ _ L) as NF.
    destruct (al_find k self) as [v2|] eqn:F.
    + assert (v2 = v) as ->. { apply (C k); [assumption|]. cbn. now rewrite bytes_eqb_refl. }
      rewrite reconcile_same. destruct (IH self S) as [c [X Y]].
      { intros q x y A B. apply (C q x y A). cbn [al_find]. destruct (bytes_eqb_spec q k) as [->|]; [congruence|assumption]. }
      exists c. split; [assumption|]. intros q. rewrite Y. cbn [al_find].
      destruct (bytes_eqb_spec q k) as [->|]; [now rewrite NF, F|reflexivity].
    + destruct (IH (al_insert k v self) S) as [c [X Y]].
      { intros q x y A B. rewrite al_find_insert in A. destruct (bytes_eqb_spec q k) as [->|N]; [congruence|].
        apply (C q x y A). cbn [al_find]. destruct (bytes_eqb_spec q k); [contradiction|assumption]. }
      exists c. split; [assumption|]. intros q. rewrite Y, al_find_insert. cbn [al_find].
      destruct (bytes_eqb_spec q k) as [->|]; [now rewrite NF|reflexivity].
Qed.

(* the table run succeeds whenever every xpub statement does *)
Lemma run_steps_total guarded tbl : forall self other, nodup_fields tbl = true ->
  (forall f, In (f, MP_Xpub) tbl -> exists l, xpub_merge_with guarded (kyd self f) (kyd other f) = Val l) ->
  exists c, run_steps guarded tbl self other = Val c.
Proof.
  induction tbl as [|[f p] r IH]; intros self other ND X; cbn [run_steps]; [eauto|].
  cbn [nodup_fields] in ND. apply andb_true_iff in ND as [ND1 ND]. cbn [fst] in ND1. apply negb_true_iff in ND1.
  assert (exists s1, step_with guarded (f, p) self other = Val s1) as [s1 S].
  { unfold step_with. cbn [fst snd]. destruct p; eauto.
    - destruct (unk self f), (unk other f); eauto.
    - destruct (X f (or_introl eq_refl)) as [l ->]. cbn. eauto. }
  rewrite S. cbn [obind]. apply IH; [assumption|]. intros f' I.
  assert (bytes_eqb f' f = false) as N.
  { destruct (bytes_eqb_spec f' f) as [->|]; [|reflexivity]. exfalso.
    assert (existsb (fun t => bytes_eqb f (fst t)) r = true) as Y; [|congruence].
    apply existsb_exists. exists (f, MP_Xpub). split; [assumption|]. cbn. apply bytes_eqb_refl. }
  rewrite (step_kyd_other _ _ _ _ _ _ _ S N). apply X. now right.
Qed.

Record pair_ok (tbl : list (field * merge_policy)) (a b : pmap) : Prop := {
  po_wf_a : wf_map a; po_wf_b : wf_map b; po_compat : compat a b; po_agree : agree_unmerged tbl a b;
  po_quiet_ab : quiet tbl a b; po_quiet_ba : quiet tbl b a }.
Definition map_equiv (c c' : pmap) : Prop := forall f, unk c f = unk c' f /\ kyd c f = kyd c' f.

Fixpoint vec_ops_eqb (x y : list vec_op) : bool :=
  match x, y with
  | [], [] => true
  | VO_Extend :: x', VO_Extend :: y' | VO_Sort :: x', VO_Sort :: y' | VO_Dedup :: x', VO_Dedup :: y' => vec_ops_eqb x' y'
  | _, _ => false end.
Lemma vec_ops_eqb_eq x : forall y, vec_ops_eqb x y = true -> x = y.
Proof. induction x as [|[] x IH]; intros [|[] y]; cbn; try discriminate; auto; intros H; f_equal; auto. Qed.
(* every Vec field is merged by extend; sort; dedup, in this order *)
Definition vecops_canonical (tbl : list (field * merge_policy)) : bool :=
  forallb (fun s => match snd s with MP_VecOps ops => vec_ops_eqb ops canonical_vec_ops | _ => true end) tbl.
Lemma policy_of_In tbl f p : policy_of tbl f = p -> p <> MP_NotMerged -> In (f, p) tbl.
Proof.
  induction tbl as [|[f' p'] r IH]; intros H N.
  - unfold policy_of in H. cbn in H. congruence.
  - destruct (bytes_eqb f f') eqn:E.
    + apply bytes_eqb_eq in E. subst f'. rewrite policy_of_cons_same in H. subst. now left.
    + rewrite (policy_of_cons_other _ _ _ _ E) in H. right. auto.
Qed.

Theorem merge_map_commutes guarded tbl a b : nodup_fields tbl = true -> vecops_canonical tbl = true -> pair_ok tbl a b ->
  exists c c', run_steps guarded tbl a b = Val c /\ run_steps guarded tbl b a = Val c' /\ map_equiv c c'.
Proof.
  intros ND VC [WA WB [CU CK] AG QA QB].
  destruct (run_steps_total guarded tbl a b ND) as [c HC].
  { intros f I. destruct (xpub_merge_compat guarded (kyd b f) (kyd a f) (WB f)) as [l [X _]]; [apply CK|eauto]. }
  destruct (run_steps_total guarded tbl b a ND) as [c' HC'].
  { intros f I. destruct (xpub_merge_compat guarded (kyd a f) (kyd b f) (WA f)) as [l [X _]]; [|eauto].
    intros k x y A B. symmetry. eapply CK; eauto. }
  exists c, c'. split; [assumption|]. split; [assumption|]. intros f. split.
  - rewrite (run_steps_unk_quiet _ _ _ _ _ ND QA HC), (run_steps_unk_quiet _ _ _ _ _ ND QB HC').
    apply apply_unk_comm; [apply CU|apply AG].
  - pose proof (run_steps_kyd _ _ _ _ _ f ND HC) as R. pose proof (run_steps_kyd _ _ _ _ _ f ND HC') as R'.
    assert (forall q, match al_find q (kyd b f) with Some v => Some v | None => al_find q (kyd a f) end
                    = match al_find q (kyd a f) with Some v => Some v | None => al_find q (kyd b f) end) as SYM.
    { intros q. destruct (al_find q (kyd a f)) eqn:A, (al_find q (kyd b f)) eqn:B; try reflexivity. f_equal. symmetry. eapply CK; eauto. }
    destruct (policy_of tbl f) eqn:P; cbn [kyd_rel] in R, R'; try (rewrite R, R'; apply AG; now rewrite P).
    + rewrite R, R'. apply al_sorted_ext; [apply al_sorted_extend, WA|apply al_sorted_extend, WB|]. intros q.
      rewrite !al_find_extend_sorted by (apply WA || apply WB). apply SYM.
    + assert (ops = canonical_vec_ops) as ->.
      { apply policy_of_In in P; [|discriminate]. unfold vecops_canonical in VC. rewrite forallb_forall in VC. specialize (VC _ P). now apply vec_ops_eqb_eq. }
      rewrite R, R'. apply al_sorted_ext; try apply vec_merge_sorted. intros q. rewrite !vec_merge_find. symmetry. apply SYM.
    + destruct (xpub_merge_compat guarded (kyd b f) (kyd a f) (WB f)) as [l [X Y]]; [apply CK|].
      destruct (xpub_merge_compat guarded (kyd a f) (kyd b f) (WA f)) as [l' [X' Y']]. { intros k x y A B. symmetry. eapply CK; eauto. }
      rewrite R in X. injection X as <-. rewrite R' in X'. injection X' as <-.
      apply al_sorted_ext; [eapply xpub_merge_sorted; [apply WA|exact R]|eapply xpub_merge_sorted; [apply WB|exact R']|].
      intros q. rewrite Y, Y'. apply SYM.
Qed.

(* ---- whole PSETs *)
Definition tables_canonical (T : tables) : bool := vecops_canonical (t_global T) && vecops_canonical (t_input T) && vecops_canonical (t_output T).
Definition pset_equiv (c c' : pset) : Prop :=
  map_equiv (pglobal c) (pglobal c') /\ Forall2 map_equiv (pinputs c) (pinputs c') /\ Forall2 map_equiv (poutputs c) (poutputs c').
Record pset_pair_ok (T : tables) (a b : pset) : Prop := {
  ppo_global : pair_ok (t_global T) (pglobal a) (pglobal b);
  ppo_inputs : Forall2 (pair_ok (t_input T)) (pinputs a) (pinputs b);
  ppo_outputs : Forall2 (pair_ok (t_output T)) (poutputs a) (poutputs b) }.

Lemma zip_merge_commutes (mm : pmap -> pmap -> outcome pmap) (P : pmap -> pmap -> Prop) :
  (forall x y, P x y -> exists c c', mm x y = Val c /\ mm y x = Val c' /\ map_equiv c c') ->
  forall xs ys, Forall2 P xs ys -> exists cs cs', zip_merge mm xs ys = Val cs /\ zip_merge mm ys xs = Val cs' /\ Forall2 map_equiv cs cs'.
Proof.
  intros HP xs ys F. induction F as [|x y xs ys Pxy F IH].
  - exists [], []. cbn. auto.
  - destruct (HP _ _ Pxy) as [c [c' [M [M' E]]]]. destruct IH as [cs [cs' [Z [Z' E']]]].
    exists (c :: cs), (c' :: cs'). cbn [zip_merge]. rewrite M, M', Z, Z'. cbn. auto.
Qed.

Section CommutesWithUid.
  Context {id : Type} (id_eqb : id -> id -> bool) (uid : pset -> outcome id).
  Theorem merge_commutes T a b x y : tables_ok T = true -> tables_canonical T = true ->
    uid a = Val x -> uid b = Val y -> id_eqb x y = true -> id_eqb y x = true -> pset_pair_ok T a b ->
    exists c c', merge_with id_eqb uid T a b = Val c /\ merge_with id_eqb uid T b a = Val c' /\ pset_equiv c c'.
  Proof.
    intros OK CA A B E E' [G I O]. unfold tables_ok in OK. apply andb_true_iff in OK as [OK O3]. apply andb_true_iff in OK as [O1 O2].
    unfold tables_canonical in CA. apply andb_true_iff in CA as [CA C3]. apply andb_true_iff in CA as [C1 C2].
    destruct (merge_map_commutes (t_guarded T) _ _ _ O1 C1 G) as [g [g' [Hg [Hg' Eg]]]].
    destruct (zip_merge_commutes (merge_map_with (t_guarded T) (t_input T)) _ (fun x y => merge_map_commutes (t_guarded T) _ x y O2 C2) _ _ I) as [ci [ci' [Hi [Hi' Ei]]]].
    destruct (zip_merge_commutes (merge_map_with (t_guarded T) (t_output T)) _ (fun x y => merge_map_commutes (t_guarded T) _ x y O3 C3) _ _ O) as [co [co' [Ho [Ho' Eo]]]].
    exists (mkpset g ci co), (mkpset g' ci' co'). unfold merge_with, merge_maps_with, merge_map_with in *. rewrite A, B. cbn [uid_res_eqb].
    rewrite E, E', Hg, Hg', Hi, Hi', Ho, Ho'. cbn [obind]. split; [reflexivity|]. split; [reflexivity|]. split; [exact Eg|]. split; [exact Ei|exact Eo].
  Qed.
End CommutesWithUid.

(* descendants of a common ancestor by disjoint-or-identical additions are compatible *)
Definition extends (o a : pmap) : Prop :=
  (forall f x, unk o f = Some x -> unk a f = Some x) /\ (forall f k x, al_find k (kyd o f) = Some x -> al_find k (kyd a f) = Some x).
Definition additions_agree (o a b : pmap) : Prop :=     (* whatever both added to the ancestor is identical *)
  (forall f x y, unk o f = None -> unk a f = Some x -> unk b f = Some y -> x = y) /\
  (forall f k x y, al_find k (kyd o f) = None -> al_find k (kyd a f) = Some x -> al_find k (kyd b f) = Some y -> x = y).
Lemma descendants_compat o a b : extends o a -> extends o b -> additions_agree o a b -> compat a b.
Proof.
  intros [EA EA'] [EB EB'] [AU AK]. split.
  - intros f x y A B. destruct (unk o f) as [z|] eqn:O; [|eauto]. rewrite (EA _ _ O) in A. rewrite (EB _ _ O) in B. congruence.
  - intros f k x y A B. destruct (al_find k (kyd o f)) as [z|] eqn:O; [|eauto]. rewrite (EA' _ _ _ O) in A. rewrite (EB' _ _ _ O) in B. congruence.
Qed.

Lemma In_policy_of tbl f p : nodup_fields tbl = true -> In (f, p) tbl -> policy_of tbl f = p.
Proof.
  induction tbl as [|[f' p'] r IH]; intros ND I; [contradiction|].
  cbn [nodup_fields] in ND. apply andb_true_iff in ND as [ND1 ND]. cbn [fst] in ND1. apply negb_true_iff in ND1.
  destruct I as [[= -> ->]|I].
  - apply policy_of_cons_same.
  - destruct (bytes_eqb_spec f f') as [->|N].
    + exfalso. assert (existsb (fun t => bytes_eqb f' (fst t)) r = true) as Y; [|congruence].
      apply existsb_exists. exists (f', p). split; [assumption|]. cbn. apply bytes_eqb_refl.
    + rewrite policy_of_cons_other by (now apply bytes_eqb_neq). auto.
Qed.

(* ================================================================ the scalar list (Global::scalars, a Vec<Tweak>) *)
Definition vals_nil (l : alist) : Prop := forall k v, al_find k l = Some v -> v = [].       (* a list of bare keys *)
Theorem scalars_merge ops a b : vec_ops_eqb ops canonical_vec_ops = true -> vals_nil a -> vals_nil b ->
  let r := vec_merge ops a b in
  al_sorted r = true /\                                              (* strictly increasing: sorted, no scalar twice *)
  (forall k, al_mem k r = al_mem k a || al_mem k b) /\                (* exactly the union: nothing lost, nothing invented *)
  r = vec_merge ops b a.                                              (* the same list whichever operand is merged into which *)
Proof.
  intros E NA NB. apply vec_ops_eqb_eq in E. subst ops. cbn zeta. split; [apply vec_merge_sorted|]. split.
  - intros k. unfold vec_merge. rewrite vec_merge_mem. reflexivity.
  - apply al_sorted_ext; try apply vec_merge_sorted. intros q. rewrite !vec_merge_find.
    destruct (al_find q a) as [x|] eqn:A, (al_find q b) as [y|] eqn:B; try reflexivity.
    now rewrite (NA _ _ A), (NB _ _ B).
Qed.
