(* Proofs about Model/Address.v used by C17 (corrupted segwit addresses are rejected) and C06. *)
From Coq Require Import List NArith ZArith Bool Lia ZifyN ZifyBool ZifyNat.
From Coq.Strings Require Import Byte.
From EV Require Import Base.Bytes Gen.Tables Model.Bech32 Model.Base58 Model.Address Proofs.Bech32 Proofs.Bech32Codes.
Ltac Zify.zify_post_hook ::= Z.div_mod_to_equations.
Import ListNotations.
Open Scope N_scope.

Lemma byte_eqb_refl c : byte_eqb c c = true.
Proof. destruct (byte_eqb_spec c c); congruence. Qed.

(* ---------------------------------------------------------------- rsplit *)
Lemma rsplit_none sep s : rsplit sep s = None -> ~ In sep s.
Proof. induction s as [|c r IH]; intros E; [intros []|]. cbn [rsplit] in E. destruct (rsplit sep r) as [[p q]|]; [discriminate|].
  destruct (byte_eqb_spec c sep) as [->|NE]; [discriminate|]. intros [->|I]; [congruence|]. now apply IH. Qed.
Lemma rsplit_notin sep s : ~ In sep s -> rsplit sep s = None.
Proof. induction s as [|c r IH]; intros NI; [reflexivity|]. cbn [rsplit]. rewrite IH by (intro; apply NI; now right).
  destruct (byte_eqb_spec c sep) as [->|NE]; [exfalso; apply NI; now left|reflexivity]. Qed.
Lemma rsplit_spec sep s : forall h d, rsplit sep s = Some (h, d) -> s = h ++ sep :: d /\ ~ In sep d.
Proof. induction s as [|c r IH]; intros h d E; [discriminate|]. cbn [rsplit] in E. destruct (rsplit sep r) as [[p q]|] eqn:R.
  - inversion E; subst. destruct (IH _ _ eq_refl) as [-> NI]. now split.
  - destruct (byte_eqb_spec c sep) as [->|NE]; [|discriminate]. inversion E; subst. split; [reflexivity|now apply rsplit_none]. Qed.
Lemma rsplit_app sep h d : ~ In sep d -> rsplit sep (h ++ sep :: d) = Some (h, d).
Proof. intros NI. induction h as [|c h IH]; cbn [app rsplit].
  - rewrite (rsplit_notin _ _ NI). now rewrite byte_eqb_refl.
  - now rewrite IH. Qed.

(* ---------------------------------------------------------------- symbols *)
Lemma index_of_lt c l : forall i v, index_of c l i = Some v -> v < i + N.of_nat (length l).
Proof. induction l as [|x l IH]; intros i v E; [discriminate|]. cbn [index_of length] in *. destruct (byte_eqb x c).
  - inversion E; subst. lia. - apply IH in E. lia. Qed.
Lemma from_char_lt c v : from_char c = Some v -> v < 32.
Proof. unfold from_char. destruct (b2n c <? 128); [|discriminate]. intros E. apply index_of_lt in E. exact E. Qed.
Lemma from_char_sep : from_char x31 = None. Proof. reflexivity. Qed.
Lemma syms_of_spec d : forall w, syms_of d = Some w -> sym_word w /\ length w = length d /\ ~ In x31 d.
Proof. unfold syms_of. induction d as [|c d IH]; intros w E; cbn [map all_some] in E.
  - inversion E; subst. repeat split; [constructor|intros []].
  - destruct (from_char c) as [v|] eqn:F; [|discriminate]. destruct (all_some (map from_char d)) as [t|] eqn:A; [|discriminate].
    inversion E; subst. destruct (IH _ eq_refl) as (S & L & NI). repeat split.
    + constructor; [now apply from_char_lt in F|assumption].
    + cbn. now rewrite L.
    + intros [->|I]; [rewrite from_char_sep in F; discriminate|contradiction]. Qed.
Lemma hrp_expand_sym h : sym_word (hrp_expand h).
Proof. unfold hrp_expand, sym_word. rewrite !Forall_app. repeat split.
  - apply Forall_forall. intros v I. apply in_map_iff in I as (b & <- & _). pose proof (b2n_lt (to_lower b)). lia.
  - constructor; [lia|constructor].
  - apply Forall_forall. intros v I. apply in_map_iff in I as (b & <- & _). pose proof (b2n_lt (to_lower b)). lia. Qed.
Lemma hrp_expand_length h : length (hrp_expand h) = (2 * length h + 1)%nat.
Proof. unfold hrp_expand. rewrite !app_length, !map_length. cbn. lia. Qed.

(* ---------------------------------------------------------------- inversion of the decoder *)
Lemma check_characters_ok s h d : check_characters s = Ok (h, d) -> rsplit x31 s = Some (h, d).
Proof. unfold check_characters. destruct (rsplit x31 s) as [[h' d']|].
  - destruct (negb _); [discriminate|]. destruct (_ && _); [discriminate|]. intros E; inversion E; reflexivity.
  - destruct (negb _); [discriminate|]. destruct (_ && _); discriminate. Qed.
Lemma unchecked_new_ok s h d : unchecked_new s = Ok (h, d) -> rsplit x31 s = Some (h, d) /\ hrp_parse h = Ok tt.
Proof. unfold unchecked_new. destruct (check_characters s) as [[h' d']|] eqn:C; [|discriminate].
  destruct (hrp_parse h') as [[]|] eqn:P; [|discriminate]. intros E; inversion E; subst. split; [now apply check_characters_ok|assumption]. Qed.
Lemma hrp_parse_len h : hrp_parse h = Ok tt -> (length h <= 83)%nat.
Proof. unfold hrp_parse. destruct h as [|b r]; [discriminate|]. destruct (Nat.ltb_spec 83 (length (b :: r))); [discriminate|]. lia. Qed.

Definition code_for (cfg : segwit_cfg) (ver : N) : code := if N.eqb ver 0 then sw_code_v0 cfg else sw_code_v1 cfg.

Lemma segwit_decode_inv cfg s v data : segwit_decode cfg s = Ok (v, data) ->
  exists h d w rest body, rsplit x31 s = Some (h, d) /\ hrp_parse h = Ok tt /\ syms_of d = Some w /\ w = v :: rest /\
    v <= sw_max_version cfg /\
    validate_checksum cfg (code_for cfg v) (length s) h w = Ok tt /\
    match sw_max_string cfg with Some m => (length s <= m)%nat | None => True end /\
    firstn (length w - c_len (code_for cfg v)) w = v :: body /\ validate_padding body = Ok tt /\ validate_wpl cfg v body = Ok tt /\
    data = fes_to_bytes body.
Proof. unfold segwit_decode. intros E.
  destruct (match sw_max_string cfg with Some m => Nat.ltb m (length s) | None => false end) eqn:M; [discriminate|].
  destruct (unchecked_new s) as [[h d]|] eqn:U; [|discriminate]. apply unchecked_new_ok in U as [R P].
  destruct (syms_of d) as [[|ver rest]|] eqn:S; try discriminate.
  destruct (N.ltb_spec (sw_max_version cfg) ver) as [|LV]; [discriminate|].
  fold (code_for cfg ver) in E.
  destruct (validate_checksum cfg (code_for cfg ver) (length s) h (ver :: rest)) as [[]|] eqn:VC; [|discriminate].
  destruct (firstn (length (ver :: rest) - c_len (code_for cfg ver)) (ver :: rest)) as [|ver' body] eqn:F; [discriminate|].
  assert (ver' = ver). { destruct (length (ver :: rest) - c_len (code_for cfg ver))%nat; cbn in F; [discriminate|now inversion F]. } subst ver'.
  destruct (validate_padding body) as [[]|] eqn:VP; [|discriminate].
  destruct (validate_wpl cfg ver body) as [[]|] eqn:VW; [|discriminate]. inversion E; subst.
  exists h, d, (v :: rest), rest, body. repeat split; try assumption; try reflexivity.
  destruct (sw_max_string cfg) as [m|]; [|exact I]. destruct (Nat.ltb_spec m (length s)); [discriminate|lia]. Qed.

Lemma validate_checksum_ok cfg c n h w : c_len c <> 0%nat -> validate_checksum cfg c n h w = Ok tt ->
  (c_len c <= length w)%nat /\ valid_codeword c (hrp_expand h ++ w) = true.
Proof. intros NZ. unfold validate_checksum. destruct (match sw_code_length cfg with Some cl => Nat.ltb cl n | None => false end); [discriminate|].
  destruct (Nat.eqb_spec (c_len c) 0); [contradiction|]. destruct (Nat.ltb_spec (length w) (c_len c)); [discriminate|].
  destruct (valid_codeword c (hrp_expand h ++ w)); cbn; [split; [lia|reflexivity]|discriminate]. Qed.
Lemma validate_wpl_ok cfg v body : validate_wpl cfg v body = Ok tt ->
  (sw_len_min cfg <= length body * 5 / 8 <= sw_len_max cfg)%nat /\
  (v = 0 -> (length body * 5 / 8 = sw_len_v0_a cfg \/ length body * 5 / 8 = sw_len_v0_b cfg)%nat).
Proof. unfold validate_wpl. set (len := (length body * 5 / 8)%nat). destruct (Nat.ltb_spec len (sw_len_min cfg)); [discriminate|].
  destruct (Nat.ltb_spec (sw_len_max cfg) len); [discriminate|]. destruct (N.eqb_spec v 0) as [->|NE]; cbn [andb].
  - destruct (Nat.eqb_spec len (sw_len_v0_a cfg)); cbn [negb andb]; [intros _; split; [lia|intros _; now left]|].
    destruct (Nat.eqb_spec len (sw_len_v0_b cfg)); cbn [negb]; [intros _; split; [lia|intros _; now right]|discriminate].
  - intros _. split; [lia|intros E; contradiction]. Qed.

(* ---------------------------------------------------------------- the corruption relation on strings *)
(* s' is s with the data part (everything after the last '1') replaced by an equally long string of bech32 characters whose
   symbols differ from those of s in one or two positions (the witness-version character is the first data symbol).
   Replacing a letter by its other-case form does not change the symbol and is therefore not a corruption in this sense;
   such strings are rejected by the mixed-case rule (exercised by the harness). *)
Definition data_edit (s s' : bytes) : Prop :=
  exists hrp d d' w w', rsplit x31 s = Some (hrp, d) /\ s' = hrp ++ x31 :: d' /\ syms_of d = Some w /\ syms_of d' = Some w' /\
    length w = length w' /\ (1 <= hamming w w' <= 2)%nat.

Lemma corrupt_rejected cfg L :
  In (sw_code_v0 cfg) the_codes -> In (sw_code_v1 cfg) the_codes ->
  c_len (sw_code_v0 cfg) <> 0%nat -> c_len (sw_code_v1 cfg) <> 0%nat ->
  (sw_code_v0 cfg = sw_code_v1 cfg \/ (sw_code_v0 cfg, sw_code_v1 cfg, L) = (bech32, bech32m, L_switch_bech)
                                   \/ (sw_code_v0 cfg, sw_code_v1 cfg, L) = (blech32, blech32m, L_switch_blech)) ->
  (L <= L_code)%nat ->
  (forall s r h d, segwit_decode cfg s = Ok r -> rsplit x31 s = Some (h, d) -> (2 * length h + 1 + length d <= L)%nat) ->
  forall s s' r, segwit_decode cfg s = Ok r -> data_edit s s' -> exists e, segwit_decode cfg s' = Err e.
Proof. intros I0 I1 NZ0 NZ1 SW LL BND s s' [v data] E (hrp & d0 & d' & w0 & w' & R0 & -> & S0 & S' & LEN & HD).
  destruct (segwit_decode cfg (hrp ++ x31 :: d')) as [[v' data']|e] eqn:E'; [exfalso|eauto].
  pose proof (BND _ _ _ _ E R0) as B.
  destruct (segwit_decode_inv _ _ _ _ E) as (h & d & w & rest & body & R & P & S & -> & LV & VC & _ & _).
  rewrite R0 in R; inversion R; subst h d. rewrite S0 in S; inversion S; subst w0.
  destruct (segwit_decode_inv _ _ _ _ E') as (h2 & d2 & w2 & rest2 & body2 & R2 & P2 & S2 & -> & LV2 & VC2 & _ & _).
  destruct (syms_of_spec _ _ S') as (SW' & LW' & NI'). rewrite (rsplit_app _ _ _ NI') in R2; inversion R2; subst h2 d2.
  rewrite S' in S2; inversion S2; subst w'. destruct (syms_of_spec _ _ S0) as (SW0 & LW0 & _).
  assert (NZ : forall x, c_len (code_for cfg x) <> 0%nat) by (intros x; unfold code_for; destruct (x =? 0); assumption).
  apply validate_checksum_ok in VC as [_ V]; [|apply NZ]. apply validate_checksum_ok in VC2 as [_ V2]; [|apply NZ].
  set (P0 := hrp_expand hrp) in *.
  assert (HW : sym_word (P0 ++ v :: rest)) by (apply Forall_app; split; [apply hrp_expand_sym|assumption]).
  assert (HW2 : sym_word (P0 ++ v' :: rest2)) by (apply Forall_app; split; [apply hrp_expand_sym|assumption]).
  assert (HL : length (P0 ++ v :: rest) = length (P0 ++ v' :: rest2)) by (rewrite !app_length; lia).
  assert (HB : (length (P0 ++ v :: rest) <= L)%nat) by (rewrite app_length; unfold P0; rewrite hrp_expand_length; lia).
  assert (HH : hamming (P0 ++ v :: rest) (P0 ++ v' :: rest2) = hamming (v :: rest) (v' :: rest2)) by apply hamming_app.
  assert (SAME : forall c, In c the_codes -> valid_codeword c (P0 ++ v :: rest) = true -> valid_codeword c (P0 ++ v' :: rest2) = true -> False).
  { intros c Ic A B'. rewrite (two_errors_codes c Ic _ _ HW HW2 HL) in B'; [discriminate|lia|lia|assumption]. }
  assert (DIFF : sw_code_v0 cfg <> sw_code_v1 cfg ->
     (valid_codeword (sw_code_v0 cfg) (P0 ++ v :: rest) = true -> valid_codeword (sw_code_v1 cfg) (P0 ++ v' :: rest2) = true -> False) /\
     (valid_codeword (sw_code_v1 cfg) (P0 ++ v :: rest) = true -> valid_codeword (sw_code_v0 cfg) (P0 ++ v' :: rest2) = true -> False)).
  { intros NE. destruct SW as [EQ|SW]; [contradiction|].
    destruct (switch_codes _ _ _ SW _ _ HW HW2 HL HB) as [A B']; [lia|]. split; intros X Y; [rewrite (A X) in Y|rewrite (B' X) in Y]; discriminate. }
  unfold code_for in V, V2. destruct (v =? 0), (v' =? 0).
  - exact (SAME _ I0 V V2).
  - destruct SW as [EQ|SWX]; [rewrite <- EQ in V2; exact (SAME _ I0 V V2)|].
    assert (NE : sw_code_v0 cfg <> sw_code_v1 cfg) by (destruct SWX as [X|X]; inversion X as [[A B' C]]; rewrite A, B'; discriminate).
    exact (proj1 (DIFF NE) V V2).
  - destruct SW as [EQ|SWX]; [rewrite EQ in V2; exact (SAME _ I1 V V2)|].
    assert (NE : sw_code_v0 cfg <> sw_code_v1 cfg) by (destruct SWX as [X|X]; inversion X as [[A B' C]]; rewrite A, B'; discriminate).
    exact (proj2 (DIFF NE) V V2).
  - exact (SAME _ I1 V V2). Qed.

(* ---------------------------------------------------------------- the two decoders *)
Lemma bound_bech s r h d : segwit_decode cfg_bech s = Ok r -> rsplit x31 s = Some (h, d) -> (2 * length h + 1 + length d <= L_switch_bech)%nat.
Proof. destruct r as [v data]. intros E R. destruct (segwit_decode_inv _ _ _ _ E) as (h' & d' & w & rest & body & R' & P & _ & _ & _ & _ & M & _).
  rewrite R in R'; inversion R'; subst h' d'. cbn in M. apply hrp_parse_len in P. apply rsplit_spec in R as [-> _].
  rewrite app_length in M. cbn [length] in M. unfold L_switch_bech. lia. Qed.
Lemma bound_blech s r h d : segwit_decode cfg_blech s = Ok r -> rsplit x31 s = Some (h, d) -> (2 * length h + 1 + length d <= L_switch_blech)%nat.
Proof. destruct r as [v data]. intros E R. destruct (segwit_decode_inv _ _ _ _ E) as (h' & d' & w & rest & body & R' & P & S & -> & _ & VC & _ & F & _ & VW & _).
  rewrite R in R'; inversion R'; subst h' d'. apply hrp_parse_len in P. destruct (syms_of_spec _ _ S) as (_ & LW & _).
  apply validate_wpl_ok in VW as [[_ UB] _]. change (sw_len_max cfg_blech) with (N.to_nat BLECH_WPL_MAX) in UB.
  assert (LB : (length body <= (N.to_nat BLECH_WPL_MAX * 8 + 7) / 5)%nat) by lia.
  assert (CL : (c_len (code_for cfg_blech v) <= 12)%nat) by (unfold code_for; destruct (v =? 0); vm_compute; lia).
  apply (f_equal (@length N)) in F. rewrite firstn_length in F. cbn [length] in F.
  assert ((N.to_nat BLECH_WPL_MAX * 8 + 7) / 5 <= 200)%nat by (vm_compute; lia).
  unfold L_switch_blech. cbn [length] in LW. lia. Qed.

Lemma corrupt_rejected_bech s s' r : segwit_decode cfg_bech s = Ok r -> data_edit s s' -> exists e, segwit_decode cfg_bech s' = Err e.
Proof. apply (corrupt_rejected cfg_bech L_switch_bech).
  - cbn. tauto. - cbn. tauto. - cbn. discriminate. - cbn. discriminate.
  - right; left; reflexivity. - unfold L_switch_bech, L_code. lia.
  - intros s0 r0 h d. apply bound_bech. Qed.
Lemma corrupt_rejected_blech s s' r : segwit_decode cfg_blech s = Ok r -> data_edit s s' -> exists e, segwit_decode cfg_blech s' = Err e.
Proof. apply (corrupt_rejected cfg_blech L_switch_blech).
  - change (sw_code_v0 cfg_blech) with blech32. cbn. tauto.
  - change (sw_code_v1 cfg_blech) with blech32m. cbn. tauto.
  - vm_compute. discriminate. - vm_compute. discriminate.
  - right; right; reflexivity. - unfold L_switch_blech, L_code. lia.
  - intros s0 r0 h d. apply bound_blech. Qed.

(* ---------------------------------------------------------------- address level *)
Definition is_segwit (a : address) : Prop := exists v prog, a_payload a = WitnessProgram v prog.
Definition hrp_of (p : params) (bl : bool) : bytes := if bl then p_blech p else p_bech p.

Lemma eq_lower_trans_r a : forall b h, eq_lower a h = true -> eq_lower b h = true -> eq_lower a b = true.
Proof. induction a as [|x a IH]; intros [|y b] [|z h] A B; cbn in *; try discriminate; [reflexivity|].
  apply andb_true_iff in A as [A1 A2]. apply andb_true_iff in B as [B1 B2]. apply andb_true_iff. split; [|now apply (IH b h)].
  destruct (byte_eqb_spec (to_lower x) (to_lower z)); [|discriminate]. destruct (byte_eqb_spec (to_lower y) (to_lower z)); [|discriminate].
  destruct (byte_eqb_spec (to_lower x) (to_lower y)); congruence. Qed.

(* the six human-readable parts of the built-in networks are pairwise different (recomputed from Gen/Tables.v) *)
Lemma builtin_hrps_distinct p p' bl bl' : In p builtin -> In p' builtin -> eq_lower (hrp_of p bl) (hrp_of p' bl') = true -> p = p' /\ bl = bl'.
Proof. intros I I' E. cbn in I, I'. destruct I as [<-|[<-|[<-|[]]]], I' as [<-|[<-|[<-|[]]]], bl, bl'; vm_compute in E; try discriminate; split; reflexivity. Qed.

Section AddrProofs.
Variable H : bytes -> bytes. Variable pkv : bytes -> bool.

Lemma from_bech32_corrupt s s' bl p a : from_bech32 pkv s bl p = AOk a -> data_edit s s' -> exists e, from_bech32 pkv s' bl p = AErr e.
Proof. unfold from_bech32. intros E ED. destruct bl.
  - destruct (segwit_decode cfg_blech s) as [r|] eqn:D; [|discriminate]. destruct (corrupt_rejected_blech _ _ _ D ED) as [e ->]. eauto.
  - destruct (segwit_decode cfg_bech s) as [r|] eqn:D; [|discriminate]. destruct (corrupt_rejected_bech _ _ _ D ED) as [e ->]. eauto. Qed.

Lemma from_base58_not_segwit data p a : from_base58 pkv data p = AOk a -> ~ is_segwit a.
Proof. unfold from_base58. intros E (v & prog & W). destruct data as [|bp bd]; [discriminate|]. cbv zeta in E.
  repeat match type of E with
  | context [if ?b then _ else _] => destruct b
  | context [match ?l with [] => _ | _ :: _ => _ end] => destruct l
  end; try discriminate; inversion E; subst; cbn in W; discriminate. Qed.

Lemma from_str_bech_first s prefix p bl nets :
  (forall p' bl', In p' nets -> match_prefix prefix (hrp_of p' bl') = true -> p' = p /\ bl' = bl) ->
  In p nets -> match_prefix prefix (hrp_of p bl) = true -> from_str_bech pkv s prefix nets = Some (from_bech32 pkv s bl p).
Proof. induction nets as [|net r IH]; intros U I M; [contradiction|]. cbn [from_str_bech].
  destruct (match_prefix prefix (p_bech net)) eqn:MB.
  { destruct (U net false (or_introl eq_refl) MB) as [-> <-]. reflexivity. }
  destruct (match_prefix prefix (p_blech net)) eqn:ML.
  { destruct (U net true (or_introl eq_refl) ML) as [-> <-]. reflexivity. }
  destruct I as [->|I]; [destruct bl; cbn [hrp_of] in M; congruence|].
  apply IH; [|assumption|assumption]. intros p' bl' I' M'. apply U; [now right|assumption]. Qed.

Theorem address_corrupt p s a s' : In p builtin -> parse_with_params H pkv s p = AOk a -> is_segwit a -> data_edit s s' ->
  (exists e, from_str H pkv s' = AErr e) /\ (exists e, parse_with_params H pkv s' p = AErr e) /\
  (forall p', In p' builtin -> (exists e, parse_with_params H pkv s' p' = AErr e) \/ (exists d, b58_decode_check H s' = Ok58 d)).
Proof. intros Ip E SW ED. pose proof ED as (hrp & d0 & d' & w0 & w' & R0 & Es' & S0 & S' & LEN & HD).
  destruct (syms_of_spec _ _ S') as (_ & _ & NI').
  assert (FP : find_prefix s = hrp) by (unfold find_prefix; now rewrite R0).
  assert (FP' : find_prefix s' = hrp) by (unfold find_prefix; rewrite Es', (rsplit_app _ _ _ NI'); reflexivity).
  unfold parse_with_params in E. rewrite FP in E.
  (* which of the two segwit forms s is *)
  assert (X : exists bl, match_prefix hrp (hrp_of p bl) = true /\ from_bech32 pkv s bl p = AOk a /\
              (match_prefix hrp (p_bech p) || match_prefix hrp (p_blech p) = true) /\ match_prefix hrp (p_blech p) = bl).
  { destruct (match_prefix hrp (p_bech p)) eqn:MB, (match_prefix hrp (p_blech p)) eqn:ML; cbn [orb] in E.
    - exists true. cbn. auto. - exists false. cbn. auto. - exists true. cbn. auto.
    - exfalso. destruct (too_long_for_base58 s); [discriminate|]. destruct (b58_decode_check H s) as [data|]; [|discriminate].
      exact (from_base58_not_segwit _ _ _ E SW). }
  destruct X as (bl & M & FB & OR & BL). destruct (from_bech32_corrupt _ _ _ _ _ FB ED) as [e Ee].
  assert (UNIQ : forall p' bl', In p' builtin -> match_prefix hrp (hrp_of p' bl') = true -> p' = p /\ bl' = bl).
  { intros p' bl' I' M'. unfold match_prefix in M, M'. apply (builtin_hrps_distinct p' p bl' bl I' Ip). exact (eq_lower_trans_r _ _ _ M' M). }
  assert (PW : parse_with_params H pkv s' p = AErr e) by (unfold parse_with_params; rewrite FP', OR, BL; exact Ee).
  split; [|split].
  - exists e. unfold from_str. rewrite FP'. rewrite (from_str_bech_first s' hrp p bl builtin UNIQ Ip M). exact Ee.
  - eauto.
  - intros p' I'. unfold parse_with_params. rewrite FP'.
    destruct (match_prefix hrp (p_bech p')) eqn:MB'; [|destruct (match_prefix hrp (p_blech p')) eqn:ML'].
    + destruct (UNIQ p' false I' MB') as [-> <-]. left. exists e. unfold parse_with_params in PW. rewrite FP', MB' in PW. exact PW.
    + destruct (UNIQ p' true I' ML') as [-> <-]. left. exists e. unfold parse_with_params in PW. rewrite FP', MB', ML' in PW. exact PW.
    + cbn [orb]. destruct (too_long_for_base58 s'); [left; eauto|]. destruct (b58_decode_check H s') as [data|e']; [right; eauto|left; eauto]. Qed.

(* the FromStr entry point agrees with parse_with_params on segwit strings of the built-in networks *)
Lemma from_str_segwit s a : from_str H pkv s = AOk a -> is_segwit a -> exists p, In p builtin /\ parse_with_params H pkv s p = AOk a.
Proof. unfold from_str. intros E SW. destruct (from_str_bech pkv s (find_prefix s) builtin) as [r|] eqn:FB.
  - subst r. set (prefix := find_prefix s) in *.
    assert (G : forall nets, (forall q, In q nets -> In q builtin) -> from_str_bech pkv s prefix nets = Some (AOk a) ->
                exists p bl, In p builtin /\ match_prefix prefix (hrp_of p bl) = true /\ from_bech32 pkv s bl p = AOk a).
    { induction nets as [|net r IH]; intros SUB F; [discriminate|]. cbn [from_str_bech] in F.
      destruct (match_prefix prefix (p_bech net)) eqn:MB; [exists net, false; split; [apply SUB; now left|split; [exact MB|congruence]]|].
      destruct (match_prefix prefix (p_blech net)) eqn:ML; [exists net, true; split; [apply SUB; now left|split; [exact ML|congruence]]|].
      apply IH; [intros q Iq; apply SUB; now right|assumption]. }
    destruct (G builtin (fun q Iq => Iq) FB) as (p & bl & Ip & M & F). exists p. split; [assumption|].
    unfold parse_with_params. fold prefix. unfold match_prefix in *. destruct bl; cbn [hrp_of] in M.
    + rewrite M, orb_true_r. exact F.
    + rewrite M. cbn [orb]. destruct (eq_lower (p_blech p) prefix) eqn:ML; [exfalso|exact F].
      destruct (builtin_hrps_distinct p p true false Ip Ip (eq_lower_trans_r _ _ _ ML M)) as [_ X]. discriminate.
  - exfalso. destruct (too_long_for_base58 s); [discriminate|]. destruct (b58_decode_check H s) as [[|p0 data]|]; try discriminate.
    clear FB. revert E. generalize (b2n p0). intros n. induction builtin as [|net r IH]; cbn [from_str_b58]; [discriminate|].
    destruct (_ || _); [intros E; exact (from_base58_not_segwit _ _ _ E SW)|exact IH]. Qed.
End AddrProofs.

(* ================================================================ C06 *)
Lemma bits_of_length k v : length (bits_of k v) = k.
Proof. unfold bits_of. now rewrite map_length, rev_length, seq_length. Qed.
Lemma bits_of_syms_length vs : length (bits_of_syms vs) = (5 * length vs)%nat.
Proof. induction vs as [|v vs IH]; [reflexivity|]. unfold bits_of_syms in *. cbn [flat_map length]. rewrite app_length, bits_of_length, IH. lia. Qed.
Lemma chunk8_length m : forall bs, (length bs <= 8 * m + 7)%nat -> length (chunk8 bs) = (length bs / 8)%nat.
Proof. induction m as [|m IH]; intros bs L; do 8 (destruct bs as [|? bs]; [reflexivity|]).
  - cbn [length] in L. lia.
  - cbn [chunk8 length]. rewrite IH by (cbn [length] in L; lia). lia. Qed.
Lemma fes_to_bytes_length vs : length (fes_to_bytes vs) = (length vs * 5 / 8)%nat.
Proof. unfold fes_to_bytes. rewrite (chunk8_length (length (bits_of_syms vs))) by lia. rewrite bits_of_syms_length. f_equal. lia. Qed.

(* the witness-program length test of Address::from_bech32 (repair of finding F5): exactly 2..40 bytes pass.  The bounds are regenerated
   from src/address.rs; this lemma is where a changed bound breaks the proofs. *)
Lemma prog_len_ok prog : prog_len_bad prog = false <-> (2 <= length prog <= 40)%nat.
Proof. unfold prog_len_bad. change ADDR_PROG_LEN_MIN with 2. change ADDR_PROG_LEN_MAX with 40. rewrite orb_false_iff, !N.ltb_ge. lia. Qed.
(* what the property promises about every successfully parsed address *)
Definition required_code (blinded : bool) (v : N) : code :=
  if blinded then (if v =? 0 then blech32 else blech32m) else (if v =? 0 then bech32 else bech32m).
Definition shape_ok (s : bytes) (a : address) : Prop :=
  match a_payload a with
  | PubkeyHash h | ScriptHash h => length h = 20%nat
  | WitnessProgram v prog =>
      v <= 16 /\ (2 <= length prog <= 40)%nat /\ (v = 0 -> length prog = 20%nat \/ length prog = 32%nat) /\
      (* the checksum variant required for its version *)
      exists h d w, rsplit x31 s = Some (h, d) /\ syms_of d = Some w /\
                    valid_codeword (required_code (match a_blinder a with Some _ => true | None => false end) v) (hrp_expand h ++ w) = true
  end.

Section C06Proofs.
Variable H : bytes -> bytes. Variable pkv : bytes -> bool.

Lemma from_base58_shape data p a s : from_base58 pkv data p = AOk a -> shape_ok s a /\ a_params a = p /\
  match a_blinder a with Some b => length b = 33%nat /\ pkv b = true | None => True end.
Proof. unfold from_base58. intros E. destruct data as [|bp bd]; [discriminate|]. cbv zeta in E.
  destruct (b2n bp =? p_blinded p).
  - destruct bd as [|prefix pkh]; [discriminate|]. destruct (Nat.eqb_spec (length pkh) 53) as [L|]; [|discriminate]. cbn [negb] in E.
    destruct (pkv (firstn 33 pkh)) eqn:PK; [|discriminate].
    assert (L20 : length (skipn 33 pkh) = 20%nat) by (rewrite skipn_length; lia).
    assert (L33 : length (firstn 33 pkh) = 33%nat) by (rewrite firstn_length; lia).
    destruct (b2n prefix =? p_p2pkh p); [|destruct (b2n prefix =? p_p2sh p); [|discriminate]]; inversion E; subst; unfold shape_ok; cbn; auto.
  - destruct (Nat.eqb_spec (length bd) 20) as [L|]; [|discriminate]. cbn [negb] in E.
    destruct (b2n bp =? p_p2pkh p); [|destruct (b2n bp =? p_p2sh p); [|discriminate]]; inversion E; subst; unfold shape_ok; cbn; auto. Qed.

Lemma cfg_bech_facts : sw_max_version cfg_bech = 16 /\ sw_len_min cfg_bech = 2%nat /\ sw_len_max cfg_bech = 40%nat /\ sw_len_v0_a cfg_bech = 20%nat /\ sw_len_v0_b cfg_bech = 32%nat.
Proof. repeat split. Qed.
Lemma cfg_blech_facts : sw_max_version cfg_blech = 16 /\ sw_len_min cfg_blech = 2%nat /\ sw_len_max cfg_blech = 73%nat /\ sw_len_v0_a cfg_blech = 53%nat /\ sw_len_v0_b cfg_blech = 65%nat.
Proof. repeat split. Qed.

Lemma from_bech32_shape s bl p a : from_bech32 pkv s bl p = AOk a -> shape_ok s a /\ a_params a = p /\
  match a_blinder a with Some b => bl = true /\ length b = 33%nat /\ pkv b = true | None => bl = false end.
Proof. unfold from_bech32. intros E. destruct bl.
  - destruct (segwit_decode cfg_blech s) as [[v data]|] eqn:D; [|discriminate].
    destruct (Nat.ltb_spec (length data) 33) as [|L33]; [discriminate|].
    assert (LPK : length (firstn 33 data) = 33%nat) by (rewrite firstn_length; lia).
    assert (LSK : length (skipn 33 data) = (length data - 33)%nat) by apply skipn_length.
    remember (firstn 33 data) as pk eqn:Epk. remember (skipn 33 data) as prog eqn:Eprog. clear Epk Eprog.
    destruct (pkv pk) eqn:PK; [|discriminate]. destruct (prog_len_bad prog) eqn:PL; [discriminate|]. apply prog_len_ok in PL.
    injection E as <-. destruct (segwit_decode_inv _ _ _ _ D) as (h & d & w & rest & body & R & P & S & -> & LV & VC & _ & F & VP & VW & ->).
    destruct cfg_blech_facts as (F1 & F2 & F3 & F4 & F5). rewrite F1 in LV.
    apply validate_wpl_ok in VW as [[LB UB] V0]. rewrite F2 in LB. rewrite F3 in UB. rewrite F4, F5 in V0.
    rewrite fes_to_bytes_length in L33, LSK.
    apply validate_checksum_ok in VC as [_ V]; [|unfold code_for; destruct (v =? 0); vm_compute; discriminate].
    split; [|split; [reflexivity|cbn [a_blinder]; split; [reflexivity|split; assumption]]].
    unfold shape_ok. cbn [a_payload a_blinder]. split; [assumption|]. split; [exact PL|]. split.
    + intros ->. specialize (V0 eq_refl). lia.
    + exists h, d, (v :: rest). repeat split; try assumption; try (unfold code_for in V; unfold required_code; destruct (v =? 0); exact V).
  - destruct (segwit_decode cfg_bech s) as [[v data]|] eqn:D; [|discriminate]. destruct (prog_len_bad data) eqn:PL; [discriminate|].
    injection E as <-. destruct (segwit_decode_inv _ _ _ _ D) as (h & d & w & rest & body & R & P & S & -> & LV & VC & _ & F & VP & VW & ->).
    destruct cfg_bech_facts as (F1 & F2 & F3 & F4 & F5). rewrite F1 in LV.
    apply validate_wpl_ok in VW as [[LB UB] V0]. rewrite F2 in LB. rewrite F3 in UB. rewrite F4, F5 in V0.
    apply validate_checksum_ok in VC as [_ V]; [|unfold code_for; destruct (v =? 0); vm_compute; discriminate].
    split; [|split; reflexivity]. unfold shape_ok. cbn [a_payload a_blinder]. rewrite fes_to_bytes_length. repeat split; try assumption; try lia.
    exists h, d, (v :: rest). repeat split; try assumption; try (unfold code_for in V; unfold required_code; destruct (v =? 0); exact V). Qed.

(* C06_parsed_shape *)
Theorem parsed_shape s p a : parse_with_params H pkv s p = AOk a -> shape_ok s a /\ a_params a = p.
Proof. unfold parse_with_params. intros E. destruct (_ || _).
  - destruct (from_bech32_shape _ _ _ _ E) as (A & B & _). now split.
  - destruct (too_long_for_base58 s); [discriminate|]. destruct (b58_decode_check H s) as [data|]; [|discriminate].
    destruct (from_base58_shape _ _ _ s E) as (A & B & _). now split. Qed.

(* FromStr is parse_with_params of one built-in network *)
Lemma from_str_bech_none s prefix nets : from_str_bech pkv s prefix nets = None ->
  forall p, In p nets -> match_prefix prefix (p_bech p) = false /\ match_prefix prefix (p_blech p) = false.
Proof. induction nets as [|net r IH]; intros E p I; [contradiction|]. cbn [from_str_bech] in E.
  destruct (match_prefix prefix (p_bech net)) eqn:MB; [discriminate|]. destruct (match_prefix prefix (p_blech net)) eqn:ML; [discriminate|].
  destruct I as [<-|I]; [now split|now apply IH]. Qed.
Theorem from_str_is_parse s a : from_str H pkv s = AOk a -> exists p, In p builtin /\ parse_with_params H pkv s p = AOk a.
Proof. intros E. pose proof E as E0. unfold from_str in E. destruct (from_str_bech pkv s (find_prefix s) builtin) as [r|] eqn:FB.
  - subst r. set (prefix := find_prefix s) in *.
    assert (G : forall nets, (forall q, In q nets -> In q builtin) -> from_str_bech pkv s prefix nets = Some (AOk a) ->
                exists p bl, In p builtin /\ match_prefix prefix (hrp_of p bl) = true /\ from_bech32 pkv s bl p = AOk a).
    { induction nets as [|net r IH]; intros SUB F; [discriminate|]. cbn [from_str_bech] in F.
      destruct (match_prefix prefix (p_bech net)) eqn:MB; [exists net, false; split; [apply SUB; now left|split; [exact MB|congruence]]|].
      destruct (match_prefix prefix (p_blech net)) eqn:ML; [exists net, true; split; [apply SUB; now left|split; [exact ML|congruence]]|].
      apply IH; [intros q Iq; apply SUB; now right|assumption]. }
    destruct (G builtin (fun q Iq => Iq) FB) as (p & bl & Ip & M & F). exists p. split; [assumption|].
    unfold parse_with_params. fold prefix. unfold match_prefix in *. destruct bl; cbn [hrp_of] in M.
    + rewrite M, orb_true_r. exact F.
    + rewrite M. cbn [orb]. destruct (eq_lower (p_blech p) prefix) eqn:ML; [exfalso|exact F].
      destruct (builtin_hrps_distinct p p true false Ip Ip (eq_lower_trans_r _ _ _ ML M)) as [_ X]. discriminate.
  - pose proof (from_str_bech_none _ _ _ FB) as NM.
    destruct (too_long_for_base58 s) eqn:TL; [discriminate|]. destruct (b58_decode_check H s) as [[|p0 data]|] eqn:DC; try discriminate.
    assert (G : forall nets, (forall q, In q nets -> In q builtin) -> from_str_b58 pkv (p0 :: data) (b2n p0) nets = AOk a ->
                exists p, In p builtin /\ from_base58 pkv (p0 :: data) p = AOk a).
    { induction nets as [|net r IH]; intros SUB F; [discriminate|]. cbn [from_str_b58] in F. destruct (_ || _).
      - exists net. split; [apply SUB; now left|assumption]. - apply IH; [intros q Iq; apply SUB; now right|assumption]. }
    destruct (G builtin (fun q Iq => Iq) E) as (p & Ip & F). exists p. split; [assumption|].
    unfold parse_with_params. destruct (NM p Ip) as [-> ->]. cbn [orb]. now rewrite TL, DC. Qed.

(* C06_one_network.  Two built-in networks accept the same string only in the residual case where one reads it as a segwit
   string and the other as base58check (which needs an accidental SHA-256d checksum match). *)
Definition segwit_path (s : bytes) (p : params) : bool := match_prefix (find_prefix s) (p_bech p) || match_prefix (find_prefix s) (p_blech p).

(* the nine version bytes: blinded prefixes pairwise distinct, {p2pkh, p2sh} sets pairwise disjoint (recomputed from Gen/Tables.v) *)
Lemma builtin_prefixes_distinct p p' : In p builtin -> In p' builtin ->
  (p_blinded p = p_blinded p' -> p = p') /\
  ((p_p2pkh p = p_p2pkh p' \/ p_p2pkh p = p_p2sh p' \/ p_p2sh p = p_p2pkh p' \/ p_p2sh p = p_p2sh p') -> p = p').
Proof. intros I I'. cbn in I, I'. destruct I as [<-|[<-|[<-|[]]]], I' as [<-|[<-|[<-|[]]]]; split; intros X; try reflexivity; vm_compute in X;
  repeat match goal with X : _ \/ _ |- _ => destruct X as [X|X] end; discriminate. Qed.

Lemma from_base58_prefix data p a : from_base58 pkv data p = AOk a ->
  exists bp bd, data = bp :: bd /\
    ((b2n bp = p_blinded p /\ length bd = 54%nat) \/ (b2n bp <> p_blinded p /\ length bd = 20%nat /\ (b2n bp = p_p2pkh p \/ b2n bp = p_p2sh p))).
Proof. unfold from_base58. intros E. destruct data as [|bp bd]; [discriminate|]. exists bp, bd. split; [reflexivity|]. cbv zeta in E.
  destruct (N.eqb_spec (b2n bp) (p_blinded p)) as [EB|NB].
  - left. destruct bd as [|prefix pkh]; [discriminate|]. destruct (Nat.eqb_spec (length pkh) 53) as [L|]; [|discriminate]. cbn [length]. split; [assumption|lia].
  - right. destruct (Nat.eqb_spec (length bd) 20) as [L|]; [|discriminate]. cbn [negb] in E. split; [assumption|split; [assumption|]].
    destruct (N.eqb_spec (b2n bp) (p_p2pkh p)); [now left|]. destruct (N.eqb_spec (b2n bp) (p_p2sh p)); [now right|discriminate]. Qed.

Theorem one_network s p1 p2 a1 a2 : In p1 builtin -> In p2 builtin ->
  parse_with_params H pkv s p1 = AOk a1 -> parse_with_params H pkv s p2 = AOk a2 ->
  p1 = p2 \/ (segwit_path s p1 <> segwit_path s p2 /\ exists d, b58_decode_check H s = Ok58 d).
Proof. intros I1 I2 E1 E2. unfold parse_with_params in E1, E2.
  destruct (match_prefix (find_prefix s) (p_bech p1) || match_prefix (find_prefix s) (p_blech p1)) eqn:S1;
  destruct (match_prefix (find_prefix s) (p_bech p2) || match_prefix (find_prefix s) (p_blech p2)) eqn:S2.
  - left. unfold match_prefix in *. apply orb_true_iff in S1, S2.
    assert (X1 : exists b1, eq_lower (hrp_of p1 b1) (find_prefix s) = true) by (destruct S1; [exists false|exists true]; assumption).
    assert (X2 : exists b2, eq_lower (hrp_of p2 b2) (find_prefix s) = true) by (destruct S2; [exists false|exists true]; assumption).
    destruct X1 as [b1 X1], X2 as [b2 X2]. exact (proj1 (builtin_hrps_distinct p1 p2 b1 b2 I1 I2 (eq_lower_trans_r _ _ _ X1 X2))).
  - right. unfold segwit_path. rewrite S1, S2. split; [discriminate|]. destruct (too_long_for_base58 s); [discriminate|].
    destruct (b58_decode_check H s) as [d|]; [eauto|discriminate].
  - right. unfold segwit_path. rewrite S1, S2. split; [discriminate|]. destruct (too_long_for_base58 s); [discriminate|].
    destruct (b58_decode_check H s) as [d|]; [eauto|discriminate].
  - left. destruct (too_long_for_base58 s); [discriminate|]. destruct (b58_decode_check H s) as [data|]; [|discriminate].
    destruct (from_base58_prefix _ _ _ E1) as (bp & bd & -> & C1). destruct (from_base58_prefix _ _ _ E2) as (bp' & bd' & EQ & C2).
    inversion EQ; subst bp' bd'. destruct (builtin_prefixes_distinct p1 p2 I1 I2) as [DB DP].
    destruct C1 as [[B1 L1]|(N1 & L1 & P1)], C2 as [[B2 L2]|(N2 & L2 & P2)]; try lia.
    + apply DB. congruence.
    + apply DP. destruct P1 as [P1|P1], P2 as [P2|P2]; rewrite <- P1, <- P2; tauto. Qed.
End C06Proofs.
