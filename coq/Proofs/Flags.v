(* The pegin / issuance flags folded into bits 30 and 31 of the serialized outpoint index (TxIn encode/decode). *)
From Coq Require Import NArith ZArith Lia Bool ZifyN ZifyBool.
Ltac Zify.zify_post_hook ::= Z.div_mod_to_equations.
Open Scope N_scope.
Set Default Timeout 30.
Definition B30 := 1073741824. Definition B31 := 2147483648. Definition ALL1 := 4294967295. Definition MASK := 1073741823.
Definition join (v : N) (pegin iss : bool) : N := N.lor (N.lor v (if pegin then B30 else 0)) (if iss then B31 else 0).

Lemma lor_disjoint_add a b : N.land a b = 0 -> N.lor a b = a + b.
Proof. intros Hd. rewrite <- N.lxor_lor by assumption. symmetry. now apply N.add_nocarry_lxor. Qed.
Lemma land_pow2_small v k : v < 2 ^ k -> N.land v (2 ^ k) = 0.
Proof. intros Hv. apply N.bits_inj; intros n. rewrite N.land_spec, N.bits_0, N.pow2_bits_eqb.
  destruct (N.eqb_spec k n) as [->|]; [|now rewrite andb_false_r].
  destruct (N.eq_dec v 0) as [->|NZ]; [now rewrite N.bits_0|]. rewrite N.bits_above_log2; [reflexivity|]. now apply N.log2_lt_pow2; [lia|]. Qed.
Lemma join_arith v p i : v < B30 -> join v p i = v + (if p then B30 else 0) + (if i then B31 else 0).
Proof. intros Hv. unfold join.
  assert (H1 : N.lor v (if p then B30 else 0) = v + (if p then B30 else 0)).
  { destruct p; [|now rewrite N.lor_0_r, N.add_0_r]. apply lor_disjoint_add. change B30 with (2^30). now apply land_pow2_small. }
  rewrite H1. destruct i; [|now rewrite N.lor_0_r, N.add_0_r]. apply lor_disjoint_add. change B31 with (2^31). apply land_pow2_small.
  unfold B30 in *. destruct p; lia. Qed.
Lemma land_mask w : N.land w MASK = w mod B30.
Proof. change MASK with (N.ones 30). rewrite N.land_ones. reflexivity. Qed.
Lemma testbit_div w k : N.testbit w k = ((w / 2 ^ k) mod 2 =? 1).
Proof. pose proof (N.testbit_spec' w k) as S. destruct (N.testbit w k); cbn [N.b2n] in S; rewrite <- S; reflexivity. Qed.

(* encoding a canonical triple and reading the flags back *)
Theorem join_read v p i : v < B30 -> ~ (v = MASK /\ p = true /\ i = true) ->
  let w := join v p i in w <> ALL1 /\ w < 2 ^ 32 /\ N.testbit w 31 = i /\ N.testbit w 30 = p /\ N.land w MASK = v.
Proof. intros Hv Hn w. unfold w. rewrite join_arith by assumption. clear w.
  set (w := v + (if p then B30 else 0) + (if i then B31 else 0)).
  assert (Hw : w <> ALL1). { unfold w, B30, B31, ALL1, MASK in *. intro E. destruct p, i; lia. }
  split; [exact Hw|]. rewrite land_mask, !testbit_div. unfold w, B30, B31 in *. change (2 ^ 32) with 4294967296. change (2 ^ 31) with 2147483648. change (2 ^ 30) with 1073741824.
  repeat split.
  - destruct p, i; lia.
  - destruct p, i; apply eq_true_iff_eq; rewrite N.eqb_eq; lia.
  - destruct p, i; apply eq_true_iff_eq; rewrite N.eqb_eq; lia.
  - destruct p, i; lia. Qed.

(* reading the flags of any 32-bit word other than 0xffffffff and re-encoding *)
Theorem read_join w : w < 2 ^ 32 -> w <> ALL1 ->
  join (N.land w MASK) (N.testbit w 30) (N.testbit w 31) = w /\ N.land w MASK < B30.
Proof. intros Hw NE. rewrite land_mask.
  assert (Hv : w mod B30 < B30) by (apply N.mod_upper_bound; unfold B30; lia).
  split; [|exact Hv]. rewrite join_arith by exact Hv. rewrite !testbit_div.
  unfold B30, B31 in *. change (2^32) with 4294967296 in Hw. change (2 ^ 31) with 2147483648. change (2 ^ 30) with 1073741824.
  destruct ((w / 1073741824) mod 2 =? 1) eqn:E1; destruct ((w / 2147483648) mod 2 =? 1) eqn:E2;
    rewrite ?N.eqb_eq, ?N.eqb_neq in *; lia. Qed.
(* the one non-canonical triple: index 0x3fffffff with both flags encodes to the coinbase index *)
Example noncanonical_triple : join MASK true true = ALL1. Proof. reflexivity. Qed.
