(* C10, allocation: the instrumented decoders of Model/Alloc.v are the decoders of C01 (by reflexivity), and what they
   reserve is bounded by  K + k * |input|  where K counts one MAX_VEC_SIZE per nesting level of length-prefixed vectors.
   The law is compositional:
     al_min  : a successful decode consumed at least m bytes
     al_paid : on success, everything reserved is paid for by consumed input at rate k
     al_fail : on failure, at most K bytes are reserved beyond what the consumed input pays for at rate k *)
From Coq Require Import List NArith ZArith Lia Bool ZifyN ZifyBool ZifyNat.
From Coq.Strings Require Import Byte.
From EV Require Import Base.Bytes Base.Codec Model.Tx Model.Block Model.Alloc Proofs.Tx Proofs.Block.
Import ListNotations.
Ltac Zify.zify_post_hook ::= Z.div_mod_to_equations.
Open Scope N_scope.
Set Default Timeout 60.

Definition len (bs : bytes) : N := N.of_nat (length bs).

Record ALaw {A} (m k K : N) (c : acodec A) : Prop := {
  al_min  : forall bs v rest, dec (ac c) bs = Some (v, rest) -> len rest + m <= len bs;
  al_paid : forall bs v rest, dec (ac c) bs = Some (v, rest) -> rsv c bs + k * len rest <= k * len bs;
  al_fail : forall bs, dec (ac c) bs = None -> rsv c bs <= K + k * len bs }.
Arguments al_min {A m k K c}. Arguments al_paid {A m k K c}. Arguments al_fail {A m k K c}.

Lemma alaw_weaken {A} m k K m' k' K' (c : acodec A) : ALaw m k K c -> m' <= m -> k <= k' -> K <= K' -> ALaw m' k' K' c.
Proof. intros [Hm Hp Hf] L1 L2 L3. split.
  - intros bs v rest D. specialize (Hm _ _ _ D). lia.
  - intros bs v rest D. specialize (Hm _ _ _ D). specialize (Hp _ _ _ D). nia.
  - intros bs D. specialize (Hf _ D). nia. Qed.
(* the statement of the property: whatever the input, accepted or not *)
Lemma alaw_bound {A} m k K (c : acodec A) : ALaw m k K c -> forall bs, rsv c bs <= K + k * len bs.
Proof. intros [Hm Hp Hf] bs. destruct (dec (ac c) bs) as [[v rest]|] eqn:D.
  - specialize (Hp _ _ _ D). lia.
  - now apply Hf. Qed.

Lemma alaw_leaf {A} m (c : codec A) : (forall bs v rest, dec c bs = Some (v, rest) -> len rest + m <= len bs) -> ALaw m 0 0 (a_leaf c).
Proof. intros H. split; cbn [a_leaf ac rsv]; intros; try lia. eauto. Qed.
(* any lawful codec consumes a prefix *)
Lemma lawful_min0 {A} (c : codec A) : Lawful c -> forall bs v rest, dec c bs = Some (v, rest) -> len rest + 0 <= len bs.
Proof. intros L bs v rest D. apply (l_exact L) in D. subst bs. unfold len. rewrite app_length. lia. Qed.
Lemma lawful_min {A} (c : codec A) m : Lawful c -> (forall v, wf c v = true -> m <= len (enc c v)) ->
  forall bs v rest, dec c bs = Some (v, rest) -> len rest + m <= len bs.
Proof. intros L H bs v rest D. pose proof (l_wf L _ _ _ D) as W. apply (l_exact L) in D. subst bs. specialize (H v W). unfold len in *. rewrite app_length. lia. Qed.

Lemma alaw_pair {A B} m1 m2 k K1 K2 (ca : acodec A) (cb : acodec B) :
  ALaw m1 k K1 ca -> ALaw m2 k K2 cb -> ALaw (m1 + m2) k (N.max K1 K2) (a_pair ca cb).
Proof. intros [Am Ap Af] [Bm Bp Bf]. split; cbn [a_pair ac rsv c_pair dec].
  - intros bs [a b] rest D. destruct (dec (ac ca) bs) as [[a' r]|] eqn:Da; [|discriminate]. destruct (dec (ac cb) r) as [[b' r']|] eqn:Db; [|discriminate].
    inversion D; subst. specialize (Am _ _ _ Da). specialize (Bm _ _ _ Db). lia.
  - intros bs [a b] rest D. destruct (dec (ac ca) bs) as [[a' r]|] eqn:Da; [|discriminate]. destruct (dec (ac cb) r) as [[b' r']|] eqn:Db; [|discriminate].
    inversion D; subst. specialize (Ap _ _ _ Da). specialize (Bp _ _ _ Db). lia.
  - intros bs D. destruct (dec (ac ca) bs) as [[a' r]|] eqn:Da.
    + destruct (dec (ac cb) r) as [[b' r']|] eqn:Db; [discriminate|]. specialize (Ap _ _ _ Da). specialize (Bf _ Db). lia.
    + specialize (Af _ Da). lia. Qed.
Lemma alaw_dep {A B} m1 m2 k K1 K2 (ca : acodec A) (cb : A -> acodec B) :
  ALaw m1 k K1 ca -> (forall a, ALaw m2 k K2 (cb a)) -> ALaw (m1 + m2) k (N.max K1 K2) (a_dep ca cb).
Proof. intros [Am Ap Af] HB. split; cbn [a_dep ac rsv c_dep dec].
  - intros bs [a b] rest D. destruct (dec (ac ca) bs) as [[a' r]|] eqn:Da; [|discriminate]. destruct (dec (ac (cb a')) r) as [[b' r']|] eqn:Db; [|discriminate].
    inversion D; subst. specialize (Am _ _ _ Da). pose proof (al_min (HB a) _ _ _ Db). lia.
  - intros bs [a b] rest D. destruct (dec (ac ca) bs) as [[a' r]|] eqn:Da; [|discriminate]. destruct (dec (ac (cb a')) r) as [[b' r']|] eqn:Db; [|discriminate].
    inversion D; subst. specialize (Ap _ _ _ Da). pose proof (al_paid (HB a) _ _ _ Db). lia.
  - intros bs D. destruct (dec (ac ca) bs) as [[a' r]|] eqn:Da.
    + destruct (dec (ac (cb a')) r) as [[b' r']|] eqn:Db; [discriminate|]. specialize (Ap _ _ _ Da). pose proof (al_fail (HB a') _ Db). lia.
    + specialize (Af _ Da). lia. Qed.
Lemma alaw_conv {A B} m k K (c : acodec A) (to : A -> option B) from wfB : ALaw m k K c -> ALaw m k K (a_conv c to from wfB).
Proof. intros [Am Ap Af]. split; cbn [a_conv ac rsv c_conv dec].
  - intros bs v rest D. destruct (dec (ac c) bs) as [[a r]|] eqn:Da; [|discriminate]. destruct (to a); [|discriminate]. inversion D; subst. eauto.
  - intros bs v rest D. destruct (dec (ac c) bs) as [[a r]|] eqn:Da; [|discriminate]. destruct (to a); [|discriminate]. inversion D; subst. eauto.
  - intros bs D. destruct (dec (ac c) bs) as [[a r]|] eqn:Da.
    + specialize (Ap _ _ _ Da). lia.
    + specialize (Af _ Da). lia. Qed.
Lemma alaw_guard {A} m k K (c : acodec A) p : ALaw m k K c -> ALaw m k K (a_guard c p).
Proof. intros [Am Ap Af]. split; cbn [a_guard ac rsv c_guard dec].
  - intros bs v rest D. destruct (dec (ac c) bs) as [[a r]|] eqn:Da; [|discriminate]. destruct (p a); [|discriminate]. inversion D; subst. eauto.
  - intros bs v rest D. destruct (dec (ac c) bs) as [[a r]|] eqn:Da; [|discriminate]. destruct (p a); [|discriminate]. inversion D; subst. eauto.
  - intros bs D. destruct (dec (ac c) bs) as [[a r]|] eqn:Da.
    + specialize (Ap _ _ _ Da). lia.
    + specialize (Af _ Da). lia. Qed.
Lemma alaw_if {A} m k K (b : bool) (x y : acodec A) : ALaw m k K x -> ALaw m k K y -> ALaw m k K (a_if b x y).
Proof. intros Hx Hy. destruct b; [destruct Hx as [a p f]|destruct Hy as [a p f]]; split; cbn [a_if ac rsv]; auto. Qed.

Lemma alaw_vecn {A} m k K (c : acodec A) : ALaw m k K c -> forall n, ALaw (N.of_nat n * m) k K (a_vecn c n).
Proof. intros [Am Ap Af] n. split; cbn [a_vecn ac rsv c_vecn dec].
  - induction n as [|n IH]; cbn [vn_dec]; intros bs l rest D.
    + inversion D; subst. lia.
    + destruct (dec (ac c) bs) as [[a r]|] eqn:Da; [|discriminate]. destruct (vn_dec (ac c) n r) as [[l' r']|] eqn:Dl; [|discriminate]. inversion D; subst.
      specialize (Am _ _ _ Da). specialize (IH _ _ _ Dl). lia.
  - induction n as [|n IH]; cbn [vn_dec rsv_n]; intros bs l rest D.
    + inversion D; subst. lia.
    + destruct (dec (ac c) bs) as [[a r]|] eqn:Da; [|discriminate]. destruct (vn_dec (ac c) n r) as [[l' r']|] eqn:Dl; [|discriminate]. inversion D; subst.
      specialize (Ap _ _ _ Da). specialize (IH _ _ _ Dl). lia.
  - induction n as [|n IH]; cbn [vn_dec rsv_n]; intros bs D.
    + discriminate.
    + destruct (dec (ac c) bs) as [[a r]|] eqn:Da.
      * destruct (vn_dec (ac c) n r) as [[l' r']|] eqn:Dl; [discriminate|]. specialize (Ap _ _ _ Da). specialize (IH _ Dl). lia.
      * specialize (Af _ Da). lia. Qed.

Lemma vi_dec_min bs n r : vi_dec bs = Some (n, r) -> len r + 1 <= len bs.
Proof. intros D. pose proof (l_exact c_varint_lawful _ _ _ D) as E. cbn [c_varint enc] in E. subst bs. unfold len. rewrite app_length.
  assert (1 <= length (vi_enc n))%nat; [|lia]. unfold vi_enc. repeat (destruct (_ <? _)); cbn [length]; lia. Qed.

Lemma cdiv_mul sz m : 1 <= m -> sz <= cdiv sz m * m.
Proof. intros H. unfold cdiv. nia. Qed.

Lemma alaw_vec {A} m k K (c : acodec A) sz maxvec : 1 <= m -> ALaw m k K c -> ALaw 1 (k + cdiv sz m) (maxvec + K) (a_vec c sz maxvec).
Proof. intros M1 L. pose proof (cdiv_mul sz m M1) as Q. split; cbn [a_vec ac rsv c_vec dec].
  - intros bs l rest D. destruct (vi_dec bs) as [[n r]|] eqn:Dv; [|discriminate]. destruct (maxvec / sz <? n); [discriminate|].
    pose proof (vi_dec_min _ _ _ Dv). pose proof (al_min (alaw_vecn m k K c L (N.to_nat n)) r l rest D). lia.
  - intros bs l rest D. destruct (vi_dec bs) as [[n r]|] eqn:Dv; [|discriminate]. destruct (maxvec / sz <? n); [discriminate|].
    pose proof (vi_dec_min _ _ _ Dv) as V. pose proof (al_min (alaw_vecn m k K c L (N.to_nat n)) r l rest D) as Hm.
    pose proof (al_paid (alaw_vecn m k K c L (N.to_nat n)) r l rest D) as Hp. cbn [a_vecn rsv] in Hp. rewrite Nnat.N2Nat.id in Hm.
    assert (n * sz <= cdiv sz m * (len r - len rest)) by nia. nia.
  - intros bs D. destruct (vi_dec bs) as [[n r]|] eqn:Dv; [|lia]. destruct (N.ltb_spec (maxvec / sz) n) as [|Hn]; [lia|].
    pose proof (vi_dec_min _ _ _ Dv) as V. pose proof (al_fail (alaw_vecn m k K c L (N.to_nat n)) r D) as Hf. cbn [a_vecn rsv] in Hf.
    assert (n * sz <= maxvec). { destruct (N.eq_dec sz 0) as [->|NZ]; [lia|]. pose proof (N.mul_div_le maxvec sz NZ). nia. }
    nia. Qed.

Lemma alaw_varbytes maxvec : ALaw 1 1 maxvec (a_varbytes maxvec).
Proof. split; cbn [a_varbytes ac rsv c_varbytes dec].
  - intros bs v rest D. destruct (vi_dec bs) as [[n r]|] eqn:Dv; [|discriminate]. destruct (maxvec <? n); [discriminate|].
    pose proof (vi_dec_min _ _ _ Dv). apply take_spec in D as [-> _]. unfold len in *. rewrite app_length in *. lia.
  - intros bs v rest D. destruct (vi_dec bs) as [[n r]|] eqn:Dv; [|discriminate]. destruct (maxvec <? n); [discriminate|].
    pose proof (vi_dec_min _ _ _ Dv). apply take_spec in D as [-> Hl]. unfold len in *. rewrite app_length in *. lia.
  - intros bs D. destruct (vi_dec bs) as [[n r]|] eqn:Dv; [|lia]. destruct (N.ltb_spec maxvec n); lia. Qed.

(* ------------------------------------------------------------------------------------------------ the assembled decoders *)
Section ATX.
Variable pt_ok : bytes -> bool.
Variable maxvec : N.
Variables sz_txin sz_txout sz_vecu8 sz_tx : N.
Notation cap_txin := (maxvec / sz_txin). Notation cap_txout := (maxvec / sz_txout).
Notation cap_vecu8 := (maxvec / sz_vecu8). Notation cap_tx := (maxvec / sz_tx).
Notation A_TX := (a_tx pt_ok maxvec sz_txin sz_txout sz_vecu8).
Notation A_BLOCK := (a_block pt_ok maxvec sz_txin sz_txout sz_vecu8 sz_tx).

(* the instrumented decoders ARE the decoders C01 is about *)
Lemma a_tx_is_c_tx : ac A_TX = c_tx pt_ok maxvec cap_txin cap_txout cap_vecu8. Proof. reflexivity. Qed.
Lemma a_txin_is_c_txin : ac (a_txin_nowit pt_ok maxvec) = c_txin pt_ok maxvec. Proof. reflexivity. Qed.
Lemma a_txout_is_c_txout : ac (a_txout_nowit pt_ok maxvec) = c_txout pt_ok maxvec. Proof. reflexivity. Qed.
Lemma a_params_is_c_params : ac (a_params maxvec sz_vecu8) = c_params maxvec cap_vecu8. Proof. reflexivity. Qed.
Lemma a_header_is_c_header : ac (a_header maxvec sz_vecu8) = c_header maxvec cap_vecu8. Proof. reflexivity. Qed.
Lemma a_block_is_c_block : ac A_BLOCK = c_block pt_ok maxvec cap_txin cap_txout cap_vecu8 cap_tx. Proof. reflexivity. Qed.

Lemma min_fixed k bs v rest : dec (c_fixed k) bs = Some (v, rest) -> len rest + N.of_nat k <= len bs.
Proof. cbn. intros D. apply take_spec in D as [-> L]. unfold len. rewrite app_length. lia. Qed.
Lemma min_le k bs v rest : dec (c_le k) bs = Some (v, rest) -> len rest + N.of_nat k <= len bs.
Proof. cbn. intros D. apply le_dec_exact in D as [-> _]. unfold len. rewrite app_length, le_enc_length. lia. Qed.
Lemma min_u8 bs v rest : dec c_u8 bs = Some (v, rest) -> len rest + 1 <= len bs.
Proof. cbn. destruct bs; [discriminate|]. intros D. inversion D; subst. unfold len. cbn [length]. lia. Qed.
Lemma conf_nonempty lo hi c : conf_wf pt_ok lo hi c = true -> 1 <= len c.
Proof. destruct c; [discriminate|]. intros _. unfold len. cbn [length]. lia. Qed.
Lemma min_value bs v rest : dec (c_value pt_ok) bs = Some (v, rest) -> len rest + 1 <= len bs.
Proof. apply (lawful_min _ 1 (c_value_lawful pt_ok)). intros [|n|c] W; cbn [c_value enc value_enc wf value_wf] in *; unfold len; cbn [length]; try lia.
  apply conf_nonempty in W. exact W. Qed.
Lemma min_asset bs v rest : dec (c_asset pt_ok) bs = Some (v, rest) -> len rest + 1 <= len bs.
Proof. apply (lawful_min _ 1 (c_asset_lawful pt_ok)). intros [|n|c] W; cbn [c_asset enc asset_enc wf asset_wf] in *; unfold len; cbn [length]; try lia.
  apply conf_nonempty in W. exact W. Qed.
Lemma min_nonce bs v rest : dec (c_nonce pt_ok) bs = Some (v, rest) -> len rest + 1 <= len bs.
Proof. apply (lawful_min _ 1 (c_nonce_lawful pt_ok)). intros [|n|c] W; cbn [c_nonce enc nonce_enc wf nonce_wf] in *; unfold len; cbn [length]; try lia.
  apply conf_nonempty in W. exact W. Qed.

Local Ltac leaf0 L := eapply alaw_weaken; [apply (alaw_leaf 0); apply lawful_min0; L| lia | lia | lia].
Lemma al_script k : 1 <= k -> ALaw 1 k maxvec (a_script maxvec).
Proof. intros. eapply alaw_weaken; [apply alaw_varbytes|lia|lia|lia]. Qed.
Lemma al_hash32 k : ALaw 32 k 0 a_hash32.
Proof. eapply alaw_weaken; [apply (alaw_leaf 32); intros bs v rest D; apply (min_fixed 32 _ _ _ D)|lia|lia|lia]. Qed.
Lemma al_u32 k : ALaw 4 k 0 a_u32.
Proof. eapply alaw_weaken; [apply (alaw_leaf 4); intros bs v rest D; apply (min_le 4 _ _ _ D)|lia|lia|lia]. Qed.
Lemma al_optproof ok k : 1 <= k -> ALaw 1 k maxvec (a_optproof maxvec ok).
Proof. intros. apply alaw_conv. eapply alaw_weaken; [apply alaw_varbytes|lia|lia|lia]. Qed.
Lemma al_stack k : k_stack sz_vecu8 <= k -> ALaw 1 k (2 * maxvec) (a_stack maxvec sz_vecu8).
Proof. intros Hk. eapply alaw_weaken; [apply (alaw_vec 1 1 maxvec); [lia|apply alaw_varbytes]| lia | | lia].
  unfold k_stack in Hk. unfold cdiv. replace (sz_vecu8 + 1 - 1) with sz_vecu8 by lia. rewrite N.div_1_r. lia. Qed.

Lemma al_inwit k : k_stack sz_vecu8 <= k -> ALaw 0 k (2 * maxvec) (a_inwit maxvec sz_vecu8).
Proof. intros Hk. assert (1 <= k) by (unfold k_stack in Hk; lia). apply alaw_conv.
  eapply alaw_weaken; [apply alaw_pair; [apply (al_optproof _ k); assumption|apply alaw_pair; [apply (al_optproof _ k); assumption|apply alaw_pair; apply (al_stack k Hk)]]|lia|lia|lia]. Qed.
Lemma al_outwit k : 1 <= k -> ALaw 0 k (2 * maxvec) (a_outwit maxvec).
Proof. intros Hk. apply alaw_conv. eapply alaw_weaken; [apply alaw_pair; apply (al_optproof _ k Hk)|lia|lia|lia]. Qed.

Lemma al_txin k : 1 <= k -> ALaw 41 k maxvec (a_txin_nowit pt_ok maxvec).
Proof. intros Hk. apply alaw_conv. unfold a_txin_wire.
  eapply alaw_weaken; [apply (alaw_dep 41 0 k maxvec 0)| lia | lia | lia].
  - unfold a_txin_head. eapply alaw_weaken; [apply alaw_pair; apply alaw_pair; [apply (al_hash32 k)|apply (al_u32 k)|apply (al_script k Hk)|apply (al_u32 k)]|lia|lia|lia].
  - intros h. apply alaw_if.
    + leaf0 ltac:(apply c_issuance_lawful).
    + leaf0 ltac:(apply c_noiss_lawful). Qed.
Lemma al_txout k : 1 <= k -> ALaw 4 k maxvec (a_txout_nowit pt_ok maxvec).
Proof. intros Hk. apply alaw_conv.
  eapply alaw_weaken; [apply alaw_pair; [|apply alaw_pair; [|apply alaw_pair; [|apply (al_script k Hk)]]]| | |].
  - eapply alaw_weaken; [apply (alaw_leaf 1); apply min_asset|apply N.le_refl|apply N.le_0_l|apply N.le_refl].
  - eapply alaw_weaken; [apply (alaw_leaf 1); apply min_value|apply N.le_refl|apply N.le_0_l|apply N.le_refl].
  - eapply alaw_weaken; [apply (alaw_leaf 1); apply min_nonce|apply N.le_refl|apply N.le_0_l|apply N.le_refl].
  - lia. - lia. - lia. Qed.

Lemma k_tx_ge : 1 + cdiv sz_txin 41 <= k_tx sz_txin sz_txout sz_vecu8 /\ 1 + cdiv sz_txout 4 <= k_tx sz_txin sz_txout sz_vecu8
  /\ k_stack sz_vecu8 <= k_tx sz_txin sz_txout sz_vecu8 /\ 1 <= k_tx sz_txin sz_txout sz_vecu8.
Proof. unfold k_tx, k_stack. lia. Qed.

Theorem al_tx : ALaw 11 (k_tx sz_txin sz_txout sz_vecu8) (2 * maxvec) A_TX.
Proof. destruct k_tx_ge as (G1 & G2 & G3 & G4). set (k := k_tx sz_txin sz_txout sz_vecu8) in *.
  apply alaw_conv. unfold a_tx_wire.
  eapply alaw_weaken; [apply (alaw_dep 11 0 k (2 * maxvec) (2 * maxvec))| lia | lia | lia].
  - unfold a_tx_head.
    eapply alaw_weaken; [apply alaw_pair; [apply (al_u32 k)|apply alaw_pair; [|apply alaw_pair; [|apply alaw_pair; [|apply (al_u32 k)]]]]| | |].
    + eapply alaw_weaken; [apply (alaw_leaf 1); apply min_u8|apply N.le_refl|apply N.le_0_l|apply N.le_refl].
    + eapply alaw_weaken; [apply (alaw_vec 41 1 maxvec); [lia|apply (al_txin 1); lia]|apply N.le_refl|exact G1|apply N.le_refl].
    + eapply alaw_weaken; [apply (alaw_vec 4 1 maxvec); [lia|apply (al_txout 1); lia]|apply N.le_refl|exact G2|apply N.le_refl].
    + lia. + lia. + lia.
  - intros h. unfold a_tx_wits. apply alaw_if.
    + eapply alaw_weaken; [apply alaw_pair; apply alaw_vecn; [apply (al_inwit k G3)|apply (al_outwit k G4)]|lia|lia|lia].
    + leaf0 ltac:(apply c_nowits_lawful). Qed.

Lemma al_fullparams k : k_stack sz_vecu8 <= k -> ALaw 0 k (2 * maxvec) (a_fullparams maxvec sz_vecu8).
Proof. intros Hk. assert (1 <= k) by (unfold k_stack in Hk; lia). apply alaw_conv.
  eapply alaw_weaken; [apply alaw_pair; [apply (al_script k); assumption|apply alaw_pair; [apply (al_u32 k)|apply alaw_pair; [apply (al_script k); assumption|apply alaw_pair; [apply (al_script k); assumption|apply (al_stack k Hk)]]]]|lia|lia|lia]. Qed.
Lemma al_params k : k_stack sz_vecu8 <= k -> ALaw 0 k (2 * maxvec) (a_params maxvec sz_vecu8).
Proof. intros Hk. assert (1 <= k) by (unfold k_stack in Hk; lia). apply alaw_conv.
  eapply alaw_weaken; [apply (alaw_dep 0 0 k 0 (2 * maxvec))|lia|lia|lia].
  - leaf0 ltac:(apply c_u8_lawful).
  - intros tag. unfold a_params_body. apply alaw_if; [|apply alaw_if; [|apply alaw_if]].
    + eapply alaw_weaken; [apply (alaw_leaf 0); intros bs v rest D; cbn in D; inversion D; subst; lia|lia|lia|lia].
    + apply alaw_conv. eapply alaw_weaken; [apply alaw_pair; [apply (al_script k); assumption|apply alaw_pair; [apply (al_u32 k)|apply (al_hash32 k)]]|lia|lia|lia].
    + apply alaw_conv. apply (al_fullparams k Hk).
    + eapply alaw_weaken; [apply (alaw_leaf 0); intros bs v rest D; discriminate D|lia|lia|lia]. Qed.
Theorem al_header k : k_stack sz_vecu8 <= k -> ALaw 0 k (2 * maxvec) (a_header maxvec sz_vecu8).
Proof. intros Hk. assert (1 <= k) by (unfold k_stack in Hk; lia). apply alaw_conv. unfold a_header_wire.
  eapply alaw_weaken; [apply (alaw_dep 0 0 k 0 (2 * maxvec))|lia|lia|lia].
  - unfold a_header_head. eapply alaw_weaken; [apply alaw_pair; [apply (al_u32 k)|apply alaw_pair; [apply (al_hash32 k)|apply alaw_pair; [apply (al_hash32 k)|apply alaw_pair; apply (al_u32 k)]]]|lia|lia|lia].
  - intros h. apply alaw_if.
    + apply alaw_conv. eapply alaw_weaken; [apply alaw_pair; [apply (al_params k Hk)|apply alaw_pair; [apply (al_params k Hk)|apply (al_stack k Hk)]]|lia|lia|lia].
    + apply alaw_conv. eapply alaw_weaken; [apply alaw_pair; apply (al_script k); assumption|lia|lia|lia]. Qed.

Theorem al_block : ALaw 0 (k_block sz_txin sz_txout sz_vecu8 sz_tx) (3 * maxvec) A_BLOCK.
Proof. set (k := k_block sz_txin sz_txout sz_vecu8 sz_tx).
  assert (G1 : k_stack sz_vecu8 <= k) by (unfold k, k_block; lia).
  assert (G2 : k_tx sz_txin sz_txout sz_vecu8 + cdiv sz_tx 11 <= k) by (unfold k, k_block; lia).
  assert (V : ALaw 0 k (3 * maxvec) (a_vec A_TX sz_tx maxvec)).
  { eapply alaw_weaken; [apply (alaw_vec 11 (k_tx sz_txin sz_txout sz_vecu8) (2 * maxvec)); [lia|apply al_tx]|apply N.le_0_l|exact G2|lia]. }
  apply alaw_conv. eapply alaw_weaken; [apply alaw_pair; [apply (al_header k G1)|exact V]|lia|lia|lia]. Qed.
End ATX.
