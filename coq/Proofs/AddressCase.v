(* The mixed-case rule (C17 HRP clause, C06 case clause): a string with an upper-case and a lower-case letter anywhere — human-readable
   part included — is rejected by check_characters, hence by both segwit decoders, hence never parses as a segwit address. *)
From Coq Require Import List NArith Bool Lia.
From Coq.Strings Require Import Byte.
From EV Require Import Base.Bytes Gen.Tables Model.Bech32 Model.Base58 Model.Address Proofs.Address.
Import ListNotations.
Open Scope N_scope.
Set Default Timeout 30.

Definition mixed_case (s : bytes) : bool := existsb is_upper s && existsb is_lower s.

Lemma check_characters_mixed s : mixed_case s = true -> check_characters s = Err EInvalidChar \/ check_characters s = Err EMixedCase.
Proof. unfold mixed_case, check_characters. intros M. destruct (rsplit x31 s) as [[h d]|].
  - destruct (negb _); [now left|]. rewrite M. now right.
  - destruct (negb _); [now left|]. rewrite M. now right. Qed.

(* every configuration of the segwit decoder (upstream bech32 crate, src/blech32/decode.rs), every string, unbounded *)
Theorem segwit_decode_mixed cfg s : mixed_case s = true ->
  segwit_decode cfg s = Err ETooLong \/ segwit_decode cfg s = Err EInvalidChar \/ segwit_decode cfg s = Err EMixedCase.
Proof. intros M. unfold segwit_decode. destruct (match sw_max_string cfg with Some m => Nat.ltb m (length s) | None => false end); [now left|].
  right. unfold unchecked_new. destruct (check_characters_mixed s M) as [-> | ->]; [now left|now right]. Qed.

Section Case.
Variable H : bytes -> bytes. Variable pkv : bytes -> bool.

Lemma from_bech32_mixed s bl p : mixed_case s = true -> exists e, from_bech32 pkv s bl p = AErr e.
Proof. intros M. unfold from_bech32. destruct bl.
  - destruct (segwit_decode_mixed cfg_blech s M) as [-> |[-> | ->]]; eauto.
  - destruct (segwit_decode_mixed cfg_bech s M) as [-> |[-> | ->]]; eauto. Qed.

(* a mixed-case string never parses as a segwit address — any parameters, FromStr included; where the prefix matches one of the
   network's HRPs (in any letter case) the parse is an error outright *)
Theorem mixed_case_rejected s p : mixed_case s = true ->
  (forall a, parse_with_params H pkv s p = AOk a -> ~ is_segwit a) /\
  (segwit_path s p = true -> exists e, parse_with_params H pkv s p = AErr e).
Proof. intros M. unfold parse_with_params, segwit_path.
  destruct (match_prefix (find_prefix s) (p_bech p) || match_prefix (find_prefix s) (p_blech p)).
  - destruct (from_bech32_mixed s (match_prefix (find_prefix s) (p_blech p)) p M) as [e E]. rewrite E. split; [discriminate|eauto].
  - split; [|discriminate]. intros a E. destruct (too_long_for_base58 s); [discriminate|]. destruct (b58_decode_check H s) as [data|]; [|discriminate].
    exact (from_base58_not_segwit _ _ _ _ E). Qed.
Theorem mixed_case_rejected_from_str s a : mixed_case s = true -> from_str H pkv s = AOk a -> ~ is_segwit a.
Proof. intros M E. destruct (from_str_is_parse H pkv s a E) as (p & _ & E'). exact (proj1 (mixed_case_rejected s p M) a E'). Qed.

(* the HRP clause of C17, case part: whatever letters of the human-readable part are replaced by (or written in) the other case, if the
   result has an upper-case letter in the HRP and a lower-case letter in the data part (or the other way round) it does not parse *)
Lemma mixed_case_app h d : (existsb is_upper h = true /\ existsb is_lower d = true) \/ (existsb is_lower h = true /\ existsb is_upper d = true) ->
  mixed_case (h ++ x31 :: d) = true.
Proof. unfold mixed_case. rewrite !existsb_app. cbn [existsb]. intros [[A B]|[A B]]; rewrite A, B; rewrite ?orb_true_r; reflexivity. Qed.
Theorem hrp_case_rejected h d p : (existsb is_upper h = true /\ existsb is_lower d = true) \/ (existsb is_lower h = true /\ existsb is_upper d = true) ->
  (forall a, parse_with_params H pkv (h ++ x31 :: d) p = AOk a -> ~ is_segwit a) /\ (forall a, from_str H pkv (h ++ x31 :: d) = AOk a -> ~ is_segwit a).
Proof. intros C. pose proof (mixed_case_app h d C) as M. split; [exact (proj1 (mixed_case_rejected _ p M))|intros a; exact (mixed_case_rejected_from_str _ a M)]. Qed.
End Case.
