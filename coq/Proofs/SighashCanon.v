(* C03 — every transaction that the consensus decoder can return (`wf (c_tx ..)`, C01_tx_decode_exact) is canonical in the sense of
   Model/SighashCommit.v, provided MAX_VEC_SIZE and the element caps are below 2^64. *)
From Coq Require Import List Arith NArith Bool Lia.
From Coq.Strings Require Import Byte.
From EV Require Import Base.Bytes Base.Codec Model.Tx Model.SighashSpec Model.SighashCommit Proofs.Tx.
Import ListNotations.
Open Scope N_scope.
Set Default Timeout 120.

Section CANON.
Variable pt_ok : bytes -> bool.
Variables maxvec ci co cv : N.
Hypothesis Hmax : maxvec < BIG.
Hypothesis Hci : ci < BIG.
Hypothesis Hco : co < BIG.

Lemma forallb_impl0 {A} (p q : A -> bool) l : (forall a, p a = true -> q a = true) -> forallb p l = true -> forallb q l = true.
Proof. intros I. induction l; cbn; auto. intros E. apply andb_true_iff in E as [E1 E2]. now rewrite (I _ E1), IHl. Qed.
Lemma varbytes_mono b : wf (c_varbytes maxvec) b = true -> wf (c_varbytes BIG) b = true.
Proof. cbn [c_varbytes wf]. intros W. apply andb_true_iff in W as [W1 W2]. rewrite W2, andb_true_r. apply N.leb_le in W1. apply N.leb_le. lia. Qed.
Lemma varbytes_len_ok b : wf (c_varbytes maxvec) b = true -> len_ok b = true.
Proof. cbn [c_varbytes wf]. intros W. apply andb_true_iff in W as [W1 _]. apply N.leb_le in W1. unfold len_ok. apply N.ltb_lt. unfold BIG in *. lia. Qed.
Lemma txin_mono x : wf (c_txin pt_ok maxvec) x = true -> wf (c_txin pt_ok BIG) x = true.
Proof. destruct x as [[tx v] pg s q iss w]. unfold c_txin, c_txin_nowit. cbn [c_conv wf]. intros W. apply andb_true_iff in W as [Wb Ww]. apply andb_true_iff. split; [exact Wb|].
  cbn [c_txin_wire c_dep wf c_txin_head c_pair fst snd wire_of_txin in_prev in_pegin in_script in_seq in_iss o_txid o_vout] in *.
  apply andb_true_iff in Ww as [Wh Wi]. apply andb_true_iff in Wh as [Wtv Wsq]. apply andb_true_iff in Wsq as [Ws Wq].
  rewrite Wtv, Wi, Wq. cbn [andb]. rewrite !andb_true_r. exact (varbytes_mono s Ws). Qed.
Lemma txout_mono x : wf (c_txout pt_ok maxvec) x = true -> wf (c_txout pt_ok BIG) x = true.
Proof. destruct x as [a v n s w]. unfold c_txout, c_txout_nowit. cbn [c_conv wf c_pair out_asset out_value out_nonce out_script out_wit]. intros W.
  apply andb_true_iff in W as [Wb W]. apply andb_true_iff in W as [Wa W]. apply andb_true_iff in W as [Wv W]. apply andb_true_iff in W as [Wn Ws].
  rewrite Wb, Wa, Wv, Wn. cbn [andb]. exact (varbytes_mono s Ws). Qed.
Lemma optproof_len ok o : wf (c_optproof maxvec ok) o = true -> len_ok (proof_bytes o) = true.
Proof. unfold c_optproof. cbn [c_conv wf]. intros W. apply andb_true_iff in W as [_ W]. apply varbytes_len_ok. destruct o; exact W. Qed.

Theorem decoded_tx_canonical t : wf (c_tx pt_ok maxvec ci co cv) t = true -> canon_tx pt_ok t = true.
Proof. unfold c_tx. cbn [c_conv wf andb]. unfold c_tx_wire. cbn [c_dep wf]. unfold wire_of_tx. cbn [fst snd]. intros W. apply andb_true_iff in W as [Wh Ww].
  unfold c_tx_head in Wh. cbn [c_pair wf] in Wh. apply andb_true_iff in Wh as [Wver Wh]. apply andb_true_iff in Wh as [_ Wh].
  apply andb_true_iff in Wh as [Wins Wh]. apply andb_true_iff in Wh as [Wouts Wlock].
  cbn [c_vec wf] in Wins, Wouts. apply andb_true_iff in Wins as [Wil Wins]. apply andb_true_iff in Wil as [Wil _]. apply andb_true_iff in Wouts as [Wol Wouts]. apply andb_true_iff in Wol as [Wol _].
  rewrite map_length in Wil, Wol. apply N.leb_le in Wil, Wol. rewrite forallb_map in Wins. rewrite forallb_map in Wouts.
  assert (PI : forallb (fun i => len_ok (proof_bytes (w_amount_rp (in_wit i))) && len_ok (proof_bytes (w_keys_rp (in_wit i)))) (tx_in t) = true /\
               forallb (fun o => len_ok (proof_bytes (w_surj (out_wit o))) && len_ok (proof_bytes (w_range (out_wit o)))) (tx_out t) = true).
  { unfold c_tx_wits, head_flag in Ww. cbn [fst snd] in Ww. destruct (has_witness t) eqn:HW.
    - cbn [N.eqb Pos.eqb] in Ww. cbn [c_pair wf c_vecn] in Ww. apply andb_true_iff in Ww as [Wi Wo]. apply andb_true_iff in Wi as [_ Wi]. apply andb_true_iff in Wo as [_ Wo].
      rewrite forallb_map in Wi. rewrite forallb_map in Wo. split; (eapply forallb_impl0; [|eassumption]); intros x Wx.
      + unfold c_inwit in Wx. cbn [c_conv wf c_pair andb] in Wx. apply andb_true_iff in Wx as [Wa Wx]. apply andb_true_iff in Wx as [Wk _].
        now rewrite (optproof_len _ _ Wa), (optproof_len _ _ Wk).
      + unfold c_outwit in Wx. cbn [c_conv wf c_pair andb] in Wx. apply andb_true_iff in Wx as [Wa Wk]. now rewrite (optproof_len _ _ Wa), (optproof_len _ _ Wk).
    - rewrite has_witness_alt in HW. apply negb_false_iff, andb_true_iff in HW as [Hi Ho]. rewrite forallb_map in Hi. rewrite forallb_map in Ho.
      split; (eapply forallb_impl0; [|eassumption]); intros x Wx.
      + apply inwit_empty_eq in Wx. rewrite Wx. reflexivity.
      + apply outwit_empty_eq in Wx. rewrite Wx. reflexivity. }
  destruct PI as [PI PO]. unfold SighashCommit.canon_tx. apply u32_wf_lt in Wver, Wlock. change (2 ^ 32) with 4294967296 in *.
  repeat (apply andb_true_iff; split); try (apply N.ltb_lt; unfold BIG in *; lia).
  - revert Wins PI. generalize (tx_in t) as l. induction l as [|a l IH]; intros Wins PI; [reflexivity|]. cbn [forallb] in *. apply andb_true_iff in Wins as [Wa Wl]. apply andb_true_iff in PI as [Pa Pl].
    rewrite (IH Wl Pl), andb_true_r. unfold SighashCommit.canon_in. apply andb_true_iff in Pa as [P1 P2]. now rewrite (txin_mono _ Wa), P1, P2.
  - revert Wouts PO. generalize (tx_out t) as l. induction l as [|a l IH]; intros Wouts PO; [reflexivity|]. cbn [forallb] in *. apply andb_true_iff in Wouts as [Wa Wl]. apply andb_true_iff in PO as [Pa Pl].
    rewrite (IH Wl Pl), andb_true_r. unfold SighashCommit.canon_out. apply andb_true_iff in Pa as [P1 P2]. now rewrite (txout_mono _ Wa), P1, P2. Qed.
End CANON.
