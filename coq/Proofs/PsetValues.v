(* C07 — laws of the value canonisers (Model/PsetValues.v): idempotence (all types but TapTree — finding F9), never
   lengthening, and injectivity of the transcribed comparator projections. *)
From Coq Require Import List Arith NArith ZArith Lia Bool ZifyN ZifyBool ZifyNat.
From Coq.Strings Require Import Byte.
From EV Require Import Base.Bytes Base.Codec Gen.Tables Model.Tx Model.BtcTx Model.Taproot Model.PsetRaw Model.PsetValues Proofs.Tx Proofs.BtcTx Proofs.Taproot Proofs.PsetRaw.
Import ListNotations.
Ltac Zify.zify_post_hook ::= Z.div_mod_to_equations.
Open Scope N_scope.
Set Default Timeout 60.

Section VALUES.
Variable maxvec : N.
Variables cap_txin cap_txout cap_vecu8 cap_h32 : N.
Variables pt_ok pk_ok xonly_ok : bytes -> bool.
Variables Hrip Hsha Hh160 Hh256 : bytes -> bytes.
Variables Hleaf Hbranch : bytes -> bytes.
Notation vcanon := (vcanon maxvec cap_txin cap_txout cap_vecu8 cap_h32 pt_ok pk_ok xonly_ok Hrip Hsha Hh160 Hh256 Hleaf Hbranch).
Notation kcanon := (kcanon maxvec cap_txin cap_txout cap_vecu8 cap_h32 pt_ok pk_ok xonly_ok Hrip Hsha Hh160 Hh256 Hleaf Hbranch).
Notation canon_taptree := (canon_taptree maxvec Hleaf Hbranch).

Lemma guard_ok c v x : guard c v = POk x -> x = v /\ c = true.
Proof. unfold guard. destruct c; [intros H; inversion H; auto|discriminate]. Qed.
Lemma guard_true c v : c = true -> guard c v = POk v. Proof. now intros ->. Qed.
Lemma via_exact {A} (c : codec A) : Lawful c -> forall v x, via c v = POk x -> x = v.
Proof. intros L v x H. unfold via in H. destruct (deserialize c v) as [a|] eqn:D; [|discriminate]. inversion H; subst.
  now destruct (deserialize_exact c L _ _ D) as [-> _]. Qed.
Lemma firstn_len_le {A} n (l : list A) : (length (firstn n l) <= length l)%nat.
Proof. rewrite firstn_length. lia. Qed.
Lemma firstn_idem {A} n (l : list A) : firstn n (firstn n l) = firstn n l.
Proof. rewrite firstn_firstn. now rewrite Nat.min_id. Qed.

Local Opaque firstn.
Lemma schnorr_idem v c : canon_schnorr v = POk c -> canon_schnorr c = POk c /\ (length c <= length v)%nat.
Proof. unfold canon_schnorr, len_is. destruct (Nat.eqb_spec (length v) 64) as [E|NE].
  - intros H; injection H as <-. apply Nat.eqb_eq in E. rewrite E. auto.
  - destruct (Nat.eqb_spec (length v) 65) as [E|NE2]; [|discriminate]. destruct (schnorr_hashty_ok (b2n (last v x00))) eqn:K; [|discriminate].
    destruct (N.eqb_spec (b2n (last v x00)) 0) as [Z|NZ]; intros H; injection H as <-.
    + assert (L : length (firstn 64 v) = 64%nat) by (rewrite firstn_length; lia). rewrite L, Nat.eqb_refl. split; [reflexivity|lia].
    + destruct (Nat.eqb_spec (length v) 64); [lia|]. destruct (Nat.eqb_spec (length v) 65); [|lia]. rewrite K.
      destruct (N.eqb_spec (b2n (last v x00)) 0); [contradiction|]. auto. Qed.

(* ---- TapTree: Deserialize then Serialize gives back the accepted bytes.  The builder (C15 model, NodeInfo::combine(child, node)
   since fix aee9a45) holds the leaves in depth-first order with merkle_branch.len() = depth, so Serialize re-writes the
   (depth, version, script) triples it read.  Uses `builder_complete` of Proofs/Taproot.v; the facts about the leaf order are
   proved here. ---- *)
Definition item_enc (it : item) : bytes :=
  match it with ILeaf d s v => n2b d :: v :: enc (c_varbytes maxvec) s | IHidden _ _ => [] end.
Definition is_leaf (it : item) : Prop := match it with ILeaf _ _ _ => True | IHidden _ _ => False end.
Fixpoint no_hidden (t : tree) : Prop := match t with Leaf _ _ => True | Hidden _ => False | Node a b => no_hidden a /\ no_hidden b end.

Lemma taptree_items_exact : forall fuel b items, taptree_items maxvec fuel b = Some items -> b = flat_map item_enc items /\ Forall is_leaf items.
Proof. induction fuel as [|f IH]; intros b items H; [discriminate|]. cbn [taptree_items] in H.
  destruct b as [|d [|v r]]; [inversion H; split; [reflexivity|constructor]|discriminate|].
  destruct (dec (c_varbytes maxvec) r) as [[script rest]|] eqn:D; [|discriminate]. destruct (leafver_ok (b2n v)); [|discriminate].
  destruct (taptree_items maxvec f rest) as [l|] eqn:T; [|discriminate]. inversion H; subst. destruct (IH _ _ T) as [-> F].
  apply (l_exact (c_varbytes_lawful maxvec)) in D. subst r. split; [|constructor; [exact I|exact F]].
  cbn [flat_map item_enc]. rewrite n2b_b2n. cbn [app]. reflexivity. Qed.
Lemma dfs_leaf_only t : forall d, Forall is_leaf (dfs t d) -> no_hidden t.
Proof. induction t as [s v|h|a IHa b IHb]; intros d F; cbn [dfs no_hidden] in *; [exact I|now inversion F|].
  apply Forall_app in F as [Fa Fb]. split; [eapply IHa|eapply IHb]; eauto. Qed.
Lemma pv_node_hash t : n_hash (node_of Hleaf Hbranch t) = root Hleaf Hbranch t.
Proof. induction t as [s v|h|a IHa b IHb]; cbn [node_of root combine_tot n_hash new_leaf new_hidden]; try reflexivity. now rewrite IHa, IHb. Qed.
Lemma pv_node_leaves t : n_leaves (node_of Hleaf Hbranch t) = leaf_paths Hleaf Hbranch t.
Proof. induction t as [s v|h|a IHa b IHb]; cbn [node_of leaf_paths combine_tot n_leaves new_leaf new_hidden]; try reflexivity.
  now rewrite !pv_node_hash, IHa, IHb. Qed.
Lemma leaf_paths_dfs t : no_hidden t -> forall d,
  map (fun l => ILeaf (N.of_nat (d + length (l_branch l))) (l_script l) (l_ver l)) (leaf_paths Hleaf Hbranch t) = dfs t d.
Proof. induction t as [s v|h|a IHa b IHb]; intros NH d; cbn [leaf_paths dfs map no_hidden] in *.
  - cbn [l_branch l_script l_ver length]. now rewrite Nat.add_0_r.
  - contradiction.
  - destruct NH as [Na Nb]. rewrite map_app, !map_map, <- (IHa Na (S d)), <- (IHb Nb (S d)). f_equal; apply map_ext; intros l;
      cbn [snoc l_branch l_script l_ver]; rewrite app_length; cbn [length]; do 2 f_equal; lia. Qed.
Lemma taptree_id v c : canon_taptree v = POk c -> c = v.
Proof. unfold PsetValues.canon_taptree, taptree_node. destruct (taptree_items maxvec (S (length v)) v) as [items|] eqn:T; [|discriminate].
  destruct (run Hleaf Hbranch items []) as [[|[n|] [|? ?]]|] eqn:R; try discriminate. intros H; injection H as <-.
  destruct (builder_complete Hleaf Hbranch items _ R eq_refl) as (t & _ & -> & E & _). injection E as ->.
  destruct (taptree_items_exact _ _ _ T) as [-> F]. pose proof (dfs_leaf_only t 0 F) as NH.
  unfold taptree_ser. rewrite pv_node_leaves, <- (leaf_paths_dfs t NH 0), flat_map_concat_map, flat_map_concat_map, map_map. reflexivity. Qed.

(* ---- the two laws ---- *)
Theorem vcanon_size t k v c : vcanon t k v = POk c -> (length c <= length v)%nat.
Proof. destruct t; cbn [PsetValues.vcanon]; intros H;
  try (apply guard_ok in H as [-> _]; lia);
  try (inversion H; subst; lia).
  - destruct (vi_dec v) as [[n r]|] eqn:D; [|discriminate]. inversion H; subst. apply (l_exact c_varint_lawful) in D. cbn [c_varint enc] in D. subst v. rewrite app_length. lia.
  - apply (via_exact _ (c_tx_lawful pt_ok maxvec cap_txin cap_txout cap_vecu8)) in H. subst; lia.
  - apply (via_exact _ (c_txout_nowit_lawful pt_ok maxvec)) in H. subst; lia.
  - apply (via_exact _ (c_stack_lawful maxvec cap_vecu8)) in H. subst; lia.
  - now apply schnorr_idem in H.
  - apply taptree_id in H. subst; lia.
  - destruct (N.of_nat (length v) <=? maxvec); [|discriminate]. apply (via_exact _ (c_btctx_lawful maxvec)) in H. subst; lia.
  - unfold preimage in H. destruct (bytes_eqb (Hrip v) k); inversion H; subst; lia.
  - unfold preimage in H. destruct (bytes_eqb (Hsha v) k); inversion H; subst; lia.
  - unfold preimage in H. destruct (bytes_eqb (Hh160 v) k); inversion H; subst; lia.
  - unfold preimage in H. destruct (bytes_eqb (Hh256 v) k); inversion H; subst; lia.
Qed.

Theorem vcanon_idem t k v c : vcanon t k v = POk c -> vcanon t k c = POk c.
Proof. destruct t; cbn [PsetValues.vcanon]; intros H;
  try (apply guard_ok in H as [-> G]; now apply guard_true);
  try (inversion H; subst; reflexivity).
  - destruct (vi_dec v) as [[n r]|] eqn:D; [|discriminate]. inversion H; subst.
    pose proof (l_wf c_varint_lawful _ _ _ D) as W. pose proof (l_complete c_varint_lawful n [] W) as C. cbn [c_varint enc dec] in C. rewrite app_nil_r in C. now rewrite C.
  - pose proof (via_exact _ (c_tx_lawful pt_ok maxvec cap_txin cap_txout cap_vecu8) _ _ H). now subst.
  - pose proof (via_exact _ (c_txout_nowit_lawful pt_ok maxvec) _ _ H). now subst.
  - pose proof (via_exact _ (c_stack_lawful maxvec cap_vecu8) _ _ H). now subst.
  - now apply schnorr_idem in H.
  - pose proof (taptree_id _ _ H). now subst.
  - destruct (N.of_nat (length v) <=? maxvec) eqn:L; [|discriminate]. pose proof (via_exact _ (c_btctx_lawful maxvec) _ _ H). subst c. now rewrite L.
  - unfold preimage in *. destruct (bytes_eqb (Hrip v) k) eqn:E; inversion H; subst. now rewrite E.
  - unfold preimage in *. destruct (bytes_eqb (Hsha v) k) eqn:E; inversion H; subst. now rewrite E.
  - unfold preimage in *. destruct (bytes_eqb (Hh160 v) k) eqn:E; inversion H; subst. now rewrite E.
  - unfold preimage in *. destruct (bytes_eqb (Hh256 v) k) eqn:E; inversion H; subst. now rewrite E.
Qed.

Theorem kcanon_law t kd k : kcanon t kd = Some k -> k <> [] /\ kcanon t k = Some k /\ (length k <= length kd)%nat.
Proof. unfold PsetValues.kcanon. destruct (vcanon t [] kd) as [c|] eqn:V; [|discriminate]. destruct c as [|b c]; [discriminate|].
  intros H; inversion H; subst. split; [discriminate|]. rewrite (vcanon_idem _ _ _ _ V). split; [reflexivity|]. eapply vcanon_size; eauto. Qed.

(* the comparator projections are injective (the raw key is their last component) *)
Lemma key_proj_inj t a b : key_proj t a = key_proj t b -> a = b.
Proof. destruct t; cbn [key_proj]; unfold proj_bytes, proj_pubkey, proj_xpub; try (intros H; now inversion H).
  destruct (len_is 33 a), (len_is 33 b); intros H; now inversion H. Qed.
Lemma proj_prop_inj a b : proj_prop maxvec a = proj_prop maxvec b -> a = b.
Proof. unfold proj_prop. destruct (prop_dec maxvec a) as [[[? ?] ?]|], (prop_dec maxvec b) as [[[? ?] ?]|]; intros H; now inversion H. Qed.

(* commitments and generators are exactly 33 bytes and come back unchanged *)
Lemma commitment_length k v c : (vcanon TyPedersen k v = POk c \/ vcanon TyGenerator k v = POk c) -> c = v /\ length v = 33%nat.
Proof. intros [H|H]; cbn [PsetValues.vcanon] in H; apply guard_ok in H as [-> G]; (split; [reflexivity|]);
  unfold conf_wf in G; destruct v; try discriminate; apply andb_true_iff in G as [G _]; apply andb_true_iff in G as [_ G]; now apply Nat.eqb_eq. Qed.

(* a bad preimage is an error *)
Lemma preimage_rejects H k v : H v <> k -> preimage H k v = PErr EPreimage.
Proof. unfold preimage. destruct (bytes_eqb_spec (H v) k); [contradiction|reflexivity]. Qed.
End VALUES.
