(* C07 — laws of the value canonisers (Model/PsetValues.v): idempotence (all types but TapTree — finding F9), never
   lengthening, and injectivity of the transcribed comparator projections. *)
From Coq Require Import List Arith NArith ZArith Lia Bool ZifyN ZifyBool ZifyNat.
From Coq.Strings Require Import Byte.
From EV Require Import Base.Bytes Base.Codec Gen.Tables Model.Tx Model.Taproot Model.PsetRaw Model.PsetValues Proofs.Tx Proofs.Taproot Proofs.PsetRaw.
Import ListNotations.
Ltac Zify.zify_post_hook ::= Z.div_mod_to_equations.
Open Scope N_scope.
Set Default Timeout 60.

Section VALUES.
Variable maxvec : N.
Variables cap_txin cap_txout cap_vecu8 cap_h32 : N.
Variables pt_ok pk_ok xonly_ok btctx_ok xpub_ok : bytes -> bool.
Variables Hrip Hsha Hh160 Hh256 : bytes -> bytes.
Variables Hleaf Hbranch : bytes -> bytes.
Notation vcanon := (vcanon maxvec cap_txin cap_txout cap_vecu8 cap_h32 pt_ok pk_ok xonly_ok btctx_ok xpub_ok Hrip Hsha Hh160 Hh256 Hleaf Hbranch).
Notation kcanon := (kcanon maxvec cap_txin cap_txout cap_vecu8 cap_h32 pt_ok pk_ok xonly_ok btctx_ok xpub_ok Hrip Hsha Hh160 Hh256 Hleaf Hbranch).
Notation canon_taptree := (canon_taptree maxvec Hleaf Hbranch).

Lemma guard_ok c v x : guard c v = POk x -> x = v /\ c = true.
Proof. unfold guard. destruct c; [intros H; inversion H; auto|discriminate]. Qed.
Lemma guard_true c v : c = true -> guard c v = POk v. Proof. now intros ->. Qed.
Lemma via_exact {A} (c : codec A) : Lawful c -> forall v x, via c v = POk x -> x = v.
Proof. intros L v x H. unfold via in H. destruct (deserialize c v) as [a|] eqn:D; [|discriminate]. inversion H; subst.
  now destruct (deserialize_exact c L _ _ D) as [-> _]. Qed.
Lemma firstn_len_le {A} n (l : list A) : (length (firstn n l) <= length l)%nat.
Proof. rewrite firstn_length. lia. Qed.
Lemma firstn_idem {A} n (l : list A) : firstn n (firstn n l) = firstn n l.
Proof. rewrite firstn_firstn. now rewrite Nat.min_id. Qed.

Local Opaque firstn.
Lemma schnorr_idem v c : canon_schnorr v = POk c -> canon_schnorr c = POk c /\ (length c <= length v)%nat.
Proof. unfold canon_schnorr, len_is. destruct (Nat.eqb_spec (length v) 64) as [E|NE].
  - intros H; injection H as <-. apply Nat.eqb_eq in E. rewrite E. auto.
  - destruct (Nat.eqb_spec (length v) 65) as [E|NE2]; [|discriminate]. destruct (schnorr_hashty_ok (b2n (last v x00))) eqn:K; [|discriminate].
    destruct (N.eqb_spec (b2n (last v x00)) 0) as [Z|NZ]; intros H; injection H as <-.
    + assert (L : length (firstn 64 v) = 64%nat) by (rewrite firstn_length; lia). rewrite L, Nat.eqb_refl. split; [reflexivity|lia].
    + destruct (Nat.eqb_spec (length v) 64); [lia|]. destruct (Nat.eqb_spec (length v) 65); [|lia]. rewrite K.
      destruct (N.eqb_spec (b2n (last v x00)) 0); [contradiction|]. auto. Qed.

(* ---- TapTree: the canonical form has the same length as the input (it is the same leaves in another order) ---- *)
Definition leaf_sz (s : bytes) : nat := 2 + length (enc (c_varbytes maxvec) s).
Definition item_scripts (items : list item) : list bytes := flat_map (fun it => match it with ILeaf _ s _ => [s] | IHidden _ _ => [] end) items.
Lemma taptree_items_len : forall fuel b items, taptree_items maxvec fuel b = Some items -> length b = list_sum (map leaf_sz (item_scripts items)).
Proof. induction fuel as [|f IH]; intros b items H; [discriminate|]. cbn [taptree_items] in H.
  destruct b as [|d [|v r]]; [inversion H; reflexivity|discriminate|].
  destruct (dec (c_varbytes maxvec) r) as [[script rest]|] eqn:D; [|discriminate]. destruct (leafver_ok (b2n v)); [|discriminate].
  destruct (taptree_items maxvec f rest) as [l|] eqn:T; [|discriminate]. inversion H; subst.
  apply (l_exact (c_varbytes_lawful maxvec)) in D. subst r. cbn [item_scripts flat_map app map list_sum fold_right length]. rewrite app_length, (IH _ _ T). unfold leaf_sz, item_scripts. unfold list_sum. cbn [fold_right]. lia. Qed.
Lemma leaf_paths_scripts t : forall d, map l_script (leaf_paths Hleaf Hbranch t) = item_scripts (dfs t d).
Proof. induction t as [s v|h|a IHa b IHb]; intros d; cbn [leaf_paths dfs item_scripts flat_map app map]; try reflexivity.
  rewrite map_app, !map_map. cbn [snoc l_script]. unfold item_scripts in *. rewrite flat_map_app, <- (IHa (S d)), <- (IHb (S d)). reflexivity. Qed.
Lemma list_sum_rev l : list_sum (rev l) = list_sum l.
Proof. induction l as [|x l IH]; [reflexivity|]. cbn [rev]. rewrite list_sum_app, IH. unfold list_sum. cbn [fold_right]. lia. Qed.
Lemma taptree_ser_len n : length (taptree_ser maxvec n) = list_sum (map leaf_sz (map l_script (n_leaves n))).
Proof. unfold taptree_ser. induction (n_leaves n) as [|l ls IH]; [reflexivity|]. cbn [flat_map map list_sum fold_right]. rewrite app_length, IH. unfold leaf_sz, list_sum. cbn [length fold_right]. lia. Qed.
Lemma taptree_len v c : canon_taptree v = POk c -> length c = length v.
Proof. unfold PsetValues.canon_taptree, taptree_node. destruct (taptree_items maxvec (S (length v)) v) as [items|] eqn:T; [|discriminate].
  destruct (run Hleaf Hbranch items []) as [[|[n|] [|? ?]]|] eqn:R; try discriminate. intros H; inversion H; subst.
  destruct (builder_complete Hleaf Hbranch items _ R eq_refl) as (t & _ & -> & E & _). inversion E; subst n.
  rewrite taptree_ser_len, (taptree_items_len _ _ _ T), node_of_leaves, map_rev, map_rev, list_sum_rev, (leaf_paths_scripts t 0). reflexivity. Qed.

(* ---- the two laws ---- *)
Theorem vcanon_size t k v c : vcanon t k v = POk c -> (length c <= length v)%nat.
Proof. destruct t; cbn [PsetValues.vcanon]; intros H;
  try (apply guard_ok in H as [-> _]; lia);
  try (inversion H; subst; lia).
  - destruct (vi_dec v) as [[n r]|] eqn:D; [|discriminate]. inversion H; subst. apply (l_exact c_varint_lawful) in D. cbn [c_varint enc] in D. subst v. rewrite app_length. lia.
  - apply (via_exact _ (c_tx_lawful pt_ok maxvec cap_txin cap_txout cap_vecu8)) in H. subst; lia.
  - apply (via_exact _ (c_txout_nowit_lawful pt_ok maxvec)) in H. subst; lia.
  - apply (via_exact _ (c_stack_lawful maxvec cap_vecu8)) in H. subst; lia.
  - now apply schnorr_idem in H.
  - apply taptree_len in H. lia.
  - destruct (33 <=? length v)%nat; [|discriminate]. apply guard_ok in H as [-> _]. apply firstn_len_le.
  - destruct (33 <=? length v)%nat; [|discriminate]. apply guard_ok in H as [-> _]. apply firstn_len_le.
  - unfold preimage in H. destruct (bytes_eqb (Hrip v) k); inversion H; subst; lia.
  - unfold preimage in H. destruct (bytes_eqb (Hsha v) k); inversion H; subst; lia.
  - unfold preimage in H. destruct (bytes_eqb (Hh160 v) k); inversion H; subst; lia.
  - unfold preimage in H. destruct (bytes_eqb (Hh256 v) k); inversion H; subst; lia.
Qed.

Theorem vcanon_idem t k v c : t <> TyTapTree -> vcanon t k v = POk c -> vcanon t k c = POk c.
Proof. intros NT. destruct t; try congruence; cbn [PsetValues.vcanon]; intros H;
  try (apply guard_ok in H as [-> G]; now apply guard_true);
  try (inversion H; subst; reflexivity).
  - destruct (vi_dec v) as [[n r]|] eqn:D; [|discriminate]. inversion H; subst.
    pose proof (l_wf c_varint_lawful _ _ _ D) as W. pose proof (l_complete c_varint_lawful n [] W) as C. cbn [c_varint enc dec] in C. rewrite app_nil_r in C. now rewrite C.
  - pose proof (via_exact _ (c_tx_lawful pt_ok maxvec cap_txin cap_txout cap_vecu8) _ _ H). now subst.
  - pose proof (via_exact _ (c_txout_nowit_lawful pt_ok maxvec) _ _ H). now subst.
  - pose proof (via_exact _ (c_stack_lawful maxvec cap_vecu8) _ _ H). now subst.
  - now apply schnorr_idem in H.
  - destruct (Nat.leb_spec 33 (length v)) as [L|]; [|discriminate]. apply guard_ok in H as [-> G].
    assert (E : length (firstn 33 v) = 33%nat) by (rewrite firstn_length; lia). rewrite E. cbn [Nat.leb]. rewrite firstn_idem. now apply guard_true.
  - destruct (Nat.leb_spec 33 (length v)) as [L|]; [|discriminate]. apply guard_ok in H as [-> G].
    assert (E : length (firstn 33 v) = 33%nat) by (rewrite firstn_length; lia). rewrite E. cbn [Nat.leb]. rewrite firstn_idem. now apply guard_true.
  - unfold preimage in *. destruct (bytes_eqb (Hrip v) k) eqn:E; inversion H; subst. now rewrite E.
  - unfold preimage in *. destruct (bytes_eqb (Hsha v) k) eqn:E; inversion H; subst. now rewrite E.
  - unfold preimage in *. destruct (bytes_eqb (Hh160 v) k) eqn:E; inversion H; subst. now rewrite E.
  - unfold preimage in *. destruct (bytes_eqb (Hh256 v) k) eqn:E; inversion H; subst. now rewrite E.
Qed.

Theorem kcanon_law t kd k : t <> TyTapTree -> kcanon t kd = Some k -> k <> [] /\ kcanon t k = Some k /\ (length k <= length kd)%nat.
Proof. intros NT. unfold PsetValues.kcanon. destruct (vcanon t [] kd) as [c|] eqn:V; [|discriminate]. destruct c as [|b c]; [discriminate|].
  intros H; inversion H; subst. split; [discriminate|]. rewrite (vcanon_idem _ _ _ _ NT V). split; [reflexivity|]. eapply vcanon_size; eauto. Qed.

(* the comparator projections are injective (the raw key is their last component) *)
Lemma key_proj_inj t a b : key_proj t a = key_proj t b -> a = b.
Proof. destruct t; cbn [key_proj]; unfold proj_bytes, proj_pubkey, proj_xpub; try (intros H; now inversion H).
  destruct (len_is 33 a), (len_is 33 b); intros H; now inversion H. Qed.
Lemma proj_prop_inj a b : proj_prop maxvec a = proj_prop maxvec b -> a = b.
Proof. unfold proj_prop. destruct (prop_dec maxvec a) as [[[? ?] ?]|], (prop_dec maxvec b) as [[[? ?] ?]|]; intros H; now inversion H. Qed.

(* a bad preimage is an error *)
Lemma preimage_rejects H k v : H v <> k -> preimage H k v = PErr EPreimage.
Proof. unfold preimage. destruct (bytes_eqb_spec (H v) k); [contradiction|reflexivity]. Qed.
End VALUES.
