(* C07 — generic theory of the table-driven map codec (Model/PsetMaps.v): round trip, decoder invariant, fixpoint,
   rejections; then the whole-PSET statements.  Everything is over an arbitrary table whose rows satisfy `row_ok`
   (canonisers are idempotent on keys, never lengthen, the transcribed comparator is injective on canonical keys). *)
From Coq Require Import List Arith NArith ZArith Lia Bool ZifyN ZifyBool ZifyNat.
From Coq.Strings Require Import Byte.
From EV Require Import Base.Bytes Base.Codec Model.PsetRaw Model.PsetMaps Proofs.PsetRaw.
Import ListNotations.
Ltac Zify.zify_post_hook ::= Z.div_mod_to_equations.
Open Scope N_scope.
Set Default Timeout 60.

Lemma find_idx_some {A} (p : A -> bool) l i : find_idx p l = Some i -> exists x, nth_error l i = Some x /\ p x = true.
Proof. revert i. induction l as [|x l IH]; intros i H; cbn in H; [discriminate|]. destruct (p x) eqn:P.
  - inversion H; subst. exists x. auto.
  - destruct (find_idx p l) as [j|]; [|discriminate]. inversion H; subst. cbn. now apply IH. Qed.
Lemma byte_eqb_true a b : byte_eqb a b = true -> a = b. Proof. now destruct (byte_eqb_spec a b). Qed.
Lemma byte_eqb_refl a : byte_eqb a a = true. Proof. now destruct (byte_eqb_spec a a). Qed.
Lemma bytes_eqb_true a b : bytes_eqb a b = true -> a = b. Proof. now destruct (bytes_eqb_spec a b). Qed.

Section ONE.
Variable maxvec : N.
Hypothesis Hmax : maxvec + 1 < 2 ^ 64.
Hypothesis Hmin : 4 <= maxvec.
Variable T : table.

Notation mk_key := (mk_key maxvec T).
Notation classify := (classify maxvec T).
Notation insert_pair := (insert_pair maxvec T).
Notation dec_entries := (dec_entries maxvec T).
Notation enc_entry := (enc_entry maxvec T).
Notation enc_entries := (enc_entries maxvec T).
Notation ins := (ins T).
Notation before := (before T).

(* ---------------------------------------------------------------- what a row must satisfy *)
Definition kvalid (r : row) (k : bytes) : Prop :=
  match r_kind r with KMap => k <> [] /\ r_kcanon r k = Some k | KOpt | KOptLast => k = [] | KReject => False end.
Record row_ok (r : row) : Prop := {
  ro_k : forall kd k, r_kcanon r kd = Some k -> k <> [] /\ r_kcanon r k = Some k /\ (length k <= length kd)%nat;
  ro_vsize : forall k v c, r_vcanon r k v = POk c -> (length c <= length v)%nat;
  ro_proj : forall proj, r_disc r = DSorted proj -> forall a b, r_kcanon r a = Some a -> r_kcanon r b = Some b -> proj a = proj b -> a = b;
  ro_whole : r_addr r = AProp \/ r_addr r = AUnk -> r_kind r = KMap /\ forall kd, r_kcanon r kd = Some kd }.
(* the value canoniser is idempotent (false for TapTree: finding F9) *)
Definition v_idem (r : row) : Prop := forall k v c, r_vcanon r k v = POk c -> r_vcanon r k c = POk c.
Definition rows_ok : Prop := forall i r, nth_error T i = Some r -> row_ok r.

(* ---------------------------------------------------------------- well-formed entries and maps *)
Definition elt (e x : entry) : Prop :=
  (slot e < slot x)%nat \/
  (slot e = slot x /\ exists r, nth_error T (slot e) = Some r /\
     match r_disc r with DSorted proj => tcmp (proj (ekey e)) (proj (ekey x)) = Lt | DAppend => ekey e <> ekey x end).
Fixpoint sorted (m : pmap) : Prop := match m with [] => True | x :: r => Forall (elt x) r /\ sorted r end.
Definition weak (e : entry) : Prop :=
  exists r, nth_error T (slot e) = Some r /\ kvalid r (ekey e) /\
            classify (mk_key e) = POk (slot e, ekey e) /\ fits maxvec (mk_key e, evalue e).
Definition vfixed (e : entry) : Prop :=
  exists r, nth_error T (slot e) = Some r /\ r_vcanon r (ekey e) (evalue e) = POk (evalue e).
Definition wf_entry (e : entry) : Prop := weak e /\ vfixed e.
Definition wf_entries (m : pmap) : Prop := sorted m /\ Forall wf_entry m.

Lemma sorted_snoc m e : sorted (m ++ [e]) <-> sorted m /\ Forall (fun x => elt x e) m.
Proof. induction m as [|x m IH]; cbn [app sorted].
  - split; [intros _; split; constructor|intros _; split; [constructor|exact I]].
  - rewrite IH, Forall_app. split.
    + intros [[F1 F2] [S F]]. split; [split; assumption|]. constructor; [now inversion F2|assumption].
    + intros [[F1 S] F]. inversion F; subst. repeat split; auto. Qed.

Lemma ins_in e m y : In y (ins e m) <-> y = e \/ In y m.
Proof. induction m as [|x m IH]; cbn [ins]; [cbn; intuition|]. destruct (before e x); cbn [In]; [intuition|]. rewrite IH. intuition. Qed.

Lemma elt_not_before x e : elt x e -> before e x = false.
Proof. unfold before. intros [L|[E (r & R & D)]].
  - destruct (Nat.ltb_spec (slot e) (slot x)); [lia|]. destruct (Nat.eqb_spec (slot e) (slot x)); [lia|]. reflexivity.
  - destruct (Nat.ltb_spec (slot e) (slot x)); [lia|]. rewrite <- E, R. destruct (Nat.eqb (slot x) (slot x)); [|reflexivity]. cbn [orb andb].
    destruct (r_disc r) as [proj|]; [|reflexivity]. rewrite (tcmp_anti (proj (ekey x)) (proj (ekey e))), D. reflexivity. Qed.
Lemma elt_not_same x e : elt x e -> same (slot e) (ekey e) x = false.
Proof. unfold same. intros [L|[E (r & R & D)]].
  - destruct (Nat.eqb_spec (slot x) (slot e)); [lia|reflexivity].
  - destruct (bytes_eqb_spec (ekey x) (ekey e)) as [K|K]; [|now rewrite andb_false_r]. exfalso. rewrite K in D.
    destruct (r_disc r) as [proj|]; [rewrite tcmp_refl in D; discriminate|congruence]. Qed.

Lemma ins_snoc m e : sorted (m ++ [e]) -> ins e m = m ++ [e].
Proof. rewrite sorted_snoc. intros [_ F]. induction m as [|x m IH]; [reflexivity|]. inversion F; subst. cbn [ins app].
  rewrite (elt_not_before _ _ H1). f_equal. now apply IH. Qed.
Lemma has_snoc m e : sorted (m ++ [e]) -> has m (slot e) (ekey e) = false.
Proof. rewrite sorted_snoc. intros [_ F]. unfold has. induction m as [|x m IH]; [reflexivity|]. inversion F; subst. cbn [existsb].
  rewrite (elt_not_same _ _ H1). now apply IH. Qed.

(* insertion keeps the emission order *)
Lemma before_elt e x r : nth_error T (slot e) = Some r -> before e x = true -> elt e x.
Proof. unfold before, elt. intros R B. apply orb_true_iff in B as [B|B]; [left; now apply Nat.ltb_lt|].
  apply andb_true_iff in B as [E B]. apply Nat.eqb_eq in E. right. split; [exact E|]. exists r. split; [exact R|]. rewrite R in B.
  destruct (r_disc r) as [proj|]; [|discriminate]. now destruct (tcmp (proj (ekey e)) (proj (ekey x))). Qed.
Lemma not_before_elt e x r :
  nth_error T (slot e) = Some r -> before e x = false -> same (slot e) (ekey e) x = false ->
  (forall proj, r_disc r = DSorted proj -> slot x = slot e -> proj (ekey x) = proj (ekey e) -> ekey x = ekey e) ->
  elt x e.
Proof. unfold before, elt, same. intros R B S Inj. apply orb_false_iff in B as [B1 B2]. apply Nat.ltb_ge in B1.
  destruct (Nat.eqb_spec (slot e) (slot x)) as [E|E]; [|left; lia]. right. split; [now symmetry|]. exists r. rewrite <- E. split; [exact R|].
  rewrite R in B2. cbn [andb] in B2. rewrite <- E, Nat.eqb_refl in S. cbn [andb] in S.
  assert (K : ekey x <> ekey e) by (destruct (bytes_eqb_spec (ekey x) (ekey e)); [discriminate|assumption]).
  destruct (r_disc r) as [proj|] eqn:D; [|exact K].
  rewrite (tcmp_anti (proj (ekey e)) (proj (ekey x))). destruct (tcmp (proj (ekey e)) (proj (ekey x))) eqn:C; try discriminate; [|reflexivity].
  exfalso. apply tcmp_eq in C. apply K. apply (Inj proj eq_refl); [now symmetry|now symmetry]. Qed.

Lemma ins_sorted e m r :
  nth_error T (slot e) = Some r -> sorted m -> has m (slot e) (ekey e) = false ->
  (forall x proj, In x m -> r_disc r = DSorted proj -> slot x = slot e -> proj (ekey x) = proj (ekey e) -> ekey x = ekey e) ->
  sorted (ins e m).
Proof. intros R. induction m as [|x m IH]; intros S H Inj; cbn [ins]; [cbn; split; [constructor|exact I]|].
  cbn [sorted] in S. destruct S as [Fx S]. unfold has in H. cbn [existsb] in H. apply orb_false_iff in H as [Hx H].
  destruct (before e x) eqn:B.
  - cbn [sorted]. repeat split; auto. pose proof (before_elt _ _ _ R B) as Ex. constructor; [exact Ex|].
    rewrite Forall_forall in *. intros y Hy. specialize (Fx y Hy).
    unfold before in B. apply orb_true_iff in B as [B|B].
    + apply Nat.ltb_lt in B. left. destruct Fx as [L|[E _]]; lia.
    + apply andb_true_iff in B as [E B]. apply Nat.eqb_eq in E. rewrite R in B. destruct (r_disc r) as [proj|] eqn:D; [|discriminate].
      destruct (tcmp (proj (ekey e)) (proj (ekey x))) eqn:C; try discriminate.
      destruct Fx as [L|[E' (r' & R' & D')]]; [left; lia|]. right. split; [lia|]. exists r. split; [exact R|]. rewrite D.
      rewrite <- E, R in R'. inversion R'; subst r'. rewrite D in D'. eapply tcmp_trans; eauto.
  - cbn [sorted]. split; [|apply IH; auto; intros; eapply Inj; eauto; now right].
    rewrite Forall_forall in *. intros y Hy. apply ins_in in Hy as [->|Hy]; [|now apply Fx].
    eapply not_before_elt; eauto. intros proj D E P. eapply Inj; eauto. now left. Qed.

Lemma sorted_map f m : (forall x, slot (f x) = slot x /\ ekey (f x) = ekey x) -> sorted m -> sorted (map f m).
Proof. intros Hf. assert (E : forall a b, elt a b -> elt (f a) (f b)).
  { intros a b. unfold elt. destruct (Hf a) as [-> ->], (Hf b) as [-> ->]. auto. }
  induction m as [|x m IH]; [auto|]. cbn [sorted map]. intros [F S]. split; [|auto]. rewrite Forall_map. eapply Forall_impl; [|exact F]. intros; now apply E. Qed.

(* ---------------------------------------------------------------- classification of the key an entry is emitted under *)
Lemma fitsb_le a b : (length a <= length b)%nat -> fitsb maxvec b = true -> fitsb maxvec a = true.
Proof. unfold fitsb. intros. lia. Qed.
Lemma pset_prefix_fits : fitsb maxvec pset_prefix = true. Proof. unfold fitsb, pset_prefix. cbn [length]. lia. Qed.

(* a key that classifies to (i, kd) still classifies to i once its key data is replaced by a canonical k (not longer than kd) *)
Lemma classify_canon t kd0 i kd r k c :
  classify (t, kd0) = POk (i, kd) -> nth_error T i = Some r -> (length k <= length kd)%nat ->
  (r_addr r = AProp \/ r_addr r = AUnk -> k = kd) ->
  classify (mk_key (i, k, c)) = POk (i, k) /\ (fitsb maxvec kd0 = true -> fitsb maxvec (snd (mk_key (i, k, c))) = true).
Proof. intros C R L W. unfold PsetMaps.classify in C. unfold PsetMaps.mk_key. cbn [slot ekey fst snd]. rewrite R.
  destruct (find_idx (is_plain t) T) as [j|] eqn:F1.
  { inversion C; subst j kd0. destruct (find_idx_some _ _ _ F1) as (r' & R' & P). rewrite R in R'. inversion R'; subst r'.
    unfold is_plain in P. destruct (r_addr r) as [t'| | |] eqn:A; try discriminate. apply byte_eqb_true in P. subst t'.
    unfold PsetMaps.classify. rewrite F1. split; [reflexivity|]. cbn [snd]. now apply fitsb_le. }
  destruct (byte_eqb_spec t xfc) as [->|Nfc].
  - destruct (prop_dec maxvec kd0) as [[[pfx s] d]|] eqn:PD; [|discriminate].
    destruct (prop_dec_exact _ _ _ _ _ PD) as [Ekd Fp].
    destruct (if bytes_eqb pfx pset_prefix then find_idx (is_pset s) T else None) as [j|] eqn:F2.
    + inversion C; subst j d. destruct (bytes_eqb_spec pfx pset_prefix) as [->|]; [|discriminate].
      destruct (find_idx_some _ _ _ F2) as (r' & R' & P). rewrite R in R'. inversion R'; subst r'.
      unfold is_pset in P. destruct (r_addr r) as [|s'| |] eqn:A; try discriminate. apply byte_eqb_true in P. subst s'.
      unfold PsetMaps.classify. rewrite F1. cbn [byte_eqb Byte.eqb]. rewrite (byte_eqb_refl xfc).
      rewrite (prop_dec_enc _ Hmax _ _ _ pset_prefix_fits). rewrite bytes_eqb_refl, F2. split; [reflexivity|].
      cbn [snd]. subst kd0. unfold fitsb. rewrite !prop_enc_length. lia.
    + destruct (find_idx is_prop T) as [j|] eqn:F3; [|discriminate]. inversion C; subst j kd.
      destruct (find_idx_some _ _ _ F3) as (r' & R' & P). rewrite R in R'. inversion R'; subst r'.
      unfold is_prop in P. destruct (r_addr r) eqn:A; try discriminate. rewrite (W (or_introl eq_refl)).
      unfold PsetMaps.classify. rewrite F1, (byte_eqb_refl xfc), PD, F2, F3. split; [reflexivity|auto].
  - destruct (find_idx is_unk T) as [j|] eqn:F3; [|discriminate]. inversion C; subst j kd.
    destruct (find_idx_some _ _ _ F3) as (r' & R' & P). rewrite R in R'. inversion R'; subst r'.
    unfold is_unk in P. destruct (r_addr r) eqn:A; try discriminate. rewrite (W (or_intror eq_refl)).
    unfold PsetMaps.classify. rewrite F1. destruct (byte_eqb_spec t xfc); [contradiction|]. rewrite F3. split; [reflexivity|auto]. Qed.

(* ---------------------------------------------------------------- inserting an emitted entry back: append *)
Lemma insert_emitted m e : wf_entry e -> sorted (m ++ [e]) -> insert_pair (mk_key e) (evalue e) m = POk (m ++ [e]).
Proof. intros [(r & R & K & C & _) (r' & R' & V)] S. rewrite R in R'. inversion R'; subst r'.
  unfold PsetMaps.insert_pair. rewrite C. cbn [pbind]. rewrite R.
  pose proof (has_snoc _ _ S) as H. pose proof (ins_snoc _ _ S) as I.
  destruct e as [[i k] v]. cbn [slot ekey evalue fst snd] in *. unfold kvalid in K.
  destruct (r_kind r).
  - subst k. rewrite H, V. cbn [pbind]. f_equal. exact I.
  - subst k. rewrite H, V. cbn [pbind]. f_equal. exact I.
  - destruct K as [Kn Kc]. destruct k as [|b k]; [congruence|]. rewrite Kc. destruct (r_vfirst r); rewrite ?H, ?V; cbn [pbind]; rewrite ?H, ?V; cbn [pbind]; f_equal; exact I.
  - contradiction. Qed.

(* ---------------------------------------------------------------- the decoder invariant *)
Variable G : nat -> Prop.     (* the rows whose value canoniser is idempotent *)
Definition inv (m : pmap) : Prop := sorted m /\ Forall (fun e => weak e /\ (G (slot e) -> vfixed e)) m.

Lemma kvalid_inj r a b : row_ok r -> kvalid r a -> kvalid r b -> forall proj, r_disc r = DSorted proj -> proj a = proj b -> a = b.
Proof. intros O Ka Kb proj D P. unfold kvalid in *. destruct (r_kind r); try contradiction; try congruence.
  destruct Ka as [_ Ka], Kb as [_ Kb]. eapply (ro_proj _ O); eauto. Qed.

Lemma inv_ins m i k c r :
  rows_ok -> (forall j r', nth_error T j = Some r' -> G j -> v_idem r') ->
  inv m -> nth_error T i = Some r -> kvalid r k -> has m i k = false ->
  classify (mk_key (i, k, c)) = POk (i, k) -> fits maxvec (mk_key (i, k, c), c) ->
  (G i -> r_vcanon r k c = POk c) ->
  inv (ins (i, k, c) m).
Proof. intros RO GI [S F] R K H C Fi V. split.
  - eapply ins_sorted; eauto. intros x proj Hx D E P. cbn [slot ekey fst snd] in *.
    rewrite Forall_forall in F. destruct (F x Hx) as [(rx & Rx & Kx & _) _]. rewrite E, R in Rx. inversion Rx; subst rx.
    eapply kvalid_inj; eauto.
  - rewrite Forall_forall in *. intros y Hy. apply ins_in in Hy as [->|Hy]; [|now apply F]. split.
    + exists r. cbn [slot ekey evalue fst snd]. auto.
    + intros Gi. exists r. cbn [slot ekey evalue fst snd]. auto. Qed.

Lemma mk_key_irrel i k v v' : mk_key (i, k, v) = mk_key (i, k, v').
Proof. reflexivity. Qed.

Lemma inv_replace m i c r v0 :
  rows_ok -> (forall j r', nth_error T j = Some r' -> G j -> v_idem r') ->
  inv m -> nth_error T i = Some r -> r_vcanon r [] v0 = POk c -> fitsb maxvec v0 = true ->
  inv (replace i [] c m).
Proof. intros RO GI [S F] R V Fv. split.
  - apply sorted_map; [|exact S]. intros x. unfold same. destruct (Nat.eqb_spec (slot x) i); [|auto]. destruct (bytes_eqb_spec (ekey x) []); [|auto].
    cbn [andb slot ekey fst snd]. auto.
  - unfold replace. rewrite Forall_map. eapply Forall_impl; [|exact F]. intros x [W Vx]. unfold same.
    destruct (Nat.eqb_spec (slot x) i) as [E|]; [|auto]. destruct (bytes_eqb_spec (ekey x) []) as [E'|]; [|auto]. cbn [andb].
    destruct x as [[i' k'] v']. cbn [slot ekey fst snd] in E, E'. subst i' k'.
    destruct W as (rx & Rx & Kx & Cx & Fx). cbn [slot ekey evalue fst snd] in *. rewrite R in Rx. inversion Rx; subst rx. split.
    + exists r. cbn [slot ekey evalue fst snd]. destruct Fx as [Fx1 Fx2]. split; [exact R|]. split; [exact Kx|]. split; [exact Cx|]. split; [exact Fx1|]. cbn [snd].
      eapply fitsb_le; [eapply (ro_vsize _ (RO _ _ R)); eauto|exact Fv].
    + intros Gi. exists r. cbn [slot ekey evalue fst snd]. split; [exact R|]. eapply (GI _ _ R Gi); eauto. Qed.

Lemma inv_insert key v m m' :
  rows_ok -> (forall j r', nth_error T j = Some r' -> G j -> v_idem r') ->
  inv m -> fits maxvec (key, v) -> insert_pair key v m = POk m' -> inv m'.
Proof. intros RO GI I [Fk Fv] H. cbn [fst snd] in Fk, Fv. unfold PsetMaps.insert_pair in H. destruct key as [t kd0].
  destruct (classify (t, kd0)) as [[i kd]|] eqn:C; [|discriminate]. cbn [pbind] in H.
  destruct (nth_error T i) as [r|] eqn:R; [|discriminate]. pose proof (RO _ _ R) as O.
  assert (NEW : forall k c, (length k <= length kd)%nat -> (length c <= length v)%nat -> kvalid r k -> has m i k = false ->
                 (r_addr r = AProp \/ r_addr r = AUnk -> k = kd) -> (G i -> r_vcanon r k c = POk c) -> inv (ins (i, k, c) m)).
  { intros k c Lk Lc K Hh W V. destruct (classify_canon _ _ _ _ _ k c C R Lk W) as [C' F'].
    eapply inv_ins; eauto. split; cbn [fst snd]; [now apply F'|]. eapply fitsb_le; eauto. }
  destruct (r_kind r) eqn:KD.
  - destruct kd as [|b kd]; [|discriminate]. destruct (has m i []) eqn:Hh; [discriminate|].
    destruct (r_vcanon r [] v) as [c|] eqn:V; [|discriminate]. cbn [pbind] in H. inversion H; subst m'.
    apply NEW; [cbn; lia|eapply (ro_vsize _ O); eauto|unfold kvalid; now rewrite KD|exact Hh| |].
    + intros A. destruct (ro_whole _ O A) as [K' _]. congruence.
    + intros Gi. eapply (GI _ _ R Gi); eauto.
  - destruct kd as [|b kd]; [|discriminate]. destruct (r_vcanon r [] v) as [c|] eqn:V; [|discriminate]. cbn [pbind] in H. inversion H; subst m'.
    destruct (has m i []) eqn:Hh.
    + eapply inv_replace; eauto.
    + apply NEW; [cbn; lia|eapply (ro_vsize _ O); eauto|unfold kvalid; now rewrite KD|exact Hh| |].
      * intros A. destruct (ro_whole _ O A) as [K' _]. congruence.
      * intros Gi. eapply (GI _ _ R Gi); eauto.
  - destruct kd as [|b kd]; [discriminate|]. destruct (r_kcanon r (b :: kd)) as [k|] eqn:KC; [|discriminate].
    destruct (ro_k _ O _ _ KC) as (Kn & Kc & Kl).
    assert (W : r_addr r = AProp \/ r_addr r = AUnk -> k = b :: kd).
    { intros A. destruct (ro_whole _ O A) as [_ K']. rewrite K' in KC. now inversion KC. }
    assert (KV : kvalid r k) by (unfold kvalid; now rewrite KD).
    destruct (r_vfirst r).
    + destruct (r_vcanon r k v) as [c|] eqn:V; [|discriminate]. cbn [pbind] in H. destruct (has m i k) eqn:Hh; [discriminate|]. inversion H; subst m'.
      apply NEW; [exact Kl|eapply (ro_vsize _ O); eauto|exact KV|exact Hh|exact W|]. intros Gi. eapply (GI _ _ R Gi); eauto.
    + destruct (has m i k) eqn:Hh; [discriminate|]. destruct (r_vcanon r k v) as [c|] eqn:V; [|discriminate]. cbn [pbind] in H. inversion H; subst m'.
      apply NEW; [exact Kl|eapply (ro_vsize _ O); eauto|exact KV|exact Hh|exact W|]. intros Gi. eapply (GI _ _ R Gi); eauto.
  - discriminate. Qed.

Lemma inv_dec_entries : rows_ok -> (forall j r', nth_error T j = Some r' -> G j -> v_idem r') ->
  forall fuel bs m m' rest, inv m -> dec_entries fuel bs m = POk (m', rest) -> inv m'.
Proof. intros RO GI. induction fuel as [|f IH]; intros bs m m' rest I H; [discriminate|]. cbn [PsetMaps.dec_entries] in H.
  destruct (dec_pair maxvec bs) as [[[[key v]|] r]|] eqn:D; try discriminate.
  - destruct (insert_pair key v m) as [m1|] eqn:P; [|discriminate]. cbn [pbind] in H.
    apply (dec_pair_some _ Hmax) in D as [_ Fi]. eapply IH; [|exact H]. eapply inv_insert; eauto.
  - inversion H; subst. exact I. Qed.

(* ---------------------------------------------------------------- round trip of the entry stream *)
Lemma enc_entries_app a b : enc_entries (a ++ b) = enc_entries a ++ enc_entries b.
Proof. unfold PsetMaps.enc_entries. now rewrite map_app, concat_app. Qed.
Lemma enc_entries_length m : (length m <= length (enc_entries m))%nat.
Proof. induction m as [|e m IH]; [cbn; lia|]. unfold PsetMaps.enc_entries in *. cbn [map concat]. rewrite app_length.
  pose proof (enc_pair_nonempty maxvec Hmax (mk_key e, evalue e)) as H. change (enc_pair maxvec (mk_key e, evalue e)) with (enc_entry e) in H. cbn [length]. lia. Qed.

Lemma dec_entries_emitted : forall es m0 fuel rest,
  (length es < fuel)%nat -> sorted (m0 ++ es) -> Forall wf_entry es ->
  dec_entries fuel (enc_entries es ++ x00 :: rest) m0 = POk (m0 ++ es, rest).
Proof. induction es as [|e es IH]; intros m0 fuel rest L S F.
  - destruct fuel; [cbn in L; lia|]. cbn. now rewrite app_nil_r.
  - destruct fuel as [|f]; [cbn in L; lia|]. inversion F; subst. cbn [PsetMaps.dec_entries].
    unfold PsetMaps.enc_entries. cbn [map concat]. fold (enc_entries es). rewrite <- app_assoc. unfold PsetMaps.enc_entry at 1.
    destruct H1 as [Wk Vf]. pose proof Wk as (r & _ & _ & _ & Fi).
    rewrite (dec_pair_enc _ Hmax _ _ Fi).
    assert (S1 : sorted (m0 ++ [e])).
    { replace (m0 ++ e :: es) with ((m0 ++ [e]) ++ es) in S by now rewrite <- app_assoc.
      clear - S. induction es as [|y es IHes] using rev_ind; [now rewrite app_nil_r in S|]. rewrite app_assoc in S. apply sorted_snoc in S as [S _]. auto. }
    rewrite (insert_emitted m0 e (conj Wk Vf) S1). cbn [pbind].
    replace (m0 ++ e :: es) with ((m0 ++ [e]) ++ es) in * by now rewrite <- app_assoc.
    apply IH; auto. cbn [length] in L. lia. Qed.
End ONE.
