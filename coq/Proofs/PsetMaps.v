(* C07 — generic theory of the table-driven map codec (Model/PsetMaps.v): round trip, decoder invariant, fixpoint,
   rejections; then the whole-PSET statements.  Everything is over an arbitrary table whose rows satisfy `row_ok`
   (canonisers are idempotent on keys, never lengthen, the transcribed comparator is injective on canonical keys). *)
From Coq Require Import List Arith NArith ZArith Lia Bool ZifyN ZifyBool ZifyNat.
From Coq.Strings Require Import Byte.
From EV Require Import Base.Bytes Base.Codec Model.PsetRaw Model.PsetMaps Proofs.PsetRaw.
Import ListNotations.
Ltac Zify.zify_post_hook ::= Z.div_mod_to_equations.
Open Scope N_scope.
Set Default Timeout 60.

Lemma find_idx_some {A} (p : A -> bool) l i : find_idx p l = Some i -> exists x, nth_error l i = Some x /\ p x = true.
Proof. revert i. induction l as [|x l IH]; intros i H; cbn in H; [discriminate|]. destruct (p x) eqn:P.
  - inversion H; subst. exists x. auto.
  - destruct (find_idx p l) as [j|]; [|discriminate]. inversion H; subst. cbn. now apply IH. Qed.
Lemma byte_eqb_true a b : byte_eqb a b = true -> a = b. Proof. now destruct (byte_eqb_spec a b). Qed.
Lemma byte_eqb_refl a : byte_eqb a a = true. Proof. now destruct (byte_eqb_spec a a). Qed.
Lemma bytes_eqb_true a b : bytes_eqb a b = true -> a = b. Proof. now destruct (bytes_eqb_spec a b). Qed.

Section ONE.
Variable maxvec : N.
Hypothesis Hmax : maxvec + 1 < 2 ^ 64.
Hypothesis Hmin : 4 <= maxvec.
Variable T : table.

Notation mk_key := (mk_key maxvec T).
Notation classify := (classify maxvec T).
Notation insert_pair := (insert_pair maxvec T).
Notation dec_entries := (dec_entries maxvec T).
Notation enc_entry := (enc_entry maxvec T).
Notation enc_entries := (enc_entries maxvec T).
Notation ins := (ins T).
Notation before := (before T).

(* ---------------------------------------------------------------- what a row must satisfy *)
Definition kvalid (r : row) (k : bytes) : Prop :=
  match r_kind r with KMap => k <> [] /\ r_kcanon r k = Some k | KOpt | KOptLast => k = [] | KReject => False end.
Record row_ok (r : row) : Prop := {
  ro_k : forall kd k, r_kcanon r kd = Some k -> k <> [] /\ r_kcanon r k = Some k /\ (length k <= length kd)%nat;
  ro_vsize : forall k v c, r_vcanon r k v = POk c -> (length c <= length v)%nat;
  ro_proj : forall proj, r_disc r = DSorted proj -> forall a b, r_kcanon r a = Some a -> r_kcanon r b = Some b -> proj a = proj b -> a = b;
  ro_whole : r_addr r = AProp \/ r_addr r = AUnk -> r_kind r = KMap /\ forall kd, kd <> [] -> r_kcanon r kd = Some kd }.
(* the value canoniser is idempotent (false for TapTree: finding F9) *)
Definition v_idem (r : row) : Prop := forall k v c, r_vcanon r k v = POk c -> r_vcanon r k c = POk c.
Definition rows_ok : Prop := forall i r, nth_error T i = Some r -> row_ok r.

(* ---------------------------------------------------------------- well-formed entries and maps *)
Definition elt (e x : entry) : Prop :=
  (slot e < slot x)%nat \/
  (slot e = slot x /\ exists r, nth_error T (slot e) = Some r /\
     match r_disc r with DSorted proj => tcmp (proj (ekey e)) (proj (ekey x)) = Lt | DAppend => ekey e <> ekey x end).
Fixpoint sorted (m : pmap) : Prop := match m with [] => True | x :: r => Forall (elt x) r /\ sorted r end.
Definition weak (e : entry) : Prop :=
  exists r, nth_error T (slot e) = Some r /\ kvalid r (ekey e) /\
            classify (mk_key e) = POk (slot e, ekey e) /\ fits maxvec (mk_key e, evalue e).
Definition vfixed (e : entry) : Prop :=
  exists r, nth_error T (slot e) = Some r /\ r_vcanon r (ekey e) (evalue e) = POk (evalue e).
Definition wf_entry (e : entry) : Prop := weak e /\ vfixed e.
Definition wf_entries (m : pmap) : Prop := sorted m /\ Forall wf_entry m.

Lemma sorted_snoc m e : sorted (m ++ [e]) <-> sorted m /\ Forall (fun x => elt x e) m.
Proof. induction m as [|x m IH]; cbn [app sorted].
  - split; [intros _; split; constructor|intros _; split; [constructor|exact I]].
  - rewrite IH, Forall_app. split.
    + intros [[F1 F2] [S F]]. split; [split; assumption|]. constructor; [now inversion F2|assumption].
    + intros [[F1 S] F]. inversion F; subst. repeat split; auto. Qed.

Lemma ins_in e m y : In y (ins e m) <-> y = e \/ In y m.
Proof. induction m as [|x m IH]; cbn [ins]; [cbn; intuition|]. destruct (before e x); cbn [In]; [intuition|]. rewrite IH. intuition. Qed.

Lemma elt_not_before x e : elt x e -> before e x = false.
Proof. unfold before. intros [L|[E (r & R & D)]].
  - destruct (Nat.ltb_spec (slot e) (slot x)); [lia|]. destruct (Nat.eqb_spec (slot e) (slot x)); [lia|]. reflexivity.
  - destruct (Nat.ltb_spec (slot e) (slot x)); [lia|]. rewrite <- E, R. destruct (Nat.eqb (slot x) (slot x)); [|reflexivity]. cbn [orb andb].
    destruct (r_disc r) as [proj|]; [|reflexivity]. rewrite (tcmp_anti (proj (ekey x)) (proj (ekey e))), D. reflexivity. Qed.
Lemma elt_not_same x e : elt x e -> same (slot e) (ekey e) x = false.
Proof. unfold same. intros [L|[E (r & R & D)]].
  - destruct (Nat.eqb_spec (slot x) (slot e)); [lia|reflexivity].
  - destruct (bytes_eqb_spec (ekey x) (ekey e)) as [K|K]; [|now rewrite andb_false_r]. exfalso. rewrite K in D.
    destruct (r_disc r) as [proj|]; [rewrite tcmp_refl in D; discriminate|congruence]. Qed.

Lemma ins_snoc m e : sorted (m ++ [e]) -> ins e m = m ++ [e].
Proof. rewrite sorted_snoc. intros [_ F]. induction m as [|x m IH]; [reflexivity|]. inversion F; subst. cbn [ins app].
  rewrite (elt_not_before _ _ H1). f_equal. now apply IH. Qed.
Lemma has_snoc m e : sorted (m ++ [e]) -> has m (slot e) (ekey e) = false.
Proof. rewrite sorted_snoc. intros [_ F]. unfold has. induction m as [|x m IH]; [reflexivity|]. inversion F; subst. cbn [existsb].
  rewrite (elt_not_same _ _ H1). now apply IH. Qed.

(* insertion keeps the emission order *)
Lemma before_elt e x r : nth_error T (slot e) = Some r -> before e x = true -> elt e x.
Proof. unfold before, elt. intros R B. apply orb_true_iff in B as [B|B]; [left; now apply Nat.ltb_lt|].
  apply andb_true_iff in B as [E B]. apply Nat.eqb_eq in E. right. split; [exact E|]. exists r. split; [exact R|]. rewrite R in B.
  destruct (r_disc r) as [proj|]; [|discriminate]. now destruct (tcmp (proj (ekey e)) (proj (ekey x))). Qed.
Lemma not_before_elt e x r :
  nth_error T (slot e) = Some r -> before e x = false -> same (slot e) (ekey e) x = false ->
  (forall proj, r_disc r = DSorted proj -> slot x = slot e -> proj (ekey x) = proj (ekey e) -> ekey x = ekey e) ->
  elt x e.
Proof. unfold before, elt, same. intros R B S Inj. apply orb_false_iff in B as [B1 B2]. apply Nat.ltb_ge in B1.
  destruct (Nat.eqb_spec (slot e) (slot x)) as [E|E]; [|left; lia]. right. split; [now symmetry|]. exists r. rewrite <- E. split; [exact R|].
  rewrite R in B2. cbn [andb] in B2. rewrite <- E, Nat.eqb_refl in S. cbn [andb] in S.
  assert (K : ekey x <> ekey e) by (destruct (bytes_eqb_spec (ekey x) (ekey e)); [discriminate|assumption]).
  destruct (r_disc r) as [proj|] eqn:D; [|exact K].
  rewrite (tcmp_anti (proj (ekey e)) (proj (ekey x))). destruct (tcmp (proj (ekey e)) (proj (ekey x))) eqn:C; try discriminate; [|reflexivity].
  exfalso. apply tcmp_eq in C. apply K. apply (Inj proj eq_refl); [now symmetry|now symmetry]. Qed.

Lemma ins_sorted e m r :
  nth_error T (slot e) = Some r -> sorted m -> has m (slot e) (ekey e) = false ->
  (forall x proj, In x m -> r_disc r = DSorted proj -> slot x = slot e -> proj (ekey x) = proj (ekey e) -> ekey x = ekey e) ->
  sorted (ins e m).
Proof. intros R. induction m as [|x m IH]; intros S H Inj; cbn [ins]; [cbn; split; [constructor|exact I]|].
  cbn [sorted] in S. destruct S as [Fx S]. unfold has in H. cbn [existsb] in H. apply orb_false_iff in H as [Hx H].
  destruct (before e x) eqn:B.
  - cbn [sorted]. repeat split; auto. pose proof (before_elt _ _ _ R B) as Ex. constructor; [exact Ex|].
    rewrite Forall_forall in *. intros y Hy. specialize (Fx y Hy).
    unfold before in B. apply orb_true_iff in B as [B|B].
    + apply Nat.ltb_lt in B. left. destruct Fx as [L|[E _]]; lia.
    + apply andb_true_iff in B as [E B]. apply Nat.eqb_eq in E. rewrite R in B. destruct (r_disc r) as [proj|] eqn:D; [|discriminate].
      destruct (tcmp (proj (ekey e)) (proj (ekey x))) eqn:C; try discriminate.
      destruct Fx as [L|[E' (r' & R' & D')]]; [left; lia|]. right. split; [lia|]. exists r. split; [exact R|]. rewrite D.
      rewrite <- E, R in R'. inversion R'; subst r'. rewrite D in D'. eapply tcmp_trans; eauto.
  - cbn [sorted]. split; [|apply IH; auto; intros; eapply Inj; eauto; now right].
    rewrite Forall_forall in *. intros y Hy. apply ins_in in Hy as [->|Hy]; [|now apply Fx].
    eapply not_before_elt; eauto. intros proj D E P. eapply Inj; eauto. now left. Qed.

Lemma sorted_map f m : (forall x, slot (f x) = slot x /\ ekey (f x) = ekey x) -> sorted m -> sorted (map f m).
Proof. intros Hf. assert (E : forall a b, elt a b -> elt (f a) (f b)).
  { intros a b. unfold elt. destruct (Hf a) as [-> ->], (Hf b) as [-> ->]. auto. }
  induction m as [|x m IH]; [auto|]. cbn [sorted map]. intros [F S]. split; [|auto]. rewrite Forall_map. eapply Forall_impl; [|exact F]. intros; now apply E. Qed.

(* ---------------------------------------------------------------- classification of the key an entry is emitted under *)
Lemma fitsb_le a b : (length a <= length b)%nat -> fitsb maxvec b = true -> fitsb maxvec a = true.
Proof. unfold fitsb. intros. lia. Qed.
Lemma pset_prefix_fits : fitsb maxvec pset_prefix = true. Proof. unfold fitsb, pset_prefix. cbn [length]. lia. Qed.

(* a key that classifies to (i, kd) still classifies to i once its key data is replaced by a canonical k (not longer than kd) *)
Lemma classify_canon t kd0 i kd r k c :
  classify (t, kd0) = POk (i, kd) -> nth_error T i = Some r -> (length k <= length kd)%nat ->
  (r_addr r = AProp \/ r_addr r = AUnk -> k = kd) ->
  classify (mk_key (i, k, c)) = POk (i, k) /\ (fitsb maxvec kd0 = true -> fitsb maxvec (snd (mk_key (i, k, c))) = true).
Proof. intros C R L W. unfold PsetMaps.classify in C. unfold PsetMaps.mk_key. cbn [slot ekey fst snd]. rewrite R.
  destruct (find_idx (is_plain t) T) as [j|] eqn:F1.
  { inversion C; subst j kd0. destruct (find_idx_some _ _ _ F1) as (r' & R' & P). rewrite R in R'. inversion R'; subst r'.
    unfold is_plain in P. destruct (r_addr r) as [t'| | |] eqn:A; try discriminate. apply byte_eqb_true in P. subst t'.
    unfold PsetMaps.classify. rewrite F1. split; [reflexivity|]. cbn [snd]. now apply fitsb_le. }
  destruct (byte_eqb_spec t xfc) as [->|Nfc].
  - destruct (prop_dec maxvec kd0) as [[[pfx s] d]|] eqn:PD; [|discriminate].
    destruct (prop_dec_exact _ _ _ _ _ PD) as [Ekd Fp].
    destruct (if bytes_eqb pfx pset_prefix then find_idx (is_pset s) T else None) as [j|] eqn:F2.
    + inversion C; subst j d. destruct (bytes_eqb_spec pfx pset_prefix) as [->|]; [|discriminate].
      destruct (find_idx_some _ _ _ F2) as (r' & R' & P). rewrite R in R'. inversion R'; subst r'.
      unfold is_pset in P. destruct (r_addr r) as [|s'| |] eqn:A; try discriminate. apply byte_eqb_true in P. subst s'.
      unfold PsetMaps.classify. rewrite F1. cbn [byte_eqb Byte.eqb]. rewrite (byte_eqb_refl xfc).
      rewrite (prop_dec_enc _ Hmax _ _ _ pset_prefix_fits). rewrite bytes_eqb_refl, F2. split; [reflexivity|].
      cbn [snd]. subst kd0. unfold fitsb. rewrite !prop_enc_length. lia.
    + destruct (find_idx is_prop T) as [j|] eqn:F3; [|discriminate]. inversion C; subst j kd.
      destruct (find_idx_some _ _ _ F3) as (r' & R' & P). rewrite R in R'. inversion R'; subst r'.
      unfold is_prop in P. destruct (r_addr r) eqn:A; try discriminate. rewrite (W (or_introl eq_refl)).
      unfold PsetMaps.classify. rewrite F1, (byte_eqb_refl xfc), PD, F2, F3. split; [reflexivity|auto].
  - destruct (find_idx is_unk T) as [j|] eqn:F3; [|discriminate]. inversion C; subst j kd.
    destruct (find_idx_some _ _ _ F3) as (r' & R' & P). rewrite R in R'. inversion R'; subst r'.
    unfold is_unk in P. destruct (r_addr r) eqn:A; try discriminate. rewrite (W (or_intror eq_refl)).
    unfold PsetMaps.classify. rewrite F1. destruct (byte_eqb_spec t xfc); [contradiction|]. rewrite F3. split; [reflexivity|auto]. Qed.

(* ---------------------------------------------------------------- inserting an emitted entry back: append *)
Lemma insert_emitted m e : wf_entry e -> sorted (m ++ [e]) -> insert_pair (mk_key e) (evalue e) m = POk (m ++ [e]).
Proof. intros [(r & R & K & C & _) (r' & R' & V)] S. rewrite R in R'. inversion R'; subst r'.
  unfold PsetMaps.insert_pair. rewrite C. cbn [pbind]. rewrite R.
  pose proof (has_snoc _ _ S) as H. pose proof (ins_snoc _ _ S) as I.
  destruct e as [[i k] v]. cbn [slot ekey evalue fst snd] in *. unfold kvalid in K.
  destruct (r_kind r).
  - subst k. rewrite H, V. cbn [pbind]. f_equal. exact I.
  - subst k. rewrite H, V. cbn [pbind]. f_equal. exact I.
  - destruct K as [Kn Kc]. destruct k as [|b k]; [congruence|]. rewrite Kc. destruct (r_vfirst r); rewrite ?H, ?V; cbn [pbind]; rewrite ?H, ?V; cbn [pbind]; f_equal; exact I.
  - contradiction. Qed.

(* ---------------------------------------------------------------- the decoder invariant *)
Section INV.
Variable G : nat -> Prop.     (* the rows whose value canoniser is idempotent *)
Definition inv (m : pmap) : Prop := sorted m /\ Forall (fun e => weak e /\ (G (slot e) -> vfixed e)) m.

Lemma kvalid_inj r a b : row_ok r -> kvalid r a -> kvalid r b -> forall proj, r_disc r = DSorted proj -> proj a = proj b -> a = b.
Proof. intros O Ka Kb proj D P. unfold kvalid in *. destruct (r_kind r); try contradiction; try congruence.
  destruct Ka as [_ Ka], Kb as [_ Kb]. eapply (ro_proj _ O); eauto. Qed.

Lemma inv_ins m i k c r :
  rows_ok -> (forall j r', nth_error T j = Some r' -> G j -> v_idem r') ->
  inv m -> nth_error T i = Some r -> kvalid r k -> has m i k = false ->
  classify (mk_key (i, k, c)) = POk (i, k) -> fits maxvec (mk_key (i, k, c), c) ->
  (G i -> r_vcanon r k c = POk c) ->
  inv (ins (i, k, c) m).
Proof. intros RO GI [S F] R K H C Fi V. split.
  - eapply ins_sorted; eauto. intros x proj Hx D E P. cbn [slot ekey fst snd] in *.
    rewrite Forall_forall in F. destruct (F x Hx) as [(rx & Rx & Kx & _) _]. rewrite E, R in Rx. inversion Rx; subst rx.
    eapply kvalid_inj; eauto.
  - rewrite Forall_forall in *. intros y Hy. apply ins_in in Hy as [->|Hy]; [|now apply F]. split.
    + exists r. cbn [slot ekey evalue fst snd]. auto.
    + intros Gi. exists r. cbn [slot ekey evalue fst snd]. auto. Qed.

Lemma mk_key_irrel i k v v' : mk_key (i, k, v) = mk_key (i, k, v').
Proof. reflexivity. Qed.

Lemma inv_replace m i c r v0 :
  rows_ok -> (forall j r', nth_error T j = Some r' -> G j -> v_idem r') ->
  inv m -> nth_error T i = Some r -> r_vcanon r [] v0 = POk c -> fitsb maxvec v0 = true ->
  inv (replace i [] c m).
Proof. intros RO GI [S F] R V Fv. split.
  - apply sorted_map; [|exact S]. intros x. unfold same. destruct (Nat.eqb_spec (slot x) i); [|auto]. destruct (bytes_eqb_spec (ekey x) []); [|auto].
    cbn [andb slot ekey fst snd]. auto.
  - unfold replace. rewrite Forall_map. eapply Forall_impl; [|exact F]. intros x [W Vx]. unfold same.
    destruct (Nat.eqb_spec (slot x) i) as [E|]; [|auto]. destruct (bytes_eqb_spec (ekey x) []) as [E'|]; [|auto]. cbn [andb].
    destruct x as [[i' k'] v']. cbn [slot ekey fst snd] in E, E'. subst i' k'.
    destruct W as (rx & Rx & Kx & Cx & Fx). cbn [slot ekey evalue fst snd] in *. rewrite R in Rx. inversion Rx; subst rx. split.
    + exists r. cbn [slot ekey evalue fst snd]. destruct Fx as [Fx1 Fx2]. split; [exact R|]. split; [exact Kx|]. split; [exact Cx|]. split; [exact Fx1|]. cbn [snd].
      eapply fitsb_le; [eapply (ro_vsize _ (RO _ _ R)); eauto|exact Fv].
    + intros Gi. exists r. cbn [slot ekey evalue fst snd]. split; [exact R|]. eapply (GI _ _ R Gi); eauto. Qed.

Lemma inv_insert key v m m' :
  rows_ok -> (forall j r', nth_error T j = Some r' -> G j -> v_idem r') ->
  inv m -> fits maxvec (key, v) -> insert_pair key v m = POk m' -> inv m'.
Proof. intros RO GI I [Fk Fv] H. cbn [fst snd] in Fk, Fv. unfold PsetMaps.insert_pair in H. destruct key as [t kd0].
  destruct (classify (t, kd0)) as [[i kd]|] eqn:C; [|discriminate]. cbn [pbind] in H.
  destruct (nth_error T i) as [r|] eqn:R; [|discriminate]. pose proof (RO _ _ R) as O.
  assert (NEW : forall k c, (length k <= length kd)%nat -> (length c <= length v)%nat -> kvalid r k -> has m i k = false ->
                 (r_addr r = AProp \/ r_addr r = AUnk -> k = kd) -> (G i -> r_vcanon r k c = POk c) -> inv (ins (i, k, c) m)).
  { intros k c Lk Lc K Hh W V. destruct (classify_canon _ _ _ _ _ k c C R Lk W) as [C' F'].
    eapply inv_ins; eauto. split; cbn [fst snd]; [now apply F'|]. eapply fitsb_le; eauto. }
  destruct (r_kind r) eqn:KD.
  - destruct kd as [|b kd]; [|discriminate]. destruct (has m i []) eqn:Hh; [discriminate|].
    destruct (r_vcanon r [] v) as [c|] eqn:V; [|discriminate]. cbn [pbind] in H. inversion H; subst m'.
    apply NEW; [cbn; lia|eapply (ro_vsize _ O); eauto|unfold kvalid; now rewrite KD|exact Hh| |].
    + intros A. destruct (ro_whole _ O A) as [K' _]. congruence.
    + intros Gi. eapply (GI _ _ R Gi); eauto.
  - destruct kd as [|b kd]; [|discriminate]. destruct (r_vcanon r [] v) as [c|] eqn:V; [|discriminate]. cbn [pbind] in H. inversion H; subst m'.
    destruct (has m i []) eqn:Hh.
    + eapply inv_replace; eauto.
    + apply NEW; [cbn; lia|eapply (ro_vsize _ O); eauto|unfold kvalid; now rewrite KD|exact Hh| |].
      * intros A. destruct (ro_whole _ O A) as [K' _]. congruence.
      * intros Gi. eapply (GI _ _ R Gi); eauto.
  - destruct kd as [|b kd]; [discriminate|]. destruct (r_kcanon r (b :: kd)) as [k|] eqn:KC; [|discriminate].
    destruct (ro_k _ O _ _ KC) as (Kn & Kc & Kl).
    assert (W : r_addr r = AProp \/ r_addr r = AUnk -> k = b :: kd).
    { intros A. destruct (ro_whole _ O A) as [_ K']. rewrite K' in KC by discriminate. now inversion KC. }
    assert (KV : kvalid r k) by (unfold kvalid; now rewrite KD).
    destruct (r_vfirst r).
    + destruct (r_vcanon r k v) as [c|] eqn:V; [|discriminate]. cbn [pbind] in H. destruct (has m i k) eqn:Hh; [discriminate|]. inversion H; subst m'.
      apply NEW; [exact Kl|eapply (ro_vsize _ O); eauto|exact KV|exact Hh|exact W|]. intros Gi. eapply (GI _ _ R Gi); eauto.
    + destruct (has m i k) eqn:Hh; [discriminate|]. destruct (r_vcanon r k v) as [c|] eqn:V; [|discriminate]. cbn [pbind] in H. inversion H; subst m'.
      apply NEW; [exact Kl|eapply (ro_vsize _ O); eauto|exact KV|exact Hh|exact W|]. intros Gi. eapply (GI _ _ R Gi); eauto.
  - discriminate. Qed.

Lemma inv_dec_entries : rows_ok -> (forall j r', nth_error T j = Some r' -> G j -> v_idem r') ->
  forall fuel bs m m' rest, inv m -> dec_entries fuel bs m = POk (m', rest) -> inv m'.
Proof. intros RO GI. induction fuel as [|f IH]; intros bs m m' rest I H; [discriminate|]. cbn [PsetMaps.dec_entries] in H.
  destruct (dec_pair maxvec bs) as [[[[key v]|] r]|] eqn:D; try discriminate.
  - destruct (insert_pair key v m) as [m1|] eqn:P; [|discriminate]. cbn [pbind] in H.
    apply (dec_pair_some _ Hmax) in D as [_ Fi]. eapply IH; [|exact H]. eapply inv_insert; eauto.
  - inversion H; subst. exact I. Qed.

End INV.

(* ---------------------------------------------------------------- round trip of the entry stream *)
Lemma enc_entries_app a b : enc_entries (a ++ b) = enc_entries a ++ enc_entries b.
Proof. unfold PsetMaps.enc_entries. now rewrite map_app, concat_app. Qed.
Lemma enc_entries_length m : (length m <= length (enc_entries m))%nat.
Proof. induction m as [|e m IH]; [cbn; lia|]. unfold PsetMaps.enc_entries in *. cbn [map concat]. rewrite app_length.
  pose proof (enc_pair_nonempty maxvec Hmax (mk_key e, evalue e)) as H. change (enc_pair maxvec (mk_key e, evalue e)) with (enc_entry e) in H. cbn [length]. lia. Qed.

Lemma dec_entries_emitted : forall es m0 fuel rest,
  (length es < fuel)%nat -> sorted (m0 ++ es) -> Forall wf_entry es ->
  dec_entries fuel (enc_entries es ++ x00 :: rest) m0 = POk (m0 ++ es, rest).
Proof. induction es as [|e es IH]; intros m0 fuel rest L S F.
  - destruct fuel; [cbn in L; lia|]. cbn. now rewrite app_nil_r.
  - destruct fuel as [|f]; [cbn in L; lia|]. inversion F; subst. cbn [PsetMaps.dec_entries].
    unfold PsetMaps.enc_entries. cbn [map concat]. fold (enc_entries es). rewrite <- app_assoc. unfold PsetMaps.enc_entry at 1.
    destruct H1 as [Wk Vf]. pose proof Wk as (r & _ & _ & _ & Fi).
    rewrite (dec_pair_enc _ Hmax _ _ Fi).
    assert (S1 : sorted (m0 ++ [e])).
    { replace (m0 ++ e :: es) with ((m0 ++ [e]) ++ es) in S by now rewrite <- app_assoc.
      clear - S. induction es as [|y es IHes] using rev_ind; [now rewrite app_nil_r in S|]. rewrite app_assoc in S. apply sorted_snoc in S as [S _]. auto. }
    rewrite (insert_emitted m0 e (conj Wk Vf) S1). cbn [pbind].
    replace (m0 ++ e :: es) with ((m0 ++ [e]) ++ es) in * by now rewrite <- app_assoc.
    apply IH; auto. cbn [length] in L. lia. Qed.

(* ---------------------------------------------------------------- one map *)
Variable post : pmap -> option perr.
Notation dec_map := (dec_map maxvec T post).
Notation enc_map := (enc_map maxvec T).
Definition wf_map (m : pmap) : Prop := wf_entries m /\ post m = None.

Theorem dec_map_rt m rest : wf_map m -> dec_map (enc_map m ++ rest) = POk (m, rest).
Proof. intros [[S F] P]. unfold PsetMaps.dec_map, PsetMaps.enc_map. rewrite <- app_assoc. cbn [app].
  rewrite (dec_entries_emitted m [] _ rest); [cbn [pbind fst app]; now rewrite P| |exact S|exact F].
  rewrite app_length. pose proof (enc_entries_length m). lia. Qed.

Section FIX.
Variable G : nat -> Prop.
Lemma inv_nil : inv G []. Proof. split; [exact I|constructor]. Qed.
Theorem dec_map_inv bs m rest : rows_ok -> (forall j r', nth_error T j = Some r' -> G j -> v_idem r') ->
  dec_map bs = POk (m, rest) -> inv G m /\ post m = None.
Proof. intros RO GI H. unfold PsetMaps.dec_map in H. destruct (dec_entries (S (length bs)) bs []) as [[m' r']|] eqn:D; [|discriminate].
  cbn [pbind fst] in H. destruct (post m') eqn:P; [discriminate|]. inversion H; subst. split; [|exact P].
  eapply inv_dec_entries; eauto. apply inv_nil. Qed.
Lemma inv_wf m : inv G m -> Forall (fun e => G (slot e) \/ vfixed e) m -> wf_entries m.
Proof. intros [S F] H. split; [exact S|]. rewrite Forall_forall in *. intros e He. destruct (F e He) as [W V]. split; [exact W|].
  destruct (H e He); auto. Qed.
(* decode; encode; decode again gives the same map, and its encoding is a fixpoint *)
Theorem dec_map_fix bs m rest : rows_ok -> (forall j r', nth_error T j = Some r' -> G j -> v_idem r') ->
  dec_map bs = POk (m, rest) -> Forall (fun e => G (slot e) \/ vfixed e) m ->
  wf_map m /\ forall rest', dec_map (enc_map m ++ rest') = POk (m, rest').
Proof. intros RO GI H F. destruct (dec_map_inv _ _ _ RO GI H) as [I P].
  assert (W : wf_map m) by (split; [now apply inv_wf|exact P]). split; [exact W|]. intros. now apply dec_map_rt. Qed.

End FIX.

(* ---- duplicate keys ---- *)
Lemma has_ins e m i k : has (ins e m) i k = same i k e || has m i k.
Proof. unfold has. induction m as [|x m IH]; cbn [ins existsb]; [now rewrite orb_false_r|].
  destruct (before e x); cbn [existsb]; [reflexivity|]. rewrite IH. now rewrite !orb_assoc, (orb_comm (same i k x)). Qed.
Lemma has_replace m i k j k' v : has (replace j k' v m) i k = has m i k.
Proof. unfold has, replace. induction m as [|x m IH]; [reflexivity|]. cbn [map existsb]. rewrite IH. f_equal.
  unfold same at 2. destruct (Nat.eqb_spec (slot x) j) as [E|]; [|reflexivity]. destruct (bytes_eqb_spec (ekey x) k') as [E'|]; [|reflexivity].
  cbn [andb]. unfold same. cbn [slot ekey fst snd]. now rewrite E, E'. Qed.
(* what a successful insertion stores: the canonical key is present afterwards, and nothing is ever removed *)
Lemma insert_has key v m m' : insert_pair key v m = POk m' ->
  (forall i k, has m i k = true -> has m' i k = true) /\
  exists i kd r, classify key = POk (i, kd) /\ nth_error T i = Some r /\
    has m' i (match r_kind r with KMap => match r_kcanon r kd with Some k => k | None => [] end | _ => [] end) = true.
Proof. unfold PsetMaps.insert_pair. destruct (classify key) as [[i kd]|] eqn:C; [|discriminate]. cbn [pbind].
  destruct (nth_error T i) as [r|] eqn:R; [|discriminate]. intros H.
  assert (X : forall k c, m' = ins (i, k, c) m -> (forall i0 k0, has m i0 k0 = true -> has m' i0 k0 = true) /\ has m' i k = true).
  { intros k c ->. split; [intros i0 k0 Hh; rewrite has_ins, Hh; apply orb_true_r|]. rewrite has_ins. unfold same. cbn [slot ekey fst snd].
    now rewrite Nat.eqb_refl, bytes_eqb_refl. }
  destruct (r_kind r) eqn:KD.
  - destruct kd; [|discriminate]. destruct (has m i []); [discriminate|]. destruct (r_vcanon r [] v) as [c|]; [|discriminate]. cbn [pbind] in H. injection H as <-.
    destruct (X [] c eq_refl) as [M Hn]. split; [exact M|]. exists i, [], r. rewrite KD. auto.
  - destruct kd; [|discriminate]. destruct (r_vcanon r [] v) as [c|]; [|discriminate]. cbn [pbind] in H. injection H as <-. destruct (has m i []) eqn:Hh.
    + split; [intros; now rewrite has_replace|]. exists i, [], r. rewrite KD, has_replace. auto.
    + destruct (X [] c eq_refl) as [M Hn]. split; [exact M|]. exists i, [], r. rewrite KD. auto.
  - destruct kd as [|b kd]; [discriminate|]. destruct (r_kcanon r (b :: kd)) as [k|] eqn:KC; [|discriminate].
    assert (Y : exists c, m' = ins (i, k, c) m).
    { destruct (r_vfirst r).
      - destruct (r_vcanon r k v) as [c|]; [|discriminate]. cbn [pbind] in H. destruct (has m i k); [discriminate|]. injection H as <-. eauto.
      - destruct (has m i k); [discriminate|]. destruct (r_vcanon r k v) as [c|]; [|discriminate]. cbn [pbind] in H. injection H as <-. eauto. }
    destruct Y as [c Y]. destruct (X k c Y) as [M Hn]. split; [exact M|]. exists i, (b :: kd), r. rewrite KD, KC. auto.
  - discriminate. Qed.
(* a second pair with a raw key already seen is an error, unless the field is assigned without the is_none() test *)
Lemma insert_dup key v m i kd r :
  classify key = POk (i, kd) -> nth_error T i = Some r -> r_kind r <> KOptLast ->
  has m i (match r_kind r with KMap => match r_kcanon r kd with Some k => k | None => [] end | _ => [] end) = true ->
  exists e, insert_pair key v m = PErr e.
Proof. intros C R NL H. unfold PsetMaps.insert_pair. rewrite C. cbn [pbind]. rewrite R. destruct (r_kind r) eqn:KD; try congruence.
  - destruct kd; [rewrite H|]; eauto.
  - destruct kd as [|b kd]; [eauto|]. destruct (r_kcanon r (b :: kd)) as [k|]; [|eauto]. rewrite H.
    destruct (r_vfirst r); [|eauto]. destruct (r_vcanon r k v); cbn [pbind]; eauto.
  - eauto. Qed.
Lemma dec_entries_has : forall fuel bs m m' rest, dec_entries fuel bs m = POk (m', rest) -> forall i k, has m i k = true -> has m' i k = true.
Proof. induction fuel as [|f IH]; intros bs m m' rest H i k Hh; [discriminate|]. cbn [PsetMaps.dec_entries] in H.
  destruct (dec_pair maxvec bs) as [[[[key v]|] r]|]; try discriminate.
  - destruct (insert_pair key v m) as [m1|] eqn:P; [|discriminate]. cbn [pbind] in H. eapply IH; [exact H|]. now apply (proj1 (insert_has _ _ _ _ P)).
  - inversion H; subst. exact Hh. Qed.
(* BTreeMap::insert then BTreeMap::get on a keyed field (the ELIP-100 / ELIP-102 accessors) *)
Lemma get_set m i k v : get_key (set_keyed T m i k v) i k = Some v.
Proof. unfold get_key, set_keyed. destruct (has m i k) eqn:Hh.
  - assert (F : find (same i k) (replace i k v m) = Some (i, k, v)); [|now rewrite F].
    unfold has in Hh. induction m as [|x m IH]; [discriminate|]. cbn [existsb] in Hh. cbn [replace map find]. fold (replace i k v m).
    destruct (same i k x) eqn:S.
    + unfold same at 1. cbn [slot ekey fst snd]. now rewrite Nat.eqb_refl, bytes_eqb_refl.
    + rewrite S. cbn [orb] in Hh. now apply IH.
  - assert (F : find (same i k) (ins (i, k, v) m) = Some (i, k, v)); [|now rewrite F].
    assert (Se : same i k (i, k, v) = true) by (unfold same; cbn [slot ekey fst snd]; now rewrite Nat.eqb_refl, bytes_eqb_refl).
    unfold has in Hh. induction m as [|x m IH]; cbn [PsetMaps.ins find]; [now rewrite Se|]. cbn [existsb] in Hh. apply orb_false_iff in Hh as [Sx Hh].
    destruct (before (i, k, v) x); cbn [find]; [now rewrite Se|]. rewrite Sx. now apply IH. Qed.
Lemma get_set_other m i k v i' k' : (i', k') <> (i, k) -> get_key (set_keyed T m i k v) i' k' = get_key m i' k'.
Proof. intros NE. unfold get_key, set_keyed. f_equal.
  assert (Sn : forall w, same i' k' (i, k, w) = false).
  { intros w. unfold same. cbn [slot ekey fst snd]. destruct (Nat.eqb_spec i i'); [|reflexivity]. destruct (bytes_eqb_spec k k'); [|reflexivity]. subst. congruence. }
  destruct (has m i k).
  - induction m as [|x m IH]; [reflexivity|]. cbn [replace map find]. fold (replace i k v m). destruct (same i k x) eqn:S.
    + rewrite Sn. unfold same in S. apply andb_true_iff in S as [S1 S2]. apply Nat.eqb_eq in S1. apply bytes_eqb_true in S2.
      assert (Sx : same i' k' x = false). { unfold same. rewrite S1, S2. destruct (Nat.eqb_spec i i'); [|reflexivity]. destruct (bytes_eqb_spec k k'); [|reflexivity]. subst. congruence. }
      rewrite Sx. exact IH.
    + destruct (same i' k' x); [reflexivity|exact IH].
  - induction m as [|x m IH]; cbn [PsetMaps.ins find]; [now rewrite Sn|]. destruct (before (i, k, v) x); cbn [find]; [now rewrite Sn|]. destruct (same i' k' x); [reflexivity|exact IH]. Qed.

Fixpoint enc_pairs (ps : list rpair) : bytes := match ps with [] => [] | p :: r => enc_pair maxvec p ++ enc_pairs r end.
Theorem dup_rejected : forall fuel (a : list rpair) key v1 (b : list rpair) v2 tail m i kd r,
  Forall (fits maxvec) a -> fits maxvec (key, v1) -> Forall (fits maxvec) b -> fits maxvec (key, v2) ->
  classify key = POk (i, kd) -> nth_error T i = Some r -> r_kind r <> KOptLast ->
  exists e, dec_entries fuel (enc_pairs a ++ enc_pair maxvec (key, v1) ++ enc_pairs b ++ enc_pair maxvec (key, v2) ++ tail) m = PErr e.
Proof. intros fuel a key v1 b v2 tail m i kd r Fa F1 Fb F2 C R NL. revert fuel m.
  assert (SECOND : forall b fuel m, Forall (fits maxvec) b ->
    has m i (match r_kind r with KMap => match r_kcanon r kd with Some k => k | None => [] end | _ => [] end) = true ->
    exists e, dec_entries fuel (enc_pairs b ++ enc_pair maxvec (key, v2) ++ tail) m = PErr e).
  { clear b Fb. induction b as [|p b IH]; intros fuel m Fb Hh; (destruct fuel as [|f]; [cbn; eauto|]); cbn [enc_pairs app PsetMaps.dec_entries].
    - rewrite (dec_pair_enc _ Hmax _ _ F2). destruct (insert_dup key v2 m i kd r C R NL Hh) as [e ->]. cbn [pbind]. eauto.
    - inversion Fb; subst. rewrite <- app_assoc, (dec_pair_enc _ Hmax _ _ H1). destruct p as [kp vp].
      destruct (insert_pair kp vp m) as [m1|] eqn:P; cbn [pbind]; [|eauto]. apply IH; auto. now apply (proj1 (insert_has _ _ _ _ P)). }
  induction a as [|p a IH]; intros fuel m; (destruct fuel as [|f]; [cbn; eauto|]); cbn [enc_pairs app PsetMaps.dec_entries].
  - rewrite (dec_pair_enc _ Hmax _ _ F1). destruct (insert_pair key v1 m) as [m1|] eqn:P; cbn [pbind]; [|eauto].
    destruct (insert_has _ _ _ _ P) as [_ (i' & kd' & r' & C' & R' & Hh)]. rewrite C in C'. inversion C'; subst i' kd'. rewrite R in R'. inversion R'; subst r'.
    now apply SECOND.
  - inversion Fa; subst. rewrite <- app_assoc, (dec_pair_enc _ Hmax _ _ H1). destruct p as [kp vp].
    destruct (insert_pair kp vp m) as [m1|] eqn:P; cbn [pbind]; [|eauto]. now apply IH. Qed.
(* the same without the classification premise: a key that does not classify (or names no row) is already an error at its first occurrence *)
Lemma first_bad : forall (a : list rpair) fuel key v1 tail m,
  Forall (fits maxvec) a -> fits maxvec (key, v1) -> (forall m', exists e, insert_pair key v1 m' = PErr e) ->
  exists e, dec_entries fuel (enc_pairs a ++ enc_pair maxvec (key, v1) ++ tail) m = PErr e.
Proof. induction a as [|p a IH]; intros fuel key v1 tail m Fa F1 Bad; (destruct fuel as [|f]; [cbn; eauto|]); cbn [enc_pairs app PsetMaps.dec_entries].
  - rewrite (dec_pair_enc _ Hmax _ _ F1). destruct (Bad m) as [e ->]. cbn [pbind]. eauto.
  - inversion Fa; subst. rewrite <- app_assoc, (dec_pair_enc _ Hmax _ _ H1). destruct p as [kp vp].
    destruct (insert_pair kp vp m) as [m1|]; cbn [pbind]; [|eauto]. now apply IH. Qed.
Theorem dup_rejected_any : forall fuel (a : list rpair) key v1 (b : list rpair) v2 tail m,
  Forall (fits maxvec) a -> fits maxvec (key, v1) -> Forall (fits maxvec) b -> fits maxvec (key, v2) ->
  (forall i kd r, classify key = POk (i, kd) -> nth_error T i = Some r -> r_kind r <> KOptLast) ->
  exists e, dec_entries fuel (enc_pairs a ++ enc_pair maxvec (key, v1) ++ enc_pairs b ++ enc_pair maxvec (key, v2) ++ tail) m = PErr e.
Proof. intros fuel a key v1 b v2 tail m Fa F1 Fb F2 NL. destruct (classify key) as [[i kd]|e0] eqn:C.
  - destruct (nth_error T i) as [r|] eqn:R.
    + eapply dup_rejected; eauto.
    + apply first_bad; auto. intros m'. unfold PsetMaps.insert_pair. rewrite C. cbn [pbind]. rewrite R. eauto.
  - apply first_bad; auto. intros m'. unfold PsetMaps.insert_pair. rewrite C. cbn [pbind]. eauto. Qed.
(* ---- BTreeMap::insert on a keyed field keeps a map well-formed (the ELIP accessors) ---- *)
Lemma set_keyed_wf m i k v : rows_ok -> wf_entries m -> wf_entry (i, k, v) -> wf_entries (set_keyed T m i k v).
Proof. intros RO [S F] We. unfold set_keyed. destruct (has m i k) eqn:Hh.
  - split.
    + apply sorted_map; [|exact S]. intros x. unfold same. destruct (Nat.eqb_spec (slot x) i); [|auto]. destruct (bytes_eqb_spec (ekey x) k); [|auto].
      cbn [andb slot ekey fst snd]. auto.
    + unfold replace. rewrite Forall_map. eapply Forall_impl; [|exact F]. intros x Wx. destruct (same i k x); assumption.
  - destruct We as [Wk Vf]. pose proof Wk as (r & R & K & _). cbn [slot ekey fst snd] in R, K. split.
    + eapply ins_sorted; eauto. intros x proj Hx D E P. cbn [slot ekey fst snd] in *.
      rewrite Forall_forall in F. destruct (F x Hx) as [(rx & Rx & Kx & _) _]. rewrite E, R in Rx. inversion Rx; subst rx.
      eapply kvalid_inj; eauto.
    + rewrite Forall_forall in *. intros y Hy. apply ins_in in Hy as [->|Hy]; [split; assumption|now apply F]. Qed.
Lemma has_slot_ins e m j : has_slot (ins e m) j = Nat.eqb (slot e) j || has_slot m j.
Proof. unfold has_slot. induction m as [|x m IH]; cbn [PsetMaps.ins existsb]; [now rewrite orb_false_r|].
  destruct (before e x); cbn [existsb]; [reflexivity|]. rewrite IH. now rewrite !orb_assoc, (orb_comm (Nat.eqb (slot x) j)). Qed.
Lemma has_slot_replace m i k v j : has_slot (replace i k v m) j = has_slot m j.
Proof. unfold has_slot, replace. induction m as [|x m IH]; [reflexivity|]. cbn [map existsb]. rewrite IH. f_equal.
  unfold same. destruct (Nat.eqb_spec (slot x) i) as [E|]; [|reflexivity]. destruct (bytes_eqb (ekey x) k); [|reflexivity]. cbn [andb slot fst snd]. now rewrite E. Qed.
Lemma has_slot_set m i k v j : j <> i -> has_slot (set_keyed T m i k v) j = has_slot m j.
Proof. intros NE. unfold set_keyed. destruct (has m i k); [apply has_slot_replace|]. rewrite has_slot_ins. cbn [slot fst snd].
  destruct (Nat.eqb_spec i j); [congruence|reflexivity]. Qed.
Lemma get_opt_set m i k v j : j <> i -> get_opt (set_keyed T m i k v) j = get_opt m j.
Proof. intros NE. apply (get_set_other m i k v j []). congruence. Qed.
Lemma missing_set m i k v : (forall r, nth_error T i = Some r -> r_mand r = false) -> missing T (set_keyed T m i k v) = missing T m.
Proof. intros NM. unfold missing. induction (seq 0 (length T)) as [|j l IH]; [reflexivity|]. cbn [existsb]. rewrite IH. f_equal.
  destruct (nth_error T j) as [r|] eqn:R; [|reflexivity]. destruct (Nat.eq_dec j i) as [->|NE].
  - now rewrite (NM r R).
  - now rewrite has_slot_set. Qed.

(* ---- framing: whatever the pairs mean, a map decoder that succeeds has consumed exactly the pairs up to the separator ---- *)
Lemma dec_pair_nil : dec_pair maxvec [] = PErr EInvalid.
Proof. reflexivity. Qed.
Lemma dec_entries_framed : forall (ps : list rpair) fuel rest m r, Forall (fits maxvec) ps ->
  dec_entries fuel (enc_pairs ps ++ x00 :: rest) m = POk r -> snd r = rest.
Proof. induction ps as [|p ps IH]; intros fuel rest m r F H; (destruct fuel as [|f]; [discriminate|]); cbn [enc_pairs app PsetMaps.dec_entries] in H.
  - inversion H; reflexivity.
  - inversion F; subst. rewrite <- app_assoc, (dec_pair_enc _ Hmax _ _ H2) in H. destruct p as [kp vp].
    destruct (insert_pair kp vp m) as [m1|]; [|discriminate]. cbn [pbind] in H. eapply IH; eauto. Qed.
Lemma dec_map_framed (ps : list rpair) rest m r : Forall (fits maxvec) ps -> dec_map (enc_pairs ps ++ x00 :: rest) = POk (m, r) -> r = rest.
Proof. intros F H. unfold PsetMaps.dec_map in H. destruct (dec_entries _ _ []) as [[m' r']|] eqn:D; [|discriminate]. cbn [pbind fst] in H.
  destruct (post m'); [discriminate|]. inversion H; subst. exact (dec_entries_framed _ _ _ _ _ F D). Qed.
Lemma dec_map_nil : exists e, dec_map [] = PErr e.
Proof. unfold PsetMaps.dec_map. cbn [length PsetMaps.dec_entries]. rewrite dec_pair_nil. cbn [pbind]. eauto. Qed.
End ONE.
(* ---------------------------------------------------------------- the whole PSET *)
Section PSET.
Variable maxvec : N.
Hypothesis Hmax : maxvec + 1 < 2 ^ 64.
Hypothesis Hmin : 4 <= maxvec.
Variables Tg Ti To : table.
Variables postg posti posto : pmap -> option perr.
Variables n_inputs n_outputs : pmap -> N.
Variable cap : N.
Hypothesis ROg : rows_ok Tg. Hypothesis ROi : rows_ok Ti. Hypothesis ROo : rows_ok To.
(* rows with idempotent value canonisers, per table *)
Variables Gg Gi Go : nat -> Prop.
Hypothesis GIg : forall j r, nth_error Tg j = Some r -> Gg j -> v_idem r.
Hypothesis GIi : forall j r, nth_error Ti j = Some r -> Gi j -> v_idem r.
Hypothesis GIo : forall j r, nth_error To j = Some r -> Go j -> v_idem r.

Notation serialize := (serialize maxvec Tg Ti To).
Notation deserialize := (deserialize maxvec Tg Ti To postg posti posto n_inputs n_outputs cap).
Notation dec_pset := (dec_pset maxvec Tg Ti To postg posti posto n_inputs n_outputs cap).
Notation dec_maps := (dec_maps maxvec).

Definition wf_pset (p : pset) : Prop :=
  wf_map maxvec Tg postg (p_global p) /\ Forall (wf_map maxvec Ti posti) (p_inputs p) /\ Forall (wf_map maxvec To posto) (p_outputs p) /\
  n_inputs (p_global p) = N.of_nat (length (p_inputs p)) /\ n_outputs (p_global p) = N.of_nat (length (p_outputs p)) /\
  n_inputs (p_global p) <= cap /\ n_outputs (p_global p) <= cap.

Lemma dec_maps_rt T post ms rest : Forall (wf_map maxvec T post) ms ->
  dec_maps T post (length ms) (concat (map (enc_map maxvec T) ms) ++ rest) = POk (ms, rest).
Proof. induction ms as [|m ms IH]; intros F; [reflexivity|]. inversion F; subst. cbn [length map concat PsetMaps.dec_maps].
  rewrite <- app_assoc, (dec_map_rt maxvec Hmax Hmin T post m _ H1). cbn [pbind fst snd]. rewrite (IH H2). reflexivity. Qed.

Theorem pset_rt p : wf_pset p -> deserialize (serialize p) = POk p.
Proof. intros (Wg & Wi & Wo & Ni & No & Ci & Co). unfold PsetMaps.deserialize, PsetMaps.dec_pset, PsetMaps.serialize, magic. cbn [app].
  rewrite (dec_map_rt maxvec Hmax Hmin Tg postg _ _ Wg). cbn [pbind fst snd].
  destruct (N.ltb_spec cap (n_inputs (p_global p))); [lia|]. rewrite Ni, Nat2N.id, (dec_maps_rt Ti posti _ _ Wi). cbn [pbind fst snd].
  destruct (N.ltb_spec cap (n_outputs (p_global p))); [lia|]. rewrite No, Nat2N.id.
  rewrite <- (app_nil_r (concat (map (enc_map maxvec To) (p_outputs p)))), (dec_maps_rt To posto _ _ Wo). cbn [pbind fst snd]. now destruct p. Qed.

Definition pmap_ok (T : table) (G : nat -> Prop) (m : pmap) : Prop := Forall (fun e => G (slot e) \/ vfixed T e) m.
(* every stored value is a fixed point of its canoniser (automatic for rows in G) *)
Definition pset_fixed (p : pset) : Prop :=
  pmap_ok Tg Gg (p_global p) /\ Forall (pmap_ok Ti Gi) (p_inputs p) /\ Forall (pmap_ok To Go) (p_outputs p).

Lemma dec_maps_inv T post (G : nat -> Prop) : rows_ok T -> (forall j r, nth_error T j = Some r -> G j -> v_idem r) ->
  forall n bs ms rest, dec_maps T post n bs = POk (ms, rest) ->
  length ms = n /\ Forall (fun m => inv maxvec T G m /\ post m = None) ms.
Proof. intros RO GI. induction n as [|n IH]; intros bs ms rest H; cbn [PsetMaps.dec_maps] in H.
  - inversion H; subst. split; [reflexivity|constructor].
  - destruct (dec_map maxvec T post bs) as [[m r]|] eqn:D; [|discriminate]. cbn [pbind fst snd] in H.
    destruct (dec_maps T post n r) as [[l r']|] eqn:D'; [|discriminate]. cbn [pbind fst snd] in H. inversion H; subst.
    destruct (IH _ _ _ D') as [L F]. split; [cbn; now rewrite L|]. constructor; [|exact F].
    eapply (dec_map_inv maxvec Hmax Hmin T post G); eauto. Qed.

Lemma dec_pset_inv bs p rest : dec_pset bs = POk (p, rest) ->
  exists r0 g r1 ins r2 outs, bs = magic ++ r0 /\ PsetMaps.dec_map maxvec Tg postg r0 = POk (g, r1) /\ n_inputs g <= cap /\
    dec_maps Ti posti (N.to_nat (n_inputs g)) r1 = POk (ins, r2) /\ n_outputs g <= cap /\
    dec_maps To posto (N.to_nat (n_outputs g)) r2 = POk (outs, rest) /\ p = {| p_global := g; p_inputs := ins; p_outputs := outs |}.
Proof. unfold PsetMaps.dec_pset. intros H.
  destruct bs as [|b0 bs]; [discriminate|]. destruct b0; try discriminate.
  destruct bs as [|b1 bs]; [discriminate|]. destruct b1; try discriminate.
  destruct bs as [|b2 bs]; [discriminate|]. destruct b2; try discriminate.
  destruct bs as [|b3 bs]; [discriminate|]. destruct b3; try discriminate.
  destruct bs as [|b4 bs]; [discriminate|]. destruct b4; try discriminate.
  destruct (PsetMaps.dec_map maxvec Tg postg bs) as [[g r0]|] eqn:Dg; [|discriminate]. cbn [pbind fst snd] in H.
  destruct (N.ltb_spec cap (n_inputs g)) as [|Ci]; [discriminate|].
  destruct (dec_maps Ti posti (N.to_nat (n_inputs g)) r0) as [[ins r1]|] eqn:Di; [|discriminate]. cbn [pbind fst snd] in H.
  destruct (N.ltb_spec cap (n_outputs g)) as [|Co]; [discriminate|].
  destruct (dec_maps To posto (N.to_nat (n_outputs g)) r1) as [[outs r2]|] eqn:Do; [|discriminate]. cbn [pbind fst snd] in H.
  inversion H; subst. exists bs, g, r0, ins, r1, outs. repeat split; auto. Qed.

(* what the decoder returns is a well-formed PSET (given the fixedness of values outside the idempotent rows) *)
Theorem deserialize_wf bs p : deserialize bs = POk p -> pset_fixed p -> wf_pset p.
Proof. unfold PsetMaps.deserialize. intros H (Fg & Fi & Fo).
  destruct (dec_pset bs) as [[p' rest]|] eqn:D; [|discriminate]. cbn [pbind fst snd] in H. destruct rest; [|discriminate]. inversion H; subst p'.
  destruct (dec_pset_inv _ _ _ D) as (r0 & g & r1 & ins & r2 & outs & _ & Dg & Ci & Di & Co & Do & ->). cbn [p_global p_inputs p_outputs] in *.
  destruct (dec_map_inv maxvec Hmax Hmin Tg postg Gg _ _ _ ROg GIg Dg) as [Ig Pg].
  destruct (dec_maps_inv Ti posti Gi ROi GIi _ _ _ _ Di) as [Li Ii]. destruct (dec_maps_inv To posto Go ROo GIo _ _ _ _ Do) as [Lo Io].
  unfold wf_pset. cbn [p_global p_inputs p_outputs].
  split; [split; [now apply (inv_wf maxvec Tg Gg)|exact Pg]|].
  split. { rewrite Forall_forall in *. intros m Hm. destruct (Ii m Hm). split; [apply (inv_wf maxvec Ti Gi); [assumption|now apply Fi]|assumption]. }
  split. { rewrite Forall_forall in *. intros m Hm. destruct (Io m Hm). split; [apply (inv_wf maxvec To Go); [assumption|now apply Fo]|assumption]. }
  repeat split; lia. Qed.

(* decoding, then encoding, gives a byte string that decodes to the same PSET (so its encoding is a fixpoint) *)
Theorem pset_fixpoint bs p : deserialize bs = POk p -> pset_fixed p -> deserialize (serialize p) = POk p.
Proof. intros H F. apply pset_rt. eapply deserialize_wf; eauto. Qed.
(* accepted input: the declared counts are the numbers of maps (sanity_check cannot fail after a decode) *)
Theorem deserialize_counts bs p : deserialize bs = POk p -> sanity_check n_inputs n_outputs p = true.
Proof. unfold PsetMaps.deserialize, sanity_check. intros H.
  destruct (dec_pset bs) as [[p' rest]|] eqn:D; [|discriminate]. cbn [pbind fst snd] in H. destruct rest; [|discriminate]. inversion H; subst p'.
  destruct (dec_pset_inv _ _ _ D) as (r0 & g & r1 & ins & r2 & outs & _ & Dg & Ci & Di & Co & Do & ->). cbn [p_global p_inputs p_outputs] in *.
  destruct (dec_maps_inv Ti posti (fun _ => False) ROi (fun _ _ _ F => match F with end) _ _ _ _ Di) as [Li _].
  destruct (dec_maps_inv To posto (fun _ => False) ROo (fun _ _ _ F => match F with end) _ _ _ _ Do) as [Lo _].
  rewrite Li, Lo, !N2Nat.id, !N.eqb_refl. reflexivity. Qed.
(* ---- inconsistent counts: a byte string made of the magic, a global map and k further maps (any pairs at all, only
   well-framed) is accepted only if k is the number of inputs plus the number of outputs the decoder read, i.e. (with
   deserialize_counts) the declared counts; too few maps end in EOF, too many in trailing data ---- *)
Definition enc_rawmap (ps : list rpair) : bytes := enc_pairs maxvec ps ++ [x00].
Lemma enc_rawmap_cons ps rest : enc_rawmap ps ++ rest = enc_pairs maxvec ps ++ x00 :: rest.
Proof. unfold enc_rawmap. now rewrite <- app_assoc. Qed.
Lemma dec_maps_length T post : forall n bs l r, dec_maps T post n bs = POk (l, r) -> length l = n.
Proof. induction n as [|n IH]; intros bs l r H; cbn [PsetMaps.dec_maps] in H; [now inversion H|].
  destruct (PsetMaps.dec_map maxvec T post bs) as [[m r1]|]; [|discriminate]. cbn [pbind fst snd] in H.
  destruct (dec_maps T post n r1) as [[l' r']|] eqn:D; [|discriminate]. cbn [pbind fst snd] in H. inversion H; subst. cbn. f_equal. eapply IH; eauto. Qed.
Lemma dec_maps_framed T post : forall n (ms : list (list rpair)) l r, Forall (Forall (fits maxvec)) ms ->
  dec_maps T post n (concat (map enc_rawmap ms)) = POk (l, r) -> (n <= length ms)%nat /\ r = concat (map enc_rawmap (skipn n ms)).
Proof. induction n as [|n IH]; intros ms l r F H; cbn [PsetMaps.dec_maps] in H.
  - inversion H; subst. split; [lia|reflexivity].
  - destruct ms as [|m1 ms].
    + cbn [map concat] in H. destruct (dec_map_nil maxvec T post) as [e E]. rewrite E in H. discriminate.
    + inversion F; subst. cbn [map concat] in H. rewrite enc_rawmap_cons in H.
      destruct (PsetMaps.dec_map maxvec T post _) as [[m r1]|] eqn:D; [|discriminate]. cbn [pbind fst snd] in H.
      apply (dec_map_framed maxvec Hmax T post _ _ _ _ H2) in D. subst r1.
      destruct (dec_maps T post n _) as [[l' r']|] eqn:D'; [|discriminate]. cbn [pbind fst snd] in H. inversion H; subst.
      destruct (IH _ _ _ H3 D') as [L ->]. split; [cbn; lia|reflexivity]. Qed.
Lemma in_skipn' {A} n : forall (l : list A) x, In x (skipn n l) -> In x l.
Proof. induction n as [|n IH]; intros l x H; [exact H|]. destruct l; [exact H|]. right. now apply IH. Qed.
Lemma concat_rawmaps_nil (ms : list (list rpair)) : concat (map enc_rawmap ms) = [] -> ms = [].
Proof. destruct ms as [|m ms]; [reflexivity|]. cbn [map concat]. unfold enc_rawmap. intros H. apply app_eq_nil in H as [H _]. apply app_eq_nil in H as [_ H]. discriminate. Qed.
Theorem framed_count (gps : list rpair) (ms : list (list rpair)) p :
  Forall (fits maxvec) gps -> Forall (Forall (fits maxvec)) ms ->
  deserialize (magic ++ enc_rawmap gps ++ concat (map enc_rawmap ms)) = POk p ->
  length ms = (length (p_inputs p) + length (p_outputs p))%nat.
Proof. intros Fg Fm H. unfold PsetMaps.deserialize in H.
  destruct (dec_pset _) as [[p' rest]|] eqn:D; [|discriminate]. cbn [pbind fst snd] in H. destruct rest; [|discriminate]. inversion H; subst p'.
  destruct (dec_pset_inv _ _ _ D) as (r0 & g & r1 & ins & r2 & outs & E & Dg & _ & Di & _ & Do & ->). cbn [p_inputs p_outputs].
  apply app_inv_head in E. subst r0. rewrite enc_rawmap_cons in Dg. apply (dec_map_framed maxvec Hmax Tg postg _ _ _ _ Fg) in Dg. subst r1.
  pose proof (dec_maps_length _ _ _ _ _ _ Di) as Li. pose proof (dec_maps_length _ _ _ _ _ _ Do) as Lo.
  destruct (dec_maps_framed _ _ _ _ _ _ Fm Di) as [Ni ->].
  assert (Fs : Forall (Forall (fits maxvec)) (skipn (N.to_nat (n_inputs g)) ms)).
  { apply Forall_forall. intros x Hx. rewrite Forall_forall in Fm. apply Fm. eapply in_skipn'; eauto. }
  destruct (dec_maps_framed _ _ _ _ _ _ Fs Do) as [No E2]. symmetry in E2. apply concat_rawmaps_nil in E2.
  assert (L2 : length (skipn (N.to_nat (n_inputs g)) ms) = N.to_nat (n_outputs g)).
  { apply (f_equal (@length _)) in E2. rewrite skipn_length in E2. cbn [length] in E2. lia. }
  rewrite skipn_length in L2. lia. Qed.

Lemma deserialize_global bs' p : deserialize (magic ++ bs') = POk p -> exists r, PsetMaps.dec_map maxvec Tg postg bs' = POk (p_global p, r).
Proof. unfold PsetMaps.deserialize. destruct (dec_pset _) as [[p' rest]|] eqn:D; [|discriminate]. cbn [pbind fst snd]. destruct rest; [|discriminate]. intros H; inversion H; subst p'.
  destruct (dec_pset_inv _ _ _ D) as (r0 & g & r1 & ins & r2 & outs & E & Dg & _ & _ & _ & _ & ->). apply app_inv_head in E. subst r0. cbn [p_global]. eauto. Qed.
End PSET.
