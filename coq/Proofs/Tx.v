(* Lawfulness (exactness, canonical outputs, completeness, reported length) of every codec of Model/Tx.v. *)
From Coq Require Import List NArith ZArith Lia Bool ZifyN ZifyBool ZifyNat.
From Coq.Strings Require Import Byte.
From EV Require Import Base.Bytes Base.Codec Model.Tx Proofs.Flags.
Import ListNotations.
Ltac Zify.zify_post_hook ::= Z.div_mod_to_equations.
Open Scope N_scope.
Set Default Timeout 10.

Lemma b2n_lit n b : b2n b = n -> n < 256 -> b = n2b n. Proof. intros <- _. now rewrite n2b_b2n. Qed.
Lemma b2n_x00 : b2n x00 = 0. Proof. reflexivity. Qed.
Lemma b2n_x01 : b2n x01 = 1. Proof. reflexivity. Qed.
Lemma b2n_eq_0 b : b2n b = 0 -> b = x00. Proof. intros H. apply b2n_inj. now rewrite H. Qed.
Lemma b2n_eq_1 b : b2n b = 1 -> b = x01. Proof. intros H. apply b2n_inj. now rewrite H. Qed.

Section TX.
Variable pt_ok : bytes -> bool.
Variable maxvec : N.
Variables cap_txin cap_txout cap_vecu8 cap_tx : N.

Ltac tk H := let a := fresh "a" in let r := fresh "r" in let T := fresh "T" in
  match type of H with context [take ?k ?bs] => destruct (take k bs) as [[a r]|] eqn:T; [|discriminate] end.

(* a confidential commitment: prefix byte in {lo,hi}, 32 more bytes, the library accepts the 33 bytes *)
Lemma conf_dec_ok lo hi b r x r' : take 32 r = Some (x, r') -> ((b2n b =? lo) || (b2n b =? hi)) = true -> pt_ok (b :: x) = true ->
  b :: r = (b :: x) ++ r' /\ conf_wf pt_ok lo hi (b :: x) = true.
Proof. intros T P K. apply take_spec in T as [-> L]. split; [reflexivity|]. unfold conf_wf. now rewrite P, L, K. Qed.
Lemma conf_enc_ok lo hi c rest : conf_wf pt_ok lo hi c = true ->
  exists b x, c = b :: x /\ ((b2n b =? lo) || (b2n b =? hi)) = true /\ take 32 (x ++ rest) = Some (x, rest) /\ pt_ok c = true /\ length c = 33%nat.
Proof. destruct c as [|b x]; [discriminate|]. cbn [conf_wf]. intros H. apply andb_true_iff in H as [H K]. apply andb_true_iff in H as [P L].
  apply Nat.eqb_eq in L. exists b, x. repeat split; auto. rewrite <- L. apply take_app. cbn. now rewrite L. Qed.

Lemma c_value_lawful : Lawful (c_value pt_ok).
Proof. split; red; cbn [c_value enc dec wf elen].
  - intros [|b r] v rest H; [discriminate|]. cbn [value_dec] in H.
    destruct (N.eqb_spec (b2n b) 0) as [E0|N0]. { inversion H; subst. cbn [value_enc app]. now rewrite (b2n_eq_0 _ E0). }
    destruct (N.eqb_spec (b2n b) 1) as [E1|N1].
    { destruct (be_dec 8 r) as [[n r']|] eqn:D; [|discriminate]. inversion H; subst. cbn [value_enc].
      apply (l_exact (c_be_lawful 8)) in D. cbn [c_be enc] in D. rewrite D, (b2n_eq_1 _ E1). reflexivity. }
    destruct ((b2n b =? 8) || (b2n b =? 9)) eqn:P; [|discriminate]. tk H. destruct (pt_ok (b :: a)) eqn:K; [|discriminate]. inversion H; subst.
    cbn [value_enc]. now destruct (conf_dec_ok 8 9 _ _ _ _ T P K).
  - intros [|b r] v rest H; [discriminate|]. cbn [value_dec] in H.
    destruct (N.eqb_spec (b2n b) 0) as [E0|N0]. { inversion H; subst; reflexivity. }
    destruct (N.eqb_spec (b2n b) 1) as [E1|N1].
    { destruct (be_dec 8 r) as [[n r']|] eqn:D; [|discriminate]. inversion H; subst. cbn [value_wf].
      apply (l_wf (c_be_lawful 8)) in D. exact D. }
    destruct ((b2n b =? 8) || (b2n b =? 9)) eqn:P; [|discriminate]. tk H. destruct (pt_ok (b :: a)) eqn:K; [|discriminate]. inversion H; subst.
    cbn [value_wf]. now destruct (conf_dec_ok 8 9 _ _ _ _ T P K).
  - intros [|n|c] rest H; cbn [value_enc value_wf] in *.
    + reflexivity.
    + cbn [app value_dec]. rewrite b2n_x01. cbn [N.eqb Pos.eqb]. pose proof (l_complete (c_be_lawful 8) n rest H) as D. cbn [c_be enc dec] in D. now rewrite D.
    + destruct (conf_enc_ok 8 9 c rest H) as (b & x & -> & P & T & K & _). cbn [app value_dec].
      pose proof P as P'. apply orb_true_iff in P. destruct (N.eqb_spec (b2n b) 0); [destruct P as [P|P]; apply N.eqb_eq in P; lia|].
      destruct (N.eqb_spec (b2n b) 1); [destruct P as [P|P]; apply N.eqb_eq in P; lia|].
      now rewrite P', T, K.
  - intros [|n|c] H; cbn [value_len value_enc value_wf length] in *.
    + reflexivity.
    + rewrite be_enc_length. reflexivity.
    + destruct (conf_enc_ok 8 9 c [] H) as (b & x & _ & _ & _ & _ & ->). reflexivity.
Qed.

Lemma c_asset_lawful : Lawful (c_asset pt_ok).
Proof. split; red; cbn [c_asset enc dec wf elen].
  - intros [|b r] v rest H; [discriminate|]. cbn [asset_dec] in H.
    destruct (N.eqb_spec (b2n b) 0) as [E0|N0]. { inversion H; subst. cbn [asset_enc app]. now rewrite (b2n_eq_0 _ E0). }
    destruct (N.eqb_spec (b2n b) 1) as [E1|N1].
    { tk H. inversion H; subst. cbn [asset_enc]. apply take_spec in T as [-> _]. rewrite (b2n_eq_1 _ E1). reflexivity. }
    destruct ((b2n b =? 10) || (b2n b =? 11)) eqn:P; [|discriminate]. tk H. destruct (pt_ok (b :: a)) eqn:K; [|discriminate]. inversion H; subst.
    cbn [asset_enc]. now destruct (conf_dec_ok 10 11 _ _ _ _ T P K).
  - intros [|b r] v rest H; [discriminate|]. cbn [asset_dec] in H.
    destruct (N.eqb_spec (b2n b) 0) as [E0|N0]. { inversion H; subst; reflexivity. }
    destruct (N.eqb_spec (b2n b) 1) as [E1|N1].
    { tk H. inversion H; subst. cbn [asset_wf]. apply take_spec in T as [_ ->]. reflexivity. }
    destruct ((b2n b =? 10) || (b2n b =? 11)) eqn:P; [|discriminate]. tk H. destruct (pt_ok (b :: a)) eqn:K; [|discriminate]. inversion H; subst.
    cbn [asset_wf]. now destruct (conf_dec_ok 10 11 _ _ _ _ T P K).
  - intros [|n|c] rest H; cbn [asset_enc asset_wf] in *.
    + reflexivity.
    + cbn [app asset_dec]. rewrite b2n_x01. cbn [N.eqb Pos.eqb]. apply Nat.eqb_eq in H. rewrite <- H, take_app. reflexivity.
    + destruct (conf_enc_ok 10 11 c rest H) as (b & x & -> & P & T & K & _). cbn [app asset_dec].
      pose proof P as P'. apply orb_true_iff in P. destruct (N.eqb_spec (b2n b) 0); [destruct P as [P|P]; apply N.eqb_eq in P; lia|].
      destruct (N.eqb_spec (b2n b) 1); [destruct P as [P|P]; apply N.eqb_eq in P; lia|].
      now rewrite P', T, K.
  - intros [|n|c] H; cbn [asset_len asset_enc asset_wf length] in *.
    + reflexivity.
    + apply Nat.eqb_eq in H. rewrite H. reflexivity.
    + destruct (conf_enc_ok 10 11 c [] H) as (b & x & _ & _ & _ & _ & ->). reflexivity.
Qed.

Lemma c_nonce_lawful : Lawful (c_nonce pt_ok).
Proof. split; red; cbn [c_nonce enc dec wf elen].
  - intros [|b r] v rest H; [discriminate|]. cbn [nonce_dec] in H.
    destruct (N.eqb_spec (b2n b) 0) as [E0|N0]. { inversion H; subst. cbn [nonce_enc app]. now rewrite (b2n_eq_0 _ E0). }
    destruct (N.eqb_spec (b2n b) 1) as [E1|N1].
    { tk H. inversion H; subst. cbn [nonce_enc]. apply take_spec in T as [-> _]. rewrite (b2n_eq_1 _ E1). reflexivity. }
    destruct ((b2n b =? 2) || (b2n b =? 3)) eqn:P; [|discriminate]. tk H. destruct (pt_ok (b :: a)) eqn:K; [|discriminate]. inversion H; subst.
    cbn [nonce_enc]. now destruct (conf_dec_ok 2 3 _ _ _ _ T P K).
  - intros [|b r] v rest H; [discriminate|]. cbn [nonce_dec] in H.
    destruct (N.eqb_spec (b2n b) 0) as [E0|N0]. { inversion H; subst; reflexivity. }
    destruct (N.eqb_spec (b2n b) 1) as [E1|N1].
    { tk H. inversion H; subst. cbn [nonce_wf]. apply take_spec in T as [_ ->]. reflexivity. }
    destruct ((b2n b =? 2) || (b2n b =? 3)) eqn:P; [|discriminate]. tk H. destruct (pt_ok (b :: a)) eqn:K; [|discriminate]. inversion H; subst.
    cbn [nonce_wf]. now destruct (conf_dec_ok 2 3 _ _ _ _ T P K).
  - intros [|n|c] rest H; cbn [nonce_enc nonce_wf] in *.
    + reflexivity.
    + cbn [app nonce_dec]. rewrite b2n_x01. cbn [N.eqb Pos.eqb]. apply Nat.eqb_eq in H. rewrite <- H, take_app. reflexivity.
    + destruct (conf_enc_ok 2 3 c rest H) as (b & x & -> & P & T & K & _). cbn [app nonce_dec].
      pose proof P as P'. apply orb_true_iff in P. destruct (N.eqb_spec (b2n b) 0); [destruct P as [P|P]; apply N.eqb_eq in P; lia|].
      destruct (N.eqb_spec (b2n b) 1); [destruct P as [P|P]; apply N.eqb_eq in P; lia|].
      now rewrite P', T, K.
  - intros [|n|c] H; cbn [nonce_len nonce_enc nonce_wf length] in *.
    + reflexivity.
    + apply Nat.eqb_eq in H. rewrite H. reflexivity.
    + destruct (conf_enc_ok 2 3 c [] H) as (b & x & _ & _ & _ & _ & ->). reflexivity.
Qed.

(* ---------- optional proofs ---------- *)
Lemma c_optproof_lawful ok : Lawful (c_optproof maxvec ok).
Proof. apply c_conv_lawful; [apply c_varbytes_lawful| |].
  - intros [|x a] b _ T.
    + inversion T; subst. split; reflexivity.
    + destruct (ok (x :: a)) eqn:K; [|discriminate]. inversion T; subst. split; [reflexivity|]. cbn [length Nat.eqb negb andb]. exact K.
  - intros [b|] H _; [|reflexivity]. apply andb_true_iff in H as [H K]. destruct b as [|x a]; [discriminate|]. now rewrite K. Qed.

Lemma c_issuance_lawful : Lawful (c_issuance pt_ok).
Proof. apply c_conv_lawful.
  - apply c_pair_lawful; [apply c_guard_lawful, c_fixed_lawful|]. apply c_pair_lawful; [apply c_fixed_lawful|]. apply c_pair_lawful; apply c_value_lawful.
  - intros [n [e [a k]]] b _ T. inversion T; subst. split; reflexivity.
  - intros [n e a k] _ _. reflexivity. Qed.
Lemma c_outpoint_lawful : Lawful c_outpoint.
Proof. apply c_conv_lawful.
  - apply c_pair_lawful; [apply c_fixed_lawful|apply c_le_lawful].
  - intros [t v] b _ T. inversion T; subst. split; reflexivity.
  - intros [t v] _ _. reflexivity. Qed.
Lemma c_script_lawful : Lawful (c_script maxvec). Proof. apply c_varbytes_lawful. Qed.
Lemma c_stack_lawful : Lawful (c_stack maxvec cap_vecu8). Proof. apply c_vec_lawful, c_script_lawful. Qed.
Lemma c_inwit_lawful : Lawful (c_inwit maxvec cap_vecu8).
Proof. apply c_conv_lawful.
  - repeat apply c_pair_lawful; try apply c_optproof_lawful; apply c_stack_lawful.
  - intros [a [k [s p]]] b _ T. inversion T; subst. split; reflexivity.
  - intros [a k s p] _ _. reflexivity. Qed.
Lemma c_outwit_lawful : Lawful (c_outwit maxvec).
Proof. apply c_conv_lawful.
  - apply c_pair_lawful; apply c_optproof_lawful.
  - intros [s r] b _ T. inversion T; subst. split; reflexivity.
  - intros [s r] _ _. reflexivity. Qed.
(* ---------- TxIn ---------- *)
Lemma inwit_empty_eq w : inwit_is_empty w = true -> w = empty_inwit.
Proof. destruct w as [a k s p]. unfold inwit_is_empty. cbn. destruct a, k, s, p; try discriminate. reflexivity. Qed.
Lemma outwit_empty_eq w : outwit_is_empty w = true -> w = empty_outwit.
Proof. destruct w as [s r]. unfold outwit_is_empty. cbn. destruct s, r; try discriminate. reflexivity. Qed.
Lemma issuance_default_eq i : issuance_is_default i = true -> i = null_issuance.
Proof. destruct i as [n e a k]. unfold issuance_is_default, issuance_is_null. cbn [i_nonce i_entropy i_amount i_keys]. intros H.
  apply andb_true_iff in H as [H H3]. apply andb_true_iff in H as [H1 H2]. apply andb_true_iff in H3 as [Ha Hk].
  destruct (bytes_eqb_spec n zero32); [|discriminate]. destruct (bytes_eqb_spec e zero32); [|discriminate].
  destruct a, k; try discriminate. subst. reflexivity. Qed.
Lemma null_issuance_default : issuance_is_default null_issuance = true. Proof. reflexivity. Qed.

Definition c_noiss : codec issuance := c_conv c_unit (fun _ => Some null_issuance) (fun _ => tt) issuance_is_default.
Lemma c_noiss_lawful : Lawful c_noiss.
Proof. apply c_conv_lawful; [apply c_unit_lawful| |].
  - intros [] b _ T. inversion T; subst. split; reflexivity.
  - intros b H _. apply issuance_default_eq in H. subst. reflexivity. Qed.
Lemma c_txin_wire_lawful : Lawful (c_txin_wire pt_ok maxvec).
Proof. apply c_dep_lawful.
  - apply c_pair_lawful; apply c_pair_lawful; try apply c_fixed_lawful; try apply c_le_lawful; apply c_script_lawful.
  - intros h. destruct (wire_has_issuance (snd (fst h))); [apply c_issuance_lawful|apply c_noiss_lawful]. Qed.

Lemma u32_wf_lt v : wf c_u32 v = true -> v < 2 ^ 32.
Proof. cbn [c_u32 c_le wf]. intros H. apply N.ltb_lt in H. replace (256 ^ N.of_nat 4) with (2 ^ 32) in H by (vm_compute; reflexivity). exact H. Qed.
Lemma u32_lt_wf v : v < 2 ^ 32 -> wf c_u32 v = true.
Proof. cbn [c_u32 c_le wf]. intros H. apply N.ltb_lt. replace (256 ^ N.of_nat 4) with (2 ^ 32) by (vm_compute; reflexivity). exact H. Qed.

Lemma c_txin_nowit_lawful : Lawful (c_txin_nowit pt_ok maxvec).
Proof. apply c_conv_lawful; [apply c_txin_wire_lawful| |].
  - (* decoded values re-encode to the same wire tuple and are canonical *)
    intros [[[t v] [s q]] iss] b W T. unfold txin_of_wire in T.
    cbn [c_txin_wire c_dep wf c_txin_head c_pair fst snd] in W.
    apply andb_true_iff in W as [Wh Wi]. apply andb_true_iff in Wh as [Wtv Wsq]. apply andb_true_iff in Wtv as [Wt Wv].
    apply u32_wf_lt in Wv.
    unfold wire_has_issuance, wire_is_pegin, wire_plain_vout in *. fold ALL1 in *.
    destruct (N.eqb_spec v u32max) as [Ev|Nv].
    + (* coinbase index: no flags *)
      cbn [andb] in T. inversion T; subst b. clear T.
      cbn [c_conv wf] in Wi. apply andb_true_iff in Wi as [Wi _]. apply issuance_default_eq in Wi. subst iss.
      split.
      * unfold wire_of_txin, wire_vout, has_issuance. cbn [in_prev o_txid o_vout in_pegin in_iss in_script in_seq]. cbn [issuance_is_null null_issuance i_amount i_keys value_is_null andb negb].
        rewrite !N.lor_0_r. subst v. reflexivity.
      * unfold txin_wfB, has_issuance. cbn [in_prev o_vout in_pegin in_iss in_wit]. subst v. reflexivity.
    + destruct (read_join v Wv Nv) as [J Hlt]. fold MASK in *.
      destruct (N.testbit v 31) eqn:T31.
      * destruct (issuance_is_null iss) eqn:Z; [discriminate|]. cbn [andb] in T. inversion T; subst b. clear T. split.
        -- unfold wire_of_txin, wire_vout, has_issuance. cbn [in_prev o_txid o_vout in_pegin in_iss in_script in_seq]. rewrite Z. cbn [negb].
           unfold join, B30, B31 in J. unfold bit30, bit31. change 1073741823 with MASK. rewrite J. reflexivity.
        -- unfold txin_wfB, has_issuance. cbn [in_prev o_vout in_pegin in_iss in_wit]. rewrite Z. cbn [negb orb andb].
           unfold bit30. change 1073741823 with MASK. fold B30. destruct (N.ltb_spec (N.land v MASK) B30); [|lia]. cbn [andb orb].
           destruct (N.eqb_spec (N.land v MASK) MASK) as [EM|]; [|reflexivity]. cbn [andb]. destruct (N.testbit v 30) eqn:T30; [|reflexivity].
           exfalso. rewrite EM in J. unfold join in J. cbn in J. apply Nv. symmetry. exact J.
      * cbn [andb] in T. inversion T; subst b. clear T.
        cbn [c_conv wf] in Wi. apply andb_true_iff in Wi as [Wi _]. apply issuance_default_eq in Wi. subst iss. split.
        -- unfold wire_of_txin, wire_vout, has_issuance. cbn [in_prev o_txid o_vout in_pegin in_iss in_script in_seq]. cbn [issuance_is_null null_issuance i_amount i_keys value_is_null andb negb].
           unfold join, B30, B31 in J. unfold bit30. change 1073741823 with MASK. rewrite N.lor_0_r in *. rewrite J. reflexivity.
        -- unfold txin_wfB, has_issuance. cbn [in_prev o_vout in_pegin in_iss in_wit]. cbn [issuance_is_null null_issuance i_amount i_keys value_is_null andb negb orb].
           unfold bit30. change 1073741823 with MASK. fold B30. destruct (N.ltb_spec (N.land v MASK) B30); [|lia]. rewrite !andb_false_r. reflexivity.
  - (* canonical values decode back *)
    intros [[t v] pg s q iss w] Wb Ww. unfold txin_wfB in Wb. cbn [in_prev o_vout in_pegin in_iss in_wit] in Wb.
    apply andb_true_iff in Wb as [Wb We]. apply andb_true_iff in Wb as [Wv Wd]. apply inwit_empty_eq in We. subst w.
    unfold wire_of_txin, txin_of_wire, wire_vout. cbn [in_prev o_txid o_vout in_pegin in_iss in_script in_seq].
    set (hi := has_issuance {| in_prev := {| o_txid := t; o_vout := v |}; in_pegin := pg; in_script := s; in_seq := q; in_iss := iss; in_wit := empty_inwit |}) in *.
    assert (Hhi : hi = negb (issuance_is_null iss)) by reflexivity.
    apply orb_true_iff in Wv as [Wv|Wv].
    + apply andb_true_iff in Wv as [Wlt Wnt]. apply N.ltb_lt in Wlt. fold B30 in Wlt.
      assert (Hn : ~ (v = MASK /\ pg = true /\ hi = true)).
      { intros (E1 & E2 & E3). subst. rewrite E3 in Wnt. cbn in Wnt. discriminate. }
      destruct (join_read v pg hi Wlt Hn) as (Hne & Hw & H31 & H30 & Hm). unfold join, B30, B31 in *. fold bit30 bit31 in *.
      unfold wire_has_issuance, wire_is_pegin, wire_plain_vout. fold ALL1.
      destruct (N.eqb_spec (N.lor (N.lor v (if pg then bit30 else 0)) (if hi then bit31 else 0)) u32max) as [E|_]; [contradiction|].
      rewrite H31, H30. change 1073741823 with MASK. rewrite Hm.
      destruct hi eqn:Ehi.
      * assert (Z : issuance_is_null iss = false) by (destruct (issuance_is_null iss); [discriminate|reflexivity]). rewrite Z. reflexivity.
      * cbn [andb]. cbn [orb] in Wd. apply issuance_default_eq in Wd. subst iss. reflexivity.
    + apply andb_true_iff in Wv as [Wv Wni]. apply andb_true_iff in Wv as [Wv Wnp]. apply N.eqb_eq in Wv. subst v.
      destruct pg; [discriminate|]. destruct hi eqn:Ehi; [discriminate|]. cbn [orb] in Wd. apply issuance_default_eq in Wd. subst iss.
      rewrite !N.lor_0_r. unfold wire_has_issuance, wire_is_pegin, wire_plain_vout. cbn [N.eqb u32max Pos.eqb andb]. reflexivity. Qed.

Lemma c_txout_nowit_lawful : Lawful (c_txout_nowit pt_ok maxvec).
Proof. apply c_conv_lawful.
  - apply c_pair_lawful; [apply c_asset_lawful|]. apply c_pair_lawful; [apply c_value_lawful|]. apply c_pair_lawful; [apply c_nonce_lawful|apply c_script_lawful].
  - intros [a [v [n s]]] b _ T. inversion T; subst. split; reflexivity.
  - intros [a v n s w] H _. cbn [out_wit] in H. apply outwit_empty_eq in H. subst w. reflexivity. Qed.
(* ---------- Transaction ---------- *)
Lemma strip_in_id i : inwit_is_empty (in_wit i) = true -> strip_in i = i.
Proof. destruct i as [p g s q iss w]. cbn [in_wit]. intros H. apply inwit_empty_eq in H. subst. reflexivity. Qed.
Lemma strip_out_id o : outwit_is_empty (out_wit o) = true -> strip_out o = o.
Proof. destruct o as [a v n s w]. cbn [out_wit]. intros H. apply outwit_empty_eq in H. subst. reflexivity. Qed.
Lemma map_strip_in_id l : forallb (fun i => inwit_is_empty (in_wit i)) l = true -> map strip_in l = l.
Proof. induction l as [|i l IH]; cbn [forallb map]; [reflexivity|]. intros H. apply andb_true_iff in H as [H1 H2]. now rewrite strip_in_id, IH. Qed.
Lemma map_strip_out_id l : forallb (fun o => outwit_is_empty (out_wit o)) l = true -> map strip_out l = l.
Proof. induction l as [|i l IH]; cbn [forallb map]; [reflexivity|]. intros H. apply andb_true_iff in H as [H1 H2]. now rewrite strip_out_id, IH. Qed.
Lemma zip_strip_in l : zip_with set_inwit (map strip_in l) (map in_wit l) = l.
Proof. induction l as [|[p g s q iss w] l IH]; cbn [map zip_with]; [reflexivity|]. now rewrite IH. Qed.
Lemma zip_strip_out l : zip_with set_outwit (map strip_out l) (map out_wit l) = l.
Proof. induction l as [|[a v n s w] l IH]; cbn [map zip_with]; [reflexivity|]. now rewrite IH. Qed.
Lemma zip_in_props ins : forall iw, length iw = length ins -> forallb (fun i => inwit_is_empty (in_wit i)) ins = true ->
  map strip_in (zip_with set_inwit ins iw) = ins /\ map in_wit (zip_with set_inwit ins iw) = iw.
Proof. induction ins as [|i ins IH]; intros [|w iw] L F; cbn [length] in L; try discriminate; cbn [zip_with map]; [split; reflexivity|].
  cbn [forallb] in F. apply andb_true_iff in F as [F1 F2]. injection L as L. destruct (IH iw L F2) as [-> ->]. split; [|destruct i; reflexivity].
  f_equal. destruct i as [p g s q iss w0]. cbn [in_wit] in F1. apply inwit_empty_eq in F1. subst. reflexivity. Qed.
Lemma zip_out_props outs : forall ow, length ow = length outs -> forallb (fun o => outwit_is_empty (out_wit o)) outs = true ->
  map strip_out (zip_with set_outwit outs ow) = outs /\ map out_wit (zip_with set_outwit outs ow) = ow.
Proof. induction outs as [|o outs IH]; intros [|w ow] L F; cbn [length] in L; try discriminate; cbn [zip_with map]; [split; reflexivity|].
  cbn [forallb] in F. apply andb_true_iff in F as [F1 F2]. injection L as L. destruct (IH ow L F2) as [-> ->]. split; [|destruct o; reflexivity].
  f_equal. destruct o as [a v n s w0]. cbn [out_wit] in F1. apply outwit_empty_eq in F1. subst. reflexivity. Qed.
Lemma existsb_map {A B} (f : A -> B) (p : B -> bool) l : existsb p (map f l) = existsb (fun x => p (f x)) l.
Proof. induction l as [|x l IH]; cbn [map existsb]; [reflexivity|]. now rewrite IH. Qed.
Lemma forallb_map {A B} (f : A -> B) (p : B -> bool) l : forallb p (map f l) = forallb (fun x => p (f x)) l.
Proof. induction l as [|x l IH]; cbn [map forallb]; [reflexivity|]. now rewrite IH. Qed.
Lemma existsb_negb_forallb {A} (p : A -> bool) l : existsb (fun x => negb (p x)) l = negb (forallb p l).
Proof. induction l as [|x l IH]; cbn [existsb forallb]; [reflexivity|]. rewrite IH. destruct (p x); reflexivity. Qed.
Lemma has_witness_alt t : has_witness t = negb (forallb inwit_is_empty (map in_wit (tx_in t)) && forallb outwit_is_empty (map out_wit (tx_out t))).
Proof. unfold has_witness. rewrite !forallb_map, !existsb_negb_forallb, negb_andb. reflexivity. Qed.
(* the elements of a decoded input/output vector carry no witness *)
Lemma txin_vec_nowit l : forallb (wf (c_txin_nowit pt_ok maxvec)) l = true -> forallb (fun i => inwit_is_empty (in_wit i)) l = true.
Proof. induction l as [|i l IH]; cbn [forallb]; [reflexivity|]. intros H. apply andb_true_iff in H as [H1 H2]. rewrite IH by assumption.
  cbn [c_txin_nowit c_conv wf] in H1. apply andb_true_iff in H1 as [H1 _]. unfold txin_wfB in H1. apply andb_true_iff in H1 as [_ H1]. now rewrite H1. Qed.
Lemma txout_vec_nowit l : forallb (wf (c_txout_nowit pt_ok maxvec)) l = true -> forallb (fun o => outwit_is_empty (out_wit o)) l = true.
Proof. induction l as [|i l IH]; cbn [forallb]; [reflexivity|]. intros H. apply andb_true_iff in H as [H1 H2]. rewrite IH by assumption.
  cbn [c_txout_nowit c_conv wf] in H1. apply andb_true_iff in H1 as [H1 _]. now rewrite H1. Qed.

Definition c_nowits : codec (list inwit * list outwit) :=
  c_conv c_unit (fun _ => Some ([], [])) (fun _ => tt) (fun p => match p with ([], []) => true | _ => false end).
Lemma c_nowits_lawful : Lawful c_nowits.
Proof. apply c_conv_lawful; [apply c_unit_lawful| |].
  - intros [] b _ T. inversion T; subst. split; reflexivity.
  - intros [[|? ?] [|? ?]] H _; try discriminate. reflexivity. Qed.
Lemma c_tx_head_lawful : Lawful (c_tx_head pt_ok maxvec cap_txin cap_txout).
Proof. unfold c_tx_head. apply c_pair_lawful; [apply c_le_lawful|]. apply c_pair_lawful; [apply c_u8_lawful|].
  apply c_pair_lawful; [apply c_vec_lawful, c_txin_nowit_lawful|]. apply c_pair_lawful; [apply c_vec_lawful, c_txout_nowit_lawful|apply c_le_lawful]. Qed.
Lemma c_tx_wire_lawful : Lawful (c_tx_wire pt_ok maxvec cap_txin cap_txout cap_vecu8).
Proof. apply c_dep_lawful; [apply c_tx_head_lawful|]. intros h. unfold c_tx_wits. destruct (head_flag h =? 1).
  - apply c_pair_lawful; apply c_vecn_lawful; [apply c_inwit_lawful|apply c_outwit_lawful].
  - apply c_nowits_lawful. Qed.

Theorem c_tx_lawful : Lawful (c_tx pt_ok maxvec cap_txin cap_txout cap_vecu8).
Proof. apply c_conv_lawful; [apply c_tx_wire_lawful| |].
  - intros [[ver [flag [ins [outs lock]]]] [iw ow]] t W T. split; [|reflexivity].
    cbn [c_tx_wire c_dep wf] in W. apply andb_true_iff in W as [Wh Ww].
    cbn [c_tx_head c_pair wf] in Wh. apply andb_true_iff in Wh as [_ Wh]. apply andb_true_iff in Wh as [_ Wh]. apply andb_true_iff in Wh as [Wi Wh]. apply andb_true_iff in Wh as [Wo _].
    cbn [c_vec wf] in Wi, Wo. apply andb_true_iff in Wi as [_ Wi]. apply andb_true_iff in Wo as [_ Wo].
    apply txin_vec_nowit in Wi. apply txout_vec_nowit in Wo.
    unfold tx_of_wire in T. unfold c_tx_wits, head_flag, head_ins, head_outs in Ww. cbn [fst snd] in Ww.
    destruct (N.eqb_spec flag 0) as [->|N0].
    + inversion T; subst t. clear T. cbn [N.eqb] in Ww. cbn [c_nowits c_conv wf] in Ww. apply andb_true_iff in Ww as [Ww _].
      destruct iw, ow; try discriminate. unfold wire_of_tx. rewrite has_witness_alt. cbn [tx_in tx_out tx_version tx_lock].
      rewrite !forallb_map, Wi, Wo. cbn [andb negb]. rewrite map_strip_in_id, map_strip_out_id by assumption. reflexivity.
    + destruct (N.eqb_spec flag 1) as [->|N1]; [|discriminate].
      destruct (forallb inwit_is_empty iw && forallb outwit_is_empty ow) eqn:E; [discriminate|]. inversion T; subst t. clear T.
      cbn [c_pair c_vecn wf] in Ww. apply andb_true_iff in Ww as [Wiw Wow]. apply andb_true_iff in Wiw as [Li _]. apply andb_true_iff in Wow as [Lo _].
      apply Nat.eqb_eq in Li, Lo. destruct (zip_in_props ins iw Li Wi) as [S1 S2]. destruct (zip_out_props outs ow Lo Wo) as [S3 S4].
      unfold wire_of_tx. rewrite has_witness_alt. cbn [tx_in tx_out tx_version tx_lock]. rewrite S1, S2, S3, S4, E. reflexivity.
  - intros [ver lock ins outs] _ W. unfold wire_of_tx, tx_of_wire. cbn [tx_in tx_out tx_version tx_lock].
    destruct (has_witness {| tx_version := ver; tx_lock := lock; tx_in := ins; tx_out := outs |}) eqn:HW.
    + cbn [N.eqb Pos.eqb]. rewrite has_witness_alt in HW. cbn [tx_in tx_out] in HW. apply negb_true_iff in HW. rewrite HW.
      now rewrite zip_strip_in, zip_strip_out.
    + cbn [N.eqb]. rewrite has_witness_alt in HW. cbn [tx_in tx_out] in HW. apply negb_false_iff in HW. apply andb_true_iff in HW as [H1 H2].
      rewrite forallb_map in H1. rewrite forallb_map in H2. now rewrite map_strip_in_id, map_strip_out_id. Qed.
End TX.
