(* C15 — lemmas about Model/Taproot.v. *)
From Coq Require Import List Arith NArith ZArith Bool Lia ZifyN ZifyBool ZifyNat Permutation.
From Coq.Strings Require Import Byte.
From EV Require Import Base.Bytes Base.Codec Gen.Tables Model.Taproot.
Import ListNotations.
Ltac Zify.zify_post_hook ::= Z.div_mod_to_equations.

(* ------------------------------------------------------------------ orders *)
Section CMP.
Context {A : Type} (c : A -> A -> comparison).
Hypothesis c_eq : forall x y, c x y = Eq <-> x = y.
Hypothesis c_anti : forall x y, c y x = CompOpp (c x y).
Lemma list_cmp_eq : forall a b, list_cmp c a b = Eq <-> a = b.
Proof. induction a as [|x a IH]; intros [|y b]; cbn [list_cmp]; try (split; [discriminate|discriminate]); [tauto|].
  destruct (c x y) eqn:E.
  - apply c_eq in E. subst. rewrite IH. split; [intros ->; reflexivity|intros H; inversion H; reflexivity].
  - split; [discriminate|]. intros H; inversion H; subst. assert (c y y = Eq) by (apply c_eq; reflexivity). congruence.
  - split; [discriminate|]. intros H; inversion H; subst. assert (c y y = Eq) by (apply c_eq; reflexivity). congruence. Qed.
Lemma list_cmp_anti : forall a b, list_cmp c b a = CompOpp (list_cmp c a b).
Proof. induction a as [|x a IH]; intros [|y b]; cbn [list_cmp]; try reflexivity.
  rewrite (c_anti x y). destruct (c x y); cbn [CompOpp]; auto. Qed.
End CMP.

Lemma byte_cmp_eq x y : byte_cmp x y = Eq <-> x = y.
Proof. unfold byte_cmp. rewrite N.compare_eq_iff. split; [apply b2n_inj|intros ->; reflexivity]. Qed.
Lemma byte_cmp_anti x y : byte_cmp y x = CompOpp (byte_cmp x y).
Proof. unfold byte_cmp. apply N.compare_antisym. Qed.
Lemma bytes_cmp_eq a b : bytes_cmp a b = Eq <-> a = b.
Proof. apply list_cmp_eq, byte_cmp_eq. Qed.
Lemma bytes_cmp_anti a b : bytes_cmp b a = CompOpp (bytes_cmp a b).
Proof. apply list_cmp_anti, byte_cmp_anti. Qed.
Lemma branch_cmp_eq a b : branch_cmp a b = Eq <-> a = b.
Proof. apply list_cmp_eq, bytes_cmp_eq. Qed.
Lemma key_cmp_eq a b : key_cmp a b = Eq <-> a = b.
Proof. unfold key_cmp. destruct a as [s v], b as [s' v']; cbn [fst snd]. destruct (bytes_cmp s s') eqn:E.
  - apply bytes_cmp_eq in E. subst. rewrite byte_cmp_eq. split; [intros ->; reflexivity|intros H; inversion H; reflexivity].
  - split; [discriminate|]. intros H; inversion H; subst. assert (bytes_cmp s' s' = Eq) by (apply bytes_cmp_eq; reflexivity). congruence.
  - split; [discriminate|]. intros H; inversion H; subst. assert (bytes_cmp s' s' = Eq) by (apply bytes_cmp_eq; reflexivity). congruence. Qed.

(* sorted-pair hashing does not depend on the order of the two children *)
Lemma sortpair_comm a b : sortpair a b = sortpair b a.
Proof. unfold sortpair, bytes_ltb. rewrite (bytes_cmp_anti a b). destruct (bytes_cmp a b) eqn:E; cbn [CompOpp]; try reflexivity.
  apply bytes_cmp_eq in E. now subst. Qed.
(* with 32-byte (equal length) operands the pair can be read back from the concatenation *)
Lemma app_inj_len {A} (a b c d : list A) : length a = length c -> a ++ b = c ++ d -> a = c /\ b = d.
Proof. revert c. induction a as [|x a IH]; intros [|y c] L E; cbn in *; try discriminate; [auto|].
  inversion E; subst. destruct (IH c) as [-> ->]; auto. Qed.
Lemma sortpair_inj a b c d : length a = length b -> length b = length c -> length c = length d ->
  sortpair a b = sortpair c d -> (a = c /\ b = d) \/ (a = d /\ b = c).
Proof. intros L1 L2 L3. unfold sortpair. destruct (bytes_ltb a b), (bytes_ltb c d); intros E; apply app_inj_len in E; try congruence; tauto. Qed.

(* ------------------------------------------------------------------ builder soundness (restart lemma, promoted from recon/sketches/Tap.v) *)
Section BUILD.
Variables Hleaf Hbranch : bytes -> bytes.
Notation combine := (combine Hbranch).
Notation combine_tot := (combine_tot Hbranch).
Notation node_of := (node_of Hleaf Hbranch).
Notation insert := (insert Hbranch).
Notation ins := (ins Hbranch).
Notation run := (run Hleaf Hbranch).
Notation root := (root Hleaf Hbranch).
Notation leaf_paths := (leaf_paths Hleaf Hbranch).

Definition short (k : nat) (ls : list leafinfo) : Prop := Forall (fun l => (length (l_branch l) <= k)%nat) ls.
Lemma push_all_ok h ls : (forall l, In l ls -> (length (l_branch l) < MAXD)%nat) -> push_all h ls = Ok (map (snoc h) ls).
Proof. induction ls as [|l r IH]; intros H; cbn [push_all map]; [reflexivity|].
  unfold push. destruct (Nat.leb_spec MAXD (length (l_branch l))) as [B|_]; [specialize (H l (or_introl eq_refl)); lia|].
  rewrite IH by (intros; apply H; now right). reflexivity. Qed.
Lemma combine_ok a b k : (k < MAXD)%nat -> short k (n_leaves a) -> short k (n_leaves b) -> combine a b = Ok (combine_tot a b).
Proof. intros K Sa Sb. unfold Taproot.combine. unfold short in *. rewrite Forall_forall in Sa, Sb.
  rewrite !push_all_ok by (intros l Hl; first [specialize (Sa l Hl)|specialize (Sb l Hl)]; lia). reflexivity. Qed.
Lemma short_mono k k' ls : (k <= k')%nat -> short k ls -> short k' ls.
Proof. intros L. apply Forall_impl. intros; lia. Qed.
Lemma short_snoc h k ls : short k ls -> short (S k) (map (snoc h) ls).
Proof. unfold short. rewrite !Forall_forall. intros H l Hl. apply in_map_iff in Hl as [l' [<- Hl']].
  cbn [snoc l_branch]. rewrite app_length. cbn [length]. specialize (H l' Hl'). lia. Qed.
Lemma node_of_short t : short (height t) (n_leaves (node_of t)).
Proof. induction t as [s v|h|a IHa b IHb]; cbn [Taproot.node_of height].
  - repeat constructor.
  - constructor.
  - unfold Taproot.combine_tot; cbn [n_leaves]. apply Forall_app. split; apply short_snoc; eapply short_mono; [|eassumption| |eassumption]; lia. Qed.

Lemma ins_short n d b : (length b <= d)%nat -> ins n d b = Ok (place n d b).
Proof. intros L. destruct b as [|[c|] rest]; cbn [Taproot.ins]; [reflexivity| |].
  - destruct (Nat.eqb_spec (length (Some c :: rest)) (d + 1)) as [E|_]; [cbn [length] in *; lia|reflexivity].
  - destruct (Nat.eqb_spec (length (@None node :: rest)) (d + 1)) as [E|_]; [cbn [length] in *; lia|reflexivity]. Qed.
Lemma place_length n d b : (length b <= d)%nat -> length (place n d b) = S d.
Proof. intros L. unfold place. cbn [length]. rewrite app_length, repeat_length. lia. Qed.
Lemma ins_restart a bnode d b : (length b <= S d)%nat ->
  ins bnode (S d) (place a (S d) b) = match combine a bnode with Ok m => ins m d b | Err e => Err e end.
Proof. intros L. unfold place. cbn [Taproot.ins].
  assert (E : length (Some a :: repeat None (S d - length b) ++ b) = (S d + 1)%nat) by (cbn [length]; rewrite app_length, repeat_length; lia).
  rewrite E, Nat.eqb_refl. destruct (combine a bnode) as [m|e]; [|reflexivity].
  destruct (Nat.eq_dec (length b) (S d)) as [Eq|Ne].
  - rewrite Eq, Nat.sub_diag. reflexivity.
  - assert (Lb : (length b <= d)%nat) by lia. rewrite (ins_short _ _ _ Lb).
    replace (S d - length b)%nat with (S (d - length b)) by lia. cbn [repeat app Taproot.ins].
    assert (E2 : length (@None node :: repeat None (d - length b) ++ b) = (d + 1)%nat) by (cbn [length]; rewrite app_length, repeat_length; lia).
    rewrite E2, Nat.eqb_refl. reflexivity. Qed.
Lemma run_app xs : forall ys b, run (xs ++ ys) b = match run xs b with Ok b' => run ys b' | Err e => Err e end.
Proof. induction xs as [|it xs IH]; intros ys b; cbn [Taproot.run app]; [reflexivity|].
  destruct (insert _ _ b); [apply IH|reflexivity]. Qed.
Lemma insert_nat n d b : (d <= MAXD)%nat -> (length b <= S d)%nat -> insert n (N.of_nat d) b = ins n d b.
Proof. intros D L. unfold Taproot.insert. unfold MAXD in D.
  destruct (N.ltb_spec TAPROOT_CONTROL_MAX_NODE_COUNT (N.of_nat d)) as [B|_]; [lia|].
  rewrite Nnat.Nat2N.id. destruct (Nat.ltb_spec (d + 1) (length b)) as [B|_]; [lia|reflexivity]. Qed.

(* feeding the depth-first walk of a subtree at depth d equals inserting the finished subtree node at depth d *)
Theorem run_subtree : forall t d b, (length b <= S d)%nat -> (d + height t <= MAXD)%nat ->
  run (dfs t d) b = insert (node_of t) (N.of_nat d) b.
Proof. induction t as [s v|h|a IHa c IHc]; intros d b L Hh; cbn [dfs Taproot.node_of].
  - cbn [Taproot.run item_node item_depth]. destruct (insert _ _ b); reflexivity.
  - cbn [Taproot.run item_node item_depth]. destruct (insert _ _ b); reflexivity.
  - cbn [height] in Hh. rewrite run_app, IHa by lia.
    rewrite (insert_nat _ (S d)) by lia. rewrite (insert_nat _ d) by lia.
    assert (Ia : ins (node_of a) (S d) b = Ok (place (node_of a) (S d) b)).
    { destruct (Nat.eq_dec (length b) (S d)) as [Eq|Ne]; [|apply ins_short; lia].
      destruct b as [|[x|] rest]; cbn [Taproot.ins]; [reflexivity| |].
      - destruct (Nat.eqb_spec (length (Some x :: rest)) (S d + 1)); [cbn [length] in *; lia|reflexivity].
      - destruct (Nat.eqb_spec (length (@None node :: rest)) (S d + 1)); [cbn [length] in *; lia|reflexivity]. }
    rewrite Ia, IHc by (rewrite ?place_length; lia).
    rewrite insert_nat by (rewrite ?place_length; lia). rewrite ins_restart by lia.
    rewrite (combine_ok _ _ (Nat.max (height a) (height c))); [reflexivity|lia| |];
      (eapply short_mono; [|apply node_of_short]); lia. Qed.

Corollary builder_sound t : (height t <= MAXD)%nat -> run (dfs t 0) [] = Ok [Some (node_of t)].
Proof. intros Hh. rewrite run_subtree by (cbn [length Nat.add]; lia). rewrite insert_nat by (cbn [length]; lia). reflexivity. Qed.

(* what the finished node holds: the sorted-pair merkle root, and the leaves with their sibling paths in depth-first (insertion)
   order — NodeInfo::combine(child, node) since fix aee9a45 (before it the order was reversed, finding F9) *)
Lemma node_of_hash t : n_hash (node_of t) = root t.
Proof. induction t as [s v|h|a IHa b IHb]; cbn [Taproot.node_of Taproot.root Taproot.combine_tot new_leaf new_hidden n_hash]; try reflexivity.
  rewrite IHa, IHb. reflexivity. Qed.
Lemma node_of_leaves t : n_leaves (node_of t) = leaf_paths t.
Proof. induction t as [s v|h|a IHa b IHb]; cbn [Taproot.node_of Taproot.leaf_paths Taproot.combine_tot new_leaf new_hidden n_leaves]; try reflexivity.
  rewrite <- IHa, <- IHb, !node_of_hash. reflexivity. Qed.

(* every leaf's path hashes up to the root *)
Lemma fold_snoc {X Y} (f : X -> Y -> X) l y x : fold_left f (l ++ [y]) x = f (fold_left f l x) y.
Proof. rewrite fold_left_app. reflexivity. Qed.
Lemma leaf_path_root t : forall l, In l (leaf_paths t) ->
  fold_left (merkle_step Hbranch) (l_branch l) (leaf_hash Hleaf (l_ver l) (l_script l)) = root t.
Proof. induction t as [s v|h|a IHa b IHb]; cbn [Taproot.leaf_paths Taproot.root]; intros l Hl.
  - destruct Hl as [<-|[]]. reflexivity.
  - destruct Hl.
  - apply in_app_or in Hl as [Hl|Hl]; apply in_map_iff in Hl as [l' [<- Hl']]; cbn [snoc l_branch l_ver l_script];
      rewrite fold_snoc; unfold merkle_step at 1; [rewrite (IHa _ Hl')|rewrite (IHb _ Hl'), sortpair_comm]; reflexivity. Qed.
Lemma leaf_path_depth t : forall l, In l (leaf_paths t) -> (length (l_branch l) <= height t)%nat.
Proof. intros l Hl. pose proof (node_of_short t) as S. unfold short in S. rewrite Forall_forall in S. apply S.
  rewrite node_of_leaves. exact Hl. Qed.
End BUILD.

(* ------------------------------------------------------------------ the script map *)
Definition tmap := list ((bytes * byte) * list (list bytes)).
Definition map_has (m : tmap) (k : bytes * byte) (v : list bytes) : Prop := exists s, In (k, s) m /\ In v s.
Lemma set_insert_in x s y : In y (set_insert x s) <-> y = x \/ In y s.
Proof. induction s as [|z s IH]; cbn [set_insert In]; [intuition|].
  destruct (branch_cmp x z) eqn:E; cbn [In].
  - apply branch_cmp_eq in E. subst. intuition.
  - intuition.
  - rewrite IH. intuition. Qed.
Lemma set_insert_nonempty x s : set_insert x s <> [].
Proof. destruct s as [|z s]; cbn [set_insert]; [discriminate|]. destruct (branch_cmp x z); discriminate. Qed.
Lemma map_insert_has k v m k' v' : map_has (map_insert k v m) k' v' <-> (k' = k /\ v' = v) \/ map_has m k' v'.
Proof. unfold map_has. induction m as [|[k0 s0] r IH]; cbn [map_insert].
  - split.
    + intros [s [[E|[]] Hv]]. inversion E; subst. destruct Hv as [<-|[]]. auto.
    + intros [[-> ->]|[s [[] _]]]. exists [v]. cbn. auto.
  - destruct (key_cmp k k0) eqn:E.
    + apply key_cmp_eq in E. subst k0. split.
      * intros [s [[Eq|Hin] Hv]].
        -- inversion Eq; subst. apply set_insert_in in Hv as [->|Hv]; [auto|]. right. exists s0. cbn. auto.
        -- right. exists s. cbn. auto.
      * intros [[-> ->]|[s [[Eq|Hin] Hv]]].
        -- exists (set_insert v s0). split; [left; reflexivity|apply set_insert_in; auto].
        -- inversion Eq; subst. exists (set_insert v s). split; [left; reflexivity|apply set_insert_in; auto].
        -- exists s. split; [right; assumption|assumption].
    + split.
      * intros [s [[Eq|Hin] Hv]]; [inversion Eq; subst; destruct Hv as [<-|[]]; auto|]. right. exists s. auto.
      * intros [[-> ->]|[s [Hin Hv]]]; [exists [v]; cbn; auto|]. exists s. split; [right; assumption|assumption].
    + split.
      * intros [s [[Eq|Hin] Hv]]; [inversion Eq; subst; right; exists s; cbn; auto|].
        destruct (proj1 IH (ex_intro _ s (conj Hin Hv))) as [H|[s' [H1 H2]]]; [auto|]. right. exists s'. cbn. auto.
      * intros [H|[s [[Eq|Hin] Hv]]].
        -- destruct (proj2 IH (or_introl H)) as [s' [H1 H2]]. exists s'. cbn. auto.
        -- exists s. split; [left; assumption|assumption].
        -- destruct (proj2 IH (or_intror (ex_intro _ s (conj Hin Hv)))) as [s' [H1 H2]]. exists s'. cbn. auto. Qed.
Lemma map_insert_nonempty k v m : Forall (fun ks => snd ks <> []) m -> Forall (fun ks => snd ks <> []) (map_insert k v m).
Proof. induction m as [|[k0 s0] r IH]; cbn [map_insert]; intros H.
  - repeat constructor. discriminate.
  - inversion H; subst. destruct (key_cmp k k0).
    + constructor; [apply set_insert_nonempty|assumption].
    + constructor; [discriminate|assumption].
    + constructor; [assumption|auto]. Qed.
Lemma build_map_has_gen ls : forall m k v,
  map_has (fold_left (fun m l => map_insert (l_script l, l_ver l) (l_branch l) m) ls m) k v <->
  map_has m k v \/ exists l, In l ls /\ k = (l_script l, l_ver l) /\ v = l_branch l.
Proof. induction ls as [|l r IH]; intros m k v; cbn [fold_left].
  - split; [auto|]. intros [H|[l [[] _]]]. assumption.
  - rewrite IH, map_insert_has. split.
    + intros [[[-> ->]|H]|[l' [H1 H2]]]; [right; exists l; cbn; auto|auto|right; exists l'; cbn; auto].
    + intros [H|[l' [[<-|H1] [-> ->]]]]; [auto|auto|]. right. exists l'. auto. Qed.
Lemma build_map_has ls k v : map_has (build_map ls) k v <-> exists l, In l ls /\ k = (l_script l, l_ver l) /\ v = l_branch l.
Proof. unfold build_map. rewrite build_map_has_gen. split; [intros [[s [[] _]]|H]; assumption|auto]. Qed.
Lemma build_map_nonempty ls : Forall (fun ks => snd ks <> []) (build_map ls).
Proof. unfold build_map. assert (G : forall m, Forall (fun ks : (bytes * byte) * list (list bytes) => snd ks <> []) m ->
    Forall (fun ks => snd ks <> []) (fold_left (fun m l => map_insert (l_script l, l_ver l) (l_branch l) m) ls m)).
  { induction ls as [|l r IH]; intros m H; cbn [fold_left]; [assumption|]. apply IH, map_insert_nonempty, H. }
  apply G. constructor. Qed.
Lemma map_get_in k m s : map_get k m = Some s -> In (k, s) m.
Proof. induction m as [|[k0 s0] r IH]; cbn [map_get]; [discriminate|]. destruct (key_cmp k k0) eqn:E; try solve [intros H; right; auto].
  apply key_cmp_eq in E. subst. intros H; inversion H; subst. now left. Qed.
Lemma map_get_some k m v : map_has m k v -> exists s, map_get k m = Some s.
Proof. intros [s [Hin _]]. induction m as [|[k0 s0] r IH]; [destruct Hin|]. cbn [map_get].
  destruct (key_cmp k k0) eqn:E; [eauto| |]; (destruct Hin as [Eq|Hin]; [inversion Eq; subst; rewrite (proj2 (key_cmp_eq _ _) eq_refl) in E; discriminate|auto]). Qed.
Lemma shortest_in : forall s best, In (shortest best s) (best :: s).
Proof. induction s as [|x r IH]; intros best; cbn [shortest]; [now left|].
  destruct (length x <? length best)%nat; [destruct (IH x) as [H|H]|destruct (IH best) as [H|H]]; cbn [In] in *; auto. Qed.
Lemma shortest_le : forall s best y, In y (best :: s) -> (length (shortest best s) <= length y)%nat.
Proof. induction s as [|x r IH]; intros best y Hy; cbn [shortest].
  - destruct Hy as [<-|[]]. lia.
  - destruct (Nat.ltb_spec (length x) (length best)).
    + destruct Hy as [<-|[<-|Hy]]; [|apply IH; now left|apply IH; now right]. specialize (IH x x (or_introl eq_refl)). lia.
    + destruct Hy as [<-|[<-|Hy]]; [apply IH; now left| |apply IH; now right]. specialize (IH best best (or_introl eq_refl)). lia. Qed.

(* ------------------------------------------------------------------ control block bytes *)
Lemma K_base : TAPROOT_CONTROL_BASE_SIZE = 33%N. Proof. reflexivity. Qed.
Lemma K_node : TAPROOT_CONTROL_NODE_SIZE = 32%N. Proof. reflexivity. Qed.
Lemma K_count : TAPROOT_CONTROL_MAX_NODE_COUNT = 128%N. Proof. reflexivity. Qed.
Lemma K_base_nat : BASE_SIZE = 33%nat. Proof. reflexivity. Qed.
Lemma K_node_nat : NODE_SIZE = 32%nat. Proof. reflexivity. Qed.
Lemma K_maxd : MAXD = 128%nat. Proof. reflexivity. Qed.

Definition wf_ver (v : byte) : Prop := leafver_from_u8 (b2n v) = Ok v.
Lemma first_byte_ok (v : byte) (p : bool) : wf_ver v ->
  (N.land (b2n (n2b (N.lor (if p then 1 else 0) (b2n v)))) 1 =? 1)%N = p /\
  leafver_from_u8 (N.land (b2n (n2b (N.lor (if p then 1 else 0) (b2n v)))) TAPROOT_LEAF_MASK) = Ok v.
Proof. unfold wf_ver. destruct v; destruct p; vm_compute; intros H; try discriminate H; split; reflexivity. Qed.

Lemma firstn_app_len {A} (a b : list A) : firstn (length a) (a ++ b) = a.
Proof. induction a; cbn; [destruct b; reflexivity|congruence]. Qed.
Lemma skipn_app_len {A} (a b : list A) : skipn (length a) (a ++ b) = b.
Proof. induction a; cbn; auto. Qed.
Lemma concat_len k (l : list bytes) : Forall (fun x => length x = k) l -> length (concat l) = (k * length l)%nat.
Proof. induction 1 as [|x l Hx _ IH]; cbn [concat length]; [lia|]. rewrite app_length, IH, Hx. lia. Qed.
Lemma chunks_concat k (l : list bytes) : (0 < k)%nat -> Forall (fun x => length x = k) l ->
  forall fuel, (length l <= fuel)%nat -> chunks fuel k (concat l) = l.
Proof. intros K. induction 1 as [|x l Hx Hl IH]; intros fuel F.
  - destruct fuel; reflexivity.
  - destruct fuel as [|f]; [cbn in F; lia|]. cbn [concat chunks].
    destruct (x ++ concat l) eqn:E; [destruct x; [cbn in Hx; lia|discriminate]|]. rewrite <- E, <- Hx.
    rewrite firstn_app_len, skipn_app_len, Hx, IH by (cbn in F; lia). reflexivity. Qed.

Definition wf_cb (xonly_valid : bytes -> bool) (c : cblock) : Prop :=
  wf_ver (cb_ver c) /\ length (cb_key c) = 32%nat /\ xonly_valid (cb_key c) = true /\
  Forall (fun x => length x = 32%nat) (cb_branch c) /\ (length (cb_branch c) <= MAXD)%nat.

Lemma cb_serialize_length c : length (cb_key c) = 32%nat -> Forall (fun x => length x = 32%nat) (cb_branch c) ->
  length (cb_serialize c) = (33 + 32 * length (cb_branch c))%nat.
Proof. intros K B. unfold cb_serialize. cbn [length]. rewrite app_length, (concat_len 32) by assumption. lia. Qed.
Lemma cb_size_ok c : length (cb_key c) = 32%nat -> Forall (fun x => length x = 32%nat) (cb_branch c) ->
  cb_size c = N.of_nat (length (cb_serialize c)).
Proof. intros K B. rewrite cb_serialize_length by assumption. unfold cb_size. rewrite K_base, K_node. lia. Qed.

Lemma cb_roundtrip xonly_valid c : wf_cb xonly_valid c -> cb_from_slice xonly_valid (cb_serialize c) = Ok c.
Proof. intros (V & K & X & B & D). pose proof (cb_serialize_length c K B) as Len. rewrite K_maxd in D.
  unfold cb_from_slice. rewrite Len. rewrite K_base, K_node.
  destruct (N.ltb_spec (N.of_nat (33 + 32 * length (cb_branch c))) 33) as [Bad|_]; [lia|].
  destruct (N.eqb_spec ((N.of_nat (33 + 32 * length (cb_branch c)) - 33) mod 32) 0) as [_|Bad]; [|lia]. cbn [orb negb].
  unfold cb_serialize at 1. destruct (first_byte_ok (cb_ver c) (cb_parity c) V) as [E1 E2]. rewrite E2, E1.
  rewrite K_base_nat. change (33 - 1)%nat with 32%nat. rewrite <- K.
  rewrite firstn_app_len, skipn_app_len, X. cbn [negb].
  unfold branch_from_slice. rewrite (concat_len 32) by assumption. rewrite K_node, K_count, K_node_nat.
  destruct (N.eqb_spec (N.of_nat (32 * length (cb_branch c)) mod 32) 0) as [_|Bad]; [|lia]. cbn [negb].
  destruct (N.ltb_spec (32 * 128) (N.of_nat (32 * length (cb_branch c)))) as [Bad|_]; [lia|].
  rewrite chunks_concat by (try assumption; lia). destruct c; reflexivity. Qed.

(* ------------------------------------------------------------------ finalize, control blocks verify, binding *)
Lemma leaf_msg_inj v s v' s' : (N.of_nat (length s) < 2 ^ 64)%N -> (N.of_nat (length s') < 2 ^ 64)%N ->
  v :: vi_enc (N.of_nat (length s)) ++ s = v' :: vi_enc (N.of_nat (length s')) ++ s' -> v = v' /\ s = s'.
Proof. intros L L' E. inversion E as [[Ev Er]]. split; [reflexivity|].
  apply (enc_inj (c_varbytes (2 ^ 64)) (c_varbytes_lawful _) s s'); cbn [c_varbytes wf enc]; [| |exact Er];
    apply andb_true_iff; split; try apply N.leb_le; try apply N.ltb_lt; lia. Qed.
Lemma last_case {A} (l : list A) : l = [] \/ exists l' x, l = l' ++ [x].
Proof. destruct l as [|a l]; [now left|]. right. destruct (exists_last (l := a :: l)) as [l' [x E]]; [discriminate|eauto]. Qed.

Section VERIFY.
Variables Hleaf Hbranch Htweak : bytes -> bytes.
Variable xonly_valid : bytes -> bool.
Variable scalar_ok : bytes -> bool.
Variable tweak : bytes -> bytes -> option (bytes * bool).
Variable tweak_check : bytes -> bytes -> bool -> bytes -> bool.
Notation node_of := (node_of Hleaf Hbranch).
Notation root := (root Hleaf Hbranch).
Notation leaf_paths := (leaf_paths Hleaf Hbranch).
Notation hidden_paths := (hidden_paths Hleaf Hbranch).
Notation finalize := (finalize Htweak scalar_ok tweak).
Notation build := (build Hleaf Hbranch Htweak scalar_ok tweak).
Notation verify := (verify Hleaf Hbranch Htweak scalar_ok tweak_check).
Notation tth := (tap_tweak_hash Htweak).
Notation step := (merkle_step Hbranch).
Notation lh := (leaf_hash Hleaf).

Lemma finalize_inv b P i : finalize b P = Val i ->
  exists n, b = [Some n] /\ si_internal i = P /\ si_root i = Some (n_hash n) /\ scalar_ok (tth P (Some (n_hash n))) = true /\
            tweak P (tth P (Some (n_hash n))) = Some (si_outkey i, si_parity i) /\ si_map i = build_map (n_leaves n).
Proof. unfold Taproot.finalize. destruct b as [|[n|] [|y r]]; cbn [length Nat.ltb Nat.leb]; try discriminate.
  unfold from_node_info, new_key_spend, tap_tweak. destruct (scalar_ok _) eqn:S; [|discriminate].
  destruct (tweak P _) as [[Q par]|] eqn:T; [|discriminate]. intros E; inversion E; subst; cbn. exists n. repeat split; auto. Qed.

(* the builder, fed the depth-first walk of t, ends in exactly t's root, output key and leaves *)
Lemma build_inv t P i : (height t <= MAXD)%nat -> build (dfs t 0) P = Val i ->
  si_internal i = P /\ si_root i = Some (root t) /\ scalar_ok (tth P (Some (root t))) = true /\
  tweak P (tth P (Some (root t))) = Some (si_outkey i, si_parity i) /\
  (forall k v, map_has (si_map i) k v <-> exists l, In l (leaf_paths t) /\ k = (l_script l, l_ver l) /\ v = l_branch l).
Proof. intros Hh. unfold Taproot.build. rewrite builder_sound by assumption. intros F.
  apply finalize_inv in F as (n & E & I1 & I2 & I3 & I4 & I5). inversion E; subst n. rewrite node_of_hash in *.
  split; [auto|split; [auto|split; [auto|split; [auto|]]]]. rewrite I5. intros k0 v0. rewrite build_map_has, node_of_leaves. reflexivity. Qed.

Section WITH_SPEC.
Hypothesis tweak_spec : forall P Q par t, tweak_check P Q par t = true <-> tweak P t = Some (Q, par).

Lemma verify_genuine t P i l : (height t <= MAXD)%nat -> build (dfs t 0) P = Val i -> In l (leaf_paths t) ->
  forall par Q, verify {| cb_ver := l_ver l; cb_parity := par; cb_key := P; cb_branch := l_branch l |} Q (l_script l) =
                Val (tweak_check P Q par (tth P (Some (root t)))).
Proof. intros Hh B Hl par Q. apply build_inv in B as (_ & _ & S & _ & _); [|assumption].
  unfold Taproot.verify, cb_root. cbn [cb_key cb_branch cb_ver cb_parity]. rewrite (leaf_path_root Hleaf Hbranch t l Hl), S. reflexivity. Qed.

(* every leaf's own control block verifies against the output key *)
Theorem cb_verifies t P i l : (height t <= MAXD)%nat -> build (dfs t 0) P = Val i -> In l (leaf_paths t) ->
  verify {| cb_ver := l_ver l; cb_parity := si_parity i; cb_key := P; cb_branch := l_branch l |} (si_outkey i) (l_script l) = Val true.
Proof. intros Hh B Hl. rewrite (verify_genuine t P i l Hh B Hl). f_equal. apply tweak_spec. now apply build_inv in B. Qed.
(* ... and fails with the other parity or any other output key *)
Theorem cb_wrong_parity t P i l : (height t <= MAXD)%nat -> build (dfs t 0) P = Val i -> In l (leaf_paths t) ->
  verify {| cb_ver := l_ver l; cb_parity := negb (si_parity i); cb_key := P; cb_branch := l_branch l |} (si_outkey i) (l_script l) = Val false.
Proof. intros Hh B Hl. rewrite (verify_genuine t P i l Hh B Hl). f_equal. apply build_inv in B as (_ & _ & _ & T & _); [|assumption].
  destruct (tweak_check P (si_outkey i) (negb (si_parity i)) _) eqn:C; [|reflexivity]. apply tweak_spec in C. rewrite T in C.
  inversion C as [E]. destruct (si_parity i); discriminate. Qed.
Theorem cb_wrong_outkey t P i l par Q : (height t <= MAXD)%nat -> build (dfs t 0) P = Val i -> In l (leaf_paths t) -> Q <> si_outkey i ->
  verify {| cb_ver := l_ver l; cb_parity := par; cb_key := P; cb_branch := l_branch l |} Q (l_script l) = Val false.
Proof. intros Hh B Hl NQ. rewrite (verify_genuine t P i l Hh B Hl). f_equal. apply build_inv in B as (_ & _ & _ & T & _); [|assumption].
  destruct (tweak_check P Q par _) eqn:C; [|reflexivity]. apply tweak_spec in C. rewrite T in C. inversion C. congruence. Qed.

(* TaprootSpendInfo::control_block returns, for every leaf, the control block of a leaf with that script and version, and
   it verifies (that it is a shortest one is checked on the implementation by the harness, not proved here) *)
Theorem control_block_verifies t P i l : (height t <= MAXD)%nat -> build (dfs t 0) P = Val i -> In l (leaf_paths t) ->
  exists c l', control_block i (l_script l, l_ver l) = Some c /\ In l' (leaf_paths t) /\ l_script l' = l_script l /\ l_ver l' = l_ver l /\
               c = {| cb_ver := l_ver l; cb_parity := si_parity i; cb_key := P; cb_branch := l_branch l' |} /\
               verify c (si_outkey i) (l_script l) = Val true.
Proof. intros Hh B Hl. pose proof (build_inv t P i Hh B) as (I1 & _ & _ & _ & M).
  assert (Has : map_has (si_map i) (l_script l, l_ver l) (l_branch l)) by (apply M; exists l; auto).
  destruct (map_get_some _ _ _ Has) as [s G]. pose proof (map_get_in _ _ _ G) as Gin.
  unfold control_block. rewrite G. destruct s as [|x r].
  - exfalso.
    assert (NE : Forall (fun ks : (bytes * byte) * list (list bytes) => snd ks <> []) (si_map i)).
    { unfold Taproot.build in B. destruct (Taproot.run _ _ _ _) as [b0|]; [|discriminate].
      apply finalize_inv in B as (n & _ & _ & _ & _ & _ & ->). apply build_map_nonempty. }
    rewrite Forall_forall in NE. apply (NE _ Gin). reflexivity.
  - assert (Hs : map_has (si_map i) (l_script l, l_ver l) (shortest x r)) by (exists (x :: r); split; [assumption|apply shortest_in]).
    apply M in Hs as [l' [Hl' [Ek Ev]]]. inversion Ek as [[Es Ever]].
    exists {| cb_ver := l_ver l; cb_parity := si_parity i; cb_key := P; cb_branch := l_branch l' |}, l'.
    cbn [snd]. rewrite I1, Ev. repeat split; auto.
    rewrite Es, Ever. apply (cb_verifies t P i l' Hh B Hl'). Qed.
End WITH_SPEC.

(* ---- well-formed trees: 32-byte hidden hashes, constructible leaf versions, scripts shorter than 2^64 ---- *)
Fixpoint wf_tree (t : tree) : Prop :=
  match t with
  | Leaf s v => wf_ver v /\ (N.of_nat (length s) < 2 ^ 64)%N
  | Hidden h => length h = 32%nat
  | Node a b => wf_tree a /\ wf_tree b
  end.
Section LEN.
Hypothesis Hleaf_len : forall m, length (Hleaf m) = 32%nat.
Hypothesis Hbranch_len : forall m, length (Hbranch m) = 32%nat.
Lemma root_len t : wf_tree t -> length (root t) = 32%nat.
Proof. destruct t; cbn [Taproot.root wf_tree]; intros W; [apply Hleaf_len|assumption|apply Hbranch_len]. Qed.
Lemma leaf_paths_wf t : wf_tree t -> forall l, In l (leaf_paths t) ->
  wf_ver (l_ver l) /\ (N.of_nat (length (l_script l)) < 2 ^ 64)%N /\ Forall (fun x => length x = 32%nat) (l_branch l).
Proof. induction t as [s v|h|a IHa b IHb]; cbn [Taproot.leaf_paths wf_tree]; intros W l Hl.
  - destruct Hl as [<-|[]]. cbn. destruct W. auto.
  - destruct Hl.
  - destruct W as [Wa Wb]. apply in_app_or in Hl as [Hl|Hl]; apply in_map_iff in Hl as [l' [<- Hl']]; cbn [snoc l_ver l_script l_branch];
      [destruct (IHa Wa _ Hl') as (V & S & F)|destruct (IHb Wb _ Hl') as (V & S & F)]; (split; [assumption|split; [assumption|]]);
      apply Forall_app; (split; [assumption|]); constructor; auto using root_len. Qed.

(* the control block of every leaf is well formed, has length 33 + 32*depth and survives serialization *)
Theorem cb_serialization t P par l : wf_tree t -> (height t <= MAXD)%nat -> length P = 32%nat -> xonly_valid P = true -> In l (leaf_paths t) ->
  let c := {| cb_ver := l_ver l; cb_parity := par; cb_key := P; cb_branch := l_branch l |} in
  length (cb_serialize c) = (33 + 32 * length (l_branch l))%nat /\ cb_size c = N.of_nat (length (cb_serialize c)) /\
  cb_from_slice xonly_valid (cb_serialize c) = Ok c.
Proof. intros W Hh LP XP Hl c. subst c. destruct (leaf_paths_wf t W l Hl) as (V & _ & F).
  split; [apply cb_serialize_length; assumption|]. split; [apply cb_size_ok; assumption|].
  apply cb_roundtrip. repeat split; try assumption. cbn [cb_branch]. pose proof (leaf_path_depth Hleaf Hbranch t l Hl). lia. Qed.

(* ---- binding ---- *)
Definition Collision : Prop :=
  (exists a b, a <> b /\ Hleaf a = Hleaf b) \/ (exists a b, a <> b /\ Hbranch a = Hbranch b) \/
  (exists a b, Hleaf a = Hbranch b) \/ (exists a b, a <> b /\ Htweak a = Htweak b).
(* (script, ver, path) is a leaf of t, or the path enters a hidden node of t *)
Definition in_tree (t : tree) (script : bytes) (ver : byte) (path : list bytes) : Prop :=
  In {| l_script := script; l_ver := ver; l_branch := path |} (leaf_paths t) \/
  exists h pre post, path = pre ++ post /\ In (h, post) (hidden_paths t) /\ fold_left step pre (lh ver script) = h.
Lemma chain_len path : forall h, length h = 32%nat -> length (fold_left step path h) = 32%nat.
Proof. induction path as [|e r IH]; intros h L; cbn [fold_left]; [assumption|]. apply IH. apply Hbranch_len. Qed.
Lemma in_tree_left a b s v p : in_tree a s v p -> in_tree (Node a b) s v (p ++ [root b]).
Proof. intros [H|(h & pre & post & E & Hin & F)]; [left|right].
  - cbn [Taproot.leaf_paths]. apply in_or_app. left. apply in_map_iff. eexists. split; [|exact H]. reflexivity.
  - exists h, pre, (post ++ [root b]). split; [subst; now rewrite app_assoc|]. split; [|assumption].
    cbn [Taproot.hidden_paths]. apply in_or_app. left. apply in_map_iff. exists (h, post). auto. Qed.
Lemma in_tree_right a b s v p : in_tree b s v p -> in_tree (Node a b) s v (p ++ [root a]).
Proof. intros [H|(h & pre & post & E & Hin & F)]; [left|right].
  - cbn [Taproot.leaf_paths]. apply in_or_app. right. apply in_map_iff. eexists. split; [|exact H]. reflexivity.
  - exists h, pre, (post ++ [root a]). split; [subst; now rewrite app_assoc|]. split; [|assumption].
    cbn [Taproot.hidden_paths]. apply in_or_app. right. apply in_map_iff. exists (h, post). auto. Qed.

Lemma chain_in_tree : forall t s v path, wf_tree t -> (N.of_nat (length s) < 2 ^ 64)%N -> Forall (fun x => length x = 32%nat) path ->
  fold_left step path (lh v s) = root t -> in_tree t s v path \/ Collision.
Proof. induction t as [s' v'|h|a IHa b IHb]; intros s v path W Ls Fp E.
  - destruct W as [_ Ls']. destruct (last_case path) as [->|(p' & e & ->)].
    + cbn [fold_left Taproot.root] in E. unfold Taproot.leaf_hash in E.
      destruct (bytes_eqb_spec (leaf_msg v s) (leaf_msg v' s')) as [Em|Ne].
      * apply leaf_msg_inj in Em as [-> ->]; [|assumption|assumption]. left. left. cbn. now left.
      * right. left. eauto.
    + rewrite fold_snoc in E. cbn [Taproot.root] in E. unfold merkle_step at 1, Taproot.leaf_hash in E. right. right. right. left. eauto.
  - left. right. exists h, path, []. rewrite app_nil_r. cbn. auto.
  - destruct W as [Wa Wb]. destruct (last_case path) as [->|(p' & e & ->)].
    + cbn [fold_left Taproot.root] in E. unfold Taproot.leaf_hash in E. right. right. right. left. eauto.
    + rewrite fold_snoc in E. cbn [Taproot.root] in E. unfold merkle_step at 1 in E.
      apply Forall_app in Fp as [Fp' Fe]. inversion Fe as [|? ? Le _]; subst.
      set (c := fold_left step p' (lh v s)) in *.
      assert (Lc : length c = 32%nat) by (apply chain_len, Hleaf_len).
      destruct (bytes_eqb_spec (sortpair c e) (sortpair (root a) (root b))) as [Es|Ne]; [|right; right; left; eauto].
      apply sortpair_inj in Es; [|rewrite ?root_len by assumption; congruence..].
      destruct Es as [[Ec Ee]|[Ec Ee]]; subst e.
      * destruct (IHa s v p' Wa Ls Fp' Ec) as [H|H]; [left; now apply in_tree_left|now right].
      * destruct (IHb s v p' Wb Ls Fp' Ec) as [H|H]; [left; now apply in_tree_right|now right]. Qed.

Section WITH_SPEC2.
Hypothesis tweak_spec : forall P Q par t, tweak_check P Q par t = true <-> tweak P t = Some (Q, par).
(* P + tG = P + t'G with the same parity forces t = t' *)
Hypothesis tweak_inj : forall P t t' r, tweak P t = Some r -> tweak P t' = Some r -> t = t'.

(* a control block (with the tree's internal key) that verifies against the tree's output key names a leaf of the tree with the
   tree's parity — or exhibits a hash collision, or exhibits a second way of writing the output key, with the OTHER parity, as
   internal key + H_tweak(...)G (a preimage-type event for H_tweak that no collision argument can exclude) *)
Theorem cb_binding t P i c s : wf_tree t -> (height t <= MAXD)%nat -> build (dfs t 0) P = Val i ->
  cb_key c = P -> (N.of_nat (length s) < 2 ^ 64)%N -> Forall (fun x => length x = 32%nat) (cb_branch c) ->
  verify c (si_outkey i) s = Val true ->
  (cb_parity c = si_parity i /\ in_tree t s (cb_ver c) (cb_branch c)) \/ Collision \/
  (cb_parity c = negb (si_parity i) /\ tth P (Some (cb_root Hleaf Hbranch c s)) <> tth P (Some (root t)) /\
   tweak P (tth P (Some (cb_root Hleaf Hbranch c s))) = Some (si_outkey i, negb (si_parity i))).
Proof. intros W Hh B K Ls Fp V. apply build_inv in B as (_ & _ & _ & T & _); [|assumption].
  unfold Taproot.verify in V. rewrite K in V. destruct (scalar_ok _); [|discriminate]. inversion V as [C]. apply tweak_spec in C.
  destruct (Bool.bool_dec (cb_parity c) (si_parity i)) as [Ep|Np].
  - rewrite Ep in C. pose proof (tweak_inj _ _ _ _ C T) as Et. unfold tap_tweak_hash in Et.
    destruct (bytes_eqb_spec (P ++ cb_root Hleaf Hbranch c s) (P ++ root t)) as [Em|Ne]; [|right; left; right; right; right; eauto].
    apply app_inv_head in Em. unfold cb_root in Em. destruct (chain_in_tree t s (cb_ver c) (cb_branch c) W Ls Fp Em) as [H|H]; auto.
  - right. right. assert (Ep : cb_parity c = negb (si_parity i)) by (destruct (cb_parity c), (si_parity i); try reflexivity; exfalso; now apply Np).
    split; [assumption|]. rewrite Ep in C. split; [|assumption]. intros Et. rewrite Et, T in C. inversion C as [Eb]. destruct (si_parity i); discriminate. Qed.
End WITH_SPEC2.
End LEN.
End VERIFY.

(* ------------------------------------------------------------------ builder completeness *)
Lemma dfs_first t : forall d, exists it rest, dfs t d = it :: rest /\ (N.of_nat d <= item_depth it)%N.
Proof. induction t as [s v|h|a IHa b _]; intros d; cbn [dfs].
  - eexists _, _. split; [reflexivity|cbn; lia]. - eexists _, _. split; [reflexivity|cbn; lia].
  - destruct (IHa (S d)) as (it & rest & -> & L). eexists _, _. split; [reflexivity|lia]. Qed.
Lemma dfs_prefix_inj : forall t t' d r r', dfs t d ++ r = dfs t' d ++ r' -> t = t' /\ r = r'.
Proof. induction t as [s v|h|a IHa b IHb]; intros [s' v'|h'|a' b'] d r r' E; cbn [dfs] in E.
  - inversion E; subst. auto.
  - discriminate.
  - destruct (dfs_first a' (S d)) as (it & rest & Ea & L). rewrite <- app_assoc, Ea in E. inversion E; subst it. cbn in L. lia.
  - discriminate.
  - inversion E; subst. auto.
  - destruct (dfs_first a' (S d)) as (it & rest & Ea & L). rewrite <- app_assoc, Ea in E. inversion E; subst it. cbn in L. lia.
  - destruct (dfs_first a (S d)) as (it & rest & Ea & L). rewrite <- app_assoc, Ea in E. inversion E; subst it. cbn in L. lia.
  - destruct (dfs_first a (S d)) as (it & rest & Ea & L). rewrite <- app_assoc, Ea in E. inversion E; subst it. cbn in L. lia.
  - rewrite <- !app_assoc in E. apply IHa in E as [-> E]. apply IHb in E as [-> E]. auto. Qed.
Lemma dfs_inj t t' d : dfs t d = dfs t' d -> t = t'.
Proof. intros E. apply (dfs_prefix_inj t t' d [] []). now rewrite !app_nil_r. Qed.

Lemma map_repeat' {A B} (f : A -> B) x n : map f (repeat x n) = repeat (f x) n.
Proof. induction n; cbn; congruence. Qed.

Section COMPLETE.
Variables Hleaf Hbranch : bytes -> bytes.
Notation combine := (combine Hbranch).
Notation node_of := (node_of Hleaf Hbranch).
Notation insert := (insert Hbranch).
Notation ins := (ins Hbranch).
Notation run := (run Hleaf Hbranch).

(* the frontier of finished left subtrees the branch vector stands for (deepest first, like the vector) *)
Definition frontier := list (option tree).
Definition to_br (ts : frontier) : br := map (option_map node_of) ts.
Fixpoint flat (ts : frontier) : list item :=
  match ts with [] => [] | o :: r => flat r ++ match o with Some t => dfs t (length r) | None => [] end end.
Fixpoint fits (ts : frontier) : Prop :=
  match ts with [] => True | o :: r => match o with Some t => (length r + height t <= MAXD)%nat | None => True end /\ fits r end.
Lemma flat_nones k ts : flat (repeat None k ++ ts) = flat ts.
Proof. induction k; cbn [repeat app flat]; [reflexivity|]. now rewrite app_nil_r. Qed.
Lemma fits_nones k ts : fits ts -> fits (repeat None k ++ ts).
Proof. induction k; cbn [repeat app fits]; auto. Qed.
Lemma to_br_length ts : length (to_br ts) = length ts. Proof. apply map_length. Qed.

Lemma ins_rep : forall ts t d b', fits ts -> (length ts <= d + 1)%nat -> (d + height t <= MAXD)%nat ->
  ins (node_of t) d (to_br ts) = Ok b' ->
  exists ts', b' = to_br ts' /\ fits ts' /\ flat ts' = flat ts ++ dfs t d /\ (exists t0 r0, ts' = Some t0 :: r0).
Proof. induction ts as [|o r IH]; intros t d b' F L Hh E.
  - cbn [to_br map Taproot.ins] in E. inversion E; subst b'. exists (Some t :: repeat None d ++ []).
    split; [unfold place, to_br; cbn [length map option_map]; rewrite Nat.sub_0_r, map_app, map_repeat'; reflexivity|].
    assert (Len : length (repeat (@None tree) d ++ []) = d) by (rewrite app_length, repeat_length; cbn [length]; lia).
    split; [cbn [fits]; rewrite Len; split; [assumption|apply fits_nones; exact I]|].
    split; [cbn [flat]; rewrite Len, flat_nones; reflexivity|eauto].
  - destruct F as [Fo Fr]. cbn [length] in L. destruct (Nat.eq_dec (S (length r)) (d + 1)) as [Eq|Ne].
    + assert (Ed : length r = d) by lia. destruct o as [tc|]; cbn [to_br map option_map Taproot.ins length] in E; rewrite map_length in E;
        (destruct (Nat.eqb_spec (S (length r)) (d + 1)) as [_|Bad]; [|lia]).
      * destruct d as [|d']; [discriminate|].
        rewrite (combine_ok Hleaf Hbranch _ _ (Nat.max (height tc) (height t))) in E;
          [|lia|eapply short_mono; [|apply node_of_short]; lia|eapply short_mono; [|apply node_of_short]; lia].
        change (combine_tot Hbranch (node_of tc) (node_of t)) with (node_of (Node tc t)) in E.
        destruct (IH (Node tc t) d' b' Fr ltac:(lia) ltac:(cbn [height]; lia) E) as (ts' & -> & F' & Fl & Hd).
        exists ts'. split; [reflexivity|]. split; [assumption|]. split; [|assumption].
        rewrite Fl. cbn [flat dfs]. rewrite Ed, <- app_assoc. reflexivity.
      * inversion E; subst b'. exists (Some t :: r). split; [reflexivity|]. split; [cbn [fits]; split; [lia|assumption]|].
        split; [cbn [flat]; rewrite app_nil_r, Ed; reflexivity|eauto].
    + assert (Lb : (length (to_br (o :: r)) <= d)%nat) by (rewrite to_br_length; cbn [length]; lia).
      rewrite ins_short in E by assumption. inversion E; subst b'.
      exists (Some t :: repeat None (d - length (o :: r)) ++ (o :: r)). unfold place. cbn [length]. rewrite to_br_length.
      split; [unfold to_br; cbn [map option_map]; rewrite map_app, map_repeat'; reflexivity|].
      assert (Len : length (repeat (@None tree) (d - S (length r)) ++ o :: r) = d) by (rewrite app_length, repeat_length; cbn [length] in *; lia).
      split; [cbn [fits]; rewrite Len; split; [assumption|apply fits_nones; cbn [fits]; auto]|].
      split; [cbn [flat]; rewrite Len, flat_nones; reflexivity|eauto]. Qed.

Lemma insert_rep ts it b' : fits ts -> insert (item_node Hleaf it) (item_depth it) (to_br ts) = Ok b' ->
  exists ts', b' = to_br ts' /\ fits ts' /\ flat ts' = flat ts ++ [it] /\ (exists t0 r0, ts' = Some t0 :: r0).
Proof. intros F E. unfold Taproot.insert in E.
  destruct (N.ltb_spec TAPROOT_CONTROL_MAX_NODE_COUNT (item_depth it)) as [|D]; [discriminate|].
  rewrite to_br_length in E. destruct (Nat.ltb_spec (N.to_nat (item_depth it) + 1) (length ts)) as [|L]; [discriminate|].
  set (t := match it with ILeaf _ s v => Leaf s v | IHidden _ h => Hidden h end).
  assert (En : item_node Hleaf it = node_of t) by (destruct it; reflexivity).
  assert (Ei : dfs t (N.to_nat (item_depth it)) = [it]) by (destruct it; cbn [dfs t item_depth]; rewrite Nnat.N2Nat.id; reflexivity).
  rewrite En in E. apply ins_rep in E; [|assumption|lia|unfold MAXD; destruct it; cbn [height t]; lia].
  rewrite Ei in E. exact E. Qed.

Lemma run_rep : forall items ts b', fits ts -> run items (to_br ts) = Ok b' ->
  exists ts', b' = to_br ts' /\ fits ts' /\ flat ts' = flat ts ++ items /\ (items = [] \/ exists t0 r0, ts' = Some t0 :: r0).
Proof. induction items as [|it r IH]; intros ts b' F E; cbn [Taproot.run] in E.
  - inversion E; subst. exists ts. rewrite app_nil_r. auto.
  - destruct (insert _ _ (to_br ts)) as [b1|] eqn:I; [|discriminate].
    destruct (insert_rep ts it b1 F I) as (ts1 & -> & F1 & Fl1 & Hd1).
    destruct (IH ts1 b' F1 E) as (ts' & -> & F' & Fl' & Hd'). exists ts'. split; [reflexivity|]. split; [assumption|].
    split; [rewrite Fl', Fl1, <- app_assoc; reflexivity|]. right. destruct Hd' as [->|H]; [|assumption].
    cbn [Taproot.run] in E. inversion E as [E']. apply (f_equal (map (fun o : option node => match o with Some _ => true | None => false end))) in E'.
    unfold to_br in E'. rewrite !map_map in E'. destruct Hd1 as (t0 & r0 & ->). destruct ts' as [|[t1|] r1]; cbn in E'; try discriminate; eauto. Qed.

(* only depth-first walks of trees of height <= 128 leave the builder complete, and the walk determines the tree *)
Theorem builder_complete items b : run items [] = Ok b -> is_complete b = true ->
  exists t, (height t <= MAXD)%nat /\ items = dfs t 0 /\ b = [Some (node_of t)] /\ forall t', items = dfs t' 0 -> t' = t.
Proof. intros R C. destruct (run_rep items [] b I R) as (ts & -> & F & Fl & _). cbn [flat app] in Fl.
  destruct ts as [|[t|] [|o r]]; cbn [to_br map option_map is_complete] in C; try discriminate.
  exists t. cbn [fits length Nat.add] in F. split; [tauto|]. cbn [flat length] in Fl. split; [now rewrite <- Fl|]. split; [reflexivity|].
  intros t' E. rewrite <- Fl in E. cbn [app] in E. symmetry. now apply dfs_inj in E. Qed.
(* the builder never reaches a state whose last entry is None through its API, so finalize's `expect` cannot fire *)
Theorem run_head_some items b : run items [] = Ok b -> b = [] \/ exists n r, b = Some n :: r.
Proof. intros R. destruct (run_rep items [] b I R) as (ts & -> & _ & Fl & [->|(t0 & r0 & ->)]).
  - cbn in R. inversion R. now left. - right. cbn. eauto. Qed.
End COMPLETE.

Section REFUSE.
Variables Hleaf Hbranch Htweak : bytes -> bytes.
Variable scalar_ok : bytes -> bool.
Variable tweak : bytes -> bytes -> option (bytes * bool).
(* anything that is not the depth-first walk of a tree of height <= 128 is refused with a TaprootBuilderError: by an add_* call
   or by finalize; it is never accepted and finalize's `expect` cannot fire on a state built through the API *)
Theorem build_refuses items P : (forall t, (height t <= MAXD)%nat -> items <> dfs t 0) ->
  exists e, build Hleaf Hbranch Htweak scalar_ok tweak items P = Fail e.
Proof. intros N. unfold build. destruct (run Hleaf Hbranch items []) as [b|e] eqn:R; [|eauto].
  destruct (run_head_some Hleaf Hbranch items b R) as [->|(n & r & ->)]; [cbn; eauto|].
  destruct r as [|y r].
  - destruct (builder_complete Hleaf Hbranch items _ R eq_refl) as (t & Hh & E & _). exfalso. exact (N t Hh E).
  - cbn. eauto. Qed.
(* conversely the walk of such a tree is only ever stopped by secp256k1 refusing the tweak (probability ~2^-128) *)
Theorem build_accepts t P : (height t <= MAXD)%nat ->
  build Hleaf Hbranch Htweak scalar_ok tweak (dfs t 0) P = from_node_info Htweak scalar_ok tweak P (node_of Hleaf Hbranch t).
Proof. intros Hh. unfold build. rewrite builder_sound by assumption. reflexivity. Qed.
End REFUSE.

(* ------------------------------------------------------------------ key pair tweak = secret of the output key *)
Section KEYPAIR.
Variable Htweak : bytes -> bytes.
Variable scalar_ok : bytes -> bool.
Variable pt : Type.
Variable padd : pt -> pt -> pt.
Variable pneg : pt -> pt.
Variable mulG : Z -> pt.
Variable xonly_of : pt -> option (bytes * bool).
Variable lift_x : bytes -> option pt.
Hypothesis mulG_add : forall a b, mulG (a + b) = padd (mulG a) (mulG b).
Hypothesis mulG_neg : forall a, mulG (- a) = pneg (mulG a).
Hypothesis lift_even : forall s x par, xonly_of (mulG s) = Some (x, par) -> lift_x x = Some (if par then pneg (mulG s) else mulG s).
Theorem keypair_tweak_is_secret sk root sk' :
  keypair_tap_tweak Htweak scalar_ok pt mulG xonly_of sk root = Val sk' ->
  exists P par0 Q par, kp_xonly pt mulG xonly_of sk = Some (P, par0) /\
    tap_tweak Htweak scalar_ok (xonly_tweak pt padd mulG xonly_of lift_x) P root = Val (Q, par) /\
    kp_xonly pt mulG xonly_of sk' = Some (Q, par).
Proof. unfold keypair_tap_tweak, kp_add_xonly_tweak, tap_tweak. destruct (kp_xonly pt mulG xonly_of sk) as [[P par0]|] eqn:K; [|discriminate].
  destruct (scalar_ok _) eqn:S; [|discriminate].
  destruct (xonly_of (mulG ((if par0 then - sk else sk) + scalar_of (tap_tweak_hash Htweak P root)))) as [[Q par]|] eqn:X; [|discriminate].
  intros E; inversion E; subst sk'. exists P, par0, Q, par. split; [reflexivity|]. unfold kp_xonly in *. rewrite X. split; [|reflexivity].
  cbv zeta. rewrite S. unfold xonly_tweak. rewrite (lift_even _ _ _ K). rewrite mulG_add in X. destruct par0; [rewrite mulG_neg in X|]; rewrite X; reflexivity. Qed.
End KEYPAIR.
