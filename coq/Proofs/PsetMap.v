(* Lemmas about byte-string order, association lists and the map record (used by C14 and C08). *)
From Coq Require Import List NArith Bool Lia.
From Coq.Strings Require Import Byte.
From EV Require Import Base.Bytes Gen.Tables Model.PsetMap.
Import ListNotations.
Open Scope N_scope.

Lemma bytes_eqb_eq a b : bytes_eqb a b = true <-> a = b.
Proof. destruct (bytes_eqb_spec a b); split; congruence. Qed.
Lemma bytes_eqb_neq a b : bytes_eqb a b = false <-> a <> b.
Proof. destruct (bytes_eqb_spec a b); split; congruence. Qed.
Lemma bytes_eqb_sym a b : bytes_eqb a b = bytes_eqb b a.
Proof. destruct (bytes_eqb_spec a b), (bytes_eqb_spec b a); congruence. Qed.

Lemma bytes_cmp_eq a : forall b, bytes_cmp a b = Eq <-> a = b.
Proof.
  induction a as [|x a IH]; intros [|y b]; cbn [bytes_cmp]; try (split; congruence).
  destruct (N.compare_spec (b2n x) (b2n y)) as [E|L|L].
  - apply b2n_inj in E. subst. rewrite IH. split; congruence.
  - split; [discriminate|]. intros [= -> _]. lia.
  - split; [discriminate|]. intros [= -> _]. lia.
Qed.
Lemma bytes_cmp_refl a : bytes_cmp a a = Eq. Proof. now apply bytes_cmp_eq. Qed.
Lemma bytes_cmp_antisym a : forall b, bytes_cmp b a = CompOpp (bytes_cmp a b).
Proof.
  induction a as [|x a IH]; intros [|y b]; cbn [bytes_cmp]; try reflexivity.
  rewrite (N.compare_antisym (b2n x) (b2n y)). destruct (b2n x ?= b2n y); cbn; auto.
Qed.
Lemma bytes_cmp_trans_lt a : forall b c, bytes_cmp a b = Lt -> bytes_cmp b c = Lt -> bytes_cmp a c = Lt.
Proof.
  induction a as [|x a IH]; intros [|y b] [|z c]; cbn [bytes_cmp]; try congruence.
  destruct (N.compare_spec (b2n x) (b2n y)) as [E|L|L]; try discriminate;
  destruct (N.compare_spec (b2n y) (b2n z)) as [E'|L'|L']; try discriminate; intros H1 H2.
  - rewrite E, E', N.compare_refl. eauto.
  - rewrite E. apply N.compare_lt_iff in L'. now rewrite L'.
  - rewrite <- E'. apply N.compare_lt_iff in L. now rewrite L.
  - assert (b2n x < b2n z) as L'' by lia. apply N.compare_lt_iff in L''. now rewrite L''.
Qed.

(* ---- association lists *)
Lemma al_find_insert k k' v l : al_find k (al_insert k' v l) = if bytes_eqb k k' then Some v else al_find k l.
Proof.
  induction l as [|[k2 v2] r IH]; cbn [al_insert al_find]; [reflexivity|].
  destruct (bytes_cmp k' k2) eqn:C; cbn [al_find].
  - apply bytes_cmp_eq in C. subst k2. destruct (bytes_eqb k k'); reflexivity.
  - reflexivity.
  - rewrite IH. destruct (bytes_eqb_spec k k2) as [->|N]; [|reflexivity].
    destruct (bytes_eqb_spec k2 k') as [->|N']; [|reflexivity]. rewrite bytes_cmp_refl in C. discriminate.
Qed.
Lemma al_mem_insert k k' v l : al_mem k (al_insert k' v l) = bytes_eqb k k' || al_mem k l.
Proof. unfold al_mem. rewrite al_find_insert. destruct (bytes_eqb k k'); reflexivity. Qed.

Lemma al_mem_extend k : forall b a, al_mem k (al_extend a b) = al_mem k a || al_mem k b.
Proof.
  unfold al_extend. induction b as [|[k' v'] b IH]; intros a; cbn [fold_left fst snd].
  - now rewrite orb_false_r.
  - rewrite IH, al_mem_insert. unfold al_mem. cbn [al_find].
    destruct (bytes_eqb k k'), (al_find k a), (al_find k b); reflexivity.
Qed.

(* strictly increasing keys: the BTreeMap invariant *)
Fixpoint al_lb (k : bytes) (l : alist) : bool :=     (* k is below every key of l *)
  match l with [] => true | (k', _) :: r => match bytes_cmp k k' with Lt => al_lb k r | _ => false end end.
Fixpoint al_sorted (l : alist) : bool := match l with [] => true | (k, _) :: r => al_lb k r && al_sorted r end.

Lemma al_lb_find k l : al_lb k l = true -> al_find k l = None.
Proof.
  induction l as [|[k' v'] r IH]; cbn [al_lb al_find]; [reflexivity|].
  destruct (bytes_cmp k k') eqn:C; try discriminate. intros H.
  destruct (bytes_eqb_spec k k') as [->|N]; [rewrite bytes_cmp_refl in C; discriminate|auto].
Qed.
Lemma al_lb_trans k k' l : bytes_cmp k k' = Lt -> al_lb k' l = true -> al_lb k l = true.
Proof.
  induction l as [|[k2 v2] r IH]; cbn [al_lb]; [reflexivity|]. intros L.
  destruct (bytes_cmp k' k2) eqn:C; try discriminate. intros H. rewrite (bytes_cmp_trans_lt _ _ _ L C). auto.
Qed.
Lemma al_lb_insert k k' v l : bytes_cmp k k' = Lt -> al_lb k l = true -> al_lb k (al_insert k' v l) = true.
Proof.
  induction l as [|[k2 v2] r IH]; cbn [al_insert al_lb]; intros L H.
  - now rewrite L.
  - destruct (bytes_cmp k k2) eqn:C; try discriminate.
    destruct (bytes_cmp k' k2) eqn:C'; cbn [al_lb]; rewrite ?L, ?C; auto.
Qed.
Lemma al_sorted_insert k v l : al_sorted l = true -> al_sorted (al_insert k v l) = true.
Proof.
  induction l as [|[k2 v2] r IH]; cbn [al_insert al_sorted]; [reflexivity|].
  intros H. apply andb_true_iff in H as [H1 H2].
  destruct (bytes_cmp k k2) eqn:C; cbn [al_sorted al_lb].
  - apply bytes_cmp_eq in C. subst. now rewrite H1, H2.
  - rewrite C, H1, H2. cbn. now rewrite (al_lb_trans _ _ _ C H1).
  - rewrite IH by assumption. rewrite andb_true_r. apply al_lb_insert; [|assumption].
    rewrite bytes_cmp_antisym, C. reflexivity.
Qed.
Lemma al_sorted_extend b : forall a, al_sorted a = true -> al_sorted (al_extend a b) = true.
Proof. unfold al_extend. induction b as [|[k v] b IH]; intros a H; cbn [fold_left]; [assumption|]. apply IH, al_sorted_insert, H. Qed.

(* two sorted lists with the same lookups are equal *)
Lemma al_sorted_ext l : forall l', al_sorted l = true -> al_sorted l' = true -> (forall k, al_find k l = al_find k l') -> l = l'.
Proof.
  induction l as [|[k v] r IH]; intros [|[k' v'] r'] S S' E.
  - reflexivity.
  - specialize (E k'). cbn in E. rewrite bytes_eqb_refl in E. discriminate.
  - specialize (E k). cbn in E. rewrite bytes_eqb_refl in E. discriminate.
  - cbn [al_sorted] in S, S'. apply andb_true_iff in S as [L S], S' as [L' S'].
    assert (k = k') as <-.
    { destruct (bytes_cmp k k') eqn:C.
      - now apply bytes_cmp_eq.
      - (* k < k': k is not in l' *)
        pose proof (E k) as Ek. cbn [al_find] in Ek. rewrite bytes_eqb_refl in Ek.
        destruct (bytes_eqb_spec k k') as [->|N]; [reflexivity|].
        rewrite (al_lb_find k r') in Ek; [discriminate|]. eapply al_lb_trans; eauto.
      - pose proof (E k') as Ek. cbn [al_find] in Ek. rewrite bytes_eqb_refl in Ek.
        destruct (bytes_eqb_spec k' k) as [->|N]; [reflexivity|].
        rewrite (al_lb_find k' r) in Ek; [discriminate|]. eapply al_lb_trans; eauto.
        rewrite bytes_cmp_antisym, C. reflexivity. }
    pose proof (E k) as Ek. cbn [al_find] in Ek. rewrite bytes_eqb_refl in Ek. injection Ek as <-.
    f_equal. apply IH; try assumption. intros q. specialize (E q). cbn [al_find] in E.
    destruct (bytes_eqb_spec q k) as [Q|N]; [|assumption].
    rewrite Q. now rewrite (al_lb_find k r), (al_lb_find k r').
Qed.

(* lookups of an extension by a sorted list *)
Lemma al_find_extend_sorted k : forall b a, al_sorted b = true ->
  al_find k (al_extend a b) = match al_find k b with Some v => Some v | None => al_find k a end.
Proof.
  unfold al_extend. induction b as [|[k' v'] b IH]; intros a S; cbn [fold_left fst snd al_find]; [reflexivity|].
  cbn [al_sorted] in S. apply andb_true_iff in S as [L S]. rewrite IH by assumption. rewrite al_find_insert.
  destruct (bytes_eqb_spec k k') as [->|N]; [|reflexivity]. now rewrite (al_lb_find k' b).
Qed.

(* ---- the map record *)
Lemma unk_set_unk m f v g : unk (set_unk m f v) g = if bytes_eqb g f then v else unk m g. Proof. reflexivity. Qed.
Lemma kyd_set_unk m f v g : kyd (set_unk m f v) g = kyd m g. Proof. reflexivity. Qed.
Lemma unk_set_kyd m f l g : unk (set_kyd m f l) g = unk m g. Proof. reflexivity. Qed.
Lemma kyd_set_kyd m f l g : kyd (set_kyd m f l) g = if bytes_eqb g f then l else kyd m g. Proof. reflexivity. Qed.
