(* The kernel-evaluated tables for the four codes of Model/Bech32.v (bech32, bech32m: upstream constants transcribed by hand;
   blech32, blech32m: constants regenerated from src/blech32/mod.rs), and the distance statements instantiated for them. *)
From Coq Require Import List NArith Bool Lia.
From EV Require Import Base.Bytes Gen.Tables Model.Bech32 Proofs.Bech32.
Import ListNotations.
Open Scope N_scope.

Definition the_codes : list code := [bech32; bech32m; blech32; blech32m].
(* the length up to which the distance table is swept: the true BCH length of the codes (the property fails at 1024) *)
Definition L_code : nat := 1023.
(* lengths up to which the variant-switch tables are swept: any word the segwit decoders accept is shorter
   (upstream: 90 characters incl. an HRP of at most 83 -> 2*83+1+6 .. <= 173 symbols; local blech32: HRP <= 83, data <= 131 -> <= 298) *)
Definition L_switch_bech : nat := 175.
Definition L_switch_blech : nat := 400.

Lemma tables_ok : forallb (fun c => table_ok (c_gen c) (shift_of c) L_code) the_codes = true.
Proof. vm_compute. reflexivity. Qed.
Lemma table_ok_in c : In c the_codes -> table_ok (c_gen c) (shift_of c) L_code = true.
Proof. intros I. pose proof tables_ok as T. rewrite forallb_forall in T. exact (T c I). Qed.

Lemma switch_bech_ok : switch_ok (c_gen bech32) (shift_of bech32) L_switch_bech (N.lxor (c_target bech32) (c_target bech32m)) = true.
Proof. vm_compute. reflexivity. Qed.
Lemma switch_blech_ok : switch_ok (c_gen blech32) (shift_of blech32) L_switch_blech (N.lxor (c_target blech32) (c_target blech32m)) = true.
Proof. vm_compute. reflexivity. Qed.
(* the two local codes share generator and length (else a variant switch would leave the code altogether) *)
Lemma blech_same_gen : c_gen blech32 = c_gen blech32m /\ c_len blech32 = c_len blech32m.
Proof. split; vm_compute; reflexivity. Qed.

Lemma two_errors_codes c : In c the_codes ->
  forall w w', sym_word w -> sym_word w' -> length w = length w' -> (length w <= L_code)%nat -> (1 <= hamming w w' <= 2)%nat ->
  valid_codeword c w = true -> valid_codeword c w' = false.
Proof. intros I. apply two_errors. now apply table_ok_in. Qed.

Lemma switch_codes : forall c0 cm L, (c0, cm, L) = (bech32, bech32m, L_switch_bech) \/ (c0, cm, L) = (blech32, blech32m, L_switch_blech) ->
  forall w w', sym_word w -> sym_word w' -> length w = length w' -> (length w <= L)%nat -> (hamming w w' <= 2)%nat ->
  (valid_codeword c0 w = true -> valid_codeword cm w' = false) /\ (valid_codeword cm w = true -> valid_codeword c0 w' = false).
Proof. intros c0 cm L [E|E]; inversion E; subst.
  - apply switch_errors; [reflexivity|reflexivity|exact switch_bech_ok].
  - apply switch_errors; [apply blech_same_gen|apply blech_same_gen|exact switch_blech_ok]. Qed.
