(* Proofs for C05_tamper: from an accepted transaction every single-location tamper of Model/Tamper.v is rejected. *)
From Coq Require Import List NArith ZArith Bool Lia Setoid Morphisms.
From Coq.Strings Require Import Byte.
From EV Require Import Base.Bytes Base.Zn Base.FreeMod Model.Script Model.Ideal Model.Verify Model.Blind Model.Tamper
  Proofs.Ideal Proofs.Verify.
Import ListNotations.
Open Scope Z_scope.

(* ---- lists *)
Lemma nth_set_eq {A} (l : list A) : forall j x y, nth_error l j = Some x -> nth_error (set_nth l j y) j = Some y.
Proof. induction l as [|a l IH]; intros [|j] x y NE; cbn in *; try discriminate; eauto. Qed.
Lemma nth_set_neq {A} (l : list A) : forall j k y, j <> k -> nth_error (set_nth l j y) k = nth_error l k.
Proof. induction l as [|a l IH]; intros [|j] [|k] y NE; cbn; auto; try congruence. Qed.
Lemma set_nth_length {A} (l : list A) : forall j y, length (set_nth l j y) = length l.
Proof. induction l as [|a l IH]; intros [|j] y; cbn; auto. Qed.
Lemma set_nth_split {A} (l : list A) : forall j x y, nth_error l j = Some x ->
  l = firstn j l ++ x :: skipn (S j) l /\ set_nth l j y = firstn j l ++ y :: skipn (S j) l /\ length (firstn j l) = j.
Proof.
  induction l as [|a l IH]; intros [|j] x y NE; cbn in *; try discriminate.
  - injection NE as <-. auto.
  - destruct (IH j x y NE) as (E1 & E2 & E3). repeat split; [f_equal; exact E1|f_equal; exact E2|f_equal; exact E3].
Qed.
Lemma upd_some {A} (l : list A) j f x : nth_error l j = Some x -> upd l j f = set_nth l j (f x).
Proof. unfold upd. now intros ->. Qed.
Lemma swap_nth {A} (l : list A) j k f x y : j <> k -> nth_error l j = Some x -> nth_error l k = Some y ->
  nth_error (swap_with l j k f) j = Some (f x y) /\ length (swap_with l j k f) = length l.
Proof.
  intros NE NJ NK. unfold swap_with. rewrite NJ, NK. split.
  - rewrite nth_set_neq by congruence. eapply nth_set_eq, NJ.
  - now rewrite !set_nth_length.
Qed.

(* ---- scalars and sums *)
Lemma zadd_cancel s a b : zadd s a = zadd s b -> a mod qn = b mod qn.
Proof.
  unfold zadd. intro H. change (eqn a b). change (eqn (s + a) (s + b)) in H.
  assert (E : eqn a ((s + a) - s)) by (unfold eqn; f_equal; ring). rewrite E, H. unfold eqn. f_equal. ring.
Qed.
Lemma coeff_gsum_mid A c B key : coeff (gsum (A ++ c :: B)) key = zadd (coeff c key) (zadd (coeff (gsum A) key) (coeff (gsum B) key)).
Proof.
  rewrite !coeff_gsum, map_app, zsum_app. cbn [map zsum fold_right].
  fold (zsum (map (fun x => coeff x key) B)). zn_ring.
Qed.
(* two sums that differ in one summand and equal the same thing: the summands are equal *)
Lemma balance_mid X A c c' B : geq X (gsum (A ++ c :: B)) -> geq X (gsum (A ++ c' :: B)) -> geq c c'.
Proof.
  intros H H' key. pose proof (H key) as E. rewrite (H' key), !coeff_gsum_mid in E.
  rewrite (zadd_comm (coeff c' key)), (zadd_comm (coeff c key)) in E. apply zadd_cancel in E. rewrite !coeff_mod in E. now symmetry.
Qed.
Lemma Forall2_geq_mid A g B A' g' B' : length A = length A' -> Forall2 geq (A ++ g :: B) (A' ++ g' :: B') -> geq g g'.
Proof.
  revert A'. induction A as [|a A IH]; intros [|a' A'] L F; cbn in *; try discriminate.
  - now inversion F. - inversion F; subst. apply (IH A'); [lia|assumption].
Qed.
Lemma Forall2_geq_trans_sym l l' m : Forall2 geq l m -> Forall2 geq l' m -> Forall2 geq l l'.
Proof.
  intro F. revert l'. induction F as [|x y l m E F IH]; intros l' F'; inversion F'; subst; constructor.
  - etransitivity; [exact E|now symmetry]. - now apply IH.
Qed.

(* ---- the output loop *)
Lemma verify_outputs_commits dom dom' : forall outs k k' cs cs',
  verify_outputs dom outs k = OVal cs -> verify_outputs dom' outs k' = OVal cs' -> cs = cs'.
Proof.
  induction outs as [|o outs IH]; intros k k' cs cs'; cbn [verify_outputs]. - now intros [= <-] [= <-].
  - destruct (verify_output_step dom k o) as [c| |] eqn:V; cbn [obind]; try discriminate.
    destruct (verify_outputs dom outs (S k)) as [r| |] eqn:R; cbn [obind]; try discriminate. intros [= <-].
    destruct (verify_output_step dom' k' o) as [c'| |] eqn:V'; cbn [obind]; try discriminate.
    destruct (verify_outputs dom' outs (S k')) as [r'| |] eqn:R'; cbn [obind]; try discriminate. intros [= <-].
    f_equal; [|eapply IH; eassumption].
    destruct (step_inv _ _ _ _ V) as [[S1 ->]|(S1 & c1 & -> & V1)], (step_inv _ _ _ _ V') as [[S2 ->]|(S2 & c2 & -> & V2)]; try congruence.
    destruct (verify_output_inv _ _ _ _ V1) as (G & _). destruct (verify_output_inv _ _ _ _ V2) as (G' & _). congruence.
Qed.
(* same outputs except position j *)
Lemma verify_outputs_replace dom outs outs' j o o' cs cs' c' :
  verify_outputs dom outs 0 = OVal cs -> verify_outputs dom outs' 0 = OVal cs' ->
  nth_error outs j = Some o -> outs' = set_nth outs j o' -> verify_output_step dom j o' = OVal c' ->
  exists c, verify_output_step dom j o = OVal c /\ cs = firstn j cs ++ c :: skipn (S j) cs /\ cs' = firstn j cs ++ c' :: skipn (S j) cs.
Proof.
  intros V V' NE -> Vo'. destruct (verify_outputs_nth _ _ _ _ V) as [L N]. destruct (verify_outputs_nth _ _ _ _ V') as [L' N'].
  destruct (N j o NE) as (c & Vo & NC). exists c. split; [exact Vo|].
  destruct (set_nth_split cs j c c' NC) as (E1 & E2 & _). split; [exact E1|]. rewrite <- E2.
  apply nth_ext with (d := None) (d' := None). { rewrite set_nth_length, L', set_nth_length. now rewrite L. }
  intros i Hi. rewrite L', set_nth_length in Hi.
  destruct (nth_error outs i) as [oi|] eqn:NI; [|apply nth_error_None in NI; lia].
  destruct (Nat.eq_dec j i) as [<-|NJ].
  - destruct (N' j o' (nth_set_eq _ _ _ _ NE)) as (c2 & V2 & NC2). cbn [Nat.add] in V2. rewrite Vo' in V2. injection V2 as <-.
    rewrite (nth_error_nth _ _ _ NC2), (nth_error_nth _ _ None (nth_set_eq _ _ _ c' NC)). reflexivity.
  - assert (NI' : nth_error (set_nth outs j o') i = Some oi) by (rewrite nth_set_neq by exact NJ; exact NI).
    destruct (N' i oi NI') as (c2 & V2 & NC2). destruct (N i oi NI) as (c1 & V1 & NC1). cbn [Nat.add] in *. rewrite V1 in V2. injection V2 as <-.
    rewrite (nth_error_nth _ _ _ NC2). assert (X : nth_error (set_nth cs j c') i = Some c1) by (rewrite nth_set_neq by exact NJ; exact NC1).
    now rewrite (nth_error_nth _ _ _ X).
Qed.

(* ---- master lemmas for tampers of one output *)
Lemma out_reject T spent outs' j o o' :
  verify_tx_amt_proofs T spent = OVal tt -> nth_error (t_out T) j = Some o -> nth_error outs' j = Some o' ->
  skipped o = false -> skipped o' = false ->
  (forall dom c c', verify_output dom j o = OVal c -> verify_output dom j o' = OVal c' -> False) ->
  verify_tx_amt_proofs (mkTx (t_in T) outs') spent <> OVal tt.
Proof.
  intros V NE NE' SK SK' K V'. apply verify_ok_inv in V as (L & dom & coms & ocoms & VI & VO & B).
  apply verify_ok_inv in V' as (L' & dom' & coms' & ocoms' & VI' & VO' & B'). cbn [t_in t_out] in *.
  rewrite VI in VI'. injection VI' as <- <-.
  destruct (verify_outputs_nth _ _ _ _ VO) as [_ N]. destruct (verify_outputs_nth _ _ _ _ VO') as [_ N'].
  destruct (N j o NE) as (c & Vc & _). destruct (N' j o' NE') as (c' & Vc' & _).
  destruct (step_inv _ _ _ _ Vc) as [[S1 _]|(_ & c1 & _ & V1)]; [congruence|].
  destruct (step_inv _ _ _ _ Vc') as [[S2 _]|(_ & c2 & _ & V2)]; [congruence|]. exact (K dom c1 c2 V1 V2).
Qed.
Lemma out_reject_balance T spent ss j o o' :
  verify_tx_amt_proofs T spent = OVal tt -> opens (t_in T) spent ss -> nth_error (t_out T) j = Some o ->
  (forall dom c c', Forall opened_gen dom -> verify_output_step dom j o = OVal c -> verify_output_step dom j o' = OVal c' -> ~ geq (oc2g c) (oc2g c')) ->
  verify_tx_amt_proofs (mkTx (t_in T) (set_nth (t_out T) j o')) spent <> OVal tt.
Proof.
  intros V OP NE K V'. apply verify_ok_inv in V as (L & dom & coms & ocoms & VI & VO & B).
  apply verify_ok_inv in V' as (L' & dom' & coms' & ocoms' & VI' & VO' & B'). cbn [t_in t_out] in *.
  rewrite VI in VI'. injection VI' as <- <-.
  destruct (verify_inputs_ok _ _ _ OP 0%nat) as (dom2 & coms2 & VI2 & D & _). rewrite VI in VI2. injection VI2 as <- <-.
  destruct (verify_outputs_nth _ _ _ _ VO') as [_ N']. destruct (N' j o' (nth_set_eq _ _ _ o' NE)) as (c' & Vc' & _). cbn [Nat.add] in Vc'.
  destruct (verify_outputs_replace dom _ _ j o o' _ _ c' VO VO' NE eq_refl Vc') as (c & Vc & E & E').
  rewrite E in B. rewrite E' in B'. rewrite map_app in B, B'. cbn [map] in B, B'.
  apply (K dom c c' (dom_opened _ _ D) Vc Vc'). exact (balance_mid _ _ _ _ _ B B').
Qed.

(* value / asset comparison *)
Lemma value_eqb_conf c c' : value_eqb (VConf c) (VConf c') = false -> ~ geq c c'.
Proof. cbn. apply geqb_false. Qed.
Lemma asset_eqb_conf g g' : asset_eqb (AConf g) (AConf g') = false -> ~ geq g g'.
Proof. cbn. apply geqb_false. Qed.
Lemma gH_inj a a' : geq (gH a) (gH a') -> a = a'.
Proof. intro G. pose proof (G (kH a)) as H. rewrite !coeff_H, N.eqb_refl, kH_inj in H. destruct (N.eqb_spec a a'); [assumption|discriminate]. Qed.

(* ---- per-output facts: which modifications of an accepted output cannot be accepted *)
Section OneOutput.
  Variables (dom : list gel) (k : nat) (o : txout) (c : gel).
  Hypothesis V : verify_output dom k o = OVal c.

  (* another value commitment under the same range proof *)
  Lemma reject_value_commit comm comm' c' : o_value o = VConf comm -> ~ geq comm comm' ->
    verify_output dom k (set_value (VConf comm') o) = OVal c' -> False.
  Proof.
    intros OV NE V'. destruct (verify_output_inv _ _ _ _ V) as (_ & RP & _). destruct (verify_output_inv _ _ _ _ V') as (_ & RP' & _).
    destruct (RP comm OV) as (gen & rp & GA & R & RV). destruct (RP' comm' eq_refl) as (gen' & rp' & GA' & R' & RV').
    cbn [set_value o_rp o_script] in *. unfold get_asset_gen in GA'. cbn [set_value o_asset] in GA'. fold (get_asset_gen o) in GA'.
    rewrite GA in GA'. injection GA' as <-. rewrite R in R'. injection R' as <-.
    destruct (rp_verify_sound _ _ _ _ RV) as (_ & _ & _ & _ & C & _). destruct (rp_verify_sound _ _ _ _ RV') as (_ & _ & _ & _ & C' & _).
    apply NE. now rewrite C, C'.
  Qed.
  (* another generator under the same surjection proof *)
  Lemma reject_asset_commit g g' c' : o_asset o = AConf g -> ~ geq g g' ->
    verify_output dom k (set_asset (AConf g') o) = OVal c' -> False.
  Proof.
    intros OA NE V'. destruct (verify_output_inv _ _ _ _ V) as (_ & _ & SP). destruct (verify_output_inv _ _ _ _ V') as (_ & _ & SP').
    destruct (SP g OA) as (sp & S & SV). destruct (SP' g' eq_refl) as (sp' & S' & SV'). cbn [set_asset o_sp] in S'. rewrite S in S'. injection S' as <-.
    destruct (sp_verify_sound _ _ _ SV) as (_ & _ & _ & _ & G & _). destruct (sp_verify_sound _ _ _ SV') as (_ & _ & _ & _ & G' & _).
    apply NE. now rewrite G, G'.
  Qed.
  (* another explicit asset under a range proof *)
  Lemma reject_asset_explicit_conf a a' comm c' : o_asset o = AExp a -> a <> a' -> o_value o = VConf comm ->
    verify_output dom k (set_asset (AExp a') o) = OVal c' -> False.
  Proof.
    intros OA NE OV V'. destruct (verify_output_inv _ _ _ _ V) as (_ & RP & _). destruct (verify_output_inv _ _ _ _ V') as (_ & RP' & _).
    destruct (RP comm OV) as (gen & rp & GA & R & RV). destruct (RP' comm OV) as (gen' & rp' & GA' & R' & RV').
    cbn [set_asset o_rp o_script] in *. unfold get_asset_gen in GA, GA'. cbn [set_asset o_asset] in GA'. rewrite OA in GA.
    injection GA as <-. injection GA' as <-. rewrite R in R'. injection R' as <-.
    destruct (rp_verify_sound _ _ _ _ RV) as (_ & _ & _ & _ & _ & G). destruct (rp_verify_sound _ _ _ _ RV') as (_ & _ & _ & _ & _ & G').
    apply NE, gH_inj. now rewrite G, G'.
  Qed.
  Lemma reject_remove_rp comm c' : o_value o = VConf comm -> verify_output dom k (set_rp None o) = OVal c' -> False.
  Proof.
    intros OV V'. destruct (verify_output_inv _ _ _ _ V') as (_ & RP' & _). destruct (RP' comm OV) as (? & ? & _ & R & _). discriminate R.
  Qed.
  Lemma reject_corrupt_rp comm c' : o_value o = VConf comm ->
    verify_output dom k (set_rp (option_map corrupt_rp (o_rp o)) o) = OVal c' -> False.
  Proof.
    intros OV V'. destruct (verify_output_inv _ _ _ _ V') as (_ & RP' & _). destruct (RP' comm OV) as (? & rp' & _ & R & RV).
    cbn [set_rp o_rp] in R. destruct (o_rp o) as [rp|]; [|discriminate]. injection R as <-.
    destruct (rp_verify_sound _ _ _ _ RV) as (_ & _ & _ & I & _). discriminate I.
  Qed.
  Lemma reject_remove_sp g c' : o_asset o = AConf g -> verify_output dom k (set_sp None o) = OVal c' -> False.
  Proof.
    intros OA V'. destruct (verify_output_inv _ _ _ _ V') as (_ & _ & SP'). destruct (SP' g OA) as (? & S & _). discriminate S.
  Qed.
  Lemma reject_corrupt_sp g c' : o_asset o = AConf g ->
    verify_output dom k (set_sp (option_map corrupt_sp (o_sp o)) o) = OVal c' -> False.
  Proof.
    intros OA V'. destruct (verify_output_inv _ _ _ _ V') as (_ & _ & SP'). destruct (SP' g OA) as (sp' & S & SV).
    cbn [set_sp o_sp] in S. destruct (o_sp o) as [sp|]; [|discriminate]. injection S as <-.
    destruct (sp_verify_sound _ _ _ SV) as (_ & _ & _ & I & _). discriminate I.
  Qed.
  Lemma reject_script comm s c' : o_value o = VConf comm -> o_script o <> s -> verify_output dom k (set_script s o) = OVal c' -> False.
  Proof.
    intros OV NE V'. destruct (verify_output_inv _ _ _ _ V) as (_ & RP & _). destruct (verify_output_inv _ _ _ _ V') as (_ & RP' & _).
    destruct (RP comm OV) as (gen & rp & GA & R & RV). destruct (RP' comm OV) as (gen' & rp' & GA' & R' & RV').
    cbn [set_script o_rp o_script] in *. rewrite R in R'. injection R' as <-.
    destruct (rp_verify_sound _ _ _ _ RV) as (_ & _ & S & _). destruct (rp_verify_sound _ _ _ _ RV') as (_ & _ & S' & _). congruence.
  Qed.
  (* a range proof made for another statement *)
  Lemma reject_swap_rp k2 (y : txout) cy c' : verify_output dom k2 y = OVal cy ->
    value_is_conf (o_value o) = true -> value_is_conf (o_value y) = true -> asset_kind_eq (o_asset o) (o_asset y) = true ->
    rp_statement_eqb o y = false -> verify_output dom k (set_rp (o_rp y) o) = OVal c' -> False.
  Proof.
    intros Vy CX CY AK ST V'. destruct (o_value o) as [| |cx] eqn:OV; try discriminate. destruct (o_value y) as [| |cy0] eqn:OVy; try discriminate.
    destruct (verify_output_inv _ _ _ _ Vy) as (_ & RPy & _). destruct (verify_output_inv _ _ _ _ V') as (_ & RP' & _).
    destruct (RPy cy0 OVy) as (gy & rpy & GAy & Ry & RVy). cbn [set_rp o_value o_rp o_script] in RP'. destruct (RP' cx OV) as (gx & rp' & GAx & R' & RVx).
    unfold get_asset_gen in GAx. cbn [set_rp o_asset] in GAx. rewrite Ry in R'. injection R' as <-.
    destruct (rp_verify_sound _ _ _ _ RVy) as (_ & _ & Sy & _ & Cy & Gy). destruct (rp_verify_sound _ _ _ _ RVx) as (_ & _ & Sx & _ & Cx & Gx).
    unfold rp_statement_eqb in ST. rewrite OV, OVy in ST. cbn [value_eqb] in ST.
    assert (E1 : geqb cx cy0 = true) by (apply geqb_spec; now rewrite Cx, Cy). rewrite E1 in ST.
    assert (E2 : bytes_eqb (o_script o) (o_script y) = true) by (rewrite Sx, Sy; apply bytes_eqb_refl). rewrite E2 in ST. cbn [andb] in ST.
    unfold get_asset_gen in GAy. destruct (o_asset o) as [|a|g] eqn:OA, (o_asset y) as [|a'|g'] eqn:OAy; try discriminate.
    - injection GAx as <-. injection GAy as <-. cbn in ST. assert (a = a') by (apply gH_inj; now rewrite Gx, Gy). subst. rewrite N.eqb_refl in ST. discriminate.
    - injection GAx as <-. injection GAy as <-. cbn in ST. assert (E3 : geqb g g' = true) by (apply geqb_spec; now rewrite Gx, Gy). congruence.
  Qed.
  Lemma reject_swap_sp k2 (y : txout) cy c' g gy : verify_output dom k2 y = OVal cy -> o_asset o = AConf g -> o_asset y = AConf gy ->
    ~ geq g gy -> verify_output dom k (set_sp (o_sp y) o) = OVal c' -> False.
  Proof.
    intros Vy OA OAy NE V'. destruct (verify_output_inv _ _ _ _ Vy) as (_ & _ & SPy). destruct (verify_output_inv _ _ _ _ V') as (_ & _ & SP').
    destruct (SPy gy OAy) as (spy & Sy & SVy). destruct (SP' g OA) as (sp' & S' & SV'). cbn [set_sp o_sp] in S'. rewrite Sy in S'. injection S' as <-.
    destruct (sp_verify_sound _ _ _ SVy) as (_ & _ & _ & _ & Gy & _). destruct (sp_verify_sound _ _ _ SV') as (_ & _ & _ & _ & G' & _).
    apply NE. now rewrite G', Gy.
  Qed.
  (* balance-type changes: the commitment of the output moves by a non-zero group element *)
  Lemma reject_explicit_amount v v' c' : Forall opened_gen dom -> o_value o = VExp v -> 0 <= v < qn -> 0 <= v' < qn -> v <> v' ->
    verify_output dom k (set_value (VExp v') o) = OVal c' -> ~ geq c c'.
  Proof.
    intros D OV R R' NE V' E. destruct (verify_output_inv _ _ _ _ V) as (GV & _). destruct (verify_output_inv _ _ _ _ V') as (GV' & _).
    unfold get_value_commit in GV, GV'. cbn [set_value o_value o_script] in GV'. rewrite OV in GV.
    destruct (v =? 0); [destruct (is_provably_unspendable (o_script o)); discriminate|].
    destruct (v' =? 0); [destruct (is_provably_unspendable (o_script o)); discriminate|].
    unfold get_asset_gen in GV'. cbn [set_value o_asset] in GV'. fold (get_asset_gen o) in GV'.
    destruct (get_asset_gen o) as [g| |] eqn:GA; cbn [obind] in *; try discriminate.
    destruct (out_gen_opened _ _ _ _ D V g GA) as (a & abf & G).
    unfold pedersen_unblinded in GV, GV'. destruct (geqb (commit v g 0) gzero); [discriminate|]. destruct (geqb (commit v' g 0) gzero); [discriminate|].
    injection GV as <-. injection GV' as <-. specialize (E (kH a)). rewrite !coeff_commit, G, coeff_asset_gen_H, N.eqb_refl, kH_not_G in E.
    unfold zadd, zmul in E. rewrite !Z.mul_1_r, !Z.add_0_r, !zn_idem, !Z.mod_small in E by lia. contradiction.
  Qed.
  Lemma reject_explicit_asset a a' v c' : o_asset o = AExp a -> o_value o = VExp v -> 0 <= v < qn -> a <> a' ->
    verify_output dom k (set_asset (AExp a') o) = OVal c' -> ~ geq c c'.
  Proof.
    intros OA OV R NE V' E. destruct (verify_output_inv _ _ _ _ V) as (GV & _). destruct (verify_output_inv _ _ _ _ V') as (GV' & _).
    unfold get_value_commit in GV, GV'. cbn [set_asset o_value o_script] in GV'. rewrite OV in GV, GV'.
    destruct (Z.eqb_spec v 0) as [Z0|NZ]; [destruct (is_provably_unspendable (o_script o)); discriminate|].
    unfold get_asset_gen in GV, GV'. cbn [set_asset o_asset] in GV'. rewrite OA in GV. cbn [obind] in *.
    unfold pedersen_unblinded in GV, GV'. destruct (geqb (commit v (gH a) 0) gzero); [discriminate|]. destruct (geqb (commit v (gH a') 0) gzero); [discriminate|].
    injection GV as <-. injection GV' as <-. specialize (E (kH a)). rewrite !coeff_commit, !coeff_H, N.eqb_refl, kH_inj, kH_not_G in E.
    destruct (N.eqb_spec a a'); [contradiction|]. unfold zadd, zmul in E. rewrite Z.mul_1_r, Z.mul_0_r, !Z.add_0_r, !zn_idem, Z.mod_small in E by lia.
    rewrite Zmod_0_l in E. lia.
  Qed.
End OneOutput.

(* ---- the same two balance facts for one ITERATION (an explicit zero amount on an unspendable script is skipped and contributes nothing) *)
Lemma explicit_commit_nonzero dom k o v c : Forall opened_gen dom -> o_value o = VExp v -> 0 <= v < qn ->
  verify_output dom k o = OVal c -> ~ geq gzero c.
Proof.
  intros D OV R V E. destruct (verify_output_inv _ _ _ _ V) as (GV & _). unfold get_value_commit in GV. rewrite OV in GV.
  destruct (Z.eqb_spec v 0) as [Z0|NZ]; [destruct (is_provably_unspendable (o_script o)); discriminate|].
  destruct (get_asset_gen o) as [g| |] eqn:GA; cbn [obind] in GV; try discriminate.
  destruct (out_gen_opened _ _ _ _ D V g GA) as (a & abf & G). unfold pedersen_unblinded in GV. destruct (geqb (commit v g 0) gzero); [discriminate|].
  injection GV as <-. specialize (E (kH a)). rewrite coeff_zero, coeff_commit, G, coeff_asset_gen_H, N.eqb_refl, kH_not_G in E.
  unfold zadd, zmul in E. rewrite Z.mul_1_r, Z.add_0_r, zn_idem, Z.mod_small in E by lia. lia.
Qed.
Lemma step_explicit_amount dom k o v v' oc oc' : Forall opened_gen dom -> o_value o = VExp v -> 0 <= v < qn -> 0 <= v' < qn -> v <> v' ->
  verify_output_step dom k o = OVal oc -> verify_output_step dom k (set_value (VExp v') o) = OVal oc' -> ~ geq (oc2g oc) (oc2g oc').
Proof.
  intros D OV R R' NE S S'.
  destruct (step_inv _ _ _ _ S) as [[SK ->]|(SK & c & -> & V)], (step_inv _ _ _ _ S') as [[SK' ->]|(SK' & c' & -> & V')]; cbn [oc2g].
  - apply skipped_spec in SK as [E _]. apply skipped_spec in SK' as [E' _]. cbn in E'. congruence.
  - apply (explicit_commit_nonzero dom k (set_value (VExp v') o) v' c' D); [reflexivity|exact R'|exact V'].
  - intro E. apply (explicit_commit_nonzero dom k o v c D OV R V). now symmetry.
  - exact (reject_explicit_amount dom k o c V v v' c' D OV R R' NE V').
Qed.

(* ---- the input loop, split at one position *)
Lemma verify_inputs_index : forall ins sp k k' r, verify_inputs ins sp k = OVal r -> verify_inputs ins sp k' = OVal r.
Proof.
  induction ins as [|i ins IH]; intros [|u sp] k k' r; cbn [verify_inputs]; try (intro H; exact H).
  destruct (get_asset_gen u) as [g| |]; cbn [map_err obind]; try discriminate.
  destruct (get_value_commit u) as [c| |]; cbn [map_err obind]; try discriminate.
  destruct (issuance_commits i) as [[idom icom]| |]; cbn [obind]; try discriminate.
  destruct (verify_inputs ins sp (S k)) as [[d2 c2]| |] eqn:R; cbn [obind]; try discriminate.
  rewrite (IH _ _ (S k') _ R). cbn [obind]. intro H; exact H.
Qed.
Lemma verify_inputs_split : forall ins1 sp1 inp ins2 u sp2 k dom coms, length ins1 = length sp1 ->
  verify_inputs (ins1 ++ inp :: ins2) (sp1 ++ u :: sp2) k = OVal (dom, coms) ->
  exists d1 c1 g c idom icom d2 c2,
    verify_inputs ins1 sp1 0 = OVal (d1, c1) /\ get_asset_gen u = OVal g /\ get_value_commit u = OVal c
    /\ issuance_commits inp = OVal (idom, icom) /\ verify_inputs ins2 sp2 0 = OVal (d2, c2)
    /\ dom = d1 ++ g :: idom ++ d2 /\ coms = c1 ++ c :: icom ++ c2.
Proof.
  induction ins1 as [|i1 ins1 IH]; intros [|u1 sp1] inp ins2 u sp2 k dom coms L; cbn in L; try discriminate; cbn [app verify_inputs].
  - destruct (get_asset_gen u) as [g| |]; cbn [map_err obind]; try discriminate.
    destruct (get_value_commit u) as [c| |]; cbn [map_err obind]; try discriminate.
    destruct (issuance_commits inp) as [[idom icom]| |]; cbn [obind]; try discriminate.
    destruct (verify_inputs ins2 sp2 (S k)) as [[d2 c2]| |] eqn:R; cbn [obind]; try discriminate. intros [= <- <-].
    exists [], [], g, c, idom, icom, d2, c2. repeat split. exact (verify_inputs_index _ _ _ 0%nat _ R).
  - destruct (get_asset_gen u1) as [g1| |]; cbn [map_err obind]; try discriminate.
    destruct (get_value_commit u1) as [cc1| |]; cbn [map_err obind]; try discriminate.
    destruct (issuance_commits i1) as [[idom1 icom1]| |]; cbn [obind]; try discriminate.
    destruct (verify_inputs (ins1 ++ inp :: ins2) (sp1 ++ u :: sp2) (S k)) as [[dd cc]| |] eqn:R; cbn [obind]; try discriminate. intros [= <- <-].
    destruct (IH sp1 inp ins2 u sp2 (S k) dd cc ltac:(lia) R) as (d1 & c1 & g & c & idom & icom & d2 & c2 & V1 & GA & GV & IC & V2 & -> & ->).
    exists (g1 :: idom1 ++ d1), (cc1 :: icom1 ++ c1), g, c, idom, icom, d2, c2.
    rewrite (verify_inputs_index _ _ _ 1%nat _ V1). cbn [obind]. repeat split; try assumption; cbn [app]; now rewrite <- !app_assoc.
Qed.
Lemma split_at {A} (l : list A) i x : nth_error l i = Some x -> l = firstn i l ++ x :: skipn (S i) l /\ length (firstn i l) = i.
Proof. intro NE. destruct (set_nth_split l i x x NE) as (E & _ & L). auto. Qed.
Lemma upd_split {A} (l : list A) i x f : nth_error l i = Some x -> upd l i f = firstn i l ++ f x :: skipn (S i) l.
Proof. intro NE. rewrite (upd_some _ _ _ _ NE). now destruct (set_nth_split l i x (f x) NE) as (_ & E & _). Qed.

(* the whole accepted transaction, with input position i singled out *)
Lemma accepted_at_input T spent i inp u :
  verify_tx_amt_proofs T spent = OVal tt -> nth_error (t_in T) i = Some inp -> nth_error spent i = Some u ->
  exists d1 c1 g c idom icom d2 c2 cs,
    verify_inputs (firstn i (t_in T)) (firstn i spent) 0 = OVal (d1, c1) /\ get_asset_gen u = OVal g /\ get_value_commit u = OVal c
    /\ issuance_commits inp = OVal (idom, icom) /\ verify_inputs (skipn (S i) (t_in T)) (skipn (S i) spent) 0 = OVal (d2, c2)
    /\ verify_outputs (d1 ++ g :: idom ++ d2) (t_out T) 0 = OVal cs /\ geq (gsum (map oc2g cs)) (gsum (c1 ++ c :: icom ++ c2)).
Proof.
  intros V NI NS. apply verify_ok_inv in V as (L & dom & coms & ocoms & VI & VO & B).
  destruct (split_at _ _ _ NI) as (EI & LI). destruct (split_at _ _ _ NS) as (ES & LS). rewrite EI, ES in VI.
  apply verify_inputs_split in VI; [|lia]. destruct VI as (d1 & c1 & g & c & idom & icom & d2 & c2 & V1 & GA & GV & IC & V2 & -> & ->).
  exists d1, c1, g, c, idom, icom, d2, c2, ocoms. repeat split; try assumption. now symmetry.
Qed.

Lemma upd_parts {A} (l : list A) i x f : nth_error l i = Some x ->
  nth_error (upd l i f) i = Some (f x) /\ firstn i (upd l i f) = firstn i l /\ skipn (S i) (upd l i f) = skipn (S i) l
  /\ length (upd l i f) = length l.
Proof.
  intro NE. rewrite (upd_some _ _ _ _ NE). split; [eapply nth_set_eq, NE|]. split; [|split; [|apply set_nth_length]].
  - clear NE. revert i. induction l as [|a l IH]; intros [|i]; cbn; auto. now rewrite IH.
  - clear NE. revert i. induction l as [|a l IH]; intros [|i]; cbn [set_nth skipn]; auto. apply IH.
Qed.
Lemma get_asset_gen_set_value v u : get_asset_gen (set_value v u) = get_asset_gen u. Proof. reflexivity. Qed.

Section InputTampers.
  Variables (T : tx) (spent : list txout) (ss : list secrets).
  Hypothesis V : verify_tx_amt_proofs T spent = OVal tt.
  Hypothesis OP : opens (t_in T) spent ss.

  Lemma opens_nth : forall ins sp l, opens ins sp l -> forall i inp u, nth_error ins i = Some inp -> nth_error sp i = Some u ->
    iss_ok inp /\ exists s, asset_opened u s /\ value_opened u s.
  Proof.
    induction 1 as [|inp0 u0 s0 ins sp l A Vo I O IH]; intros [|i] inp u NI NS; cbn in *; try discriminate.
    - injection NI as <-. injection NS as <-. split; [assumption|now exists s0]. - now apply (IH i).
  Qed.

  (* a different amount / value commitment on a spent output *)
  Lemma reject_spent_value i u v' : nth_error spent i = Some u -> value_kind_eq (o_value u) v' = true -> value_u64 v' = true ->
    value_eqb (o_value u) v' = false -> verify_tx_amt_proofs T (upd spent i (set_value v')) <> OVal tt.
  Proof.
    intros NS KD U64 NE V'.
    assert (L : length spent = length (t_in T)) by (apply verify_ok_inv in V; tauto).
    destruct (nth_error (t_in T) i) as [inp|] eqn:NI; [|apply nth_error_None in NI; assert (i < length spent)%nat by (apply nth_error_Some; congruence); lia].
    destruct (upd_parts spent i u (set_value v') NS) as (NS' & F' & S' & _).
    destruct (accepted_at_input _ _ i inp u V NI NS) as (d1 & c1 & g & c & idom & icom & d2 & c2 & cs & V1 & GA & GV & IC & V2 & VO & B).
    destruct (accepted_at_input _ _ i inp _ V' NI NS') as (d1' & c1' & g' & c' & idom' & icom' & d2' & c2' & cs' & V1' & GA' & GV' & IC' & V2' & VO' & B').
    rewrite F' in V1'. rewrite S' in V2'. rewrite V1 in V1'. rewrite V2 in V2'. rewrite IC in IC'. rewrite get_asset_gen_set_value, GA in GA'.
    injection V1' as <- <-. injection V2' as <- <-. injection IC' as <- <-. injection GA' as <-.
    rewrite VO in VO'. injection VO' as <-.
    pose proof (balance_mid _ _ _ _ _ B B') as E.
    destruct (opens_nth _ _ _ OP i inp u NI NS) as (_ & s & AO & _). destruct (get_asset_gen_opened u s AO) as (g0 & GA0 & G0). rewrite GA in GA0. injection GA0 as <-. unfold sgen in G0.
    unfold get_value_commit in GV, GV'. cbn [set_value o_value o_script] in GV'.
    destruct (o_value u) as [|v|comm] eqn:OV, v' as [|w|comm']; try discriminate.
    - cbn in NE, U64. unfold u64b in U64. apply andb_true_iff in U64 as [U1 U2]. apply Z.leb_le in U1. apply Z.ltb_lt in U2.
      destruct (Z.eqb_spec v 0) as [Z0|NZ]; [destruct (is_provably_unspendable (o_script u)); discriminate|].
      destruct (Z.eqb_spec w 0) as [Z0'|NZ']; [destruct (is_provably_unspendable (o_script u)); discriminate|].
      unfold get_asset_gen in GV'. cbn [set_value o_asset] in GV'. fold (get_asset_gen u) in GV'. rewrite GA in GV, GV'. cbn [obind] in *.
      unfold pedersen_unblinded in GV, GV'. destruct (geqb (commit v g 0) gzero); [discriminate|]. destruct (geqb (commit w g 0) gzero); [discriminate|].
      injection GV as <-. injection GV' as <-.
      destruct (opens_nth _ _ _ OP i inp u NI NS) as (_ & s2 & _ & VO2). destruct VO2 as [(E2 & _ & R2)|(? & E2 & _)]; [|congruence].
      rewrite OV in E2. injection E2 as ->.
      specialize (E (kH (s_asset s))). rewrite !coeff_commit, G0, coeff_asset_gen_H, N.eqb_refl, kH_not_G in E.
      pose proof qn_big. unfold zadd, zmul in E. rewrite !Z.mul_1_r, !Z.add_0_r, !zn_idem, !Z.mod_small in E by lia.
      apply Z.eqb_neq in NE. congruence.
    - injection GV as <-. injection GV' as <-. apply value_eqb_conf in NE. contradiction.
  Qed.

  (* a different asset / asset commitment on a spent output *)
  Lemma reject_spent_asset i u a' : nth_error spent i = Some u -> asset_kind_eq (o_asset u) a' = true ->
    has_conf_asset_output T || (value_is_explicit (o_value u) && asset_is_explicit (o_asset u)) = true ->
    asset_eqb (o_asset u) a' = false -> verify_tx_amt_proofs T (upd spent i (set_asset a')) <> OVal tt.
  Proof.
    intros NS KD AP NE V'.
    assert (L : length spent = length (t_in T)) by (apply verify_ok_inv in V; tauto).
    destruct (nth_error (t_in T) i) as [inp|] eqn:NI; [|apply nth_error_None in NI; assert (i < length spent)%nat by (apply nth_error_Some; congruence); lia].
    destruct (upd_parts spent i u (set_asset a') NS) as (NS' & F' & S' & _).
    destruct (accepted_at_input _ _ i inp u V NI NS) as (d1 & c1 & g & c & idom & icom & d2 & c2 & cs & V1 & GA & GV & IC & V2 & VO & B).
    destruct (accepted_at_input _ _ i inp _ V' NI NS') as (d1' & c1' & g' & c' & idom' & icom' & d2' & c2' & cs' & V1' & GA' & GV' & IC' & V2' & VO' & B').
    rewrite F' in V1'. rewrite S' in V2'. rewrite V1 in V1'. rewrite V2 in V2'. rewrite IC in IC'.
    injection V1' as <- <-. injection V2' as <- <-. injection IC' as <- <-.
    assert (NG : ~ geq g g').
    { unfold get_asset_gen in GA, GA'. cbn [set_asset o_asset] in GA'. destruct (o_asset u) as [|a|g0], a' as [|a2|g2]; try discriminate.
      - injection GA as <-. injection GA' as <-. cbn in NE. intro E. apply gH_inj in E. subst. rewrite N.eqb_refl in NE. discriminate.
      - injection GA as <-. injection GA' as <-. now apply asset_eqb_conf. }
    apply orb_true_iff in AP as [HC|EX].
    - (* some output carries a surjection proof: it is bound to the old domain *)
      unfold has_conf_asset_output in HC. apply existsb_exists in HC as (o & I & OA). apply andb_true_iff in OA as [LV OA].
      unfold live in LV. apply negb_true_iff in LV. destruct (o_asset o) as [| |go] eqn:OAo; try discriminate.
      apply In_nth_error in I as (j & NJ).
      destruct (verify_outputs_nth _ _ _ _ VO) as [_ N]. destruct (verify_outputs_nth _ _ _ _ VO') as [_ N'].
      destruct (N j o NJ) as (co0 & Vo0 & _). destruct (N' j o NJ) as (co0' & Vo0' & _).
      destruct (step_inv _ _ _ _ Vo0) as [[S1 _]|(_ & co & _ & Vo)]; [congruence|].
      destruct (step_inv _ _ _ _ Vo0') as [[S2 _]|(_ & co' & _ & Vo')]; [congruence|].
      destruct (verify_output_inv _ _ _ _ Vo) as (_ & _ & SP). destruct (verify_output_inv _ _ _ _ Vo') as (_ & _ & SP').
      destruct (SP go OAo) as (sp & S & SV). destruct (SP' go OAo) as (sp' & S2 & SV'). rewrite S in S2. injection S2 as <-.
      destruct (sp_verify_sound _ _ _ SV) as (_ & _ & _ & _ & _ & D). destruct (sp_verify_sound _ _ _ SV') as (_ & _ & _ & _ & _ & D').
      apply NG. exact (Forall2_geq_mid _ _ _ _ _ _ eq_refl (Forall2_geq_trans_sym _ _ _ D D')).
    - (* explicit amount under an explicit asset: the input commitment moves to another asset *)
      apply andb_true_iff in EX as [EV EA].
      rewrite (verify_outputs_commits _ _ _ _ _ _ _ VO' VO) in B'.
      pose proof (balance_mid _ _ _ _ _ B B') as E.
      unfold get_value_commit in GV, GV'. cbn [set_asset o_value o_script] in GV'.
      destruct (o_value u) as [|v|] eqn:OV; try discriminate. destruct (o_asset u) as [|a|] eqn:OA; try discriminate. destruct a' as [|a2|]; try discriminate.
      destruct (Z.eqb_spec v 0) as [Z0|NZ]; [destruct (is_provably_unspendable (o_script u)); discriminate|].
      unfold get_asset_gen in GV, GV'. cbn [set_asset o_asset] in GV'. rewrite OA in GV. cbn [obind] in *.
      unfold pedersen_unblinded in GV, GV'. destruct (geqb (commit v (gH a) 0) gzero); [discriminate|]. destruct (geqb (commit v (gH a2) 0) gzero); [discriminate|].
      injection GV as <-. injection GV' as <-. cbn in NE.
      destruct (opens_nth _ _ _ OP i inp u NI NS) as (_ & s2 & _ & VO2). destruct VO2 as [(E2 & _ & R2)|(? & E2 & _)]; [|congruence].
      rewrite OV in E2. injection E2 as ->.
      specialize (E (kH a)). rewrite !coeff_commit, !coeff_H, N.eqb_refl, kH_inj, kH_not_G, NE in E.
      unfold zadd, zmul in E. rewrite Z.mul_1_r, Z.mul_0_r, !Z.add_0_r, !zn_idem, Z.mod_small, Zmod_0_l in E by lia. lia.
  Qed.
End InputTampers.

(* ---- issuance pseudo-inputs *)
Definition ipd (id : N) (v : cvalue) : list gel := match v with VExp _ => [gH id] | _ => [] end.
Definition ipc (id : N) (v : cvalue) : list gel := match v with VExp x => [commit x (gH id) 0] | _ => [] end.
Lemma issuance_commits_shape i : iss_ok i ->
  issuance_commits i = OVal (ipd (is_asset (in_iss i)) (is_amount (in_iss i)) ++ ipd (is_token (in_iss i)) (is_keys (in_iss i)),
                             ipc (is_asset (in_iss i)) (is_amount (in_iss i)) ++ ipc (is_token (in_iss i)) (is_keys (in_iss i))).
Proof.
  intros [A K]. unfold issuance_commits, has_issuance.
  destruct A as [EA|(x & EA & X)], K as [EK|(y & EK & Y)]; rewrite EA, EK; cbn [value_is_null andb negb fold_left fst snd obind app ipd ipc];
    rewrite ?(nz_eqb _ X), ?(nz_eqb _ Y); cbn [fold_left fst snd obind app];
    rewrite ?pedersen_unblinded_H by assumption; cbn [obind app]; rewrite ?(nz_eqb _ Y); rewrite ?pedersen_unblinded_H by assumption; reflexivity.
Qed.
Lemma pedersen_unblinded_zero {E} g : @pedersen_unblinded E 0 g = OPanic PPedersenInfinity.
Proof.
  unfold pedersen_unblinded. replace (geqb (commit 0 g 0) gzero) with true; [reflexivity|]. symmetry. apply geqb_spec. intro k.
  rewrite coeff_commit, coeff_zero. unfold zadd, zmul. destruct (N.eqb k kG); reflexivity.
Qed.
Lemma issuance_commits_zero i w : iss_field w i = VExp 0 -> amount_ok (is_amount (in_iss i)) \/ is_amount (in_iss i) = VExp 0 ->
  forall r, issuance_commits i <> OVal r.
Proof.
  (* since 3c38a91 an explicit zero amount is the error IssuanceTransactionInput (before: the library's assertion) *)
  intros F A r. unfold issuance_commits, has_issuance. destruct w; cbn [iss_field] in F.
  - rewrite F. cbn [value_is_null andb negb fold_left fst snd obind Z.eqb].
    destruct (is_keys (in_iss i)) as [|y|c]; cbn [fold_left fst snd obind]; try discriminate; try (destruct (y =? 0); discriminate).
  - rewrite F. destruct A as [[EA|(x & EA & X)]|EA]; rewrite EA; cbn [value_is_null andb negb fold_left fst snd obind Z.eqb];
      rewrite ?(nz_eqb _ X); cbn [fold_left fst snd obind]; rewrite ?pedersen_unblinded_H by assumption; cbn [obind Z.eqb]; discriminate.
Qed.

Section IssuanceTamper.
  Variables (T : tx) (spent : list txout) (ss : list secrets).
  Hypothesis V : verify_tx_amt_proofs T spent = OVal tt.
  Hypothesis OP : opens (t_in T) spent ss.

  Lemma reject_issuance i inp w x : nth_error (t_in T) i = Some inp -> value_is_explicit (iss_field w inp) = true ->
    u64b x = true -> value_eqb (iss_field w inp) (VExp x) = false ->
    verify_tx_amt_proofs (mkTx (upd (t_in T) i (set_iss w (VExp x))) (t_out T)) spent <> OVal tt.
  Proof.
    intros NI EX U NE V'.
    assert (L : length spent = length (t_in T)) by (apply verify_ok_inv in V; tauto).
    destruct (nth_error spent i) as [u|] eqn:NS; [|apply nth_error_None in NS; assert (i < length (t_in T))%nat by (apply nth_error_Some; congruence); lia].
    destruct (upd_parts (t_in T) i inp (set_iss w (VExp x)) NI) as (NI' & F' & S' & _).
    destruct (accepted_at_input _ _ i inp u V NI NS) as (d1 & c1 & g & c & idom & icom & d2 & c2 & cs & V1 & GA & GV & IC & V2 & VO & B).
    destruct (accepted_at_input _ _ i _ u V' NI' NS) as (d1' & c1' & g' & c' & idom' & icom' & d2' & c2' & cs' & V1' & GA' & GV' & IC' & V2' & VO' & B').
    cbn [t_in t_out] in *. rewrite F' in V1'. rewrite S' in V2'. rewrite V1 in V1'. rewrite V2 in V2'. rewrite GA in GA'. rewrite GV in GV'.
    injection V1' as <- <-. injection V2' as <- <-. injection GA' as <-. injection GV' as <-.
    destruct (opens_nth _ _ _ OP i inp u NI NS) as ([AK KK] & _).
    unfold u64b in U. apply andb_true_iff in U as [U1 U2]. apply Z.leb_le in U1. apply Z.ltb_lt in U2. pose proof qn_big as QB.
    destruct (Z.eq_dec x 0) as [->|NZ].
    { refine (issuance_commits_zero _ w _ _ _ IC'). - destruct w; reflexivity.
      - destruct w; cbn [set_iss in_iss is_amount]; [now right|now left]. }
    assert (XR : 0 < x < qn) by lia.
    assert (OK' : iss_ok (set_iss w (VExp x) inp)).
    { destruct w; cbn; split; try assumption; right; exists x; auto. }
    rewrite (issuance_commits_shape _ (conj AK KK)) in IC. rewrite (issuance_commits_shape _ OK') in IC'.
    injection IC as <- <-. injection IC' as <- <-.
    destruct w; cbn [iss_field set_iss in_iss is_amount is_keys is_asset is_token] in *.
    - destruct (is_amount (in_iss inp)) as [|v|] eqn:EA; try discriminate. cbn [ipd ipc app] in *.
      rewrite VO in VO'. injection VO' as <-.
      assert (E : geq (commit v (gH (is_asset (in_iss inp))) 0) (commit x (gH (is_asset (in_iss inp))) 0)).
      { apply (balance_mid (gsum (map oc2g cs)) (c1 ++ [c]) _ _ (ipc (is_token (in_iss inp)) (is_keys (in_iss inp)) ++ c2)).
        - rewrite <- app_assoc. exact B. - rewrite <- app_assoc. exact B'. }
      destruct AK as [?|(v0 & E0 & R0)]; [discriminate|]. injection E0 as <-.
      specialize (E (kH (is_asset (in_iss inp)))). rewrite !coeff_commit, !coeff_H, N.eqb_refl, kH_not_G in E.
      unfold zadd, zmul in E. rewrite !Z.mul_1_r, !Z.add_0_r, !zn_idem, !Z.mod_small in E by lia. cbn in NE. apply Z.eqb_neq in NE. contradiction.
    - destruct (is_keys (in_iss inp)) as [|v|] eqn:EK; try discriminate. cbn [ipd ipc app] in *.
      rewrite VO in VO'. injection VO' as <-.
      assert (E : geq (commit v (gH (is_token (in_iss inp))) 0) (commit x (gH (is_token (in_iss inp))) 0)).
      { apply (balance_mid (gsum (map oc2g cs)) (c1 ++ c :: ipc (is_asset (in_iss inp)) (is_amount (in_iss inp))) _ _ c2).
        - rewrite <- app_assoc. cbn [app]. rewrite <- app_assoc in B. exact B. - rewrite <- app_assoc. cbn [app]. rewrite <- app_assoc in B'. exact B'. }
      destruct KK as [?|(v0 & E0 & R0)]; [discriminate|]. injection E0 as <-.
      specialize (E (kH (is_token (in_iss inp)))). rewrite !coeff_commit, !coeff_H, N.eqb_refl, kH_not_G in E.
      unfold zadd, zmul in E. rewrite !Z.mul_1_r, !Z.add_0_r, !zn_idem, !Z.mod_small in E by lia. cbn in NE. apply Z.eqb_neq in NE. contradiction.
  Qed.
End IssuanceTamper.

(* ================================================================== the theorem *)
Lemma out_reject_gen T spent outs' j o' :
  verify_tx_amt_proofs T spent = OVal tt -> nth_error outs' j = Some o' ->
  (forall dom, (forall i oi, nth_error (t_out T) i = Some oi -> exists ci, verify_output_step dom i oi = OVal ci) ->
               forall c', verify_output_step dom j o' = OVal c' -> False) ->
  verify_tx_amt_proofs (mkTx (t_in T) outs') spent <> OVal tt.
Proof.
  intros V NE' K V'. apply verify_ok_inv in V as (L & dom & coms & ocoms & VI & VO & B).
  apply verify_ok_inv in V' as (L' & dom' & coms' & ocoms' & VI' & VO' & B'). cbn [t_in t_out] in *.
  rewrite VI in VI'. injection VI' as <- <-.
  destruct (verify_outputs_nth _ _ _ _ VO) as [_ N]. destruct (verify_outputs_nth _ _ _ _ VO') as [_ N'].
  destruct (N' j o' NE') as (c' & Vc' & _). apply (K dom) with (c' := c'); [|exact Vc'].
  intros i oi NI. destruct (N i oi NI) as (ci & Vi & _). now exists ci.
Qed.
Lemma out_at_inv T j f : out_at T j f = true -> exists o, nth_error (t_out T) j = Some o /\ f o = true.
Proof. unfold out_at. destruct (nth_error (t_out T) j) as [o|]; [|discriminate]. intro H. now exists o. Qed.
Lemma out2_at_inv T j k f : out2_at T j k f = true ->
  j <> k /\ exists x y, nth_error (t_out T) j = Some x /\ nth_error (t_out T) k = Some y /\ f x y = true.
Proof.
  unfold out2_at. rewrite andb_true_iff. intros [NE H]. split; [apply Nat.eqb_neq; now destruct (Nat.eqb j k)|].
  destruct (nth_error (t_out T) j) as [x|]; [|discriminate]. destruct (nth_error (t_out T) k) as [y|]; [|discriminate]. now exists x, y.
Qed.

Theorem tamper_rejected T spent ss t :
  verify_tx_amt_proofs T spent = OVal tt -> opens (t_in T) spent ss ->
  Forall (fun o => forall v, o_value o = VExp v -> 0 <= v < qn) (t_out T) ->
  applicable t (T, spent) = true -> changes t (T, spent) = true ->
  verify_tx_amt_proofs (fst (apply t (T, spent))) (snd (apply t (T, spent))) <> OVal tt.
Proof.
  intros V OP U64 AP CH. pose proof qn_big as QB.
  assert (UO : forall j o v, nth_error (t_out T) j = Some o -> o_value o = VExp v -> 0 <= v < qn).
  { intros j o v NE. rewrite Forall_forall in U64. apply U64. eapply nth_error_In, NE. }
  destruct t as [j v|j a|j k|j k|j|j k|j|j|j k|j|j s|i w v|i v|i a]; cbn [apply applicable changes fst snd] in *.
  - (* TOutValue *)
    apply andb_true_iff in AP as [AP U]. apply out_at_inv in AP as (o & NE & KD). apply out_at_inv in CH as (o2 & NE2 & CH). rewrite NE in NE2. injection NE2 as <-.
    rewrite (upd_some _ _ _ _ NE). destruct (o_value o) as [|v0|comm] eqn:OV, v as [|w|comm']; try discriminate.
    + cbn in CH, U. unfold u64b in U. apply andb_true_iff in U as [U1 U2]. apply Z.leb_le in U1. apply Z.ltb_lt in U2.
      apply (out_reject_balance T spent ss j o _ V OP NE). intros dom c c' D Vc Vc'.
      apply (step_explicit_amount dom j o v0 w c c' D OV (UO _ _ _ NE OV)); [lia| |exact Vc|exact Vc']. apply negb_true_iff, Z.eqb_neq in CH. exact CH.
    + apply (out_reject T spent _ j o _ V NE (nth_set_eq _ _ _ _ NE) (skipped_conf o comm OV) (skipped_conf (set_value (VConf comm') o) comm' eq_refl)). intros dom c c' Vc Vc'.
      apply (reject_value_commit dom j o c Vc comm comm' c' OV); [|exact Vc']. apply value_eqb_conf. now apply negb_true_iff.
  - (* TOutAsset *)
    apply out_at_inv in AP as (o & NE & KD). apply out_at_inv in CH as (o2 & NE2 & CH). rewrite NE in NE2. injection NE2 as <-.
    apply andb_true_iff in KD as [LV KD]. unfold live in LV. apply negb_true_iff in LV.
    assert (LV' : forall a', skipped (set_asset a' o) = false) by (intro a'; rewrite (skipped_same o (set_asset a' o) eq_refl eq_refl); exact LV).
    rewrite (upd_some _ _ _ _ NE). apply negb_true_iff in CH. destruct (o_asset o) as [|a0|g] eqn:OA, a as [|a1|g']; try discriminate.
    + cbn in CH. apply N.eqb_neq in CH. destruct (o_value o) as [|v0|comm] eqn:OV.
      * apply (out_reject T spent _ j o _ V NE (nth_set_eq _ _ _ _ NE) LV (LV' _)). intros dom c c' Vc _.
        destruct (verify_output_inv _ _ _ _ Vc) as (GV & _). unfold get_value_commit in GV. rewrite OV in GV. discriminate.
      * apply (out_reject_balance T spent ss j o _ V OP NE). intros dom c c' D Sc Sc'.
        destruct (step_inv _ _ _ _ Sc) as [[S1 _]|(_ & c1 & -> & Vc)]; [congruence|].
        destruct (step_inv _ _ _ _ Sc') as [[S2 _]|(_ & c2 & -> & Vc')]; [rewrite LV' in S2; discriminate|]. cbn [oc2g].
        exact (reject_explicit_asset dom j o c1 Vc a0 a1 v0 c2 OA OV (UO _ _ _ NE OV) CH Vc').
      * apply (out_reject T spent _ j o _ V NE (nth_set_eq _ _ _ _ NE) LV (LV' _)). intros dom c c' Vc Vc'.
        exact (reject_asset_explicit_conf dom j o c Vc a0 a1 comm c' OA CH OV Vc').
    + apply (out_reject T spent _ j o _ V NE (nth_set_eq _ _ _ _ NE) LV (LV' _)). intros dom c c' Vc Vc'.
      exact (reject_asset_commit dom j o c Vc g g' c' OA (asset_eqb_conf _ _ CH) Vc').
  - (* TSwapValue *)
    apply out2_at_inv in AP as (NJK & x & y & NX & NY & KD). apply out2_at_inv in CH as (_ & x2 & y2 & NX2 & NY2 & CH).
    rewrite NX in NX2. rewrite NY in NY2. injection NX2 as <-. injection NY2 as <-.
    destruct (swap_nth (t_out T) j k (fun x y => set_value (o_value y) x) x y NJK NX NY) as [NS _].
    apply andb_true_iff in KD as [CX CY]. destruct (o_value x) as [| |cx] eqn:OVx; try discriminate. destruct (o_value y) as [| |cy] eqn:OVy; try discriminate.
    apply (out_reject T spent _ j x _ V NX NS (skipped_conf x cx OVx) (skipped_conf (set_value (VConf cy) x) cy eq_refl)). intros dom c c' Vc Vc'.
    apply (reject_value_commit dom j x c Vc cx cy c' OVx); [|exact Vc']. apply value_eqb_conf. now apply negb_true_iff.
  - (* TSwapAsset *)
    apply out2_at_inv in AP as (NJK & x & y & NX & NY & KD). apply out2_at_inv in CH as (_ & x2 & y2 & NX2 & NY2 & CH).
    rewrite NX in NX2. rewrite NY in NY2. injection NX2 as <-. injection NY2 as <-.
    destruct (swap_nth (t_out T) j k (fun x y => set_asset (o_asset y) x) x y NJK NX NY) as [NS _].
    apply andb_true_iff in KD as [LV KD]. apply andb_true_iff in LV as [LX _]. unfold live in LX. apply negb_true_iff in LX.
    destruct (o_asset x) as [| |gx] eqn:OAx; try discriminate. destruct (o_asset y) as [| |gy] eqn:OAy; try discriminate.
    apply (out_reject T spent _ j x _ V NX NS LX); [rewrite (skipped_same x (set_asset (AConf gy) x) eq_refl eq_refl); exact LX|]. intros dom c c' Vc Vc'.
    apply (reject_asset_commit dom j x c Vc gx gy c' OAx); [|exact Vc']. apply asset_eqb_conf. now apply negb_true_iff.
  - (* TRemoveRp *)
    apply out_at_inv in AP as (o & NE & KD). rewrite (upd_some _ _ _ _ NE). apply andb_true_iff in KD as [CV _].
    destruct (o_value o) as [| |comm] eqn:OV; try discriminate.
    apply (out_reject T spent _ j o _ V NE (nth_set_eq _ _ _ _ NE) (skipped_conf o comm OV) (skipped_conf (set_rp None o) comm OV)). intros dom c c' Vc Vc'. exact (reject_remove_rp dom j o comm c' OV Vc').
  - (* TSwapRp *)
    apply out2_at_inv in AP as (NJK & x & y & NX & NY & KD). apply out2_at_inv in CH as (_ & x2 & y2 & NX2 & NY2 & CH).
    rewrite NX in NX2. rewrite NY in NY2. injection NX2 as <-. injection NY2 as <-.
    destruct (swap_nth (t_out T) j k (fun x y => set_rp (o_rp y) x) x y NJK NX NY) as [NS _].
    apply andb_true_iff in KD as [KD AK]. apply andb_true_iff in KD as [CX CY]. apply negb_true_iff in CH.
    apply (out_reject_gen T spent _ j _ V NS). intros dom ACC c0' Sc'.
    destruct (ACC k y NY) as (cy0 & Sy).
    assert (SKy : skipped y = false) by (destruct (o_value y) as [| |cy1] eqn:E; try discriminate; exact (skipped_conf y cy1 E)).
    assert (SKx : skipped (set_rp (o_rp y) x) = false) by (destruct (o_value x) as [| |cx1] eqn:E; try discriminate; exact (skipped_conf (set_rp (o_rp y) x) cx1 E)).
    destruct (step_inv _ _ _ _ Sy) as [[S1 _]|(_ & cy & _ & Vy)]; [congruence|].
    destruct (step_inv _ _ _ _ Sc') as [[S2 _]|(_ & c' & _ & Vc')]; [congruence|].
    exact (reject_swap_rp dom j x k y cy c' Vy CX CY AK CH Vc').
  - (* TCorruptRp *)
    apply out_at_inv in AP as (o & NE & KD). rewrite (upd_some _ _ _ _ NE). apply andb_true_iff in KD as [CV _].
    destruct (o_value o) as [| |comm] eqn:OV; try discriminate.
    apply (out_reject T spent _ j o _ V NE (nth_set_eq _ _ _ _ NE) (skipped_conf o comm OV) (skipped_conf (set_rp _ o) comm OV)). intros dom c c' Vc Vc'. exact (reject_corrupt_rp dom j o comm c' OV Vc').
  - (* TRemoveSp *)
    apply out_at_inv in AP as (o & NE & KD). rewrite (upd_some _ _ _ _ NE). apply andb_true_iff in KD as [LV KD]. unfold live in LV. apply negb_true_iff in LV.
    destruct (o_asset o) as [| |g] eqn:OA; try discriminate.
    apply (out_reject T spent _ j o _ V NE (nth_set_eq _ _ _ _ NE) LV); [rewrite (skipped_same o (set_sp None o) eq_refl eq_refl); exact LV|].
    intros dom c c' Vc Vc'. exact (reject_remove_sp dom j o g c' OA Vc').
  - (* TSwapSp *)
    apply out2_at_inv in AP as (NJK & x & y & NX & NY & KD). apply out2_at_inv in CH as (_ & x2 & y2 & NX2 & NY2 & CH).
    rewrite NX in NX2. rewrite NY in NY2. injection NX2 as <-. injection NY2 as <-.
    destruct (swap_nth (t_out T) j k (fun x y => set_sp (o_sp y) x) x y NJK NX NY) as [NS _].
    apply andb_true_iff in KD as [LV KD]. apply andb_true_iff in LV as [LX LY]. unfold live in LX, LY. apply negb_true_iff in LX, LY.
    destruct (o_asset x) as [| |gx] eqn:OAx; try discriminate. destruct (o_asset y) as [| |gy] eqn:OAy; try discriminate.
    apply negb_true_iff in CH. apply (out_reject_gen T spent _ j _ V NS). intros dom ACC c0' Sc'.
    destruct (ACC k y NY) as (cy0 & Sy).
    assert (SKx : skipped (set_sp (o_sp y) x) = false) by (rewrite (skipped_same x (set_sp (o_sp y) x) eq_refl eq_refl); exact LX).
    destruct (step_inv _ _ _ _ Sy) as [[S1 _]|(_ & cy & _ & Vy)]; [congruence|].
    destruct (step_inv _ _ _ _ Sc') as [[S2 _]|(_ & c' & _ & Vc')]; [congruence|].
    exact (reject_swap_sp dom j x k y cy c' gx gy Vy OAx OAy (asset_eqb_conf _ _ CH) Vc').
  - (* TCorruptSp *)
    apply out_at_inv in AP as (o & NE & KD). rewrite (upd_some _ _ _ _ NE). apply andb_true_iff in KD as [LV KD]. unfold live in LV. apply negb_true_iff in LV.
    destruct (o_asset o) as [| |g] eqn:OA; try discriminate.
    apply (out_reject T spent _ j o _ V NE (nth_set_eq _ _ _ _ NE) LV); [rewrite (skipped_same o (set_sp _ o) eq_refl eq_refl); exact LV|].
    intros dom c c' Vc Vc'. exact (reject_corrupt_sp dom j o g c' OA Vc').
  - (* TScript *)
    apply out_at_inv in AP as (o & NE & KD). apply out_at_inv in CH as (o2 & NE2 & CH). rewrite NE in NE2. injection NE2 as <-.
    rewrite (upd_some _ _ _ _ NE). destruct (o_value o) as [| |comm] eqn:OV; try discriminate.
    apply (out_reject T spent _ j o _ V NE (nth_set_eq _ _ _ _ NE) (skipped_conf o comm OV) (skipped_conf (set_script s o) comm OV)). intros dom c c' Vc Vc'.
    apply (reject_script dom j o c Vc comm s c' OV); [|exact Vc']. apply negb_true_iff in CH. intro E. rewrite E, bytes_eqb_refl in CH. discriminate.
  - (* TIssuance *)
    destruct (nth_error (t_in T) i) as [inp|] eqn:NI; [|discriminate]. apply andb_true_iff in AP as [AP U]. apply andb_true_iff in AP as [EX EV].
    destruct v as [|x|]; try discriminate. apply negb_true_iff in CH. cbn [value_u64] in U.
    exact (reject_issuance T spent ss V OP i inp w x NI EX U CH).
  - (* TSpentValue *)
    destruct (nth_error spent i) as [u|] eqn:NS; [|discriminate]. apply andb_true_iff in AP as [KD U]. apply negb_true_iff in CH.
    exact (reject_spent_value T spent ss V OP i u v NS KD U CH).
  - (* TSpentAsset *)
    destruct (nth_error spent i) as [u|] eqn:NS; [|discriminate]. apply andb_true_iff in AP as [KD AP]. apply negb_true_iff in CH.
    exact (reject_spent_asset T spent ss V OP i u a NS KD AP CH).
Qed.

(* a checkable form of the amount-range hypothesis *)
Definition explicit_amounts_in_range (outs : list txout) : bool :=
  forallb (fun o => match o_value o with VExp v => (0 <=? v) && (v <? qn) | _ => true end) outs.
Lemma explicit_amounts_in_range_ok outs : explicit_amounts_in_range outs = true ->
  Forall (fun o => forall v, o_value o = VExp v -> 0 <= v < qn) outs.
Proof.
  unfold explicit_amounts_in_range. rewrite forallb_forall, Forall_forall. intros H o I v E. specialize (H o I). rewrite E in H.
  apply andb_true_iff in H as [A B]. apply Z.leb_le in A. apply Z.ltb_lt in B. lia.
Qed.
