From Coq Require Import List NArith ZArith Lia Bool ZifyN ZifyBool ZifyNat.
From Coq.Strings Require Import Byte.
From EV Require Import Base.Bytes Base.Codec Model.Tx Model.Block Model.FastMerkle Model.Sizes Model.Ids Proofs.Flags Proofs.Tx Proofs.Block Proofs.Sizes.
Import ListNotations.
Ltac Zify.zify_post_hook ::= Z.div_mod_to_equations.
Open Scope N_scope.
Set Default Timeout 30.

Lemma bytes_eq_dec (a b : bytes) : {a = b} + {a <> b}.
Proof. destruct (bytes_eqb_spec a b); [left|right]; assumption. Qed.

Section IDS.
Variable H : bytes -> bytes.
Variable cmp : bytes -> bytes -> bytes.
Variable pt_ok : bytes -> bool.
Variables maxvec cap_txin cap_txout cap_vecu8 cap_tx : N.
Notation TX := (c_tx pt_ok maxvec cap_txin cap_txout cap_vecu8).
Notation HD := (c_header maxvec cap_vecu8).
Definition Collision : Prop := exists a b : bytes, a <> b /\ H a = H b.

Lemma H_inj_or a b : H a = H b -> a = b \/ Collision.
Proof. intros E. destruct (bytes_eq_dec a b) as [->|N]; [now left|right]. now exists a, b. Qed.

(* ---------- C02: transactions ---------- *)
Lemma strip_tx_idem t : strip_tx (strip_tx t) = strip_tx t.
Proof. unfold strip_tx. cbn [tx_in tx_out tx_version tx_lock]. rewrite !map_map. f_equal; apply map_ext; reflexivity. Qed.
Lemma enc_nowitness t : has_witness t = false ->
  enc TX t = enc c_u32 (tx_version t) ++ [x00] ++ enc (c_vec (c_txin_nowit pt_ok maxvec) cap_txin) (map strip_in (tx_in t))
             ++ enc (c_vec (c_txout_nowit pt_ok maxvec) cap_txout) (map strip_out (tx_out t)) ++ enc c_u32 (tx_lock t).
Proof. intros HW. cbn [c_tx c_conv enc]. unfold wire_of_tx. rewrite HW. cbn [c_tx_wire c_dep enc].
  unfold c_tx_wits, head_flag. cbn [fst snd N.eqb]. cbn [c_conv enc c_unit]. rewrite app_nil_r.
  cbn [c_tx_head c_pair enc c_u8]. rewrite <- ?app_assoc. reflexivity. Qed.
Theorem txid_is_stripped t : txid_preimage pt_ok maxvec cap_txin cap_txout t = enc TX (strip_tx t).
Proof. rewrite (enc_nowitness (strip_tx t) (has_witness_strip t)). unfold txid_preimage, strip_tx. cbn [tx_in tx_out tx_version tx_lock].
  rewrite !map_map. reflexivity. Qed.
Theorem witness_irrelevant t t' : strip_tx t = strip_tx t' -> txid H pt_ok maxvec cap_txin cap_txout t = txid H pt_ok maxvec cap_txin cap_txout t'.
Proof. intros E. unfold txid. now rewrite !txid_is_stripped, E. Qed.
Theorem nonwitness_commits t t' : wf TX t = true -> wf TX t' = true ->
  txid H pt_ok maxvec cap_txin cap_txout t = txid H pt_ok maxvec cap_txin cap_txout t' -> strip_tx t = strip_tx t' \/ Collision.
Proof. intros W W' E. unfold txid in E. rewrite !txid_is_stripped in E. destruct (H_inj_or _ _ E) as [E'|C]; [left|now right].
  apply (enc_inj TX (c_tx_lawful pt_ok maxvec cap_txin cap_txout cap_vecu8)); auto using wf_strip. Qed.
Lemma no_witness_strip_id t : has_witness t = false -> strip_tx t = t.
Proof. intros HW. rewrite has_witness_alt in HW. apply negb_false_iff in HW. apply andb_true_iff in HW as [H1 H2]. rewrite forallb_map in H1. rewrite forallb_map in H2.
  destruct t as [v l i o]. unfold strip_tx. cbn [tx_in tx_out tx_version tx_lock] in *. now rewrite map_strip_in_id, map_strip_out_id. Qed.
Theorem wtxid_eq_txid t : wf TX t = true ->
  (has_witness t = false -> wtxid H pt_ok maxvec cap_txin cap_txout cap_vecu8 t = txid H pt_ok maxvec cap_txin cap_txout t) /\
  (wtxid H pt_ok maxvec cap_txin cap_txout cap_vecu8 t = txid H pt_ok maxvec cap_txin cap_txout t -> has_witness t = false \/ Collision).
Proof. intros W. unfold wtxid, txid. rewrite txid_is_stripped. split.
  - intros HW. now rewrite (no_witness_strip_id t HW).
  - intros E. destruct (H_inj_or _ _ E) as [E'|C]; [left|now right].
    apply (enc_inj TX (c_tx_lawful pt_ok maxvec cap_txin cap_txout cap_vecu8)) in E'; auto using wf_strip. rewrite E'. apply has_witness_strip. Qed.

(* ---------- C02: block headers ---------- *)
Lemma clear_witness_idem h : clear_witness (clear_witness h) = clear_witness h.
Proof. destruct h as [v p m t ht [c s|c pr w]]; reflexivity. Qed.
Lemma preimage_clear h : block_hash_preimage maxvec cap_vecu8 (clear_witness h) = block_hash_preimage maxvec cap_vecu8 h.
Proof. destruct h as [v p m t ht [c s|c pr w]]; reflexivity. Qed.
Lemma is_dyna_wire h : h_version h < Block.bit31 -> wire_is_dyna (wire_version h) = ext_is_dynafed (h_ext h).
Proof. intros Hv. unfold wire_version, wire_is_dyna, Block.bit31 in *. destruct (ext_is_dynafed (h_ext h)).
  - rewrite lor31 by exact Hv. rewrite shiftr31 by (change (2^32) with 4294967296; lia). apply N.leb_le. lia.
  - rewrite shiftr31 by (change (2^32) with 4294967296; lia). apply N.leb_gt. exact Hv. Qed.
(* the header serialization with the solution / signblock witness emptied is the hash pre-image followed by the one byte of an
   empty script / empty stack *)
Theorem header_enc_clear h : h_version h < Block.bit31 -> enc HD (clear_witness h) = block_hash_preimage maxvec cap_vecu8 h ++ [x00].
Proof. intros Hv. pose proof (is_dyna_wire (clear_witness h)) as D.
  destruct h as [v p m t ht [c s|c pr w]]; unfold block_hash_preimage, clear_witness in *; cbn [h_version h_prev h_merkle h_time h_height h_ext] in *;
  cbn [c_header c_conv enc]; unfold wire_of_header; cbn [h_version h_prev h_merkle h_time h_height h_ext];
  cbn [c_header_wire c_dep enc fst]; rewrite (D Hv); cbn [ext_is_dynafed]; cbn [c_header_head c_pair enc c_hash32 c_fixed c_ext_proof c_ext_dynafed c_conv];
  rewrite <- ?app_assoc; reflexivity. Qed.
Theorem block_hash_clear h : block_hash H maxvec cap_vecu8 (clear_witness h) = block_hash H maxvec cap_vecu8 h.
Proof. unfold block_hash. now rewrite preimage_clear. Qed.
Lemma wf_clear h : wf HD h = true -> wf HD (clear_witness h) = true.
Proof. intros W. pose proof W as W0. cbn [c_header c_conv wf] in W. apply andb_true_iff in W as [Wv Ww]. pose proof Wv as Wv'. apply N.ltb_lt in Wv'.
  pose proof (is_dyna_wire h Wv') as D. pose proof (is_dyna_wire (clear_witness h)) as D'.
  destruct h as [v p m t ht [c s|c pr w]]; unfold clear_witness in *; cbn [h_version h_prev h_merkle h_time h_height h_ext] in *;
  cbn [c_header c_conv wf]; cbn [h_version]; rewrite Wv; cbn [andb]; unfold wire_of_header in *; cbn [h_version h_prev h_merkle h_time h_height h_ext] in *;
  cbn [c_header_wire c_dep wf fst snd] in *; rewrite (D' Wv'); rewrite D in Ww; cbn [ext_is_dynafed] in *;
  apply andb_true_iff in Ww as [Wh We]; unfold wire_version in *; cbn [h_ext h_version ext_is_dynafed] in *; rewrite Wh; cbn [andb].
  - cbn [c_ext_proof c_conv wf c_pair] in *. apply andb_true_iff in We as [_ We]. apply andb_true_iff in We as [Wc _]. rewrite Wc. cbn [andb c_script c_varbytes wf length N.of_nat]. destruct maxvec; reflexivity.
  - cbn [c_ext_dynafed c_conv wf c_pair] in *. apply andb_true_iff in We as [_ We]. apply andb_true_iff in We as [Wc We]. apply andb_true_iff in We as [Wp _]. rewrite Wc, Wp.
    cbn [andb c_stack c_vec wf length N.of_nat forallb]. destruct cap_vecu8; reflexivity. Qed.
Theorem block_hash_commits h h' : wf HD h = true -> wf HD h' = true ->
  block_hash H maxvec cap_vecu8 h = block_hash H maxvec cap_vecu8 h' -> clear_witness h = clear_witness h' \/ Collision.
Proof. intros W W' E. unfold block_hash in E. destruct (H_inj_or _ _ E) as [E'|C]; [left|now right].
  assert (V : h_version h < Block.bit31). { cbn [c_header c_conv wf] in W. apply andb_true_iff in W as [W _]. now apply N.ltb_lt in W. }
  assert (V' : h_version h' < Block.bit31). { cbn [c_header c_conv wf] in W'. apply andb_true_iff in W' as [W' _]. now apply N.ltb_lt in W'. }
  apply (enc_inj HD (c_header_lawful pt_ok maxvec cap_vecu8)); auto using wf_clear. now rewrite !header_enc_clear, E' by assumption. Qed.
(* the dynafed marker: the first field of the pre-image is the version with bit 31 set exactly for dynafed headers *)
Theorem preimage_version h : exists rest, block_hash_preimage maxvec cap_vecu8 h =
  enc c_u32 (if ext_is_dynafed (h_ext h) then N.lor (h_version h) 2147483648 else h_version h) ++ rest.
Proof. unfold block_hash_preimage, wire_version, Block.bit31. eexists. reflexivity. Qed.
(* ---------- C19: dynafed roots ---------- *)
Notation fmr := (fmr_ctr zero32 cmp).
Lemma fmr2 a b : fmr [a; b] = cmp a b. Proof. reflexivity. Qed.
Lemma fmr3 a b c : fmr [a; b; c] = cmp (cmp a b) c. Proof. reflexivity. Qed.
Notation ROOT := (params_calculate_root H cmp maxvec cap_vecu8).
Notation FROOT := (full_calculate_root H cmp maxvec cap_vecu8).
Notation EXTRA := (full_extra_root H cmp maxvec cap_vecu8).
Theorem compaction_preserves_root f : ROOT (full_into_compact H cmp maxvec cap_vecu8 f) = ROOT (PFull f).
Proof. reflexivity. Qed.
Theorem into_compact_root p c : params_into_compact H cmp maxvec cap_vecu8 p = Some c -> ROOT c = ROOT p.
Proof. destruct p as [|s l e|f]; cbn [params_into_compact]; intros E; inversion E; subst; reflexivity. Qed.
Theorem full_root_agrees f : FROOT f = ROOT (PFull f).
Proof. reflexivity. Qed.
Theorem root_layout_full f : ROOT (PFull f) =
  cmp (cmp (H (enc (c_script maxvec) (fp_sbs f))) (H (enc c_u32 (fp_limit f))))
      (cmp (cmp (H (enc (c_script maxvec) (fp_program f))) (H (enc (c_script maxvec) (fp_script f)))) (H (enc (c_stack maxvec cap_vecu8) (fp_ext f)))).
Proof. reflexivity. Qed.
Theorem root_layout_compact s l e : ROOT (PCompact s l e) = cmp (cmp (H (enc (c_script maxvec) s)) (H (enc c_u32 l))) e.
Proof. reflexivity. Qed.
Theorem root_null : ROOT PNull = zero32. Proof. reflexivity. Qed.
Theorem compact_keeps_signblock f : full_into_compact H cmp maxvec cap_vecu8 f = PCompact (fp_sbs f) (fp_limit f) (EXTRA f).
Proof. reflexivity. Qed.
Theorem header_root h c p w : h_ext h = EDynafed c p w -> header_dynafed_root H cmp maxvec cap_vecu8 h = Some (cmp (ROOT c) (ROOT p)).
Proof. intros E. unfold header_dynafed_root. now rewrite E. Qed.
Theorem header_root_none h c s : h_ext h = EProof c s -> header_dynafed_root H cmp maxvec cap_vecu8 h = None.
Proof. intros E. unfold header_dynafed_root. now rewrite E. Qed.

(* ---------- C11: issuance ids ---------- *)
Notation IDS := (txin_issuance_ids H cmp).
Notation PIDS := (psetin_issuance_ids H cmp).
Definition ids_of_entropy (e : bytes) (conf : bool) : bytes * bytes := (asset_from_entropy cmp e, token_from_entropy cmp e conf).
Theorem ids_formula i : IDS i =
  ids_of_entropy (if bytes_eqb (i_nonce (in_iss i)) zero32 then cmp (H (enc c_outpoint (in_prev i))) (i_entropy (in_iss i)) else i_entropy (in_iss i))
                 (value_is_confidential (i_amount (in_iss i))).
Proof. reflexivity. Qed.
Theorem asset_token_formula e conf : ids_of_entropy e conf = (cmp e zero32, cmp e (if conf then two32 else one32)).
Proof. reflexivity. Qed.

Lemma amount_conf_view i : has_issuance i = true ->
  match pi_amount_comm (psetin_from_txin i) with Some _ => true | None => false end = value_is_confidential (i_amount (in_iss i)).
Proof. intros HI. unfold psetin_from_txin. cbn [pi_amount_comm]. rewrite HI. destruct (i_amount (in_iss i)); reflexivity. Qed.
Lemma psetin_issuance_back i : txin_wfB i = true -> psetin_asset_issuance (psetin_from_txin i) = in_iss i.
Proof. intros W. unfold txin_wfB in W. apply andb_true_iff in W as [W _]. apply andb_true_iff in W as [_ Wd].
  unfold psetin_from_txin, psetin_asset_issuance. cbn [pi_nonce pi_entropy pi_amount pi_amount_comm pi_keys pi_keys_comm].
  destruct (has_issuance i) eqn:HI.
  - cbn [opt_default]. destruct (in_iss i) as [n e a k]. cbn [i_nonce i_entropy i_amount i_keys]. destruct a, k; reflexivity.
  - cbn [orb] in Wd. apply issuance_default_eq in Wd. rewrite Wd. reflexivity. Qed.
(* the PSET input built from a transaction input carries the outpoint index WITH the pegin / issuance flag bits ... *)
Theorem pset_view_index i : pi_index (psetin_from_txin i) = wire_vout i. Proof. reflexivity. Qed.
(* ... which pset::Input::issuance_ids strips again before hashing the outpoint *)
Lemma plain_index_back i : txin_wfB i = true ->
  (if wire_vout i =? u32max then wire_vout i else N.land (wire_vout i) 1073741823) = o_vout (in_prev i).
Proof. intros W. destruct i as [[t v] pg s q iss w]. unfold wire_vout. cbn [in_prev o_txid o_vout in_pegin] in *. set (hi := has_issuance _) in *.
  unfold txin_wfB in W. cbn [in_prev o_vout in_pegin in_iss in_wit] in W. fold hi in W. apply andb_true_iff in W as [W _]. apply andb_true_iff in W as [Wv _].
  apply orb_true_iff in Wv as [Wv|Wv].
  - apply andb_true_iff in Wv as [Wlt Wnt]. apply N.ltb_lt in Wlt. fold B30 in Wlt.
    assert (Hn : ~ (v = MASK /\ pg = true /\ hi = true)). { intros (E1 & E2 & E3). subst v pg. rewrite E3 in Wnt. cbn in Wnt. discriminate. }
    destruct (join_read v pg hi Wlt Hn) as (Hne & _ & _ & _ & Hm). unfold join, B30, B31 in *. fold bit30 Tx.bit31 in *.
    destruct (N.eqb_spec (N.lor (N.lor v (if pg then bit30 else 0)) (if hi then Tx.bit31 else 0)) u32max) as [E|_]; [exfalso; apply Hne; exact E|].
    change 1073741823 with MASK. exact Hm.
  - apply andb_true_iff in Wv as [Wv Wni]. apply andb_true_iff in Wv as [Wv Wnp]. apply N.eqb_eq in Wv. subst v.
    destruct pg; [discriminate|]. destruct hi; [discriminate|]. rewrite !N.lor_0_r. reflexivity. Qed.
Theorem three_views_pset i : txin_wfB i = true -> PIDS (psetin_from_txin i) = IDS i.
Proof. intros W. pose proof (psetin_issuance_back i W) as B. unfold psetin_issuance_ids, txin_issuance_ids.
  assert (En : opt_default zero32 (pi_nonce (psetin_from_txin i)) = i_nonce (in_iss i)) by (rewrite <- B; reflexivity).
  assert (Ee : opt_default zero32 (pi_entropy (psetin_from_txin i)) = i_entropy (in_iss i)) by (rewrite <- B; reflexivity).
  rewrite En, Ee. rewrite pset_view_index, (plain_index_back i W).
  assert (Ec : match pi_amount_comm (psetin_from_txin i) with Some _ => true | None => false end = value_is_confidential (i_amount (in_iss i))).
  { destruct (has_issuance i) eqn:HI; [now apply amount_conf_view|]. unfold psetin_from_txin. cbn [pi_amount_comm]. rewrite HI.
    unfold has_issuance in HI. apply negb_false_iff in HI. unfold issuance_is_null in HI. apply andb_true_iff in HI as [Ha _]. destruct (i_amount (in_iss i)); try discriminate. reflexivity. }
  rewrite Ec. change (pi_txid (psetin_from_txin i)) with (o_txid (in_prev i)). destruct (in_prev i); reflexivity. Qed.
(* third view: the input of the extracted transaction yields the ids of the original input, for every canonical input *)
Lemma extract_prev i : txin_wfB i = true -> in_prev (psetin_extract (psetin_from_txin i)) = in_prev i.
Proof. intros W. unfold psetin_extract. cbn [in_prev]. rewrite pset_view_index, (plain_index_back i W).
  change (pi_txid (psetin_from_txin i)) with (o_txid (in_prev i)). destruct (in_prev i); reflexivity. Qed.
Theorem three_views_extract i : txin_wfB i = true -> IDS (psetin_extract (psetin_from_txin i)) = IDS i.
Proof. intros W. unfold txin_issuance_ids. rewrite (extract_prev i W).
  change (in_iss (psetin_extract (psetin_from_txin i))) with (psetin_asset_issuance (psetin_from_txin i)).
  now rewrite (psetin_issuance_back i W). Qed.
End IDS.
