(* Lawfulness of the bitcoin::Transaction codec (Model/BtcTx.v): exact, canonical outputs, complete. *)
From Coq Require Import List Arith NArith ZArith Lia Bool ZifyN ZifyBool ZifyNat.
From Coq.Strings Require Import Byte.
From EV Require Import Base.Bytes Base.Codec Model.BtcTx.
Import ListNotations.
Open Scope N_scope.
Set Default Timeout 60.

Lemma c_btcin_lawful : Lawful c_btcin.
Proof. apply c_conv_lawful.
  - repeat apply c_pair_lawful; try apply c_le_lawful; [apply c_fixed_lawful|apply c_varbytes_lawful].
  - intros [[t v] [s q]] b _ H. inversion H; subst. auto.
  - intros [t v s q] _ _. reflexivity. Qed.
Lemma c_btcout_lawful : Lawful c_btcout.
Proof. apply c_conv_lawful.
  - apply c_pair_lawful; [apply c_le_lawful|apply c_varbytes_lawful].
  - intros [v s] b _ H. inversion H; subst. auto.
  - intros [v s] _ _. reflexivity. Qed.

Lemma all_empty_map {A} (l : list A) : all_empty (map (fun _ => []) l) = true.
Proof. induction l; cbn; auto. Qed.
Lemma all_empty_eq (ws : list (list bytes)) {A} (l : list A) : all_empty ws = true -> length ws = length l -> ws = map (fun _ => []) l.
Proof. revert l. induction ws as [|w ws IH]; intros [|x l] E L; try discriminate; [reflexivity|]. cbn in *. destruct w; [|discriminate]. f_equal. apply IH; auto. Qed.

Section BTC.
Variable maxvec : N.
Lemma c_witness_lawful : Lawful (c_witness maxvec).
Proof. apply c_guard_lawful, c_vec_lawful, c_varbytes_lawful. Qed.
Lemma c_legacy_body_lawful : Lawful c_legacy_body.
Proof. apply c_conv_lawful.
  - apply c_pair_lawful; [apply c_vec_lawful, c_btcout_lawful|apply c_le_lawful].
  - intros [o l] b _ H. inversion H; subst. auto.
  - intros [i [o [w l]]] H _. cbn [fst snd] in *. destruct i; [|discriminate]. destruct w; [|discriminate]. reflexivity. Qed.
Lemma c_segwit_inner_lawful : Lawful (c_dep (c_vec c_btcin nocap) (fun ins => c_pair (c_vec c_btcout nocap) (c_pair (c_vecn (c_witness maxvec) (length ins)) c_u32))).
Proof. apply c_dep_lawful; [apply c_vec_lawful, c_btcin_lawful|]. intros ins. apply c_pair_lawful; [apply c_vec_lawful, c_btcout_lawful|].
  apply c_pair_lawful; [apply c_vecn_lawful, c_witness_lawful|apply c_le_lawful]. Qed.
Lemma c_segwit_body_lawful : Lawful (c_segwit_body maxvec).
Proof. apply c_conv_lawful.
  - apply c_pair_lawful; apply c_guard_lawful; [apply c_u8_lawful|apply c_segwit_inner_lawful].
  - intros [f b] b' W H. inversion H; subst. split; [|reflexivity]. cbn [wf c_pair c_guard] in W.
    apply andb_true_iff in W as [W _]. apply andb_true_iff in W as [_ W]. apply N.eqb_eq in W. now subst.
  - intros b _ _. reflexivity. Qed.
Lemma c_btc_wire_lawful : Lawful (c_btc_wire maxvec).
Proof. apply c_dep_lawful; [apply c_pair_lawful; [apply c_le_lawful|apply c_vec_lawful, c_btcin_lawful]|].
  intros [v ins]. cbn [snd]. destruct ins; [apply c_segwit_body_lawful|apply c_legacy_body_lawful]. Qed.

Theorem c_btctx_lawful : Lawful (c_btctx maxvec).
Proof. apply c_conv_lawful; [apply c_btc_wire_lawful| |].
  - intros [[v ins0] [ins1 [outs [wits lock]]]] t W H. cbn [tx_of_wire] in H. cbn [c_btc_wire c_dep wf snd] in W. apply andb_true_iff in W as [_ W].
    destruct ins0 as [|i0 r0]; inversion H; subst; clear H; unfold wire_of_tx, uses_segwit; cbn [bt_wit bt_in bt_version bt_out bt_lock].
    + cbn [c_segwit_body c_conv wf] in W. apply andb_true_iff in W as [_ W]. cbn [c_pair c_guard wf snd] in W.
      apply andb_true_iff in W as [_ W]. apply andb_true_iff in W as [W G]. cbn [fst snd] in G.
      cbn [c_dep wf c_pair c_vecn] in W. apply andb_true_iff in W as [_ W]. apply andb_true_iff in W as [_ W]. apply andb_true_iff in W as [W _].
      apply andb_true_iff in W as [L _]. split; [|exact L].
      destruct ins1; [now rewrite orb_true_r|]. now rewrite G.
    + cbn [c_legacy_body c_conv wf fst snd] in W. apply andb_true_iff in W as [W _]. destruct ins1; [|discriminate]. destruct wits; [|discriminate].
      pose proof (all_empty_map (i0 :: r0)) as E. cbn [map] in E |- *. rewrite E. cbn [negb orb]. split; [reflexivity|]. cbn [length]. rewrite map_length. apply Nat.eqb_refl.
  - intros [v ins outs wits lock] L _. unfold wire_of_tx, uses_segwit. cbn [bt_wit bt_in bt_version bt_out bt_lock] in *.
    destruct (all_empty wits) eqn:E; cbn [negb orb]; [|reflexivity]. destruct ins as [|i r]; [reflexivity|]. cbn [tx_of_wire].
    apply Nat.eqb_eq in L. now rewrite <- (all_empty_eq wits (i :: r) E L). Qed.
End BTC.
