(* Proofs for Model/Serde.v: de_T hr (view hr (ser_T hr x)) = Ok x for both views. *)
From Coq Require Import List NArith ZArith Bool Lia ZifyN ZifyBool ZifyNat.
From Coq.Strings Require Import Byte.
From EV Require Import Base.Bytes Base.Codec Gen.Tables Model.Tx Model.Block Model.Text Model.Serde Proofs.Text.
Import ListNotations.
Ltac Zify.zify_post_hook ::= Z.div_mod_to_equations.
Open Scope N_scope.

(* ---------- the two views agree on everything but byte strings and enum variants ---------- *)
Lemma view_unit hr : view hr VUnit = VUnit. Proof. now destruct hr. Qed.
Lemma view_none hr : view hr VNone = VUnit. Proof. now destruct hr. Qed.
Lemma view_some hr v : view hr (VSome v) = view hr v. Proof. now destruct hr. Qed.
Lemma view_bool hr b : view hr (VBool b) = VBool b. Proof. now destruct hr. Qed.
Lemma view_u64 hr n : view hr (VU64 n) = VU64 n. Proof. now destruct hr. Qed.
Lemma view_str hr s : view hr (VStr s) = VStr s. Proof. now destruct hr. Qed.
Lemma view_seq hr l : view hr (VSeq l) = VSeq (map (view hr) l). Proof. now destruct hr. Qed.
Lemma view_tuple hr l : view hr (VTuple l) = VSeq (map (view hr) l). Proof. now destruct hr. Qed.
Lemma view_struct hr n fs : view hr (VStruct n fs) = VMap (map (fun kv => (VStr (fst kv), view hr (snd kv))) fs). Proof. now destruct hr. Qed.
Lemma view_newtype hr n v : view hr (VNewtype n v) = view hr v. Proof. now destruct hr. Qed.
Lemma view_byte_nums hr b : map (view hr) (byte_nums b) = byte_nums b.
Proof. unfold byte_nums. rewrite map_map. apply map_ext. intros x. apply view_u64. Qed.
Ltac views := rewrite ?view_struct, ?view_seq, ?view_tuple, ?view_newtype, ?view_some, ?view_none, ?view_unit, ?view_bool, ?view_u64, ?view_str, ?view_byte_nums.

(* ---------- primitives ---------- *)
Lemma de_u_ok bound n : n < bound -> de_u bound (VU64 n) = Ok n.
Proof. intros H. cbn. destruct (N.ltb_spec n bound); [reflexivity|lia]. Qed.
Lemma de_u8s_ok b : de_list de_u8 (byte_nums b) = Ok b.
Proof. induction b as [|x b IH]; [reflexivity|]. cbn [byte_nums map de_list]. unfold de_u8 at 1. rewrite de_u_ok by apply b2n_lt.
  cbn [rbind]. fold (byte_nums b). rewrite IH. cbn [rbind]. now rewrite n2b_b2n. Qed.
Lemma rt_vecu8 hr b : de_vecu8 (view hr (ser_vecu8 b)) = Ok b.
Proof. unfold ser_vecu8, de_vecu8, de_vec. views. apply de_u8s_ok. Qed.
Lemma de_list_ok {A} (de : sval -> res A) (ser : A -> sval) (f : sval -> sval) (P : A -> bool) :
  (forall x, P x = true -> de (f (ser x)) = Ok x) -> forall l, forallb P l = true -> de_list de (map f (map ser l)) = Ok l.
Proof. intros H. induction l as [|x l IH]; [reflexivity|]. cbn [forallb map de_list]. intros HP. apply andb_prop in HP as [Hx Hl].
  rewrite (H x Hx). cbn [rbind]. rewrite (IH Hl). reflexivity. Qed.
Lemma forallb_true {A} (l : list A) : forallb (fun _ => true) l = true. Proof. induction l; cbn; auto. Qed.
Lemma rt_stack hr l : de_stack (view hr (ser_stack l)) = Ok l.
Proof. unfold ser_stack, de_stack, de_vec. views.
  apply (de_list_ok de_vecu8 ser_vecu8 (view hr) (fun _ => true)); [intros; apply rt_vecu8|apply forallb_true]. Qed.
Lemma rt_array hr n b : length b = n -> de_array n (view hr (ser_array b)) = Ok b.
Proof. intros L. unfold ser_array, de_array. views. unfold byte_nums at 1. rewrite map_length, L, Nat.eqb_refl. apply de_u8s_ok. Qed.
Lemma len_is_eq n b : len_is n b = true -> length b = n. Proof. apply Nat.eqb_eq. Qed.

(* ---------- hex / bytes leaves ---------- *)
Lemma hex_decode_var_ok b : hex_decode_var (hex_of_bytes b) = Ok b. Proof. apply hex_pairs_of_bytes. Qed.
Lemma rt_hash hr len r b : N.of_nat (length b) = len -> de_hash hr len r (view hr (ser_hash hr r b)) = Ok b.
Proof. intros L. destruct hr; cbn.
  - now apply parse_print_hash.
  - destruct (N.eqb_spec (N.of_nat (length b)) len); [reflexivity|contradiction]. Qed.
Lemma rt_midstate hr b : length b = 32%nat -> de_midstate hr (view hr (ser_midstate hr b)) = Ok b.
Proof. intros L. apply rt_hash. now rewrite L. Qed.
Lemma rt_script hr b : de_script (view hr (ser_script b)) = Ok b.
Proof. unfold ser_script. views. apply hex_decode_var_ok. Qed.
Lemma rt_btc_script hr b : de_btc_script hr (view hr (ser_btc_script hr b)) = Ok b.
Proof. destruct hr; cbn; [apply hex_decode_var_ok|reflexivity]. Qed.
Lemma rt_hexbytes hr b : de_hexbytes (view hr (ser_hexbytes hr b)) = Ok b.
Proof. destruct hr; cbn; [apply hex_decode_var_ok|reflexivity]. Qed.
Lemma rt_bf hr r b : length b = 32%nat -> tweak_ok b = true -> de_bf hr r (view hr (ser_bf hr r b)) = Ok b.
Proof. intros L T. destruct hr; cbn -[tweak_ok].
  - apply parse_print_bf; [now rewrite L|exact T].
  - now rewrite L, T. Qed.
Lemma rt_tweak hr b : length b = 32%nat -> tweak_ok b = true -> de_tweak hr (view hr (ser_tweak hr b)) = Ok b.
Proof. intros L T. destruct hr; cbn -[tweak_ok hex_decode_fixed].
  - rewrite hex_decode_fixed_ok by (now rewrite L). cbn [rbind]. now rewrite T.
  - now rewrite L, T. Qed.

Section PT.
Variable pt_ok : bytes -> bool.
Lemma conf_wf_len lo hi c : conf_wf pt_ok lo hi c = true -> length c = 33%nat.
Proof. unfold conf_wf. destruct c as [|b x]; [discriminate|]. intros H. apply andb_prop in H as [H _]. apply andb_prop in H as [_ H].
  apply Nat.eqb_eq in H. cbn [length]. now rewrite H. Qed.
Lemma rt_point hr lo hi c : conf_wf pt_ok lo hi c = true -> de_point pt_ok hr lo hi (view hr (ser_point hr c)) = Ok c.
Proof. intros W. pose proof (conf_wf_len _ _ _ W) as L. destruct hr; cbn -[conf_wf hex_decode_fixed].
  - rewrite hex_decode_fixed_ok by (now rewrite L). cbn [rbind]. now rewrite W.
  - now rewrite W. Qed.
Lemma rt_pubkey hr c : conf_wf pt_ok 2 3 c = true -> de_pubkey pt_ok hr (view hr (ser_pubkey hr c)) = Ok c.
Proof. intros W. pose proof (conf_wf_len _ _ _ W) as L. destruct hr; cbn -[conf_wf hex_decode_fixed de_array].
  - rewrite hex_decode_fixed_ok by (now rewrite L). cbn [rbind]. now rewrite W.
  - change (VSeq (map cbor_view (byte_nums c))) with (view false (ser_array c)). rewrite rt_array by exact L. cbn [rbind]. now rewrite W. Qed.
Lemma rt_optproof ok hr o : swf_optproof ok o = true -> de_optproof ok hr (view hr (ser_optproof hr o)) = Ok o.
Proof. destruct o as [p|]; cbn [swf_optproof ser_optproof]; intros W; views; [|reflexivity].
  unfold de_optproof, de_option. destruct hr; cbn -[hex_decode_var].
  - rewrite hex_decode_var_ok. cbn [rbind]. rewrite W. reflexivity.
  - rewrite W. reflexivity. Qed.

(* ---------- confidential ---------- *)
Lemma bswap64_lt n : bswap64 n < u64_bound.
Proof. unfold bswap64. pose proof (be_val_lt (le_enc 8 n)) as H. rewrite le_enc_length in H. exact H. Qed.
Lemma bswap64_invol n : n < u64_bound -> bswap64 (bswap64 n) = n.
Proof. intros H. unfold bswap64, be_val.
  pose proof (le_enc_val (rev (le_enc 8 n))) as E. rewrite rev_length, le_enc_length in E. rewrite E, rev_involutive.
  apply le_val_enc. exact H. Qed.

Ltac ground_eval :=
  repeat match goal with
  | |- context [is_fld ?k ?F ?i] => let b := eval vm_compute in (is_fld k F i) in change (is_fld k F i) with b
  | |- context [assoc ?k ?T] => let b := eval vm_compute in (assoc k T) in
        match b with Some _ => change (assoc k T) with b | None => change (assoc k T) with b end
  | |- context [tag_of ?k ?T] => let b := eval vm_compute in (tag_of k T) in change (tag_of k T) with b
  | |- context [variant_of ?k ?T] => let b := eval vm_compute in (variant_of k T) in change (variant_of k T) with b
  | |- context [bytes_eqb ?a ?b] => let v := eval vm_compute in (bytes_eqb a b) in
        match v with true => change (bytes_eqb a b) with true | false => change (bytes_eqb a b) with false end
  end.

Lemma rt_value hr v : swf_value pt_ok v = true -> de_value pt_ok hr (view hr (ser_value hr v)) = Ok v.
Proof. destruct v as [|n|c]; cbn [swf_value ser_value]; intros W; views; cbn [map]; views; unfold de_value, de_tagged; ground_eval.
  - rewrite de_u_ok by lia. cbn [rbind]. ground_eval. reflexivity.
  - rewrite de_u_ok by lia. cbn [rbind]. ground_eval. cbn iota.
    change value_ser_swaps with true. change value_de_swaps with true. cbn iota.
    rewrite de_u_ok by apply bswap64_lt. cbn [rbind]. rewrite bswap64_invol by lia. reflexivity.
  - rewrite de_u_ok by lia. cbn [rbind]. ground_eval. cbn iota. rewrite rt_point by exact W. reflexivity. Qed.
Lemma rt_asset hr v : swf_asset pt_ok v = true -> de_asset pt_ok hr (view hr (ser_asset hr v)) = Ok v.
Proof. destruct v as [|id|c]; cbn [swf_asset ser_asset]; intros W; views; cbn [map]; views; unfold de_asset, de_tagged; ground_eval.
  - rewrite de_u_ok by lia. cbn [rbind]. ground_eval. reflexivity.
  - rewrite de_u_ok by lia. cbn [rbind]. ground_eval. cbn iota. rewrite rt_midstate by (now apply len_is_eq). reflexivity.
  - rewrite de_u_ok by lia. cbn [rbind]. ground_eval. cbn iota. rewrite rt_point by exact W. reflexivity. Qed.
Lemma rt_nonce hr v : swf_nonce pt_ok v = true -> de_nonce pt_ok hr (view hr (ser_nonce hr v)) = Ok v.
Proof. destruct v as [|b|c]; cbn [swf_nonce ser_nonce]; intros W; views; cbn [map]; views; unfold de_nonce, de_tagged; ground_eval.
  - rewrite de_u_ok by lia. cbn [rbind]. ground_eval. reflexivity.
  - rewrite de_u_ok by lia. cbn [rbind]. ground_eval. cbn iota. rewrite rt_array by (now apply len_is_eq). reflexivity.
  - rewrite de_u_ok by lia. cbn [rbind]. ground_eval. cbn iota. rewrite rt_pubkey by exact W. reflexivity. Qed.

(* ---------- structs ---------- *)
Ltac split_wf H := repeat match type of H with (_ && _ = true) => let H2 := fresh "W" in apply andb_prop in H as [H H2] end.
Ltac struct_open := views; cbn [map fst snd]; views; unfold de_map; cbn [fold_fields].
Ltac struct_go := repeat (ground_eval; cbn iota beta; cbn [rbind need fst snd dup]).

Lemma rt_outpoint hr o : swf_outpoint o = true -> de_outpoint hr (view hr (ser_outpoint hr o)) = Ok o.
Proof. unfold swf_outpoint, u32_ok. intros W. split_wf W. apply len_is_eq in W. apply N.ltb_lt in W0.
  unfold ser_outpoint, de_outpoint. destruct hr.
  - views. apply parse_print_outpoint; assumption.
  - struct_open. struct_go. unfold de_txid, ser_txid. change cbor_view with (view false).
    rewrite rt_hash by (change hashlen_Txid with 32; now rewrite W). struct_go. rewrite de_u_ok by exact W0. struct_go. now destruct o. Qed.
Lemma rt_issuance hr i : swf_issuance pt_ok i = true -> de_issuance pt_ok hr (view hr (ser_issuance hr i)) = Ok i.
Proof. unfold swf_issuance. intros W. split_wf W. unfold ser_issuance, de_issuance. struct_open. struct_go.
  rewrite rt_tweak by (try exact W3; now apply len_is_eq). struct_go.
  rewrite rt_array by (now apply len_is_eq). struct_go. rewrite rt_value by assumption. struct_go. rewrite rt_value by assumption. struct_go. now destruct i. Qed.
Lemma rt_inwit hr w : swf_inwit w = true -> de_inwit hr (view hr (ser_inwit hr w)) = Ok w.
Proof. unfold swf_inwit. intros W. split_wf W. unfold ser_inwit, de_inwit. struct_open. struct_go.
  rewrite rt_optproof by assumption. struct_go. rewrite rt_optproof by assumption. struct_go. rewrite rt_stack. struct_go. rewrite rt_stack. struct_go. now destruct w. Qed.
Lemma rt_outwit hr w : swf_outwit w = true -> de_outwit hr (view hr (ser_outwit hr w)) = Ok w.
Proof. unfold swf_outwit. intros W. split_wf W. unfold ser_outwit, de_outwit. struct_open. struct_go.
  rewrite rt_optproof by assumption. struct_go. rewrite rt_optproof by assumption. struct_go. now destruct w. Qed.
Lemma rt_txin hr i : swf_txin pt_ok i = true -> de_txin pt_ok hr (view hr (ser_txin hr i)) = Ok i.
Proof. unfold swf_txin, u32_ok. intros W. split_wf W. apply N.ltb_lt in W2. unfold ser_txin, de_txin, ser_sequence, de_sequence. struct_open. struct_go.
  rewrite rt_outpoint by assumption. struct_go. rewrite rt_script. struct_go. rewrite de_u_ok by exact W2. struct_go.
  rewrite rt_issuance by assumption. struct_go. rewrite rt_inwit by assumption. struct_go. now destruct i. Qed.
Lemma rt_txout hr o : swf_txout pt_ok o = true -> de_txout pt_ok hr (view hr (ser_txout hr o)) = Ok o.
Proof. unfold swf_txout. intros W. split_wf W. unfold ser_txout, de_txout. struct_open. struct_go.
  rewrite rt_asset by assumption. struct_go. rewrite rt_value by assumption. struct_go. rewrite rt_nonce by assumption. struct_go.
  rewrite rt_script. struct_go. rewrite rt_outwit by assumption. struct_go. now destruct o. Qed.

Lemma rt_locktime hr l : locktime_wf l = true -> de_locktime (view hr (ser_locktime l)) = Ok l.
Proof. intros W. assert (T : C20_LOCK_TIME_THRESHOLD <= u32_bound) by (vm_compute; discriminate).
  destruct l as [h|t]; cbn [locktime_wf] in W; destruct hr; cbn -[de_u u32_bound de_height de_time]; ground_eval; cbn iota; unfold de_height, de_time.
  1,2: apply N.ltb_lt in W; rewrite de_u_ok by lia; cbn [rbind]; destruct (N.ltb_spec h C20_LOCK_TIME_THRESHOLD); [reflexivity|lia].
  all: apply andb_prop in W as [W1 W2]; apply N.leb_le in W1; apply N.ltb_lt in W2; rewrite de_u_ok by exact W2; cbn [rbind];
       destruct (N.leb_spec C20_LOCK_TIME_THRESHOLD t); [reflexivity|lia]. Qed.
(* what Deserialize hands out satisfies the type's invariant (F17 repaired) *)
Lemma de_u_inv bound v n : de_u bound v = Ok n -> n < bound.
Proof. destruct v; cbn; try discriminate. destruct (N.ltb_spec n0 bound); [|discriminate]. intros E. inversion E. now subst. Qed.
Lemma de_height_wf v n : de_height v = Ok n -> n < C20_LOCK_TIME_THRESHOLD.
Proof. unfold de_height. destruct (de_u u32_bound v) as [m|] eqn:E; cbn [rbind]; [|discriminate].
  destruct (N.ltb_spec m C20_LOCK_TIME_THRESHOLD); [|discriminate]. intros H'. inversion H'. now subst. Qed.
Lemma de_time_wf v n : de_time v = Ok n -> C20_LOCK_TIME_THRESHOLD <= n /\ n < u32_bound.
Proof. unfold de_time. destruct (de_u u32_bound v) as [m|] eqn:E; cbn [rbind]; [|discriminate]. apply de_u_inv in E.
  destruct (N.leb_spec C20_LOCK_TIME_THRESHOLD m); [|discriminate]. intros H'. inversion H'. subst. split; assumption. Qed.
Lemma de_locktime_pick_wf k x l :
  (if bytes_eqb k "Blocks"%lb then rbind (de_height x) (fun n => Ok (Blocks n))
   else if bytes_eqb k "Seconds"%lb then rbind (de_time x) (fun n => Ok (Seconds n)) else Err "variant"%lb) = Ok l -> locktime_wf l = true.
Proof. destruct (bytes_eqb k "Blocks"%lb).
  - destruct (de_height x) as [n|] eqn:E; cbn [rbind]; [|discriminate]. intros H. inversion H. subst. cbn [locktime_wf]. apply N.ltb_lt. now apply de_height_wf in E.
  - destruct (bytes_eqb k "Seconds"%lb); [|discriminate]. destruct (de_time x) as [n|] eqn:E; cbn [rbind]; [|discriminate]. intros H. inversion H. subst.
    apply de_time_wf in E as [E1 E2]. cbn [locktime_wf]. apply andb_true_intro. split; [now apply N.leb_le|now apply N.ltb_lt]. Qed.
Lemma de_locktime_wf v l : de_locktime v = Ok l -> locktime_wf l = true.
Proof. unfold de_locktime. intros H. destruct v as [| | | | | | |s|s|m| | |]; try discriminate H.
  - destruct s as [|a [|b [|c r]]]; try discriminate H; destruct a; try discriminate H. revert H. apply de_locktime_pick_wf.
  - destruct m as [|[a b] [|c r]]; try discriminate H; destruct a; try discriminate H. revert H. apply de_locktime_pick_wf. Qed.
Lemma locktime_consensus_rt n : locktime_to_consensus (locktime_from_consensus n) = n.
Proof. unfold locktime_from_consensus. now destruct (n <? C20_LOCK_TIME_THRESHOLD). Qed.

Lemma rt_tx hr t : swf_tx pt_ok t = true -> de_tx pt_ok hr (view hr (ser_tx hr t)) = Ok t.
Proof. unfold swf_tx, u32_ok. intros W. split_wf W. apply N.ltb_lt in W, W2. unfold ser_tx, de_tx. struct_open. struct_go.
  rewrite de_u_ok by exact W. struct_go. rewrite rt_locktime by (now apply locktime_from_consensus_wf). struct_go. rewrite locktime_consensus_rt.
  unfold de_vec.
  rewrite (de_list_ok (de_txin pt_ok hr) (ser_txin hr) (view hr) (swf_txin pt_ok)) by (try exact W1; intros; now apply rt_txin). struct_go.
  rewrite (de_list_ok (de_txout pt_ok hr) (ser_txout hr) (view hr) (swf_txout pt_ok)) by (try exact W0; intros; now apply rt_txout). struct_go.
  now destruct t. Qed.

(* ---------- dynafed Params, ExtData, BlockHeader, Block ---------- *)
Lemma rt_params hr p : swf_params p = true -> de_params hr (view hr (ser_params hr p)) = Ok p.
Proof. destruct p as [|sbs l e|f]; cbn [swf_params ser_params]; unfold u32_ok; intros W; unfold de_params.
  - struct_open. reflexivity.
  - split_wf W. apply N.ltb_lt in W. struct_open. struct_go. rewrite rt_script. struct_go. rewrite de_u_ok by exact W. struct_go.
    rewrite rt_midstate by (now apply len_is_eq). struct_go. reflexivity.
  - apply N.ltb_lt in W. struct_open. struct_go. rewrite rt_script. struct_go. rewrite de_u_ok by exact W. struct_go.
    rewrite rt_btc_script. struct_go. rewrite rt_hexbytes. struct_go. unfold de_vec.
    rewrite (de_list_ok de_hexbytes (ser_hexbytes hr) (view hr) (fun _ => true)) by (try apply forallb_true; intros; apply rt_hexbytes). struct_go.
    now destruct f. Qed.
Lemma rt_extdata hr e : swf_extdata e = true -> de_extdata hr (view hr (ser_extdata hr e)) = Ok e.
Proof. destruct e as [c s|c p w]; cbn [swf_extdata ser_extdata]; intros W; unfold de_extdata.
  - struct_open. struct_go. rewrite rt_script. struct_go. rewrite rt_script. struct_go. reflexivity.
  - split_wf W. struct_open. struct_go. rewrite rt_params by assumption. struct_go. rewrite rt_params by assumption. struct_go.
    rewrite rt_stack. struct_go. reflexivity. Qed.
Lemma rt_header hr h : swf_header h = true -> de_header hr (view hr (ser_header hr h)) = Ok h.
Proof. unfold swf_header, u32_ok. intros W. split_wf W. apply N.ltb_lt in W, W1, W2. apply len_is_eq in W3, W4.
  unfold ser_header, de_header. struct_open. struct_go.
  rewrite de_u_ok by exact W. struct_go. rewrite rt_hash by (change hashlen_BlockHash with 32; now rewrite W4). struct_go.
  rewrite rt_hash by (change hashlen_TxMerkleNode with 32; now rewrite W3). struct_go.
  rewrite de_u_ok by exact W2. struct_go. rewrite de_u_ok by exact W1. struct_go. rewrite rt_extdata by assumption. struct_go. now destruct h. Qed.
Lemma rt_block hr b : swf_block pt_ok b = true -> de_block pt_ok hr (view hr (ser_block hr b)) = Ok b.
Proof. unfold swf_block. intros W. split_wf W. unfold ser_block, de_block. struct_open. struct_go.
  rewrite rt_header by assumption. struct_go. unfold de_vec.
  rewrite (de_list_ok (de_tx pt_ok hr) (ser_tx hr) (view hr) (swf_tx pt_ok)) by (try exact W0; intros; now apply rt_tx). struct_go. now destruct b. Qed.

(* ---------- TxOutSecrets ---------- *)
Ltac split_all := repeat match goal with H : (_ && _ = true) |- _ => let H2 := fresh "W" in apply andb_prop in H as [H H2] end;
  repeat match goal with H : len_is _ _ = true |- _ => apply len_is_eq in H end;
  repeat match goal with H : (_ <? _) = true |- _ => apply N.ltb_lt in H end.
Lemma rt_secrets hr s : swf_secrets s = true -> de_secrets hr (view hr (ser_secrets hr s)) = Ok s.
Proof. unfold swf_secrets, swf_bf. intros W. split_all.
  unfold ser_secrets, de_secrets. views. cbn [map fst snd]. views. unfold de_map. cbn [fold_fields]. struct_go.
  rewrite rt_midstate by assumption. struct_go. rewrite rt_bf by assumption. struct_go. rewrite de_u_ok by assumption. struct_go.
  rewrite rt_bf by assumption. struct_go. now destruct s. Qed.
End PT.

Lemma rt_string {A} hr (print : A -> bytes) (parse : bytes -> res A) a : parse (print a) = Ok a -> de_string parse (view hr (ser_string print a)) = Ok a.
Proof. intros H. unfold ser_string, de_string. now rewrite view_str. Qed.
