(* C03 — full sensitivity, taproot: equal digests => equal committed views or a collision; equal views => equal messages. *)
From Coq Require Import List Arith NArith Bool Lia.
From Coq.Strings Require Import Byte.
From EV Require Import Base.Bytes Base.Codec Model.Tx Model.SighashSpec Model.SighashCommit Proofs.Tx Proofs.Sighash Proofs.SighashCommit.
Import ListNotations.
Open Scope N_scope.
Set Default Timeout 120.

Section SUBLISTS.
Variable pt_ok : bytes -> bool.
Variable H : bytes -> bytes.
Notation canon_in := (canon_in pt_ok). Notation canon_out := (canon_out pt_ok).

(* a hashed concatenation of encodings determines the encoded components, or exhibits a collision *)
Lemma hashed_list {A B} (c : codec B) (f : A -> B) (l l' : list A) :
  Lawful c -> (forall v, wf c v = true -> enc c v <> []) ->
  forallb (fun x => wf c (f x)) l = true -> forallb (fun x => wf c (f x)) l' = true ->
  H (concat (map (fun x => enc c (f x)) l)) = H (concat (map (fun x => enc c (f x)) l')) ->
  map f l = map f l' \/ Collision H.
Proof. intros L NE W W' E. destruct (hash_eq H _ _ E) as [E'|C]; [left|now right].
  rewrite !concat_map_vn in E'. apply (vn_enc_inj c L NE); rewrite ?forallb_map'; assumption. Qed.
Lemma map_comp {A B C} (g : B -> C) (f : A -> B) l l' : map f l = map f l' -> map (fun x => g (f x)) l = map (fun x => g (f x)) l'.
Proof. intros E. rewrite <- !(map_map f g). now rewrite E. Qed.

Lemma le4_nonempty n : le_enc 4 n <> []. Proof. cbn. discriminate. Qed.
Lemma vi_nonempty n : vi_enc n <> [].
Proof. unfold vi_enc. destruct (n <? 253); [discriminate|]. destruct (n <? 65536); [discriminate|]. destruct (n <? 4294967296); discriminate. Qed.
Lemma varbytes_nonempty v : enc (c_varbytes BIG) v <> [].
Proof. cbn [c_varbytes enc]. intros E. apply app_eq_nil in E as [E _]. now apply vi_nonempty in E. Qed.
Lemma asset_nonempty a : wf (c_asset pt_ok) a = true -> enc (c_asset pt_ok) a <> [].
Proof. destruct a as [|id|c]; cbn; try discriminate. destruct c; [discriminate|discriminate]. Qed.
Lemma outpoint_nonempty o : enc c_outpoint o <> [].
Proof. cbn. intros E. apply app_eq_nil in E as [_ E]. discriminate. Qed.

Definition c_av := c_pair (c_asset pt_ok) (c_value pt_ok).
Definition c_pp := c_pair (c_varbytes BIG) (c_varbytes BIG).
Definition c_out4 := c_pair (c_asset pt_ok) (c_pair (c_value pt_ok) (c_pair (c_nonce pt_ok) (c_varbytes BIG))).
Lemma c_av_lawful : Lawful c_av. Proof. apply c_pair_lawful; [apply c_asset_lawful|apply c_value_lawful]. Qed.
Lemma c_pp_lawful : Lawful c_pp. Proof. apply c_pair_lawful; apply c_varbytes_lawful. Qed.
Lemma c_out4_lawful : Lawful c_out4.
Proof. apply c_pair_lawful; [apply c_asset_lawful|]. apply c_pair_lawful; [apply c_value_lawful|]. apply c_pair_lawful; [apply c_nonce_lawful|apply c_varbytes_lawful]. Qed.
Lemma c_av_nonempty v : wf c_av v = true -> enc c_av v <> [].
Proof. destruct v as [a v]. cbn [c_av c_pair wf enc]. intros W E. apply andb_true_iff in W as [W _]. apply app_eq_nil in E as [E _]. now apply asset_nonempty in E. Qed.
Lemma c_pp_nonempty v : wf c_pp v = true -> enc c_pp v <> [].
Proof. destruct v as [a b]. cbn [c_pp c_pair enc]. intros _ E. apply app_eq_nil in E as [E _]. now apply varbytes_nonempty in E. Qed.
Lemma c_out4_nonempty v : wf c_out4 v = true -> enc c_out4 v <> [].
Proof. destruct v as [a r]. cbn [c_out4 c_pair wf enc]. intros W E. apply andb_true_iff in W as [W _]. apply app_eq_nil in E as [E _]. now apply asset_nonempty in E. Qed.

Definition out4 (o : txout) := (out_asset o, (out_value o, (out_nonce o, out_script o))).
Definition av (o : txout) := (out_asset o, out_value o).
Definition ipp (i : txin) := (proof_bytes (w_amount_rp (in_wit i)), proof_bytes (w_keys_rp (in_wit i))).
Definition opp (o : txout) := (proof_bytes (w_surj (out_wit o)), proof_bytes (w_range (out_wit o))).

Lemma wf_outpoint i : canon_in i = true -> wf c_outpoint (in_prev i) = true.
Proof. intros C. destruct (canon_in_facts pt_ok i C) as (T & V & _). cbn [c_outpoint c_conv wf c_pair c_hash32 c_fixed]. rewrite T. cbn. apply u32_wf. exact V. Qed.
Lemma wf_seq i : canon_in i = true -> wf c_u32 (in_seq i) = true.
Proof. intros C. destruct (canon_in_facts pt_ok i C) as (_ & _ & Q & _). now apply u32_wf. Qed.
Lemma wf_ipp i : canon_in i = true -> wf c_pp (ipp i) = true.
Proof. intros C. destruct (canon_in_facts pt_ok i C) as (_ & _ & _ & _ & P1 & P2 & _). cbn [c_pp c_pair wf ipp]. now rewrite (len_ok_wf _ P1), (len_ok_wf _ P2). Qed.
Lemma wf_out4 o : canon_out o = true -> wf c_out4 (out4 o) = true.
Proof. intros C. destruct (canon_out_facts pt_ok o C) as (A & V & N & S & _). cbn [c_out4 c_pair wf out4]. now rewrite A, V, N, S. Qed.
Lemma wf_av o : canon_out o = true -> wf c_av (av o) = true.
Proof. intros C. destruct (canon_out_facts pt_ok o C) as (A & V & _). cbn [c_av c_pair wf av]. now rewrite A, V. Qed.
Lemma wf_script o : canon_out o = true -> wf (c_varbytes BIG) (out_script o) = true.
Proof. intros C. now destruct (canon_out_facts pt_ok o C) as (_ & _ & _ & S & _). Qed.
Lemma wf_opp o : canon_out o = true -> wf c_pp (opp o) = true.
Proof. intros C. destruct (canon_out_facts pt_ok o C) as (_ & _ & _ & _ & P1 & P2). cbn [c_pp c_pair wf opp]. now rewrite (len_ok_wf _ P1), (len_ok_wf _ P2). Qed.

(* the sub-hashes *)
Lemma sub_flags l l' : H (map (fun i => n2b (outpoint_flag_byte i)) l) = H (map (fun i => n2b (outpoint_flag_byte i)) l') ->
  map fv_flags l = map fv_flags l' \/ Collision H.
Proof. intros E. destruct (hash_eq H _ _ E) as [E'|C]; [left|now right]. revert E'. apply map_factor. intros a b E'.
  apply n2b_inj in E'; unfold outpoint_flag_byte in *; try (destruct (in_pegin a), (issuance_null a); cbn; lia); try (destruct (in_pegin b), (issuance_null b); cbn; lia).
  unfold fv_flags. destruct (in_pegin a), (issuance_null a), (in_pegin b), (issuance_null b); cbn in *; try reflexivity; lia. Qed.
Lemma sub_prevouts l l' : forallb canon_in l = true -> forallb canon_in l' = true ->
  H (concat (map (fun i => ser_outpoint (in_prev i)) l)) = H (concat (map (fun i => ser_outpoint (in_prev i)) l')) ->
  map (fun i => fv_outpoint (in_prev i)) l = map (fun i => fv_outpoint (in_prev i)) l' \/ Collision H.
Proof. intros W W' E. destruct (hashed_list c_outpoint in_prev l l' c_outpoint_lawful (fun v _ => outpoint_nonempty v)) as [E'|C]; auto.
  1,2: eapply forallb_impl; [apply wf_outpoint|assumption]. left. now apply map_comp. Qed.
Lemma sub_sequences l l' : forallb canon_in l = true -> forallb canon_in l' = true ->
  H (concat (map (fun i => ser_u32 (in_seq i)) l)) = H (concat (map (fun i => ser_u32 (in_seq i)) l')) ->
  map (fun i => FNum (in_seq i)) l = map (fun i => FNum (in_seq i)) l' \/ Collision H.
Proof. intros W W' E. destruct (hashed_list c_u32 in_seq l l' (c_le_lawful 4) (fun v _ => le4_nonempty v)) as [E'|C]; auto.
  1,2: eapply forallb_impl; [apply wf_seq|assumption]. left. now apply map_comp. Qed.
Lemma sub_asset_amounts l l' : forallb canon_out l = true -> forallb canon_out l' = true ->
  H (concat (map (fun o => ser_asset pt_ok (out_asset o) ++ ser_value pt_ok (out_value o)) l)) = H (concat (map (fun o => ser_asset pt_ok (out_asset o) ++ ser_value pt_ok (out_value o)) l')) ->
  map (fun o => FList [FAst (out_asset o); FVal (out_value o)]) l = map (fun o => FList [FAst (out_asset o); FVal (out_value o)]) l' \/ Collision H.
Proof. intros W W' E. destruct (hashed_list c_av av l l' c_av_lawful c_av_nonempty) as [E'|C]; auto.
  1,2: eapply forallb_impl; [apply wf_av|assumption]. left. exact (map_comp (fun p => FList [FAst (fst p); FVal (snd p)]) av l l' E'). Qed.
Lemma sub_scripts l l' : forallb canon_out l = true -> forallb canon_out l' = true ->
  H (concat (map (fun o => ser_bytes (out_script o)) l)) = H (concat (map (fun o => ser_bytes (out_script o)) l')) ->
  map (fun o => FBytes (out_script o)) l = map (fun o => FBytes (out_script o)) l' \/ Collision H.
Proof. intros W W' E. destruct (hashed_list (c_varbytes BIG) out_script l l' (c_varbytes_lawful BIG) (fun v _ => varbytes_nonempty v)) as [E'|C]; auto.
  1,2: eapply forallb_impl; [apply wf_script|assumption]. left. now apply map_comp. Qed.
Lemma sub_issproofs l l' : forallb canon_in l = true -> forallb canon_in l' = true ->
  H (concat (map issuance_proofs l)) = H (concat (map issuance_proofs l')) ->
  map fv_issproofs l = map fv_issproofs l' \/ Collision H.
Proof. intros W W' E. destruct (hashed_list c_pp ipp l l' c_pp_lawful c_pp_nonempty) as [E'|C]; auto.
  1,2: eapply forallb_impl; [apply wf_ipp|assumption]. left. exact (map_comp (fun p => FList [FBytes (fst p); FBytes (snd p)]) ipp l l' E'). Qed.
Lemma sub_outputs l l' : forallb canon_out l = true -> forallb canon_out l' = true ->
  H (concat (map (ser_txout pt_ok) l)) = H (concat (map (ser_txout pt_ok) l')) ->
  map fv_txout l = map fv_txout l' \/ Collision H.
Proof. intros W W' E. destruct (hashed_list c_out4 out4 l l' c_out4_lawful c_out4_nonempty) as [E'|C]; auto.
  1,2: eapply forallb_impl; [apply wf_out4|assumption].
  left. exact (map_comp (fun p => FList [FAst (fst p); FVal (fst (snd p)); FNon (fst (snd (snd p))); FBytes (snd (snd (snd p)))]) out4 l l' E'). Qed.
Lemma sub_outwits l l' : forallb canon_out l = true -> forallb canon_out l' = true ->
  H (concat (map output_witness l)) = H (concat (map output_witness l')) ->
  map fv_outwit l = map fv_outwit l' \/ Collision H.
Proof. intros W W' E. destruct (hashed_list c_pp opp l l' c_pp_lawful c_pp_nonempty) as [E'|C]; auto.
  1,2: eapply forallb_impl; [apply wf_opp|assumption]. left. exact (map_comp (fun p => FList [FBytes (fst p); FBytes (snd p)]) opp l l' E'). Qed.

(* the concatenation "0x00 or issuance" is decodable once it is known which inputs carry an issuance *)
Lemma iss_concat_inj : forall l l', forallb canon_in l = true -> forallb canon_in l' = true ->
  map issuance_null l = map issuance_null l' ->
  concat (map (issuance_or_zero pt_ok) l) = concat (map (issuance_or_zero pt_ok) l') -> map fv_iss_opt l = map fv_iss_opt l'.
Proof. induction l as [|a l IH]; intros [|b l'] W W' N E; cbn in *; try discriminate; [reflexivity|].
  apply andb_true_iff in W as [Wa W]. apply andb_true_iff in W' as [Wb W']. inversion N as [[Na Nl]].
  unfold issuance_or_zero, fv_iss_opt in *. destruct (issuance_null a) eqn:Za; destruct (issuance_null b) eqn:Zb; try discriminate Na.
  - inversion E. f_equal. now apply IH.
  - destruct (canon_in_facts pt_ok a Wa) as (_ & _ & _ & Ia & _). destruct (canon_in_facts pt_ok b Wb) as (_ & _ & _ & Ib & _).
    unfold issuance_null in Ia, Ib. destruct (enc_prefix_inj (c_issuance pt_ok) (c_issuance_lawful pt_ok) (in_iss a) (in_iss b) _ _ (Ia Za) (Ib Zb) E) as [Ei E'].
    rewrite Ei. f_equal. now apply IH. Qed.
Lemma flags_null l l' : map fv_flags l = map fv_flags l' -> map issuance_null l = map issuance_null l'.
Proof. apply map_factor. intros a b E. unfold fv_flags, fv_bool in E. destruct (issuance_null a), (issuance_null b); cbn in E; congruence. Qed.
Lemma sub_issuances l l' : forallb canon_in l = true -> forallb canon_in l' = true -> map fv_flags l = map fv_flags l' ->
  H (concat (map (issuance_or_zero pt_ok) l)) = H (concat (map (issuance_or_zero pt_ok) l')) ->
  map fv_iss_opt l = map fv_iss_opt l' \/ Collision H.
Proof. intros W W' F E. destruct (hash_eq H _ _ E) as [E'|C]; [left|now right]. apply iss_concat_inj; auto. now apply flags_null. Qed.
End SUBLISTS.

Lemma cons_app_inj {A} (a b : A) x y : [a] ++ x = [b] ++ y -> a = b /\ x = y.
Proof. cbn. intros E. inversion E. auto. Qed.
Lemma tap_valid_lt ht : tap_type_valid ht = true -> ht < 256.
Proof. unfold tap_type_valid. intros E. apply orb_true_iff in E as [E|E]; [apply N.leb_le in E; lia|]. apply andb_true_iff in E as [_ E]. apply N.leb_le in E. lia. Qed.
Lemma forallb_nth {A} (p : A -> bool) l n a : forallb p l = true -> nth_error l n = Some a -> p a = true.
Proof. intros F N. apply nth_error_In in N. rewrite forallb_forall in F. auto. Qed.

Section TAPROOT.
Variable pt_ok : bytes -> bool.
Variable H : bytes -> bytes.
Hypothesis Hlen : forall x, length (H x) = 32%nat.
Notation canon_in := (canon_in pt_ok). Notation canon_out := (canon_out pt_ok). Notation canon_tx := (canon_tx pt_ok).

Lemma peel {A} (c : codec A) a b x y : Lawful c -> wf c a = true -> wf c b = true -> enc c a ++ x = enc c b ++ y -> a = b /\ x = y.
Proof. intros L Wa Wb E. exact (enc_prefix_inj c L a b x y Wa Wb E). Qed.

(* annex part *)
Lemma tail_annex annex annex' R R' : (match annex with Some _ => 1 | None => 0 end) = (match annex' with Some _ => 1 | None => 0 end) ->
  (match annex with Some a => len_ok a | None => true end) = true -> (match annex' with Some a => len_ok a | None => true end) = true ->
  (match annex with Some a => H (ser_bytes a) | None => [] end) ++ R = (match annex' with Some a => H (ser_bytes a) | None => [] end) ++ R' ->
  (annex = annex' /\ R = R') \/ Collision H.
Proof. destruct annex as [a|], annex' as [a'|]; intros P L L' E; try discriminate P; [|left; auto].
  apply app_eq_len in E as [E1 E2]; [|now rewrite !Hlen]. destruct (hash_eq H _ _ E1) as [E|C]; [left|now right].
  rewrite !ser_bytes_enc in E. apply (enc_inj _ (c_varbytes_lawful BIG)) in E; try now apply len_ok_wf. subst. auto. Qed.
(* SIGHASH_SINGLE part *)
Lemma tail_single o o' R R' : canon_out o = true -> canon_out o' = true ->
  (H (ser_txout pt_ok o) ++ H (output_witness o)) ++ R = (H (ser_txout pt_ok o') ++ H (output_witness o')) ++ R' ->
  (fv_txout o = fv_txout o' /\ fv_outwit o = fv_outwit o' /\ R = R') \/ Collision H.
Proof. intros C C' E. rewrite <- !app_assoc in E. apply app_eq_len in E as [E1 E]; [|now rewrite !Hlen]. apply app_eq_len in E as [E2 E]; [|now rewrite !Hlen].
  destruct (hash_eq H _ _ E1) as [X1|K]; [|now right]. destruct (hash_eq H _ _ E2) as [X2|K]; [|now right]. left.
  change (ser_txout pt_ok o) with (enc (c_out4 pt_ok) (out4 o)) in X1. change (ser_txout pt_ok o') with (enc (c_out4 pt_ok) (out4 o')) in X1.
  apply (enc_inj _ (c_out4_lawful pt_ok)) in X1; try now apply wf_out4.
  change (output_witness o) with (enc c_pp (opp o)) in X2. change (output_witness o') with (enc c_pp (opp o')) in X2.
  apply (enc_inj _ c_pp_lawful) in X2; try now apply wf_opp.
  unfold out4 in X1. unfold opp in X2. unfold fv_txout, fv_outwit. inversion X1. inversion X2. repeat split; try congruence.
  all: apply (wf_opp pt_ok); assumption.
Qed.
(* script-path part (last) *)
Lemma tail_leaf leaf leaf' : (match leaf with Some _ => 1 | None => 0 end) = (match leaf' with Some _ => 1 | None => 0 end) ->
  (match leaf with Some (h, pos) => Nat.eqb (length h) 32 && (pos <? 4294967296) | None => true end) = true ->
  (match leaf' with Some (h, pos) => Nat.eqb (length h) 32 && (pos <? 4294967296) | None => true end) = true ->
  (match leaf with Some (h, pos) => h ++ [x00] ++ ser_u32 pos | None => [] end) = (match leaf' with Some (h, pos) => h ++ [x00] ++ ser_u32 pos | None => [] end) ->
  leaf = leaf'.
Proof. destruct leaf as [[h p]|], leaf' as [[h' p']|]; intros P L L' E; try discriminate P; [|reflexivity].
  apply andb_true_iff in L as [L1 L2]. apply andb_true_iff in L' as [L1' L2']. apply Nat.eqb_eq in L1, L1'. apply N.ltb_lt in L2, L2'.
  apply app_eq_len in E as [-> E]; [|lia]. apply cons_app_inj in E as [_ E]. apply ser_u32_inj in E; auto. now subst. Qed.
End TAPROOT.

Section TAPROOT2.
Variable pt_ok : bytes -> bool.
Variable H : bytes -> bytes.
Hypothesis Hlen : forall x, length (H x) = 32%nat.
Notation canon_in := (canon_in pt_ok). Notation canon_out := (canon_out pt_ok). Notation canon_tx := (canon_tx pt_ok).

Lemma canon_tx_facts t : canon_tx t = true ->
  tx_version t < 4294967296 /\ tx_lock t < 4294967296 /\ forallb canon_in (tx_in t) = true /\ forallb canon_out (tx_out t) = true.
Proof. unfold SighashCommit.canon_tx. intros C. repeat (apply andb_true_iff in C as [C ?]). apply N.ltb_lt in C. apply N.ltb_lt in H4. auto. Qed.

Ltac col K := right; exact K.

Theorem taproot_msg_sensitive t t' spent spent' idx idx' annex annex' leaf leaf' ht ht' g g' m :
  spec_taproot_msg pt_ok H t spent idx annex leaf ht g = Some m -> spec_taproot_msg pt_ok H t' spent' idx' annex' leaf' ht' g' = Some m ->
  canon_tx t = true -> canon_tx t' = true -> forallb canon_out spent = true -> forallb canon_out spent' = true ->
  tap_query_ok g annex leaf idx = true -> tap_query_ok g' annex' leaf' idx' = true ->
  taproot_committed t spent idx annex leaf ht g = taproot_committed t' spent' idx' annex' leaf' ht' g' \/ Collision H.
Proof. unfold spec_taproot_msg, taproot_committed. intros S S' C C' CS CS' Q Q'.
  destruct (canon_tx_facts t C) as (Vv & Vl & CI & CO). destruct (canon_tx_facts t' C') as (Vv' & Vl' & CI' & CO').
  unfold tap_query_ok in Q, Q'. repeat (apply andb_true_iff in Q as [Q ?]). repeat (apply andb_true_iff in Q' as [Q' ?]).
  apply Nat.eqb_eq in Q, Q'. rename H0 into Qi, H1 into Ql, H2 into Qa, H3 into Qi', H4 into Ql', H5 into Qa'. apply N.ltb_lt in Qi, Qi'.
  destruct (tap_type_valid ht) eqn:V; [|discriminate]. destruct (tap_type_valid ht') eqn:V'; [|discriminate]. cbn [negb] in S, S'.
  destruct (Nat.eqb (length spent) (length (tx_in t))); [|discriminate]. destruct (Nat.eqb (length spent') (length (tx_in t'))); [|discriminate]. cbn [negb] in S, S'.
  destruct (annex_valid annex); [|discriminate]. destruct (annex_valid annex'); [|discriminate]. cbn [negb] in S, S'.
  destruct (nth_error (tx_in t) idx) as [me|] eqn:Nme; [|discriminate]. destruct (nth_error spent idx) as [prev|] eqn:Npv; [|discriminate].
  destruct (nth_error (tx_in t') idx') as [me'|] eqn:Nme'; [|discriminate]. destruct (nth_error spent' idx') as [prev'|] eqn:Npv'; [|discriminate].
  pose proof (forallb_nth _ _ _ _ CI Nme) as Cme. pose proof (forallb_nth _ _ _ _ CI' Nme') as Cme'.
  pose proof (forallb_nth _ _ _ _ CS Npv) as Cpv. pose proof (forallb_nth _ _ _ _ CS' Npv') as Cpv'.
  destruct (if tap_output_type ht =? SIGHASH_SINGLE then _ else _) as [so|] eqn:So; [|discriminate].
  destruct (if tap_output_type ht' =? SIGHASH_SINGLE then _ else _) as [so'|] eqn:So'; [|discriminate].
  apply Some_inj in S. apply Some_inj in S'. rewrite <- S' in S. clear S' m.
  (* genesis, hash type, version, lock time *)
  apply app_eq_len in S as [Eg S]; [|lia]. apply app_eq_len in S as [_ S]; [|lia]. subst g'.
  apply cons_app_inj in S as [Eht S]. apply n2b_inj in Eht; try now apply tap_valid_lt. subst ht'.
  apply app_eq_len in S as [Ev S]; [|now rewrite !ser_u32_len]. apply ser_u32_inj in Ev; auto.
  apply app_eq_len in S as [El S]; [|now rewrite !ser_u32_len]. apply ser_u32_inj in El; auto. rewrite Ev, El.
  (* the seven sub-hashes *)
  match type of S with _ ++ ?R = _ ++ ?R' => remember R as R1 eqn:HR1; remember R' as R1' eqn:HR1' end.
  assert (P2 : (if tap_input_acp ht then [] else
                  [FList (map fv_flags (tx_in t)); FList (map (fun i => fv_outpoint (in_prev i)) (tx_in t));
                   FList (map (fun o => FList [FAst (out_asset o); FVal (out_value o)]) spent); FList (map (fun o => FBytes (out_script o)) spent);
                   FList (map (fun i => FNum (in_seq i)) (tx_in t)); FList (map fv_iss_opt (tx_in t)); FList (map fv_issproofs (tx_in t))]) =
               (if tap_input_acp ht then [] else
                  [FList (map fv_flags (tx_in t')); FList (map (fun i => fv_outpoint (in_prev i)) (tx_in t'));
                   FList (map (fun o => FList [FAst (out_asset o); FVal (out_value o)]) spent'); FList (map (fun o => FBytes (out_script o)) spent');
                   FList (map (fun i => FNum (in_seq i)) (tx_in t')); FList (map fv_iss_opt (tx_in t')); FList (map fv_issproofs (tx_in t'))]) /\
               R1 = R1' \/ Collision H).
  { destruct (tap_input_acp ht); [left; split; [reflexivity|exact S]|]. rewrite <- !app_assoc in S.
    unfold sha_outpoint_flags, sha_prevouts, sha_asset_amounts, sha_scriptpubkeys, sha_sequences, sha_issuances, sha_issuance_rangeproofs in S.
    apply app_eq_len in S as [E1 S]; [|now rewrite !Hlen]. apply app_eq_len in S as [E2 S]; [|now rewrite !Hlen].
    apply app_eq_len in S as [E3 S]; [|now rewrite !Hlen]. apply app_eq_len in S as [E4 S]; [|now rewrite !Hlen].
    apply app_eq_len in S as [E5 S]; [|now rewrite !Hlen]. apply app_eq_len in S as [E6 S]; [|now rewrite !Hlen].
    apply app_eq_len in S as [E7 S]; [|now rewrite !Hlen].
    destruct (sub_flags H _ _ E1) as [F1|K]; [|col K]. destruct (sub_prevouts pt_ok H _ _ CI CI' E2) as [F2|K]; [|col K].
    destruct (sub_asset_amounts pt_ok H _ _ CS CS' E3) as [F3|K]; [|col K]. destruct (sub_scripts pt_ok H _ _ CS CS' E4) as [F4|K]; [|col K].
    destruct (sub_sequences pt_ok H _ _ CI CI' E5) as [F5|K]; [|col K]. destruct (sub_issuances pt_ok H _ _ CI CI' F1 E6) as [F6|K]; [|col K].
    destruct (sub_issproofs pt_ok H _ _ CI CI' E7) as [F7|K]; [|col K].
    left. rewrite F1, F2, F3, F4, F5, F6, F7. split; [reflexivity|exact S]. }
  destruct P2 as [[P2 S2]|K]; [|col K]. clear S. rewrite P2. clear P2. subst R1 R1'. rename S2 into S.
  (* outputs and output witnesses *)
  match type of S with _ ++ ?R = _ ++ ?R' => remember R as R1 eqn:HR1; remember R' as R1' eqn:HR1' end.
  assert (P3 : (if tap_output_type ht =? SIGHASH_ALL then [FList (map fv_txout (tx_out t)); FList (map fv_outwit (tx_out t))] else []) =
               (if tap_output_type ht =? SIGHASH_ALL then [FList (map fv_txout (tx_out t')); FList (map fv_outwit (tx_out t'))] else []) /\ R1 = R1' \/ Collision H).
  { destruct (tap_output_type ht =? SIGHASH_ALL); [|left; split; [reflexivity|exact S]]. rewrite <- !app_assoc in S. unfold sha_outputs, sha_output_witnesses in S.
    apply app_eq_len in S as [E1 S]; [|now rewrite !Hlen]. apply app_eq_len in S as [E2 S]; [|now rewrite !Hlen].
    destruct (sub_outputs pt_ok H _ _ CO CO' E1) as [F1|K]; [|col K]. destruct (sub_outwits pt_ok H _ _ CO CO' E2) as [F2|K]; [|col K].
    left. rewrite F1, F2. split; [reflexivity|exact S]. }
  destruct P3 as [[P3 S3]|K]; [|col K]. clear S. rewrite P3. clear P3. subst R1 R1'. rename S3 into S.
  (* spend type *)
  apply cons_app_inj in S as [Est S].
  assert (Epres : (match leaf with Some _ => 1 | None => 0 end) = (match leaf' with Some _ => 1 | None => 0 end) /\
                  (match annex with Some _ => 1 | None => 0 end) = (match annex' with Some _ => 1 | None => 0 end)).
  { apply n2b_inj in Est; destruct leaf, leaf', annex, annex'; cbn in *; lia. }
  destruct Epres as [Eleaf Eannex].
  (* the input *)
  match type of S with _ ++ ?R = _ ++ ?R' => remember R as R1 eqn:HR1; remember R' as R1' eqn:HR1' end.
  assert (P4 : (if tap_input_acp ht then
                  [fv_flags me; fv_outpoint (in_prev me); FAst (out_asset prev); FVal (out_value prev); FBytes (out_script prev); FNum (in_seq me);
                   fv_iss_opt me; (if issuance_null me then FNone else FSome (fv_issproofs me))]
                else [FNum (N.of_nat idx)]) =
               (if tap_input_acp ht then
                  [fv_flags me'; fv_outpoint (in_prev me'); FAst (out_asset prev'); FVal (out_value prev'); FBytes (out_script prev'); FNum (in_seq me');
                   fv_iss_opt me'; (if issuance_null me' then FNone else FSome (fv_issproofs me'))]
                else [FNum (N.of_nat idx')]) /\ R1 = R1' \/ Collision H).
  { destruct (tap_input_acp ht).
    - rewrite <- !app_assoc in S. apply cons_app_inj in S as [Ef S].
      assert (Ff : fv_flags me = fv_flags me' /\ issuance_null me = issuance_null me').
      { apply n2b_inj in Ef; unfold outpoint_flag_byte, fv_flags in *; destruct (in_pegin me), (issuance_null me), (in_pegin me'), (issuance_null me'); cbn in *; auto; lia. }
      destruct Ff as [Ff Fn].
      destruct (canon_in_facts pt_ok me Cme) as (_ & _ & Sq & Is & P1 & P1b & _). destruct (canon_in_facts pt_ok me' Cme') as (_ & _ & Sq' & Is' & P1' & P1b' & _).
      destruct (canon_out_facts pt_ok prev Cpv) as (Wa & Wv & _ & Ws & _). destruct (canon_out_facts pt_ok prev' Cpv') as (Wa' & Wv' & _ & Ws' & _).
      apply (peel c_outpoint) in S as [Eo S]; [|apply c_outpoint_lawful|now apply (wf_outpoint pt_ok)|now apply (wf_outpoint pt_ok)].
      apply (peel (c_asset pt_ok)) in S as [Ea S]; [|apply c_asset_lawful|assumption|assumption].
      apply (peel (c_value pt_ok)) in S as [Evl S]; [|apply c_value_lawful|assumption|assumption].
      apply (peel (c_varbytes BIG)) in S as [Es S]; [|apply c_varbytes_lawful|assumption|assumption].
      apply app_eq_len in S as [Eq S]; [|now rewrite !ser_u32_len]. apply ser_u32_inj in Eq; auto.
      unfold fv_iss_opt. rewrite <- Fn in *. rewrite Ff, Eo, Ea, Evl, Es, Eq. destruct (issuance_null me) eqn:Z.
      + apply cons_app_inj in S as [_ S]. left. split; [reflexivity|exact S].
      + rewrite <- !app_assoc in S. apply (peel (c_issuance pt_ok)) in S as [Ei S]; [|apply c_issuance_lawful|now apply Is|now apply Is'].
        apply app_eq_len in S as [Ep S]; [|now rewrite !Hlen]. destruct (hash_eq H _ _ Ep) as [Ep'|K]; [|col K].
        change (issuance_proofs me) with (enc c_pp (ipp me)) in Ep'. change (issuance_proofs me') with (enc c_pp (ipp me')) in Ep'.
        apply (enc_inj _ c_pp_lawful) in Ep'; [|now apply (wf_ipp pt_ok)|now apply (wf_ipp pt_ok)].
        left. split; [|exact S]. rewrite Ei. unfold fv_issproofs. unfold ipp in Ep'. inversion Ep' as [[X1 X2]]. rewrite X1, X2. reflexivity.
    - apply app_eq_len in S as [Ei S]; [|now rewrite !ser_u32_len]. apply ser_u32_inj in Ei; auto. left. rewrite Ei. split; [reflexivity|exact S]. }
  destruct P4 as [[P4 S4]|K]; [|col K]. clear S. rewrite P4. clear P4. subst R1 R1'. rename S4 into S.
  (* annex *)
  destruct (tail_annex H Hlen annex annex' _ _ Eannex Qa Qa' S) as [[Ea S5]|K]; [|col K]. clear S. rename S5 into S. subst annex'.
  (* SIGHASH_SINGLE: the output and its witness *)
  assert (P6 : (if tap_output_type ht =? SIGHASH_SINGLE then match nth_error (tx_out t) idx with Some o => [fv_txout o; fv_outwit o] | None => [] end else []) =
               (if tap_output_type ht =? SIGHASH_SINGLE then match nth_error (tx_out t') idx' with Some o => [fv_txout o; fv_outwit o] | None => [] end else []) /\
               (match leaf with Some (h, pos) => h ++ [x00] ++ ser_u32 pos | None => [] end) = (match leaf' with Some (h, pos) => h ++ [x00] ++ ser_u32 pos | None => [] end) \/ Collision H).
  { destruct (tap_output_type ht =? SIGHASH_SINGLE).
    - destruct (nth_error (tx_out t) idx) as [o|] eqn:No; [|discriminate So]. destruct (nth_error (tx_out t') idx') as [o'|] eqn:No'; [|discriminate So'].
      cbn [option_map] in So, So'. apply Some_inj in So. apply Some_inj in So'. subst so so'.
      destruct (tail_single pt_ok H Hlen o o' _ _ (forallb_nth _ _ _ _ CO No) (forallb_nth _ _ _ _ CO' No') S) as [(F1 & F2 & S6)|K]; [|col K].
      left. rewrite F1, F2. split; [reflexivity|exact S6].
    - apply Some_inj in So. apply Some_inj in So'. subst so so'. left. split; [reflexivity|exact S]. }
  destruct P6 as [[P6 S6]|K]; [|col K]. rewrite P6. clear P6 S.
  pose proof (tail_leaf pt_ok H Hlen leaf leaf' Eleaf Ql Ql' S6) as El6. subst leaf'. left. reflexivity.
Qed.
End TAPROOT2.
