(* The script template predicates as TRANSLATED from src/script.rs on every run (Gen/SrcScript.v, translator/rust2coq.py) are the hand-written
   model predicates of Model/Script.v, and their generated no-panic conditions (every `self.0[i]` in bounds, the one usize subtraction not below
   zero; && and || evaluated left to right with short-circuit, as Rust does) hold for EVERY script. *)
From Coq Require Import List Arith NArith Bool Lia ZifyBool ZifyNat ZifyN.
From Coq.Strings Require Import Byte.
From EV Require Import Base.Bytes Gen.Tables Model.Script Gen.SrcScript.
Import ListNotations.
Open Scope N_scope.

Ltac cases :=
  repeat (match goal with
  | |- context [N.eqb ?a ?b] => destruct (N.eqb_spec a b)
  | |- context [N.leb ?a ?b] => destruct (N.leb_spec a b)
  | |- context [N.ltb ?a ?b] => destruct (N.ltb_spec a b)
  | |- context [Nat.eqb ?a ?b] => destruct (PeanoNat.Nat.eqb_spec a b)
  end; cbn [andb orb negb]; try reflexivity; try (exfalso; lia)).
Ltac opc := unfold OP_HASH160, OP_PUSHBYTES_20, OP_EQUAL, OP_DUP, OP_EQUALVERIFY, OP_CHECKSIG, OP_PUSHBYTES_65, OP_PUSHBYTES_33, OP_PUSHNUM_1, OP_PUSHNUM_16,
  OP_PUSHBYTES_2, OP_PUSHBYTES_40, OP_PUSHBYTES_0, OP_PUSHBYTES_32, OP_RETURN, MAX_SCRIPT_SIZE in *.
Ltac eqm := intros s; unfold blen, lenN, len_is; cbv zeta; cases.

Lemma src_is_p2sh s : src_Script_is_p2sh s = is_p2sh s.                         Proof. revert s. unfold src_Script_is_p2sh, is_p2sh. eqm. Qed.
Lemma src_is_p2pkh s : src_Script_is_p2pkh s = is_p2pkh s.                      Proof. revert s. unfold src_Script_is_p2pkh, is_p2pkh. eqm. Qed.
Lemma src_is_p2pk s : src_Script_is_p2pk s = is_p2pk s.                         Proof. revert s. unfold src_Script_is_p2pk, is_p2pk. eqm. Qed.
Lemma src_is_witness_program s : src_Script_is_witness_program s = is_witness_program s.
Proof. revert s. unfold src_Script_is_witness_program, is_witness_program. eqm. Qed.
Lemma src_is_v0_p2wsh s : src_Script_is_v0_p2wsh s = is_v0_p2wsh s.             Proof. revert s. unfold src_Script_is_v0_p2wsh, is_v0_p2wsh. eqm. Qed.
Lemma src_is_v1_p2tr s : src_Script_is_v1_p2tr s = is_v1_p2tr s.                Proof. revert s. unfold src_Script_is_v1_p2tr, is_v1_p2tr. eqm. Qed.
Lemma src_is_v1plus_p2witprog s : src_Script_is_v1plus_p2witprog s = is_v1plus_p2witprog s.
Proof. revert s. unfold src_Script_is_v1plus_p2witprog, is_v1plus_p2witprog. eqm. Qed.
Lemma src_is_v0_p2wpkh s : src_Script_is_v0_p2wpkh s = is_v0_p2wpkh s.          Proof. revert s. unfold src_Script_is_v0_p2wpkh, is_v0_p2wpkh. eqm. Qed.
Lemma src_is_op_return s : src_Script_is_op_return s = is_op_return s.          Proof. destruct s; reflexivity. Qed.
Lemma src_is_provably_unspendable s : src_Script_is_provably_unspendable s = is_provably_unspendable s.
Proof. destruct s; reflexivity. Qed.

(* ---- no panic: the generated safety condition of every predicate is true for every script *)
Ltac safe := intros s; unfold blen; cbv zeta; opc; cases.
Lemma src_is_p2sh_safe s : src_Script_is_p2sh_safe s = true.                     Proof. revert s. unfold src_Script_is_p2sh_safe. safe. Qed.
Lemma src_is_p2pkh_safe s : src_Script_is_p2pkh_safe s = true.                   Proof. revert s. unfold src_Script_is_p2pkh_safe. safe. Qed.
Lemma src_is_p2pk_safe s : src_Script_is_p2pk_safe s = true.                     Proof. revert s. unfold src_Script_is_p2pk_safe. safe. Qed.
Lemma src_is_witness_program_safe s : src_Script_is_witness_program_safe s = true.
Proof. revert s. unfold src_Script_is_witness_program_safe. safe. Qed.
Lemma src_is_v0_p2wsh_safe s : src_Script_is_v0_p2wsh_safe s = true.             Proof. revert s. unfold src_Script_is_v0_p2wsh_safe. safe. Qed.
Lemma src_is_v1_p2tr_safe s : src_Script_is_v1_p2tr_safe s = true.               Proof. revert s. unfold src_Script_is_v1_p2tr_safe. safe. Qed.
Lemma src_is_v1plus_p2witprog_safe s : src_Script_is_v1plus_p2witprog_safe s = true.
Proof. revert s. unfold src_Script_is_v1plus_p2witprog_safe. safe. Qed.
Lemma src_is_v0_p2wpkh_safe s : src_Script_is_v0_p2wpkh_safe s = true.           Proof. revert s. unfold src_Script_is_v0_p2wpkh_safe. safe. Qed.
Lemma src_is_op_return_safe s : src_Script_is_op_return_safe s = true.           Proof. destruct s; reflexivity. Qed.
Lemma src_is_provably_unspendable_safe s : src_Script_is_provably_unspendable_safe s = true. Proof. destruct s; reflexivity. Qed.
