(* The size / weight arithmetic as TRANSLATED from the Rust source on every run (Gen/SrcSizes.v, translator/rust2coq.py) is the
   hand-written model of Model/Sizes.v, function by function.  The C12 theorems (Props/C12.v) are transported along these equalities,
   so they speak about the formulas that are in src/transaction.rs and src/block.rs now. *)
From Coq Require Import List NArith Bool Lia.
From Coq.Strings Require Import Byte.
From EV Require Import Base.Bytes Base.Codec Model.Tx Model.Block Model.Sizes Gen.SrcPreds Gen.SrcSizes Proofs.SrcPreds.
Import ListNotations.
Open Scope N_scope.

Lemma nsum_map_ext {A} (f g : A -> N) l : (forall x, f x = g x) -> nsum (map f l) = nsum (map g l).
Proof. intros E. induction l as [|x l IH]; cbn [map nsum fold_right]; [reflexivity|]. unfold nsum in IH. now rewrite E, IH. Qed.
Lemma src_scaled_size t k : src_Transaction_scaled_size t k = scaled_size k t.
Proof.
  unfold src_Transaction_scaled_size, scaled_size. cbv zeta. rewrite src_has_witness.
  rewrite (nsum_map_ext _ (fun i => k * input_base i + (if has_witness t then input_wit i else 0)) (tx_in t)).
  rewrite (nsum_map_ext _ (fun o => k * output_base o + (if has_witness t then output_wit o else 0)) (tx_out t)).
  - reflexivity.
  - intros x. rewrite src_asset_len, src_value_len, src_nonce_len, src_rangeproof_len, src_surjectionproof_len. unfold output_base, output_wit.
    destruct (has_witness t); lia.
  - intros x. rewrite src_has_issuance. change src_Value_encoded_length with value_len. unfold input_base, input_wit, stack_size, optlen.
    destruct (has_witness t), (has_issuance x); lia.
Qed.
Lemma src_size t : src_Transaction_size t = tx_size t.       Proof. apply src_scaled_size. Qed.
Lemma src_weight t : src_Transaction_weight t = tx_weight t. Proof. apply src_scaled_size. Qed.
Lemma src_vsize t : src_Transaction_vsize t = tx_vsize t.
Proof. unfold src_Transaction_vsize, tx_vsize, div_ceil4. cbv zeta. now rewrite src_weight. Qed.
Lemma fold_left_ext {A B} (f g : A -> B -> A) l a : (forall a b, f a b = g a b) -> fold_left f l a = fold_left g l a.
Proof. intros E. revert a. induction l as [|x l IH]; intros a; cbn [fold_left]; [reflexivity|]. now rewrite E, IH. Qed.
Lemma src_discount_weight t : src_Transaction_discount_weight t = discount_weight t.
Proof.
  unfold src_Transaction_discount_weight, discount_weight. cbv zeta. rewrite src_scaled_size. fold (tx_weight t).
  apply fold_left_ext. intros w o. unfold src_TxOutWitness_rangeproof_len, src_TxOutWitness_surjectionproof_len, output_wit, optlen.
  rewrite src_value_is_conf, src_nonce_is_conf.
  destruct (value_is_conf (out_value o)), (nonce_is_conf (out_nonce o)); cbv zeta; lia.
Qed.
Lemma src_discount_vsize t : src_Transaction_discount_vsize t = discount_vsize t.
Proof. unfold src_Transaction_discount_vsize, discount_vsize, div_ceil4. now rewrite src_discount_weight. Qed.
Section BLK.
Variables maxvec cap_vecu8 : N.
Lemma src_block_size b : src_Block_size maxvec cap_vecu8 b = block_size maxvec cap_vecu8 b.
Proof. unfold src_Block_size, block_size. cbv zeta. rewrite src_varint_size. f_equal. apply nsum_map_ext. exact src_size. Qed.
Lemma src_block_weight b : src_Block_weight maxvec cap_vecu8 b = block_weight maxvec cap_vecu8 b.
Proof. unfold src_Block_weight, block_weight. cbv zeta. rewrite src_varint_size. f_equal. apply nsum_map_ext. exact src_weight. Qed.
End BLK.

(* ---- the generated no-panic conditions of the size accessors are true for every transaction and block (the only partial operation they contain
   is the division by the constant 4; discount_weight, whose loop subtracts, is covered by C12_discount: no subtraction goes below zero) *)
Lemma src_scaled_size_safe t k : src_Transaction_scaled_size_safe t k = true.
Proof.
  unfold src_Transaction_scaled_size_safe. cbv zeta.
  destruct (src_preds_safe VNull ANull NNull null_issuance empty_inwit empty_outwit
              {| in_prev := {| o_txid := []; o_vout := 0 |}; in_pegin := false; in_script := []; in_seq := 0; in_iss := null_issuance; in_wit := empty_inwit |} t 0)
    as (_ & _ & _ & _ & _ & _ & _ & _ & _ & _ & _ & _ & _ & _ & _ & _ & _ & _ & HW & _).
  rewrite HW. cbn [andb].
  apply andb_true_iff. split; apply forallb_forall; intros x _.
  - assert (HI : src_TxIn_has_issuance_safe x = true) by (unfold src_TxIn_has_issuance_safe, src_AssetIssuance_is_null_safe; destruct (src_Value_is_null _); reflexivity).
    rewrite HI. destruct (src_TxIn_has_issuance x), (src_Transaction_has_witness t); reflexivity.
  - destruct (src_Transaction_has_witness t); reflexivity.
Qed.
Lemma src_size_safe t : src_Transaction_size_safe t = true.       Proof. apply src_scaled_size_safe. Qed.
Lemma src_weight_safe t : src_Transaction_weight_safe t = true.   Proof. apply src_scaled_size_safe. Qed.
Lemma src_vsize_safe t : src_Transaction_vsize_safe t = true.
Proof. unfold src_Transaction_vsize_safe. rewrite src_weight_safe. reflexivity. Qed.
Section BLKSAFE.
Variables maxvec cap_vecu8 : N.
Lemma src_block_size_safe b : src_Block_size_safe maxvec cap_vecu8 b = true.
Proof. unfold src_Block_size_safe. cbv zeta. apply andb_true_iff. split.
  - unfold src_VarInt_size_safe. repeat match goal with |- context [if ?c then _ else _] => destruct c end; reflexivity.
  - apply forallb_forall. intros x _. apply src_size_safe. Qed.
Lemma src_block_weight_safe b : src_Block_weight_safe maxvec cap_vecu8 b = true.
Proof. unfold src_Block_weight_safe. cbv zeta. apply andb_true_iff. split.
  - unfold src_VarInt_size_safe. repeat match goal with |- context [if ?c then _ else _] => destruct c end; reflexivity.
  - apply forallb_forall. intros x _. apply src_weight_safe. Qed.
End BLKSAFE.
