(* C16 / C06 / C10 — Address::from_script as TRANSLATED from src/address.rs (Gen/SrcAddr.v: chain of template tests, payload constructor, byte
   range and witness-version expression of every arm) equals the hand-written model (Model/Script.v from_script) on EVERY script, and its
   generated no-panic condition holds for every script. *)
From Coq Require Import List Arith NArith Bool Lia ZifyBool ZifyN ZifyNat.
From Coq.Strings Require Import Byte.
From EV Require Import Base.Bytes Gen.Tables Model.Script Gen.SrcScript Gen.SrcAddr Proofs.SrcScript Proofs.ScriptTemplates.
Import ListNotations.
Open Scope N_scope.

Definition payload_of (r : option (N * N * bytes)) : option payload :=
  match r with
  | None => None
  | Some (k, v, d) => Some (if k =? 0 then PubkeyHash d else if k =? 1 then ScriptHash d else WitnessProgram v d)
  end.

Lemma len_is_len (s : bytes) n : len_is s n = true -> length s = n. Proof. apply Nat.eqb_eq. Qed.
Lemma slice_len (s : bytes) a b : (b <= length s)%nat -> length (slice s a b) = (b - a)%nat.
Proof. intro L. unfold slice. rewrite firstn_length, skipn_length. lia. Qed.
Lemma p2pkh_len s : is_p2pkh s = true -> length s = 25%nat.
Proof. unfold is_p2pkh. intro H. repeat (apply andb_true_iff in H as [H _]). now apply len_is_len. Qed.
Lemma p2sh_len s : is_p2sh s = true -> length s = 23%nat.
Proof. unfold is_p2sh. intro H. repeat (apply andb_true_iff in H as [H _]). now apply len_is_len. Qed.
Lemma p2wpkh_len s : is_v0_p2wpkh s = true -> length s = 22%nat.
Proof. unfold is_v0_p2wpkh. intro H. repeat (apply andb_true_iff in H as [H _]). now apply len_is_len. Qed.
Lemma p2wsh_len s : is_v0_p2wsh s = true -> length s = 34%nat.
Proof. unfold is_v0_p2wsh. intro H. repeat (apply andb_true_iff in H as [H _]). now apply len_is_len. Qed.
Lemma v1plus_facts s : is_v1plus_p2witprog s = true -> (2 <= length s)%nat /\ 81 <= at_ s 0 <= 96.
Proof.
  unfold is_v1plus_p2witprog, lenN, OP_PUSHNUM_1, OP_PUSHNUM_16. intro H.
  apply andb_true_iff in H as [H _]. apply andb_true_iff in H as [H _]. apply andb_true_iff in H as [H U]. apply andb_true_iff in H as [H L].
  apply andb_true_iff in H as [H _]. lia.
Qed.

Theorem src_from_script_is_model s : from_script s = Val (payload_of (src_from_script s)).
Proof.
  unfold from_script, src_from_script.
  rewrite (src_is_p2pkh s). rewrite (src_is_p2sh s). rewrite (src_is_v0_p2wpkh s). rewrite (src_is_v0_p2wsh s). rewrite (src_is_v1plus_p2witprog s).
  destruct (is_p2pkh s) eqn:A.
  { unfold arr20. replace (len_is (slice s 3 23) 20) with true; [reflexivity|].
    symmetry. apply Nat.eqb_eq. rewrite slice_len; [reflexivity|]. rewrite (p2pkh_len s A). lia. }
  destruct (is_p2sh s) eqn:B.
  { unfold arr20. replace (len_is (slice s 2 22) 20) with true; [reflexivity|].
    symmetry. apply Nat.eqb_eq. rewrite slice_len; [reflexivity|]. rewrite (p2sh_len s B). lia. }
  destruct (is_v0_p2wpkh s); [reflexivity|]. destruct (is_v0_p2wsh s); [reflexivity|].
  destruct (is_v1plus_p2witprog s) eqn:E; [|reflexivity].
  destruct (v1plus_facts s E) as (_ & L & U).
  replace (at_ s 0 <? 80) with false by lia. replace (32 <=? at_ s 0 - 80) with false by lia. reflexivity.
Qed.

Theorem src_from_script_safe_all s : src_from_script_safe s = true.
Proof.
  unfold src_from_script_safe, blen.
  rewrite (src_is_p2pkh s). rewrite (src_is_p2sh s). rewrite (src_is_v0_p2wpkh s). rewrite (src_is_v0_p2wsh s). rewrite (src_is_v1plus_p2witprog s).
  destruct (is_p2pkh s) eqn:A. { rewrite (p2pkh_len s A). reflexivity. }
  destruct (is_p2sh s) eqn:B. { rewrite (p2sh_len s B). reflexivity. }
  destruct (is_v0_p2wpkh s) eqn:C. { rewrite (p2wpkh_len s C). reflexivity. }
  destruct (is_v0_p2wsh s) eqn:D. { rewrite (p2wsh_len s D). reflexivity. }
  destruct (is_v1plus_p2witprog s) eqn:E; [|reflexivity].
  destruct (v1plus_facts s E) as (L2 & L & U). lia.
Qed.

(* consequences carried into the properties: the translated function never panics and, when it yields an address payload, that payload's
   script is the original script (through the model's from_script_spk) *)
Corollary src_from_script_total s : exists r, from_script s = Val r.
Proof. eexists. apply src_from_script_is_model. Qed.
(* whenever the translated from_script yields a payload, the script that pays to that payload is the original script *)
Theorem src_from_script_roundtrip p s r : src_from_script s = Some r -> script_pubkey p (match payload_of (Some r) with Some a => a | None => PubkeyHash [] end) = Val s.
Proof.
  intro E. pose proof (src_from_script_is_model s) as M. rewrite E in M.
  destruct (payload_of (Some r)) as [a|] eqn:P; [|destruct r as [[k v] d]; discriminate].
  exact (Proofs.ScriptTemplates.from_script_spk p s a M).
Qed.
